"""Independent isomorphism oracle: brute force over all bijections for small graphs, networkx VF2
(not part of the library under test) above that."""
from __future__ import annotations
import itertools
import networkx as nx


def ident_of(d: dict):
    return (d.get("element_symbol"), d.get("mass", 0) or 0, d.get("rad", 0) or 0)


def brute_iso(nodes1, edges1, col1, nodes2, edges2, col2):
    if len(nodes1) != len(nodes2) or len(edges1) != len(edges2):
        return None
    if sorted(col1[a] for a in nodes1) != sorted(col2[a] for a in nodes2):
        return None
    e2 = {frozenset(e) for e in edges2}
    for perm in itertools.permutations(nodes2):
        m = dict(zip(nodes1, perm))
        if all(col1[a] == col2[m[a]] for a in nodes1) and all(frozenset((m[a], m[b])) in e2 for a, b in edges1):
            return m
    return None


def isomorphic(g1: nx.Graph, g2: nx.Graph, colour=ident_of) -> bool:
    if g1.number_of_nodes() != g2.number_of_nodes() or g1.number_of_edges() != g2.number_of_edges():
        return False
    if g1.number_of_nodes() <= 7:
        c1 = {n: colour(d) for n, d in g1.nodes(data=True)}
        c2 = {n: colour(d) for n, d in g2.nodes(data=True)}
        return brute_iso(list(g1.nodes), list(g1.edges), c1, list(g2.nodes), list(g2.edges), c2) is not None
    return nx.is_isomorphic(g1, g2, node_match=lambda a, b: colour(a) == colour(b))


def automorphisms(g: nx.Graph, colour=ident_of, limit=200):
    from networkx.algorithms.isomorphism import GraphMatcher
    gm = GraphMatcher(g, g, node_match=lambda a, b: colour(a) == colour(b))
    out = []
    for m in gm.isomorphisms_iter():
        out.append(m)
        if len(out) >= limit:
            break
    return out
