"""Line protocol shared with the Lean driver: encoders for inputs, canonical dumps for results,
and the driver runner.  See lean/TucanModel/Codec.lean for the other side."""
from __future__ import annotations
import os
import re
import subprocess
import networkx as nx

VERIF = os.path.dirname(os.path.dirname(os.path.abspath(__file__)))
LEAN_DIR = os.path.join(VERIF, "lean")
DRIVER = os.path.join(LEAN_DIR, ".lake", "build", "bin", "tucan_driver")

TAG = "vtag"  # the harness's own attribute, modelled as `extra`

ATOM_KEYS = [
    ("sym", "element_symbol"), ("z", "atomic_number"), ("part", "partition"), ("mass", "mass"),
    ("rad", "rad"), ("chg", "chg"), ("x", "x_coord"), ("y", "y_coord"), ("zc", "z_coord"),
    ("inv", "invariant_code"), ("explored", "explored"), ("extra", TAG),
]
KNOWN_ATOM_KEYS = {k for _, k in ATOM_KEYS}
BOND_KEYS = [("bt", "bond_type"), ("extra", TAG)]
KNOWN_BOND_KEYS = {k for _, k in BOND_KEYS}


def esc(s: str) -> str:
    out = ['"']
    for c in s:
        o = ord(c)
        if c == " ":
            out.append("\\s")
        elif c == "\\":
            out.append("\\\\")
        elif c == "\n":
            out.append("\\n")
        elif c == "\r":
            out.append("\\r")
        elif c == "\t":
            out.append("\\t")
        elif o < 33 or o > 126:
            out.append("\\u{%x}" % o)
        else:
            out.append(c)
    return "".join(out)


def _coord(v) -> str:
    try:
        return repr(float(v))
    except Exception:
        return "!" + repr(v)


def _coord6(v) -> str:
    return f"{v:.6f}"


def enc_opt_int(v) -> str:
    try:
        return "_" if v is None else str(int(v))
    except Exception:
        return "_"


def enc_atom(d: dict, coord=_coord) -> list[str]:
    # never raises: an attribute outside the modelled set is left out of the line sent to the model, while the dump of
    # the real result prints UNMODELLED=..., so the operation shows as a disagreement instead of crashing the check
    t = []
    t.append("_" if "element_symbol" not in d else esc(d["element_symbol"]))
    for k in ("atomic_number", "partition", "mass", "rad", "chg"):
        t.append(enc_opt_int(d.get(k)))
    for k in ("x_coord", "y_coord", "z_coord"):
        t.append("_" if k not in d else esc(coord(d[k])))
    if "invariant_code" not in d:
        t.append("_")
    else:
        inv = d["invariant_code"]
        try:
            t.append(",".join(str(int(i)) for i in inv) if len(inv) else "nil")
        except Exception:
            t.append("_")
    t.append("_" if "explored" not in d else ("T" if d["explored"] else "F"))
    t.append("_" if TAG not in d else esc(str(d[TAG])))
    return t


def enc_bond(d: dict) -> list[str]:
    return [enc_opt_int(d.get("bond_type")), "_" if TAG not in d else esc(str(d[TAG]))]


def enc_graph(g: nx.Graph, coord=_coord) -> list[str]:
    t = [str(g.number_of_nodes())]
    for n, d in g.nodes(data=True):
        t.append(str(int(n)))
        t += enc_atom(d, coord)
        nb = g._adj[n]
        t.append(str(len(nb)))
        for v, bd in nb.items():
            t.append(str(int(v)))
            t += enc_bond(bd)
    return t


def enc_nat_list(l) -> list[str]:
    return [str(len(l))] + [str(int(x)) for x in l]


def enc_str_list(l) -> list[str]:
    return [str(len(l))] + [esc(x) for x in l]


def enc_atom_dict(d: dict) -> list[str]:
    t = [str(len(d))]
    for k, a in d.items():
        t.append(str(int(k)))
        t += enc_atom(a)
    return t


def enc_bond_dict(d: dict) -> list[str]:
    t = [str(len(d))]
    for (u, v), b in d.items():
        t += [str(int(u)), str(int(v))] + enc_bond(b)
    return t


# ---- canonical dumps of real results (must print exactly what Codec.lean prints) ----

def _iv(v) -> str:
    """an integer-valued attribute; anything else (None, a string, ...) is printed so that it never equals model output"""
    try:
        if v is None or isinstance(v, (str, bytes, bool)):
            raise TypeError
        return str(int(v))
    except Exception:
        return "!" + esc(repr(v))


def show_atom(d: dict) -> str:
    f = []
    for short, key in ATOM_KEYS:
        if key not in d:
            continue
        v = d[key]
        if short in ("sym", "extra"):
            s = esc(str(v))
        elif short in ("x", "y", "zc"):
            s = esc(_coord(v))
        elif short == "inv":
            try:
                s = ",".join(_iv(i) for i in v) if len(v) else "nil"
            except Exception:
                s = "!" + esc(repr(v))
        elif short == "explored":
            s = "T" if v else "F"
        else:
            s = _iv(v)
        f.append(f"{short}={s}")
    extra = set(d) - KNOWN_ATOM_KEYS
    if extra:
        f.append("UNMODELLED=" + ",".join(sorted(map(str, extra))))
    return "{" + ",".join(f) + "}"


def show_bond(d: dict) -> str:
    f = []
    if "bond_type" in d:
        f.append(f"bt={_iv(d['bond_type'])}")
    if TAG in d:
        f.append("extra=" + esc(str(d[TAG])))
    extra = set(d) - KNOWN_BOND_KEYS
    if extra:
        f.append("UNMODELLED=" + ",".join(sorted(map(str, extra))))
    return "(" + ",".join(f) + ")"


def show_graph(g: nx.Graph) -> str:
    nodes = []
    for n, d in g.nodes(data=True):
        nb = ",".join(f"{int(v)}{show_bond(bd)}" for v, bd in g._adj[n].items())
        nodes.append(f"{int(n)}{show_atom(d)}:{nb}")
    return "G[" + "|".join(nodes) + "]"


def show_atom_dict(d: dict) -> str:
    return "A[" + "|".join(f"{int(k)}{show_atom(a)}" for k, a in d.items()) + "]"


def show_bond_dict(d: dict) -> str:
    return "B[" + "|".join(f"{int(u)}-{int(v)}{show_bond(b)}" for (u, v), b in d.items()) + "]"


def show_pairs(d: dict) -> str:
    return "[" + ",".join(f"{int(a)}:{int(b)}" for a, b in d.items()) + "]"


def show_str_list(l) -> str:
    return "[" + ",".join(esc(x) for x in l) + "]"


def show_err(e: BaseException) -> str:
    known = {"MolfileParserException", "TucanParserException", "KeyError", "IndexError", "ValueError",
             "AssertionError", "RecursionError", "TypeError", "OSError"}
    # the library's own exception types count with their subclasses ("the parser's own exception type")
    for cls in type(e).__mro__:
        if cls.__name__ in ("TucanParserException", "MolfileParserException"):
            return "ERR " + cls.__name__
    name = type(e).__name__
    return "ERR " + (name if name in known else "Other:" + name)


def fields(*l) -> str:
    return " ; ".join(l)


# ---- canonicalisation of model output ----

_COORD_RE = re.compile(r'\b(x|y|zc)=("(?:\\u\{[0-9a-fA-F]+\}|[^,}|\]])*)')


def _unesc(tok: str) -> str:
    assert tok.startswith('"')
    s = tok[1:]
    out = []
    i = 0
    while i < len(s):
        c = s[i]
        if c == "\\":
            n = s[i + 1]
            if n == "s":
                out.append(" "); i += 2
            elif n == "\\":
                out.append("\\"); i += 2
            elif n == "n":
                out.append("\n"); i += 2
            elif n == "r":
                out.append("\r"); i += 2
            elif n == "t":
                out.append("\t"); i += 2
            elif n == "u":
                j = s.index("}", i)
                out.append(chr(int(s[i + 3:j], 16))); i = j + 1
            else:
                out.append(c); i += 1
        else:
            out.append(c); i += 1
    return "".join(out)


def canon_coords(text: str) -> str:
    """Coordinates are opaque tokens in the model; compare them as Python floats."""
    def rep(m):
        try:
            return f"{m.group(1)}={esc(repr(float(_unesc(m.group(2)))))}"
        except Exception:
            return m.group(0)
    return _COORD_RE.sub(rep, text)


_SCRATCH_RE = re.compile(r",explored=[TF]|explored=[TF],|explored=[TF]")


def strip_scratch(text: str) -> str:
    """The serializer's scratch flag (`explored`) on its argument is an implementation detail no property speaks
    about (C12 only asks that no chemically meaningful attribute is altered): it is not compared."""
    return _SCRATCH_RE.sub("", text)


_NODE_SPLIT = re.compile(r"\|")


def normalise_graph_dump(text: str, keep_node_order: bool = False) -> str:
    """Order-insensitive form of every graph dump inside `text` (nodes sorted by label, neighbours
    sorted): the observable level for properties that do not speak about listing order.  With
    `keep_node_order` only the neighbour lists are sorted: the level for properties that speak about the
    order of atoms but not about the order in which an atom's bonds are stored."""
    def norm(m):
        body = m.group(1)
        if not body:
            return "G[]"
        nodes = []
        for nd in body.split("|"):
            head, _, nb = nd.rpartition(":")
            # a '}' always closes the attribute dictionary right before ':'
            nbs = sorted(nb.split(",")) if nb else []
            nodes.append((int(re.match(r"-?\d+", head).group()), head + ":" + ",".join(nbs)))
        if not keep_node_order:
            nodes.sort()
        return "G[" + "|".join(n for _, n in nodes) + "]"
    return re.sub(r"G\[([^\]]*)\]", norm, text)


def run_driver(lines: list[str], timeout: float = 3600) -> list[str]:
    if not os.path.exists(DRIVER):
        raise RuntimeError("driver not built: " + DRIVER)
    inp = "\n".join(lines) + "\n"
    p = subprocess.run([DRIVER], input=inp.encode(), stdout=subprocess.PIPE, stderr=subprocess.PIPE,
                       timeout=timeout)
    if p.returncode != 0:
        raise RuntimeError(f"driver failed rc={p.returncode}: {p.stderr.decode()[:2000]}")
    out = p.stdout.decode().split("\n")
    if out and out[-1] == "":
        out.pop()
    if len(out) != len(lines):
        raise RuntimeError(f"driver returned {len(out)} lines for {len(lines)} ops")
    return out
