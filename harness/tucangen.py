"""TUCAN strings: sentences generated from the grammar, their edits, and meaning-preserving
respellings.  Written from tucan.ebnf; shares no code with the library."""
from __future__ import annotations
import random
import re
from .gen import ELEMENTS, Z, HILL_TRAPS

TOKEN_RE = re.compile(r"[A-Z][a-z]?|mass|rad|[0-9]+|.", re.S)


def hill_order(symbols):
    syms = sorted(set(symbols))
    if "C" in syms:
        rest = [s for s in syms if s not in ("C", "H")]
        return ["C"] + (["H"] if "H" in syms else []) + rest
    return syms


def gen_sentence(rng: random.Random, max_elems=5, max_count=14, canonical_order=None):
    """Returns (string, spec) where spec = (counts {sym:count}, bonds [(a,b)], attrs {idx:{key:val}})
    with 1-based indices in blocks of increasing atomic number."""
    k = rng.randint(0 if rng.random() < 0.03 else 1, max_elems)
    pool = HILL_TRAPS if rng.random() < 0.6 else ELEMENTS
    syms = list(dict.fromkeys(rng.choice(pool) for _ in range(k)))  # first-seen order: no dependence on the hash seed
    counts = {}
    for s in syms:
        r = rng.random()
        counts[s] = 1 if r < 0.35 else rng.randint(2, min(9, max(2, max_count))) if (r < 0.8 or max_count < 10) else rng.randint(10, max_count)
    n = sum(counts.values())
    bonds = []
    if n >= 2:
        for _ in range(rng.randint(0, min(2 * n, 30))):
            a, b = rng.randint(1, n), rng.randint(1, n)
            if a != b:
                bonds.append((a, b))
    attrs = {}
    if n >= 1:
        for _ in range(rng.randint(0, 3)):
            i = rng.randint(1, n)
            d = attrs.setdefault(i, {})
            key = rng.choice(["mass", "rad"])
            if key not in d:
                d[key] = rng.choice([1, 2, 3, 13, 14, 235, 1000])
    return spell(counts, bonds, attrs, rng), (counts, bonds, attrs)


def spell(counts, bonds, attrs, rng=None, attr_blocks=None):
    f = "".join(s + (str(counts[s]) if counts[s] > 1 else "") for s in hill_order(counts))
    t = "".join(f"({a}-{b})" for a, b in bonds)
    if attr_blocks is None:
        attr_blocks = [(i, list(d.items())) for i, d in attrs.items()]
    a = "".join(f"({i}:" + ",".join(f"{k}={v}" for k, v in kv) + ")" for i, kv in attr_blocks if kv)
    s = f + "/" + t
    if a or (rng is not None and rng.random() < 0.05):
        s += "/" + a
    return s


def tokens(s: str):
    return TOKEN_RE.findall(s)


EDIT_TOKENS = ["(", ")", "-", ":", ",", "=", "/", "mass", "rad", "0", "1", "2", "9", "10", "01", "C", "H", "Cl", "Cs",
               "Co", "Cn", "c", "X", "Xe", " ", "\n", "1_0", "+1", "٣", "He", "B", "Br", "m", "ra"]


def edits(s: str, rng: random.Random, k: int):
    """k single-token edits of s: insertions, deletions, replacements, transpositions"""
    toks = tokens(s)
    out = []
    for _ in range(k):
        t = list(toks)
        kind = rng.randint(0, 3)
        if kind == 0 or not t:
            t.insert(rng.randint(0, len(t)), rng.choice(EDIT_TOKENS))
        elif kind == 1:
            del t[rng.randrange(len(t))]
        elif kind == 2:
            t[rng.randrange(len(t))] = rng.choice(EDIT_TOKENS)
        else:
            if len(t) >= 2:
                i = rng.randrange(len(t) - 1)
                t[i], t[i + 1] = t[i + 1], t[i]
        out.append("".join(t))
    return out


def all_single_edits(s: str, limit=None):
    toks = tokens(s)
    out = []
    for i in range(len(toks) + 1):
        for e in EDIT_TOKENS:
            out.append("".join(toks[:i] + [e] + toks[i:]))
    for i in range(len(toks)):
        out.append("".join(toks[:i] + toks[i + 1:]))
        for e in EDIT_TOKENS:
            out.append("".join(toks[:i] + [e] + toks[i + 1:]))
    for i in range(len(toks) - 1):
        out.append("".join(toks[:i] + [toks[i + 1], toks[i]] + toks[i + 2:]))
    return out[:limit] if limit else out


def respell(counts, bonds, attrs, rng: random.Random):
    """A meaning-preserving respelling: tuple order, endpoint swaps, repeated tuples, split/reordered
    attribute blocks, renumbering inside element blocks."""
    # block ranges by increasing Z
    order = sorted(counts, key=lambda s: Z[s])
    perm = {}
    start = 1
    for s in order:
        idx = list(range(start, start + counts[s]))
        sh = list(idx)
        if rng.random() < 0.7:
            rng.shuffle(sh)
        perm.update(dict(zip(idx, sh)))
        start += counts[s]
    b2 = [(perm[a], perm[b]) for a, b in bonds]
    b2 = [(b, a) if rng.random() < 0.5 else (a, b) for a, b in b2]
    if b2 and rng.random() < 0.5:
        b2 += [rng.choice(b2) for _ in range(rng.randint(1, 2))]
        b2 += [(b, a) for a, b in [rng.choice(b2)]]
    rng.shuffle(b2)
    blocks = []
    for i, d in attrs.items():
        kv = list(d.items())
        rng.shuffle(kv)
        if len(kv) > 1 and rng.random() < 0.5:
            blocks += [(perm[i], [kv[0]]), (perm[i], kv[1:])]
        else:
            blocks.append((perm[i], kv))
    rng.shuffle(blocks)
    return spell(counts, b2, attrs, None, attr_blocks=blocks)


def denote(counts, bonds, attrs):
    """Reference meaning of a sentence: atoms 0..n-1 by increasing Z; bond set; attributes."""
    order = sorted(counts, key=lambda s: Z[s])
    atoms = []
    for s in order:
        atoms += [s] * counts[s]
    bset = {frozenset((a - 1, b - 1)) for a, b in bonds}
    at = {i - 1: dict(d) for i, d in attrs.items() if d}
    return atoms, bset, at
