"""Per-property workloads: each generates inputs, evaluates the property on the REAL code (probe) and
queues correspondence operations (real result vs Lean model).  `budget` scales the number of cases
(1 = quick; the thorough tier and the failing-input search use larger budgets)."""
from __future__ import annotations
import copy
import glob
import itertools
import os
import random
import sys
import networkx as nx

from . import proto as P, real as R, gen as G, render as RD, tucangen as TG, iso as ISO, validator as VAL

from tucan.graph_utils import graph_from_molecule, permute_molecule
from tucan.canonicalization import canonicalize_molecule
import tucan.canonicalization as _CAN


def partition_molecule_by_attribute(*a, **k):
    """module-level helper of the library (used by its tests and docs, but not one of the operations the properties
    name): resolved at call time, so that a refactoring which moves it shows as a lost correspondence, not a crash"""
    return _CAN.partition_molecule_by_attribute(*a, **k)


def refine_partitions(*a, **k):
    return _CAN.refine_partitions(*a, **k)
from tucan.serialization import serialize_molecule
from tucan.parser.parser import graph_from_tucan, TucanParserException
from tucan.io import graph_from_molfile_text, graph_to_molfile
from tucan.io.exception import MolfileParserException

REPO = "/repo"


def mol_graph(m: G.Mol) -> nx.Graph:
    a, b = G.to_dicts(m)
    return graph_from_molecule(a, b)


def shuffled_listing(g: nx.Graph, rng) -> nx.Graph:
    """the same labelled graph with its nodes and edges inserted in another order (as the results of
    relabel_nodes / canonicalize_molecule are)"""
    h = nx.Graph()
    order = list(g.nodes)
    rng.shuffle(order)
    for n in order:
        h.add_node(n, **g.nodes[n])
    es = list(g.edges(data=True))
    rng.shuffle(es)
    for a, b, d in es:
        if rng.random() < 0.5:
            a, b = b, a
        h.add_edge(a, b, **d)
    return h


def any_listing(g: nx.Graph, rng) -> nx.Graph:
    """half of the time the graph as graph_from_molecule lists it (labels = listing positions), half of the
    time the same labelled graph listed in another order (as relabel_nodes / canonicalize_molecule produce)"""
    return shuffled_listing(g, rng) if rng.random() < 0.5 else g


def history_descriptions(g: nx.Graph, c: nx.Graph, rng):
    """descriptions of the same molecule that have been through the library before: the canonical graph renumbered
    (it carries partition classes and whatever graph-level attributes the library attached), the input with a
    coarser partition already on it (by element, as the library's own partition_molecule_by_attribute leaves it)"""
    out = []
    labels = list(c.nodes)
    sh = list(labels)
    rng.shuffle(sh)
    out.append(("renumbered canonical graph", nx.relabel_nodes(c, dict(zip(labels, sh)), copy=True)))
    p, err = safe(partition_molecule_by_attribute, g, "atomic_number")
    if p is not None:
        out.append(("partitioned by element before", p))
    return out


class CallTimeout(BaseException):
    pass


class limit:
    """`with limit(s):` — abandon a single library call after `s` seconds (C15: "returns normally").  Shares the process's
    one alarm clock with the deadline of the whole workload (check.py) and hands it back afterwards."""

    def __init__(self, seconds):
        self.seconds = int(seconds)

    def __enter__(self):
        import signal
        import time as _t
        self.t0 = _t.time()
        self.old_handler = signal.getsignal(signal.SIGALRM)

        def on_alarm(signum, frame):
            raise CallTimeout(f"no result after {self.seconds} s")
        self.remaining = signal.alarm(0)
        signal.signal(signal.SIGALRM, on_alarm)
        signal.alarm(self.seconds if not self.remaining else max(1, min(self.seconds, self.remaining)))
        return self

    def __exit__(self, et, ev, tb):
        import signal
        import time as _t
        signal.alarm(0)
        signal.signal(signal.SIGALRM, self.old_handler)
        if self.remaining:
            signal.alarm(max(1, int(self.remaining - (_t.time() - self.t0))))
        return False


def tucan_of(g: nx.Graph) -> str:
    return serialize_molecule(canonicalize_molecule(g))


def safe(f, *a):
    """(result, None) or (None, exception); a `None` result of a library function counts as an error"""
    try:
        r = f(*a)
    except RecursionError as e:
        return None, e
    except Exception as e:
        return None, e
    if r is None:
        return None, TypeError(f"{getattr(f, '__name__', f)} returned None")
    return r, None


def repo_molfiles(kind="v3000"):
    d = "molfiles" if kind == "v3000" else "molfiles_v2000"
    return sorted(glob.glob(os.path.join(REPO, "tests", d, "*", "*.mol")))


def mol_repr(m: G.Mol):
    return {"family": m.family, "atoms": [{k: v for k, v in a.items() if k in ("sym", "mass", "rad", "chg")} for a in m.atoms],
            "bonds": m.bonds}


def graph_summary(g: nx.Graph):
    return {"nodes": {int(n): {k: (list(v) if isinstance(v, tuple) else v) for k, v in d.items()} for n, d in g.nodes(data=True)},
            "edges": [[int(a), int(b)] for a, b in g.edges]}


def sizes(run, m: G.Mol):
    run.stats["family:" + m.family.split(":")[0]] += 1
    n = m.n()
    run.stats["size:" + ("1" if n == 1 else "2-5" if n <= 5 else "6-12" if n <= 12 else "13-30" if n <= 30 else "31+")] += 1


THOROUGH = False


def molecules(run, rng, count, max_n=22):
    for _ in range(count):
        big = THOROUGH and rng.random() < 0.1
        m = G.gen_mol(rng, max_n=max_n * 5 if big else max_n)
        sizes(run, m)
        if run.stats["corr_op:GFM"] < 40 * (20 if THOROUGH else 1):
            # graph_from_molecule builds every graph the workloads use: compared with the model on the dictionaries themselves
            a, b = G.to_dicts(m)
            run.corr(*R.op_gfm(copy.deepcopy(a), copy.deepcopy(b)), "atom-order")
        yield m


# =====================================================================================
# C01 / C04 / C13 / C12 share the canonicalisation pipeline
# =====================================================================================

def queue_pipeline_ops(run, g: nx.Graph, want=("canon", "serialize")):
    """CANON + FINAL + SERIALIZE correspondence for one graph; returns (canonical graph, string)."""
    line, real, info = R.op_canon(g)
    run.corr(line, real, "observable")
    c = info.get("canon")
    s = None
    orc = info.get("oracle") or []
    for o in orc:
        if "order" in o:
            run.stats["oracle_calls"] += 1
            if sorted(o["order"]) != sorted(o["names"]):
                run.fail("oracle-order-not-a-permutation", "igraph returned an order that is not a permutation of the labels",
                         {"oracle": o})
    if c is not None and "serialize" in want:
        c2 = c.copy()
        line, real, sinfo = R.op_serialize(c2)
        run.corr(line, real, "observable")
        s = sinfo.get("string")
        if run.stats["corr_op:COPY"] < 10 * (20 if THOROUGH else 1):
            run.corr(*R.op_copy(c.copy()), "exact")          # networkx's Graph.copy against the model's container
        if run.stats["corr_op:FINAL"] < 25 * (20 if THOROUGH else 1):
            # the two internal steps of the serializer (cosmetic relabelling, sort by atomic number), each against the model
            run.corr(*R.op_final(c.copy()), "observable")
            run.corr(*R.op_sortby(c.copy(), "z"), "observable")
    return c, s, info


def oracle_form(info):
    orc = (info or {}).get("oracle") or []
    if orc and "order" in orc[-1]:
        return orc[-1]
    return None


def _logged_graph(log):
    g = nx.Graph()
    for i, name in enumerate(log["names"]):
        g.add_node(i, colour=None if log.get("color") is None else log["color"][i])
    g.add_edges_from(log["edges"])
    return g


def check_oracle_contract(run, base_log, logs, m, m2):
    """Validation of the ASSUMPTION about igraph/bliss (`CanonOracle.canonical`): colour-isomorphic inputs must get
    identical canonical forms.  This looks at an internal of the library (which calls of igraph it makes, with
    which colours), so it never decides a property: what it sees goes into the evidence as a diagnosis (igraph at
    fault / the colouring handed to igraph depends on the description) next to whatever the probes report about
    strings and canonical graphs.  Only calls on the whole molecule are compared."""
    n = m.n()
    whole = [l for l in (logs or []) if "order" in l and len(l.get("names", [])) == n]
    if base_log is None or not whole or len(base_log.get("names", [])) != n:
        return
    run.stats["oracle_pairs_checked"] += 1
    try:
        if R.canonical_form(whole[-1]) == R.canonical_form(base_log):
            return
        g1, g2 = _logged_graph(base_log), _logged_graph(whole[-1])
        same = nx.is_isomorphic(g1, g2, node_match=lambda a, b: a["colour"] == b["colour"])
    except Exception:
        run.stats["oracle_diagnosis:not-possible"] += 1
        return
    kind = "bliss-contract-violated" if same else "colouring-depends-on-description"
    run.stats["oracle_diagnosis:" + kind] += 1
    if len(run.notes) < 20:
        run.notes.append(f"oracle diagnosis ({kind}) for {mol_repr(m)} / {mol_repr(m2)}")


def exhaustive_small(run, rng, check, max_exhaustive=4):
    """every simple graph on up to `max_exhaustive` carbon atoms, three colourings (plain, one 13C, one 13C
    and one radical), ALL n! renumberings; on 5 atoms every graph with 12 random renumberings"""
    import itertools as it
    for n in range(1, 6):
        perms = list(it.permutations(range(n)))
        for edges in G.small_graphs(n):
            for colouring in range(3):
                atoms = [G._atom("C", i) for i in range(n)]
                if colouring >= 1:
                    atoms[0]["mass"] = 13
                if colouring == 2 and n >= 2:
                    atoms[n - 1]["rad"] = 2
                m = G.Mol(atoms, [(a, b, 1) for a, b in edges], f"exhaustive{n}")
                use = perms if n <= max_exhaustive else rng.sample(perms, 12)
                variants = []
                for perm in use:
                    at = [None] * n
                    for old, new in enumerate(perm):
                        at[new] = dict(m.atoms[old])
                    variants.append((G.Mol(at, [(perm[a], perm[b], t) for a, b, t in m.bonds], m.family), list(perm)))
                run.stats[f"exhaustive_n{n}"] += 1
                check(m, variants)


def regular_mixture_pairs(run, budget):
    """mixtures of different regular skeletons whose atoms refinement cannot tell apart, each described several times with the
    components, the atoms and the bonds listed in other orders (own random stream: the other workloads are unchanged)"""
    import random as _random
    rng = _random.Random(f"regular-mixtures-{os.environ.get('VERIF_SEED', '0')}")
    for m in G.regular_mixtures(rng, 24 * budget):
        sizes(run, m)
        queue_pipeline_ops(run, shuffled_listing(mol_graph(m), rng))
        s0, err = safe(tucan_of, mol_graph(m))
        if err is not None:
            run.fail("pipeline-raises", f"pipeline raised {type(err).__name__}", {"mol": mol_repr(m)})
            continue
        for _ in range(4):
            m2, perm = G.relabel(m, rng)
            g2 = shuffled_listing(mol_graph(m2), rng) if rng.random() < 0.7 else mol_graph(m2)
            s2, err = safe(tucan_of, g2)
            run.case(("C01mix", mol_repr(m), perm), True)
            if err is not None:
                run.fail("pipeline-raises", f"pipeline raised {type(err).__name__}", {"mol": mol_repr(m2)})
            elif s2 != s0:
                run.fail("string-differs-under-relabelling", f"two listings of one mixture give {s0!r} and {s2!r}",
                         {"mol": mol_repr(m), "relabelled": mol_repr(m2), "perm": perm, "strings": [s0, s2]})


def work_C01(run, rng, budget):
    if budget > 1:
        def chk(m, variants):
            s0, err = safe(tucan_of, mol_graph(m))
            if err is not None:
                run.fail("pipeline-raises", f"pipeline raised {type(err).__name__}", {"mol": mol_repr(m)})
                return
            for m2, perm in variants:
                s2, err2 = safe(tucan_of, mol_graph(m2))
                run.case(("C01x", mol_repr(m), perm), m.n() >= 2)
                if s2 != s0:
                    run.fail("string-differs-under-relabelling", f"{s0!r} vs {s2!r}",
                             {"mol": mol_repr(m), "relabelled": mol_repr(m2), "perm": perm, "strings": [s0, s2]})
        exhaustive_small(run, rng, chk)
    nmol = 120 * budget
    for m in molecules(run, rng, nmol):
        g = any_listing(mol_graph(m), rng)
        c, s0, info0 = queue_pipeline_ops(run, g)
        if s0 is None:
            s0, err = safe(tucan_of, mol_graph(m))
            if err is not None:
                run.fail("pipeline-raises", f"pipeline raised {type(err).__name__}", {"mol": mol_repr(m)})
                continue
        nontrivial = m.n() >= 2
        base_form = oracle_form(info0)
        for _ in range(3):
            m2, perm = G.relabel(m, rng)
            g2 = any_listing(mol_graph(m2), rng)
            n0 = len(R.ORACLE_LOG)
            s2, err = safe(tucan_of, g2)
            check_oracle_contract(run, base_form, R.ORACLE_LOG[n0:], m, m2)
            run.case(("C01", mol_repr(m), perm), nontrivial and perm != sorted(perm))
            if err is not None:
                run.fail("pipeline-raises", f"pipeline raised {type(err).__name__}", {"mol": mol_repr(m2)})
            elif s2 != s0:
                run.fail("string-differs-under-relabelling",
                         f"two listings of one molecule give {s0!r} and {s2!r}",
                         {"mol": mol_repr(m), "relabelled": mol_repr(m2), "perm": perm, "strings": [s0, s2]})
        if rng.random() < 0.5:
            c0, err = safe(canonicalize_molecule, mol_graph(m))
            if c0 is not None:
                for name, d in history_descriptions(mol_graph(m), c0, rng):
                    s2, err = safe(tucan_of, d)
                    run.case(("C01h", mol_repr(m), name), nontrivial)
                    run.stats["history:" + name] += 1
                    if s2 != s0:
                        run.fail("string-differs-under-relabelling", f"description with a history ({name}): {s0!r} vs {s2!r}",
                                 {"mol": mol_repr(m), "description": name, "graph": graph_summary(d), "strings": [s0, s2]})
        # the two descriptions as files: atom lines in another order with other index values, bond lines in
        # another order and orientation
        if m.n() <= 60 and rng.random() < 0.4:
            m2, perm = G.relabel(m, rng)
            ta, _ = RD.render_v3000(m, rng, {"star": False})
            tb, _ = (RD.render_v3000 if rng.random() < 0.7 else RD.render_v2000)(m2, rng, {"star": False} )
            ga, ea = safe(graph_from_molfile_text, ta)
            gb, eb = safe(graph_from_molfile_text, tb)
            sa, ea2 = safe(tucan_of, ga) if ga is not None else (None, ea)
            sb, eb2 = safe(tucan_of, gb) if gb is not None else (None, eb)
            run.case(("C01files", ta, tb), nontrivial)
            run.stats["file_pairs"] += 1
            if sa is None or sb is None or sa != sb or sa != s0:
                run.fail("string-differs-under-relabelling", f"two files describing one molecule give {sa!r} and {sb!r} (graph level: {s0!r})",
                         {"mol": mol_repr(m), "relabelled": mol_repr(m2), "perm": perm, "files": [ta, tb], "strings": [sa, sb]})
        run.sample({"mol": mol_repr(m), "tucan": s0})
    regular_mixture_pairs(run, budget)
    # the repository's own molecules, relabelled
    files = repo_molfiles()
    for f in rng.sample(files, min(len(files), 25 * budget)):
        g, err = safe(graph_from_molfile_text, open(f).read())
        if err is not None:
            run.fail("pipeline-raises", f"{os.path.basename(f)}: reader raised {type(err).__name__}", {"file": f})
            continue
        s0, err = safe(tucan_of, g)
        if err is not None:
            run.fail("pipeline-raises", f"{os.path.basename(f)}: {type(err).__name__}", {"file": f})
            continue
        run.stats["family:repo_molfile"] += 1
        for k in range(2):
            labels = list(g.nodes)
            sh = list(labels)
            rng.shuffle(sh)
            g2 = nx.Graph()
            order = list(labels)
            rng.shuffle(order)
            mp = dict(zip(labels, sh))
            for n in order:
                g2.add_node(mp[n], **g.nodes[n])
            es = list(g.edges(data=True))
            rng.shuffle(es)
            for a, b, d in es:
                if rng.random() < 0.5:
                    a, b = b, a
                g2.add_edge(mp[a], mp[b], **d)
            s2, err = safe(tucan_of, g2)
            run.case(("C01file", f, sh), True)
            if s2 != s0:
                run.fail("string-differs-under-relabelling", f"{os.path.basename(f)}: {s0!r} vs {s2!r}",
                         {"file": f, "mapping": mp, "strings": [s0, s2]})
    return "random molecules from 23 families (sparse/dense/trees/paths/cycles/ladders/combs/complete/bipartite/unions/" \
           "prisms/cube/Petersen/stars/isolated/rare elements/partially labelled orbits/rook vs Shrikhande/peptides/two components) " \
           "x 3 relabellings (permutation, atom listing, bond listing, bond orientation) + relabelled repository molfiles; " \
           "non-trivial = at least 2 atoms and a non-identity permutation; distinct by (molecule, permutation)"


def canon_maps(c: nx.Graph):
    nodes = {int(n): (d.get("element_symbol"), d.get("mass"), d.get("rad"), d.get("partition")) for n, d in c.nodes(data=True)}
    edges = {frozenset((int(a), int(b))) for a, b in c.edges}
    return nodes, edges


def work_C04(run, rng, budget):
    if budget > 1:
        def chk(m, variants):
            c0, err = safe(canonicalize_molecule, mol_graph(m))
            for m2, perm in variants:
                c2, err2 = safe(canonicalize_molecule, mol_graph(m2))
                run.case(("C04x", mol_repr(m), perm), m.n() >= 2)
                if c0 is None or c2 is None or canon_maps(c0) != canon_maps(c2):
                    run.fail("canonical-graph-differs-under-relabelling", "exhaustive small graphs",
                             {"mol": mol_repr(m), "relabelled": mol_repr(m2), "perm": perm})
        exhaustive_small(run, rng, chk)
    for m in molecules(run, rng, 120 * budget):
        g = any_listing(mol_graph(m), rng)
        c, _, info0 = queue_pipeline_ops(run, g, want=("canon",))
        if c is None:
            c, err = safe(canonicalize_molecule, mol_graph(m))
            if err is not None:
                run.fail("canonicalize-raises", type(err).__name__, {"mol": mol_repr(m)})
                continue
        base_form = oracle_form(info0)
        n0, e0 = canon_maps(c)
        if sorted(n0) != list(range(m.n())):
            run.fail("labels-not-0..n-1", f"canonical labels {sorted(n0)}", {"mol": mol_repr(m)})
        for _ in range(3):
            m2, perm = G.relabel(m, rng)
            k0 = len(R.ORACLE_LOG)
            c2, err = safe(canonicalize_molecule, any_listing(mol_graph(m2), rng))
            check_oracle_contract(run, base_form, R.ORACLE_LOG[k0:], m, m2)
            run.case(("C04", mol_repr(m), perm), m.n() >= 2 and perm != sorted(perm))
            if err is not None:
                run.fail("canonicalize-raises", type(err).__name__, {"mol": mol_repr(m2)})
                continue
            n2, e2 = canon_maps(c2)
            if n2 != n0 or e2 != e0:
                run.fail("canonical-graph-differs-under-relabelling",
                         "canonical graphs of two listings of one molecule differ",
                         {"mol": mol_repr(m), "relabelled": mol_repr(m2), "perm": perm,
                          "nodes": [n0, n2], "edges": [sorted(map(sorted, e0)), sorted(map(sorted, e2))]})
        for name, d in history_descriptions(mol_graph(m), c, rng):
            c2, err = safe(canonicalize_molecule, d)
            run.case(("C04h", mol_repr(m), name), m.n() >= 2)
            run.stats["history:" + name] += 1
            if err is not None or canon_maps(c2) != (n0, e0):
                run.fail("canonical-graph-differs-under-relabelling", f"description with a history ({name})",
                         {"mol": mol_repr(m), "description": name, "graph": graph_summary(d)})
        run.sample({"mol": mol_repr(m), "canonical_nodes": {k: list(v) for k, v in n0.items()}})
    return "same generator as C01; descriptions that went through the library before (renumbered canonical graph, pre-existing " \
           "partitions); for each molecule and 3 relabellings the node->(element, mass, radical, class) maps and " \
           "edge sets of the real canonical graphs are compared; non-trivial = >= 2 atoms and non-identity permutation"


# =====================================================================================
# C02
# =====================================================================================

def near_miss_pairs(rng, budget):
    """pairs of molecules that are NOT isomorphic but close"""
    out = []
    # same formula and degree sequence: C6 cycle vs two C3 cycles; path vs branched with same degrees impossible -> various
    def carbon(n, e, fam):
        return G.Mol([G._atom("C", i) for i in range(n)], [(a, b, 1) for a, b in e], fam)
    out.append((carbon(6, G.sk_cycle(6), "cycle6"), carbon(6, G.sk_cycle(3) + [(a + 3, b + 3) for a, b in G.sk_cycle(3)], "2xcycle3")))
    out.append((carbon(8, G.sk_cycle(8), "cycle8"), carbon(8, G.sk_cycle(4) + [(a + 4, b + 4) for a, b in G.sk_cycle(4)], "2xcycle4")))
    out.append((carbon(8, G.sk_cycle(8), "cycle8"), carbon(8, G.sk_cycle(3) + [(a + 3, b + 3) for a, b in G.sk_cycle(5)], "c3+c5")))
    out.append((carbon(16, G.sk_rook4(), "rook4x4"), carbon(16, G.sk_shrikhande(), "shrikhande")))
    out.append((carbon(6, G.sk_prism(3), "prism3"), carbon(6, G.sk_bipartite(3, 3), "K33")))
    out.append((carbon(8, G.sk_cube(), "cube"), carbon(8, G.sk_prism(4)[:0] + [(0, 1), (1, 2), (2, 3), (3, 0), (4, 5), (5, 6), (6, 7), (7, 4), (0, 4), (1, 5), (2, 7), (3, 6)], "moebius-like")))
    # cospectral pair: star K1,4 vs C4 + K1
    out.append((carbon(5, G.sk_star(5), "K14"), carbon(5, G.sk_cycle(4), "C4+K1")))
    # isotope moved to a non-equivalent position
    for n in (4, 5, 7):
        a = carbon(n, G.sk_path(n), "path-iso-end")
        b = a.copy()
        a.atoms[0]["mass"] = 13
        b.atoms[1]["mass"] = 13
        b.family = "path-iso-inner"
        out.append((a, b))
    # radical vs isotope, mass vs other mass
    a = carbon(3, G.sk_path(3), "rad")
    b = a.copy()
    a.atoms[1]["rad"] = 2
    b.atoms[1]["mass"] = 2
    out.append((a, b))
    a = carbon(2, [(0, 1)], "m13")
    b = a.copy()
    a.atoms[0]["mass"] = 13
    b.atoms[0]["mass"] = 14
    out.append((a, b))
    # element swap with same Hill formula
    a = G.Mol([G._atom("C", 0), G._atom("N", 1), G._atom("O", 2)], [(0, 1, 1), (1, 2, 1)], "CNO")
    b = G.Mol([G._atom("C", 0), G._atom("N", 1), G._atom("O", 2)], [(0, 2, 1), (2, 1, 1)], "CON")
    out.append((a, b))
    # bond-free molecules that differ only in a label (single atoms, ion pairs, gas mixtures)
    for sym in ("He", "H", "C", "Cl"):
        a = G.Mol([G._atom(sym, 0)], [], "atom")
        for lab in ({"mass": 3}, {"rad": 2}, {"mass": 2, "rad": 1}):
            b = a.copy()
            b.atoms[0].update(lab)
            b.family = "atom+" + ",".join(lab)
            out.append((a, b))
    a = G.Mol([G._atom("Na", 0), G._atom("Cl", 1)], [], "ion-pair")
    b = a.copy(); b.atoms[1]["mass"] = 37; b.family = "ion-pair-37Cl"
    c = a.copy(); c.atoms[0]["mass"] = 22; c.family = "ion-pair-22Na"
    out += [(a, b), (a, c), (b, c)]
    # random molecules with one identity label added, removed or changed
    for _ in range(25 * budget):
        m = G.gen_mol(rng, max_n=10, family=rng.choice(["isolated", "random_sparse", "tree", "two_components", "star"]))
        m2 = m.copy()
        i = rng.randrange(m.n())
        key = rng.choice(["mass", "rad"])
        old = m2.atoms[i].get(key)
        new = rng.choice([v for v in (None, 1, 2, 3, 13) if v != old])
        if new is None:
            m2.atoms[i].pop(key, None)
        else:
            m2.atoms[i][key] = new
        m2.family = m.family + "+label-change"
        out.append((m, m2))
    # random: edge move preserving degree sequence (2-switch)
    for _ in range(20 * budget):
        m = G.gen_mol(rng, max_n=12, family=rng.choice(["random_sparse", "tree", "cycle", "prism", "ladder"]))
        if len(m.bonds) < 2:
            continue
        (a, b, t1), (c, d, t2) = rng.sample(m.bonds, 2)
        if len({a, b, c, d}) < 4:
            continue
        es = {frozenset((x, y)) for x, y, _ in m.bonds}
        if frozenset((a, d)) in es or frozenset((c, b)) in es:
            continue
        m2 = m.copy()
        m2.bonds = [x for x in m.bonds if x not in ((a, b, t1), (c, d, t2))] + [(a, d, t1), (c, b, t2)]
        m2.family = m.family + "+2switch"
        out.append((m, m2))
    return out


def work_C02(run, rng, budget):
    buckets = {}

    def add(m):
        g = mol_graph(m)
        s, err = safe(tucan_of, g)
        if err is not None:
            run.fail("pipeline-raises", type(err).__name__, {"mol": mol_repr(m)})
            return None, None
        buckets.setdefault(s, []).append((m, g))
        return s, g
    for a, b in near_miss_pairs(rng, budget):
        sizes(run, a)
        sa, ga = add(a)
        sb, gb = add(b)
        if sa is None or sb is None:
            continue
        same = ISO.isomorphic(ga, gb)
        run.case(("C02pair", mol_repr(a), mol_repr(b)), not same)
        run.stats["pair_isomorphic" if same else "pair_non_isomorphic"] += 1
        if sa == sb and not same:
            run.fail("non-isomorphic-molecules-share-a-string", f"{a.family} and {b.family} both give {sa!r}",
                     {"a": mol_repr(a), "b": mol_repr(b), "string": sa})
        run.sample({"a": a.family, "b": b.family, "strings": [sa, sb]})
        # the same two molecules as files (what a user of the identifier starts from): atoms renumbered, atom lines carrying
        # other index values than their position, bond lines in another order.  Non-isomorphic molecules must still get
        # different strings; and a file must not get the string of a molecule it does not state.
        if not same and a.n() <= 60:
            fs = []
            for mm, gm, sm in ((a, ga, sa), (b, gb, sb)):
                m2, _ = G.relabel(mm, rng)
                t, _ = (RD.render_v3000 if rng.random() < 0.7 else RD.render_v2000)(m2, rng, {"star": False, "sparse_index": True})
                gg, e = safe(graph_from_molfile_text, t)
                ss, e2 = safe(tucan_of, gg) if gg is not None else (None, e)
                fs.append((t, ss))
                if ss is None:
                    run.stats["file_not_read"] += 1   # not a statement about C02 (C07/C08/C15 decide that)
                elif ss != sm:
                    # the file got the string of another molecule: exhibit that molecule
                    h, _e = safe(graph_from_tucan, ss)
                    sh, _e = safe(tucan_of, h.copy()) if h is not None else (None, None)
                    if h is not None and sh == ss and not ISO.isomorphic(gm, h):
                        run.fail("non-isomorphic-molecules-share-a-string", f"a file stating {mm.family} ({sm!r} at graph level) gets "
                                 f"{ss!r}, the string of a non-isomorphic molecule", {"a": mol_repr(mm), "file": t, "string": ss})
            run.stats["file_pairs"] += 1
            if fs[0][1] is not None and fs[0][1] == fs[1][1]:
                run.fail("non-isomorphic-molecules-share-a-string", f"files of {a.family} and {b.family} both give {fs[0][1]!r}",
                         {"a": mol_repr(a), "b": mol_repr(b), "files": [fs[0][0], fs[1][0]], "string": fs[0][1]})
        # correspondence: the strings parse back (reconstruction is what the theorem uses)
        line, real, _ = R.op_parse(sa)
        run.corr(line, real, "observable")
    # collisions among all generated strings
    for m in molecules(run, rng, 150 * budget, max_n=10):
        add(m)
        add(G.relabel(m, rng)[0])
    for s, lst in buckets.items():
        for (m1, g1), (m2, g2) in itertools.combinations(lst[:6], 2):
            run.case(("C02bucket", s, mol_repr(m1), mol_repr(m2)), True)
            run.stats["bucket_pairs"] += 1
            if not ISO.isomorphic(g1, g2):
                run.fail("non-isomorphic-molecules-share-a-string", f"collision on {s!r}",
                         {"a": mol_repr(m1), "b": mol_repr(m2), "string": s})
    return "hand-made near-miss pairs (same formula and degree sequence, rook vs Shrikhande, K33 vs prism, cospectral, moved " \
           "isotope, radical vs isotope, element swap) + random 2-switches, at graph level and as renumbered V3000/V2000 files + all collisions among generated strings, judged by an " \
           "independent matcher (all bijections for n<=7, VF2 above); non-trivial = the pair is really non-isomorphic / a real collision"


# =====================================================================================
# C03
# =====================================================================================

def work_C03(run, rng, budget):
    def one(m, tag):
        g = mol_graph(m)
        s, err = safe(tucan_of, g)
        if err is not None:
            run.fail("pipeline-raises", type(err).__name__, {"mol": mol_repr(m)})
            return
        line, real, info = R.op_parse(s)
        run.corr(line, real, "observable")
        h = info.get("graph")
        run.case(("C03", mol_repr(m)), m.n() >= 2)
        if h is None:
            run.fail("emitted-string-rejected-by-parser", f"parser rejects the pipeline's own output {s!r}: {real}",
                     {"mol": mol_repr(m), "string": s})
            return
        if h.number_of_nodes() != g.number_of_nodes() or h.number_of_edges() != g.number_of_edges() or not ISO.isomorphic(g, h):
            run.fail("parsed-graph-not-isomorphic", f"parse({s!r}) is not the molecule", {"mol": mol_repr(m), "string": s})
        s2, err = safe(tucan_of, h.copy())
        if err is not None or s2 != s:
            run.fail("not-a-fixed-point", f"tucan(parse(s)) = {s2!r} for s = {s!r}", {"mol": mol_repr(m), "strings": [s, s2]})
        # the string alone determines the parse: a caller editing an earlier result (the library returns plain mutable graphs)
        # must not change what a later parse of the same string returns
        last = list(h.nodes)[-1]
        h.nodes[last]["mass"] = 999
        h.remove_node(list(h.nodes)[0])
        line, real, info2 = R.op_parse(s)
        run.corr(line, real, "observable")
        h2 = info2.get("graph")
        if h2 is None or h2 is h or h2.number_of_nodes() != g.number_of_nodes() or h2.number_of_edges() != g.number_of_edges() \
                or not ISO.isomorphic(g, h2):
            run.fail("parse-depends-on-an-earlier-result", f"parse({s!r}) after the caller edited the graph an earlier parse of the "
                     "same string returned: not the molecule any more", {"mol": mol_repr(m), "string": s,
                     "history": "g1 = graph_from_tucan(s); g1.remove_node(first); graph_from_tucan(s)"})
        run.sample({"mol": tag, "tucan": s})
    for m in molecules(run, rng, 150 * budget):
        one(m, m.family)
    # all 118 elements in one molecule; symbol order != Z order; multi-digit indices
    syms = list(G.ELEMENTS)
    rng.shuffle(syms)
    m = G.decorate(len(syms), G.sk_random(len(syms), 0.02, rng), rng, syms=syms, family="all118")
    sizes(run, m)
    one(m, "all118")
    for _ in range(3 * budget):
        k = rng.randint(10, 30)
        syms = [rng.choice(["C", "H", "B", "Br", "Cl", "Cs"]) for _ in range(k)]
        m = G.decorate(k, G.sk_random(k, 0.15, rng), rng, syms=syms, label_p=0.3, family="multi_digit")
        sizes(run, m)
        one(m, "multi_digit")
    return "random molecules of all families + one molecule with all 118 elements + multi-digit/labelled mixes; real " \
           "graph_from_tucan(tucan(G)) compared with G by the independent matcher, then re-serialised, then the returned graph is " \
           "edited by the caller and the same string parsed again; non-trivial = >= 2 atoms"


# =====================================================================================
# C05
# =====================================================================================

def work_C05(run, rng, budget):
    def one(g, tag, src):
        line, real, info = R.op_canon(g)
        run.corr(line, real, "observable")
        c = info.get("canon")
        if c is None:
            run.fail("pipeline-raises", real, src)
            return
        atoms = [(d.get("element_symbol"), d.get("mass"), d.get("rad")) for _, d in c.nodes(data=True)]
        ne = c.number_of_edges()
        line, real, sinfo = R.op_serialize(c.copy())
        run.corr(line, real, "observable")
        s = sinfo.get("string")
        if s is None:
            run.fail("pipeline-raises", real, src)
            return
        bad = VAL.validate(s, atoms, ne)
        run.case(("C05", s), len(atoms) >= 1)
        run.stats["with_attrs" if s.count("/") >= 2 else "without_attrs"] += 1
        if bad:
            run.fail("emitted-string-violates-grammar-or-layout", f"{s!r}: {bad[0]}", dict(src, string=s, rules=bad))
        run.sample({"src": tag, "tucan": s})
    for m in molecules(run, rng, 100 * budget):
        one(mol_graph(m), m.family, {"mol": mol_repr(m)})
    for _ in range(60 * budget):
        m = G.gen_mol(rng, max_n=26, family="rare_elements")
        sizes(run, m)
        one(mol_graph(m), m.family, {"mol": mol_repr(m)})
    # all 118 elements in one molecule, every atom carrying an isotope label: the index of every attribute block must
    # lie in the block of that atom's element, blocks ordered by the atomic numbers of the periodic table
    syms = list(G.ELEMENTS)
    rng.shuffle(syms)
    m = G.decorate(len(syms), G.sk_random(len(syms), 0.02, rng), rng, syms=syms, label_p=0.0, family="all118")
    for i, a in enumerate(m.atoms):
        a["mass"] = 300 + G.Z[a["sym"]]
    sizes(run, m)
    one(mol_graph(m), m.family, {"mol": mol_repr(m)})
    # ... and the same molecule as the library's own reader sees it (atomic numbers from the library's table)
    text, _ = RD.render_v3000(m, rng, {"star": False})
    g, err = safe(graph_from_molfile_text, text)
    if err is None:
        one(g, "reader:all118", {"molfile": text})
    # files with a misspelt element symbol: normally refused; whatever a reader lets through must still come out as a sentence
    for text in misspelt_symbol_files("C05"):
        run.stats["misspelt_symbol"] += 1
        line, real, _ = R.op_moltext(text)
        run.corr(line, real, "atom-order")
        g, err = safe(graph_from_molfile_text, text)
        if err is None:
            one(g, "reader:misspelt", {"molfile": text})
    # molecules as the readers produce them, including explicitly written defaults
    for _ in range(40 * budget):
        m = G.gen_mol(rng, max_n=10)
        sizes(run, m)
        if rng.random() < 0.5:
            text, info = RD.render_v3000(m, rng, {"zeros": True, "star": False})
        else:
            text, info = RD.render_v2000(m, rng, {"zeros": True})
        g, err = safe(graph_from_molfile_text, text)
        run.stats["via_reader"] += 1
        if err is not None:
            continue  # reader problems are C07/C08's business
        one(g, "reader:" + m.family, {"molfile": text})
    # D / T atoms in files with explicit zero entries (V2000: also zero M  ISO entries naming the D / T atom itself)
    for k in range(8 * budget):
        m = G.gen_mol(rng, family="charged_dt")
        sizes(run, m)
        if k % 2:
            text, info = RD.render_v2000(m, rng, {"zeros": True, "dt": True})
        else:
            text, info = RD.render_v3000(m, rng, {"zeros": True, "dt": True, "star": False})
        g, err = safe(graph_from_molfile_text, text)
        run.stats["via_reader_dt_zeros"] += 1
        if err is None:
            one(g, "reader:dt_zeros", {"molfile": text})
    # graphs the parser produces
    for _ in range(30 * budget):
        s, spec = TG.gen_sentence(rng)
        g, err = safe(graph_from_tucan, s)
        if err is None and g.number_of_nodes() >= 1:
            run.stats["via_parser"] += 1
            one(g, "parser", {"tucan_in": s})
    return "serializer output for random molecules, rare-element / count>=10 mixes, molecules read from rendered V3000/V2000 " \
           "texts with explicit default values, and parser-produced graphs, judged by an independent validator (regular " \
           "expressions from tucan.ebnf + hand-coded layout rules); distinct by emitted string"


# =====================================================================================
# C06
# =====================================================================================

def vary_nonidentity(m: G.Mol, rng) -> G.Mol:
    m2 = m.copy()
    flat = rng.random() < 0.3   # a file without coordinates: atoms of one element have character-identical atom lines
    for a in m2.atoms:
        a["x"], a["y"], a["z"] = round(rng.uniform(-50, 50), 4), round(rng.uniform(-50, 50), 4), round(rng.uniform(-5, 5), 4)
        if flat:
            a["x"] = a["y"] = a["z"] = 0.0
        if rng.random() < (0.1 if flat else 0.4):
            a["chg"] = rng.choice([-2, -1, 1, 2])
        else:
            a.pop("chg", None)
    m2.bonds = [(a, b, rng.choice(G.BOND_TYPES)) for a, b, _ in m2.bonds]
    return m2


def work_C06(run, rng, budget):
    for m in molecules(run, rng, 60 * budget, max_n=14):
        base_text, _ = RD.render_v3000(m, rng, {"star": False})
        line, real, info = R.op_moltext(base_text)
        run.corr(line, real, "observable")
        g0 = info.get("graph")
        if g0 is None:
            # a conformant rendering that is rejected: no string to compare the variants with.  That the file should
            # have been read is C07's statement; here it is recorded so that the check does not pass vacuously
            run.stats["reader_rejects"] += 1
            run.fail("conformant-molfile-rejected", f"{real} on a conformant V3000 rendering: nothing to compare the variants with",
                     {"mol": mol_repr(m), "text": base_text})
            continue
        s0, err = safe(tucan_of, g0)
        if err is not None:
            run.fail("pipeline-raises", f"{type(err).__name__} on the graph read from a conformant rendering",
                     {"mol": mol_repr(m), "text": base_text})
            continue
        for k in range(3):
            m2 = vary_nonidentity(m, rng)
            if rng.random() < 0.5 or m.n() > 999:
                text, _ = RD.render_v3000(m2, rng, {"star": False})
                kind = "v3000"
            else:
                text, _ = RD.render_v2000(m2, rng)
                kind = "v2000"
            line, real, info = R.op_moltext(text)
            run.corr(line, real, "observable")
            g = info.get("graph")
            run.case(("C06", mol_repr(m), text), True)
            run.stats["variant:" + kind] += 1
            if g is None:
                # the base rendering was read, a rendering that differs only in non-identity data is not: the identifier
                # (here: whether there is one at all) depends on data C06 says it must not depend on
                run.stats["reader_rejects"] += 1
                run.fail("non-identity-data-changes-the-string", f"{s0!r} vs {real} for a variant that differs only in non-identity data",
                         {"mol": mol_repr(m), "variant": mol_repr(m2), "texts": [base_text, text]})
                continue
            s, err = safe(tucan_of, g)
            if s != s0:
                run.fail("non-identity-data-changes-the-string", f"{s0!r} vs {s!r}",
                         {"mol": mol_repr(m), "variant": mol_repr(m2), "texts": [base_text, text], "strings": [s0, s]})
        # line-ending style, in memory and through a file on disk (graph_from_file)
        if rng.random() < 0.5:
            ls = base_text.splitlines()
            eol = rng.choice(["\n", "\r\n", "\r"])
            text = eol.join(ls) + (eol if rng.random() < 0.5 or not ls[-1] else "")
            g, err = safe(graph_from_molfile_text, text)
            s, err2 = safe(tucan_of, g) if g is not None else (None, err)
            import tempfile
            from tucan.io import graph_from_file
            with tempfile.TemporaryDirectory() as d:
                fp = os.path.join(d, "m.mol")
                with open(fp, "wb") as fh:
                    fh.write(text.encode("utf-8"))
                gf, errf = safe(graph_from_file, fp)
            sf, errf2 = safe(tucan_of, gf) if gf is not None else (None, errf)
            run.case(("C06eol", base_text, eol), True)
            run.stats["eol:" + repr(eol)] += 1
            if s != s0 or sf != s0:
                run.fail("non-identity-data-changes-the-string", f"line endings {eol!r}: {s0!r} vs {s!r} (text) / {sf!r} (file)",
                         {"mol": mol_repr(m), "texts": [base_text, text], "strings": [s0, s, sf]})
            corr_file(run, text)
            # a different terminator after every line
            mtext, merged = mixed_eol_text(ls, rng)
            line, real, minfo = R.op_moltext(mtext)
            run.corr(line, real, "observable")
            gm = minfo.get("graph")
            gmf = corr_file(run, mtext)
            run.stats["eol:mixed" + ("-merged" if merged else "")] += 1
            if not merged:
                run.case(("C06mixed", mtext), True)
                sm, _ = safe(tucan_of, gm) if gm is not None else (None, None)
                smf, _ = safe(tucan_of, gmf) if gmf is not None else (None, None)
                if sm != s0 or smf != s0:
                    run.fail("non-identity-data-changes-the-string", f"mixed line terminators: {s0!r} vs {sm!r} (text) / {smf!r} (file)",
                             {"mol": mol_repr(m), "texts": [base_text, mtext], "strings": [s0, sm, smf]})
        run.sample({"mol": mol_repr(m), "tucan": s0})
    # graph level: charges, coordinates, bond types, extra attributes
    for m in molecules(run, rng, 60 * budget, max_n=14):
        g0 = mol_graph(m)
        s0, err = safe(tucan_of, g0)
        m2 = vary_nonidentity(m, rng)
        s, err2 = safe(tucan_of, mol_graph(m2))
        run.case(("C06g", mol_repr(m), mol_repr(m2)), True)
        if s != s0:
            run.fail("non-identity-data-changes-the-string", f"{s0!r} vs {s!r}", {"mol": mol_repr(m), "variant": mol_repr(m2)})
    return "pairs of molfile renderings (V3000/V3000 and V3000/V2000) of one molecule that differ in coordinates, bond types, " \
           "charges, header lines, index values, extra keywords/blocks, blanks, continuation points and line endings (LF, CRLF, CR; " \
           "in memory and through graph_from_file), plus " \
           "graph-level pairs; every pair is a distinct non-trivial case"


# =====================================================================================
# C07
# =====================================================================================

def expected_from_mol(m: G.Mol):
    atoms = []
    for a in m.atoms:
        d = {"element_symbol": a["sym"], "atomic_number": G.Z[a["sym"]], "x_coord": float(a["x"]),
             "y_coord": float(a["y"]), "z_coord": float(a["z"])}
        for k in ("chg", "rad", "mass"):
            if k in a:
                d[k] = a[k]
        atoms.append(d)
    bonds = {frozenset((a, b)): t for a, b, t in m.bonds}
    return atoms, bonds


def compare_read(g: nx.Graph, m: G.Mol, coord_tol=1e-9):
    """None if g is exactly m, else a description"""
    atoms, bonds = expected_from_mol(m)
    if g.number_of_nodes() != len(atoms):
        return f"{g.number_of_nodes()} atoms read, {len(atoms)} stated"
    if list(g.nodes) != list(range(len(atoms))):
        return f"atoms not numbered consecutively in file order: {list(g.nodes)[:10]}"
    for i, exp in enumerate(atoms):
        d = g.nodes[i]
        for k in ("element_symbol", "atomic_number"):
            if d.get(k) != exp.get(k):
                return f"atom {i + 1}: {k} read as {d.get(k)!r}, stated {exp.get(k)!r}"
        for k in ("chg", "rad", "mass"):       # "not stated" and 0 are the same statement, however the reader stores it
            if (d.get(k) or None) != (exp.get(k) or None):
                return f"atom {i + 1}: {k} read as {d.get(k)!r}, stated {exp.get(k)!r}"
        for k in ("x_coord", "y_coord", "z_coord"):
            try:
                off = abs(float(d.get(k, 0)) - exp[k])
            except (TypeError, ValueError):
                return f"atom {i + 1}: {k} read as {d.get(k)!r}, stated {exp[k]!r}"
            if off > 5e-5:
                return f"atom {i + 1}: {k} read as {d.get(k)!r}, stated {exp[k]!r}"
    got = {frozenset((a, b)): d.get("bond_type") for a, b, d in g.edges(data=True)}
    if got != bonds:
        missing = set(bonds) - set(got)
        extra = set(got) - set(bonds)
        return f"bonds differ: missing {sorted(map(sorted, missing))[:4]}, extra {sorted(map(sorted, extra))[:4]}, or types"
    return None


# characters on which the interpreter's str methods do something an ASCII reading would not expect
EXOTIC = ["\x85", "\xa0", "\u2003", "\u2028", "\u2029", "\u3000", "\u1680", "\x1c", "\x1d", "\x1e", "\x1f", "\x0b", "\x0c", "\t",
          "\u0663", "\uff11", "\U0001d7d9", "\u0967", "\xe9", "\u200b", "\u00b2", "\u2460", "\ufeff", "?", "_", "+", "-"]


def exotic_mutation(text: str, rng) -> str:
    """one to three edits that put an unusual character somewhere in a molfile: inserted, in place of a blank,
    or in place of a digit (a decimal digit of another script)"""
    for _ in range(rng.randint(1, 3)):
        if not text:
            break
        i = rng.randrange(len(text))
        c = rng.choice(EXOTIC)
        mode = rng.random()
        blanks = [k for k, ch in enumerate(text) if ch == " "]
        digits = [k for k, ch in enumerate(text) if ch in "0123456789"]
        if mode < 0.35:
            text = text[:i] + c + text[i:]
        elif mode < 0.65 and blanks:
            k = rng.choice(blanks)
            text = text[:k] + c + text[k + 1:]
        elif digits:
            k = rng.choice(digits)
            base = rng.choice([0x0660, 0xff10, 0x1d7d8, 0x0966, 0x1fbf0])
            text = text[:k] + chr(base + int(text[k])) + text[k + 1:]
    return text


def string_layer_ops(run, rng, count):
    """the interpreter's string layer as the readers use it, against the model's: the character classes of every
    code point, and random short strings through int / float / splitlines / rstrip / split"""
    run.corr(*R.op_charclass(), "exact")
    alphabet = EXOTIC + list("0123456789") * 3 + list(" \n\r.eE") + ["inf", "nan", "Infinity", "\r\n", "__", "e-", "1_0"]
    for _ in range(count):
        t = "".join(rng.choice(alphabet) for _ in range(rng.randint(0, 7)))
        op = rng.choice([R.op_int, R.op_int, R.op_floatok, R.op_floatok, R.op_splitlines, R.op_rstrip, R.op_splitws])
        run.corr(*op(t), "exact")
        run.stats["string_layer"] += 1
    for t in ["1" * 4300, "1" * 4301, "-" + "9" * 4300, " " + "1" * 4300 + " ", "1_" * 2150 + "1", "0" * 5000, "\u0663" * 4301,
              "1" * 5000 + ".0", "1e" + "9" * 400]:
        run.corr(*R.op_int(t), "exact")
        run.corr(*R.op_floatok(t), "exact")


def corr_file(run, text):
    """the same text through a file on disk (graph_from_file: text mode, universal newlines) against the model"""
    line, real, info = R.op_file(text)
    if real is None:
        run.stats["file:not-encodable"] += 1
        return None
    run.corr(line, real, "atom-order")
    run.stats["file_ops"] += 1
    return info.get("graph")


def mixed_eol_text(lines, rng):
    """every line with its own terminator (LF, CRLF, CR), the last one possibly with none.  Returns the text and whether a CR
    terminator is directly followed by an empty line ended by LF (Python reads that pair as ONE terminator: the file then
    states other lines, so nothing about the string follows)"""
    out, merged = [], False
    eols = [rng.choice(["\n", "\r\n", "\r"]) for _ in lines]
    if lines and lines[-1] and rng.random() < 0.4:
        eols[-1] = ""
    for i, (l, e) in enumerate(zip(lines, eols)):
        out.append(l + e)
        if e == "\r" and i + 1 < len(lines) and lines[i + 1] == "" and eols[i + 1].startswith("\n"):
            merged = True
    return "".join(out), merged


def exotic_stream(run, rng, count, renderer, opts=None):
    """renderings with unusual characters put in: the real reader and the model must agree on the outcome, whatever it is"""
    for _ in range(count):
        m = G.gen_mol(rng, max_n=6)
        text, _ = renderer(m, rng, opts)
        text = exotic_mutation(text, rng)
        line, real, _ = R.op_moltext(text)
        run.corr(line, real, "atom-order")
        run.stats["exotic"] += 1
        corr_file(run, text)


def all_elements_mol(rng):
    syms = list(G.ELEMENTS)
    rng.shuffle(syms)
    return G.decorate(len(syms), G.sk_random(len(syms), 0.02, rng), rng, syms=syms, family="all118")


def work_C07(run, rng, budget):
    string_layer_ops(run, rng, 300 * budget)
    exotic_stream(run, rng, 120 * budget, RD.render_v3000)
    # every element of the periodic table in one file
    m = all_elements_mol(rng)
    sizes(run, m)
    text, info = RD.render_v3000(m, rng, {"star": False})
    line, real, rinfo = R.op_moltext(text)
    run.corr(line, real, "atom-order")
    g = rinfo.get("graph")
    run.case(("C07all118", text), True)
    why = "reader raised: " + real if g is None else compare_read(g, m)
    if why:
        run.fail("v3000-read-differs-from-file", f"all 118 elements: {why}", {"mol": mol_repr(m), "text": text})
    import random as _random
    own = _random.Random(f"c07-big-{os.environ.get('VERIF_SEED', '0')}")
    for m in big_written_molecules():
        # three- and four-digit indices and counts
        sizes(run, m)
        text, info = RD.render_v3000(m, own, {"star": False})
        line, real, rinfo = R.op_moltext(text)
        run.corr(line, real, "atom-order")
        g = rinfo.get("graph")
        run.case(("C07big", m.family), True)
        why = "reader raised: " + real if g is None else compare_read(g, m)
        if why:
            run.fail("v3000-read-differs-from-file", f"{m.family}: {why}", {"mol": mol_repr(m), "text": text[:4000]})
    for m in molecules(run, rng, 150 * budget, max_n=14):
        maybe_zero_d(run, m, rng, 0.15)
        for k in range(2):
            text, info = RD.render_v3000(m, rng)
            for key, v in info["opts"].items():
                if v and v != "none":
                    run.stats[f"opt:{key}={v}" if isinstance(v, str) else f"opt:{key}"] += 1
            line, real, rinfo = R.op_moltext(text)
            run.corr(line, real, "atom-order")
            lines = text.splitlines()
            run.corr(*R.op_v3000(lines), "exact")
            if k == 0:
                run.corr(*R.op_tokenize(lines), "exact")
            g = rinfo.get("graph")
            run.case(("C07", text), m.n() >= 1)
            if g is None:
                run.fail("conformant-v3000-rejected", f"reader raised on a conformant rendering: {real}",
                         {"mol": mol_repr(m), "text": text, "opts": info["opts"]})
                continue
            why = compare_read(g, m)
            if why:
                key = "v3000-read-differs-from-file"
                run.fail(key, why, {"mol": mol_repr(m), "text": text, "opts": info["opts"]})
            if k == 0:
                # the same file from disk, and with a different terminator after every line (text and disk)
                gf = corr_file(run, text)
                mtext, merged = mixed_eol_text(lines, rng)
                line, real, minfo = R.op_moltext(mtext)
                run.corr(line, real, "atom-order")
                gmf = corr_file(run, mtext)
                run.stats["eol:mixed" + ("-merged" if merged else "")] += 1
                for how, gg in (("from disk", gf), ("mixed terminators", None if merged else minfo.get("graph")),
                                ("mixed terminators, from disk", None if merged else gmf)):
                    if how != "from disk" and merged:
                        continue
                    why = "reader raised" if gg is None else compare_read(gg, m)
                    if why:
                        run.fail("v3000-read-differs-from-file", f"{how}: {why}",
                                 {"mol": mol_repr(m), "text": mtext if "mixed" in how else text, "opts": info["opts"]})
        run.sample({"mol": mol_repr(m), "text_head": text[:400]})
    # malformed stream: must be rejected with the library's exception or read consistently with the model
    for mi in range(40 * budget):
        m = G.gen_mol(rng, max_n=6)
        text, _ = RD.render_v3000(m, rng, {"star": False})
        ls = text.splitlines()
        kind = rng.randint(0, 5)
        if mi % 8 == 7:
            # a misspelt block marker (own choice, not drawn from the stream)
            marker = ["BEGIN ATOM", "END ATOM", "BEGIN BOND", "END BOND", "BEGIN CTAB"][(mi // 8) % 5]
            import re as _re
            pat = _re.compile(r"\s+".join(marker.split()) + r"(?=\s|-?$)")
            ls = [pat.sub(lambda mo: mo.group(0) + "S", l) for l in ls]
            kind = -1
        if kind == -1:
            pass
        elif kind == 0 and len(ls) > 8:
            del ls[rng.randrange(4, len(ls))]
        elif kind == 1:
            ls[5] = ls[5].replace("COUNTS", "COUNT")
        elif kind == 2 and len(ls) > 8:
            ls[7] = ls[7] + "-"
        elif kind == 3:
            ls = [l.replace("M  V30 ", "M  V30", 1) if i == 8 else l for i, l in enumerate(ls)]
        elif kind == 4:
            ls[3] = ls[3].replace("V3000", rng.choice(["V4000", "", "V3000 x"]))
        else:
            ls = ls[: rng.randint(0, 6)]
        run.stats["malformed"] += 1
        line, real, _ = R.op_moltext("\n".join(ls))
        run.corr(line, real, "atom-order")
        corr_file(run, rng.choice(["\n", "\r\n", "\r"]).join(ls))
    run.corr(*R.op_splice([]), "exact")        # the splicer on no lines at all
    for text in misspelt_symbol_files("C07"):
        run.stats["misspelt_symbol"] += 1
        line, real, _ = R.op_moltext(text)
        run.corr(line, real, "atom-order")
    # the suffix check of graph_from_file (pathlib's notion of a suffix is the harness's, not the model's)
    ok_text = "\n  x\n\n  0  0  0     0  0            999 V3000\nM  V30 BEGIN CTAB\nM  V30 COUNTS 1 0 0 0 0\nM  V30 BEGIN ATOM\n" \
              "M  V30 1 C 0 0 0 0\nM  V30 END ATOM\nM  V30 END CTAB\nM  END\n"
    for name in ("m.mol", "m.txt", "m.MOL", "m", "m.mol.bak", "a.b.mol", ".mol", "m.sdf"):
        run.corr(*R.op_filepath(name, ok_text), "atom-order")
        run.stats["file_suffix"] += 1
    # star atoms in the forms the reader treats specially: a bond to a star atom without ENDPTS (polymers: ignored),
    # an ENDPTS list whose count is wrong, a bond between two star atoms, ENDPTS before / after other keywords
    for _ in range(6 * budget):
        n = rng.randint(2, 6)
        atoms = [f"M  V30 {i + 1} {rng.choice(['C', 'N', 'O'])} {i}.0 0 0 0" for i in range(n)]
        atoms += [f"M  V30 {n + 1} * 0 0 0 0", f"M  V30 {n + 2} * 1 1 0 0"]
        ends = rng.sample(range(1, n + 1), rng.randint(1, n))
        good = f"ENDPTS=({len(ends)} {' '.join(map(str, ends))})"
        variants = {
            "ok": f"M  V30 2 1 {n + 1} 1 {good} ATTACH=ANY",
            "ok_after_keyword": f"M  V30 2 1 1 {n + 1} CFG=1 {good}",
            "no_endpts": f"M  V30 2 1 {n + 1} 1",
            "count_mismatch": f"M  V30 2 1 {n + 1} 1 ENDPTS=({len(ends) + 1} {' '.join(map(str, ends))}) ATTACH=ANY",
            "two_stars": f"M  V30 2 1 {n + 1} {n + 2} {good}",
            "empty_endpts": f"M  V30 2 1 {n + 1} 1 ENDPTS=()",
            "non_numeric": f"M  V30 2 1 {n + 1} 1 ENDPTS=(1 x)",
            "unknown_atom": f"M  V30 2 1 1 {n + 9}",
            "unknown_endpoint": f"M  V30 2 1 {n + 1} 1 ENDPTS=(2 1 {n + 9})",
        }
        for kind, bl in variants.items():
            ls = ["", "  VERIF", "", "  0  0  0     0  0            999 V3000", "M  V30 BEGIN CTAB",
                  f"M  V30 COUNTS {n + 2} 2 0 0 0", "M  V30 BEGIN ATOM"] + atoms + \
                 ["M  V30 END ATOM", "M  V30 BEGIN BOND", "M  V30 1 1 1 2", bl, "M  V30 END BOND", "M  V30 END CTAB", "M  END"]
            line, real, _ = R.op_moltext("\n".join(ls))
            run.corr(line, real, "atom-order")
            run.stats["star_form:" + kind] += 1
    for f in repo_molfiles():
        text = open(f).read()
        line, real, _ = R.op_moltext(text)
        run.corr(line, real, "atom-order")
        run.stats["repo_file"] += 1
    return "abstract molecules rendered as V3000 from the CTfile specification (continuation at arbitrary split points incl. " \
           "inside tokens and after '-', blank runs, shuffled key=value properties, sparse/large atom indices, other spec " \
           "keywords incl. EXACHG/ATTCHORD/RGROUPS, star atoms with ENDPTS, explicit zero defaults, D/T, SGROUP blocks, " \
           "CRLF), read by the real reader and compared attribute for attribute; plus a malformed stream, renderings with " \
           "unusual characters put in (non-ASCII blanks and line separators, FS/GS/RS/US, decimal digits of other scripts), " \
           "the interpreter's string layer itself (character classes of every code point; int/float/splitlines/rstrip/split " \
           "on random short strings and at the 4300-digit limit) and the repository files for the correspondence; " \
           "distinct by rendered text"


# =====================================================================================
# C08
# =====================================================================================

def maybe_zero_d(run, m, rng, p=0.25):
    """a '0D' file: no coordinates at all, so atoms of one element have character-identical atom lines"""
    if rng.random() < p:
        for a in m.atoms:
            a["x"] = a["y"] = a["z"] = 0.0
        run.stats["zero_d_coordinates"] += 1


def c08_molecules(run, rng, budget):
    # D/T atoms with a non-zero atom-block charge code first (rendered with codes and D/T symbols), then
    # ordinary molecules with the same codes: state leaking from one read into the next shows up here
    for _ in range(6 * budget):
        m = G.gen_mol(rng, family="charged_dt")
        sizes(run, m)
        yield m, {"use_codes": True, "dt": True, "decoy_codes": False}
    # D/T atoms in files with explicit zero entries
    for _ in range(6 * budget):
        m = G.gen_mol(rng, family="charged_dt")
        sizes(run, m)
        yield m, {"dt": True, "zeros": True}
    m = all_elements_mol(rng)
    sizes(run, m)
    yield m, None
    # fewer than 100 atoms with 100 or more bonds, and the reverse: a two-digit count next to a three-digit one on the
    # counts line (the fixed-width fields abut)
    for _ in range(2 * budget):
        n = rng.randint(40, 99)
        edges = set()
        while len(edges) < rng.randint(100, 130):
            a, b = rng.randrange(n), rng.randrange(n)
            if a != b:
                edges.add((min(a, b), max(a, b)))
        m = G.decorate(n, sorted(edges), rng, family="under_100_atoms_over_99_bonds")
        sizes(run, m)
        yield m, None
        n = rng.randint(100, 130)
        edges = [(i, i + 1) for i in range(0, rng.randint(20, 98))]
        m = G.decorate(n, edges, rng, family="over_99_atoms_under_100_bonds")
        sizes(run, m)
        yield m, None
    # more than 99 atoms: three-digit numbers fill their columns, so the fields of a bond line abut
    for _ in range(2 * budget):
        n = rng.randint(100, 140)
        edges = G.sk_path(n) + [(rng.randrange(n), n - 1 - rng.randrange(20)) for _ in range(6)]
        edges = sorted({(min(a, b), max(a, b)) for a, b in edges if a != b})
        m = G.decorate(n, edges, rng, family="over_99_atoms")
        sizes(run, m)
        yield m, None
    for m in molecules(run, rng, 150 * budget, max_n=14):
        yield m, None
    # values at the ends of the ranges, coordinates that fill the fixed fields, non-zero mass-difference fields (last, so that
    # the molecules above are rendered from the same random stream as before)
    for m in boundary_molecules():
        sizes(run, m)
        yield m, {"use_codes": False, "blank_coords": False}
        yield m, {"use_codes": False, "blank_coords": False, "mass_diff": True, "short_lines": False}


def misspelt_symbol_files(tag):
    """Files whose atom lines spell an element symbol in a way the element table does not list (other case, a trailing
    character, a lower-case D/T): the reader and the model must agree on the outcome, and whatever is accepted must still
    be serialised to a sentence of the grammar.  Own random stream."""
    import random as _random
    import re as _re
    rng = _random.Random(f"misspelt-{tag}-{os.environ.get('VERIF_SEED', '0')}")
    out = []
    variants = lambda sy: [sy.upper(), sy.lower(), sy.swapcase(), sy + "x", sy[0].lower() + sy[1:], sy + "2"]
    for k in range(24):
        m = G.gen_mol(rng, max_n=5, family="rare_elements" if k % 2 else None) if k % 3 else G.gen_mol(rng, family="charged_dt")
        if m.n() < 1:
            continue
        i = rng.randrange(m.n())
        if k % 2 == 0:
            text, info = RD.render_v3000(m, rng, {"star": False, "split": "none", "wide_blanks": False, "dt": True})
            ls = text.split("\r\n" if "\r\n" in text else "\n")
            atom_rows = [j for j, l in enumerate(ls) if _re.match(r"^M  V30 \d+ [A-Za-z]+ ", l)]
            if not atom_rows:
                continue
            j = atom_rows[i % len(atom_rows)]
            mo = _re.match(r"^(M  V30 \d+ )([A-Za-z]+)( .*)$", ls[j])
            sy = mo.group(2)
            new = [v for v in variants(sy) if v != sy]
            ls[j] = mo.group(1) + rng.choice(new) + mo.group(3)
        else:
            text, info = RD.render_v2000(m, rng, {"crlf": False, "atom_lists": False, "dt": True})
            ls = text.split("\n")
            j = 4 + i
            sy = ls[j][31:34].strip()
            new = [v for v in variants(sy) if v != sy and len(v) <= 3]
            ls[j] = ls[j][:31] + f"{rng.choice(new):<3s}" + ls[j][34:]
        out.append("\n".join(ls))
    return out


def malformed_v2000(run):
    """V2000 files that are not connection tables: the reader and the model must agree on the outcome (both reject, or both read
    the same thing); own random stream"""
    import random as _random
    rng = _random.Random(f"malformed-v2000-{os.environ.get('VERIF_SEED', '0')}")
    for k in range(24):
        m = G.gen_mol(rng, max_n=5)
        while m.n() < 2 or not m.bonds:
            m = G.gen_mol(rng, max_n=5)
        text, _ = RD.render_v2000(m, rng, {"crlf": False, "atom_lists": False})
        ls = text.split("\n")
        nb = 4 + m.n()                     # first bond line
        kind = k % 8
        if kind == 0:
            ls[nb] = f"{m.n() + 7:3d}" + ls[nb][3:]                    # first bond end does not exist
        elif kind == 1:
            ls[nb] = ls[nb][:3] + f"{m.n() + 7:3d}" + ls[nb][6:]        # second bond end does not exist
        elif kind == 2:
            ls[3] = f"{m.n() + 3:3d}" + ls[3][3:]                       # more atoms announced than there are
        elif kind == 3:
            ls = [l for l in ls if not l.startswith("M  END")]          # no end marker
        elif kind == 4:
            ls[3] = ls[3][:5]                                           # counts line cut short
        elif kind == 5:
            ls[nb] = "  0" + ls[nb][3:]                                 # bond to atom 0
        elif kind == 6:
            ls[4] = ls[4][:31] + "Xx " + ls[4][34:]                     # unknown element symbol
        else:
            ls = ls[:4]                                                 # nothing after the counts line
        run.stats["malformed_v2000"] += 1
        line, real, _ = R.op_moltext("\n".join(ls))
        run.corr(line, real, "atom-order")
    for text in misspelt_symbol_files("C08"):
        run.stats["misspelt_symbol"] += 1
        line, real, _ = R.op_moltext(text)
        run.corr(line, real, "atom-order")


def work_C08(run, rng, budget):
    string_layer_ops(run, rng, 100 * budget)
    exotic_stream(run, rng, 120 * budget, RD.render_v2000)
    for m, v2opts in c08_molecules(run, rng, budget):
        for a in m.atoms:  # V2000 fixed columns: coordinates with 4 decimals
            a["x"], a["y"], a["z"] = round(a["x"], 4), round(a["y"], 4), round(a["z"], 4)
        maybe_zero_d(run, m, rng)
        t2, i2 = RD.render_v2000(m, rng, v2opts)
        t3, i3 = RD.render_v3000(m, rng, {"star": False})
        for key, v in i2["opts"].items():
            if v:
                run.stats[f"opt:{key}"] += 1
        line, real, r2 = R.op_moltext(t2)
        run.corr(line, real, "atom-order")
        run.corr(*R.op_v2000(t2.splitlines()), "exact")
        line, real, r3 = R.op_moltext(t3)
        run.corr(line, real, "atom-order")
        g2, g3 = r2.get("graph"), r3.get("graph")
        run.case(("C08", t2), m.n() >= 1)
        if g2 is None:
            run.fail("conformant-v2000-rejected", f"reader raised on a conformant V2000 rendering", {"mol": mol_repr(m), "text": t2})
            continue
        why = compare_read(g2, m)
        if why:
            has_dt = any(s in t2 for s in (" D  ", " T  "))
            run.fail("v2000-read-differs-from-file", why, {"mol": mol_repr(m), "text": t2, "opts": i2["opts"]})
        elif g3 is not None:
            s2, _ = safe(tucan_of, g2)
            s3, _ = safe(tucan_of, g3)
            if s2 != s3:
                run.fail("v2000-and-v3000-strings-differ", f"{s2!r} vs {s3!r}", {"mol": mol_repr(m), "texts": [t2, t3]})
        run.sample({"mol": mol_repr(m), "v2000_head": t2[:300]})
    # property lines on their own: 1..8 entries
    for _ in range(60 * budget):
        n = rng.randint(1, 8)
        atoms = {i: {} for i in range(30)}
        entries = [(rng.randint(1, 30), rng.randint(-15, 15)) for _ in range(n)]
        line = f"M  {rng.choice(['CHG', 'RAD', 'ISO'])}{n:3d}" + "".join(f" {a:3d} {v:3d}" for a, v in entries)
        run.corr(*R.op_attrline(line, atoms), "exact")
        run.stats[f"attrline_entries:{n}"] += 1
    for f in repo_molfiles("v2000"):
        line, real, _ = R.op_moltext(open(f).read())
        run.corr(line, real, "atom-order")
    malformed_v2000(run)
    return "abstract molecules rendered as V2000 (charge codes vs M  CHG/RAD lines with decoy codes, 1-8 entries per property " \
           "line over several lines, D/T symbols together with M  ISO lines, unrelated property lines, atom lists, short " \
           "lines, CRLF) and as V3000; both read by the real readers and compared with the molecule and with each other; " \
           "for the correspondence also V2000 renderings with unusual characters put in and the interpreter's string layer"


# =====================================================================================
# C09
# =====================================================================================

def graph_for_writer(m: G.Mol, rng, wide=False) -> nx.Graph:
    g = mol_graph(m)
    for n, d in g.nodes(data=True):
        d.pop("vtag", None)
        if wide:
            # coordinates with many digits force wraps at every position
            w = rng.choice([0, 5, 20, 40, 64, 65, 66, 67, 68, 100])
            d["x_coord"] = float(rng.choice([-1, 1]) * (10 ** w + rng.random()))
            d["y_coord"] = float(rng.uniform(-1e3, 1e3))
            d["z_coord"] = float(rng.choice([0.0, 1e-7, -0.0, rng.uniform(-9, 9)]))
    # half of the time listed in another order than the labels (as relabel_nodes / canonicalize_molecule produce)
    return any_listing(g, rng)


def big_written_molecules():
    """molecules whose files need three- and four-digit indices and counts: a chain of 1005 carbons with labels at both ends and
    in the middle, an iron centre with 130 chlorine ligands, a ring of 150 atoms"""
    n = 1005
    atoms = [G._atom("C", i) for i in range(n)]
    atoms[2]["mass"] = 13
    atoms[500]["chg"] = -1
    atoms[n - 1]["rad"] = 2
    yield G.Mol(atoms, [(i, i + 1, 1 + (i % 3 == 0)) for i in range(n - 1)], "big:chain1005")
    atoms = [G._atom("Fe", 0)] + [G._atom("Cl", i + 1) for i in range(130)]
    atoms[77]["mass"] = 37
    yield G.Mol(atoms, [(0, i + 1, 9) for i in range(130)], "big:star131")
    atoms = [G._atom("C", i) for i in range(150)]
    atoms[149]["mass"] = 14
    yield G.Mol(atoms, [(i, (i + 1) % 150, 4) for i in range(150)], "big:ring150")
    yield from boundary_molecules()


def boundary_molecules():
    """values at the ends of the format's ranges: charges +15 and -15, radical 3, one- and three-digit masses; coordinates that
    fill the ten-character fixed fields of a V2000 atom line (sign, five integer digits)"""
    atoms = [G._atom(s, i) for i, s in enumerate(["C", "N", "O", "S", "H", "Cl"])]
    atoms[0]["chg"], atoms[1]["chg"], atoms[2]["rad"], atoms[3]["rad"] = 15, -15, 3, 1
    atoms[4]["mass"], atoms[5]["mass"], atoms[3]["chg"] = 1, 255, -14
    yield G.Mol(atoms, [(0, 1, 1), (1, 2, 2), (2, 3, 1), (3, 5, 1)], "boundary:ranges")
    atoms = [G._atom(s, i) for i, s in enumerate(["C", "O", "N"])]
    atoms[0].update(x=-1234.5678, y=12345.6789, z=-999.9999)
    atoms[1].update(x=99999.9999, y=-9999.9999, z=0.0001)
    atoms[2].update(x=-0.0001, y=-1.5, z=-9999.9999)
    yield G.Mol(atoms, [(0, 1, 2), (1, 2, 1)], "boundary:wide_coordinates")


def work_C09(run, rng, budget):
    import itertools
    import random as _random
    own = _random.Random(f"c09-big-{os.environ.get('VERIF_SEED', '0')}")
    for m, r in itertools.chain(((m, own) for m in big_written_molecules()),
                                ((m, rng) for m in molecules(run, rng, 100 * budget, max_n=12))):
        if r is own:
            sizes(run, m)
        g = graph_for_writer(m, r, wide=r.random() < 0.6)
        if m.family == "boundary:ranges":
            # the same molecule as a graph that carries no coordinates and no bond types at all: the writer's defaults
            # (0.000000, bond type 1) are what must come back
            for _n, dd in g.nodes(data=True):
                for k in ("x_coord", "y_coord", "z_coord"):
                    dd.pop(k, None)
            for _a, _b, dd in g.edges(data=True):
                dd.pop("bond_type", None)
        line, real, info = R.op_write(g)
        run.corr(line, real, "exact")
        text = info.get("text")
        run.case(("C09", real), True)
        if text is None:
            run.fail("writer-raises", real, {"mol": mol_repr(m)})
            continue
        too_long = [l for l in text.split("\n") if len(l) > 79]
        if too_long:
            run.fail("line-longer-than-80", f"{len(too_long[0]) + 1} characters incl. newline", {"mol": mol_repr(m), "line": too_long[0]})
        nwrap = sum(1 for l in text.split("\n") if l.endswith("-"))
        run.stats["wrapped_lines:" + ("0" if nwrap == 0 else "1-3" if nwrap <= 3 else "4+")] += 1
        tl = text.split("\n")
        if len(tl) > 1:
            tl[1] = "  <HEADER>"          # program name and time stamp: not read by the reader, not part of the workload
        text = "\n".join(tl)
        line, real, rinfo = R.op_moltext(text)
        run.corr(line, real, "atom-order")
        h = rinfo.get("graph")
        if h is None:
            run.fail("written-molfile-rejected", real, {"mol": mol_repr(m), "text": text})
            continue
        why = None
        # the k-th listed atom is read back as atom k; bonds follow their atoms
        order = list(g.nodes)
        pos = {lab: i for i, lab in enumerate(order)}
        run.stats["listing:" + ("label order" if order == sorted(order) else "other order")] += 1
        if list(h.nodes) != list(range(len(order))):
            why = "atom order differs"
        else:
            for n in g.nodes:
                a, b = g.nodes[n], h.nodes[pos[n]]
                for k in ("element_symbol", "chg", "rad", "mass"):
                    if a.get(k) != b.get(k):
                        why = f"atom {n}: {k} {a.get(k)!r} -> {b.get(k)!r}"
                for k in ("x_coord", "y_coord", "z_coord"):
                    if f"{a.get(k, 0):.6f}" != f"{b.get(k, 0):.6f}" and float(f"{a.get(k, 0):.6f}") != b.get(k, 0):
                        why = f"atom {n}: {k} {a.get(k)!r} -> {b.get(k)!r}"
            if sorted((tuple(sorted((pos[x], pos[y]))), d.get("bond_type", 1)) for x, y, d in g.edges(data=True)) != \
                    sorted((tuple(sorted((x, y))), d.get("bond_type")) for x, y, d in h.edges(data=True)):
                why = "bond list differs (a bond without a type is written as type 1)"
        if why:
            run.fail("write-read-roundtrip-differs", why, {"mol": mol_repr(m), "text": text})
        run.sample({"mol": mol_repr(m), "lines": text.split("\n")[6:9]})
    # (re-)calculated coordinates: everything but the coordinates reads back
    for m in molecules(run, rng, 12 * budget, max_n=10):
        g = graph_for_writer(m, rng)
        text, err = safe(graph_to_molfile, g, True)
        run.case(("C09calc", mol_repr(m)), True)
        run.stats["calc_coordinates"] += 1
        if err is not None:
            run.fail("writer-raises", f"calc_coordinates=True: {type(err).__name__}", {"mol": mol_repr(m)})
            continue
        h, err = safe(graph_from_molfile_text, text)
        order = list(g.nodes)
        pos = {lab: i for i, lab in enumerate(order)}
        ok = h is not None and list(h.nodes) == list(range(len(order))) and all(
            g.nodes[n].get(k) == h.nodes[pos[n]].get(k) for n in g.nodes for k in ("element_symbol", "chg", "rad", "mass")) and \
            sorted((tuple(sorted((pos[x], pos[y]))), d.get("bond_type")) for x, y, d in g.edges(data=True)) == \
            sorted((tuple(sorted((x, y))), d.get("bond_type")) for x, y, d in h.edges(data=True)) and \
            all(len(l) <= 79 for l in text.split("\n"))
        if not ok:
            run.fail("write-read-roundtrip-differs", "with calc_coordinates=True", {"mol": mol_repr(m), "text": text})
    # length-targeted logical lines
    for base in (70, 71, 72, 73, 74, 141, 142, 143, 144, 145, 212, 213, 214, 215, 216, 284, 285):
        for variant in range(2 * budget):
            body = "".join(rng.choice("0123456789 .-ABCGHMRS=") for _ in range(base))
            body = body.strip() or "1"
            while body.endswith("-"):
                body = body[:-1] + "0"
            run.corr(*R.op_wrap(body), "exact")
            # the two private helpers, called directly: a line-level view of wrapping.  If they have gone or changed
            # their calling convention, this view is lost (the model comparison of WRAP / SPLICE shows it), but nothing is
            # claimed about the property: the file-level write/read probe above exercises wrapping through the public
            # functions with the same long lines
            out = []
            try:
                from tucan.io import molfile_writer as MW, molfile_v3000_reader as V3
                wrap, splice = MW._add_v30_line, V3._concat_lines_with_dash
                res = wrap(out, body)
                usable = res is None and out and all(isinstance(l, str) for l in out)
            except Exception:
                usable = False
            if not usable:
                run.stats["wrap_helpers_not_usable"] += 1
                continue
            run.corr(*R.op_splice(out + ["M  END"]), "exact")
            back, err = safe(splice, out + ["M  END"])
            run.case(("C09wrap", body), len(body) > 72)
            run.stats["wrap_len:" + str(base)] += 1
            if err is None and not (isinstance(back, list) and back and isinstance(back[0], str)):
                run.stats["wrap_helpers_not_usable"] += 1
                continue
            if err is not None or back[0] != "M  V30 " + body:
                run.fail("wrap-splice-roundtrip-differs", f"length {len(body)}", {"line": body, "physical": out, "spliced": back})
    # string -> graph -> molfile -> graph -> string
    for _ in range(40 * budget):
        s, spec = TG.gen_sentence(rng)
        g, err = safe(graph_from_tucan, s)
        if err is not None or g.number_of_nodes() == 0:
            continue
        if any(d.get("rad", 1) > 3 for _, d in g.nodes(data=True)):
            continue  # outside the molfile format's radical range 1..3
        s1, err = safe(tucan_of, g.copy())
        run.case(("C09chain", s), True)
        run.stats["chain"] += 1
        if err is not None:
            run.fail("string-molfile-string-differs", f"the pipeline raises {type(err).__name__} on the parsed graph of {s!r}", {"tucan": s})
            continue
        if rng.random() < 0.5:  # write the canonical graph (listed in another order than its labels)
            g, errc = safe(canonicalize_molecule, g)
            run.stats["chain_via_canonical_graph"] += 1
            if errc is not None:
                run.fail("string-molfile-string-differs", f"canonicalize raises {type(errc).__name__} on the parsed graph of {s!r}", {"tucan": s})
                continue
        line, real, winfo = R.op_write(g)      # graphs without coordinates and without bond records
        run.corr(line, real, "exact")
        text = winfo.get("text")
        if text is None:
            run.fail("writer-raises", f"{real} on the parsed graph of {s!r}", {"tucan": s})
            continue
        h, err = safe(graph_from_molfile_text, text)
        s2, err3 = safe(tucan_of, h) if h is not None else (None, err)
        if s2 != s1:
            run.fail("string-molfile-string-differs", f"{s1!r} -> {s2!r}", {"tucan": s, "molfile": text})
    return "graphs with charges/radicals/masses/bond types and coordinates of 1-100+ digits (forcing 0, 1 and several wraps " \
           "at arbitrary positions), listed in label order or not, written by the real writer and read back; logical lines of targeted lengths " \
           "70-74, 141-145, 212-216, 284-285 through wrap and splice; string->graph->molfile->graph->string chains"


# =====================================================================================
# C10
# =====================================================================================

def work_C10(run, rng, budget):
    nsent = 60 * budget
    for _ in range(nsent):
        s, spec = TG.gen_sentence(rng)
        line, real, info = R.op_parse(s)
        run.corr(line, real, "observable", meta={"string": s})
        run.case(("C10", s), True)
        run.stats["sentence"] += 1
        g = info.get("graph")
        counts, bonds, attrs = spec
        if g is None:
            run.fail("valid-sentence-rejected", f"{s!r}: {real}", {"string": s})
        else:
            atoms, bset, at = TG.denote(counts, bonds, attrs)
            # C10 speaks about the numbering of the atoms, not about the order in which the graph lists them
            got_atoms = [g.nodes[i].get("element_symbol") for i in range(g.number_of_nodes())] if sorted(g.nodes) == list(range(g.number_of_nodes())) else None
            got_b = {frozenset((a, b)) for a, b in g.edges}
            got_at = {i: {k: d[k] for k in ("mass", "rad") if k in d} for i, d in g.nodes(data=True) if "mass" in d or "rad" in d}
            if got_atoms != atoms or got_b != bset or got_at != at:
                run.fail("parsed-graph-differs-from-denotation", f"{s!r}", {"string": s})
        run.sample(s)
        if run.stats["corr_op:LEX"] < 60 * (20 if THOROUGH else 1):
            run.corr(*R.op_lex(s), "exact")        # the generated lexer alone against the model's maximal-munch lexer
            for e in TG.edits(s, rng, 2):
                run.corr(*R.op_lex(e), "exact")
        for e in TG.edits(s, rng, 25):
            line, real, _ = R.op_parse(e)
            run.corr(line, real, "observable", meta={"string": e})
            run.case(("C10", e), True)
            run.stats["edit_accept" if real.startswith("G[") else "edit_" + real[4:]] += 1
            if real.startswith("ERR ") and real != "ERR TucanParserException":
                key = "rejected-with-foreign-exception"
                run.fail(key, f"{e[:80]!r}: {real}", {"string": e})
    # every element symbol alone and every pair of neighbours in the periodic table, against an independent
    # periodic table (harness/gen.py): the atomic numbers and the numbering by increasing atomic number
    for i, sym in enumerate(G.ELEMENTS):
        texts = [f"{sym}/"] + [f"{sym}{c}/" for c in (2, 9, 10, 12, 100)]
        if i + 1 < len(G.ELEMENTS):
            a, b = sym, G.ELEMENTS[i + 1]
            first, second = TG.hill_order([a, b])
            texts.append(f"{first}{second}/(1-2)/(1:mass=7)")
        for t in texts:
            line, real, info = R.op_parse(t)
            run.corr(line, real, "observable", meta={"string": t})
            run.case(("C10el", t), True)
            run.stats["element_table_probe"] += 1
            g = info.get("graph")
            if g is None:
                run.fail("valid-sentence-rejected", f"{t!r}: {real}", {"string": t})
                continue
            _items = __import__("re").findall(r"([A-Z][a-z]?)([0-9]*)", t.split("/")[0])
            want = sorted([x for x, c in _items for _ in range(int(c) if c else 1)], key=lambda x: G.Z[x])
            got = [(g.nodes[k].get("element_symbol"), g.nodes[k].get("atomic_number")) for k in sorted(g.nodes)]
            if got != [(x, G.Z[x]) for x in want] or ("mass=7" in t and g.nodes[0].get("mass") != 7):
                run.fail("parsed-graph-differs-from-denotation", f"{t!r}: atoms {got}", {"string": t})
    # boundary families
    boundary = ["", "/", "//", "C", "C/", "C//", "/(1-2)", "H/", "HC/", "CH/", "HCl/", "ClH/", "C1/", "C2/", "C01/", "C10/", "C0/",
                "CH4/(1-2)(1-3)(1-4)(1-5)", "CH4/(1-2)(1-3)(1-4)(1-6)", "C2/(1-1)", "C2/(1-2)(2-1)(1-2)", "C2/(1-02)", "C2/(0-1)",
                "C2/(1-2)/(1:mass=13)", "C2/(1-2)/(1:mass=13,mass=14)", "C2/(1-2)/(1:mass=13)(1:mass=13)", "C2/(1-2)/(1:mass=13)(1:rad=2)",
                "C2/(1-2)/(3:mass=13)", "C2/(1-2)/(1:mass=0)", "C2/(1-2)/(1:mass=01)", "C2/(1-2)/(1:charge=1)", "C2/(1-2)/(1:mass=13,)",
                "C2/(1-2)/()", "C2/(1-2)/(1:)", "BrC/", "CBr/", "BBr/", "BrB/", "CHBr/", "CBrH/", "HBr/", "BrH/", "HHe/", "HeH/",
                "CCl/", "CCs/", "CCo/", "CCn/", "CClCs/", "CsCl/", "ClCs/", "CoCs/", "CsCo/", "Cn/", "Co/", "Cs2/(1-2)", "Og118/",
                "c/", "C /", " C/", "C/\n", "C/(1-2", "C/1-2)", "C/(1 2)", "C/((1-2))", "C2/(1-2)/(1:mass=13)/", "CC/", "C2C/",
                "H2O/(1-3)(2-3)", "OH2/", "HO2/", "H2O2/(1-3)(2-4)(3-4)", "C999/", "C/(1-" + "1" * 4300 + ")", "C/(1-" + "1" * 4301 + ")",
                "C/(1-" + "1" * 5000 + ")", "C" + "9" * 4301 + "/" if False else "C2/(1-2)/(1:mass=" + "7" * 4400 + ")"]
    # attribute values at the interpreter's limit for decimal literals: 4299 and 4300 digits are sentences with a meaning
    # (the grammar puts no bound on a value), 4301 digits cannot be converted and is refused with the parser's exception
    at_limit = ["C2/(1-2)/(1:mass=" + "7" * d + ")" for d in (4299, 4300)] + ["CH4/(1-5)(2-5)(3-5)(4-5)/(5:rad=" + "3" * 4300 + ")",
                "C2/(1-2)/(2:mass=1" + "0" * 4299 + ",rad=2)"]
    boundary += at_limit + ["C2/(1-2)/(1:mass=" + "7" * 4301 + ")"]
    for s in boundary:
        line, real, _ = R.op_parse(s)
        run.corr(line, real, "observable", meta={"string": s})
        run.case(("C10b", s), True)
        run.stats["boundary"] += 1
        if s in at_limit and real.startswith("ERR "):
            run.fail("sentence-rejected", f"{s[:40]!r}… (a value of {max(len(x) for x in __import__('re').findall(r'[0-9]+', s))} "
                     f"digits): {real}", {"string": s})
        if real.startswith("ERR ") and real != "ERR TucanParserException":
            key = "int-literal-over-4300-digits" if max((len(x) for x in __import__("re").findall(r"[0-9]+", s)), default=0) > 4300 \
                else "rejected-with-foreign-exception"
            run.fail(key, f"{s[:60]!r}…: {real}", {"string": s})
    huge_count_probe(run, "C10")
    if budget > 1:
        for _ in range(5 * budget):
            s, spec = TG.gen_sentence(rng, max_elems=3, max_count=4)
            for e in TG.all_single_edits(s, limit=600):
                line, real, _ = R.op_parse(e)
                run.corr(line, real, "observable", meta={"string": e})
                run.case(("C10", e), True)
                if real.startswith("ERR ") and real != "ERR TucanParserException":
                    run.fail("rejected-with-foreign-exception", f"{e[:80]!r}: {real}", {"string": e})
    return "sentences generated from the grammar (Hill-order traps, counts 1/2-9/>=10, repeated and reversed tuples, attribute " \
           "blocks) and 25 random single-token insertions/deletions/replacements/transpositions of each, plus a boundary list " \
           "(Hill vs alphabetical with/without C, count 1, leading zeros, index n+1, shared-prefix symbols, 4300-digit literals, attribute values of 4299/4300/4301 digits); " \
           "accept/reject, exception type and graph of the real parser compared with the Lean reference reader; distinct by string; " \
           "six bond-free sentences stating 65 536 to 120 000 atoms go through the real parser only (reference denotation by the harness)"


# =====================================================================================
# C11
# =====================================================================================

def norm(s):
    return serialize_molecule(canonicalize_molecule(graph_from_tucan(s)))


def tiny_labelled_sentences(rng):
    """Two to four atoms of one element, some of them labelled, with and without bonds: the smallest molecules on which
    renumbering inside an element block is visible (a size special-cased anywhere in the pipeline shows here)."""
    out = []
    for sym in ("H", "C", "O", "Cl"):
        for n in (2, 3, 4):
            shapes = [[], [(1, 2)], [(i, i + 1) for i in range(1, n)]]
            if n >= 3:
                shapes.append([(i, i + 1) for i in range(1, n)] + [(1, n)])
            for bonds in shapes:
                for key, val in (("mass", 2 if sym == "H" else 13), ("rad", 1), ("rad", 2)):
                    for at in (1, n):
                        out.append(({sym: n}, list(bonds), {at: {key: val}}))
                out.append(({sym: n}, list(bonds), {1: {"mass": 3}, n: {"rad": 3}}))
    rng.shuffle(out)
    return out


def work_C11(run, rng, budget):
    tiny = tiny_labelled_sentences(rng)[: 60 * budget]
    for k in range(80 * budget + len(tiny)):
        if k < len(tiny):
            spec = tiny[k]
            s = TG.spell(*spec, rng)
            run.stats["tiny_labelled"] += 1
        else:
            s, spec = TG.gen_sentence(rng, max_count=10)
        counts, bonds, attrs = spec
        if sum(counts.values()) == 0:
            continue
        n0, err = safe(norm, s)
        line, real, info = R.op_parse(s)
        run.corr(line, real, "observable")
        if err is not None:
            run.fail("norm-raises", f"{s!r}: {type(err).__name__}", {"string": s})
            continue
        n00, err = safe(norm, n0)
        if n00 != n0:
            run.fail("normalisation-not-idempotent", f"{n0!r} -> {n00!r}", {"string": s, "norm": n0, "norm2": n00})
        for _ in range(3):
            s2 = TG.respell(counts, bonds, attrs, rng)
            n2, err = safe(norm, s2)
            run.case(("C11", s, s2), s2 != s)
            line, real, _ = R.op_parse(s2)
            run.corr(line, real, "observable")
            if n2 != n0:
                run.fail("respelling-changes-the-canonical-string", f"{s!r} / {s2!r}: {n0!r} vs {n2!r}",
                         {"strings": [s, s2], "norms": [n0, n2]})
        run.sample({"s": s, "norm": n0})
    return "accepted sentences and 3 meaning-preserving respellings each (tuple order, endpoint swaps, repeated tuples, split/" \
           "reordered attribute blocks, renumbering inside element blocks), first a family of tiny molecules (2-4 atoms of one element, one or two labelled); norm = serialize.canonicalize.parse on the real code; " \
           "non-trivial = the respelling differs textually"


# =====================================================================================
# C12
# =====================================================================================

def attr_multiset(g):
    return sorted(repr(sorted((k, v) for k, v in d.items() if k not in ("partition", "explored"))) for _, d in g.nodes(data=True))


def work_C12(run, rng, budget):
    for m in molecules(run, rng, 120 * budget):
        g = any_listing(mol_graph(m), rng)
        # bonds without any record (as the TUCAN parser produces them), or only some with a bond type
        how = rng.random()
        if how < 0.45:
            for _, _, d in g.edges(data=True):
                if how < 0.3 or rng.random() < 0.5:
                    d.pop("bond_type", None)
            run.stats["bonds:" + ("no record" if how < 0.3 else "some without type")] += 1
        run.stats["listing_order:" + ("label" if list(g.nodes) == sorted(g.nodes) else "other")] += 1
        before = P.show_graph(g)
        ids_before = {n: id(d) for n, d in g.nodes(data=True)}
        line, real, info = R.op_canon(g)
        run.corr(line, real, "observable")
        c = info.get("canon")
        run.case(("C12", mol_repr(m)), m.n() >= 2)
        if c is None:
            run.fail("canonicalize-raises", real, {"mol": mol_repr(m)})
            continue
        if P.show_graph(g) != before:
            run.fail("canonicalize-mutates-its-argument", "argument differs after the call", {"mol": mol_repr(m)})
        # renaming: trace atoms through the unique tag
        tag_to_old = {d["vtag"]: n for n, d in g.nodes(data=True)}
        sigma = {}
        ok = sorted(c.nodes) == list(range(g.number_of_nodes()))
        for n, d in c.nodes(data=True):
            old = tag_to_old.get(d.get("vtag"))
            if old is None or old in sigma:
                ok = False
                break
            sigma[old] = n
            want = dict(g.nodes[old])
            got = {k: v for k, v in d.items() if k != "partition"}
            want.pop("partition", None)
            if want != got:
                ok = False
        if ok:
            eg = {frozenset((sigma[a], sigma[b])): d for a, b, d in g.edges(data=True)}
            ec = {frozenset((a, b)): d for a, b, d in c.edges(data=True)}
            ok = eg == ec
        if not ok:
            run.fail("canonicalize-is-not-a-pure-renaming", "attributes or bonds lost, added or changed", {"mol": mol_repr(m)})
        # aliasing: no attribute dict shared between argument and result
        if any(c.nodes[sigma[o]] is g.nodes[o] for o in sigma) if ok else False:
            run.fail("result-shares-attribute-dicts-with-argument", "aliasing", {"mol": mol_repr(m)})
        # repeated calls on the same objects
        c2, err = safe(canonicalize_molecule, g)
        if err is not None or P.show_graph(c2) != P.show_graph(c):
            run.fail("repeated-canonicalize-differs", "second call on the same object differs", {"mol": mol_repr(m)})
        cc = c.copy()
        # every attribute the graph carries before the call (element, charge, isotope, radical, coordinates, class, tag,
        # bond type) must be there unchanged afterwards, and no atom or bond may appear or disappear; attributes the
        # serializer ADDS for its own bookkeeping are its business
        nodes_before = {n: dict(d) for n, d in cc.nodes(data=True)}
        edges_before = {frozenset((a, b)): dict(d) for a, b, d in cc.edges(data=True)}
        line, real, sinfo = R.op_serialize(cc)
        run.corr(line, real, "observable")
        s1 = sinfo.get("string")
        nodes_after = {n: dict(d) for n, d in cc.nodes(data=True)}
        edges_after = {frozenset((a, b)): dict(d) for a, b, d in cc.edges(data=True)}
        changed = set(nodes_before) != set(nodes_after) or set(edges_before) != set(edges_after) or \
            any(nodes_after[n].get(k, "<gone>") != v for n, d in nodes_before.items() for k, v in d.items() if k != "explored") or \
            any(edges_after[e].get(k, "<gone>") != v for e, d in edges_before.items() for k, v in d.items())
        if changed:
            run.fail("serialize-alters-its-argument", "an attribute the graph carried before the call changed or disappeared", {"mol": mol_repr(m)})
        hist = [s1]
        for _ in range(rng.randint(1, 3)):
            s, err = safe(serialize_molecule, cc)
            hist.append(s)
        if len(set(hist)) != 1:
            run.fail("repeated-serialize-differs", f"{hist}", {"mol": mol_repr(m)})
        run.sample({"mol": mol_repr(m), "sigma": sigma})
    return "random molecules with a unique tag, charge, coordinates on every atom and bond types on every / some / no bond; the real canonical graph " \
           "is compared with the argument under the recovered bijection (all attributes, all bond records), the argument is " \
           "snapshotted before/after, aliasing of attribute dictionaries is checked, canonicalize is repeated and serialize runs " \
           "2-4 times on the same objects; non-trivial = >= 2 atoms"


# =====================================================================================
# C13
# =====================================================================================

def classes_by_tag(c):
    # a missing attribute becomes a value no other molecule description can reproduce
    return {d.get("vtag", f"?node{n}"): d.get("partition", f"?missing{n}") for n, d in c.nodes(data=True)}


def work_C13(run, rng, budget):
    for m in molecules(run, rng, 120 * budget):
        g = any_listing(mol_graph(m), rng)
        line, real = R.op_partition(g, "inv")
        run.corr(line, real, "observable")
        p0, err = safe(partition_molecule_by_attribute, g, "invariant_code")
        if p0 is not None:
            line, real = R.op_refine(p0)
            run.corr(line, real, "observable")
        c, _, info = queue_pipeline_ops(run, g, want=("canon",))
        if c is None:
            run.fail("canonicalize-raises", "", {"mol": mol_repr(m)})
            continue
        cls = classes_by_tag(c)
        run.case(("C13", mol_repr(m)), m.n() >= 2)
        run.stats["rounds:" + str(min(info.get("rounds", 0), 6))] += 1
        # (a) label independence
        for _ in range(2):
            m2, perm = G.relabel(m, rng)
            c2, err = safe(canonicalize_molecule, mol_graph(m2))
            if err is not None:
                run.fail("canonicalize-raises", f"{type(err).__name__} on a relabelled description", {"mol": mol_repr(m2)})
                continue
            if classes_by_tag(c2) != cls:
                run.fail("classes-depend-on-labelling", "class of an atom changes with the numbering/listing",
                         {"mol": mol_repr(m), "relabelled": mol_repr(m2)})
        for name, d in history_descriptions(g, c, rng):
            c2, err = safe(canonicalize_molecule, d)
            run.stats["history:" + name] += 1
            if err is not None or classes_by_tag(c2) != cls:
                run.fail("classes-depend-on-labelling", f"class of an atom changes for a description with a history ({name})",
                         {"mol": mol_repr(m), "description": name, "graph": graph_summary(d)})
        # (b) equitable
        byc = {}
        for n, d in c.nodes(data=True):
            sig = (ISO.ident_of(d), tuple(sorted(c.nodes[v]["partition"] for v in c.neighbors(n))))
            byc.setdefault(d["partition"], set()).add(sig)
        if any(len(v) > 1 for v in byc.values()):
            run.fail("partition-not-equitable", "atoms of one class differ in identity or neighbour classes", {"mol": mol_repr(m)})
        # (c) automorphisms
        if m.n() <= 16:
            for au in ISO.automorphisms(c, limit=30):
                if any(c.nodes[a]["partition"] != c.nodes[b]["partition"] for a, b in au.items()):
                    run.fail("symmetric-atoms-in-different-classes", "an automorphism maps an atom to another class", {"mol": mol_repr(m)})
                    break
        run.sample({"mol": mol_repr(m), "classes": cls})
    return "random molecules of all families; on the real canonical graph: classes traced through unique tags are compared " \
           "across 2 relabellings, equitability (identity + sorted neighbour classes per class) and invariance under up to 30 " \
           "automorphisms found by VF2 are checked; non-trivial = >= 2 atoms"


# =====================================================================================
# C15
# =====================================================================================

# the largest input of the quick tier takes about 10 s on this machine, of the thorough tier about 60 s
CALL_LIMIT_S = int(os.environ.get("VERIF_CALL_LIMIT_S", "0") or 0) or 600


def big_families(budget):
    """quick: one chain just above CPython's default recursion limit (a round per two atoms), the other
    depth-linear families at a few hundred rounds; thorough: everything in the thousands"""
    quick = budget == 1
    fams = []
    for n in ([1, 2, 3, 50, 400, 2200] if quick else [1, 2, 3, 50, 400, 1200, 2200, 4500]):
        fams.append((f"path{n}", n, G.sk_path(n), None))
    for n in ([3, 700] if quick else [3, 700, 4400]):
        fams.append((f"cycle{n}", n, G.sk_cycle(n), None))
    for k in ([250] if quick else [250, 2200]):
        fams.append((f"ladder{k}", 2 * k, G.sk_ladder(k), None))
        fams.append((f"comb{k}", 2 * k, G.sk_comb(k), ["C"] * k + ["H"] * k))
    for k in ([150] if quick else [150, 1100]):
        e, syms = G.sk_peptide(k)
        fams.append((f"peptide{k}", len(syms), e, syms))
    fams.append(("isolated3000", 3000, [], None))
    fams.append(("components1000", 2000, [(2 * i, 2 * i + 1) for i in range(1000)], None))
    fams.append(("K40", 40, G.sk_complete(40), None))
    fams.append(("all118elements", 118, G.sk_path(118), list(G.ELEMENTS)))
    # further shapes: a hub with thousands of leaves, a deep binary tree, a square grid, a complete bipartite graph,
    # hundreds of identical rings
    k = 2000 if quick else 5000
    fams.append((f"star{k}", k, G.sk_star(k), None))
    k = 2047 if quick else 8191
    fams.append((f"bintree{k}", k, [((i - 1) // 2, i) for i in range(1, k)], None))
    w = 30 if quick else 60
    fams.append((f"grid{w}", w * w, [(r * w + c, r * w + c + 1) for r in range(w) for c in range(w - 1)] +
                 [(r * w + c, (r + 1) * w + c) for r in range(w - 1) for c in range(w)], None))
    fams.append(("K30_30", 60, G.sk_bipartite(30, 30), None))
    k = 300 if quick else 1200
    fams.append((f"rings{k}", 6 * k, [(6 * j + i, 6 * j + (i + 1) % 6) for j in range(k) for i in range(6)], None))
    return fams


def slow_refinement_shapes(budget):
    """hydrogen-free carbon skeletons on which partition refinement needs many rounds relative to the number of atoms: two rings of
    different size joined by a chain (a distinction has to cross the molecule more than once: about 2n/3 rounds), rings with a tail,
    chains with one branch near an end, and unlabelled sparse random carbon graphs (own random stream)"""
    import random as _random

    def dumbbell(a, b, c):
        e = G.sk_cycle(a) + [(a + i - 1 if i else 0, a + i) for i in range(b)]
        last = a + b - 1 if b else 0
        e += [(x + a + b, y + a + b) for x, y in G.sk_cycle(c)] + [(last, a + b)]
        return a + b + c, e

    out = []
    sizes_ = [(3, 2, 4), (4, 3, 5), (5, 4, 6), (6, 6, 7), (10, 10, 11), (30, 30, 31), (100, 100, 101)]
    if budget > 1:
        sizes_ += [(300, 300, 301), (3, 600, 4)]
    for a, b, c in sizes_:
        n, e = dumbbell(a, b, c)
        out.append((f"dumbbell{a}_{b}_{c}", n, e))
    for a, b in [(3, 5), (5, 20), (8, 40), (4, 150)]:
        e = G.sk_cycle(a) + [((a + i - 1) if i else 0, a + i) for i in range(b)]
        out.append((f"lollipop{a}_{b}", a + b, e))
    for k in (7, 24, 90):
        out.append((f"broom{k}", k + 1, G.sk_path(k) + [(1, k)]))
    rng = _random.Random(f"slow-refinement-{os.environ.get('VERIF_SEED', '0')}")
    for i in range(40 * budget):
        n = rng.randint(6, 14)
        out.append((f"carbon_random{i}", n, G.sk_random(n, min(1.0, 2.4 / n), rng)))
    return out


HUGE_COUNT_SENTENCES = [("He100000/", {"He": 100000}), ("C50000H50001/", {"C": 50000, "H": 50001}), ("H120000/", {"H": 120000}),
                        ("C65536/", {"C": 65536}), ("H32768Og32768/", {"H": 32768, "Og": 32768}), ("Cl99999Na/", {"Cl": 99999, "Na": 1})]


def huge_count_probe(run, prop):
    """Sentences whose sum formula states tens of thousands of atoms (no bonds): far beyond what the model's driver evaluates in
    reasonable time (its association lists are quadratic), so the real parser alone is run and its result compared with the
    reference denotation: the stated number of atoms, of the stated elements, by increasing atomic number, no bonds."""
    for s, counts in HUGE_COUNT_SENTENCES:
        run.case((prop + "huge", s), True)
        run.stats["huge_count_sentence"] += 1
        try:
            with limit(CALL_LIMIT_S):
                h, err = safe(graph_from_tucan, s)
        except CallTimeout:
            run.fail("parser-does-not-return", f"{s!r}: no result after {CALL_LIMIT_S} s", {"string": s})
            continue
        if err is not None:
            run.fail("sentence-rejected" if prop == "C10" else "parser-raises-" + type(err).__name__,
                     f"{s!r} ({sum(counts.values())} atoms): {type(err).__name__}", {"string": s})
            continue
        want = [sy for sy in sorted(counts, key=lambda x: G.Z[x]) for _ in range(counts[sy])]
        got = [h.nodes[i].get("element_symbol") for i in range(h.number_of_nodes())] if set(h.nodes) == set(range(len(want))) else None
        if got != want or h.number_of_edges() != 0:
            run.fail("parsed-graph-is-not-the-denoted-one", f"{s!r}: {h.number_of_nodes()} atoms, {h.number_of_edges()} bonds",
                     {"string": s})


def work_C15(run, rng, budget):
    import resource
    for name, n, edges in slow_refinement_shapes(budget):
        atoms = {i: {"element_symbol": "C", "atomic_number": 6, "partition": 0} for i in range(n)}
        g = graph_from_molecule(atoms, {e: {} for e in edges})
        run.case(("C15slow", name), True)
        run.stats["family:" + name.rstrip("0123456789_")] += 1
        try:
            with limit(CALL_LIMIT_S):
                s, err = safe(tucan_of, g)
        except CallTimeout:
            run.fail("pipeline-does-not-return", f"{name}: no result after {CALL_LIMIT_S} s", {"family": name, "atoms": n})
            continue
        if err is not None:
            run.fail("pipeline-raises-" + type(err).__name__, f"{name}: {type(err).__name__}",
                     {"family": name, "atoms": n, "bonds": [list(e) for e in edges]})
            continue
        if n <= 61:
            queue_pipeline_ops(run, g)
            p0, _err = safe(partition_molecule_by_attribute, g, "invariant_code")
            if p0 is not None:
                run.corr(*R.op_refine(p0), "observable")
    for name, n, edges, syms in big_families(budget):
        atoms = {i: {"element_symbol": (syms[i] if syms else "C"), "atomic_number": G.Z[syms[i] if syms else "C"], "partition": 0}
                 for i in range(n)}
        bonds = {e: {} for e in edges}
        g = graph_from_molecule(atoms, bonds)
        run.case(("C15", name), True)
        run.stats["family:" + name.rstrip("0123456789")] += 1
        try:
            with limit(CALL_LIMIT_S):
                s, err = safe(tucan_of, g)
        except CallTimeout:
            run.fail("pipeline-does-not-return", f"{name}: no result after {CALL_LIMIT_S} s", {"family": name, "atoms": n})
            continue
        if err is not None:
            key = "recursion-error-on-long-chain" if isinstance(err, RecursionError) else "pipeline-raises-" + type(err).__name__
            run.fail(key, f"{name}: {type(err).__name__}", {"family": name, "atoms": n})
            continue
        try:
            with limit(CALL_LIMIT_S):
                h, err = safe(graph_from_tucan, s)
        except CallTimeout:
            run.fail("parser-does-not-return", f"{name}: no result after {CALL_LIMIT_S} s", {"family": name, "atoms": n})
            continue
        if err is not None:
            run.fail("parser-raises-on-pipeline-output", f"{name}: {type(err).__name__}", {"family": name, "atoms": n})
        run.sample({"family": name, "atoms": n, "len": len(s)})
    huge_count_probe(run, "C15")
    # correspondence on the depth-linear families at sizes the model handles quickly
    for name, n, edges in [("path", k, G.sk_path(k)) for k in (1, 2, 5, 30, 61)] + [("cycle", 40, G.sk_cycle(40)), ("ladder", 40, G.sk_ladder(20)),
                                                                                      ("comb", 40, G.sk_comb(20))]:
        atoms = {i: {"element_symbol": "C", "atomic_number": 6, "partition": 0} for i in range(n)}
        g = graph_from_molecule(atoms, {e: {} for e in edges})
        queue_pipeline_ops(run, g)
        p0, _err = safe(partition_molecule_by_attribute, g, "invariant_code")
        if p0 is None:
            continue
        run.corr(*R.op_refine(p0), "observable")
    for m in molecules(run, rng, 60 * budget):
        queue_pipeline_ops(run, mol_graph(m))
        # small molecules of every family, labelled ones included: the pipeline and the parser must return
        s, err = safe(tucan_of, mol_graph(m))
        run.case(("C15small", mol_repr(m)), True)
        if err is not None:
            run.fail("pipeline-raises-" + type(err).__name__, f"{m.family}: {type(err).__name__}", {"mol": mol_repr(m)})
            continue
        h, err = safe(graph_from_tucan, s)
        if err is not None:
            run.fail("parser-raises-on-pipeline-output", f"{m.family}: {type(err).__name__} on {s[:60]!r}", {"mol": mol_repr(m), "string": s})
    return "hydrogen-free skeletons on which refinement is slow (two unequal rings joined by a chain, rings with a tail, brooms, sparse " \
           "random carbon graphs), " \
           "paths, cycles, ladders, combs, peptide backbones up to thousands of atoms, 3000 isolated atoms, 1000 two-atom components, K40, " \
           "stars with thousands of leaves, deep binary trees, square grids, K30,30, hundreds of identical rings " \
           "through the real pipeline and parser; bond-free sentences stating up to 120 000 atoms through the real parser; model/real round counts compared on the same families at <= 61 atoms; every " \
           "family/size is a distinct non-trivial case"


# =====================================================================================
# C16
# =====================================================================================

def c16_inputs(run, rng, budget):
    # the ends of the documented seed range [0, 1)
    for seed in (0.0, 0.5, 0.9999999999999999, 1e-300):
        for _ in range(4):
            m = G.gen_mol(rng, max_n=10)
            while m.n() < 6:      # large enough that two different generator states give two different permutations
                m = G.gen_mol(rng, max_n=10)
            sizes(run, m)
            yield m, mol_graph(m), seed
    for m in molecules(run, rng, 100 * budget, max_n=14):
        g = mol_graph(m)
        yield m, (shuffled_listing(g, rng) if rng.random() < 0.5 else g), rng.random()
    # small and symmetric molecules, several seeds each: the first shuffle is then often the identity or an
    # automorphism, which is when the retry loop matters
    for _ in range(25 * budget):
        fam = rng.choice(["star", "cycle", "path", "complete", "bipartite", "tree", "random_sparse"])
        m = G.gen_mol(rng, max_n=5, family=fam)
        sizes(run, m)
        g0 = mol_graph(m)
        for k in range(6):
            g = shuffled_listing(g0, rng) if k % 2 else g0
            yield m, g, rng.random()


def work_C16(run, rng, budget):
    for m, g, seed in c16_inputs(run, rng, budget):
        run.stats["listing_order:" + ("label" if list(g.nodes) == sorted(g.nodes) else "other")] += 1
        before = P.show_graph(g)
        line, real, info = R.op_permute(g, seed)
        run.corr(line, real, "atom-order")
        r = info.get("result")
        run.case(("C16", mol_repr(m), seed), m.n() >= 2)
        if r is None:
            run.fail("permute-raises", real, {"mol": mol_repr(m), "seed": seed})
            continue
        if P.show_graph(g) != before:
            run.fail("permute-mutates-its-argument", "", {"mol": mol_repr(m), "seed": seed})
        if sorted(r.nodes) != sorted(g.nodes) or list(r.nodes) != sorted(r.nodes):
            run.fail("permute-label-set-or-order", f"{list(r.nodes)}", {"mol": mol_repr(m), "seed": seed})
        else:
            tag = {d["vtag"]: n for n, d in g.nodes(data=True)}
            pi = {}
            ok = True
            for n, d in r.nodes(data=True):
                o = tag.get(d.get("vtag"))
                if o is None or o in pi or dict(g.nodes[o]) != dict(d):
                    ok = False
                    break
                pi[o] = n
            if ok:
                eg = {frozenset((pi[a], pi[b])): d for a, b, d in g.edges(data=True)}
                er = {frozenset((a, b)): d for a, b, d in r.edges(data=True)}
                ok = eg == er
            if not ok:
                run.fail("permute-result-not-a-faithful-relabelling", "atom or bond attributes not carried / not isomorphic",
                         {"mol": mol_repr(m), "seed": seed})
        # same seed, different state of the global generator beforehand
        import random as _random
        _random.seed(len(run.samples) * 7919 + m.n())
        _random.random()
        r2, err = safe(permute_molecule, g, seed)
        if err is not None or P.show_graph(r2) != P.show_graph(r):
            run.fail("permute-not-deterministic-for-a-seed", "", {"mol": mol_repr(m), "seed": seed})
        ne, nn = g.number_of_edges(), g.number_of_nodes()
        if ne >= 2 and 2 * ne != nn * (nn - 1):
            run.stats["enforced"] += 1
            if {frozenset(e) for e in g.edges} == {frozenset(e) for e in r.edges}:
                run.fail("permute-returns-same-edge-set", "", {"mol": mol_repr(m), "seed": seed})
        run.stats["shuffles:" + str(min(len(info.get("shuffles", [])), 4))] += 1
        run.sample({"mol": mol_repr(m), "seed": seed, "labels": list(r.nodes)})
    return "random molecules with unique tags, charges, coordinates, bond types and random seeds in [0,1); the real helper's " \
           "result is compared with its argument under the bijection recovered from the tags, node listing order, argument " \
           "post-state, determinism per seed and the changed-edge-set clause are checked; random.shuffle results are recorded " \
           "and replayed in the model; non-trivial = >= 2 atoms"


WORK = {"C01": work_C01, "C02": work_C02, "C03": work_C03, "C04": work_C04, "C05": work_C05, "C06": work_C06,
        "C07": work_C07, "C08": work_C08, "C09": work_C09, "C10": work_C10, "C11": work_C11, "C12": work_C12,
        "C13": work_C13, "C15": work_C15, "C16": work_C16}


# =====================================================================================
# corpus of minimised past failures: replayed first for the properties they belong to
# =====================================================================================

def work_corpus(run, prop, rng):
    from . import corpus as CP
    for c in CP.cases(prop):
        run.stats["corpus_cases"] += 1
        kind = c["kind"]
        if kind == "mol":
            m = CP.mol_of(c)
            g = mol_graph(m)
            s0, err = safe(tucan_of, mol_graph(m))
            if err is not None:
                run.fail("pipeline-raises", f"corpus {c['id']}: {type(err).__name__}", {"corpus": c["id"]})
                continue
            c0, _ = safe(canonicalize_molecule, mol_graph(m))
            for _ in range(6):
                m2, perm = G.relabel(m, rng)
                s2, _ = safe(tucan_of, any_listing(mol_graph(m2), rng))
                if prop in ("C01",) and s2 != s0:
                    run.fail("string-differs-under-relabelling", f"corpus {c['id']}: {s0!r} vs {s2!r}",
                             {"mol": mol_repr(m), "relabelled": mol_repr(m2), "perm": perm})
                if prop == "C04":
                    c2, _ = safe(canonicalize_molecule, mol_graph(m2))
                    if c0 is not None and c2 is not None and canon_maps(c2) != canon_maps(c0):
                        run.fail("canonical-graph-differs-under-relabelling", f"corpus {c['id']}",
                                 {"mol": mol_repr(m), "relabelled": mol_repr(m2), "perm": perm})
            if prop in ("C03", "C02", "C05"):
                h, err = safe(graph_from_tucan, s0)
                if h is None or not ISO.isomorphic(g, h):
                    run.fail("parsed-graph-not-isomorphic", f"corpus {c['id']}: parse({s0!r})", {"mol": mol_repr(m), "string": s0})
                atoms = [(a["sym"], a.get("mass"), a.get("rad")) for a in m.atoms]
                bad = VAL.validate(s0, atoms, len(m.bonds))
                if bad and prop == "C05":
                    run.fail("emitted-string-violates-grammar-or-layout", f"corpus {c['id']}: {s0!r}: {bad[0]}", {"string": s0})
            queue_pipeline_ops(run, g)
        elif kind in ("v3000_atoms", "v2000_text"):
            from . import corpus as CP2
            text = CP2.v3000_text(c) if kind == "v3000_atoms" else c["text"]
            m = CP.mol_of(c)
            line, real, info = R.op_moltext(text)
            run.corr(line, real, "atom-order")
            gg = info.get("graph")
            if gg is None:
                run.fail("conformant-molfile-rejected", f"corpus {c['id']}: {real}", {"text": text})
                continue
            why = compare_read(gg, m)
            if why and prop in ("C07", "C08"):
                run.fail("v3000-read-differs-from-file" if kind == "v3000_atoms" else "v2000-read-differs-from-file",
                         f"corpus {c['id']}: {why}", {"mol": mol_repr(m), "text": text})
            if prop in ("C05", "C06"):
                s, _ = safe(tucan_of, gg)
                s_ref, _ = safe(tucan_of, mol_graph(m))
                if s != s_ref:
                    run.fail("non-identity-data-changes-the-string" if prop == "C06" else "emitted-string-violates-grammar-or-layout",
                             f"corpus {c['id']}: {s!r} vs {s_ref!r}", {"text": text})
        elif kind == "tucan_reject":
            t = CP.tucan_text(c)
            line, real, _ = R.op_parse(t)
            run.corr(line, real, "observable", meta={"string": t})
            if real != "ERR TucanParserException":
                run.fail("rejected-with-foreign-exception" if real.startswith("ERR") else "invalid-string-accepted",
                         f"corpus {c['id']}: {real[:80]}", {"string": t})
        elif kind == "tucan_accept":
            t = CP.tucan_text(c)
            line, real, info = R.op_parse(t)
            run.corr(line, real, "observable", meta={"string": t})
            gg = info.get("graph")
            if gg is None:
                run.fail("valid-sentence-rejected", f"corpus {c['id']}: {real}", {"string": t})
                continue
            if "atoms" in c:
                got = [gg.nodes[k].get("element_symbol") for k in sorted(gg.nodes)]
                if got != c["atoms"] or ("mass_on" in c and "mass" not in gg.nodes[c["mass_on"]]):
                    run.fail("parsed-graph-differs-from-denotation", f"corpus {c['id']}: {got}", {"string": t})
            if prop in ("C11", "C14", "C05"):
                n1, _ = safe(norm, t)
                n2, _ = safe(norm, n1) if n1 else (None, None)
                if n1 is None or n1 != n2:
                    run.fail("normalisation-not-idempotent", f"corpus {c['id']}: {n1!r} -> {n2!r}", {"string": t})
                if n1 and prop == "C05" and VAL.validate(n1):
                    run.fail("emitted-string-violates-grammar-or-layout", f"corpus {c['id']}: {n1!r}", {"string": n1})
