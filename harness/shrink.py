"""Shrinking of failing molecules: delete atoms / bonds / labels while the failure persists.

Only for failures whose replay carries an abstract molecule (`mol`) and whose verdict can be recomputed from the
molecule alone by public functions.  The result goes into the replay file as `minimal`; the original input stays
there too.  Bounded by a wall-clock budget; never changes the verdict of a check."""
from __future__ import annotations
import random
import time

from . import gen as G, iso as ISO, validator as VAL


def mol_from(d) -> G.Mol:
    atoms = []
    for i, a in enumerate(d["atoms"]):
        x = G._atom(a["sym"], i)
        x.update({k: a[k] for k in ("mass", "rad", "chg") if k in a})
        atoms.append(x)
    return G.Mol(atoms, [tuple(b) for b in d["bonds"]], d.get("family", ""))


def _variants(m: G.Mol):
    """smaller candidates, most aggressive first"""
    n = m.n()
    # drop one atom with its bonds
    for i in reversed(range(n)):
        if n <= 1:
            break
        keep = [j for j in range(n) if j != i]
        pos = {j: k for k, j in enumerate(keep)}
        yield G.Mol([dict(m.atoms[j]) for j in keep],
                    [(pos[a], pos[b], t) for a, b, t in m.bonds if a != i and b != i], m.family)
    # drop one bond
    for k in reversed(range(len(m.bonds))):
        yield G.Mol([dict(a) for a in m.atoms], m.bonds[:k] + m.bonds[k + 1:], m.family)
    # drop one label, turn an element into carbon, set a bond type to 1
    for i in range(n):
        for key in ("chg", "mass", "rad"):
            if key in m.atoms[i]:
                at = [dict(a) for a in m.atoms]
                del at[i][key]
                yield G.Mol(at, list(m.bonds), m.family)
        if m.atoms[i]["sym"] != "C":
            at = [dict(a) for a in m.atoms]
            at[i]["sym"] = "C"
            yield G.Mol(at, list(m.bonds), m.family)
    for k, (a, b, t) in enumerate(m.bonds):
        if t != 1:
            yield G.Mol([dict(x) for x in m.atoms], m.bonds[:k] + [(a, b, 1)] + m.bonds[k + 1:], m.family)


def shrink(m: G.Mol, fails, budget_s: float = 8.0) -> G.Mol:
    t0 = time.time()
    cur = m
    progress = True
    while progress and time.time() - t0 < budget_s:
        progress = False
        for cand in _variants(cur):
            if time.time() - t0 > budget_s:
                break
            try:
                if fails(cand):
                    cur = cand
                    progress = True
                    break
            except Exception:
                continue
    return cur


# ---- "still fails" predicates, by failure key; each uses public functions of the library only ----

def _predicates():
    from .props import mol_graph, tucan_of, safe, canon_maps, any_listing, classes_by_tag
    from tucan.canonicalization import canonicalize_molecule
    from tucan.serialization import serialize_molecule
    from tucan.parser.parser import graph_from_tucan

    def relabelled(m, k=24):
        rng = random.Random(12345)
        for _ in range(k):
            m2, _ = G.relabel(m, rng)
            yield any_listing(mol_graph(m2), rng)

    def c01(m):
        s0, e = safe(tucan_of, mol_graph(m))
        return any(safe(tucan_of, g2)[0] != s0 for g2 in relabelled(m))

    def c04(m):
        c0, e = safe(canonicalize_molecule, mol_graph(m))
        if c0 is None:
            return True
        for g2 in relabelled(m):
            c2, e2 = safe(canonicalize_molecule, g2)
            if c2 is None or canon_maps(c2) != canon_maps(c0):
                return True
        return False

    def c03(m):
        g = mol_graph(m)
        s, e = safe(tucan_of, g)
        if s is None:
            return True
        h, e = safe(graph_from_tucan, s)
        if h is None or not ISO.isomorphic(mol_graph(m), h):
            return True
        s2, e = safe(tucan_of, h)
        return s2 != s

    def c05(m):
        s, e = safe(tucan_of, mol_graph(m))
        if s is None:
            return True
        atoms = [(a["sym"], a.get("mass"), a.get("rad")) for a in m.atoms]
        return bool(VAL.validate(s, atoms, len(m.bonds)))

    def c13(m):
        c, e = safe(canonicalize_molecule, mol_graph(m))
        if c is None:
            return True
        byc = {}
        for n, d in c.nodes(data=True):
            sig = (ISO.ident_of(d), tuple(sorted(c.nodes[v]["partition"] for v in c.neighbors(n))))
            byc.setdefault(d["partition"], set()).add(sig)
        if any(len(v) > 1 for v in byc.values()):
            return True
        cls = classes_by_tag(c)
        for g2 in relabelled(m, 8):
            c2, e2 = safe(canonicalize_molecule, g2)
            if c2 is None or classes_by_tag(c2) != cls:
                return True
        return False

    return {
        "string-differs-under-relabelling": c01,
        "canonical-graph-differs-under-relabelling": c04,
        "parsed-graph-not-isomorphic": c03,
        "not-a-fixed-point": c03,
        "emitted-string-violates-grammar-or-layout": c05,
        "partition-not-equitable": c13,
        "classes-depend-on-labelling": c13,
    }


def minimal_for(key: str, replay: dict, budget_s: float = 8.0):
    """Returns a dict describing a smaller failing molecule, or None."""
    if not isinstance(replay, dict) or "mol" not in replay or not isinstance(replay["mol"], dict):
        return None
    pred = _predicates().get(key)
    if pred is None:
        return None
    try:
        m = mol_from(replay["mol"])
        if not pred(m):
            return None        # the failure is not a function of the molecule alone (a listing, a file, a history)
        small = shrink(m, pred, budget_s)
        from .props import mol_repr
        return {"mol": mol_repr(small), "atoms": small.n(), "bonds": len(small.bonds),
                "note": "smallest molecule found on which the same failure is still observed (same predicate, public functions only)"}
    except Exception as e:     # shrinking is a convenience
        return {"error": repr(e)[:200]}
