#!/venv/bin/python
"""Entry point registered in MANIFEST.json.

  check.py --property C01 [--tier quick|thorough] [--replay PATH]

exit 0: the property held on everything explored (KNOWN-FINDING lines may be printed)
exit 1: `VIOLATION property=<id> replay=<path>` was printed
exit 2: the machinery itself failed (timeout, tool failure)
"""
from __future__ import annotations
import argparse
import json
import os
import random
import sys
import time
import traceback

sys.path.insert(0, os.path.dirname(os.path.dirname(os.path.abspath(__file__))))
sys.setrecursionlimit(max(sys.getrecursionlimit(), 1000))

from harness import core  # noqa: E402


def decide(run: core.Run, rule: str, search):
    """Turn probe failures / broken proofs / broken correspondence into the exit status."""
    prop = run.prop
    known = [k for k in core.load_known_findings() if k.get("property") == prop]
    open_findings = [k for k in known if k.get("status") == "open"]

    def is_known(f):
        """an open finding names a failure key and, to stay specific, a text that must occur in the description or the
        recorded input (`match`); a different violation of the same property is still reported"""
        blob = f["desc"] + " " + json.dumps(f["replay"], default=str)
        return any(k["key"] == f["key"] and (not k.get("match") or k["match"] in blob) for k in open_findings)
    open_keys = {k["key"] for k in open_findings}
    violations = []
    known_hits = {}
    for f in run.failures:
        if is_known(f):
            known_hits.setdefault(f["key"], f)
        else:
            violations.append(f)
    lean = run.lean or {}
    broken = []
    if not lean.get("proofs_ok"):
        broken.append({"what": "proof", "detail": f"TucanProofs.Props.{prop} does not build or audit",
                       "log": lean.get("log", "")[-3000:], "failed_at": lean.get("failed_decls")})
    if lean and not lean.get("tables_ok", True):
        broken.append({"what": "tables", "detail": "tools/extract_tables.py failed: the tables and the grammar could not be "
                       "regenerated from the working tree, so the proofs were not re-checked against what the source says now",
                       "log": lean.get("log", "")[-3000:]})
    if lean.get("bad_axioms"):
        broken.append({"what": "axioms", "detail": f"theorems depend on axioms outside the allowed set: {lean['bad_axioms']}"})
    if lean.get("forbidden"):
        broken.append({"what": "forbidden-construct", "detail": "; ".join(lean["forbidden"][:5])})
    if run.corr_disagreements:
        d = run.corr_disagreements[0]
        broken.append({"what": "correspondence", "detail": f"{len(run.corr_disagreements)} operations on which model and code disagree",
                       "first": {k: (v[:3000] if isinstance(v, str) else v) for k, v in d.items()}})
    found_by = {"seed": run.seed, "budget": getattr(run, "budget", 1)}
    if broken and not violations and not known_hits:
        # a broken proof or correspondence is not by itself a violation: search for a failing input
        run.notes.append("searching the real code for a failing input (larger budget)")
        try:
            srun = search()
            if srun.failures:
                found_by = {"seed": srun.seed, "budget": getattr(srun, "budget", 1)}
            for f in srun.failures:
                if not is_known(f):
                    violations.append(f)
                else:
                    known_hits.setdefault(f["key"], f)
            run.stats["search_evaluations"] = srun.stats.get("evaluations", 0)
        except Exception:
            run.notes.append("search failed: " + traceback.format_exc()[-1500:])
    rc = 0
    lines = []
    for key, f in known_hits.items():
        lines.append(f"KNOWN-FINDING: property={prop} {key}: {f['desc'][:200]}")
    if violations:
        f = violations[0]
        minimal = None
        try:
            from harness import shrink
            minimal = shrink.minimal_for(f["key"], f["replay"])
        except Exception:
            minimal = None
        path = core.write_replay(prop, f["key"], {"property": prop, "key": f["key"], "desc": f["desc"], "input": f["replay"],
                                                   "minimal": minimal,
                                                   "seed": run.seed, "tier": run.tier, "found_by": found_by,
                                                   "others": len(violations) - 1,
                                                   "also_broken": broken})
        lines.append(f"VIOLATION property={prop} replay={path}")
        lines.append(f"  {f['key']}: {f['desc'][:300]}")
        if minimal and "mol" in minimal:
            lines.append(f"  shrunk to {minimal['atoms']} atoms / {minimal['bonds']} bonds: {json.dumps(minimal['mol'])[:300]}")
        rc = 1
    elif broken and not known_hits:
        path = core.write_replay(prop, "unchecked", {"property": prop, "no_longer_checks": broken, "seed": run.seed,
                                                     "note": "no input on which the property fails was found; the property is no longer shown to hold"})
        lines.append(f"VIOLATION property={prop} replay={path} no-failing-input-found")
        for b in broken:
            lines.append(f"  {b['what']}: {b['detail'][:300]}")
        rc = 1
    elif broken and known_hits:
        # the break is explained by a listed finding
        pass
    return rc, lines, len(violations) + (1 if (broken and not violations and not known_hits) else 0)


# how much larger than the quick workload the thorough one is (a few minutes per property on this machine)
THOROUGH_BUDGET = {"C10": 40, "C14": 60, "C15": 20}
# the search for a failing input after a broken proof / correspondence runs the workload again with another seed and a
# larger budget; C15's workload is dominated by fixed large inputs, C14's by subprocesses
SEARCH_FACTOR = {"C15": 1, "C14": 2}


class WorkloadTimeout(BaseException):
    """not an Exception: the probes' `safe()` must not mistake it for an error of the library call it interrupts"""


def _deadline(tier):
    """seconds a whole workload may take before it is abandoned (environment override: VERIF_DEADLINE_S)"""
    return int(os.environ.get("VERIF_DEADLINE_S", "0") or 0) or (1500 if tier == "quick" else 7200)


def run_property(prop: str, tier: str, seed: int, budget: int, with_lean=True) -> core.Run:
    import signal

    def on_alarm(signum, frame):
        raise WorkloadTimeout(f"the workload of {prop} did not finish within {_deadline(tier)} s")
    old = signal.signal(signal.SIGALRM, on_alarm)
    signal.alarm(_deadline(tier))
    try:
        return _run_property(prop, tier, seed, budget, with_lean)
    finally:
        signal.alarm(0)
        signal.signal(signal.SIGALRM, old)


def _run_property(prop: str, tier: str, seed: int, budget: int, with_lean=True) -> core.Run:
    run = core.Run(prop, tier, seed)
    run.budget = budget
    if with_lean:
        run.lean = core.prepare_lean(prop)
    rng = random.Random(f"{prop}:{seed}:{budget}")
    from harness import real as R
    R.install_oracle_wrapper()
    R.install_shuffle_wrapper()
    if prop == "C14":
        from harness import c14, props
        props.work_corpus(run, prop, rng)
        run.rule = c14.work_C14(run, rng, budget)
    else:
        from harness import props
        props.THOROUGH = tier == "thorough"
        props.work_corpus(run, prop, rng)
        run.rule = props.WORK[prop](run, rng, budget)
    if with_lean:
        run.run_correspondence()
        if prop == "C10":
            # For C10 the Lean reader IS the reference the property names ("an independent reference reader
            # written from the EBNF"): a string on which the real parser and the reference differ in
            # accept/reject, exception type or graph is a failing input of the property itself.
            for d in run.corr_disagreements:
                meta = d.get("meta") or {}
                if "string" in meta:
                    run.fail("parser-differs-from-reference-reader",
                             f"{meta['string'][:80]!r}: real {d['real'][:60]!r} vs reference {d['model'][:60]!r}",
                             {"string": meta["string"], "real": d["real"][:500], "reference": d["model"][:500]})
    return run


def replay(path: str) -> int:
    obj = json.load(open(path))
    prop = obj["property"]
    print(f"replaying {path} for {prop}")
    if "no_longer_checks" in obj:
        if any(b.get("what") == "leanchecker" for b in obj["no_longer_checks"]):
            rcl, out = core.sh(["lake", "env", "leanchecker", f"TucanProofs.Props.{prop}"], cwd=core.LEAN, timeout=3000)
            print(out[-1500:])
            if rcl != 0:
                print(f"VIOLATION property={prop} replay={path} no-failing-input-found")
                return 1
        run = run_property(prop, "quick", int(obj.get("seed", 0)), 1)
        rc, lines, _ = decide(run, "", lambda: run_property(prop, "quick", int(obj.get("seed", 0)) + 1, 3, with_lean=False))
        print("\n".join(lines))
        return rc
    # the workloads are deterministic functions of (property, seed, budget): regenerate the run that found the
    # input and look for the same failure on the current tree
    fb = obj.get("found_by") or {"seed": obj.get("seed", 0), "budget": 1}
    run = run_property(prop, obj.get("tier", "quick"), int(fb["seed"]), int(fb["budget"]), with_lean=(prop == "C10"))
    same = [f for f in run.failures if f["key"] == obj["key"]]
    exact = [f for f in same if json.dumps(f["replay"], default=str, sort_keys=True) == json.dumps(obj["input"], default=str, sort_keys=True)
             or str(f["replay"]) == str(obj["input"])]
    if exact or same:
        f = (exact or same)[0]
        print(f"  {f['key']}: {f['desc'][:300]}" + ("" if exact else "  (same kind of failure, on another input of the regenerated workload)"))
        print(f"VIOLATION property={prop} replay={path}")
        return 1
    print(f"the regenerated workload (seed {fb['seed']}, budget {fb['budget']}) no longer fails with '{obj['key']}': "
          "property holds on the recorded input now")
    return 0


def main():
    ap = argparse.ArgumentParser()
    ap.add_argument("--property", required=False)
    ap.add_argument("--tier", default=os.environ.get("VERIF_TIER", "quick"))
    ap.add_argument("--replay")
    a = ap.parse_args()
    if a.replay:
        try:
            rc = replay(a.replay)
        except SystemExit:
            raise
        except WorkloadTimeout as e:
            print(f"TIMEOUT {e}")
            rc = 2
        except Exception:
            traceback.print_exc()
            rc = 2
        sys.exit(rc)
    prop = a.property
    seed = int(os.environ.get("VERIF_SEED", "0") or 0)
    tier = a.tier if a.tier in ("quick", "thorough") else "quick"
    budget = 1 if tier == "quick" else THOROUGH_BUDGET.get(prop, 100)
    try:
        run = run_property(prop, tier, seed, budget)
        rc, lines, nviol = decide(run, run.rule, lambda: run_property(prop, tier, seed + 7919, budget * SEARCH_FACTOR.get(prop, 4 if tier == "quick" else 2), with_lean=False))
        extra = {"rule": run.rule, "notes": run.notes}
        if tier == "thorough" and run.lean and run.lean.get("proofs_ok"):
            t = time.time()
            rcl, out = core.sh(["lake", "env", "leanchecker", f"TucanProofs.Props.{prop}"], cwd=core.LEAN, timeout=3000)
            extra["leanchecker"] = {"rc": rcl, "tail": out[-300:], "wall_s": round(time.time() - t, 1)}
            if rcl != 0:
                lines.append(f"VIOLATION property={prop} replay={core.write_replay(prop, 'leanchecker', {'property': prop, 'no_longer_checks': [{'what': 'leanchecker', 'detail': out[-2000:]}]})} no-failing-input-found")
                rc = 1
                nviol += 1
        for l in lines:
            print(l)
        sys.stdout.flush()
        core.write_evidence(run, "proof", extra, nviol)
        lean = run.lean or {}
        print(f"[{prop}] tier={tier} seed={seed} theorems={len(lean.get('theorems', []))} proofs_ok={lean.get('proofs_ok')} "
              f"corr_ops={len(run.ops)} disagree={run.stats.get('corr_disagree', 0)} cases={run.stats.get('evaluations', 0)} "
              f"probe_failures={len(run.failures)} workload={run.digest()} wall={time.time() - run.t0:.1f}s")
        sys.exit(rc)
    except SystemExit:
        raise
    except WorkloadTimeout as e:
        print(f"TIMEOUT {e}")
        sys.exit(2)
    except Exception:
        traceback.print_exc()
        sys.exit(2)


if __name__ == "__main__":
    main()
