"""Generators.  Every random choice comes from the `random.Random` passed in, so a run is a function
of VERIF_SEED.  Nothing here imports the library under test: molecules are plain Python data, molfile
texts are rendered from the CTfile specification, TUCAN strings from the grammar."""
from __future__ import annotations
import itertools
import random
from dataclasses import dataclass, field

ELEMENTS = [
    "H", "He", "Li", "Be", "B", "C", "N", "O", "F", "Ne", "Na", "Mg", "Al", "Si", "P", "S", "Cl", "Ar", "K", "Ca",
    "Sc", "Ti", "V", "Cr", "Mn", "Fe", "Co", "Ni", "Cu", "Zn", "Ga", "Ge", "As", "Se", "Br", "Kr", "Rb", "Sr", "Y",
    "Zr", "Nb", "Mo", "Tc", "Ru", "Rh", "Pd", "Ag", "Cd", "In", "Sn", "Sb", "Te", "I", "Xe", "Cs", "Ba", "La", "Ce",
    "Pr", "Nd", "Pm", "Sm", "Eu", "Gd", "Tb", "Dy", "Ho", "Er", "Tm", "Yb", "Lu", "Hf", "Ta", "W", "Re", "Os", "Ir",
    "Pt", "Au", "Hg", "Tl", "Pb", "Bi", "Po", "At", "Rn", "Fr", "Ra", "Ac", "Th", "Pa", "U", "Np", "Pu", "Am", "Cm",
    "Bk", "Cf", "Es", "Fm", "Md", "No", "Lr", "Rf", "Db", "Sg", "Bh", "Hs", "Mt", "Ds", "Rg", "Cn", "Nh", "Fl", "Mc",
    "Lv", "Ts", "Og"]
Z = {s: i + 1 for i, s in enumerate(ELEMENTS)}
HILL_TRAPS = ["C", "H", "B", "Br", "Ca", "Cl", "Cn", "Co", "Cs", "He", "Hf", "Hg", "Ho", "Hs", "N", "O", "Na", "Nb",
              "S", "Si", "Sn", "I", "In", "Ir", "F", "Fe", "Fl"]
COMMON = ["C", "C", "C", "C", "H", "H", "H", "N", "O", "O", "S", "Cl", "Fe", "P"]


@dataclass
class Mol:
    """An abstract molecule: atoms in some listing, bonds in some listing and orientation."""
    atoms: list  # dicts: sym, mass?, rad?, chg?, x, y, z, tag
    bonds: list  # (i, j, bond_type)
    family: str = ""

    def n(self):
        return len(self.atoms)

    def copy(self):
        return Mol([dict(a) for a in self.atoms], list(self.bonds), self.family)


def _atom(sym, i, rng=None, mass=None, rad=None, chg=None):
    a = {"sym": sym, "x": round(i * 1.25 + 0.125, 4), "y": round((i * 7 % 11) * 0.5, 4), "z": 0.0, "tag": f"t{i}"}
    if mass is not None:
        a["mass"] = mass
    if rad is not None:
        a["rad"] = rad
    if chg is not None:
        a["chg"] = chg
    return a


# ---------- skeletons ----------

def sk_path(n):
    return [(i, i + 1) for i in range(n - 1)]


def sk_cycle(n):
    return [(i, (i + 1) % n) for i in range(n)] if n >= 3 else sk_path(n)


def sk_ladder(k):  # 2k nodes
    e = []
    for i in range(k):
        e.append((2 * i, 2 * i + 1))
        if i + 1 < k:
            e.append((2 * i, 2 * i + 2))
            e.append((2 * i + 1, 2 * i + 3))
    return e


def sk_comb(k):  # backbone k, one tooth each: 2k nodes
    e = [(i, i + 1) for i in range(k - 1)]
    e += [(i, k + i) for i in range(k)]
    return e


def sk_complete(n):
    return [(i, j) for i in range(n) for j in range(i + 1, n)]


def sk_bipartite(a, b):
    return [(i, a + j) for i in range(a) for j in range(b)]


def sk_prism(k):  # 2k nodes
    e = []
    for i in range(k):
        e.append((i, (i + 1) % k))
        e.append((k + i, k + (i + 1) % k))
        e.append((i, k + i))
    return e


def sk_cube():
    return [(a, b) for a in range(8) for b in range(a + 1, 8) if bin(a ^ b).count("1") == 1]


def sk_petersen():
    return [(i, (i + 1) % 5) for i in range(5)] + [(5 + i, 5 + (i + 2) % 5) for i in range(5)] + [(i, i + 5) for i in range(5)]


def sk_star(n):
    return [(0, i) for i in range(1, n)]


def sk_rook4():
    idx = lambda r, c: 4 * r + c
    e = set()
    for r in range(4):
        for c in range(4):
            for c2 in range(c + 1, 4):
                e.add((idx(r, c), idx(r, c2)))
            for r2 in range(r + 1, 4):
                e.add((idx(r, c), idx(r2, c)))
    return sorted(e)


def sk_shrikhande():
    idx = lambda r, c: 4 * (r % 4) + (c % 4)
    e = set()
    for r in range(4):
        for c in range(4):
            for dr, dc in ((0, 1), (1, 0), (1, 1)):
                a, b = idx(r, c), idx(r + dr, c + dc)
                e.add((min(a, b), max(a, b)))
    return sorted(e)


def sk_tree(n, rng):
    return [(rng.randrange(i), i) for i in range(1, n)]


def sk_random(n, p, rng):
    return [(i, j) for i in range(n) for j in range(i + 1, n) if rng.random() < p]


def sk_peptide(k):  # backbone N-C-C(=O) repeated: 4k atoms, returns (edges, syms)
    e, syms = [], []
    for i in range(k):
        b = 4 * i
        syms += ["N", "C", "C", "O"]
        e += [(b, b + 1), (b + 1, b + 2), (b + 2, b + 3)]
        if i + 1 < k:
            e.append((b + 2, b + 4))
    return e, syms


def components(n, edges):
    parent = list(range(n))

    def f(a):
        while parent[a] != a:
            parent[a] = parent[parent[a]]
            a = parent[a]
        return a
    for a, b in edges:
        parent[f(a)] = f(b)
    return len({f(i) for i in range(n)})


def sk_bicyclo222():
    # two bridgeheads 0 and 1 joined by three two-atom bridges
    e = []
    for k in range(3):
        a, b = 2 + 2 * k, 3 + 2 * k
        e += [(0, a), (a, b), (b, 1)]
    return 8, e


def sk_adamantane():
    # 4 CH (0-3) and 6 CH2 (4-9), every CH2 bridges two CH
    pairs = [(0, 1), (0, 2), (0, 3), (1, 2), (1, 3), (2, 3)]
    e = []
    for k, (a, b) in enumerate(pairs):
        e += [(a, 4 + k), (4 + k, b)]
    return 10, e


FAMILIES = ["cage_mixture", "labelled_isolated", "charged_dt", "random_sparse", "random_dense", "tree", "path", "cycle", "ladder", "comb", "complete", "bipartite",
            "union_identical", "prism", "cube", "petersen", "star", "isolated", "rare_elements", "partial_orbit",
            "wl_hard", "peptide", "two_components"]


BOND_TYPES = [1, 1, 1, 1, 2, 2, 3, 4, 4, 5, 6, 7, 8, 9, 10]


def regular_mixtures(rng, count):
    """Mixtures of two or three DIFFERENT unlabelled regular carbon skeletons of one degree (rings of different sizes; cubic
    cages of different sizes).  Partition refinement cannot tell their atoms apart, so all atoms share one class and only the
    bliss labelling and the cosmetic relabelling decide the string: the order in which the library visits the components must
    not depend on how the description lists them.  Components of 8 and 16 atoms are over-represented (label blocks that
    start at multiples of 8)."""
    rings = [3, 4, 5, 6, 7, 8, 8, 9, 10, 12, 16, 16]
    cubic = [("K4", 4, sk_complete(4)), ("prism3", 6, sk_prism(3)), ("cube", 8, sk_cube()), ("prism5", 10, sk_prism(5)),
             ("petersen", 10, sk_petersen()), ("prism6", 12, sk_prism(6)), ("prism8", 16, sk_prism(8))]
    for i in range(count):
        k = 2 if rng.random() < 0.7 else 3
        comps = []
        if i % 2 == 0:
            for size in rng.sample(sorted(set(rings)), k):
                comps.append((f"ring{size}", size, sk_cycle(size)))
            if rng.random() < 0.6 and not any(c[1] in (8, 16) for c in comps):
                size = rng.choice([8, 16])
                comps[0] = (f"ring{size}", size, sk_cycle(size))
        else:
            comps = rng.sample(cubic, k)
        rng.shuffle(comps)
        n, edges = 0, []
        for _, size, e in comps:
            edges += [(a + n, b + n) for a, b in e]
            n += size
        atoms = [_atom("C", j) for j in range(n)]
        yield Mol(atoms, [(a, b, 1) for a, b in edges], "regular_mixture:" + "+".join(c[0] for c in comps))


def decorate(n, edges, rng, syms=None, label_p=0.15, family=""):
    atoms = []
    for i in range(n):
        sym = syms[i] if syms else rng.choice(COMMON)
        a = _atom(sym, i)
        if rng.random() < label_p:
            a["mass"] = rng.choice([1, 2, 3, 12, 13, 14, 15, 18, 35, 37, 100, 238])
        if rng.random() < label_p / 2:
            a["rad"] = rng.randint(1, 3)
        if rng.random() < label_p / 2:
            a["chg"] = rng.choice([-3, -2, -1, 1, 2, 3])
        atoms.append(a)
    # every bond type of the CTfile specification: 1-3, 4 aromatic, 5-8 query types, 9 coordination, 10 hydrogen
    bonds = [(a, b, rng.choice(BOND_TYPES)) for a, b in edges]
    return Mol(atoms, bonds, family)


def gen_mol(rng: random.Random, max_n=24, family=None) -> Mol:
    fam = family or rng.choice(FAMILIES)
    if fam == "random_sparse":
        n = rng.randint(1, max_n)
        return decorate(n, sk_random(n, min(1.0, 2.2 / max(n, 1)), rng), rng, family=fam)
    if fam == "random_dense":
        n = rng.randint(2, min(max_n, 12))
        return decorate(n, sk_random(n, 0.6, rng), rng, family=fam)
    if fam == "tree":
        n = rng.randint(1, max_n)
        return decorate(n, sk_tree(n, rng), rng, family=fam)
    if fam == "path":
        n = rng.randint(1, max_n)
        return decorate(n, sk_path(n), rng, syms=["C"] * n, label_p=0.05, family=fam)
    if fam == "cycle":
        n = rng.randint(3, max(3, max_n))
        return decorate(n, sk_cycle(n), rng, syms=["C"] * n, label_p=0.08, family=fam)
    if fam == "ladder":
        k = rng.randint(1, max(1, max_n // 2))
        return decorate(2 * k, sk_ladder(k), rng, syms=["C"] * (2 * k), label_p=0.05, family=fam)
    if fam == "comb":
        k = rng.randint(1, max(1, max_n // 2))
        return decorate(2 * k, sk_comb(k), rng, syms=["C"] * k + ["H"] * k, label_p=0.05, family=fam)
    if fam == "complete":
        n = rng.randint(1, min(max_n, 9))
        return decorate(n, sk_complete(n), rng, syms=[rng.choice(["C", "B"])] * n, label_p=0.1, family=fam)
    if fam == "bipartite":
        a, b = rng.randint(1, 4), rng.randint(1, 4)
        return decorate(a + b, sk_bipartite(a, b), rng, syms=["C"] * a + ["O"] * b, label_p=0.08, family=fam)
    if fam == "union_identical":
        base = gen_mol(rng, max_n=max(2, max_n // 3), family=rng.choice(["tree", "cycle", "random_sparse"]))
        k = rng.randint(2, 3)
        atoms, bonds = [], []
        for c in range(k):
            off = len(atoms)
            for i, a in enumerate(base.atoms):
                a2 = dict(a)
                a2["tag"] = f"t{off + i}"
                a2["x"] = round(a["x"] + 100 * c, 4)
                atoms.append(a2)
            bonds += [(u + off, v + off, t) for u, v, t in base.bonds]
        m = Mol(atoms, bonds, fam)
        if rng.random() < 0.5 and atoms:
            atoms[rng.randrange(len(atoms))]["mass"] = 13  # label one copy only
        return m
    if fam == "prism":
        k = rng.randint(3, max(3, min(8, max_n // 2)))
        return decorate(2 * k, sk_prism(k), rng, syms=["C"] * (2 * k), label_p=0.06, family=fam)
    if fam == "cube":
        return decorate(8, sk_cube(), rng, syms=["C"] * 8, label_p=0.1, family=fam)
    if fam == "petersen":
        return decorate(10, sk_petersen(), rng, syms=["C"] * 10, label_p=0.1, family=fam)
    if fam == "star":
        n = rng.randint(2, max(2, min(max_n, 13)))
        return decorate(n, sk_star(n), rng, syms=[rng.choice(["C", "P", "S", "Fe"])] + [rng.choice(["H", "F", "Cl"])] * (n - 1),
                        label_p=0.1, family=fam)
    if fam == "isolated":
        n = rng.randint(1, max_n)
        return decorate(n, [], rng, family=fam)
    if fam == "rare_elements":
        n = rng.randint(1, max_n)
        syms = [rng.choice(HILL_TRAPS if rng.random() < 0.6 else ELEMENTS) for _ in range(n)]
        if rng.random() < 0.4:
            syms = [s for s in syms if s != "C"] or ["H"]
            n = len(syms)
        # counts >= 10 of one element now and then
        if rng.random() < 0.3:
            syms += [rng.choice(syms)] * rng.randint(9, 14)
            n = len(syms)
        return decorate(n, sk_random(n, min(1.0, 1.5 / max(n, 1)), rng), rng, syms=syms, family=fam)
    if fam == "partial_orbit":
        sk = rng.choice(["cycle", "prism", "cube", "petersen", "complete", "bipartite", "star"])
        m = gen_mol(rng, max_n=max_n, family=sk)
        for a in m.atoms:
            a.pop("mass", None), a.pop("rad", None), a.pop("chg", None)
        k = rng.randint(1, max(1, m.n() // 2))
        for i in rng.sample(range(m.n()), min(k, m.n())):
            if rng.random() < 0.7:
                m.atoms[i]["mass"] = rng.choice([2, 13, 14])
            else:
                m.atoms[i]["rad"] = 2
        m.family = fam + ":" + sk
        return m
    if fam == "wl_hard":
        sk = rng.choice([sk_rook4, sk_shrikhande])
        return decorate(16, sk(), rng, syms=["C"] * 16, label_p=0.0 if rng.random() < 0.6 else 0.1, family=fam + ":" + sk.__name__)
    if fam == "peptide":
        k = rng.randint(1, max(1, max_n // 4))
        e, syms = sk_peptide(k)
        return decorate(len(syms), e, rng, syms=syms, label_p=0.03, family=fam)
    if fam == "cage_mixture":
        # a symmetric cage together with enough further components that bonds < atoms overall
        kind = rng.choice(["bicyclo222", "adamantane", "cube", "prism3", "K4", "two_rings"])
        if kind == "bicyclo222":
            n, e = sk_bicyclo222()
        elif kind == "adamantane":
            n, e = sk_adamantane()
        elif kind == "cube":
            n, e = 8, sk_cube()
        elif kind == "prism3":
            n, e = 6, sk_prism(3)
        elif kind == "K4":
            n, e = 4, sk_complete(4)
        else:
            a, b = rng.randint(3, 5), rng.randint(3, 6)
            n, e = a + b, sk_cycle(a) + [(x + a, y + a) for x, y in sk_cycle(b)]
        syms = ["C"] * n
        if kind == "bicyclo222" and rng.random() < 0.5:
            syms[0] = syms[1] = "N"
        rings = len(e) - n + 1
        extra = rng.randint(max(rings, 1), rings + 3)
        for _ in range(extra):
            syms.append(rng.choice(["Cl", "Na", "H", "O", "Br"]))
        return decorate(len(syms), e, rng, syms=syms, label_p=0.0 if rng.random() < 0.7 else 0.08, family=fam + ":" + kind)
    if fam == "charged_dt":
        # a D or T atom that carries a charge or is a doublet radical (so that a V2000 file can give it a
        # non-zero atom-block charge code), next to ordinary atoms with the same charge / radical
        n = rng.randint(2, 5)
        syms = ["H"] + [rng.choice(["H", "C", "O", "N"]) for _ in range(n - 1)]
        m = decorate(n, sk_tree(n, rng), rng, syms=syms, label_p=0.0, family=fam)
        m.atoms[0]["mass"] = rng.choice([2, 3])
        kind = rng.choice(["chg", "rad"])
        val = rng.choice([1, -1, 2]) if kind == "chg" else 2
        m.atoms[0][kind] = val
        for a in m.atoms[1:]:
            if rng.random() < 0.6:
                a[kind] = val
        return m
    if fam == "labelled_isolated":
        # one to three bond-free atoms, most of them carrying an isotope and/or radical label
        n = rng.choice([1, 1, 1, 2, 3])
        syms = [rng.choice(["H", "He", "C", "Cl", "Na", "O"]) for _ in range(n)]
        m = decorate(n, [], rng, syms=syms, label_p=0.0, family=fam)
        for a in m.atoms:
            r = rng.random()
            if r < 0.4:
                a["mass"] = rng.choice([2, 3, 13, 22, 37])
            elif r < 0.6:
                a["rad"] = rng.randint(1, 3)
            elif r < 0.8:
                a["mass"], a["rad"] = rng.choice([2, 3, 13]), rng.randint(1, 3)
        return m
    if fam == "two_components":
        a = gen_mol(rng, max_n=max(1, max_n // 2), family="random_sparse")
        b = gen_mol(rng, max_n=max(1, max_n // 2), family="tree")
        off = a.n()
        atoms = a.atoms + [dict(x, tag=f"t{off + i}", x=round(x["x"] + 50, 4)) for i, x in enumerate(b.atoms)]
        return Mol(atoms, a.bonds + [(u + off, v + off, t) for u, v, t in b.bonds], fam)
    raise ValueError(fam)


def relabel(m: Mol, rng: random.Random) -> tuple[Mol, list[int]]:
    """Another description of the same molecule: permuted numbering, shuffled atom and bond listing,
    random bond orientation.  Returns the new molecule and perm with new_index = perm[old_index]."""
    n = m.n()
    perm = list(range(n))
    rng.shuffle(perm)
    atoms = [None] * n
    for old, new in enumerate(perm):
        atoms[new] = dict(m.atoms[old])
    bonds = [(perm[a], perm[b], t) for a, b, t in m.bonds]
    rng.shuffle(bonds)
    bonds = [(b, a, t) if rng.random() < 0.5 else (a, b, t) for a, b, t in bonds]
    return Mol(atoms, bonds, m.family), perm


def to_dicts(m: Mol, with_partition=True):
    """atom_attrs / bond_attrs as the readers hand them to graph_from_molecule"""
    atom_attrs = {}
    for i, a in enumerate(m.atoms):
        d = {"element_symbol": a["sym"], "atomic_number": Z[a["sym"]]}
        if with_partition:
            d["partition"] = 0
        d["x_coord"], d["y_coord"], d["z_coord"] = float(a["x"]), float(a["y"]), float(a["z"])
        for k in ("mass", "rad", "chg"):
            if k in a:
                d[k] = a[k]
        d["vtag"] = a["tag"]
        atom_attrs[i] = d
    bond_attrs = {}
    for a, b, t in m.bonds:
        bond_attrs[(a, b)] = {"bond_type": t}
    return atom_attrs, bond_attrs


def ident(a: dict):
    return (a["sym"], a.get("mass", 0), a.get("rad", 0))


def small_graphs(n):
    """all simple graphs on n labelled vertices (edge subsets)"""
    pairs = [(i, j) for i in range(n) for j in range(i + 1, n)]
    for k in range(len(pairs) + 1):
        for es in itertools.combinations(pairs, k):
            yield list(es)
