"""Run bookkeeping: build + audit of the Lean side, correspondence diff, probe results, evidence,
known findings, exit status."""
from __future__ import annotations
import collections
import fcntl
import hashlib
import json
import os
import re
import subprocess
import sys
import time

from . import proto as P

VERIF = P.VERIF
LEAN = P.LEAN_DIR
ALLOWED_AXIOMS = {"propext", "Classical.choice", "Quot.sound"}
FORBIDDEN = re.compile(r"\b(sorry|admit|native_decide|bv_decide|implemented_by|unsafe)\b|^\s*axiom\s|maxHeartbeats\s+0\b", re.M)


def sh(cmd, cwd=None, timeout=3600, env=None):
    p = subprocess.run(cmd, cwd=cwd, stdout=subprocess.PIPE, stderr=subprocess.STDOUT, timeout=timeout, env=env)
    return p.returncode, p.stdout.decode(errors="replace")


class BuildLock:
    def __enter__(self):
        os.makedirs(os.path.join(LEAN, ".lake"), exist_ok=True)
        self.f = open(os.path.join(LEAN, ".lake", "verif.lock"), "w")
        fcntl.flock(self.f, fcntl.LOCK_EX)
        return self

    def __exit__(self, *a):
        fcntl.flock(self.f, fcntl.LOCK_UN)
        self.f.close()


def strip_lean_comments(src: str) -> str:
    # nested block comments
    out, depth, i = [], 0, 0
    while i < len(src):
        if src.startswith("/-", i):
            depth += 1
            i += 2
        elif src.startswith("-/", i) and depth > 0:
            depth -= 1
            i += 2
        elif depth > 0:
            i += 1
        elif src.startswith("--", i):
            j = src.find("\n", i)
            i = len(src) if j < 0 else j
        else:
            out.append(src[i])
            i += 1
    return "".join(out)


def import_closure(mod: str) -> list[str]:
    """relative paths of the project's own source files that `mod` imports, transitively"""
    seen, todo = [], [mod]
    while todo:
        m = todo.pop()
        rel = m.replace(".", "/") + ".lean"
        if rel in seen or not os.path.exists(os.path.join(LEAN, rel)):
            continue
        seen.append(rel)
        for imp in re.findall(r"^\s*(?:public\s+)?import\s+([A-Za-z0-9_.]+)", open(os.path.join(LEAN, rel)).read(), re.M):
            if imp.startswith("TucanModel") or imp.startswith("TucanProofs"):
                todo.append(imp)
    return sorted(seen)


def prepare_lean(prop: str) -> dict:
    """Regenerate tables, build driver and this property's proof module, audit axioms.
    Returns a status dict; never raises for a failing build."""
    st = {"tables": None, "tables_ok": False, "driver_ok": False, "proofs_ok": False, "theorems": [], "axioms": {}, "bad_axioms": {},
          "forbidden": [], "log": "", "examples": 0}
    with BuildLock():
        rc, out = sh(["/venv/bin/python", os.path.join(VERIF, "tools", "extract_tables.py")], cwd=VERIF)
        st["tables"] = out.strip().splitlines()[-1] if out.strip() else f"rc={rc}"
        st["tables_ok"] = rc == 0
        if rc != 0:
            st["log"] += "\n[extract_tables]\n" + out[-3000:]
        rc, out = sh(["lake", "build", "tucan_driver"], cwd=LEAN)
        st["driver_ok"] = rc == 0 and os.path.exists(P.DRIVER)
        if rc != 0:
            st["log"] += "\n[lake build tucan_driver]\n" + out[-4000:]
        mod = f"TucanProofs.Props.{prop}"
        src_path = os.path.join(LEAN, "TucanProofs", "Props", f"{prop}.lean")
        if not os.path.exists(src_path):
            st["log"] += f"\nno proof module {src_path}"
            return st
        rc, out = sh(["lake", "build", mod], cwd=LEAN)
        st["proofs_ok"] = rc == 0
        if rc != 0:
            st["log"] += f"\n[lake build {mod}]\n" + out[-6000:]
            st["failed_decls"] = sorted(set(re.findall(r"error: (\S+\.lean:\d+:\d+)", out)))
        src = open(src_path).read()
        code = strip_lean_comments(src)
        st["theorems"] = re.findall(r"^theorem\s+([A-Za-z0-9_.']+)", code, re.M)
        st["examples"] = len(re.findall(r"^example\b", code, re.M))
        # forbidden constructs in every source file this property's module (transitively) imports
        for rel in import_closure(mod):
            c = strip_lean_comments(open(os.path.join(LEAN, rel)).read())
            for m in FORBIDDEN.finditer(c):
                st["forbidden"].append(f"{rel}: {m.group(0).strip()}")
        st["modules"] = len(import_closure(mod))
        if st["proofs_ok"] and st["theorems"]:
            audit = os.path.join(LEAN, ".lake", f"audit_{prop}.lean")
            with open(audit, "w") as f:
                f.write(f"import {mod}\nopen Tucan\n")
                for t in st["theorems"]:
                    f.write(f"#print axioms {t}\n")
            rc, out = sh(["lake", "env", "lean", audit], cwd=LEAN)
            if rc != 0:
                st["proofs_ok"] = False
                st["log"] += "\n[audit]\n" + out[-3000:]
            for m in re.finditer(r"'([^']+)' depends on axioms: \[([^\]]*)\]", out.replace("\n", " ")):
                axs = {a.strip() for a in m.group(2).split(",") if a.strip()}
                name = m.group(1).removeprefix("Tucan.")
                st["axioms"][name] = sorted(axs)
                extra = axs - ALLOWED_AXIOMS
                if extra:
                    st["bad_axioms"][name] = sorted(extra)
            for m in re.finditer(r"'([^']+)' does not depend on any axioms", out):
                st["axioms"][m.group(1).removeprefix("Tucan.")] = []
            missing = [t for t in st["theorems"] if t not in st["axioms"]]
            if missing:
                st["proofs_ok"] = False
                st["log"] += f"\n[audit] no axiom report for {missing}"
    return st


class Run:
    def __init__(self, prop: str, tier: str, seed: int):
        self.prop, self.tier, self.seed = prop, tier, seed
        self.t0 = time.time()
        self.ops = []            # (line, real, mode, meta)
        self.failures = []       # probe failures: dict(key, desc, replay)
        self.stats = collections.Counter()
        self.samples = []
        self.notes = []
        self.distinct = set()
        self.lean = None
        self.corr_disagreements = []
        self.corr_notes = []
        self.assumptions = []

    # ---- correspondence ----
    def corr(self, line: str, real: str, mode: str = "exact", meta=None):
        """mode: 'exact' = text equality; 'atom-order' = the order of atoms counts, the order in which an atom's
        bonds are stored does not; 'observable' = equality after full order normalisation is what decides.  An
        order-only difference becomes a localisation note."""
        self.ops.append((line, real, mode, meta))
        self.stats["corr_op:" + line.split(" ", 1)[0]] += 1
        if real.startswith("ERR "):
            self.stats["real_error:" + real[4:]] += 1

    def digest(self) -> str:
        """fingerprint of the generated workload (operations sent to the model and distinct probe cases): equal
        seeds must give equal digests, whatever the interpreter's hash seed"""
        h = hashlib.sha1()
        for o in self.ops:
            h.update(o[0].encode("utf-8", "backslashreplace"))
            h.update(b"\n")
        for d in sorted(self.distinct):
            h.update(d.encode())
        return h.hexdigest()[:16]

    def case(self, key, nontrivial=True):
        self.stats["evaluations"] += 1
        if nontrivial:
            h = hashlib.sha1(repr(key).encode()).hexdigest()
            self.distinct.add(h)

    def sample(self, obj, limit=6):
        if len(self.samples) < limit:
            self.samples.append(obj)

    def fail(self, key: str, desc: str, replay: dict):
        self.failures.append({"key": key, "desc": desc, "replay": replay})

    def run_correspondence(self):
        if not self.ops:
            return
        if not (self.lean and self.lean["driver_ok"]):
            self.corr_disagreements.append({"op": "<driver not built>", "real": "", "model": self.lean["log"][-500:] if self.lean else ""})
            return
        lines = [o[0] for o in self.ops]
        try:
            outs = P.run_driver(lines)
        except Exception as e:
            self.corr_disagreements.append({"op": "<driver failed>", "real": "", "model": repr(e)[:1000]})
            return
        for (line, real, mode, meta), out in zip(self.ops, outs):
            model = P.strip_scratch(P.canon_coords(out))
            real = P.strip_scratch(real)
            if model == real:
                self.stats["corr_agree"] += 1
                continue
            if model.startswith("ERR ") and real.startswith("ERR ") and line.split(" ", 1)[0] in READER_OPS:
                # both reject: which exception class a reader raises on a file it rejects is fixed by no property
                # (C10 fixes it for the TUCAN parser only, whose operations are not in READER_OPS)
                self.stats["corr_agree_both_reject"] += 1
                if len(self.corr_notes) < 20:
                    self.corr_notes.append({"op": line[:300], "note": f"both reject, with different exception classes: {real} / {model}"})
                continue
            if mode == "atom-order" and P.normalise_graph_dump(model, True) == P.normalise_graph_dump(real, True):
                self.stats["corr_agree_observable"] += 1
                if len(self.corr_notes) < 20:
                    self.corr_notes.append({"op": line[:300], "note": "order of an atom's bonds differs, atoms and their order equal"})
                continue
            if mode == "observable" and P.normalise_graph_dump(model) == P.normalise_graph_dump(real):
                self.stats["corr_agree_observable"] += 1
                if len(self.corr_notes) < 20:
                    self.corr_notes.append({"op": line[:300], "note": "listing order differs, observable result equal"})
                continue
            self.stats["corr_disagree"] += 1
            self.corr_disagreements.append({"op": line, "real": real, "model": model, "meta": meta})


READER_OPS = {"V3000", "V2000", "MOLTEXT", "FILE", "ATTRLINE", "TOKENIZE", "SPLICE"}   # not FILEPATH: the suffix refusal must be OSError


def load_known_findings():
    p = os.path.join(VERIF, "known_findings.json")
    if not os.path.exists(p):
        return []
    return json.load(open(p)).get("findings", [])


def write_replay(prop: str, name: str, obj: dict) -> str:
    d = os.path.join(VERIF, "replays")
    os.makedirs(d, exist_ok=True)
    path = os.path.join(d, f"{prop}_{name}.json")
    with open(path, "w") as f:
        json.dump(obj, f, indent=1, default=str)
    return path


def source_fingerprints(prop: str) -> dict:
    """sha256 of the /repo files the property is anchored in (properties.jsonl), so that an evidence file
    says which working tree it was computed against"""
    out = {}
    try:
        for line in open(os.path.join(VERIF, "properties.jsonl")):
            d = json.loads(line)
            if d["id"] == prop:
                for f in d["anchors"]["files"]:
                    path = os.path.join("/repo", f)
                    if os.path.exists(path):
                        out[f] = hashlib.sha256(open(path, "rb").read()).hexdigest()[:16]
        rc, head = sh(["git", "-C", "/repo", "rev-parse", "--short", "HEAD"])
        rc2, dirty = sh(["git", "-C", "/repo", "status", "--porcelain", "--", "tucan"])
        out["_repo_head"] = head.strip() + (" +uncommitted changes" if dirty.strip() else "")
    except Exception as e:  # pragma: no cover
        out["_error"] = repr(e)
    return out


def write_evidence(run: Run, level: str, extra_cov: dict, violations: int):
    lean = run.lean or {}
    theorems = lean.get("theorems", [])
    discharged = [t for t in theorems if t in lean.get("axioms", {}) and t not in lean.get("bad_axioms", {})] \
        if lean.get("proofs_ok") else []
    cov = {
        "obligations": max(len(theorems), 1),
        "discharged": len(discharged) if theorems else 0,
        "checker_cmd": f"cd lean && lake build TucanProofs.Props.{run.prop} && lake env lean .lake/audit_{run.prop}.lean  (#print axioms)",
        "trusted_base": [
            "Lean 4.33.0 kernel",
            "axioms: " + ", ".join(sorted({a for t in discharged for a in lean["axioms"].get(t, [])}) or ["none"]),
            "hand-written Lean model of the Python sources, tied to /repo by the line-protocol correspondence of this run",
            "tools/extract_tables.py (tables and grammar regenerated from the working tree)",
            "CPython, networkx, igraph/bliss, ANTLR runtime: modelled or contract-checked, not verified",
        ],
        "theorems": theorems,
        "theorem_axioms": lean.get("axioms", {}),
        "nonvacuity_examples": lean.get("examples", 0),
        "evaluations": max(int(run.stats.get("evaluations", 0)), 0),
        "distinct_nontrivial": len(run.distinct),
        "rule": extra_cov.pop("rule", ""),
        "samples": run.samples[:8] or ["<none>"],
        "correspondence": {
            "ops": len(run.ops), "workload_digest": run.digest(), "agree": run.stats.get("corr_agree", 0),
            "agree_observable_only": run.stats.get("corr_agree_observable", 0),
            "agree_both_reject_other_exception_class": run.stats.get("corr_agree_both_reject", 0),
            "disagree": run.stats.get("corr_disagree", 0), "notes": run.corr_notes[:10],
        },
        "distribution": {k: v for k, v in sorted(run.stats.items())},
        "tables": lean.get("tables"),
        "source_fingerprints": source_fingerprints(run.prop),
        "forbidden_constructs": lean.get("forbidden", []),
    }
    cov.update(extra_cov)
    ev = {
        "property_id": run.prop, "tier": run.tier, "seed": run.seed, "level": level, "coverage": cov,
        "assumptions": run.assumptions, "wall_s": round(time.time() - run.t0, 2), "violations": violations,
    }
    # the evaluation tools (seeded changes, rewrites, mutation sweeps) run the checks against a patched /repo: their
    # evidence goes to a scratch directory, so that evidence/ only ever holds runs against the tree as it is
    evdir = os.environ.get("VERIF_EVIDENCE_DIR") or os.path.join(VERIF, "evidence")
    os.makedirs(evdir, exist_ok=True)
    with open(os.path.join(evdir, f"{run.prop}.json"), "w") as f:
        json.dump(ev, f, indent=1, default=str)
