"""Molfile renderers written from the CTfile specification (BIOVIA 2020), independent of the
library's writer.  A rendering is a list of *logical* choices made by `rng`; the abstract molecule
`Mol` is what every conformant reader must return."""
from __future__ import annotations
import random
from .gen import Mol, Z

V3_ATOM_EXTRAS = [
    lambda r: f"CFG={r.randint(0, 3)}", lambda r: f"VAL={r.randint(-1, 6)}", lambda r: f"HCOUNT={r.randint(-1, 4)}",
    lambda r: f"STBOX={r.randint(0, 1)}", lambda r: f"INVRET={r.randint(0, 2)}", lambda r: f"EXACHG={r.randint(0, 1)}",
    lambda r: f"SUBST={r.randint(-1, 5)}", lambda r: f"UNSAT={r.randint(0, 1)}", lambda r: f"RBCNT={r.randint(-1, 4)}",
    lambda r: f"ATTCHPT={r.choice([-1, 1, 2])}", lambda r: "RGROUPS=(2 1 2)", lambda r: "CLASS=AA", lambda r: f"SEQID={r.randint(1, 99)}",
    lambda r: "ATTCHORD=(4 1 Al 2 Br)",
]
V3_BOND_EXTRAS = [
    lambda r: f"CFG={r.randint(0, 3)}", lambda r: f"TOPO={r.randint(0, 2)}", lambda r: f"RXCTR={r.choice([-1, 0, 1, 2, 4])}",
    lambda r: f"STBOX={r.randint(0, 1)}",
]


def fmt_coord(v, rng):
    style = rng.randint(0, 3)
    if style == 0:
        return f"{v:.4f}"
    if style == 1:
        return f"{v:.6f}"
    if style == 2:
        return repr(float(v))
    return f"{v:.12g}"      # `g` with its default of 6 significant digits would round 1007.625 to 1007.62: the file must state the value


def blanks(rng, wide):
    return " " * (rng.choice([1, 1, 1, 2, 3, 5]) if wide else 1)


def join_tokens(tokens, rng, wide):
    out = tokens[0]
    for t in tokens[1:]:
        out += blanks(rng, wide) + t
    if wide and rng.random() < 0.3:
        out += " " * rng.randint(1, 3)
    return out


def split_v30(logical: str, rng, mode) -> list[str]:
    """Physical lines for one logical line body (without the 'M  V30 ' prefix)."""
    if mode == "none" or len(logical) < 2:
        return ["M  V30 " + logical]
    if mode == "max":  # wrap like a width-limited writer
        width = rng.choice([20, 30, 71, 72])
    else:
        width = None
    parts = []
    rest = logical
    while True:
        if len(rest) < 2:
            break
        if width is not None:
            if len(rest) <= width:
                break
            cut = width
        else:
            if rng.random() < 0.5 or len(parts) >= 4:
                break
            cut = rng.randint(1, len(rest) - 1)
        parts.append(rest[:cut])
        rest = rest[cut:]
    lines = ["M  V30 " + p + "-" for p in parts] + ["M  V30 " + rest]
    return lines


def render_v3000(m: Mol, rng: random.Random, opts=None):
    """Returns (text, info).  opts keys: wide_blanks, shuffle_props, extras, sparse_index, split, zeros,
    dt, star, crlf, sgroup, header."""
    o = {"wide_blanks": rng.random() < 0.5, "shuffle_props": rng.random() < 0.7, "extras": rng.random() < 0.5,
         "sparse_index": rng.random() < 0.5, "split": rng.choice(["none", "random", "random", "max"]),
         "zeros": rng.random() < 0.3, "dt": rng.random() < 0.5, "star": rng.random() < 0.25, "crlf": rng.random() < 0.3,
         "sgroup": rng.random() < 0.3, "header": rng.random() < 0.5, "regno": rng.random() < 0.2}
    if opts:
        o.update(opts)
    n = m.n()
    wide = o["wide_blanks"]
    # file index per atom (1-based, unique)
    if o["sparse_index"] and rng.random() < 0.3:
        # the numbers 1..n, but not in file order (shuffled, reversed or rotated)
        pool = list(range(1, n + 1))
        how = rng.random()
        if how < 0.5:
            rng.shuffle(pool)
        elif how < 0.75:
            pool.reverse()
        else:
            pool = pool[1:] + pool[:1]
    elif o["sparse_index"]:
        pool = rng.sample(range(1, max(4 * n + 3, 12)), n)
        if rng.random() < 0.3:
            pool = [p + rng.choice([0, 1000, 100000]) for p in pool]
            if len(set(pool)) != n:
                pool = rng.sample(range(1, 4 * n + 3), n)
    else:
        pool = list(range(1, n + 1))
    file_index = pool
    used = set(file_index)

    # star-atom encoding of some bonds
    bonds = list(m.bonds)
    star_lines = []  # (star_index, bond entries)
    bond_entries = []  # (type, a_idx, b_idx, extra tokens)
    star_atoms = []
    if o["star"] and bonds:
        # group bonds by centre atom
        centre = rng.choice(bonds)[rng.randint(0, 1)]
        group = [(a, b, t) for a, b, t in bonds if a == centre or b == centre]
        t0 = rng.choice(group)[2]
        group = [g for g in group if g[2] == t0]
        k = rng.randint(1, len(group))
        group = rng.sample(group, k)
        for g in group:
            bonds.remove(g)
        star_idx = max(used) + rng.randint(1, 5)
        used.add(star_idx)
        star_atoms.append(star_idx)
        ends = [file_index[b if a == centre else a] for a, b, _ in group]
        endpts = "ENDPTS=(" + " ".join([str(len(ends))] + [str(e) for e in ends]) + ")"
        pair = [str(file_index[centre]), str(star_idx)]
        if rng.random() < 0.5:
            pair.reverse()
        extra = [endpts, rng.choice(["ATTACH=ANY", "ATTACH=ALL"])]
        if rng.random() < 0.3:
            extra.reverse()
        bond_entries.append((t0, pair[0], pair[1], extra))
    for a, b, t in bonds:
        ex = []
        if o["extras"]:
            for f in rng.sample(V3_BOND_EXTRAS, rng.randint(0, 2)):
                ex.append(f(rng))
        bond_entries.append((t, str(file_index[a]), str(file_index[b]), ex))
    rng.random()
    # atom lines
    atom_lines = []
    for i, a in enumerate(m.atoms):
        sym = a["sym"]
        props = []
        mass = a.get("mass")
        if sym == "H" and mass in (2, 3) and o["dt"]:
            sym = "D" if mass == 2 else "T"
            mass = None
        if "chg" in a:
            props.append(f"CHG={a['chg']}")
        elif o["zeros"] and rng.random() < 0.5:
            props.append("CHG=0")
        if "rad" in a:
            props.append(f"RAD={a['rad']}")
        elif o["zeros"] and rng.random() < 0.5:
            props.append("RAD=0")
        if mass is not None:
            props.append(f"MASS={mass}")
        elif o["zeros"] and rng.random() < 0.5:
            # also on an atom written D or T: an explicitly written default states nothing, the symbol keeps its mass
            props.append("MASS=0")
        if o["extras"]:
            for f in rng.sample(V3_ATOM_EXTRAS, rng.randint(0, 3)):
                props.append(f(rng))
        if o["shuffle_props"]:
            rng.shuffle(props)
        toks = [str(file_index[i]), sym, fmt_coord(a["x"], rng), fmt_coord(a["y"], rng), fmt_coord(a["z"], rng),
                str(rng.choice([0, 0, 0, i + 1]))] + props
        atom_lines.append(join_tokens(toks, rng, wide))
    # star atom lines are inserted at random positions
    for s in star_atoms:
        toks = [str(s), "*", "0", "0", "0", "0"]
        atom_lines.insert(rng.randint(0, len(atom_lines)), join_tokens(toks, rng, wide))
    bond_lines = []
    order = list(range(len(bond_entries)))
    for k, (t, a, b, ex) in enumerate(bond_entries):
        toks = [str(k + 1), str(t), a, b] + ex
        bond_lines.append(join_tokens(toks, rng, wide))

    lines = []
    if o["header"]:
        # line 3 (comment) may not start with "M  V30 " AND end in "-" at once: that is a continuation line to the reader
        name, comment = free_text(rng), free_text(rng)
        if comment.startswith("M  V30") or name.startswith("M  V30"):
            name, comment = "mol " + str(rng.randint(0, 9999)), "comment V2000 M  END -"
        lines += [name if rng.random() < 0.6 else "mol " + str(rng.randint(0, 9999)), "  VERIF   0101010101",
                  comment if rng.random() < 0.6 else "comment V2000 M  END -"]
    else:
        lines += ["", "", ""]
    lines.append("  0  0  0     0  0            999 V3000")
    body = []
    body.append("BEGIN CTAB")
    counts = f"COUNTS {len(atom_lines)} {len(bond_lines)} {1 if o['sgroup'] else 0} 0 {rng.randint(0, 1)}"
    if o["regno"]:
        counts += " REGNO=12345"
    body.append(counts)
    body.append("BEGIN ATOM")
    body += atom_lines
    body.append("END ATOM")
    if bond_lines or rng.random() < 0.2:
        body.append("BEGIN BOND")
        body += bond_lines
        body.append("END BOND")
    if o["sgroup"]:
        body += ["BEGIN SGROUP", "1 SUP 0 ATOMS=(1 %d) LABEL=X" % file_index[0] if n else "1 DAT 0", "END SGROUP"]
    body.append("END CTAB")
    fixed = {"BEGIN CTAB", "BEGIN ATOM", "END ATOM", "BEGIN BOND", "END BOND", "END CTAB", "BEGIN SGROUP", "END SGROUP"}
    for b in body:
        mode = "none" if (b in fixed or b.startswith("COUNTS")) else o["split"]
        lines += split_v30(b, rng, mode)
    lines.append("M  END")
    lines += trailer(rng, o.get("trailer", rng.random() < 0.3), n)
    nl = "\r\n" if o["crlf"] else "\n"
    text = nl.join(lines) + (nl if rng.random() < 0.8 else "")
    return text, {"opts": o, "file_index": file_index}


# free text as it occurs in the three header lines and in SD data items: primes, quotes, backslashes, tabs, '#', '='
FREE_TEXT = ["2'-deoxy-5'-O-trityl", "4,4'-bipyridine", 'the "good" drawing', '15" screen', "Bob's sample", "C:\\data\\mol\\x.mol",
             "trailing backslash \\", "a\tb", "# not a comment", "CHG=1 MASS=13 RAD=2", "M  V30 looks like a body line", "$$$$ in text",
             "50% (w/w) `x`", "{json: [1, 2]}", "<tag attr='v'>", "name -", ""]


def free_text(rng):
    return rng.choice(FREE_TEXT)


def trailer(rng, on, n):
    """what may follow `M  END` in an SD file: data items (free text, which may even quote property lines)
    and further records; none of it belongs to the molecule"""
    if not on:
        return []
    a = max(1, min(n, 1))
    out = []
    if rng.random() < 0.7:
        out += ["> <COMMENT>", f"M  ISO  1 {a:3d}  13", f"M  CHG  1 {a:3d}   1", f"M  RAD  1 {a:3d}   2", ""]
    if rng.random() < 0.5:
        out += ["> <NAME>", "another line", free_text(rng), ""]
    out.append("$$$$")
    if rng.random() < 0.5:
        out += ["second record", "  VERIF", "", "  1  0  0  0  0  0  0  0  0  0999 V2000",
                "    0.0000    0.0000    0.0000 C   0  4  0  0  0  0  0  0  0  0  0  0",
                "M  ISO  1   1  13", "M  END", "$$$$"]
    return out


# ---------------- V2000 ----------------

CHARGE_CODE = {3: 1, 2: 2, 1: 3, -1: 5, -2: 6, -3: 7}


def prop_lines(tag, entries, rng):
    """M  XXXnn8 aaa vvv ... with 1..8 entries per line"""
    lines = []
    i = 0
    while i < len(entries):
        k = rng.randint(1, 8)
        chunk = entries[i:i + k]
        i += k
        lines.append(f"M  {tag}{len(chunk):3d}" + "".join(f" {a:3d} {v:3d}" for a, v in chunk))
    return lines


def render_v2000(m: Mol, rng: random.Random, opts=None):
    o = {"use_codes": rng.random() < 0.5, "decoy_codes": rng.random() < 0.5, "dt": rng.random() < 0.5,
         "unrelated": rng.random() < 0.5, "atom_lists": rng.random() < 0.2, "crlf": rng.random() < 0.3,
         "zeros": rng.random() < 0.2, "short_lines": rng.random() < 0.3, "blank_coords": rng.random() < 0.15,
         "repeats": rng.random() < 0.25}
    if opts:
        o.update(opts)
    n = m.n()
    assert n <= 999
    chg = {i: a["chg"] for i, a in enumerate(m.atoms) if "chg" in a}
    rad = {i: a["rad"] for i, a in enumerate(m.atoms) if "rad" in a}
    mass = {i: a["mass"] for i, a in enumerate(m.atoms) if "mass" in a}
    # can codes alone express it?
    codes_possible = all(v in CHARGE_CODE for v in chg.values()) and all(v == 2 for v in rad.values()) \
        and not (set(chg) & set(rad))
    use_codes = o["use_codes"] and codes_possible
    sym_of = {}
    for i, a in enumerate(m.atoms):
        s = a["sym"]
        if s == "H" and mass.get(i) in (2, 3) and o["dt"]:
            s = "D" if mass[i] == 2 else "T"
            del mass[i]
        sym_of[i] = s
    atom_lines = []
    for i, a in enumerate(m.atoms):
        code = 0
        if use_codes:
            if i in chg:
                code = CHARGE_CODE[chg[i]]
            elif i in rad:
                code = 4
        elif o["decoy_codes"] and (chg or rad):
            # M  CHG / M  RAD lines will supersede these
            code = rng.choice([0, 1, 3, 4, 5, 7])
        cf = [f"{a[k]:10.4f}" for k in ("x", "y", "z")]
        if o["blank_coords"]:
            # a blank fixed-width field reads as 0
            cf = [" " * 10 if float(c) == 0 and rng.random() < 0.7 else c for c in cf]
        # the mass-difference field `dd` (obsolete; the reader takes isotopes from M  ISO only): non-zero on request
        dd = [-3, -1, 1, 2, 4][i % 5] if (opts or {}).get("mass_diff") else 0
        line = f"{cf[0]}{cf[1]}{cf[2]} {sym_of[i]:<3s}{dd:2d}{code:3d}"
        tail = "".join(f"{v:3d}" for v in [0, 0, 0, 0, 0, 0, 0, 0, 0, 0])
        if o["short_lines"] and rng.random() < 0.5:
            tail = tail[: 3 * rng.randint(0, 9)]
        atom_lines.append(line + tail)
    bond_lines = []
    for a, b, t in m.bonds:
        l = f"{a + 1:3d}{b + 1:3d}{t:3d}"
        tail = "".join(f"{v:3d}" for v in [0, 0, 0, 0])
        if o["short_lines"] and rng.random() < 0.5:
            tail = tail[: 3 * rng.randint(0, 3)]
        bond_lines.append(l + tail)
    props = []
    if not use_codes:
        ce = [(i + 1, v) for i, v in chg.items()]
        re_ = [(i + 1, v) for i, v in rad.items()]
        if o["zeros"]:
            free = [i for i in range(n) if i not in chg]
            for i in rng.sample(free, min(len(free), 2)):
                ce.append((i + 1, 0))
            free = [i for i in range(n) if i not in rad]
            for i in rng.sample(free, min(len(free), 1)):
                re_.append((i + 1, 0))
        rng.shuffle(ce), rng.shuffle(re_)
        props += prop_lines("CHG", ce, rng)
        props += prop_lines("RAD", re_, rng)
    ie = [(i + 1, v) for i, v in mass.items()]
    if o["zeros"]:
        # an entry with value 0 states nothing: also for an atom written D or T
        free = [i for i in range(n) if i not in mass]
        dts = [i for i in free if sym_of[i] in ("D", "T")]
        for i in sorted(set(rng.sample(free, min(len(free), 2)) + dts[:2])):
            ie.append((i + 1, 0))
    rng.shuffle(ie)
    iso_lines = prop_lines("ISO", ie, rng)
    props += iso_lines
    rng.shuffle(props)
    if o["repeats"] and n >= 1:
        # an atom named more than once: the LAST entry naming it counts, a last entry 0 revokes (C08_readers_agree_repeated_entries)
        pre, post = [], []
        tags = [("ISO", mass, [2, 3, 12, 13, 14, 18, 250])]
        if not use_codes:
            tags += [("CHG", chg, [-15, -3, -1, 1, 2, 15]), ("RAD", rad, [1, 2, 3])]
        for tag, final, vals in tags:
            for i in rng.sample(range(n), min(n, 2)):
                v = rng.choice(vals)
                if i in final:
                    pre.append(f"M  {tag}  1 {i + 1:3d} {v:3d}")  # the stating entry comes later
                elif rng.random() < 0.5:
                    pre.append(f"M  {tag}  2 {i + 1:3d} {v:3d} {i + 1:3d}   0")  # stated and revoked on one line
                else:
                    pre.append(f"M  {tag}  1 {i + 1:3d} {v:3d}")
                    post.append(f"M  {tag}  1 {i + 1:3d}   0")
        props = pre + props + post
    if o["unrelated"]:
        unrelated = ["M  STY  1   1 SUP", "M  SAL   1  1   1", "M  RGP  1   1   1", "M  ALS   1  2 F C   N   ",
                     "G    1   2", "M  SMT   1 label", "M  SBL   1  1   1"]
        for u in rng.sample(unrelated, rng.randint(1, 3)):
            if n >= 1:
                props.insert(rng.randint(0, len(props)), u)
    list_lines = []
    if o["atom_lists"] and n >= 1:
        list_lines = ["  1 F    2   6   7"]
    counts = f"{n:3d}{len(bond_lines):3d}{len(list_lines):3d}  0  0  0  0  0  0  0999 V2000"
    hdr_name = free_text(rng) if rng.random() < 0.4 else "name"
    hdr_comment = free_text(rng) if rng.random() < 0.4 else "V3000 comment"
    lines = [hdr_name, "  VERIF   0101010101", hdr_comment, counts] + atom_lines + bond_lines + list_lines + props + ["M  END"]
    lines += trailer(rng, o.get("trailer", rng.random() < 0.3), n)
    nl = "\r\n" if o["crlf"] else "\n"
    text = nl.join(lines) + (nl if rng.random() < 0.8 else "")
    return text, {"opts": dict(o, use_codes=use_codes)}
