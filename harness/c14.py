"""C14: determinism across processes (hash seeds), call histories and threads.

The Lean side carries (a) order-obliviousness of every sorted set/dict-derived sequence (S1), (b) value
semantics of the modelled operations and (c) the abstract lazily-filled cache theorem.  This module ties
it to the running code: the same workload is executed in fresh subprocesses under several
PYTHONHASHSEED values, in shuffled call orders with rejected inputs interleaved from a cold parser
cache, and from 8 threads; every result is compared with the in-process result, and the in-process
results go through the model correspondence."""
from __future__ import annotations
import json
import os
import subprocess
import sys
import tempfile

from . import proto as P, real as R, gen as G, render as RD, tucangen as TG
from .props import mol_graph, safe, sizes

WORKER = os.path.join(os.path.dirname(os.path.abspath(__file__)), "c14_worker.py")


def spawn(wl_path, mode, oseed, hashseed):
    env = dict(os.environ, PYTHONHASHSEED=str(hashseed))
    return subprocess.Popen(["/venv/bin/python", WORKER, wl_path, mode, str(oseed), P.VERIF], stdout=subprocess.PIPE,
                            stderr=subprocess.PIPE, env=env)


def work_C14(run, rng, budget):
    ops = []
    for _ in range(4 * budget):   # D/T atoms with a non-zero V2000 charge code: state that may leak between reads
        m = G.gen_mol(rng, family="charged_dt")
        sizes(run, m)
        text, _ = RD.render_v2000(m, rng, {"use_codes": True, "dt": True, "decoy_codes": False})
        ops.append(["tucan_of_molfile", text])
        # its ordinary sibling: the same charge codes on atoms none of which is an isotope of hydrogen
        sib = m.copy()
        sib.atoms[0].pop("mass", None)
        text, _ = RD.render_v2000(sib, rng, {"use_codes": True, "dt": True, "decoy_codes": False})
        ops.append(["read", text])
    for _ in range(25 * budget):
        m = G.gen_mol(rng, max_n=14)
        sizes(run, m)
        text, _ = (RD.render_v3000(m, rng) if rng.random() < 0.6 else RD.render_v2000(m, rng))
        ops.append(["tucan_of_molfile", text])
        if rng.random() < 0.3:
            ops.append(["read", text])
    for _ in range(25 * budget):
        s, spec = TG.gen_sentence(rng, max_count=8)
        ops.append([rng.choice(["parse", "norm", "write"]), s])
        for e in TG.edits(s, rng, 2):          # mostly rejected inputs: they leave the prediction cache partly filled
            ops.append(["parse", e])
    # the writer with calc_coordinates=True (a layout computed by networkx/scipy): connected and multi-component molecules,
    # bond-free ones, single atoms; the body must not depend on process, history or threads either
    calc = ["H4O2/(1-5)(2-5)(3-6)(4-6)", "ClNa/", "He/", "C3/", "H2/(1-2)", "C4H2/(1-3)(2-4)(3-5)(4-6)(5-6)",
            "C2H6O/(1-7)(2-7)(3-7)(4-8)(5-8)(6-9)(7-8)(8-9)", "C6/(1-2)(1-6)(2-3)(3-4)(4-5)(5-6)", "C2Cl2H2/(1-3)(2-4)(5-6)"]
    for s in calc:
        ops.append(["write_calc", s])
    for _ in range(6 * budget):
        s, spec = TG.gen_sentence(rng, max_count=4)
        if sum(spec[0].values()) <= 16:
            ops.append(["write_calc", s])
    for k, _ in ops:
        run.stats["op:" + k] += 1
    with tempfile.NamedTemporaryFile("w", suffix=".json", delete=False, dir="/tmp") as f:
        json.dump({"ops": ops}, f)
        wl = f.name
    try:
        hashseeds = [0, 1, 2, 12345] if budget == 1 else [0, 1, 2, 3, 5, 8, 13, 21, 12345, 4294967295]
        procs = []
        for i, hs in enumerate(hashseeds):
            procs.append((("order", i, hs), spawn(wl, "order", i, hs)))
        for i, hs in enumerate(hashseeds[:2] if budget == 1 else hashseeds[:4]):
            procs.append((("threads", i, hs), spawn(wl, "threads", i, hs)))
        # in-process reference (this process has its own history: the harness has already imported everything)
        sys.path.insert(0, os.path.dirname(WORKER))
        from . import c14_worker as W
        ref = [W.run_op(op) for op in ops]
        # the in-process results go through the model as well
        for (kind, arg), r in zip(ops, ref):
            if kind == "parse":
                line, real, _ = R.op_parse(arg)
                run.corr(line, real, "observable")
            elif kind == "read":
                line, real, _ = R.op_moltext(arg)
                run.corr(line, real, "atom-order")
        dfa = []
        for (mode, i, hs), p in procs:
            out, err = p.communicate(timeout=1500)
            if p.returncode != 0:
                for _, q in procs:
                    if q.poll() is None:
                        q.kill()
                raise RuntimeError(f"C14 worker failed: {err.decode()[-1500:]}")
            obj = json.loads(out.decode().strip().splitlines()[-1])
            dfa.append(obj["dfa_states"])
            run.stats[f"process:{mode}"] += 1
            for k, (a, b) in enumerate(zip(ref, obj["results"])):
                run.case(("C14", mode, i, hs, k), True)
                if a != b:
                    key = "thread-divergence" if mode == "threads" else "result-depends-on-hash-seed-or-history"
                    run.fail(key, f"op {ops[k][0]} gives different results ({mode}, order seed {i}, PYTHONHASHSEED={hs})",
                             {"op": ops[k], "reference": a[:2000], "other": b[:2000], "mode": mode, "hashseed": hs, "order_seed": i})
        run.stats["dfa_states_seen"] = max(dfa) if dfa else 0
        run.sample({"ops": len(ops), "hashseeds": hashseeds, "dfa_states_per_process": dfa})
        run.sample({"op": ops[0][0], "result": ref[0][:200]})
    finally:
        os.unlink(wl)
    run.assumptions.append("CPython's thread switching inside the ANTLR runtime, networkx and igraph is sampled, not modelled")
    return "a workload of molfile->TUCAN, read, parse, normalise, write and write-with-computed-coordinates operations (with rejected strings interleaved) run " \
           "in fresh subprocesses under several PYTHONHASHSEED values and call orders, and from 8 threads with a 1 microsecond " \
           "switch interval; every result compared with the in-process result; after each call the caller scribbles on the " \
           "returned graphs (and serialises parsed graphs in place), and every operation is run a second time later in the " \
           "same process, so a shared or cached mutable result shows; one case = one (process, operation)"
