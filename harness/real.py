"""Adapters: run the real TUCAN functions in-process and return (op line for the model, canonical
dump of the real result).  Nothing in /repo is changed; igraph and random.shuffle are observed by
wrapping them inside this process."""
from __future__ import annotations
import copy
import random
import sys
import igraph
import networkx as nx

import importlib


class _Lazy:
    """A library module resolved at first use: a refactoring that moves or renames a module then shows as an
    `ERR …` result of the operations that need it (a lost correspondence), not as a crash of every check at import."""

    def __init__(self, name):
        object.__setattr__(self, "_name", name)
        object.__setattr__(self, "_mod", None)

    def _load(self):
        if object.__getattribute__(self, "_mod") is None:
            object.__setattr__(self, "_mod", importlib.import_module(object.__getattribute__(self, "_name")))
        return object.__getattribute__(self, "_mod")

    def __getattr__(self, a):
        return getattr(self._load(), a)

    def __setattr__(self, a, v):
        setattr(self._load(), a, v)


C = _Lazy("tucan.canonicalization")
S = _Lazy("tucan.serialization")
GU = _Lazy("tucan.graph_utils")
try:
    from tucan.graph_attributes import PARTITION, INVARIANT_CODE, ATOMIC_NUMBER
except Exception:  # the attribute names are part of the data model the tests pin; fall back to their values
    PARTITION, INVARIANT_CODE, ATOMIC_NUMBER = "partition", "invariant_code", "atomic_number"

from . import proto as P

# ---------- igraph oracle recording ----------
_ORIG_CANON = igraph.Graph.canonical_permutation
ORACLE_LOG: list[dict] = []


def _wrapped_canon(self, *a, **k):
    perm = _ORIG_CANON(self, *a, **k)
    try:
        names = list(self.vs["_nx_name"])
        color = k.get("color")
        order = list(self.permute_vertices(list(perm)).vs["_nx_name"])
        ORACLE_LOG.append({"names": names, "perm": list(perm), "order": order,
                           "color": list(color) if color is not None else None,
                           "edges": self.get_edgelist()})
    except Exception as e:  # pragma: no cover
        ORACLE_LOG.append({"error": repr(e)})
    return perm


def canonical_form(log: dict):
    """The canonical form bliss returned, as the contract speaks about it: colour at each position and
    adjacency between positions."""
    names, order, color = log["names"], log["order"], log.get("color")
    pos = {name: p for p, name in enumerate(order)}
    idx = {name: i for i, name in enumerate(names)}
    colours = [None if color is None else color[idx[name]] for name in order]
    edges = sorted(tuple(sorted((pos[names[a]], pos[names[b]]))) for a, b in log["edges"])
    return colours, edges


def install_oracle_wrapper():
    igraph.Graph.canonical_permutation = _wrapped_canon


def uninstall_oracle_wrapper():
    igraph.Graph.canonical_permutation = _ORIG_CANON


# ---------- random.shuffle recording ----------
_ORIG_SHUFFLE = random.shuffle
SHUFFLE_LOG: list[list] = []


def _wrapped_shuffle(x, *a, **k):
    _ORIG_SHUFFLE(x, *a, **k)
    SHUFFLE_LOG.append(list(x))


def install_shuffle_wrapper():
    random.shuffle = _wrapped_shuffle


def uninstall_shuffle_wrapper():
    random.shuffle = _ORIG_SHUFFLE


ATTR = {"inv": INVARIANT_CODE, "part": PARTITION, "z": ATOMIC_NUMBER}


def guarded(f):
    try:
        return f()
    except RecursionError as e:
        return P.show_err(e)
    except Exception as e:
        return P.show_err(e)


def snapshot(g: nx.Graph) -> str:
    return P.show_graph(g)


def parts_of(g: nx.Graph) -> str:
    return "[" + ",".join("_" if PARTITION not in d else str(int(d[PARTITION])) for _, d in g.nodes(data=True)) + "]"


def op_partition(g: nx.Graph, attr: str):
    line = " ".join(["PARTITION", attr] + P.enc_graph(g))
    return line, guarded(lambda: P.show_graph(C.partition_molecule_by_attribute(g, ATTR[attr])))


def op_refine(g: nx.Graph):
    line = " ".join(["REFINE"] + P.enc_graph(g))

    def run():
        rounds = [0]
        orig = C.partition_molecule_by_attribute

        def counting(*a, **k):
            rounds[0] += 1
            return orig(*a, **k)
        C.partition_molecule_by_attribute = counting
        try:
            r = list(C.refine_partitions(g))[-1]
        finally:
            C.partition_molecule_by_attribute = orig
        return P.fields(f"rounds={rounds[0]}", P.show_graph(r))
    return line, guarded(run)


def op_canon(g: nx.Graph):
    """canonicalize_molecule with the oracle's answer recorded.  Returns (line, real, info)."""
    info = {}
    enc = P.enc_graph(g)
    before = P.show_graph(g)

    def run():
        # instrumentation of two internals (round count, refined graph); if an internal has gone (a refactoring),
        # the operation cannot be compared with the model, but the PUBLIC function is still called so that the
        # probes, which use only public results, are not affected
        rounds = [0]
        refined = {}
        orig = getattr(C, "partition_molecule_by_attribute", None)
        orig_assign = getattr(C, "assign_canonical_labels", None)

        def counting(*a, **k):
            rounds[0] += 1
            return orig(*a, **k)

        def assign(m, *a, **k):
            refined["g"] = m
            return orig_assign(m, *a, **k)
        if orig is not None:
            C.partition_molecule_by_attribute = counting
        if orig_assign is not None:
            C.assign_canonical_labels = assign
        n0 = len(ORACLE_LOG)
        try:
            c = C.canonicalize_molecule(g)
        finally:
            if orig is not None:
                C.partition_molecule_by_attribute = orig
            if orig_assign is not None:
                C.assign_canonical_labels = orig_assign
            info["oracle"] = ORACLE_LOG[n0:]
        info["canon"] = c
        info["refined"] = refined.get("g")
        info["rounds"] = rounds[0] - 1
        if orig is None or "g" not in refined:
            return "ERR internal-not-observable"
        return P.fields(f"rounds={rounds[0] - 1}", "parts=" + parts_of(refined["g"]), P.show_graph(c))
    real = guarded(run)
    info["arg_unchanged"] = (P.show_graph(g) == before)
    orc = info.get("oracle") or []
    order = orc[-1]["order"] if orc and "order" in orc[-1] else list(g.nodes)
    info["order"] = order
    line = " ".join(["CANON"] + enc + P.enc_nat_list(order))
    return line, real, info


def op_final(g: nx.Graph):
    """_assign_final_labels on a copy-like argument (the argument IS mutated: explored flags)."""
    enc = P.enc_graph(g)
    captured = {}

    def run():
        orig = nx.relabel_nodes

        def spy(G, mapping, *a, **k):
            captured["mapping"] = dict(mapping)
            return orig(G, mapping, *a, **k)
        S.nx.relabel_nodes = spy
        try:
            r = S._assign_final_labels(g)
        finally:
            S.nx.relabel_nodes = orig
        if "mapping" not in captured:
            return "ERR internal-not-observable"
        return P.fields("final=" + P.show_pairs(captured["mapping"]), P.show_graph(r), "post=" + P.show_graph(g))
    return " ".join(["FINAL"] + enc), guarded(run)


def op_sortby(g: nx.Graph, attr: str):
    enc = P.enc_graph(g)
    return " ".join(["SORTBY", attr] + enc), guarded(
        lambda: P.show_graph(GU.sort_molecule_by_attribute(g, ATTR[attr])))


def op_serialize(g: nx.Graph):
    enc = P.enc_graph(g)
    info = {}

    def run():
        s = S.serialize_molecule(g)
        info["string"] = s
        return P.fields(P.esc(s), "post=" + P.show_graph(g))
    return " ".join(["SERIALIZE"] + enc), guarded(run), info


def op_gfm(atom_attrs: dict, bond_attrs: dict):
    line = " ".join(["GFM"] + P.enc_atom_dict(atom_attrs) + P.enc_bond_dict(bond_attrs))

    def run():
        g = GU.graph_from_molecule(atom_attrs, bond_attrs)
        return P.fields(P.show_graph(g), "post=" + P.show_atom_dict(atom_attrs))
    return line, guarded(run)


def op_permute(g: nx.Graph, seed: float):
    enc = P.enc_graph(g)
    info = {}
    n0 = len(SHUFFLE_LOG)
    state = random.getstate()

    def run():
        r = GU.permute_molecule(g, random_seed=seed)
        info["result"] = r
        return P.show_graph(r)
    try:
        real = guarded(run)
    finally:
        shuffles = SHUFFLE_LOG[n0:]
        random.setstate(state)
    info["shuffles"] = shuffles
    t = ["PERMUTE"] + enc + [str(len(shuffles))]
    for sh in shuffles:
        t += P.enc_nat_list(sh)
    return " ".join(t), real, info


def op_copy(g: nx.Graph):
    return " ".join(["COPY"] + P.enc_graph(g)), P.show_graph(g.copy())


# ---------- parser / readers / writer ----------
TP = _Lazy("tucan.parser.parser")
MR = _Lazy("tucan.io.molfile_reader")
V3 = _Lazy("tucan.io.molfile_v3000_reader")
V2 = _Lazy("tucan.io.molfile_v2000_reader")
MW = _Lazy("tucan.io.molfile_writer")


def op_parse(text: str):
    info = {}

    def run():
        g = TP.graph_from_tucan(text)
        info["graph"] = g
        return P.show_graph(g)
    return "PARSE " + P.esc(text), guarded(run), info


def op_lex(text: str):
    """the generated lexer alone: the token texts, or the rejection (the library's listener turns a lexer error into its
    parser exception; here a private listener stands in for it)"""
    def run():
        from antlr4 import InputStream
        from antlr4.error.ErrorListener import ErrorListener
        from tucan.parser.tucanLexer import tucanLexer

        class Reject(Exception):
            pass

        class L(ErrorListener):
            def syntaxError(self, *a, **k):
                raise Reject()
        lx = tucanLexer(InputStream(text))
        lx.removeErrorListeners()
        lx.addErrorListener(L())
        try:
            toks = [t.text for t in lx.getAllTokens()]
        except Reject:
            return "ERR TucanParserException"
        return P.show_str_list(toks)
    return "LEX " + P.esc(text), guarded(run)


def op_v3000(lines: list[str]):
    def run():
        a, b = V3.graph_attributes_from_molfile_v3000(list(lines))
        return P.fields(P.show_atom_dict(a), P.show_bond_dict(b))
    return " ".join(["V3000"] + P.enc_str_list(lines)), guarded(run)


def op_v2000(lines: list[str]):
    def run():
        a, b = V2.graph_attributes_from_molfile_v2000(list(lines))
        return P.fields(P.show_atom_dict(a), P.show_bond_dict(b))
    return " ".join(["V2000"] + P.enc_str_list(lines)), guarded(run)


def op_moltext(text: str):
    info = {}

    def run():
        g = MR.graph_from_molfile_text(text)
        info["graph"] = g
        return P.show_graph(g)
    return "MOLTEXT " + P.esc(text), guarded(run), info


_FILE_DIR = None


def op_file(text: str):
    """graph_from_file on a `.mol` file holding `text` (UTF-8, written byte for byte: no newline translation on the way out);
    the model gets the decoded content.  Returns None for the real result when the text cannot be encoded (lone surrogates)."""
    global _FILE_DIR
    info = {}
    try:
        data = text.encode("utf-8")
    except UnicodeEncodeError:
        return "FILE " + P.esc(text), None, info
    if _FILE_DIR is None:
        import atexit, shutil, tempfile
        _FILE_DIR = tempfile.mkdtemp(prefix="tucan_verif_files_")
        atexit.register(shutil.rmtree, _FILE_DIR, True)

    def run():
        import os
        fp = os.path.join(_FILE_DIR, "m.mol")
        with open(fp, "wb") as fh:
            fh.write(data)
        g = MR.graph_from_file(fp)
        info["graph"] = g
        return P.show_graph(g)
    return "FILE " + P.esc(text), guarded(run), info


def op_filepath(name: str, text: str):
    """graph_from_file on a file called `name` (its suffix decides whether it is opened at all)"""
    global _FILE_DIR
    import os
    from pathlib import Path
    if _FILE_DIR is None:
        import atexit, shutil, tempfile
        _FILE_DIR = tempfile.mkdtemp(prefix="tucan_verif_files_")
        atexit.register(shutil.rmtree, _FILE_DIR, True)

    def run():
        fp = os.path.join(_FILE_DIR, name)
        with open(fp, "wb") as fh:
            fh.write(text.encode("utf-8"))
        return P.show_graph(MR.graph_from_file(fp))
    return "FILEPATH " + P.esc(Path(name).suffix) + " " + P.esc(text), guarded(run)


def op_splice(lines: list[str]):
    return " ".join(["SPLICE"] + P.enc_str_list(lines)), guarded(
        lambda: P.show_str_list(V3._concat_lines_with_dash(list(lines))))


def op_tokenize(lines: list[str]):
    return " ".join(["TOKENIZE"] + P.enc_str_list(lines)), guarded(
        lambda: "[" + ",".join(P.show_str_list(l) for l in V3._tokenize_lines(list(lines))) + "]")


def op_wrap(line: str):
    def run():
        out = []
        MW._add_v30_line(out, line)
        return P.show_str_list(out)
    return "WRAP " + P.esc(line), guarded(run)


def op_write(g: nx.Graph):
    enc = P.enc_graph(g, P._coord6)
    info = {}

    def run():
        text = MW.graph_to_molfile(g)
        info["text"] = text
        lines = text.split("\n")
        if len(lines) > 1:
            lines[1] = "<HEADER>"
        return P.show_str_list(lines)
    return " ".join(["WRITE"] + enc), guarded(run), info


def op_attrline(line: str, atom_attrs: dict):
    def run():
        r = V2._parse_atom_value_assignments(line, atom_attrs)
        return "[" + ",".join(f"{a}:{b}" for a, b in r) + "]"
    return " ".join(["ATTRLINE", P.esc(line)] + P.enc_atom_dict(atom_attrs)), guarded(run)


# ---- the string layer of the interpreter, as the readers use it (str.splitlines / rstrip / split / int / float) ----

def _ranges_of(flags) -> str:
    out, start = [], None
    for n, ok in enumerate(flags):
        if ok and start is None:
            start = n
        elif not ok and start is not None:
            out.append(f"{start}-{n - 1}")
            start = None
    if start is not None:
        out.append(f"{start}-{len(flags) - 1}")
    return ",".join(out)


def op_charclass():
    """every code point: is it stripped by str.rstrip(), does str.splitlines() break on it, does int() skip it,
    and which decimal digit does int() read it as"""
    def run():
        N = 0x110000
        space, brk, numspace = bytearray(N), bytearray(N), bytearray(N)
        digit = [bytearray(N) for _ in range(10)]
        for n in range(N):
            if 0xD800 <= n <= 0xDFFF:
                continue
            c = chr(n)
            if ("x" + c).rstrip() == "x":
                space[n] = 1
            if len(("a" + c + "b").splitlines()) == 2:
                brk[n] = 1
            try:
                if int(c + "7") == 7 and int("7" + c) == 7:
                    numspace[n] = 1
                    continue
            except ValueError:
                pass
            try:
                d = int(c)
                if 0 <= d <= 9 and int("1" + c) == 10 + d:
                    digit[d][n] = 1
            except ValueError:
                pass
        return P.fields("space=" + _ranges_of(space), "break=" + _ranges_of(brk), "numspace=" + _ranges_of(numspace),
                        "digits=" + ",".join(_ranges_of(digit[d]) for d in range(10)))
    return "CHARCLASS", guarded(run)


def op_int(s: str):
    return "INT " + P.esc(s), guarded(lambda: str(int(s)))


def op_floatok(s: str):
    def run():
        try:
            float(s)
            return "true"
        except ValueError:
            return "false"
    return "FLOATOK " + P.esc(s), guarded(run)


def op_splitlines(s: str):
    return "SPLITLINES " + P.esc(s), guarded(lambda: P.show_str_list(s.splitlines()))


def op_rstrip(s: str):
    return "RSTRIP " + P.esc(s), guarded(lambda: P.esc(s.rstrip()))


def op_splitws(s: str):
    return "SPLITWS " + P.esc(s), guarded(lambda: P.show_str_list(s.split()))
