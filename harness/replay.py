"""Replays of recorded failing inputs on the real code."""
from __future__ import annotations
from . import gen as G
from .props import mol_graph, tucan_of, safe
from tucan.parser.parser import graph_from_tucan, TucanParserException
from tucan.io import graph_from_molfile_text


def mol_from(d):
    atoms = []
    for i, a in enumerate(d["atoms"]):
        x = G._atom(a["sym"], i)
        x.update({k: a[k] for k in ("mass", "rad", "chg") if k in a})
        atoms.append(x)
    return G.Mol(atoms, [tuple(b) for b in d["bonds"]], d.get("family", ""))


def replay_input(prop, key, inp):
    """Returns (holds_now, message)."""
    if "mol" in inp and "relabelled" in inp:
        a, b = mol_from(inp["mol"]), mol_from(inp["relabelled"])
        sa, ea = safe(tucan_of, mol_graph(a))
        sb, eb = safe(tucan_of, mol_graph(b))
        return (sa == sb and ea is None and eb is None), f"strings: {sa!r} / {sb!r}"
    if "string" in inp and prop == "C10":
        try:
            graph_from_tucan(inp["string"])
            return True, "accepted"
        except TucanParserException:
            return True, "rejected with TucanParserException"
        except Exception as e:
            return False, f"rejected with {type(e).__name__}"
    if "text" in inp:
        g, err = safe(graph_from_molfile_text, inp["text"])
        if err is not None:
            return False, f"reader raised {type(err).__name__}"
        if "mol" in inp:
            from .props import compare_read
            why = compare_read(g, mol_from(inp["mol"]))
            return why is None, why or "read as stated"
    if "family" in inp and "atoms" in inp:
        from .props import big_families
        return False, "re-run the C15 check to replay size-dependent inputs"
    return False, "no in-process replay for this input shape; re-run the check with the recorded seed"
