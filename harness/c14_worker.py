"""Worker for C14: runs a workload of public operations and prints one JSON line of results.
argv: workload.json mode(order|threads) order_seed"""
import json
import random
import sys
import threading

if __name__ == "__main__":
    sys.path.insert(0, sys.argv[4] if len(sys.argv) > 4 else "/verif")


def scribble(*graphs):
    """what a caller may do with a result it owns: relabel an isotope, mark atoms, delete the bonds.  If the library
    hands the same object out again (a cache of mutable results), a later call shows the scribbling."""
    for g in graphs:
        try:
            for n in g.nodes:
                g.nodes[n]["mass"] = 999
                g.nodes[n]["explored"] = True
                g.nodes[n]["partition"] = 77
            g.remove_edges_from(list(g.edges))
        except Exception:
            pass


def run_op(op):
    import networkx as nx
    from tucan.io import graph_from_molfile_text, graph_to_molfile, graph_from_tucan
    from tucan.canonicalization import canonicalize_molecule
    from tucan.serialization import serialize_molecule
    from harness import proto as P
    kind, arg = op
    try:
        if kind == "tucan_of_molfile":
            g = graph_from_molfile_text(arg)
            c = canonicalize_molecule(g)
            r = serialize_molecule(c) + " || " + P.show_graph(c)
            scribble(g, c)
            return r
        if kind == "read":
            g = graph_from_molfile_text(arg)
            r = P.show_graph(g)
            scribble(g)
            return r
        if kind == "parse":
            g = graph_from_tucan(arg)
            r = P.show_graph(g)
            try:
                serialize_molecule(g)      # a library call that marks its argument
            except Exception:
                pass
            scribble(g)
            return r
        if kind == "norm":
            g = graph_from_tucan(arg)
            c = canonicalize_molecule(g)
            r = serialize_molecule(c)
            scribble(g, c)
            return r
        if kind == "write":
            g = graph_from_tucan(arg)
            lines = graph_to_molfile(g).split("\n")
            lines[1] = "<HEADER>"
            scribble(g)
            return "\n".join(lines)
        if kind == "write_calc":
            g = graph_from_tucan(arg)
            lines = graph_to_molfile(g, calc_coordinates=True).split("\n")
            lines[1] = "<HEADER>"
            scribble(g)
            return "\n".join(lines)
        return "?"
    except Exception as e:
        return "ERR " + type(e).__name__


def main():
    wl = json.load(open(sys.argv[1]))
    mode = sys.argv[2]
    oseed = int(sys.argv[3])
    ops = wl["ops"]
    idx = list(range(len(ops)))
    res = {}
    if mode == "order":
        random.Random(oseed).shuffle(idx)
        for i in idx:
            res[i] = run_op(ops[i])
        # every operation once more, in another order: the second result must equal the first
        again = list(idx)
        random.Random(oseed + 1000).shuffle(again)
        for i in again:
            r2 = run_op(ops[i])
            if r2 != res[i]:
                res[i] = "DIVERGED-WITHIN-PROCESS " + json.dumps([res[i], r2])[:2000]
    else:
        sys.setswitchinterval(1e-6)
        nthreads = 8
        out = [dict() for _ in range(nthreads)]

        def work(t):
            my = list(idx)
            random.Random(oseed * 100 + t).shuffle(my)
            for i in my:
                out[t][i] = run_op(ops[i])
        ths = [threading.Thread(target=work, args=(t,)) for t in range(nthreads)]
        for t in ths:
            t.start()
        for t in ths:
            t.join()
        for i in idx:
            vals = {out[t].get(i) for t in range(nthreads)}
            res[i] = out[0][i] if len(vals) == 1 else "DIVERGED " + json.dumps(sorted(map(str, vals)))[:2000]
    try:  # a statistic only (how far the shared prediction cache was filled)
        import tucan.parser.tucanParser as TP
        dfa_states = sum(len(d.states) for d in TP.tucanParser.decisionsToDFA)
    except Exception:
        dfa_states = -1
    print(json.dumps({"results": [res[i] for i in range(len(ops))], "dfa_states": dfa_states}))


if __name__ == "__main__":
    main()
