"""Minimised past failures (corpus/cases.json), turned into inputs of the workloads; replayed first."""
from __future__ import annotations
import json
import os
from . import gen as G

PATH = os.path.join(os.path.dirname(os.path.dirname(os.path.abspath(__file__))), "corpus", "cases.json")


def cases(prop: str):
    try:
        data = json.load(open(PATH))["cases"]
    except Exception:
        return []
    return [c for c in data if prop in c.get("props", [])]


def mol_of(c) -> G.Mol:
    atoms = []
    for i, a in enumerate(c["atoms"]):
        x = G._atom(a["sym"], i)
        for k in ("mass", "rad", "chg"):
            if k in a:
                x[k] = a[k]
        if "x" in a:
            x["x"], x["y"], x["z"] = float(a["x"]), 0.0, 0.0
        atoms.append(x)
    return G.Mol(atoms, [tuple(b) for b in c["bonds"]], "corpus:" + c["id"])


def v3000_text(c) -> str:
    m = mol_of(c)
    lines = ["corpus " + c["id"], "  VERIF", "", "  0  0  0     0  0            999 V3000", "M  V30 BEGIN CTAB",
             f"M  V30 COUNTS {m.n()} {len(m.bonds)} 0 0 0", "M  V30 BEGIN ATOM"]
    for i, a in enumerate(m.atoms):
        suf = c.get("atom_line_suffix", {}).get(str(i), "")
        lines.append(f"M  V30 {i + 1} {a['sym']} {a['x']} {a['y']} {a['z']} 0" + (" " + suf if suf else ""))
    lines.append("M  V30 END ATOM")
    if m.bonds:
        lines.append("M  V30 BEGIN BOND")
        for k, (u, v, t) in enumerate(m.bonds):
            lines.append(f"M  V30 {k + 1} {t} {u + 1} {v + 1}")
        lines.append("M  V30 END BOND")
    lines += ["M  V30 END CTAB", "M  END"]
    return "\n".join(lines) + "\n"


def tucan_text(c) -> str:
    if "text" in c:
        return c["text"]
    return c["text_template"].replace("{digits5000}", "1" * 5000)
