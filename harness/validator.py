"""Independent validator of emitted TUCAN strings (C05): the lexical level by regular expressions
built from the published grammar (tucan.ebnf), the layout rules by hand.  No import from tucan."""
from __future__ import annotations
import re
from collections import Counter
from .gen import ELEMENTS, Z

_SORTED = sorted(ELEMENTS)
_WITHOUT_C = [s for s in _SORTED if s != "C"]
_WITH_C = ["C", "H"] + [s for s in _SORTED if s not in ("C", "H")]
_COUNT = r"(?:[1-9][0-9]+|[2-9])"
_POS = r"(?:[1-9][0-9]*)"
_TUPLE = r"\((" + _POS + ")-(" + _POS + r")\)"
_PROP = r"(?:mass|rad)=" + _POS
_ATTR = r"\((" + _POS + "):(" + _PROP + "(?:," + _PROP + r")*)\)"
SENTENCE = re.compile(r"^([A-Za-z0-9]*)/((?:" + _TUPLE + r")*)(?:/((?:" + _ATTR + r")*))?$")
_ELEM = re.compile(r"([A-Z][a-z]?)(" + _COUNT + r")?")


def parse_formula(f: str):
    """Returns the list of (symbol, count) or None if not a Hill-order formula of the grammar."""
    pos = 0
    items = []
    while pos < len(f):
        m = _ELEM.match(f, pos)
        if not m:
            return None
        sym = m.group(1)
        if sym not in Z:
            # maybe a one-letter symbol followed by a lower-case letter that is not part of it
            return None
        items.append((sym, int(m.group(2)) if m.group(2) else 1))
        pos = m.end()
    syms = [s for s, _ in items]
    order = _WITH_C if (syms and syms[0] == "C") else _WITHOUT_C
    idx = -1
    for s in syms:
        if s not in order:
            return None
        j = order.index(s)
        if j <= idx:
            return None
        idx = j
    return items


def validate(s: str, graph_atoms=None, graph_edges=None):
    """graph_atoms: list of (sym, mass or None, rad or None) of the molecule; graph_edges: number of bonds.
    Returns a list of rule violations (empty = valid)."""
    bad = []
    m = SENTENCE.match(s)
    if not m:
        return ["not a sentence of the grammar (lexical/syntactic level)"]
    formula = parse_formula(m.group(1))
    if formula is None:
        return ["sum formula is not a Hill-order formula of the grammar"]
    tuples = [(int(a), int(b)) for a, b in re.findall(_TUPLE, m.group(2))]
    attr_src = s.split("/", 2)[2] if s.count("/") >= 2 else ""
    attrs = []
    for am in re.finditer(_ATTR, attr_src):
        props = [p.split("=") for p in am.group(2).split(",")]
        attrs.append((int(am.group(1)), [(k, int(v)) for k, v in props]))
    if s.count("/") >= 2 and not attrs:
        bad.append("empty attribute section is written")
    n = sum(c for _, c in formula)
    # element of every index: blocks of increasing atomic number
    by_z = sorted(formula, key=lambda sc: Z[sc[0]])
    elem = []
    for sym, c in by_z:
        elem += [sym] * c
    for a, b in tuples:
        if not (1 <= a <= n and 1 <= b <= n):
            bad.append(f"tuple ({a}-{b}) refers to a missing atom")
        if not a < b:
            bad.append(f"tuple ({a}-{b}) is not written with a<b")
    if any(not (t1 < t2) for t1, t2 in zip(tuples, tuples[1:])):
        bad.append("tuples are not in strictly ascending order")
    if any(not (i1 < i2) for (i1, _), (i2, _) in zip(attrs, attrs[1:])):
        bad.append("attribute blocks are not in strictly ascending index order")
    for i, props in attrs:
        if not 1 <= i <= n:
            bad.append(f"attribute block {i} refers to a missing atom")
        keys = [k for k, _ in props]
        if len(set(keys)) != len(keys):
            bad.append(f"attribute block {i} repeats a key")
        if any(v <= 0 for _, v in props):
            bad.append(f"attribute block {i} has a non-positive value")
    if graph_atoms is not None:
        want = Counter(sym for sym, _, _ in graph_atoms)
        if Counter(dict(formula)) != want:
            bad.append(f"formula {dict(formula)} differs from element counts {dict(want)}")
        labelled = Counter((sym, ms, rd) for sym, ms, rd in graph_atoms if ms is not None or rd is not None)
        got = Counter()
        for i, props in attrs:
            if 1 <= i <= n:
                d = dict(props)
                got[(elem[i - 1], d.get("mass"), d.get("rad"))] += 1
        if got != labelled:
            bad.append(f"attribute blocks {dict(got)} differ from labelled atoms {dict(labelled)}")
    if graph_edges is not None and len(tuples) != graph_edges:
        bad.append(f"{len(tuples)} tuples for {graph_edges} bonds")
    return bad
