#!/usr/bin/env python3
"""Re-run the quick check of the broken property against every seeded change (seeded/*/patch.diff):
apply to /repo, run, undo straight afterwards.  Exit 1 if a change is no longer detected.
Usage: seeded_regress.py [id-substring ...]   (with substrings: only those are re-run and their entries in seeded/regress.json updated)"""
import glob, json, os, subprocess, sys, time

ROOT = os.path.dirname(os.path.dirname(os.path.abspath(__file__)))

def sh(cmd, cwd=None, timeout=3000):
    p = subprocess.run(cmd, shell=True, cwd=cwd, stdout=subprocess.PIPE, stderr=subprocess.STDOUT, timeout=timeout)
    return p.returncode, p.stdout.decode(errors="replace")

def main():
    want = sys.argv[1:]
    rc, out = sh("git status --porcelain", cwd="/repo")
    assert not out.strip(), "/repo is not clean: " + out
    missed = []
    results = {}
    for d in sorted(glob.glob(os.path.join(ROOT, "seeded", "*", "meta.json"))):
        m = json.load(open(d))
        sid, prop = m["id"], m["breaks_property"]
        if want and not any(w in sid for w in want):
            continue
        patch = os.path.join(os.path.dirname(d), "patch.diff")
        rc, out = sh(f"git apply {patch}", cwd="/repo")
        assert rc == 0, (sid, out)
        try:
            t = time.time()
            rc, out = sh(f"VERIF_EVIDENCE_DIR=/tmp/verif_scratch_evidence /venv/bin/python harness/check.py --property {prop} --tier quick", cwd=ROOT)
        finally:
            sh("git checkout -- .", cwd="/repo")
        v = [l for l in out.splitlines() if l.startswith("VIOLATION")]
        kind = "no-failing-input-found" if v and all("no-failing-input-found" in l for l in v) else "failing input"
        print(f"{sid:45s} {prop} rc={rc} {kind if rc == 1 else 'NOT DETECTED'} {time.time() - t:5.1f}s", flush=True)
        results[sid] = {"property": prop, "rc": rc, "verdict": (kind if rc == 1 else "not detected"),
                        "first_line": (v[0][:300] if v else ""), "seed": int(os.environ.get("VERIF_SEED", "0") or 0)}
        if rc != 1:
            missed.append(sid)
    rc, out = sh("git status --porcelain", cwd="/repo")
    assert not out.strip(), out
    print("missed:", missed)
    weak = [k for k, r in results.items() if r["verdict"] == "no-failing-input-found"]
    print("reported without a failing input:", weak)
    path = os.path.join(ROOT, "seeded", "regress.json")
    if want and os.path.exists(path):
        # a partial run updates the entries it re-ran
        old = json.load(open(path)).get("results", {})
        old.update(results)
        results = old
    json.dump({"seed": int(os.environ.get("VERIF_SEED", "0") or 0), "results": dict(sorted(results.items()))},
              open(path, "w"), indent=1)
    sys.exit(1 if missed else 0)

if __name__ == "__main__":
    main()
