#!/usr/bin/env python3
"""Regenerate seeded/README.md from seeded/*/meta.json and the strengthening notes kept in seeded/notes.json."""
import glob, json, os, ast
ROOT = os.path.dirname(os.path.dirname(os.path.abspath(__file__)))
notes = json.load(open(os.path.join(ROOT, "seeded", "notes.json")))
try:
    regress = json.load(open(os.path.join(ROOT, "seeded", "regress.json")))["results"]
except Exception:
    regress = {}
rows = []
for d in sorted(glob.glob(os.path.join(ROOT, "seeded", "*", "meta.json"))):
    m = json.load(open(d))
    ran = m.get("ran")
    if isinstance(ran, str):
        ran = ast.literal_eval(ran)
    cells = []
    for r in ran or []:
        out = " ".join(r.get("output", []))
        if r["rc"] == 1:
            cells.append(f"{r['check']}:VIOLATION" + (" (no-failing-input-found)" if "no-failing-input-found" in out else ""))
        elif r["rc"] == 0:
            cells.append(f"{r['check']}:quiet")
        else:
            cells.append(f"{r['check']}:rc={r['rc']}")
    now = regress.get(m["id"])
    final = f"{now['property']}: {now['verdict']}" if now else "(not re-run)"
    rows.append(f"| `{m['id']}` | {m['breaks_property']} | {final} | {', '.join(cells)} | {notes['strength'].get(m['id'], '')} |")
head = """# Seeded changes

Each directory holds `patch.diff` (apply with `git -C /repo apply`), `demo.py`, `notes.md` (from the independent sub-agent that wrote the change, which saw only the property text and a scratch worktree) and `meta.json` (what was confirmed and which checks were run against it, with their output). Confirmed = the unedited suite passes with the change, the demonstration fails with it and passes without it. `tools/seed_eval.py` does the confirmation and the runs; `tools/seeded_readme.py` writes this file.

`tools/seeded_regress.py` re-runs every change against the *current* checks and writes `regress.json`; the third column
is that result for the property the change breaks (`failing input` = reported with a concrete replay). The fourth column is the
state when the change was first evaluated (all checks that were run against it then), before the strengthening in the last column.

| id | breaks | current quick check of that property | when first evaluated | strengthening it caused |
|---|---|---|---|---|
"""
open(os.path.join(ROOT, "seeded", "README.md"), "w").write(head + "\n".join(rows) + "\n\n" + notes["footer"] + "\n")
print(len(rows), "rows")
