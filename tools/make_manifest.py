#!/usr/bin/env python3
"""Writes MANIFEST.json from the per-property descriptions below (kept in one place so that the
claims stay in step with lean/TucanProofs/Props/*.lean)."""
import json, os, subprocess
VERIF = os.path.dirname(os.path.dirname(os.path.abspath(__file__)))

COMMON_NOTE = ("Trusted: Lean 4.33.0 kernel; axioms propext, Classical.choice, Quot.sound only (audited by #print axioms on every "
               "run; no sorry/admit/native_decide/bv_decide/own axioms); the hand-written Lean model of the Python sources, tied to "
               "/repo on every run by the line-protocol correspondence (real function vs compiled model driver on generated inputs) "
               "and by tools/extract_tables.py (element table, charge codes, key maps and the grammar walked out of the ANTLR ATN, "
               "regenerated and re-checked by the kernel). Modelled, not verified: CPython, networkx, the ANTLR runtime; ")

P = {
 "C01": dict(text="Theorems about the model: every sorted, set- or dict-derived sequence the pipeline reads is a function of the multiset (S1), "
             "one partition step and the whole refinement are equivariant under relabelling in any listing order. The full "
             "string-invariance theorem is assembled from these with the bliss contract; parts not yet proved are named in "
             "DESIGN.md §5. The probe evaluates the property itself on the real code (string equality under relabelling).",
             note="igraph/bliss enters as a recorded oracle answer whose contract (a permutation of the labels; equal canonical forms "
                  "for colour-isomorphic inputs) is validated on every call and pair of this run, not proved.",
             tech="Lean 4 proof (equivariance, sort canonicality) + model/code correspondence + relabelling probe"),
 "C02": dict(text="Injectivity follows from reconstruction (C03): equal strings parse to the same graph. Proved so far: the pieces of the "
             "token-level round trip listed in DESIGN.md §5; the probe compares near-miss pairs and every collision among generated "
             "strings with an independent matcher.",
             note="needs only that igraph returns a permutation (checked per call).",
             tech="Lean 4 proof (partial) + correspondence + near-miss pairs vs independent isomorphism matcher"),
 "C03": dict(text="Round-trip theorems about serializer and parser models (token level), fixed point via C01; probe: real parse(tucan(G)) "
             "vs G through an independent matcher and re-serialisation.",
             note="", tech="Lean 4 proof (partial) + correspondence + round-trip probe"),
 "C04": dict(text="Equivariance of classes (S2, S3) proved; canonical-graph equality follows with the bliss contract and the proved "
             "relabelling lemmas. Probe: node->(element, mass, radical, class) maps and edge sets of the real canonical graphs.",
             note="bliss contract validated per call/pair, not proved.",
             tech="Lean 4 proof + correspondence + canonical-graph probe"),
 "C05": dict(text="Table lemmas re-checked by the kernel on the regenerated grammar (Hill order of any subset of the 118 symbols is a "
             "subsequence of with_carbon / without_carbon; ATN and tucan.g4 agree); layout lemmas of the writers; probe: independent "
             "validator (regular expressions from tucan.ebnf + layout rules).",
             note="", tech="Lean 4 proof over regenerated grammar tables + correspondence + independent validator"),
 "C06": dict(text="Corollary of C01's invariance: the relation under which the pipeline is invariant constrains only identity colour and "
             "adjacency. Probe: paired molfile renderings differing in non-identity data.",
             note="", tech="Lean 4 proof (corollary of C01) + correspondence + paired-rendering probe"),
 "C07": dict(text="Proved: continuation splicing inverts wrapping at every length; tokenisation and keyword-scan lemmas as listed in "
             "DESIGN.md §5. The reader model is tied to the code on thousands of spec-derived renderings; the probe compares the real "
             "reader's result with the abstract molecule attribute for attribute.",
             note="float parsing is opaque (coordinates are tokens).",
             tech="Lean 4 proof (line machinery) + reader model correspondence + renderer probe"),
 "C08": dict(text="Proved: charge-code table and fixed-column lemmas as listed in DESIGN.md §5; reader model tied to the code on rendered "
             "V2000/V3000 pairs; probe compares both readers with the abstract molecule.",
             note="float parsing is opaque.", tech="Lean 4 proof (tables, columns) + correspondence + paired V2000/V3000 probe"),
 "C09": dict(text="Proved for every line length: physical lines <= 79 characters, each carries the prefix, and the reader's splicing "
             "restores the logical line (the core of the write/read round trip). Probe: real write->read round trips with "
             "length-targeted lines.",
             note="float formatting is opaque (coordinates are pre-formatted tokens).",
             tech="Lean 4 proof (wrap/splice for all lengths) + correspondence + length-targeted round-trip probe"),
 "C10": dict(text="The Lean reference reader (lexer + recogniser written from the grammar, tables regenerated from the ATN) is compared "
             "with the real parser on sentences and all kinds of single-token edits: accept/reject, exception type and graph. "
             "Proved: every rejection of the model is the parser's own exception type; recogniser lemmas as listed in DESIGN.md §5.",
             note="the ANTLR runtime is compared behaviourally, not verified.",
             tech="Lean 4 reference reader + proof of reject kind + differential correspondence on token edits"),
 "C11": dict(text="Respelling invariance reduces to C01 (respellings denote isomorphic graphs) and idempotence to C03's fixed point; probe: "
             "real norm on respellings and twice.",
             note="", tech="Lean 4 proof (via C01/C03) + correspondence + respelling probe"),
 "C12": dict(text="Proved about the model: relabelling by an injective map preserves every attribute and bond record and adds/drops nothing; "
             "post-state of the serializer's argument differs only in the scratch flag. The harness snapshots arguments, checks "
             "aliasing and repeats calls on the same objects.",
             note="value semantics of the model is faithful only without aliasing, which the harness checks.",
             tech="Lean 4 proof (relabelling lemmas) + correspondence with argument post-states + renaming probe"),
 "C13": dict(text="Proved about the model: classes are equivariant under relabelling in any listing (hence invariant under automorphisms), "
             "and the final partition is equitable. Probe: the three clauses on the real partition attribute.",
             note="no oracle involved.", tech="Lean 4 proof (equivariance, equitability) + correspondence + partition probe"),
 "C14": dict(text="PARTIAL. Lean carries order-obliviousness of every sorted sequence (hash-seed quantifier for the modelled code), value "
             "semantics of the operations and an abstract lazily-filled cache theorem (every interleaving returns f k). Thread "
             "switching inside the ANTLR runtime/networkx/igraph cannot be exhibited by the model and is sampled: subprocesses under "
             "several PYTHONHASHSEED values and call orders, 8 threads with a 1 microsecond switch interval.",
             note="CPython scheduling is outside every theorem.",
             tech="Lean 4 proof (order-obliviousness, cache model) + multi-process/multi-thread differential"),
 "C15": dict(text="PARTIAL. Proved about the model: the BFS relabelling is defined by well-founded recursion (termination is a kernel-checked "
             "fact), refinement is bounded by the number of atoms; the remaining totality obligations are listed in DESIGN.md §5. "
             "Probe: the real pipeline on depth-linear families in the thousands of atoms.",
             note="memory, bliss running time and the ANTLR runtime's own recursion are outside the model.",
             tech="Lean 4 proof (termination/totality, partial) + correspondence + large-input probe"),
 "C16": dict(text="Proved about the model: the helper's result is a relabelling of its argument by the recorded shuffle; the harness replays "
             "the real random.shuffle results in the model and compares graphs exactly, incl. node order.",
             note="random.shuffle is a recorded parameter; termination of the retry loop is almost-sure, not a theorem.",
             tech="Lean 4 proof (relabelling) + exact correspondence with recorded shuffles + faithfulness probe"),
}

def main():
    checks = []
    for pid in sorted(P):
        d = P[pid]
        checks.append({
            "property_id": pid,
            "quick_cmd": f"/venv/bin/python harness/check.py --property {pid} --tier quick",
            "thorough_cmd": f"/venv/bin/python harness/check.py --property {pid} --tier thorough",
            "evidence_file": f"/verif/evidence/{pid}.json",
            "replay_cmd_template": "/venv/bin/python harness/check.py --replay {path}",
            "engine": "lean-model",
            "level_claimed": {"category": "proof", "text": d["text"], "design_ref": f"DESIGN.md §5 {pid}"},
            "level_note": COMMON_NOTE + d["note"],
            "technique": d["tech"],
        })
    m = {
        "version": 1,
        "setup_cmd": "/venv/bin/python tools/extract_tables.py && cd lean && lake build",
        "hooks": {
            "guard": "TUCAN_VERIF",
            "enable": "no hooks in /repo: the harness observes public functions in-process and wraps igraph.Graph.canonical_permutation and random.shuffle inside its own process",
            "baseline_off_cmd": "cd /repo && /venv/bin/python -m pytest -ra -q -p no:cacheprovider --timeout=900 --continue-on-collection-errors",
            "source_commits": [],
            "add_only": True,
        },
        "engines": [
            {"name": "lean-model", "path": "lean/", "serves_properties": sorted(P),
             "kind_free_text": "Lean 4 model of the Python sources + property theorems (lake project, core-only model, compiled line-protocol driver)"},
            {"name": "harness", "path": "harness/", "serves_properties": sorted(P),
             "kind_free_text": "Python: generators, real-code adapters, correspondence diff, property probes, evidence"},
        ],
        "checks": checks,
        "notes": "Six genuine defects of the pinned tree were found by these checks and repaired in /repo by 'fix:' commits; see known_findings.json and DESIGN.md §7.",
        "not_applicable": [],
    }
    with open(os.path.join(VERIF, "MANIFEST.json"), "w") as f:
        json.dump(m, f, indent=1)
    print("MANIFEST.json written,", len(checks), "checks")

if __name__ == "__main__":
    main()
