#!/usr/bin/env python3
"""Writes MANIFEST.json from the per-property descriptions below (kept in one place so that the
claims stay in step with lean/TucanProofs/Props/*.lean)."""
import json, os, subprocess
VERIF = os.path.dirname(os.path.dirname(os.path.abspath(__file__)))

COMMON_NOTE = ("Trusted: Lean 4.33.0 kernel; axioms propext, Classical.choice, Quot.sound only (audited by #print axioms on every "
               "run; no sorry/admit/native_decide/bv_decide/own axioms); the hand-written Lean model of the Python sources, tied to "
               "/repo on every run by the line-protocol correspondence (real function vs compiled model driver on generated inputs) "
               "and by tools/extract_tables.py (element table, charge codes, key maps and the grammar walked out of the ANTLR ATN, "
               "regenerated and re-checked by the kernel). Modelled, not verified: CPython, networkx, the ANTLR runtime; ")

P = {
 "C01": dict(text="Proved about the model, for every oracle meeting the bliss contract and every pair of descriptions of one molecule "
             "(Iso SameIdent: any renumbering, any listing order of atoms and bonds, any bond orientation; no connectivity or asymmetry "
             "hypothesis): tucanOf O g' = tucanOf O g (C01_string_invariant); carried down to the text of two molfiles, V3000 with any "
             "indices or V2000, that list one molecule's atoms and bonds in different orders (C01_texts_same_string; C01_graphs_of_same_molecule for the graphs the readers return); the contract is inhabited; a concrete pair of descriptions with a non-identity renaming meets every hypothesis. Built from sort "
             "canonicality, equivariance of partition and refinement, the relabelling lemmas for networkx's container, and "
             "representation independence of the serializer. The probe evaluates the property on the real code.",
             note="igraph/bliss enters as a recorded oracle answer whose contract (a permutation of the vertices; identical canonical "
                  "forms for colour-isomorphic inputs) is validated on every call and every generated pair of this run, not proved.",
             tech="Lean 4 proof (equivariance + bliss contract + serializer congruence) + model/code correspondence + relabelling probe"),
 "C02": dict(text="Proved about the model: if two molecules (domain MolAtoms) get the same string they are isomorphic as graphs coloured by "
             "element, mass and radical (C02_injective, C02_distinct; C02_files_same_string_isomorphic: two molfile texts read as conformant molecules that get one string state isomorphic molecules; with C01, for an oracle meeting the contract, equality of strings is equivalent to such an isomorphism: C02_complete_invariant) — via reconstruction (C03), for oracles that merely return "
             "permutations. Probe: near-miss pairs (at graph level and as renumbered V3000/V2000 files) and all collisions among generated strings vs an independent matcher.",
             note="needs only that igraph returns a permutation (checked per call).",
             tech="Lean 4 proof (injectivity via decode∘encode) + correspondence + near-miss pairs vs independent isomorphism matcher"),
 "C03": dict(text="Proved about the model: graph_from_tucan(tucan(G)) is G under a renaming (same element/mass/radical, same adjacency, same "
             "atom count) (C03_roundtrip); the emitted string lexes and is a sentence (C03_emitted_string_parses); the parsed graph "
             "re-serializes to the identical string for every oracle meeting the contract (C03_fixed_point). Probe: the same on the real code "
             "through an independent matcher.",
             note="domain MolAtoms (table symbols, positive mass/radical, invariant code as graph_from_molecule computes it), which readers and "
                  "parser establish; bliss contract for the fixed point.",
             tech="Lean 4 proof (decode∘encode, fixed point) + correspondence + round-trip probe"),
 "C04": dict(text="Proved about the model, for every oracle meeting the bliss contract: canonical graphs of two descriptions of one molecule have "
             "labels 0…n-1, equal (element, mass, radical, class) per label and equal adjacency (C04_canonical_graph, C04_nodes_and_edges), the class being set on every label (C04_classes_set); C04_graphs_of_same_molecule: the same for the graphs either reader returns for two listings of one molecule. "
             "Probe: node maps and edge sets of the real canonical graphs; the contract is validated on every pair.",
             note="bliss contract validated per call/pair, not proved.",
             tech="Lean 4 proof (equivariance + bliss contract + relabelling) + correspondence + canonical-graph probe"),
 "C05": dict(text="Proved: the Hill-order formula is accepted by the grammar for every multiset of the 118 symbols and any counts; the formula "
             "equals the element counts; each bond once as a<b in strictly ascending order; attribute blocks in strictly ascending index "
             "order; indices in blocks of increasing atomic number; every emitted string is a Sentence of the grammar (MolAtoms domain); and about the emitted STRING itself (C05_emitted_layout): its syntax tree has the canonical layout - symbols in Hill order (IsHillOrder, specified without reference to the writer), numerals without leading zeros, count 1 omitted, tuples a<b strictly ascending, attribute blocks strictly ascending with mass before rad - and states the molecule's own counts. "
             "Grammar tables are regenerated from the parser's ATN and re-checked by the kernel on every run. Probe: independent validator.",
             note="positivity of mass/radical values is what the readers must establish (defect F2, repaired).",
             tech="Lean 4 proof over regenerated grammar tables + correspondence + independent validator"),
 "C06": dict(text="Corollary of C01's theorem: the relation under which the pipeline is invariant (Iso SameIdent) constrains only element, "
             "mass, radical and the neighbour sets (C06_identity_only, C06_identity_only_renumbered, C06_sameIdent_ignores). Carried "
             "down to the text of the files: two molfile texts, each V3000 or V2000, with any header lines, any of the three line-"
             "ending styles, any permitted spelling of the table and anything after it, that state molecules of the same identity "
             "(same element/mass/radical per atom position, D = hydrogen-2, same bonded pairs in any order and orientation) get the "
             "same string whatever they say about charges, bond types, annotations and coordinates (C06_files_same_string, "
             "C06_v3000_file_readsAs, C06_v2000_file_readsAs, C06_line_endings; C06_mixed_line_endings: also with a different terminator after every line). Probe: paired molfile renderings differing in non-"
             "identity data, line endings in memory and through graph_from_file.",
             note="V3000 files with ANY pairwise distinct atom indices in any order are covered at file level too "
                  "(C06_v3000_file_any_indices, C06_graphs_of_same_identity); the bliss contract is an explicit hypothesis (CanonOracle).",
             tech="Lean 4 proof (corollary of C01, file level through both reader models) + correspondence + paired-rendering probe"),
 "C07": dict(text="Proved about the reader model, for the whole connection table under every spelling the format permits "
             "(C07_connection_table_every_spelling: blank runs, continuation at ANY split points, any order of key=value properties "
             "with other keywords in between, sparse/unordered indices, star atoms with ENDPTS expansion, explicit zeros, D/T; "
             "C07_consecutive_renumbering: arbitrary unique indices are renumbered in file order; C07_text_to_graph: from the text, "
             "any line-ending style, through version dispatch to the graph; C07_graph_from_file: text-mode reading (universal newlines) never changes the lines, so graph_from_file returns what graph_from_molfile_text returns on the decoded content; C07_graph_from_file_suffix: any suffix but .mol is refused with IOError), plus the line-level lemmas. The reader is tied by "
             "correspondence on spec-derived renderings, a malformed stream, star-atom special forms, renderings with unusual "
             "characters, and the interpreter's string layer itself (character classes of every code point, "
             "int/float/splitlines/rstrip/split); the probe compares the real reader's graph with the abstract molecule.",
             note="float parsing is opaque (coordinates are tokens whose acceptance by float() is modelled, not their value).",
             tech="Lean 4 proof (file-level reader theorem for every spelling) + reader model correspondence incl. string layer + renderer probe"),
 "C08": dict(text="Proved about the V2000 and V3000 reader models: C08_readers_agree - a V3000 table and a V2000 table that state the same "
             "molecule (charges/radicals by atom-block charge codes OR by M  CHG / M  RAD lines listing every atom with a value once, "
             "any chunking, order and interleaving, decoy codes superseded; isotopes by M  ISO lines; D/T by symbol) are read as the "
             "same atom and bond dictionaries up to the spelling of coordinates; C08_same_string - hence the same TUCAN string, at "
             "text level with any line endings; C08_connection_table, C08_property_block, C08_property_line_entries, "
             "C08_fixed_width_fields, C08_charge_codes, C08_hydrogen_isotopes; C08_readers_agree_repeated_entries / C08_same_string_repeated_entries: the same when property lines name an atom several times (the last entry naming it counts, a last 0 revokes, a D/T mass then stays); C08_block_written_in_columns: every property block laid out in the specification's fixed columns meets the block hypothesis of these theorems. Non-vacuity: a concrete pair of files meets every "
             "hypothesis. Tied by correspondence on rendered V2000/V3000 pairs (incl. >99 atoms, explicit zero entries, atoms named more than once, blank "
             "coordinate fields, unusual characters); probe compares both readers with the molecule and each other.",
             note="float parsing is opaque.",
             tech="Lean 4 proof (reader agreement on every stated molecule) + correspondence + paired V2000/V3000 probe"),
 "C09": dict(text="Proved about writer and reader models, for every line length and any atom count: the written file has no line over 79 characters, "
             "and reading it back returns the same atoms in order with the same element, charge, radical, mass, coordinate tokens and the "
             "same bonds and bond types (C09_write_read; C09_write_read_any_listing for graphs whose nodes are listed in any order, e.g. "
             "canonical graphs; C09_write_read_same_string; C09_bond_records: no other adjacency record appears; C09_written_is_v3000_file: the written lines are a V3000 connection table in the sense of C07's specification (IsV3000File), independently of any reader; C09_written_read_by_spec: C07's specification applied to it gives the reader's result by a second route; C09_string_molfile_string(_total): string->graph->molfile->graph->string returns the "
             "original string, with writability of the parsed graph and the success of every step as conclusions); plus the line-level lemmas. Probe: real write→read with length-targeted lines.",
             note="float formatting is opaque (coordinates are pre-formatted tokens); labels are 0..n-1, listed in any order.",
             tech="Lean 4 proof (file-level write/read for all lengths) + correspondence + length-targeted round-trip probe"),
 "C10": dict(text="The Lean reference reader (lexer + recogniser from the grammar, tables regenerated from the ATN) is compared with the real parser "
             "on sentences, single-token edits, every element and table-neighbour pair, attribute values at the 4300-digit limit: accept/reject, exception type, graph (bond-free sentences stating 65 536-120 000 atoms: real parser against the harness's reference denotation only, the model driver being quadratic). Proved: "
             "acceptance exactly (C10_accepts_iff: accepted iff a sentence whose indices exist, without self-bond, duplicate attribute or over-long literal); "
             "every rejection is TucanParserException; the recogniser accepts exactly the declarative grammar; the returned graph read off the string's syntax tree (C10_denotes: "
             "n atoms, the formula's expansion by non-decreasing Z, bonded exactly where a tuple says, mass/radical exactly where a block says, nothing else); the element table is the periodic table.",
             note="the ANTLR runtime is compared behaviourally, not verified.",
             tech="Lean 4 reference reader + proofs (reject kind, grammar, denotation) + differential correspondence on token edits"),
 "C11": dict(text="Proved at string level (C11_respelled_strings): two accepted strings with the same formula, the same set of bonded pairs and the same attribute settings normalize to the same string; and at listener-state level: two spellings whose listener states correspond under a renumbering inside element blocks (covers tuple order, endpoint "
             "swaps, repeats, split/reordered attribute blocks, renumbering) parse to Iso SameIdent graphs, hence equal normal forms by C01; "
             "C11_renumbered_strings: the same at string level with atoms renumbered inside element blocks; idempotence by C03's fixed point. Probe: real norm on respellings and twice.",
             note="bliss contract as in C01.", tech="Lean 4 proof (parser denotation + C01 + C03) + correspondence + respelling probe"),
 "C12": dict(text="Proved about the model: canonicalization is an injective renaming onto 0…n-1 keeping every attribute but partition and every bond "
             "record (for any oracle returning a permutation), the class every atom received being set and carried (C12_classes_carried); the serializer's post-state differs only in the scratch flag; repeating it "
             "gives the same string. The harness snapshots arguments, checks aliasing and repeats calls (serialize 2-4 times) on the same objects.",
             note="value semantics of the model is faithful only without aliasing, which the harness checks.",
             tech="Lean 4 proof (relabelling lemmas) + correspondence with argument post-states + renaming probe"),
 "C13": dict(text="Proved about the model, no oracle: classes are equivariant under relabelling in any listing (equal round counts; C13_graphs_of_same_molecule: also stated for the graphs either reader returns for two listings of one molecule), invariant under "
             "automorphisms, the final partition is equitable and atoms of one class have the same element, mass and radical (C13_same_class_same_identity); every atom has a class and the canonical graph carries it (C13_classes_on_canonical_graph); one more refinement step changes no class (C13_stable_under_refinement); rounds ≤ n+1. Probe: the three clauses "
             "on the real partition attribute.",
             note="", tech="Lean 4 proof (equivariance, equitability) + correspondence + partition probe"),
 "C14": dict(text="PARTIAL. Lean carries order-obliviousness of every sorted sequence and of the serializer, the canonical graph and the whole pipeline "
             "(C14_pipeline_listing_oblivious: the hash-seed / insertion-history quantifier for the modelled code), value semantics, and a toy lazily-filled cache (defined in the proof file, not derived from the ANTLR runtime; every interleaving and history of that toy). Thread "
             "switching inside the ANTLR runtime/networkx/igraph cannot be exhibited by the model and is sampled: subprocesses under several "
             "PYTHONHASHSEED values and call orders, 8 threads with a 1 microsecond switch interval; the caller scribbles on every result "
             "and every operation runs twice per process, so shared or cached mutable results show; the writer also with calc_coordinates=True (layout outside the model, bytes compared).",
             note="CPython scheduling is outside every theorem.",
             tech="Lean 4 proof (order-obliviousness, cache model) + multi-process/multi-thread differential"),
 "C15": dict(text="PARTIAL. Proved about the model for graphs of every size and shape: the pipeline returns a string and the parser accepts it (C15_v3000_text_to_string: from the text of a conformant V3000 file to a string in canonical layout that parses back); the "
             "refinement stops within n rounds; the BFS relabelling (well-founded recursion) never raises and meets its assertion. Python's "
             "stack, memory, bliss's running time and ANTLR's recursion are outside the model; the probe runs the real pipeline on depth-linear "
             "families in the thousands of atoms and the real parser on bond-free sentences stating up to 120 000 atoms.",
             note="", tech="Lean 4 proof (totality, termination bound) + correspondence + large-input probe"),
 "C16": dict(text="Proved about the model: the helper's result is the argument renamed by a bijection of its label set (all atom and bond "
             "attributes carried), nodes in label order, and when the argument has at least two bonds and two atoms that are not bonded, some pair of labels is bonded in the argument and not in the result (C16_edges_differ, in terms of adjacency). The harness replays the real "
             "random.shuffle results in the model and compares graphs incl. node order and all attributes (an atom's bonds as a set).",
             note="random.shuffle is a recorded parameter; termination of the retry loop is almost-sure, not a theorem.",
             tech="Lean 4 proof (relabelling) + exact correspondence with recorded shuffles + faithfulness probe"),
}

def main():
    checks = []
    for pid in sorted(P):
        d = P[pid]
        checks.append({
            "property_id": pid,
            "quick_cmd": f"/venv/bin/python harness/check.py --property {pid} --tier quick",
            "thorough_cmd": f"/venv/bin/python harness/check.py --property {pid} --tier thorough",
            "evidence_file": f"/verif/evidence/{pid}.json",
            "replay_cmd_template": "/venv/bin/python harness/check.py --replay {path}",
            "engine": "lean-model",
            "level_claimed": {"category": "proof", "text": d["text"], "design_ref": f"DESIGN.md §5 {pid}"},
            "level_note": COMMON_NOTE + d["note"],
            "technique": d["tech"],
        })
    m = {
        "version": 1,
        "setup_cmd": "/venv/bin/python tools/extract_tables.py && cd lean && lake build",
        "hooks": {
            "guard": "TUCAN_NEST_TUCAN_VERIF (unused: there are no hooks in /repo)",
            "enable": "no hooks in /repo: the harness observes public functions in-process and wraps igraph.Graph.canonical_permutation and random.shuffle inside its own process",
            "baseline_off_cmd": "cd /repo && /venv/bin/python -m pytest -ra -q -p no:cacheprovider --timeout=900 --continue-on-collection-errors",
            "source_commits": [],
            "add_only": True,
        },
        "engines": [
            {"name": "lean-model", "path": "lean/", "serves_properties": sorted(P),
             "kind_free_text": "Lean 4 model of the Python sources + property theorems (lake project, core-only model, compiled line-protocol driver)"},
            {"name": "harness", "path": "harness/", "serves_properties": sorted(P),
             "kind_free_text": "Python: generators, real-code adapters, correspondence diff, property probes, evidence"},
        ],
        "checks": checks,
        "notes": "Six genuine defects of the pinned tree were found by these checks and repaired in /repo by 'fix:' commits; see known_findings.json and DESIGN.md §6.",
        "not_applicable": [],
    }
    with open(os.path.join(VERIF, "MANIFEST.json"), "w") as f:
        json.dump(m, f, indent=1)
    print("MANIFEST.json written,", len(checks), "checks")

if __name__ == "__main__":
    main()
