#!/usr/bin/env python3
"""Mechanical mutants of the LIBRARY (not of the model) against the checks.

Phase A  (scratch worktrees under /tmp, removed afterwards): small syntactic mutants of /repo/tucan source lines
         (comparison and arithmetic operators, constants, boolean connectives, slices, sorted/reverse, min/max,
         continue/break, dictionary defaults); each is run against the repository's own test-suite.  Mutants the suite
         kills are of no interest here.
Phase B  (on /repo itself, one at a time, undone straight afterwards): every mutant the suite lets through is run against
         all 16 quick checks.  Verdict per mutant: `failing input` (some check reports a concrete replay),
         `no failing input` (only broken correspondence), `quiet`.
Quiet mutants are listed for review: either the mutation preserves every property (equivalent code, behaviour no property
constrains) or the checks have a blind spot.

Usage: code_mutation_sweep.py [--n 240] [--seed 0] [--jobs 8] [--max-b 60]      (writes code_mutation_sweep.json)"""
import argparse, json, os, random, re, shutil, subprocess, sys, time
from concurrent.futures import ThreadPoolExecutor

ROOT = os.path.dirname(os.path.dirname(os.path.abspath(__file__)))
REPO = "/repo"
FILES = ["tucan/canonicalization.py", "tucan/serialization.py", "tucan/graph_utils.py", "tucan/io/molfile_reader.py",
         "tucan/io/molfile_v3000_reader.py", "tucan/io/molfile_v2000_reader.py", "tucan/io/molfile_writer.py",
         "tucan/parser/parser.py"]
PROPS = [f"C{i:02d}" for i in range(1, 17)]

OPS = [
    (r" <= ", " < "), (r" < ", " <= "), (r" >= ", " > "), (r" > ", " >= "),
    (r" == ", " != "), (r" != ", " == "),
    (r" and ", " or "), (r" or ", " and "),
    (r" \+ 1\b", " + 2"), (r" \+ 1\b", ""), (r" - 1\b", ""), (r" - 1\b", " - 2"),
    (r"\b(\d+)\b", lambda m: str(int(m.group(1)) + 1)),
    (r"\bsorted\(", "list("), (r", reverse=True", ""), (r"\bmin\(", "max("), (r"\bmax\(", "min("),
    (r"\bcontinue\b", "break"), (r"\bbreak\b", "continue"),
    (r"\bnot ", ""), (r"\[0\]", "[-1]"), (r"\[-1\]", "[0]"), (r"\[1:\]", "[0:]"), (r"\[0:-1\]", "[0:]"),
    (r"\.get\((\w+), 0\)", r".get(\1, 1)"), (r"\.appendleft\(", ".append("), (r"\.popleft\(\)", ".pop()"),
    (r"\.rstrip\(\)", ".strip()"), (r"\.strip\(\)", ".rstrip()"), (r"\bis_star_atom\b", "False"),
    (r"\bTrue\b", "False"), (r"\bFalse\b", "True"),
]


def sh(cmd, cwd=None, env=None, timeout=3000):
    p = subprocess.run(cmd, shell=True, cwd=cwd, env=env, stdout=subprocess.PIPE, stderr=subprocess.STDOUT, timeout=timeout)
    return p.returncode, p.stdout.decode(errors="replace")


OPS2 = [
    (r"^(\s+)(?!return\b|raise\b|yield\b|if\b|elif\b|else\b|for\b|while\b|with\b|try\b|except\b|finally\b|pass\b|break\b|continue\b|def\b|class\b)"
     r"([A-Za-z_][\w\.\[\]\"']* (?:=|\+=|\|=) .+|[A-Za-z_][\w\.]*\(.*\))$", r"\1pass"),          # delete a simple statement
    (r"\bsorted\(([^()]+)\)", r"sorted(\1, reverse=True)"),
    (r" \+= ", " -= "),
    (r"^(\s+)if (.+):$", r"\1if not (\2):"),
    (r"^(\s+)elif (.+):$", r"\1elif not (\2):"),
    (r"\.add\(", ".discard("), (r"\.append\(", ".insert(0, "),
]


def candidates(second=False):
    global OPS
    if second:
        OPS = OPS2
    out = []
    for f in FILES:
        lines = open(os.path.join(REPO, f)).read().split("\n")
        in_doc = False
        for i, line in enumerate(lines):
            s = line.strip()
            if s.count('"""') % 2 == 1:
                in_doc = not in_doc
                continue
            if in_doc or not s or s.startswith("#") or s.startswith("import ") or s.startswith("from ") or s.startswith("def ") \
                    or s.startswith("class ") or s.startswith("@") or s.startswith('f"') or s.startswith("f'") or s.startswith('"'):
                continue
            code = line.split("  #")[0]
            for k, (pat, rep) in enumerate(OPS):
                for m in re.finditer(pat, code):
                    # leave string literals alone (messages)
                    before = code[:m.start()]
                    if before.count('"') % 2 == 1 or before.count("'") % 2 == 1:
                        continue
                    new = code[:m.start()] + (m.expand(rep) if isinstance(rep, str) else rep(m)) + code[m.end():]
                    if new != code:
                        out.append({"file": f, "line": i + 1, "op": k, "old": line, "new": new + line[len(code):]})
    return out


def mutated_source(mu, base):
    lines = open(os.path.join(base, mu["file"])).read().split("\n")
    assert lines[mu["line"] - 1] == mu["old"], (mu, lines[mu["line"] - 1])
    lines[mu["line"] - 1] = mu["new"]
    return "\n".join(lines)


def phase_a(chosen, jobs):
    pool = []
    for k in range(jobs):
        wt = f"/tmp/cms_wt{k}"
        sh(f"git -C {REPO} worktree remove --force {wt}")
        shutil.rmtree(wt, ignore_errors=True)
        rc, out = sh(f"git -C {REPO} worktree add --detach {wt} HEAD")
        assert rc == 0, out
        pool.append(wt)
    free = list(pool)

    def one(mu):
        wt = free.pop()
        try:
            src = mutated_source(mu, wt)
            try:
                compile(src, mu["file"], "exec")
            except SyntaxError:
                return dict(mu, suite="invalid")
            path = os.path.join(wt, mu["file"])
            orig = open(path).read()
            open(path, "w").write(src)
            try:
                t = time.time()
                try:
                    rc, out = sh("/venv/bin/python -m pytest -q -x -p no:cacheprovider --timeout=120 2>&1 | tail -2", cwd=wt,
                                 env=dict(os.environ, PYTHONPATH=wt), timeout=900)
                    last = out.strip().splitlines()[-1] if out.strip() else ""
                    ok = " passed" in last and "failed" not in last and "error" not in last
                except subprocess.TimeoutExpired:
                    ok, last = False, "timeout"
                return dict(mu, suite="passes" if ok else "killed", suite_tail=last[:120], suite_s=round(time.time() - t, 1))
            finally:
                open(path, "w").write(orig)
        finally:
            free.append(wt)

    res = []
    try:
        with ThreadPoolExecutor(jobs) as ex:
            for r in ex.map(one, chosen):
                res.append(r)
                print(f"A {r['file']}:{r['line']:<4d} {r['suite']:8s} | {r['old'].strip()[:60]}  ==>  {r['new'].strip()[:60]}", flush=True)
    finally:
        for wt in pool:
            sh(f"git -C {REPO} worktree remove --force {wt}")
            shutil.rmtree(wt, ignore_errors=True)
        sh(f"git -C {REPO} worktree prune")
    return res


def check(prop):
    rc, out = sh(f"VERIF_EVIDENCE_DIR=/tmp/verif_scratch_evidence /venv/bin/python harness/check.py --property {prop} --tier quick", cwd=ROOT)
    v = [l for l in out.splitlines() if l.startswith("VIOLATION")]
    return prop, rc, v


def phase_b(survivors):
    rc, out = sh("git status --porcelain", cwd=REPO)
    assert not out.strip(), "/repo is not clean: " + out
    res = []
    for mu in survivors:
        path = os.path.join(REPO, mu["file"])
        src = mutated_source(mu, REPO)
        open(path, "w").write(src)
        try:
            with ThreadPoolExecutor(6) as ex:
                rs = list(ex.map(check, PROPS))
        finally:
            sh("git checkout -- .", cwd=REPO)
        concrete = sorted(p for p, rc, v in rs if rc == 1 and any("no-failing-input-found" not in l for l in v))
        weak = sorted(p for p, rc, v in rs if rc == 1 and p not in concrete)
        other = sorted(f"{p}:rc={rc}" for p, rc, v in rs if rc not in (0, 1))
        verdict = "failing input" if concrete else ("no failing input" if weak else "quiet")
        r = dict(mu, verdict=verdict, concrete=concrete, without_input=weak, tool_failures=other)
        res.append(r)
        print(f"B {mu['file']}:{mu['line']:<4d} {verdict:17s} {','.join(concrete) or '-'} / {','.join(weak) or '-'} {other or ''} | "
              f"{mu['old'].strip()[:55]}  ==>  {mu['new'].strip()[:55]}", flush=True)
    rc, out = sh("git status --porcelain", cwd=REPO)
    assert not out.strip(), out
    return res


def main():
    ap = argparse.ArgumentParser()
    ap.add_argument("--n", type=int, default=240)
    ap.add_argument("--seed", type=int, default=0)
    ap.add_argument("--jobs", type=int, default=8)
    ap.add_argument("--max-b", type=int, default=60)
    ap.add_argument("--second", action="store_true", help="second operator set: deleted statements, negated conditions, reversed sorts")
    a = ap.parse_args()
    cands = candidates(a.second)
    rng = random.Random(a.seed)
    rng.shuffle(cands)
    chosen = cands[: a.n]
    print(f"{len(cands)} candidate mutants, phase A on {len(chosen)}", flush=True)
    ra = phase_a(chosen, a.jobs)
    surv = [r for r in ra if r["suite"] == "passes"]
    print(f"suite lets {len(surv)} of {len(ra)} through", flush=True)
    rb = phase_b(surv[: a.max_b])
    summary = {"candidates": len(cands), "phase_a": len(ra),
               "suite": {k: sum(1 for r in ra if r["suite"] == k) for k in ("passes", "killed", "invalid")},
               "phase_b": {k: sum(1 for r in rb if r["verdict"] == k) for k in ("failing input", "no failing input", "quiet")}}
    json.dump({"summary": summary, "seed": a.seed, "phase_b": rb,
               "suite_killed": [{k: r[k] for k in ("file", "line", "old", "new")} for r in ra if r["suite"] == "killed"]},
              open(os.path.join(ROOT, "code_mutation_sweep2.json" if a.second else "code_mutation_sweep.json"), "w"), indent=1)
    print(summary)


if __name__ == "__main__":
    main()
