#!/usr/bin/env python3
"""Do the theorems constrain the model?  Each mutant is the model-level counterpart of a defect that was found or
seeded in the code: one textual edit of a file under lean/TucanModel in a scratch copy of the project, followed
by `lake build`.  A property file that still builds on a mutant that ought to contradict it would mean its
theorems are weaker than they look.  Expected: the listed property files stop building (a proof no longer goes
through); the others are unaffected.  Nothing under /verif/lean is touched; the scratch copy is removed.

Usage: model_mutants.py [mutant-id ...]      (results in model_mutants.json)"""
import json, os, re, shutil, subprocess, sys, time

ROOT = os.path.dirname(os.path.dirname(os.path.abspath(__file__)))
LEAN = os.path.join(ROOT, "lean")

MUTANTS = [
    dict(id="canon-inverse-permutation", file="TucanModel/Canon.lean",
         old="def assignCanonicalLabels (order : List Nat) : List (Nat × Nat) := order.zipIdx",
         new="def assignCanonicalLabels (order : List Nat) : List (Nat × Nat) := order.zipIdx.map fun (a, i) => (i, a)",
         expect=["C01", "C04"], why="F1: the bliss permutation applied in the inverse direction"),
    dict(id="keyword-prefix-match", file="TucanModel/Molfile.lean",
         old="if (splitOnChar '=' tok).head? == some key then do",
         new="if isInfix key ((splitOnChar '=' tok).head?.getD []) then do",
         expect=["C07"], why="F3: EXACHG=1 read as a charge (substring keyword match)"),
    dict(id="zero-kept", file="TucanModel/Molfile.lean",
         old="  | some v => if v == 0 then none else some v\n  | none => none",
         new="  | some v => some v\n  | none => none",
         expect=["C07"], why="F2 (V3000): explicit CHG=0 / RAD=0 / MASS=0 stored as attributes"),
    dict(id="v2000-zero-kept", file="TucanModel/Molfile.lean",
         old="  | some 0 => none\n  | o => o",
         new="  | some 0 => some 0\n  | o => o",
         expect=["C08"], why="F2 (V2000): M  CHG / M  RAD / M  ISO entries with value 0 stored"),
    dict(id="refine-one-round-short", file="TucanModel/Canon.lean",
         old="    if n1 == n0 then pure (r, rounds + 1) else refineLoop fuel r (rounds + 1)",
         new="    if n1 == n0 || rounds ≥ 1 then pure (r, rounds + 1) else refineLoop fuel r (rounds + 1)",
         expect=["C13"], why="seeded C13-early-stop: refinement stops before the partition is stable"),
    dict(id="wrap-at-73", file="TucanModel/Molfile.lean",
         old="  if line.length ≤ 72 then [v30Prefix ++ line]\n  else (v30Prefix ++ line.take 71 ++ ['-']) :: addV30Line (line.drop 71)",
         new="  if line.length ≤ 73 then [v30Prefix ++ line]\n  else (v30Prefix ++ line.take 72 ++ ['-']) :: addV30Line (line.drop 72)",
         expect=["C09"], why="a line of 81 characters including the newline"),
    dict(id="duplicate-attribute-accepted", file="TucanModel/Parser.lean",
         old="  if key == \"mass\" then (if a.mass.isSome then .error .tucanParser else pure { a with mass := some v })",
         new="  if key == \"mass\" then (if a.mass.isSome && a.mass != some v then .error .tucanParser else pure { a with mass := some v })",
         expect=["C10"], why="seeded C10-duplicate-attr-same-value"),
    dict(id="self-bond-accepted", file="TucanModel/Parser.lean",
         old="    if i1 == i2 then .error .tucanParser else pure (acc ++ [(i1 - 1, i2 - 1)])) []",
         new="    pure (acc ++ [(i1 - 1, i2 - 1)])) []",
         expect=["C10"], why="a self-bond no longer rejected"),
    dict(id="rad-overwrites-mass", file="TucanModel/Serialize.lean",
         old="    let av := (match n.attrs.mass with | some m => [\"mass=\".toList ++ intRepr m] | none => []) ++\n              (match n.attrs.rad with | some r => [\"rad=\".toList ++ intRepr r] | none => [])",
         new="    let av : List Str := match n.attrs.rad with\n      | some r => [\"rad=\".toList ++ intRepr r]\n"
             "      | none => (match n.attrs.mass with | some m => [\"mass=\".toList ++ intRepr m] | none => [])",
         expect=["C03", "C02"], why="seeded C03-rad-overwrites-mass: the mass of an atom with a radical is not written"),
    dict(id="d-means-mass-3", file="TucanModel/Molfile.lean",
         old="  if sym == ['D'] then (['H'], 2) else",
         new="  if sym == ['D'] then (['H'], 3) else",
         expect=["C07", "C08"], why="D read as tritium"),
    dict(id="tuples-not-normalised", file="TucanModel/Serialize.lean",
         old="  (g.edges.map fun (u, v, _) => if u ≤ v then (u, v) else (v, u)).mergeSort leNN",
         new="  (g.edges.map fun (u, v, _) => (u, v)).mergeSort leNN",
         expect=["C05"], why="a bond written as (b-a) with b > a"),
    dict(id="hill-h-before-c", file="TucanModel/Serialize.lean",
         old="  let head := if withC then symCount ['C'] c ++ (if h > 0 then symCount ['H'] h else []) else []",
         new="  let head := if withC then (if h > 0 then symCount ['H'] h else []) ++ symCount ['C'] c else []",
         expect=["C05"], why="H written before C in the sum formula"),
    dict(id="parser-sort-descending", file="TucanModel/Parser.lean",
         old="  l.mergeSort fun a b => decide (a.z.getD 0 ≤ b.z.getD 0)",
         new="  l.mergeSort fun a b => decide (a.z.getD 0 ≥ b.z.getD 0)",
         expect=["C03", "C10"], why="the parser numbers atoms by decreasing atomic number"),
    dict(id="writer-index-off-by-one", file="TucanModel/Molfile.lean",
         old="  pure (natRepr (n.id + 1) ++ ' ' :: sym ++",
         new="  pure (natRepr n.id ++ ' ' :: sym ++",
         expect=["C09"], why="atom lines numbered from 0"),
    dict(id="v2000-entry-columns-shifted", file="TucanModel/Molfile.lean",
         old="    let st := 10 + i * 8",
         new="    let st := 9 + i * 8",
         expect=["C08"], why="M  CHG entries read one column to the left"),
    dict(id="crlf-counts-twice", file="TucanModel/Py.lean",
         old="    if skipLF && c == '\\n' then splitLinesGo cur acc false r",
         new="    if false && c == '\\n' then splitLinesGo cur acc false r",
         expect=["C06"], why="\\r\\n gives an empty line between two lines"),
    dict(id="partition-by-element-only", file="TucanModel/Canon.lean",
         old="  let p ← partitionMoleculeByAttribute g .invariantCode\n  let (r, rounds) ← refinePartitions p",
         new="  let p ← partitionMoleculeByAttribute g .atomicNumber\n  let (r, rounds) ← refinePartitions p",
         expect=["C13", "C01"], why="seeded C11-rad-not-in-initial-partition: isotopes and radicals not in the initial classes"),
    dict(id="permute-result-unsorted", file="TucanModel/GraphUtils.lean",
         old="  sortMoleculeByLabel (g.relabelCopy (shuffled.zip g.labels))",
         new="  g.relabelCopy (shuffled.zip g.labels)",
         expect=["C16"], why="permute_molecule returns its atoms in the old listing order"),
    dict(id="no-renumbering", file="TucanModel/GraphUtils.lean",
         old="  let idx (k : Int) : Nat := (indexOf? k allKeys).getD 0",
         new="  let idx (k : Int) : Nat := k.toNat",
         expect=["C07"], why="seeded C07-skip-relabel: atoms keep the file's index values as labels"),
    dict(id="relabel-drops-charge", file="TucanModel/Nx.lean",
         old="  let h := g.nodes.foldl (fun h n => h.setAttrs (f n.id) n.attrs) h\n  g.edges.foldl (fun h (u, v, d) => h.addEdge (f u) (f v) d) h",
         new="  let h := g.nodes.foldl (fun h n => h.setAttrs (f n.id) { n.attrs with chg := none }) h\n  g.edges.foldl (fun h (u, v, d) => h.addEdge (f u) (f v) d) h",
         expect=["C12", "C16"], why="relabel_nodes loses the charge"),
    dict(id="relabel-drops-bond-record", file="TucanModel/Nx.lean",
         old="  g.edges.foldl (fun h (u, v, d) => h.addEdge (f u) (f v) d) h\n\n/-- `nx.set_node_attributes",
         new="  g.edges.foldl (fun h (u, v, _) => h.addEdge (f u) (f v) {}) h\n\n/-- `nx.set_node_attributes",
         expect=["C12", "C16"], why="seeded C12-bond-type-none: relabelling loses the bond records"),
    dict(id="writer-drops-charges-over-9", file="TucanModel/Molfile.lean",
         old="    | some c => if c != 0 && -15 ≤ c && c ≤ 15 then cs \" CHG=\" ++ intRepr c else []",
         new="    | some c => if c != 0 && -9 ≤ c && c ≤ 9 then cs \" CHG=\" ++ intRepr c else []",
         expect=["C09"], why="two-digit charges not written"),
    dict(id="attribute-index-off-by-one", file="TucanModel/Parser.lean",
         old="      pure (ainsert (i - 1) cur' acc)) acc) []",
         new="      pure (ainsert i cur' acc)) acc) []",
         expect=["C03", "C10"], why="attributes attached to the next atom"),
    dict(id="bond-index-bound-off-by-one", file="TucanModel/Parser.lean",
         old="    if i1 ≥ n then throw .tucanParser",
         new="    if i1 > n then throw .tucanParser",
         expect=["C10"], why="seeded C10-max-bond-index: a bond to atom n+1 passes the check"),
    dict(id="endpts-first-endpoint-only", file="TucanModel/Molfile.lean",
         old="    else pure ((numbers.drop 1).map fun e => (start, e - 1))",
         new="    else pure (((numbers.drop 1).take 1).map fun e => (start, e - 1))",
         expect=["C07"], why="a multi-attachment bond expands to its first endpoint only"),
    dict(id="attribute-blocks-descending", file="TucanModel/Serialize.lean",
         old="def writeNodeAttributes (g : Graph) : Str :=\n  let ns := g.nodes.mergeSort fun a b => decide (a.id ≤ b.id)",
         new="def writeNodeAttributes (g : Graph) : Str :=\n  let ns := g.nodes.mergeSort fun a b => decide (a.id ≥ b.id)",
         expect=["C05"], why="attribute blocks written in descending index order"),
    dict(id="tuples-descending", file="TucanModel/Serialize.lean",
         old="  (g.edges.map fun (u, v, _) => if u ≤ v then (u, v) else (v, u)).mergeSort leNN",
         new="  (g.edges.map fun (u, v, _) => if u ≤ v then (u, v) else (v, u)).mergeSort fun a b => leNN b a",
         expect=["C05"], why="tuples written in descending order"),
    dict(id="v2000-reset-without-chg-lines", file="TucanModel/Molfile.lean",
         old="  let atoms := if resetCR then atoms.map fun (k, a) => (k, { a with chg := none, rad := none }) else atoms",
         new="  let atoms := atoms.map fun (k, a) => (k, { a with chg := none, rad := none })",
         expect=["C08"], why="atom-block charge codes dropped even when no M  CHG / M  RAD line is present"),
    dict(id="text-mode-drops-lone-cr", file="TucanModel/Molfile.lean",
         old="  | '\\r' :: r => '\\n' :: universalNewlines r",
         new="  | '\\r' :: r => universalNewlines r",
         expect=["C07"], why="text-mode reading that swallows a lone carriage return (the lines of the file change)"),
    dict(id="count-one-written", file="TucanModel/Serialize.lean",
         old="def symCount (k : Str) (v : Nat) : Str := if v > 1 then k ++ natRepr v else k",
         new="def symCount (k : Str) (v : Nat) : Str := if v > 0 then k ++ natRepr v else k",
         expect=["C05"], why="a count of 1 written out (`C1H4`): not the canonical layout, and not the grammar"),
    dict(id="attr-rad-before-mass", file="TucanModel/Serialize.lean",
         old="    let av := (match n.attrs.mass with | some m => [\"mass=\".toList ++ intRepr m] | none => []) ++\n              (match n.attrs.rad with | some r => [\"rad=\".toList ++ intRepr r] | none => [])",
         new="    let av := (match n.attrs.rad with | some r => [\"rad=\".toList ++ intRepr r] | none => []) ++\n              (match n.attrs.mass with | some m => [\"mass=\".toList ++ intRepr m] | none => [])",
         expect=["C05"], why="`rad` written before `mass` inside a block: the layout theorem about the emitted string (Ast.Canonical.blockKeys) fixes the order"),
]


def sh(cmd, cwd=None, timeout=3600):
    p = subprocess.run(cmd, shell=True, cwd=cwd, stdout=subprocess.PIPE, stderr=subprocess.STDOUT, timeout=timeout)
    return p.returncode, p.stdout.decode(errors="replace")


def main():
    want = sys.argv[1:]
    results = {}
    for mu in MUTANTS:
        if want and mu["id"] not in want:
            continue
        scratch = f"/tmp/model_mutant_{os.getpid()}"
        shutil.rmtree(scratch, ignore_errors=True)
        shutil.copytree(LEAN, scratch, symlinks=True)
        try:
            path = os.path.join(scratch, mu["file"])
            src = open(path).read()
            assert src.count(mu["old"]) == 1, f"{mu['id']}: anchor text not found exactly once in {mu['file']}"
            open(path, "w").write(src.replace(mu["old"], mu["new"]))
            t = time.time()
            rc, out = sh("lake build", cwd=scratch)
            failed = sorted(set(re.findall(r"✖ \[\d+/\d+\] Building TucanProofs\.Props\.(C\d\d)", out)))
            failed_lemmas = sorted(set(re.findall(r"✖ \[\d+/\d+\] Building TucanProofs\.Lemmas\.(\w+)", out)))
            model_broken = bool(re.search(r"✖ \[\d+/\d+\] Building TucanModel", out))
            # a property file whose lemma dependencies failed does not get built at all: find those too
            rc2, out2 = sh("for p in " + " ".join(f"C{i:02d}" for i in range(1, 17)) +
                           "; do lake build TucanProofs.Props.$p >/dev/null 2>&1 && echo OK $p || echo BROKEN $p; done", cwd=scratch)
            broken = sorted(re.findall(r"BROKEN (C\d\d)", out2))
            ok = all(e in broken for e in mu["expect"]) and not model_broken
            results[mu["id"]] = {"why": mu["why"], "expected_broken": mu["expect"], "broken_props": broken,
                                 "failed_lemma_files": failed_lemmas, "model_compiles": not model_broken,
                                 "as_expected": ok, "wall_s": round(time.time() - t, 1)}
            print(f"{mu['id']:34s} expected {','.join(mu['expect']):8s} broken: {','.join(broken) or '-'}  "
                  f"(lemma files: {','.join(failed_lemmas[:4]) or '-'})  {'OK' if ok else 'UNEXPECTED'}", flush=True)
        finally:
            shutil.rmtree(scratch, ignore_errors=True)
    json.dump(results, open(os.path.join(ROOT, "model_mutants.json"), "w"), indent=1)
    sys.exit(0 if all(r["as_expected"] for r in results.values()) else 1)


if __name__ == "__main__":
    main()
