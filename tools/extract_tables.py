#!/venv/bin/python
"""Tables translator: regenerates lean/TucanModel/Generated/Tables.lean from /repo's working tree.

What is translated (data, not code):
  * ELEMENT_ATTRS (symbol -> atomic number), MOLFILE_V2000_CHARGES, detect_hydrogen_isotopes' table
  * serializer / parser attribute-key maps, graph attribute names
  * the grammar as the *executing artifact* has it: the deserialized ATN of tucanParser.py and
    tucanLexer.py is walked; the element order of with_carbon / without_carbon, the literal of every
    element rule, the lexer's literal tokens (in token-type order) and a canonical shape dump of
    every other parser rule and of the lexer's non-literal rules are emitted
  * the same data read independently from tucan.g4 (text), so that Lean can check that both agree

Exit status 0 and a file are produced even if the tree is odd; the Lean side decides what holds.
"""
from __future__ import annotations
import hashlib
import importlib
import os
import re
import sys

REPO = os.environ.get("TUCAN_REPO", "/repo")
OUT = os.path.join(os.path.dirname(os.path.dirname(os.path.abspath(__file__))), "lean", "TucanModel",
                   "Generated", "Tables.lean")


def lean_str(s: str) -> str:
    out = ['"']
    for c in s:
        if c == '"':
            out.append('\\"')
        elif c == "\\":
            out.append("\\\\")
        elif c == "\n":
            out.append("\\n")
        elif 32 <= ord(c) < 127:
            out.append(c)
        else:
            out.append("\\u{%x}" % ord(c))
    out.append('"')
    return "".join(out)


def lean_list(items, per_line=8, indent="  ") -> str:
    items = list(items)
    if not items:
        return "[]"
    lines = []
    for i in range(0, len(items), per_line):
        lines.append(indent + ", ".join(items[i:i + per_line]))
    return "[\n" + ",\n".join(lines) + "]"


# ---------------- ATN walking ----------------

def trans_label(t, literal_names, rule_names):
    from antlr4.atn.Transition import (Transition, AtomTransition, RuleTransition, EpsilonTransition,
                                       RangeTransition, SetTransition, NotSetTransition,
                                       WildcardTransition, ActionTransition, PredicateTransition,
                                       PrecedencePredicateTransition)
    if isinstance(t, RuleTransition):
        return "rule(" + rule_names[t.ruleIndex] + ")", t.followState
    if isinstance(t, AtomTransition):
        if literal_names is None:
            return "chr(%d)" % t.label_, t.target
        return "tok(" + (literal_names[t.label_] if 0 <= t.label_ < len(literal_names) else "EOF" if t.label_ == -1 else str(t.label_)) + ")", t.target
    if isinstance(t, RangeTransition):
        return "range(%d,%d)" % (t.start, t.stop), t.target
    if isinstance(t, (NotSetTransition, SetTransition)):
        items = []
        for iv in (t.label.intervals or []):
            for v in range(iv.start, iv.stop):
                if literal_names is None:
                    items.append("chr(%d)" % v)
                else:
                    items.append(literal_names[v] if 0 <= v < len(literal_names) and literal_names[v] != "<INVALID>"
                                 else "type(%d)" % v)
        kind = "notset" if isinstance(t, NotSetTransition) else "set"
        return kind + "(" + "|".join(items) + ")", t.target
    if isinstance(t, WildcardTransition):
        return "any", t.target
    if isinstance(t, ActionTransition):
        return "action", t.target
    if isinstance(t, (PredicateTransition, PrecedencePredicateTransition)):
        return "pred", t.target
    if isinstance(t, EpsilonTransition):
        return "eps", t.target
    return type(t).__name__, t.target


def rule_shape(atn, rule_index, literal_names, rule_names) -> str:
    """Canonical dump of one rule's sub-automaton: states renumbered in DFS order."""
    start = atn.ruleToStartState[rule_index]
    stop = atn.ruleToStopState[rule_index]
    order = {}
    out = []
    stack = [start]
    while stack:
        s = stack.pop()
        if s.stateNumber in order:
            continue
        order[s.stateNumber] = len(order)
        if s is stop:
            continue
        nxt = []
        for t in s.transitions:
            lab, tgt = trans_label(t, literal_names, rule_names)
            nxt.append(tgt)
        for tgt in reversed(nxt):
            stack.append(tgt)
    # second pass to print with final numbering
    seen = set()
    stack = [start]
    lines = {}
    while stack:
        s = stack.pop()
        if s.stateNumber in seen:
            continue
        seen.add(s.stateNumber)
        if s is stop:
            lines[order[s.stateNumber]] = "%d:STOP" % order[s.stateNumber]
            continue
        parts = []
        nxt = []
        for t in s.transitions:
            lab, tgt = trans_label(t, literal_names, rule_names)
            parts.append("%s>%d" % (lab, order[tgt.stateNumber]))
            nxt.append(tgt)
        lines[order[s.stateNumber]] = "%d:%s" % (order[s.stateNumber], ",".join(parts))
        for tgt in reversed(nxt):
            stack.append(tgt)
    return ";".join(lines[k] for k in sorted(lines))


def optional_chain(atn, rule_index, rule_names):
    """For a rule of the form  r1? r2? ... (optionally with mandatory leading refs), return the list of
    (rule name, optional?) in order, or None if the rule does not have that form."""
    from antlr4.atn.Transition import RuleTransition, EpsilonTransition
    from antlr4.atn.ATNState import BasicBlockStartState, BlockEndState, RuleStopState
    start = atn.ruleToStartState[rule_index]
    stop = atn.ruleToStopState[rule_index]
    seq = []
    s = start
    guard = 0
    while s is not stop:
        guard += 1
        if guard > 100000:
            return None
        ts = s.transitions
        if isinstance(s, BasicBlockStartState):
            if len(ts) != 2:
                return None
            # alt 1: eps -> state with a single rule transition -> ... -> block end
            a = ts[0].target
            if len(a.transitions) != 1 or not isinstance(a.transitions[0], RuleTransition):
                return None
            rt = a.transitions[0]
            if rt.followState is not s.endState:
                return None
            # alt 2: eps straight to block end
            if ts[1].target is not s.endState:
                return None
            seq.append((rule_names[rt.ruleIndex], True))
            s = s.endState
            continue
        if len(ts) != 1:
            return None
        t = ts[0]
        if isinstance(t, RuleTransition):
            seq.append((rule_names[t.ruleIndex], False))
            s = t.followState
        elif isinstance(t, EpsilonTransition):
            s = t.target
        else:
            return None
    return seq


def literal_of_lexer_rule(atn, rule_index):
    """A lexer rule that is a plain chain of single-character transitions denotes a literal."""
    from antlr4.atn.Transition import AtomTransition, EpsilonTransition
    start = atn.ruleToStartState[rule_index]
    stop = atn.ruleToStopState[rule_index]
    s = start
    chars = []
    guard = 0
    while s is not stop:
        guard += 1
        if guard > 1000 or len(s.transitions) != 1:
            return None
        t = s.transitions[0]
        if isinstance(t, AtomTransition):
            chars.append(chr(t.label_))
        elif not isinstance(t, EpsilonTransition):
            return None
        s = t.target
    return "".join(chars)


def g4_data(path):
    """Independent textual reading of tucan.g4."""
    txt = open(path, encoding="utf-8").read()
    txt_nc = re.sub(r"/\*.*?\*/", "", txt, flags=re.S)
    txt_nc = re.sub(r"//[^\n]*", "", txt_nc)
    rules = {}
    for m in re.finditer(r"(?m)^\s*([A-Za-z_][A-Za-z_0-9]*)\s*:\s*(.*?);", txt_nc, flags=re.S):
        rules[m.group(1)] = " ".join(m.group(2).split())
    return rules


def main():
    sys.path.insert(0, REPO)
    for k in [k for k in sys.modules if k == "tucan" or k.startswith("tucan.")]:
        del sys.modules[k]
    ea = importlib.import_module("tucan.element_attributes")
    ga = importlib.import_module("tucan.graph_attributes")
    ser = importlib.import_module("tucan.serialization")
    par = importlib.import_module("tucan.parser.parser")
    tp = importlib.import_module("tucan.parser.tucanParser").tucanParser
    tl = importlib.import_module("tucan.parser.tucanLexer").tucanLexer

    patn, latn = tp.atn, tl.atn
    prules = list(tp.ruleNames)
    lit = list(tp.literalNames)
    lrules = list(tl.ruleNames)

    elements = [(s, int(a[ga.ATOMIC_NUMBER])) for s, a in ea.ELEMENT_ATTRS.items()]

    # element rules: rule name -> literal symbol (first token transition), and whether `count?` follows
    def elem_rule(rule_name):
        idx = prules.index(rule_name)
        ch = optional_chain(patn, idx, prules)
        shape = rule_shape(patn, idx, lit, prules)
        m = re.match(r"0:eps>1;1:tok\('([^']*)'\)>2;", shape)
        return (m.group(1) if m else None), shape

    sum_rules = {}
    for rn in ("with_carbon", "without_carbon"):
        ch = optional_chain(patn, prules.index(rn), prules)
        sum_rules[rn] = ch

    elem_rule_names = []
    for rn in ("with_carbon", "without_carbon"):
        for name, _ in (sum_rules[rn] or []):
            if name not in elem_rule_names:
                elem_rule_names.append(name)
    elem_syms = {}
    elem_shapes_ok = True
    for name in elem_rule_names:
        sym, shape = elem_rule(name)
        elem_syms[name] = sym
        expect = "0:eps>1;1:tok('%s')>2;2:eps>3,eps>4;3:rule(count)>4;4:eps>5;5:STOP" % sym
        if sym is None or shape != expect:
            # keep going; record the deviating shape so that Lean sees it
            elem_shapes_ok = False
            elem_syms[name] = sym if sym is not None else "?" + name

    def seq_of(rn):
        ch = sum_rules[rn]
        if ch is None:
            return None
        return [(elem_syms.get(n, "?" + n), opt) for n, opt in ch]

    wc = seq_of("with_carbon")
    woc = seq_of("without_carbon")

    other_rules = [r for r in prules if r not in elem_rule_names and r not in ("with_carbon", "without_carbon")]
    shapes = [(r, rule_shape(patn, prules.index(r), lit, prules)) for r in other_rules]

    lex_literals = []
    lex_other = []
    for i, rn in enumerate(lrules):
        l = literal_of_lexer_rule(latn, i)
        ttype = latn.ruleToTokenType[i]
        if l is not None and rn.startswith("T__"):
            lex_literals.append((ttype, l))
        else:
            lex_other.append((rn, ttype, rule_shape(latn, i, None, lrules)))
    lex_literals.sort()

    g4 = g4_data(os.path.join(REPO, "tucan", "parser", "tucan.g4"))

    def g4_seq(rn):
        body = g4.get(rn, "")
        out = []
        for tok in body.split():
            opt = tok.endswith("?")
            name = tok.rstrip("?")
            b = g4.get(name, "")
            m = re.match(r"'([^']*)' count\?$", b)
            out.append((m.group(1) if m else "?" + name, opt))
        return out

    g4_wc, g4_woc = g4_seq("with_carbon"), g4_seq("without_carbon")
    g4_small = [(r, g4.get(r, "")) for r in other_rules]
    g4_lex = [(r, g4.get(r, "")) for r in g4 if r[:1].isupper()]

    charges = [(int(k), v.get(ga.CHG), v.get(ga.RAD)) for k, v in ea.MOLFILE_V2000_CHARGES.items()]
    hiso = []
    for s in ["D", "T", "H", "C", "d", "t", "DD", ""]:
        hiso.append((s,) + tuple(ea.detect_hydrogen_isotopes(s)))

    ser_map = list(ser._SERIALIZER_NODE_ATTRIBUTE_MAPPING.items())
    deser_map = list(par._DESERIALIZER_NODE_ATTRIBUTE_MAPPING.items())
    attr_names = [(n, getattr(ga, n)) for n in ("ATOMIC_NUMBER", "CHG", "ELEMENT_SYMBOL", "INVARIANT_CODE", "MASS",
                                                 "PARTITION", "RAD", "X_COORD", "Y_COORD", "Z_COORD", "EXPLORED",
                                                 "BOND_TYPE")]

    def opt_int(v):
        return "none" if v is None else "some (%d)" % v

    def seq_lean(seq):
        if seq is None:
            return "none"
        return "some " + lean_list(["(%s, %s)" % (lean_str(s), "true" if o else "false") for s, o in seq], 6)

    o = []
    o.append("/-! GENERATED by tools/extract_tables.py from the working tree of /repo — do not edit. -/")
    o.append("namespace Tucan.Tables\n")
    o.append("/-- `ELEMENT_ATTRS`: symbol and atomic number, in dictionary order -/")
    o.append("def elementTable : List (String × Nat) := " +
             lean_list(["(%s, %d)" % (lean_str(s), z) for s, z in elements], 8) + "\n")
    o.append("/-- `with_carbon` as the parser's ATN has it: (symbol, optional?) in order; `none` if the rule is not a chain -/")
    o.append("def atnWithCarbon : Option (List (String × Bool)) := " + seq_lean(wc) + "\n")
    o.append("def atnWithoutCarbon : Option (List (String × Bool)) := " + seq_lean(woc) + "\n")
    o.append("/-- every element rule of the ATN has the shape  'Sym' count?  -/")
    o.append("def atnElementRulesWellShaped : Bool := " + ("true" if elem_shapes_ok else "false") + "\n")
    o.append("/-- the same two rules as `tucan.g4` (text) spells them -/")
    o.append("def g4WithCarbon : Option (List (String × Bool)) := " + seq_lean(g4_wc) + "\n")
    o.append("def g4WithoutCarbon : Option (List (String × Bool)) := " + seq_lean(g4_woc) + "\n")
    o.append("/-- canonical shape dump of every other parser rule of the ATN -/")
    o.append("def atnRuleShapes : List (String × String) := " +
             lean_list(["(%s, %s)" % (lean_str(r), lean_str(s)) for r, s in shapes], 1) + "\n")
    o.append("/-- the same rules as `tucan.g4` (text) spells them -/")
    o.append("def g4Rules : List (String × String) := " +
             lean_list(["(%s, %s)" % (lean_str(r), lean_str(s)) for r, s in g4_small], 1) + "\n")
    o.append("def g4LexerRules : List (String × String) := " +
             lean_list(["(%s, %s)" % (lean_str(r), lean_str(s)) for r, s in g4_lex], 1) + "\n")
    o.append("/-- literal tokens of the lexer ATN, in token-type order -/")
    o.append("def lexLiterals : List String := " + lean_list([lean_str(l) for _, l in lex_literals], 12) + "\n")
    o.append("/-- the parser's `literalNames` (quotes stripped), for cross-checking token types -/")
    o.append("def parserLiteralNames : List String := " +
             lean_list([lean_str(x[1:-1]) for x in lit if x.startswith("'")], 12) + "\n")
    o.append("/-- non-literal lexer rules: name, token type, shape -/")
    o.append("def lexOtherRules : List (String × Nat × String) := " +
             lean_list(["(%s, %d, %s)" % (lean_str(r), t, lean_str(s)) for r, t, s in lex_other], 1) + "\n")
    o.append("/-- `MOLFILE_V2000_CHARGES`: code, chg, rad -/")
    o.append("def v2000Charges : List (Int × Option Int × Option Int) := " +
             lean_list(["(%d, %s, %s)" % (k, opt_int(c), opt_int(r)) for k, c, r in charges], 4) + "\n")
    o.append("/-- samples of `detect_hydrogen_isotopes`: input, symbol, mass -/")
    o.append("def hydrogenIsotopeSamples : List (String × String × Int) := " +
             lean_list(["(%s, %s, %d)" % (lean_str(a), lean_str(b), c) for a, b, c in hiso], 4) + "\n")
    o.append("def serializerKeys : List (String × String) := " +
             lean_list(["(%s, %s)" % (lean_str(a), lean_str(b)) for a, b in ser_map], 4) + "\n")
    o.append("def deserializerKeys : List (String × String) := " +
             lean_list(["(%s, %s)" % (lean_str(a), lean_str(b)) for a, b in deser_map], 4) + "\n")
    o.append("def attributeNames : List (String × String) := " +
             lean_list(["(%s, %s)" % (lean_str(a), lean_str(b)) for a, b in attr_names], 4) + "\n")
    o.append("end Tucan.Tables")
    text = "\n".join(o) + "\n"
    os.makedirs(os.path.dirname(OUT), exist_ok=True)
    old = open(OUT).read() if os.path.exists(OUT) else None
    if old != text:
        with open(OUT, "w") as f:
            f.write(text)
        print("tables: regenerated", OUT)
    else:
        print("tables: unchanged")


if __name__ == "__main__":
    main()
