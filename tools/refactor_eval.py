#!/usr/bin/env python3
"""Run all quick checks against every behaviour-preserving rewrite in refactorings/rNN.diff (each keeps all
properties true): apply to /repo, run the 16 checks, undo.  Reports per patch which checks raise what."""
import glob, json, os, subprocess, sys, time
from concurrent.futures import ThreadPoolExecutor

ROOT = os.path.dirname(os.path.dirname(os.path.abspath(__file__)))
PROPS = [f"C{i:02d}" for i in range(1, 17)]

def sh(cmd, cwd=None, timeout=3000):
    p = subprocess.run(cmd, shell=True, cwd=cwd, stdout=subprocess.PIPE, stderr=subprocess.STDOUT, timeout=timeout)
    return p.returncode, p.stdout.decode(errors="replace")

def check(prop):
    rc, out = sh(f"VERIF_EVIDENCE_DIR=/tmp/verif_scratch_evidence /venv/bin/python harness/check.py --property {prop} --tier quick", cwd=ROOT)
    v = [l for l in out.splitlines() if l.startswith("VIOLATION") or l.startswith("  ")]
    return prop, rc, v

def main():
    want = sys.argv[1:]
    rc, out = sh("git status --porcelain", cwd="/repo")
    assert not out.strip(), "/repo is not clean: " + out
    result = {}
    for patch in sorted(glob.glob(os.path.join(ROOT, "refactorings", "[rs][0-9]*.diff"))):
        name = os.path.basename(patch)[:-5]
        if want and name not in want:
            continue
        rc, out = sh(f"git apply {patch}", cwd="/repo")
        assert rc == 0, (name, out)
        try:
            with ThreadPoolExecutor(6) as ex:
                res = list(ex.map(check, PROPS))
        finally:
            sh("git checkout -- .", cwd="/repo")
        alarms = {p: v for p, rc, v in res if rc != 0}
        result[name] = alarms
        print(f"{name}: " + ("quiet" if not alarms else "; ".join(f"{p}: {' | '.join(x.strip()[:150] for x in v[:3])}" for p, v in alarms.items())), flush=True)
    path = os.path.join(ROOT, "refactorings", "result.json")
    if want and os.path.exists(path):
        old = json.load(open(path))       # a partial run updates the entries it re-ran
        old.update(result)
        result = dict(sorted(old.items()))
    json.dump(result, open(path, "w"), indent=1)

if __name__ == "__main__":
    main()
