#!/usr/bin/env python3
"""Which lines and branches of /repo/tucan do the quick workloads execute?  A line no workload reaches is a line where a
change is invisible to the correspondence and to the probes, whatever the theorems say about the model.  Runs every quick check
under coverage.py (in-process workloads; the C14 worker processes are not traced), combines the data and writes
coverage_audit.json.  Scratch data under /tmp is removed.   Usage: coverage_audit.py [Cxx ...]"""
import json, os, shutil, subprocess, sys, tempfile

ROOT = os.path.dirname(os.path.dirname(os.path.abspath(__file__)))
PROPS = [f"C{i:02d}" for i in range(1, 17) if i != 14]
OMIT = "*/parser/tucanLexer.py,*/parser/tucanParser.py,*/parser/tucanListener.py,*/visualization.py,*/test_utils.py"


def main():
    props = sys.argv[1:] or PROPS
    d = tempfile.mkdtemp(prefix="tucan_cov_")
    data = os.path.join(d, ".coverage")
    try:
        for p in props:
            r = subprocess.run(["/venv/bin/python", "-m", "coverage", "run", "--branch", "--source=/repo/tucan", "--parallel-mode",
                                f"--data-file={data}", "harness/check.py", "--property", p, "--tier", "quick"],
                               cwd=ROOT, stdout=subprocess.PIPE, stderr=subprocess.STDOUT)
            print(p, "rc=%d" % r.returncode, flush=True)
        subprocess.run(["/venv/bin/python", "-m", "coverage", "combine", f"--data-file={data}", d], cwd=d,
                       stdout=subprocess.PIPE, stderr=subprocess.STDOUT)
        out = os.path.join(d, "cov.json")
        subprocess.run(["/venv/bin/python", "-m", "coverage", "json", f"--data-file={data}", "--omit", OMIT, "-o", out], cwd=d,
                       stdout=subprocess.PIPE, stderr=subprocess.STDOUT)
        rep = json.load(open(out))
        res = {"checks": props, "omitted": OMIT.split(","), "files": {}}
        for f, v in sorted(rep["files"].items()):
            s = v["summary"]
            res["files"][f.replace("/repo/", "")] = {
                "statements": s["num_statements"], "missing_lines": v["missing_lines"],
                "branches": s.get("num_branches", 0), "missing_branches": v.get("missing_branches", [])}
        t = rep["totals"]
        res["totals"] = {"statements": t["num_statements"], "missing": t["missing_lines"], "branches": t.get("num_branches", 0),
                         "missing_branches": t.get("missing_branches", 0), "percent": round(t["percent_covered"], 2)}
        json.dump(res, open(os.path.join(ROOT, "coverage_audit.json"), "w"), indent=1)
        for f, v in res["files"].items():
            if v["missing_lines"] or v["missing_branches"]:
                print(f"  {f}: lines {v['missing_lines']} branches {v['missing_branches']}")
        print("totals:", res["totals"])
    finally:
        shutil.rmtree(d, ignore_errors=True)


if __name__ == "__main__":
    main()
