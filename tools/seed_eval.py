#!/usr/bin/env python3
"""Confirm a seeded change (made by an independent sub-agent in a scratch worktree) and run the checks
against it:  seed_eval.py <seed-id> <worktree> <property> [<other properties to run> ...]
1. in the worktree: the test-suite passes with the change, the demonstration fails with it and passes without;
2. apply the patch to /repo, run the quick check(s), undo it straight afterwards;
3. store patch.diff, demo.py, notes.md and meta.json under /verif/seeded/<seed-id>/."""
import json, os, shutil, subprocess, sys, time

def sh(cmd, cwd=None, env=None, timeout=3600):
    p = subprocess.run(cmd, shell=True, cwd=cwd, env=env, stdout=subprocess.PIPE, stderr=subprocess.STDOUT, timeout=timeout)
    return p.returncode, p.stdout.decode(errors="replace")

def main():
    sid, wt, prop = sys.argv[1], sys.argv[2], sys.argv[3]
    others = sys.argv[4:]
    mut = os.path.join(wt, "_mutation")
    env = dict(os.environ, PYTHONPATH=wt)
    meta = {"id": sid, "breaks_property": prop, "worktree": wt, "ran": []}
    # the agent's _mutation/patch.diff is the source of truth (the worktrees share refs/stash, so no stash here)
    patch = open(os.path.join(mut, "patch.diff")).read()
    sh("git checkout -- tucan", cwd=wt)
    rc, out = sh("git apply _mutation/patch.diff", cwd=wt)
    assert rc == 0, out
    rc, out = sh("/venv/bin/python -c 'import tucan; print(tucan.__file__)'", cwd=wt, env=env)
    assert wt in out, out
    rc, out = sh("/venv/bin/python -m pytest -q -p no:cacheprovider -q 2>&1 | tail -1", cwd=wt, env=env)
    meta["suite_with_change"] = out.strip()
    rc1, out1 = sh("/venv/bin/python _mutation/demo.py", cwd=wt, env=env)
    sh("git apply -R _mutation/patch.diff", cwd=wt)
    try:
        rc, st = sh("git status --porcelain -- tucan", cwd=wt)
        assert not st.strip(), st
        rc0, out0 = sh("/venv/bin/python _mutation/demo.py", cwd=wt, env=env)
    finally:
        sh("git apply _mutation/patch.diff", cwd=wt)
    meta["demo_rc_with_change"], meta["demo_rc_without_change"] = rc1, rc0
    meta["demo_output_with_change"] = out1[-1500:]
    confirmed = ("passed" in meta["suite_with_change"] and "failed" not in meta["suite_with_change"] and rc1 != 0 and rc0 == 0)
    meta["confirmed"] = confirmed
    print(f"[{sid}] suite: {meta['suite_with_change']} | demo with change rc={rc1}, without rc={rc0} | confirmed={confirmed}")
    d = os.path.join("/verif/seeded", sid)
    os.makedirs(d, exist_ok=True)
    open(os.path.join(d, "patch.diff"), "w").write(patch)
    for f in ("demo.py", "notes.md"):
        if os.path.exists(os.path.join(mut, f)):
            shutil.copy(os.path.join(mut, f), os.path.join(d, f))
    if confirmed:
        # run the checks against it
        rc, out = sh("git status --porcelain", cwd="/repo")
        assert not out.strip(), "/repo is not clean: " + out
        rc, out = sh(f"git apply {os.path.join(d, 'patch.diff')}", cwd="/repo")
        assert rc == 0, out
        try:
            for p in [prop] + others:
                t = time.time()
                rc, out = sh(f"VERIF_EVIDENCE_DIR=/tmp/verif_scratch_evidence /venv/bin/python harness/check.py --property {p} --tier quick", cwd="/verif", timeout=3000)
                lines = [l for l in out.splitlines() if l.startswith("VIOLATION") or l.startswith("  ") or l.startswith("[")]
                meta["ran"].append({"check": p, "rc": rc, "wall_s": round(time.time() - t, 1), "output": lines[-6:]})
                print(f"   check {p}: rc={rc}  " + " | ".join(l.strip()[:160] for l in lines[:3]))
        finally:
            sh("git checkout -- .", cwd="/repo")
            rc, out = sh("git status --porcelain", cwd="/repo")
            assert not out.strip(), out
    meta["detected_by"] = [r["check"] for r in meta["ran"] if r["rc"] == 1]
    json.dump(meta, open(os.path.join(d, "meta.json"), "w"), indent=1)

if __name__ == "__main__":
    main()
