#!/usr/bin/env python3
"""Mutation analysis of the Lean model against the property theorems.

Generates small syntactic mutants of the model files (relational operators, off-by-one constants, boolean
connectives, swapped branches, dropped list operations), builds each in a scratch copy, and classifies it:
  invalid   – the model itself no longer compiles (not a mutant);
  killed    – at least one property file stops building (some theorem contradicts the mutant);
  survived  – everything still builds: either the mutation is behaviour-preserving / concerns behaviour no
              property speaks about, or a theorem is weaker than it looks.  Survivors are listed for review.
Usage: model_mutation_sweep.py [--n 60] [--seed 0] [--jobs 4] [--files Canon,Serialize,...] | --survivors
Writes model_mutation_sweep.json."""
import argparse, json, os, random, re, shutil, subprocess, sys, time
from concurrent.futures import ThreadPoolExecutor

ROOT = os.path.dirname(os.path.dirname(os.path.abspath(__file__)))
LEAN = os.path.join(ROOT, "lean")
FILES = ["Canon", "Serialize", "GraphUtils", "Nx", "Parser", "Molfile"]

OPS = [
    (r" ≤ ", " < "), (r" < ", " ≤ "), (r" ≥ ", " > "), (r" > ", " ≥ "),
    (r" == ", " != "), (r" != ", " == "),
    (r" && ", " || "), (r" \|\| ", " && "),
    (r" \+ 1\b", " + 2"), (r" \+ 1\b", ""), (r" - 1\b", ""), (r" - 1\b", " - 2"),
    (r"\.take (\d+)", lambda m: f".take {int(m.group(1)) + 1}"), (r"\.drop (\d+)", lambda m: f".drop {int(m.group(1)) + 1}"),
    (r"\b(\d\d?)\b", lambda m: str(int(m.group(1)) + 1)),
    (r"\.reverse\b", ""), (r"\bsome \(([^()]*)\)", r"none"), (r"\.isSome\b", ".isNone"), (r"\.isNone\b", ".isSome"),
    (r"\.isEmpty\b", ".isEmpty.not"), (r" \+\+ ", " ++ [] ++ "),
    (r"\bthen (.+?) else (.+)$", r"then \2 else \1"),
]


def sh(cmd, cwd=None, timeout=3600):
    p = subprocess.run(cmd, shell=True, cwd=cwd, stdout=subprocess.PIPE, stderr=subprocess.STDOUT, timeout=timeout)
    return p.returncode, p.stdout.decode(errors="replace")


def candidates(files):
    out = []
    for f in files:
        path = os.path.join(LEAN, "TucanModel", f + ".lean")
        lines = open(path).read().split("\n")
        in_comment = False
        for i, line in enumerate(lines):
            s = line.strip()
            if s.startswith("/-"):
                in_comment = not s.endswith("-/")
                continue
            if in_comment:
                if s.endswith("-/"):
                    in_comment = False
                continue
            if not s or s.startswith("--") or s.startswith("import") or s.startswith("namespace") or s.startswith("open ") \
                    or s.startswith("end ") or s.startswith("deriving") or s.startswith("termination_by") or s.startswith("decreasing_by"):
                continue
            code = line.split("--")[0]
            for k, (pat, rep) in enumerate(OPS):
                for m in re.finditer(pat, code):
                    new = code[:m.start()] + (m.expand(rep) if isinstance(rep, str) else rep(m)) + code[m.end():]
                    if new != code and new.strip():
                        out.append({"file": f, "line": i + 1, "op": k, "old": line, "new": new + line[len(code):]})
    return out


def run_one(args):
    idx, mu = args
    scratch = f"/tmp/mms_{os.getpid()}_{idx}"
    shutil.rmtree(scratch, ignore_errors=True)
    shutil.copytree(LEAN, scratch, symlinks=True)
    try:
        path = os.path.join(scratch, "TucanModel", mu["file"] + ".lean")
        lines = open(path).read().split("\n")
        assert lines[mu["line"] - 1] == mu["old"]
        lines[mu["line"] - 1] = mu["new"]
        open(path, "w").write("\n".join(lines))
        t = time.time()
        rc, out = sh("lake build TucanModel", cwd=scratch)
        if rc != 0:
            return dict(mu, verdict="invalid", wall_s=round(time.time() - t, 1))
        rc, out = sh("lake build", cwd=scratch)
        if rc == 0:
            return dict(mu, verdict="survived", wall_s=round(time.time() - t, 1))
        failed = sorted(set(re.findall(r"✖ \[\d+/\d+\] Building TucanProofs\.(?:Lemmas|Props)\.(\w+)", out)))
        return dict(mu, verdict="killed", failed=failed[:6], wall_s=round(time.time() - t, 1))
    except Exception as e:
        return dict(mu, verdict="error", error=repr(e)[:200])
    finally:
        shutil.rmtree(scratch, ignore_errors=True)


def main():
    ap = argparse.ArgumentParser()
    ap.add_argument("--n", type=int, default=60)
    ap.add_argument("--seed", type=int, default=0)
    ap.add_argument("--jobs", type=int, default=4)
    ap.add_argument("--files", default=",".join(FILES))
    ap.add_argument("--survivors", action="store_true", help="re-run the mutants recorded as survived (after theorems were added)")
    a = ap.parse_args()
    out = os.path.join(ROOT, "model_mutation_sweep.json")
    if a.survivors:
        prev = json.load(open(out)) if os.path.exists(out) else []
        cur = {(c["file"], c["line"], c["new"]): c for c in candidates(FILES)}
        chosen = [cur[(r["file"], r["line"], r["new"])] for r in prev
                  if r["verdict"] == "survived" and (r["file"], r["line"], r["new"]) in cur]
        cands = chosen
    else:
        cands = candidates(a.files.split(","))
        rng = random.Random(a.seed)
        rng.shuffle(cands)
        chosen = cands[: a.n]
    print(f"{len(cands)} candidate mutants, running {len(chosen)}", flush=True)
    results = []
    with ThreadPoolExecutor(a.jobs) as ex:
        for r in ex.map(run_one, list(enumerate(chosen))):
            results.append(r)
            tag = r["verdict"] + (" " + ",".join(r.get("failed", [])) if r["verdict"] == "killed" else "")
            print(f"{r['file']}:{r['line']:<4d} {tag:40s} | {r['old'].strip()[:70]}  ==>  {r['new'].strip()[:70]}", flush=True)
    prev = json.load(open(out)) if os.path.exists(out) else []
    key = lambda r: (r["file"], r["line"], r["new"])
    seen = {key(r) for r in results}
    json.dump([r for r in prev if key(r) not in seen] + results, open(out, "w"), indent=1)
    c = {v: sum(1 for r in results if r["verdict"] == v) for v in ("invalid", "killed", "survived", "error")}
    print(c)


if __name__ == "__main__":
    main()
