import TucanModel.Codec
import TucanModel.Canon
import TucanModel.Serialize
import TucanModel.Parser
import TucanModel.Molfile
/-!
# Operations of the line protocol

`runLine` decodes one operation, runs the model and prints the result in canonical text form.
Fields of a result are separated by ` ; `.
-/
namespace Tucan.Ops
open Tucan Tucan.Codec

def attrName : P AttrName := do
  let t ← next
  match t with
  | "inv" => pure .invariantCode
  | "part" => pure .partition
  | "z" => pure .atomicNumber
  | _ => throw s!"bad attribute {t}"

def parts (g : Graph) : String := "[" ++ ",".intercalate (g.nodes.map fun n => showOpt showInt n.attrs.part) ++ "]"

def fields (l : List String) : String := " ; ".intercalate l

/-- code points (surrogates excluded) satisfying `p`, as `a-b` ranges -/
def charRanges (p : Char → Bool) : String := Id.run do
  let mut out : Array String := #[]
  let mut start : Option Nat := none
  for n in [0:0x110000] do
    let ok := !(0xD800 ≤ n && n ≤ 0xDFFF) && p (Char.ofNat n)
    match start, ok with
    | none, true => start := some n
    | some a, false => out := out.push s!"{a}-{n - 1}"; start := none
    | _, _ => pure ()
  match start with
  | some a => out := out.push s!"{a}-{0x10FFFF}"
  | none => pure ()
  return ",".intercalate out.toList

def runOp : P String := do
  let op ← next
  match op with
  | "PARTITION" =>
    let a ← attrName; let g ← graph
    match partitionMoleculeByAttribute g a with
    | .ok r => pure (showGraph r)
    | .error e => pure (showErr e)
  | "REFINE" =>
    let g ← graph
    match refinePartitions g with
    | .ok (r, rounds) => pure (fields [s!"rounds={rounds}", showGraph r])
    | .error e => pure (showErr e)
  | "CANON" =>
    let g ← graph; let order ← natList
    match canonicalizeWith g (fun _ => order) with
    | .ok (c, r, rounds) => pure (fields [s!"rounds={rounds}", "parts=" ++ parts r, showGraph c])
    | .error e => pure (showErr e)
  | "FINAL" =>
    let g ← graph
    match assignFinalLabels g with
    | .ok (r, post, fl) => pure (fields ["final=" ++ showPairs fl, showGraph r, "post=" ++ showGraph post])
    | .error e => pure (showErr e)
  | "SORTBY" =>
    let a ← attrName; let g ← graph
    match sortMoleculeByAttribute g a with
    | .ok r => pure (showGraph r)
    | .error e => pure (showErr e)
  | "SERIALIZE" =>
    let g ← graph
    match serializeMolecule g with
    | .ok (s, post) => pure (fields [showStr s, "post=" ++ showGraph post])
    | .error e => pure (showErr e)
  | "GFM" =>
    let atoms ← atomDict; let bonds ← bondDict
    match graphFromMolecule atoms bonds with
    | .ok (g, post) => pure (fields [showGraph g, "post=" ++ showAtomDict post])
    | .error e => pure (showErr e)
  | "PERMUTE" =>
    let g ← graph
    let k ← nat
    let shuffles ← many k natList
    match permuteMolecule g shuffles with
    | .ok r => pure (showGraph r)
    | .error e => pure (showErr e)
  | "PARSE" =>
    let t ← str
    match graphFromTucan t with
    | .ok g => pure (showGraph g)
    | .error e => pure (showErr e)
  | "LEX" =>
    let t ← str
    match lex t with
    | some ts => pure (showStrList (ts.map Tok.text))
    | none => pure (showErr .tucanParser)
  | "V3000" =>
    let ls ← strList
    match graphAttributesV3000 ls with
    | .ok (a, b) => pure (fields [showAtomDict a, showBondDict b])
    | .error e => pure (showErr e)
  | "V2000" =>
    let ls ← strList
    match graphAttributesV2000 ls with
    | .ok (a, b) => pure (fields [showAtomDict a, showBondDict b])
    | .error e => pure (showErr e)
  | "MOLTEXT" =>
    let t ← str
    match graphFromMolfileText t with
    | .ok g => pure (showGraph g)
    | .error e => pure (showErr e)
  | "FILE" =>
    let t ← str
    match graphFromFileContent t with
    | .ok g => pure (showGraph g)
    | .error e => pure (showErr e)
  | "FILEPATH" =>
    let sfx ← str
    let t ← str
    match graphFromFile sfx t with
    | .ok g => pure (showGraph g)
    | .error e => pure (showErr e)
  | "SPLICE" =>
    let ls ← strList
    match concatLinesWithDash ls with
    | .ok r => pure (showStrList r)
    | .error e => pure (showErr e)
  | "TOKENIZE" =>
    let ls ← strList
    match tokenizeLines ls with
    | .ok r => pure ("[" ++ ",".intercalate (r.map showStrList) ++ "]")
    | .error e => pure (showErr e)
  | "WRAP" =>
    let l ← str
    pure (showStrList (addV30Line l))
  | "WRITE" =>
    let g ← graph
    match graphToMolfileLines g "<HEADER>".toList with
    | .ok r => pure (showStrList r)
    | .error e => pure (showErr e)
  | "ATTRLINE" =>
    let l ← str; let atoms ← atomDict
    match parseAtomValueAssignments l atoms with
    | .ok r => pure ("[" ++ ",".intercalate (r.map fun (a, b) => s!"{a}:{b}") ++ "]")
    | .error e => pure (showErr e)
  | "CHARCLASS" =>
    pure (fields ["space=" ++ charRanges isPySpace, "break=" ++ charRanges isLineBreak,
      "numspace=" ++ charRanges (fun c => foldChar c == ' ' || isCSpace (foldChar c)),
      "digits=" ++ ",".intercalate ((List.range 10).map fun d =>
        charRanges (fun c => foldChar c == Char.ofNat (48 + d)))])
  | "INT" =>
    let t ← str
    match pyInt t with
    | .ok v => pure (showInt v)
    | .error e => pure (showErr e)
  | "FLOATOK" =>
    let t ← str
    pure (if pyFloatOk t then "true" else "false")
  | "SPLITLINES" =>
    let t ← str
    pure (showStrList (splitLines t))
  | "RSTRIP" =>
    let t ← str
    pure (showStr (rstrip t))
  | "SPLITWS" =>
    let t ← str
    pure (showStrList (splitWs t))
  | "COPY" =>
    let g ← graph
    pure (showGraph g.copy)
  | "ECHO" =>
    let g ← graph
    pure (showGraph g)
  | _ => throw s!"unknown op {op}"

def runLine (line : String) : String :=
  match (runOp.run (line.splitOn " ")) with
  | .ok (s, []) => s
  | .ok (_, rest) => s!"PROTOCOL-ERROR trailing tokens: {rest.length}"
  | .error e => s!"PROTOCOL-ERROR {e}"

end Tucan.Ops
