import TucanModel.GraphUtils
import TucanModel.Generated.Tables
/-!
# `tucan/parser/parser.py` with the ANTLR lexer and parser it drives

The lexer and the recogniser are written from the grammar (maximal munch over the literal tokens
plus `GREATER_THAN_NINE`; a deterministic recursive-descent reader of `tucan.g4`'s rules).  The
tables they use (`Tables.lexLiterals`, the element order of `with_carbon` / `without_carbon`, the
element table) are regenerated from the working tree on every run.
-/
namespace Tucan

/-! ## Lexer -/

inductive Tok
  | lit (s : Str)        -- a literal token (symbols, punctuation, `mass`, `rad`, single digits)
  | big (ds : Str)       -- GREATER_THAN_NINE
  deriving DecidableEq, Repr, Inhabited

def Tok.text : Tok → Str
  | .lit s => s
  | .big s => s

def literals : List Str := Tables.lexLiterals.map String.toList

/-- length of the longest literal that is a prefix of `s` (0 = none) -/
def longestLiteral (lits : List Str) (s : Str) : Nat :=
  lits.foldl (fun best l => if l.isPrefixOf s && l.length > best then l.length else best) 0

/-- length of the longest match of `[1-9][0-9]+` at the start of `s` (0 = none) -/
def bigNumberLen (s : Str) : Nat :=
  match s with
  | c :: r =>
    if '1' ≤ c && c ≤ '9' then
      let k := (r.takeWhile isDigit).length
      if k ≥ 1 then k + 1 else 0
    else 0
  | [] => 0

/-- maximal munch; `none` is a token recognition error -/
def lexGo (lits : List Str) : Nat → Str → Option (List Tok)
  | _, [] => some []
  | 0, _ :: _ => none
  | fuel + 1, s@(_ :: _) =>
    let l := longestLiteral lits s
    let b := bigNumberLen s
    if b > l then (lexGo lits fuel (s.drop b)).map (Tok.big (s.take b) :: ·)
    else if l > 0 then (lexGo lits fuel (s.drop l)).map (Tok.lit (s.take l) :: ·)
    else none

def lex (s : Str) : Option (List Tok) := lexGo literals s.length s

/-! ## Recogniser (syntax tree = the data the listener reads) -/

structure Ast where
  formula : List (Str × Option Str)        -- symbol, count text
  tuples  : List (Str × Str)               -- index texts
  attrs   : List (Str × List (Str × Str))  -- index text, (key, value text)
  deriving DecidableEq, Repr, Inhabited

def digit1to9 (s : Str) : Bool := match s with
  | [c] => '1' ≤ c && c ≤ '9'
  | _ => false

/-- `greater_than_zero` -/
def isGtZero : Tok → Bool
  | .lit s => digit1to9 s
  | .big _ => true

/-- `greater_than_one` -/
def isGtOne : Tok → Bool
  | .lit s => digit1to9 s && s != ['1']
  | .big _ => true

def withCarbonOrder : List Str := ((Tables.atnWithCarbon.getD []).map (·.1.toList))
def withoutCarbonOrder : List Str := ((Tables.atnWithoutCarbon.getD []).map (·.1.toList))

/-- `x? y? z? …` against the token stream: every element rule is `'Sym' count?` -/
def parseElems : List Str → List Tok → List (Str × Option Str) × List Tok
  | [], ts => ([], ts)
  | e :: es, ts =>
    match ts with
    | .lit s :: rest =>
      if s == e then
        match rest with
        | c :: rest' =>
          if isGtOne c then
            let (r, ts') := parseElems es rest'
            ((e, some c.text) :: r, ts')
          else
            let (r, ts') := parseElems es rest
            ((e, none) :: r, ts')
        | [] => ([(e, none)], [])
      else parseElems es ts
    | _ => ([], ts)

/-- `sum_formula : with_carbon | without_carbon` -/
def parseFormula (ts : List Tok) : Option (List (Str × Option Str) × List Tok) :=
  match ts with
  | .lit ['C'] :: _ =>
    match withCarbonOrder with
    | c :: _ => if c == ['C'] then some (parseElems withCarbonOrder ts) else none
    | [] => none
  | _ => some (parseElems withoutCarbonOrder ts)

/-- `tuple*` -/
def parseTuples : List Tok → Option (List (Str × Str) × List Tok)
  | .lit ['('] :: a :: .lit ['-'] :: b :: .lit [')'] :: rest =>
    if isGtZero a && isGtZero b then
      (parseTuples rest).map fun (r, ts) => ((a.text, b.text) :: r, ts)
    else none
  | .lit ['('] :: _ => none
  | ts => some ([], ts)

def isKey (t : Tok) : Bool := t == .lit "mass".toList || t == .lit "rad".toList

/-- `(',' node_property)* ')'` -/
def parseProps : List Tok → Option (List (Str × Str) × List Tok)
  | .lit [')'] :: rest => some ([], rest)
  | .lit [','] :: k :: .lit ['='] :: v :: rest =>
    if isKey k && isGtZero v then (parseProps rest).map fun (r, ts) => ((k.text, v.text) :: r, ts)
    else none
  | _ => none

/-- `node_attribute*` -/
def parseAttrs : List Tok → Option (List (Str × List (Str × Str)) × List Tok)
  | .lit ['('] :: i :: .lit [':'] :: k :: .lit ['='] :: v :: rest =>
    if isGtZero i && isKey k && isGtZero v then
      match parseProps rest with
      | some (ps, rest') =>
        if rest'.length < rest.length then
          (parseAttrs rest').map fun (r, ts) => ((i.text, (k.text, v.text) :: ps) :: r, ts)
        else none
      | none => none
    else none
  | .lit ['('] :: _ => none
  | ts => some ([], ts)
termination_by ts => ts.length
decreasing_by simp_all; omega

/-- `tucan : sum_formula '/' tuples ('/' node_attributes)? EOF` -/
def parseTucan (ts : List Tok) : Option Ast := do
  let (f, ts) ← parseFormula ts
  match ts with
  | .lit ['/'] :: ts =>
    let (tu, ts) ← parseTuples ts
    match ts with
    | [] => some ⟨f, tu, []⟩
    | .lit ['/'] :: ts =>
      let (ats, ts) ← parseAttrs ts
      if ts.isEmpty then some ⟨f, tu, ats⟩ else none
    | _ => none
  | _ => none

/-! ## Listener and `to_graph` -/

def elementZ (sym : Str) : Option Nat := alookup (String.ofList sym) Tables.elementTable

/-- `_DESERIALIZER_NODE_ATTRIBUTE_MAPPING[key]` -/
def attrKeyOf (k : Str) : Option String := alookup (String.ofList k) Tables.deserializerKeys

/-- the integer conversion the listener applies to index, count and value texts.  A literal of more
than 4300 digits makes CPython's `int` raise `ValueError`; the listener reports it as its own
exception type. -/
def listenerInt (s : Str) : PyM Int :=
  match pyInt s with
  | .ok i => .ok i
  | .error _ => .error .tucanParser

structure ListenerState where
  atoms : List Atom := []
  bonds : List (Int × Int) := []
  nodeAttrs : List (Int × Atom) := []   -- `_node_attributes`: index -> {mass?, rad?}

def listenFormula (f : List (Str × Option Str)) : PyM (List Atom) :=
  f.foldlM (fun acc (sym, cnt) => do
    let count ← match cnt with
      | none => pure (1 : Int)
      | some c => listenerInt c
    let z ← match elementZ sym with
      | some z => pure z
      | none => .error .keyError
    let a : Atom := { sym := some sym, z := some (z : Int), part := some 0 }
    pure (acc ++ List.replicate count.toNat a)) []

def listenTuples (tu : List (Str × Str)) : PyM (List (Int × Int)) :=
  tu.foldlM (fun acc (a, b) => do
    let i1 ← listenerInt a
    let i2 ← listenerInt b
    if i1 == i2 then .error .tucanParser else pure (acc ++ [(i1 - 1, i2 - 1)])) []

def setAttr (key : String) (v : Int) (a : Atom) : PyM Atom :=
  if key == "mass" then (if a.mass.isSome then .error .tucanParser else pure { a with mass := some v })
  else if key == "rad" then (if a.rad.isSome then .error .tucanParser else pure { a with rad := some v })
  else .error .other

def listenAttrs (ats : List (Str × List (Str × Str))) : PyM (List (Int × Atom)) :=
  ats.foldlM (fun acc (idx, props) =>
    props.foldlM (fun acc (k, v) => do
      let i ← listenerInt idx
      let value ← listenerInt v
      let key ← match attrKeyOf k with
        | some key => pure key
        | none => .error .keyError
      let cur := (alookup (i - 1) acc).getD {}
      let cur' ← setAttr key value cur
      pure (ainsert (i - 1) cur' acc)) acc) []

/-- stable sort by atomic number (`sorted(self._atoms, key=...)`) -/
def sortAtomsByZ (l : List Atom) : List Atom :=
  l.mergeSort fun a b => decide (a.z.getD 0 ≤ b.z.getD 0)

/-- `to_graph()` -/
def toGraph (st : ListenerState) : PyM Graph := do
  let n : Int := st.atoms.length
  for (i1, i2) in st.bonds do
    if i1 ≥ n then throw .tucanParser
    if i2 ≥ n then throw .tucanParser
  let sorted := sortAtomsByZ st.atoms
  let mut atomsDict : List (Int × Atom) := sorted.zipIdx.map fun (a, i) => ((i : Int), a)
  for (idx, extra) in st.nodeAttrs do
    if idx ≥ n then throw .tucanParser
    match alookup idx atomsDict with
    | none => .error .keyError
    | some a => atomsDict := ainsert idx (a.update extra) atomsDict
  let bondsDict : List ((Int × Int) × Bond) :=
    st.bonds.foldl (fun d b => ainsert b ({} : Bond) d) []
  let (g, _) ← graphFromMolecule atomsDict bondsDict
  pure g

/-- `graph_from_tucan(s)` -/
def graphFromTucan (s : Str) : PyM Graph := do
  let toks ← match lex s with
    | some t => pure t
    | none => .error .tucanParser
  let ast ← match parseTucan toks with
    | some a => pure a
    | none => .error .tucanParser
  let atoms ← listenFormula ast.formula
  let bonds ← listenTuples ast.tuples
  let nodeAttrs ← listenAttrs ast.attrs
  toGraph { atoms, bonds, nodeAttrs }

end Tucan
