import TucanModel.GraphUtils
/-!
# `tucan/serialization.py`
-/
namespace Tucan

/-- What `_assign_final_labels` reads from the graph: the node list, the partition of a node and the
neighbour list of a node. -/
structure View where
  nodes : List Nat
  part  : Nat → Int
  nbrs  : Nat → List Nat

/-- `_labels_by_partition(m)`: per partition the labels in *descending* order (so that `.pop()`
yields the smallest); listed here by ascending partition, the dictionary order being irrelevant
because it is only ever indexed. -/
def availInit (v : View) : List (Int × List Nat) :=
  (dedupAdj ((v.nodes.map v.part).mergeSort leI)).map fun p =>
    (p, sortN (v.nodes.filter (v.part · == p)))

/-- `labels_by_partition[p].pop()`: smallest available label of partition `p`.
(`avail` keeps each list ascending and pops the head; Python keeps it descending and pops the tail.) -/
def popAvail (p : Int) : List (Int × List Nat) → Option (Nat × List (Int × List Nat))
  | [] => none
  | (q, ls) :: rest =>
    if q == p then
      match ls with
      | [] => none
      | l :: ls' => some (l, (q, ls') :: rest)
    else (popAvail p rest).map fun (l, rest') => (l, (q, ls) :: rest')

structure BfsState where
  explored : List Nat
  final    : List (Nat × Nat)        -- `final_labels` in insertion order
  avail    : List (Int × List Nat)
  queue    : List Nat                -- the deque, left end first

/-- the order in which the neighbours of `a` are pushed with `extendleft`:
for `priority in reversed((lt, gt, eq))`: `eq`, then `gt`, then `lt`, each sorted ascending -/
def travOrder (v : View) (a : Nat) : List Nat :=
  let ns := v.nbrs a
  let pa := v.part a
  sortN (ns.filter fun n => pa == v.part n) ++
  sortN (ns.filter fun n => decide (pa > v.part n)) ++
  sortN (ns.filter fun n => decide (pa < v.part n))

def unexplored (v : View) (ex : List Nat) : List Nat := v.nodes.filter fun k => !ex.contains k

theorem filter_len_le (f' f : Nat → Bool) (h : ∀ k, f' k = true → f k = true) (ns : List Nat) :
    (ns.filter f').length ≤ (ns.filter f).length := by
  induction ns with
  | nil => simp
  | cons b bs ih =>
    simp only [List.filter_cons]
    cases h1 : f' b <;> cases h2 : f b <;> simp <;> first | omega | (have := h b h1; simp_all)

theorem filter_len_lt (f' f : Nat → Bool) (h : ∀ k, f' k = true → f k = true) (a : Nat)
    (hf : f a = true) (hf' : f' a = false) (ns : List Nat) (ha : a ∈ ns) :
    (ns.filter f').length < (ns.filter f).length := by
  induction ns with
  | nil => simp at ha
  | cons b bs ih =>
    simp only [List.filter_cons]
    by_cases hb : b = a
    · subst hb
      have := filter_len_le f' f h bs
      simp [hf, hf']; omega
    · have ha' : a ∈ bs := by
        rcases List.mem_cons.mp ha with h | h
        · exact absurd h.symm hb
        · exact h
      have := ih ha'
      cases h1 : f' b <;> cases h2 : f b <;> simp <;> first | omega | (have := h b h1; simp_all)

theorem unexplored_cons_lt (v : View) (ex : List Nat) (a : Nat) (ha : a ∈ v.nodes)
    (hx : ex.contains a = false) :
    (unexplored v (a :: ex)).length < (unexplored v ex).length := by
  unfold unexplored
  apply filter_len_lt _ _ _ a _ _ v.nodes ha
  · intro k hk
    simp only [List.contains_cons, Bool.not_eq_eq_eq_not, Bool.not_true, Bool.or_eq_false_iff] at hk
    have := hk.2; simp_all
  · simp_all
  · simp

/-- explore atom `a`: take the smallest label of its partition, push its neighbours -/
def explore (v : View) (s : BfsState) (a : Nat) (q : List Nat) : PyM BfsState :=
  match popAvail (v.part a) s.avail with
  | none => .error .indexError
  | some (l, avail') =>
    .ok { explored := a :: s.explored, final := s.final ++ [(a, l)], avail := avail',
          queue := (travOrder v a).reverse ++ q }

/-- The two nested `while` loops of `_assign_final_labels`.  Well-founded on
(number of unexplored nodes, queue length); seeding the queue with the smallest unexplored atom is
fused with exploring it (the first inner iteration always does exactly that). -/
def bfsRun (v : View) (s : BfsState) : PyM BfsState :=
  match hq : s.queue.getLast? with
  | none =>
    match hu : sortN (unexplored v s.explored) with
    | [] => .ok s
    | u :: _ =>
      have hmem : u ∈ unexplored v s.explored := by
        have : u ∈ sortN (unexplored v s.explored) := by rw [hu]; simp
        simpa [sortN] using this
      match he : explore v s u [] with
      | .error e => .error e
      | .ok s' => bfsRun v s'
  | some a =>
    let q := s.queue.dropLast
    if hn : a ∈ v.nodes then
      if hx : s.explored.contains a then bfsRun v { s with queue := q }
      else
        match he : explore v s a q with
        | .error e => .error e
        | .ok s' => bfsRun v s'
    else .error .keyError
termination_by ((unexplored v s.explored).length, s.queue.length)
decreasing_by
  · have hu' : u ∈ v.nodes ∧ s.explored.contains u = false := by
      simpa [unexplored] using hmem
    have : s'.explored = u :: s.explored := by
      unfold explore at he; split at he <;> simp_all
      cases he; rfl
    rw [this]
    exact Prod.Lex.left _ _ (unexplored_cons_lt v s.explored u hu'.1 hu'.2)
  · apply Prod.Lex.right
    have : s.queue ≠ [] := by intro h; simp [h] at hq
    have := List.length_pos_iff.mpr this
    simp [List.length_dropLast]; omega
  · have : s'.explored = a :: s.explored := by
      unfold explore at he; split at he <;> simp_all
      cases he; rfl
    rw [this]
    exact Prod.Lex.left _ _ (unexplored_cons_lt v s.explored a hn (by simpa using hx))

/-- the dictionary `final_labels` of `_assign_final_labels`, in insertion order -/
def finalLabels (v : View) : PyM (List (Nat × Nat)) := do
  let s ← bfsRun v ⟨[], [], availInit v, []⟩
  if s.final.length == v.nodes.length then .ok s.final else .error .assertion

/-- the view of a graph all of whose nodes carry a partition -/
def Graph.view (g : Graph) : View :=
  { nodes := g.labels
    part := fun a => ((g.find? a).bind (·.attrs.part)).getD 0
    nbrs := g.nbrs }

/-- `nx.set_node_attributes(m, False, EXPLORED)` -/
def Graph.resetExplored (g : Graph) : Graph := g.mapAttrs fun _ a => { a with explored := some false }

/-- `_assign_final_labels(m)`: the relabelled copy and the post-state of the argument -/
def assignFinalLabels (g : Graph) : PyM (Graph × Graph × List (Nat × Nat)) := do
  -- `_labels_by_partition` reads `m.nodes[a][PARTITION]` for every node
  if g.nodes.any (·.attrs.part.isNone) then .error .keyError
  else
    let g' := g.resetExplored
    let fl ← finalLabels g'.view
    pure (g'.relabelCopy fl, g', fl)

/-! ## Writers -/

def countOcc (s : Str) (l : List Str) : Nat := (l.filter (· == s)).length

/-- `f"{k}{v}" if v > 1 else k` -/
def symCount (k : Str) (v : Nat) : Str := if v > 1 then k ++ natRepr v else k

/-- `_write_sum_formula(m)` -/
def writeSumFormula (g : Graph) : Str :=
  let syms := g.nodes.filterMap (·.attrs.sym)
  let c := countOcc ['C'] syms
  let h := countOcc ['H'] syms
  let withC := c > 0
  let head := if withC then symCount ['C'] c ++ (if h > 0 then symCount ['H'] h else []) else []
  let rest0 := syms.filter fun s => s != ['C'] && !(withC && s == ['H'])
  let keys := dedupAdj (rest0.mergeSort leStr)
  head ++ (keys.map fun k => symCount k (countOcc k syms)).flatten

/-- `_write_edge_list(m)` -/
def sortedEdges (g : Graph) : List (Nat × Nat) :=
  (g.edges.map fun (u, v, _) => if u ≤ v then (u, v) else (v, u)).mergeSort leNN

def writeEdgeList (g : Graph) : Str :=
  ((sortedEdges g).map fun (a, b) =>
    '(' :: natRepr (a + 1) ++ '-' :: natRepr (b + 1) ++ [')']).flatten

/-- `_write_node_attributes(m)` -/
def writeNodeAttributes (g : Graph) : Str :=
  let ns := g.nodes.mergeSort fun a b => decide (a.id ≤ b.id)
  (ns.map fun n =>
    let av := (match n.attrs.mass with | some m => ["mass=".toList ++ intRepr m] | none => []) ++
              (match n.attrs.rad with | some r => ["rad=".toList ++ intRepr r] | none => [])
    if av.isEmpty then [] else
      '(' :: natRepr (n.id + 1) ++ ':' :: joinWith [','] av ++ [')']).flatten

/-- `serialize_molecule(m)`: the string and the post-state of the argument -/
def serializeMolecule (g : Graph) : PyM (Str × Graph) := do
  let (fl, g', _) ← assignFinalLabels g
  let m ← sortMoleculeByAttribute fl .atomicNumber
  let na := writeNodeAttributes m
  pure (writeSumFormula m ++ '/' :: writeEdgeList m ++ (if na.isEmpty then [] else '/' :: na), g')

end Tucan
