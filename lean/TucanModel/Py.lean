/-!
# Python prelude

The fragment of CPython semantics the TUCAN sources depend on, as small total functions.
Strings are `List Char` (`Str`) so that every theorem about them is a plain list theorem.
Nothing here imports anything outside core Lean.
-/
namespace Tucan

abbrev Str := List Char

/-- The exception classes that modelled code can raise. `other` is any exception type that the
model does not distinguish further (it never occurs on a model code path; the driver prints it). -/
inductive PyErr
  | molfileParser | tucanParser | keyError | indexError | valueError | assertion | recursion
  | typeError | other | osError
  deriving Repr, DecidableEq, Inhabited

abbrev PyM := Except PyErr

def PyErr.name : PyErr → String
  | .molfileParser => "MolfileParserException"
  | .tucanParser => "TucanParserException"
  | .keyError => "KeyError"
  | .indexError => "IndexError"
  | .valueError => "ValueError"
  | .assertion => "AssertionError"
  | .recursion => "RecursionError"
  | .typeError => "TypeError"
  | .other => "Other"
  | .osError => "OSError"

/-! ## Orders and sorting (Python `sorted` on ints and tuples) -/

/-- A sort key: a Python `int` `p` is `[p]`, a tuple `(a, b, c)` is `[a, b, c]`.  Python never
compares an int with a tuple on the modelled paths. -/
abbrev Key := List Int
/-- `attribute_sequence`: own key followed by the neighbour keys in descending order. -/
abbrev Seq := List Key

def leI (a b : Int) : Bool := decide (a ≤ b)
def leN (a b : Nat) : Bool := decide (a ≤ b)
def geN (a b : Nat) : Bool := decide (b ≤ a)
def leK (a b : Key) : Bool := decide (a ≤ b)
def geK (a b : Key) : Bool := decide (b ≤ a)
def leS (a b : Seq) : Bool := decide (a ≤ b)
/-- tuple order on `(sequence, label)` pairs -/
def leSN (a b : Seq × Nat) : Bool := decide (a.1 < b.1) || (a.1 == b.1 && decide (a.2 ≤ b.2))
/-- list order on `[a, b]` pairs with `a, b : Nat` (`sorted([sorted(edge) ...])`) -/
def leNN (a b : Nat × Nat) : Bool := decide (a.1 < b.1) || (a.1 == b.1 && decide (a.2 ≤ b.2))
def leStr (a b : Str) : Bool := decide (a ≤ b)

/-- `sorted(l)` for naturals -/
def sortN (l : List Nat) : List Nat := l.mergeSort leN
/-- `sorted(l, reverse=True)` for naturals -/
def sortNDesc (l : List Nat) : List Nat := l.mergeSort geN
def sortK (l : List Key) : List Key := l.mergeSort leK
def sortKDesc (l : List Key) : List Key := l.mergeSort geK
def sortS (l : List Seq) : List Seq := l.mergeSort leS

/-- remove adjacent duplicates (applied to a sorted list this is `sorted(set(l))`) -/
def dedupAdj {α} [BEq α] : List α → List α
  | [] => []
  | [a] => [a]
  | a :: b :: r => if a == b then dedupAdj (b :: r) else a :: dedupAdj (b :: r)

/-- index of the first occurrence (`list.index`), as an option -/
def indexOf? {α} [BEq α] (a : α) : List α → Option Nat
  | [] => none
  | b :: r => if a == b then some 0 else (indexOf? a r).map (· + 1)

/-! ## Association lists with Python `dict` behaviour (insertion ordered, unique keys) -/

def alookup {κ ν} [BEq κ] (k : κ) : List (κ × ν) → Option ν
  | [] => none
  | (k', v) :: r => if k' == k then some v else alookup k r

/-- `d[k] = v`: overwrite in place if present, else append -/
def ainsert {κ ν} [BEq κ] (k : κ) (v : ν) : List (κ × ν) → List (κ × ν)
  | [] => [(k, v)]
  | (k', v') :: r => if k' == k then (k, v) :: r else (k', v') :: ainsert k v r

def amodify {κ ν} [BEq κ] (k : κ) (f : ν → ν) : List (κ × ν) → List (κ × ν)
  | [] => []
  | (k', v') :: r => if k' == k then (k', f v') :: r else (k', v') :: amodify k f r

/-! ## Characters and strings -/

def isDigit (c : Char) : Bool := '0' ≤ c && c ≤ '9'
def isUpper (c : Char) : Bool := 'A' ≤ c && c ≤ 'Z'
def isLower (c : Char) : Bool := 'a' ≤ c && c ≤ 'z'
/-- the non-ASCII code points of `Py_UNICODE_ISSPACE` (CPython 3.12, Unicode 15.0) -/
def isUniSpace (c : Char) : Bool :=
  c.toNat == 0x85 || c.toNat == 0xa0 || c.toNat == 0x1680 || (0x2000 ≤ c.toNat && c.toNat ≤ 0x200a)
  || c.toNat == 0x2028 || c.toNat == 0x2029 || c.toNat == 0x202f || c.toNat == 0x205f || c.toNat == 0x3000

/-- `str.isspace` on one character, which is what `str.strip()`, `str.rstrip()` and `str.split()` use:
space, \t, \n, \v, \f, \r, FS/GS/RS/US and the non-ASCII spaces -/
def isPySpace (c : Char) : Bool :=
  c == ' ' || c == '\t' || c == '\n' || c == '\r' || c.toNat == 11 || c.toNat == 12
  || (28 ≤ c.toNat && c.toNat ≤ 31) || isUniSpace c

/-- C's `isspace` in the "C" locale (`Py_ISSPACE`): what `int()` and `float()` skip around the number once
the text has been folded to ASCII -/
def isCSpace (c : Char) : Bool := c == ' ' || (9 ≤ c.toNat && c.toNat ≤ 13)

/-- first code points (the digit zero) of the 68 runs of ten decimal digits of Unicode 15.0
(`unicodedata.decimal`); the harness compares the whole table with the interpreter on every run -/
def decimalZeros : List Nat :=
  [0x30, 0x660, 0x6f0, 0x7c0, 0x966, 0x9e6, 0xa66, 0xae6, 0xb66, 0xbe6, 0xc66, 0xce6, 0xd66, 0xde6, 0xe50, 0xed0,
   0xf20, 0x1040, 0x1090, 0x17e0, 0x1810, 0x1946, 0x19d0, 0x1a80, 0x1a90, 0x1b50, 0x1bb0, 0x1c40, 0x1c50, 0xa620,
   0xa8d0, 0xa900, 0xa9d0, 0xa9f0, 0xaa50, 0xabf0, 0xff10, 0x104a0, 0x10d30, 0x11066, 0x110f0, 0x11136, 0x111d0,
   0x112f0, 0x11450, 0x114d0, 0x11650, 0x116c0, 0x11730, 0x118e0, 0x11950, 0x11c50, 0x11d50, 0x11da0, 0x11f50,
   0x16a60, 0x16ac0, 0x16b50, 0x1d7ce, 0x1d7d8, 0x1d7e2, 0x1d7ec, 0x1d7f6, 0x1e140, 0x1e2f0, 0x1e4f0, 0x1e950,
   0x1fbf0]

/-- `unicodedata.decimal(c)` -/
def decimalValue? (c : Char) : Option Nat :=
  (decimalZeros.find? fun z => z ≤ c.toNat && c.toNat < z + 10).map (c.toNat - ·)

/-- `_PyUnicode_TransformDecimalAndSpaceToASCII`, one character: ASCII stays, a non-ASCII space becomes a
blank, a non-ASCII decimal digit becomes its ASCII digit, anything else becomes `?` (CPython also cuts the
text there; the `?` alone already makes the conversion fail) -/
def foldChar (c : Char) : Char :=
  if c.toNat < 128 then c
  else if isUniSpace c then ' '
  else match decimalValue? c with
    | some d => Char.ofNat (48 + d)
    | none => '?'

def digitVal (c : Char) : Nat := c.toNat - '0'.toNat

def natOfDigits (ds : List Char) : Nat := ds.foldl (fun acc c => acc * 10 + digitVal c) 0

/-- decimal text of a natural (`str(n)`) -/
def natRepr (n : Nat) : Str := (Nat.repr n).toList
def intRepr (i : Int) : Str :=
  match i with
  | .ofNat n => natRepr n
  | .negSucc n => '-' :: natRepr (n + 1)

def dropWhileEnd (p : Char → Bool) (s : Str) : Str := (s.reverse.dropWhile p).reverse
/-- `s.strip()` -/
def strip (s : Str) : Str := dropWhileEnd isPySpace (s.dropWhile isPySpace)
/-- `s.rstrip()` -/
def rstrip (s : Str) : Str := dropWhileEnd isPySpace s
/-- `s.strip(" ")` -/
def stripSp (s : Str) : Str := dropWhileEnd (· == ' ') (s.dropWhile (· == ' '))
/-- what `int()` / `float()` parse: the text folded to ASCII, without surrounding C whitespace -/
def numText (s : Str) : Str :=
  let t := s.map foldChar
  dropWhileEnd isCSpace (t.dropWhile isCSpace)

/-- `s.split(sep)` for a one-character separator: always at least one piece -/
def splitOnChar (sep : Char) : Str → List Str
  | [] => [[]]
  | c :: r =>
    if c == sep then [] :: splitOnChar sep r
    else match splitOnChar sep r with
      | [] => [[c]]          -- unreachable
      | p :: ps => (c :: p) :: ps

/-- `s.split()`: split on runs of whitespace, no empty pieces -/
def splitWs (s : Str) : List Str :=
  let rec go (cur : Str) (acc : List Str) : Str → List Str
    | [] => (if cur.isEmpty then acc else cur.reverse :: acc).reverse
    | c :: r =>
      if isPySpace c then go [] (if cur.isEmpty then acc else cur.reverse :: acc) r
      else go (c :: cur) acc r
  go [] [] s

/-- `s[a:b]` for `0 ≤ a ≤ b` (slices past the end are truncated, never an error) -/
def slice (s : Str) (a b : Nat) : Str := (s.drop a).take (b - a)

def startsWith (s p : Str) : Bool := p.isPrefixOf s
def endsWithChar (s : Str) (c : Char) : Bool := s.getLast? == some c

/-- `p in s` -/
def isInfix (p : Str) : Str → Bool
  | [] => p.isEmpty
  | c :: r => p.isPrefixOf (c :: r) || isInfix p r

/-- `" ".join(parts)` -/
def joinSp : List Str → Str
  | [] => []
  | [a] => a
  | a :: r => a ++ ' ' :: joinSp r

/-- `sep.join(parts)` -/
def joinWith (sep : Str) : List Str → Str
  | [] => []
  | [a] => a
  | a :: r => a ++ sep ++ joinWith sep r

/-- `str.splitlines()` breaks on `\n`, `\r\n`, `\r`, `\v`, `\f`, FS, GS, RS, NEL (U+0085), LS (U+2028), PS (U+2029). -/
def isLineBreak (c : Char) : Bool :=
  c == '\n' || c == '\r' || c.toNat == 11 || c.toNat == 12 || (28 ≤ c.toNat && c.toNat ≤ 30)
  || c.toNat == 0x85 || c.toNat == 0x2028 || c.toNat == 0x2029

/-- `skipLF` is set directly after a `\r`, so that `\r\n` counts as one terminator -/
def splitLinesGo (cur : Str) (acc : List Str) (skipLF : Bool) : Str → List Str
  | [] => (if cur.isEmpty then acc else cur.reverse :: acc).reverse
  | c :: r =>
    if skipLF && c == '\n' then splitLinesGo cur acc false r
    else if c == '\r' then splitLinesGo [] (cur.reverse :: acc) true r
    else if isLineBreak c then splitLinesGo [] (cur.reverse :: acc) false r
    else splitLinesGo (c :: cur) acc false r

def splitLines (s : Str) : List Str := splitLinesGo [] [] false s

/-- CPython's default `sys.get_int_max_str_digits()` -/
def intMaxStrDigits : Nat := 4300

/-- digits with single underscores between them: `d(_?d)*`; returns the digits.
`st = 0`: expecting a digit (start or after `_`); `st = 1`: after a digit. -/
def digitsGo (st : Nat) : Str → Option (List Char)
  | [] => if st == 1 then some [] else none
  | c :: r =>
    if isDigit c then (digitsGo 1 r).map (c :: ·)
    else if c == '_' && st == 1 then digitsGo 0 r
    else none

def digitsWithUnderscores (s : Str) : Option (List Char) := digitsGo 0 s

/-- `int(s)` for a `str` argument, base 10. -/
def pyInt (s : Str) : PyM Int :=
  let t := numText s
  let (neg, body) := match t with
    | '-' :: r => (true, r)
    | '+' :: r => (false, r)
    | r => (false, r)
  match digitsWithUnderscores body with
  | none => .error .valueError
  | some ds =>
    if ds.length > intMaxStrDigits then .error .valueError
    else
      let n : Int := natOfDigits ds
      .ok (if neg then -n else n)

/-- Accepts what `float(s)` accepts (decimal / exponent forms, `inf`, `nan`), modulo underscores
between digits; the *value* is never computed: coordinates are opaque tokens. -/
def pyFloatOk (s : Str) : Bool :=
  let t := (numText s).map Char.toLower
  let body := match t with
    | '-' :: r => r
    | '+' :: r => r
    | r => r
  if body == "inf".toList || body == "infinity".toList || body == "nan".toList then true
  else
    let (ip, rest) := body.span (fun c => isDigit c || c == '_')
    let (fp, rest, hasDot) := match rest with
      | '.' :: r => let (f, r') := r.span (fun c => isDigit c || c == '_'); (f, r', true)
      | r => ([], r, false)
    let okDigits (d : Str) : Bool := d.isEmpty || (digitsWithUnderscores d).isSome
    let mant := (!ip.isEmpty || !fp.isEmpty) && okDigits ip && okDigits fp && (hasDot || !ip.isEmpty)
    let expOk := match rest with
      | [] => true
      | 'e' :: r =>
        let r := match r with
          | '-' :: r' => r'
          | '+' :: r' => r'
          | r' => r'
        (digitsWithUnderscores r).isSome
      | _ => false
    mant && expOk

def pyFloat (s : Str) : PyM Str :=
  if pyFloatOk s then .ok (strip s) else .error .valueError

/-- `l[i]` on a list with a non-negative index -/
def getIdx {α} (l : List α) (i : Nat) : PyM α :=
  match l[i]? with
  | some a => .ok a
  | none => .error .indexError

/-- `l[i]` with Python's negative indexing -/
def getIdxInt {α} (l : List α) (i : Int) : PyM α :=
  if i ≥ 0 then getIdx l i.toNat
  else if (-i).toNat ≤ l.length then getIdx l (l.length - (-i).toNat) else .error .indexError

/-- `l[a:b]` for integer bounds (negative bounds count from the end, out-of-range is clamped) -/
def sliceInt {α} (l : List α) (a b : Int) : List α :=
  let n : Int := l.length
  let norm (i : Int) : Nat := (if i < 0 then max (i + n) 0 else min i n).toNat
  let a' := norm a
  let b' := norm b
  (l.drop a').take (b' - a')

end Tucan
