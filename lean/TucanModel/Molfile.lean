import TucanModel.GraphUtils
import TucanModel.Generated.Tables
/-!
# `tucan/io`: V3000 reader, V2000 reader, version dispatch, V3000 writer
-/
namespace Tucan

def cs (x : String) : Str := x.toList

def v30Prefix : Str := cs "M  V30 "

def molErr {α} : PyM α := .error .molfileParser

/-- `ELEMENT_ATTRS[symbol][ATOMIC_NUMBER]` -/
def atomicNumberOf (sym : Str) : PyM Int :=
  match alookup (String.ofList sym) Tables.elementTable with
  | some z => .ok z
  | none => .error .keyError

/-- `detect_hydrogen_isotopes` -/
def detectHydrogenIsotopes (sym : Str) : Str × Int :=
  if sym == ['D'] then (['H'], 2) else if sym == ['T'] then (['H'], 3) else (sym, 0)

/-! ## V3000 reader -/

/-- `_concat_lines_with_dash` -/
def concatLinesWithDash : List Str → PyM (List Str)
  | [] => .ok []
  | [c] => .ok [c]
  | c :: n :: rest =>
    if startsWith c v30Prefix && endsWithChar c '-' then
      if startsWith n v30Prefix then concatLinesWithDash ((c.dropLast ++ n.drop 7) :: rest)
      else molErr
    else (concatLinesWithDash (n :: rest)).map (c :: ·)
termination_by l => l.length

/-- `line.rstrip().split(" ")` without the empty pieces -/
def tokenizeLine (line : Str) : List Str := (splitOnChar ' ' (rstrip line)).filter (· != [])

/-- `_tokenize_lines` -/
def tokenizeLines (lines : List Str) : PyM (List (List Str)) := do
  let ls ← concatLinesWithDash lines
  pure (ls.map tokenizeLine)

/-- `i.split("=")[1]` -/
def afterEq (tok : Str) : PyM Str := getIdx (splitOnChar '=' tok) 1

/-- `[int(i.split("=")[1]) for i in line if i.split("=")[0] == key]` -/
def keywordValues (key : Str) (line : List Str) : PyM (List Int) :=
  line.foldlM (fun acc tok =>
    if (splitOnChar '=' tok).head? == some key then do
      let v ← afterEq tok
      let i ← pyInt v
      pure (acc ++ [i])
    else pure acc) []

/-- a present, non-default value: the last one listed, unless it is 0 -/
def lastNonZero (vals : List Int) : Option Int :=
  match vals.getLast? with
  | some v => if v == 0 then none else some v
  | none => none

/-- `_parse_atom_attributes(line)`; `none` = star atom -/
def parseAtomAttributesV3000 (line : List Str) : PyM (Option Atom) := do
  let sym0 ← getIdx line 3
  if sym0 == ['*'] then pure none
  else
    let (sym, iso) := detectHydrogenIsotopes sym0
    let z ← atomicNumberOf sym
    let x ← pyFloat (← getIdx line 4)
    let y ← pyFloat (← getIdx line 5)
    let zc ← pyFloat (← getIdx line 6)
    let chg ← keywordValues (cs "CHG") line
    let mass ← if iso == 0 then keywordValues (cs "MASS") line else pure [iso]
    let rad ← keywordValues (cs "RAD") line
    pure (some { sym := some sym, z := some z, part := some 0, x := some x, y := some y, zc := some zc,
                 chg := lastNonZero chg, mass := lastNonZero mass, rad := lastNonZero rad })

/-- `lines[5]` checks of `_validate_counts_line` -/
def validateCountsLine (lines : List (List Str)) : PyM Unit := do
  let l5 ← getIdx lines 5
  let t ← getIdx l5 2
  if t != cs "COUNTS" || l5.length < 5 then molErr else pure ()

def expectBlockLine (lines : List (List Str)) (i : Int) (what : Str) : PyM Unit := do
  let l ← getIdxInt lines i
  if joinSp (l.drop 2) != what then molErr else pure ()

/-- `_parse_atom_block`: the atom dictionary and the list of star atoms -/
def parseAtomBlockV3000 (lines : List (List Str)) : PyM (List (Int × Atom) × List Int) := do
  let l5 ← getIdx lines 5
  let atomCount ← pyInt (← getIdx l5 3)
  expectBlockLine lines 6 (cs "BEGIN ATOM")
  expectBlockLine lines (7 + atomCount) (cs "END ATOM")
  (sliceInt lines 7 (7 + atomCount)).foldlM (fun (atoms, stars) line => do
    let idx ← pyInt (← getIdx line 2)
    match ← parseAtomAttributesV3000 line with
    | none => pure (atoms, stars ++ [idx - 1])
    | some a => pure (ainsert (idx - 1) a atoms, stars)) ([], [])

/-- position of the first occurrence of `p` in `s` -/
def findInfix (p : Str) : Str → Option Nat
  | [] => if p.isEmpty then some 0 else none
  | c :: r => if p.isPrefixOf (c :: r) then some 0 else (findInfix p r).map (· + 1)

/-- `re.compile(r"ENDPTS=\(.+\)").search(s)`: leftmost `ENDPTS=(`, then greedily up to the last `)`
of the text (at least one character in between); returns the text between the parentheses -/
def endptsMatch (s : Str) : Option Str :=
  match findInfix (cs "ENDPTS=(") s with
  | none => none
  | some i =>
    let body := s.drop (i + 8)
    -- last ')' in body, at position ≥ 1
    let rev := body.reverse
    match findInfix [')'] rev with
    | none => none
    | some k =>
      let pos := body.length - 1 - k
      if pos ≥ 1 then some (body.take pos) else none

/-- `_parse_bond_line_with_star_atom` -/
def parseBondLineWithStarAtom (line : List Str) (start : Int) : PyM (List (Int × Int)) :=
  match endptsMatch (joinSp line) with
  | none => .ok []
  | some inner => do
    let numbers ← (splitWs inner).mapM pyInt
    let expected ← getIdx numbers 0
    if expected != (numbers.length - 1 : Nat) then molErr
    else pure ((numbers.drop 1).map fun e => (start, e - 1))

/-- `_parse_bond_block` -/
def parseBondBlockV3000 (lines : List (List Str)) (stars : List Int) : PyM (List ((Int × Int) × Bond)) := do
  let l5 ← getIdx lines 5
  let atomCount ← pyInt (← getIdx l5 3)
  let bondCount ← pyInt (← getIdx l5 4)
  if bondCount == 0 then pure []
  else
    let off := 7 + atomCount + 2
    expectBlockLine lines (off - 1) (cs "BEGIN BOND")
    expectBlockLine lines (off + bondCount) (cs "END BOND")
    (sliceInt lines off (off + bondCount)).foldlM (fun bonds line => do
      let a1 ← pyInt (← getIdx line 4)
      let a2 ← pyInt (← getIdx line 5)
      let bt ← pyInt (← getIdx line 3)
      let i1 := a1 - 1
      let i2 := a2 - 1
      let s1 := stars.contains i1
      let s2 := stars.contains i2
      let tuples ←
        if s1 && s2 then molErr
        else if s1 then parseBondLineWithStarAtom line i2
        else if s2 then parseBondLineWithStarAtom line i1
        else pure [(i1, i2)]
      pure (tuples.foldl (fun b t => ainsert t ({ btype := some bt } : Bond) b) bonds)) []

/-- `_validate_bond_indices` -/
def validateBondIndices (bonds : List ((Int × Int) × Bond)) (atoms : List (Int × Atom)) : PyM Unit :=
  bonds.forM fun ((u, v), _) =>
    if (alookup u atoms).isNone || (alookup v atoms).isNone then molErr else pure ()

/-- `graph_attributes_from_molfile_v3000(lines)` -/
def graphAttributesV3000 (lines : List Str) : PyM (List (Int × Atom) × List ((Int × Int) × Bond)) := do
  let toks ← tokenizeLines lines
  validateCountsLine toks
  let (atoms, stars) ← parseAtomBlockV3000 toks
  let bonds ← parseBondBlockV3000 toks stars
  validateBondIndices bonds atoms
  pure (atoms, bonds)

/-! ## V2000 reader -/

/-- `_to_int` -/
def toIntV2000 (s : Str) : PyM Int := if (stripSp s).isEmpty then .ok 0 else pyInt s

/-- `_to_float`: blank means 0 -/
def toFloatV2000 (s : Str) : PyM Str := if (stripSp s).isEmpty then .ok ['0'] else pyFloat s

/-- `MOLFILE_V2000_CHARGES.get(code, {})` -/
def chargeCode (code : Int) : Option Int × Option Int := (alookup code Tables.v2000Charges).getD (none, none)

/-- `_parse_atom_line` -/
def parseAtomLineV2000 (line : Str) : PyM Atom := do
  let sym0 := stripSp (slice line 31 34)
  let (sym, iso) := detectHydrogenIsotopes sym0
  let z ← atomicNumberOf sym
  let x ← toFloatV2000 (slice line 0 10)
  let y ← toFloatV2000 (slice line 10 20)
  let zc ← toFloatV2000 (slice line 20 30)
  let code ← toIntV2000 (slice line 36 39)
  let (chg, rad) := chargeCode code
  pure { sym := some sym, z := some z, part := some 0, x := some x, y := some y, zc := some zc,
         chg := chg, rad := rad, mass := if iso == 0 then none else some iso }

/-- `_parse_bond_line` -/
def parseBondLineV2000 (line : Str) (atoms : List (Int × Atom)) : PyM ((Int × Int) × Bond) := do
  let i1 ← toIntV2000 (slice line 0 3)
  let i2 ← toIntV2000 (slice line 3 6)
  if (alookup (i1 - 1) atoms).isNone then molErr
  if (alookup (i2 - 1) atoms).isNone then molErr
  let bt ← toIntV2000 (slice line 6 9)
  pure ((i1 - 1, i2 - 1), { btype := some bt })

/-- `_parse_atom_value_assignments` -/
def parseAtomValueAssignments (line : Str) (atoms : List (Int × Atom)) : PyM (List (Int × Int)) := do
  let n ← toIntV2000 (slice line 6 9)
  (List.range n.toNat).foldlM (fun acc i => do
    let st := 10 + i * 8
    let idx ← toIntV2000 (slice line st (st + 3))
    let value ← toIntV2000 (slice line (st + 4) (st + 7))
    if (alookup (idx - 1) atoms).isNone then molErr
    pure (acc ++ [(idx - 1, value)])) []

inductive PropKey | chg | rad | mass
  deriving DecidableEq, Repr

structure Extra where
  chg : Option Int := none
  rad : Option Int := none
  mass : Option Int := none

def Extra.set (e : Extra) : PropKey → Int → Extra
  | .chg, v => { e with chg := some v }
  | .rad, v => { e with rad := some v }
  | .mass, v => { e with mass := some v }

/-- `_merge_tuples_into_additional_attributes` -/
def mergeTuples (tuples : List (Int × Int)) (key : PropKey) (extra : List (Int × Extra)) : List (Int × Extra) :=
  tuples.foldl (fun ex (i, v) => ainsert i (((alookup i ex).getD {}).set key v) ex) extra

def nonZero (v : Option Int) : Option Int := match v with
  | some 0 => none
  | o => o

/-- `_parse_attribute_block`: scan up to `M  END`, then apply resets and merge -/
def parseAttributeBlock (lines : List Str) (atoms : List (Int × Atom)) : PyM (List (Int × Atom)) := do
  let rec scan : List Str → List (Int × Extra) → Bool → PyM (List (Int × Extra) × Bool)
    | [], _, _ => molErr
    | line :: rest, ex, resetCR =>
      if startsWith line (cs "M  CHG") then do
        let t ← parseAtomValueAssignments line atoms
        scan rest (mergeTuples t .chg ex) true
      else if startsWith line (cs "M  RAD") then do
        let t ← parseAtomValueAssignments line atoms
        scan rest (mergeTuples t .rad ex) true
      else if startsWith line (cs "M  ISO") then do
        let t ← parseAtomValueAssignments line atoms
        scan rest (mergeTuples t .mass ex) resetCR
      else if line == cs "M  END" then pure (ex, resetCR)
      else scan rest ex resetCR
  let (ex, resetCR) ← scan lines [] false
  let atoms := if resetCR then atoms.map fun (k, a) => (k, { a with chg := none, rad := none }) else atoms
  -- explicit zero values are the defaults and are not stored
  pure (atoms.map fun (k, a) =>
    match alookup k ex with
    | none => (k, a)
    | some e => (k, { a with chg := nonZero e.chg <|> a.chg, rad := nonZero e.rad <|> a.rad,
                             mass := nonZero e.mass <|> a.mass }))

/-- `graph_attributes_from_molfile_v2000(lines)` -/
def graphAttributesV2000 (lines : List Str) : PyM (List (Int × Atom) × List ((Int × Int) × Bond)) := do
  let l3 ← getIdx lines 3
  let atomCount ← toIntV2000 (slice l3 0 3)
  let bondCount ← toIntV2000 (slice l3 3 6)
  let listsCount ← toIntV2000 (slice l3 6 9)
  let bondOff := 4 + atomCount
  let attrOff := bondOff + listsCount
  let atomLines := sliceInt lines 4 (4 + atomCount)
  let atoms0 ← atomLines.zipIdx.mapM fun (l, i) => do
    let a ← parseAtomLineV2000 l
    pure ((i : Int), a)
  let bondList ← (sliceInt lines bondOff (bondOff + bondCount)).mapM fun l => parseBondLineV2000 l atoms0
  let bonds := bondList.foldl (fun d (k, b) => ainsert k b d) []
  let atoms ← parseAttributeBlock (sliceInt lines attrOff lines.length) atoms0
  pure (atoms, bonds)

/-! ## dispatch -/

/-- `graph_from_molfile_text(molfile)` -/
def graphFromMolfileText (text : Str) : PyM Graph := do
  let lines := splitLines text
  let l3 ← getIdx lines 3
  let version := ((splitOnChar ' ' (rstrip l3)).getLast?).getD []
  let (atoms, bonds) ←
    if version == cs "V3000" then graphAttributesV3000 lines
    else if version == cs "V2000" then graphAttributesV2000 lines
    else molErr
  let (g, _) ← graphFromMolecule atoms bonds
  pure g

/-- text-mode `open(path).read()` (universal newlines): `\r\n` and a lone `\r` are translated to `\n` -/
def universalNewlines : Str → Str
  | [] => []
  | '\r' :: '\n' :: r => '\n' :: universalNewlines r
  | '\r' :: r => '\n' :: universalNewlines r
  | c :: r => c :: universalNewlines r

/-- `graph_from_file(path)` for a path whose suffix is `.mol`, given the decoded content of the file (the
filesystem and the decoding are not modelled) -/
def graphFromFileContent (decoded : Str) : PyM Graph := graphFromMolfileText (universalNewlines decoded)

/-- `graph_from_file(path)`: `suffix` is `Path(path).suffix`; anything but `.mol` is refused with `IOError` (= `OSError`)
before the file is opened -/
def graphFromFile (suffix : Str) (decoded : Str) : PyM Graph :=
  if suffix != cs ".mol" then .error .osError else graphFromFileContent decoded

/-! ## writer -/

/-- `_add_v30_line`: the physical lines for one logical line -/
def addV30Line (line : Str) : List Str :=
  if line.length ≤ 72 then [v30Prefix ++ line]
  else (v30Prefix ++ line.take 71 ++ ['-']) :: addV30Line (line.drop 71)
termination_by line.length
decreasing_by simp_all; omega

def zeroCoord : Str := cs "0.000000"

/-- the logical atom line -/
def atomLine (n : Node) : PyM Str := do
  let sym ← n.attrs.sym.elim (.error .keyError) .ok
  let a := n.attrs
  let charge := match a.chg with
    | some c => if c != 0 && -15 ≤ c && c ≤ 15 then cs " CHG=" ++ intRepr c else []
    | none => []
  let radical := match a.rad with
    | some r => if r != 0 && 0 < r && r ≤ 3 then cs " RAD=" ++ intRepr r else []
    | none => []
  let mass := match a.mass with
    | some m => if m != 0 && m > 0 then cs " MASS=" ++ intRepr m else []
    | none => []
  pure (natRepr (n.id + 1) ++ ' ' :: sym ++ ' ' :: a.x.getD zeroCoord ++ ' ' :: a.y.getD zeroCoord
        ++ ' ' :: a.zc.getD zeroCoord ++ cs " 0" ++ charge ++ radical ++ mass)

def bondLine (idx : Nat) (e : Nat × Nat × Bond) : Str :=
  natRepr idx ++ ' ' :: intRepr (e.2.2.btype.getD 1) ++ ' ' :: natRepr (e.1 + 1) ++ ' ' :: natRepr (e.2.1 + 1)

/-- `graph_to_molfile(graph)` as a list of lines; the time-stamped header line is `headerLine` -/
def graphToMolfileLines (g : Graph) (headerLine : Str) : PyM (List Str) := do
  let atomLines ← g.nodes.mapM atomLine
  let edges := g.edges
  let bondBlock :=
    if edges.isEmpty then []
    else addV30Line (cs "BEGIN BOND")
      ++ (edges.zipIdx.map fun (e, i) => addV30Line (bondLine (i + 1) e)).flatten
      ++ addV30Line (cs "END BOND")
  pure ([[], headerLine, [], cs "  0  0  0     0  0            999 V3000"]
    ++ addV30Line (cs "BEGIN CTAB")
    ++ addV30Line (cs "COUNTS " ++ natRepr g.numberOfNodes ++ ' ' :: natRepr edges.length ++ cs " 0 0 0")
    ++ addV30Line (cs "BEGIN ATOM")
    ++ (atomLines.map addV30Line).flatten
    ++ addV30Line (cs "END ATOM")
    ++ bondBlock
    ++ addV30Line (cs "END CTAB")
    ++ [cs "M  END"])

end Tucan
