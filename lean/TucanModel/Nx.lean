import TucanModel.Py
/-!
# networkx `Graph` as the library uses it

A `Graph` holds, in insertion order, its nodes with their attribute dictionaries and, per node, its
neighbours with the bond dictionaries — exactly the information `nx.Graph` holds in `_node` and
`_adj` (outer order of `_adj` always equals the order of `_node`, because `add_node` fills both).
-/
namespace Tucan

/-- A node attribute dictionary.  Every key the library reads or writes is a field (absent = `none`);
`extra` stands for any other entry: it is carried along and never inspected. -/
structure Atom where
  sym : Option Str := none        -- element_symbol
  z : Option Int := none          -- atomic_number
  part : Option Int := none       -- partition
  mass : Option Int := none
  rad : Option Int := none
  chg : Option Int := none
  x : Option Str := none          -- coordinates: opaque tokens
  y : Option Str := none
  zc : Option Str := none
  inv : Option (List Int) := none -- invariant_code
  explored : Option Bool := none
  extra : Option Str := none
  deriving DecidableEq, Repr, Inhabited

/-- An edge attribute dictionary. -/
structure Bond where
  btype : Option Int := none
  extra : Option Str := none
  deriving DecidableEq, Repr, Inhabited

/-- `old.update(new)` -/
def Bond.update (old new : Bond) : Bond :=
  { btype := new.btype <|> old.btype, extra := new.extra <|> old.extra }

/-- `old.update(new)` on node attribute dictionaries -/
def Atom.update (o n : Atom) : Atom :=
  { sym := n.sym <|> o.sym, z := n.z <|> o.z, part := n.part <|> o.part, mass := n.mass <|> o.mass,
    rad := n.rad <|> o.rad, chg := n.chg <|> o.chg, x := n.x <|> o.x, y := n.y <|> o.y,
    zc := n.zc <|> o.zc, inv := n.inv <|> o.inv, explored := n.explored <|> o.explored,
    extra := n.extra <|> o.extra }

structure Node where
  id : Nat
  attrs : Atom
  nbrs : List (Nat × Bond)
  deriving DecidableEq, Repr, Inhabited

structure Graph where
  nodes : List Node
  deriving DecidableEq, Repr, Inhabited

namespace Graph

def empty : Graph := ⟨[]⟩

/-- `list(G)` -/
def labels (g : Graph) : List Nat := g.nodes.map (·.id)

def find? (g : Graph) (a : Nat) : Option Node := g.nodes.find? (·.id == a)

def hasNode (g : Graph) (a : Nat) : Bool := (g.find? a).isSome

/-- `G.nodes[a]` -/
def attrs (g : Graph) (a : Nat) : PyM Atom :=
  match g.find? a with
  | some n => .ok n.attrs
  | none => .error .keyError

/-- `list(G.neighbors(a))` -/
def neighbors (g : Graph) (a : Nat) : PyM (List Nat) :=
  match g.find? a with
  | some n => .ok (n.nbrs.map (·.1))
  | none => .error .keyError

/-- total version used by the proofs: neighbours of a missing node are `[]` -/
def nbrs (g : Graph) (a : Nat) : List Nat :=
  match g.find? a with
  | some n => n.nbrs.map (·.1)
  | none => []

def numberOfNodes (g : Graph) : Nat := g.nodes.length

def modifyNode (g : Graph) (a : Nat) (f : Node → Node) : Graph :=
  ⟨g.nodes.map fun n => if n.id == a then f n else n⟩

/-- `G.add_node(a)` without data: no-op if present -/
def addNode (g : Graph) (a : Nat) : Graph :=
  if g.hasNode a then g else ⟨g.nodes ++ [⟨a, {}, []⟩]⟩

/-- `G.add_node(a, **d)`: create or update -/
def addNodeWith (g : Graph) (a : Nat) (d : Atom) : Graph :=
  if g.hasNode a then g.modifyNode a fun n => { n with attrs := n.attrs.update d }
  else ⟨g.nodes ++ [⟨a, d, []⟩]⟩

/-- `G._node[a] = d` for a node that exists (used by `_relabel_copy`'s `_node.update`) -/
def setAttrs (g : Graph) (a : Nat) (d : Atom) : Graph :=
  g.modifyNode a fun n => { n with attrs := d }

/-- `G._adj[u][v] = d` -/
def setNbr (g : Graph) (u v : Nat) (d : Bond) : Graph :=
  g.modifyNode u fun n => { n with nbrs := ainsert v d n.nbrs }

def edgeData? (g : Graph) (u v : Nat) : Option Bond :=
  match g.find? u with
  | some n => alookup v n.nbrs
  | none => none

/-- `G.add_edge(u, v, **d)` / one step of `add_edges_from` -/
def addEdge (g : Graph) (u v : Nat) (d : Bond) : Graph :=
  let g := (g.addNode u).addNode v
  let dd := ((g.edgeData? u v).getD {}).update d
  (g.setNbr u v dd).setNbr v u dd

def edgesGo : List Node → List Nat → List (Nat × Nat × Bond)
  | [], _ => []
  | n :: r, seen =>
    (n.nbrs.filterMap fun (v, d) => if seen.contains v then none else some (n.id, v, d))
      ++ edgesGo r (n.id :: seen)

/-- `list(G.edges(data=True))`: every edge once, reported from the endpoint listed first -/
def edges (g : Graph) : List (Nat × Nat × Bond) := edgesGo g.nodes []

def numberOfEdges (g : Graph) : Nat := g.edges.length

/-- all adjacency entries `(u, v, d)`, both directions (iteration of `_adj.items()`) -/
def adjEntries (g : Graph) : List (Nat × Nat × Bond) :=
  g.nodes.flatMap fun n => n.nbrs.map fun (v, d) => (n.id, v, d)

/-- `G.copy()` — note that neighbour order may change: entries are re-inserted in `_adj` order -/
def copy (g : Graph) : Graph :=
  let h : Graph := g.nodes.foldl (fun h n => h.addNodeWith n.id n.attrs) empty
  g.adjEntries.foldl (fun h (u, v, d) => h.addEdge u v d) h

/-- `mapping.get(n, n)` -/
def mapGet (m : List (Nat × Nat)) (a : Nat) : Nat := (alookup a m).getD a

/-- `nx.relabel_nodes(G, mapping, copy=True)` -/
def relabelCopy (g : Graph) (m : List (Nat × Nat)) : Graph :=
  let f := mapGet m
  let h : Graph := g.nodes.foldl (fun h n => h.addNode (f n.id)) empty
  let h := g.nodes.foldl (fun h n => h.setAttrs (f n.id) n.attrs) h
  g.edges.foldl (fun h (u, v, d) => h.addEdge (f u) (f v) d) h

/-- `nx.set_node_attributes(G, value, name)` for the names the library uses -/
def mapAttrs (g : Graph) (f : Nat → Atom → Atom) : Graph :=
  ⟨g.nodes.map fun n => { n with attrs := f n.id n.attrs }⟩

end Graph
end Tucan
