import TucanModel.Nx
/-!
# `tucan/graph_utils.py`
-/
namespace Tucan

/-- the three node attributes that are ever used as sort/partition keys -/
inductive AttrName | invariantCode | partition | atomicNumber
  deriving DecidableEq, Repr

/-- `attrs[attribute]` as a sort key (`none` = `KeyError`) -/
def Atom.key (a : Atom) : AttrName → Option Key
  | .invariantCode => a.inv
  | .partition => a.part.map ([·])
  | .atomicNumber => a.z.map ([·])

/-- `_add_invariant_code` for one atom: `(attrs[ATOMIC_NUMBER], attrs.get(MASS, 0), attrs.get(RAD, 0))` -/
def addInvariantCode (a : Atom) : PyM Atom :=
  match a.z with
  | none => .error .keyError
  | some z => .ok { a with inv := some [z, a.mass.getD 0, a.rad.getD 0] }

def addIfMissing (k : Int) (ks : List Int) : List Int := if ks.contains k then ks else ks ++ [k]

/-- `graph_from_molecule(atom_attrs, bond_attrs)`.  Returns the graph and the post-state of the
`atom_attrs` argument (which the function updates in place with the invariant code).

The intermediate `nx.Graph` is keyed by the dictionary keys; `convert_node_labels_to_integers`
then renames key number `i` (in node order) to `i` through `relabel_nodes(copy=True)`.  The model
performs the renaming first (positions instead of keys — a bijection) and then the identical
`relabelCopy` with the identity mapping. -/
def graphFromMolecule (atoms : List (Int × Atom)) (bonds : List ((Int × Int) × Bond)) :
    PyM (Graph × List (Int × Atom)) := do
  let atoms' ← atoms.mapM fun (k, a) => do let a' ← addInvariantCode a; pure (k, a')
  let keys := atoms'.map (·.1)
  let allKeys := bonds.foldl (fun ks ((u, v), _) => addIfMissing v (addIfMissing u ks)) keys
  let idx (k : Int) : Nat := (indexOf? k allKeys).getD 0
  let g0 : Graph := ⟨atoms'.map fun (k, a) => ⟨idx k, a, []⟩⟩
  let g1 := bonds.foldl (fun g ((u, v), _) => g.addEdge (idx u) (idx v) {}) g0
  let g2 := bonds.foldl (fun g ((u, v), d) => g.addEdge (idx u) (idx v) d) g1
  pure (g2.relabelCopy [], atoms')

/-- `attribute_sequence(m, atom, attribute)` -/
def attributeSequence (g : Graph) (atom : Nat) (attr : AttrName) : PyM Seq := do
  let a ← g.attrs atom
  let own ← (a.key attr).elim (.error .keyError) .ok
  let ns ← g.neighbors atom
  let nk ← ns.mapM fun n => do
    let an ← g.attrs n
    (an.key attr).elim (.error .keyError) .ok
  pure (own :: sortKDesc nk)

/-- `sort_molecule_by_attribute(m, attribute)` -/
def sortMoleculeByAttribute (g : Graph) (attr : AttrName) : PyM Graph := do
  let withLabels ← g.labels.mapM fun a => do let s ← attributeSequence g a attr; pure (s, a)
  if withLabels.isEmpty then .error .valueError   -- `zip(*[])` cannot be unpacked into two names
  else
    let sorted := withLabels.mergeSort leSN
    let mapping := (sorted.map (·.2)).zipIdx
    pure (g.relabelCopy mapping)

/-- `_sort_molecule_by_label(m)` -/
def sortMoleculeByLabel (g : Graph) : Graph :=
  let ns := g.nodes.mergeSort fun a b => decide (a.id ≤ b.id)
  let h : Graph := ns.foldl (fun h n => h.addNodeWith n.id n.attrs) Graph.empty
  g.edges.foldl (fun h (u, v, d) => h.addEdge u v d) h

/-- `_permute_molecule(m)` with the outcome of `random.shuffle` given -/
def permuteOnce (g : Graph) (shuffled : List Nat) : Graph :=
  sortMoleculeByLabel (g.relabelCopy (shuffled.zip g.labels))

/-- `m.edges == m'.edges`: set equality of undirected edges -/
def sameEdgeSet (g h : Graph) : Bool :=
  g.numberOfEdges == h.numberOfEdges &&
  g.edges.all fun (u, v, _) => (h.edgeData? u v).isSome

/-- `permute_molecule(m, seed)`; `shuffles` is the stream of results `random.shuffle` produces after
`random.seed(seed)`.  Running out of recorded shuffles is not a Python behaviour (`other`). -/
def permuteMolecule (g : Graph) (shuffles : List (List Nat)) : PyM Graph :=
  match shuffles with
  | [] => .error .other
  | s :: rest =>
    let p := permuteOnce g s
    let n := g.numberOfNodes
    let enforce := g.numberOfEdges > 1 && 2 * g.numberOfEdges != n * (n - 1)
    if enforce then retry p rest else .ok p
where
  retry (p : Graph) : List (List Nat) → PyM Graph
    | [] => if sameEdgeSet g p then .error .other else .ok p
    | s :: rest => if sameEdgeSet g p then retry (permuteOnce g s) rest else .ok p

end Tucan
