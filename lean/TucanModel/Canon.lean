import TucanModel.GraphUtils
/-!
# `tucan/canonicalization.py`
-/
namespace Tucan

/-- ranks of the sequences among the sorted unique sequences -/
def ranksOf (seqs : List Seq) : List Nat :=
  let uniq := dedupAdj (sortS seqs)
  seqs.map fun s => (indexOf? s uniq).getD 0

/-- `partition_molecule_by_attribute(m, attribute)` -/
def partitionMoleculeByAttribute (g : Graph) (attr : AttrName) : PyM Graph := do
  let seqs ← g.labels.mapM fun a => attributeSequence g a attr
  let parts := ranksOf seqs
  let h := g.copy
  let assoc := h.labels.zip parts
  pure (h.mapAttrs fun a atm => match alookup a assoc with
    | some p => { atm with part := some (p : Int) }
    | none => atm)

/-- `get_number_of_partitions(m)`: `max` of the partition values present -/
def getNumberOfPartitions (g : Graph) : PyM Int :=
  match g.nodes.filterMap (·.attrs.part) with
  | [] => .error .valueError
  | p :: ps => .ok (ps.foldl max p)

/-- `refine_partitions(m)`: repeat until the class count stops growing; returns the final graph and
the number of rounds.  `fuel` is a bound on the number of rounds; running out of it is *not* a
Python behaviour (`other`) and is proved unreachable for `fuel = n + 1` (C15). -/
def refineLoop : Nat → Graph → Nat → PyM (Graph × Nat)
  | 0, _, _ => .error .other
  | fuel + 1, g, rounds => do
    let r ← partitionMoleculeByAttribute g .partition
    let n1 ← getNumberOfPartitions r
    let n0 ← getNumberOfPartitions g
    if n1 == n0 then pure (r, rounds + 1) else refineLoop fuel r (rounds + 1)

def refinePartitions (g : Graph) : PyM (Graph × Nat) := refineLoop (g.numberOfNodes + 1) g 0

/-- `assign_canonical_labels(m)`.  `order` is igraph's answer: the old label sitting at each position
of the canonical form `permute_vertices(canonical_permutation(color=partition))`.  The result maps
old label `order[i]` to canonical label `i`. -/
def assignCanonicalLabels (order : List Nat) : List (Nat × Nat) := order.zipIdx

/-- `canonicalize_molecule(m)`; returns the canonical graph, the refined graph handed to bliss and
the number of refinement rounds -/
def canonicalizeWith (g : Graph) (oracle : Graph → List Nat) : PyM (Graph × Graph × Nat) := do
  let p ← partitionMoleculeByAttribute g .invariantCode
  let (r, rounds) ← refinePartitions p
  pure (r.relabelCopy (assignCanonicalLabels (oracle r)), r, rounds)

end Tucan
