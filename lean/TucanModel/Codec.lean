import TucanModel.Nx
/-!
# Line-protocol codec (driver side)

Tokens are separated by single blanks.  A string token starts with `"`; inside it `\s` is a blank,
`\\` a backslash, `\n`, `\r`, `\t` the usual, `\u{hex}` any other code point.  `_` is `None`.
The dump functions print values in the one canonical text form that the Python harness also
produces for the results of the real code.
-/
namespace Tucan.Codec
open Tucan

abbrev P := StateT (List String) (Except String)

def next : P String := do
  match (← get) with
  | [] => throw "unexpected end of line"
  | t :: r => set r; pure t

def peek? : P (Option String) := do
  match (← get) with
  | [] => pure none
  | t :: _ => pure (some t)

def hexVal (c : Char) : Nat :=
  if '0' ≤ c && c ≤ '9' then c.toNat - '0'.toNat
  else if 'a' ≤ c && c ≤ 'f' then c.toNat - 'a'.toNat + 10
  else if 'A' ≤ c && c ≤ 'F' then c.toNat - 'A'.toNat + 10 else 0

partial def unescape : List Char → List Char
  | [] => []
  | '\\' :: 's' :: r => ' ' :: unescape r
  | '\\' :: '\\' :: r => '\\' :: unescape r
  | '\\' :: 'n' :: r => '\n' :: unescape r
  | '\\' :: 'r' :: r => '\r' :: unescape r
  | '\\' :: 't' :: r => '\t' :: unescape r
  | '\\' :: 'u' :: '{' :: r =>
    let hex := r.takeWhile (· != '}')
    let rest := (r.dropWhile (· != '}')).drop 1
    Char.ofNat (hex.foldl (fun a c => a * 16 + hexVal c) 0) :: unescape rest
  | c :: r => c :: unescape r

def hexDigits (n : Nat) : List Char := (Nat.toDigits 16 n)

def escape (s : List Char) : String :=
  String.ofList ('"' :: s.flatMap fun c =>
    if c == ' ' then ['\\', 's']
    else if c == '\\' then ['\\', '\\']
    else if c == '\n' then ['\\', 'n']
    else if c == '\r' then ['\\', 'r']
    else if c == '\t' then ['\\', 't']
    else if c.toNat < 33 || c.toNat > 126 then ['\\', 'u', '{'] ++ hexDigits c.toNat ++ ['}']
    else [c])

def str : P Str := do
  let t ← next
  match t.toList with
  | '"' :: r => pure (unescape r)
  | _ => throw s!"expected string token, got {t}"

def optStr : P (Option Str) := do
  match (← peek?) with
  | some "_" => let _ ← next; pure none
  | _ => some <$> str

def nat : P Nat := do
  let t ← next
  match t.toNat? with
  | some n => pure n
  | none => throw s!"expected nat, got {t}"

def int : P Int := do
  let t ← next
  match t.toInt? with
  | some n => pure n
  | none => throw s!"expected int, got {t}"

def optInt : P (Option Int) := do
  match (← peek?) with
  | some "_" => let _ ← next; pure none
  | _ => some <$> int

def optBool : P (Option Bool) := do
  let t ← next
  match t with
  | "_" => pure none
  | "T" => pure (some true)
  | "F" => pure (some false)
  | _ => throw s!"expected bool, got {t}"

def optIntList : P (Option (List Int)) := do
  let t ← next
  if t == "_" then pure none
  else if t == "nil" then pure (some [])
  else pure (some ((t.splitOn ",").filterMap (·.toInt?)))

def many {α} (n : Nat) (p : P α) : P (List α) := do
  let mut acc := []
  for _ in [0:n] do
    acc := (← p) :: acc
  pure acc.reverse

def natList : P (List Nat) := do let n ← nat; many n nat
def strList : P (List Str) := do let n ← nat; many n str

def atom : P Atom := do
  let sym ← optStr; let z ← optInt; let part ← optInt; let mass ← optInt; let rad ← optInt
  let chg ← optInt; let x ← optStr; let y ← optStr; let zc ← optStr; let inv ← optIntList
  let explored ← optBool; let extra ← optStr
  pure { sym, z, part, mass, rad, chg, x, y, zc, inv, explored, extra }

def bond : P Bond := do
  let btype ← optInt; let extra ← optStr
  pure { btype, extra }

def node : P Node := do
  let id ← nat
  let a ← atom
  let deg ← nat
  let nb ← many deg (do let v ← nat; let b ← bond; pure (v, b))
  pure ⟨id, a, nb⟩

def graph : P Graph := do
  let n ← nat
  let ns ← many n node
  pure ⟨ns⟩

/-- a dictionary `atom index -> attributes` -/
def atomDict : P (List (Int × Atom)) := do
  let n ← nat
  many n (do let k ← int; let a ← atom; pure (k, a))

def bondDict : P (List ((Int × Int) × Bond)) := do
  let n ← nat
  many n (do let u ← int; let v ← int; let b ← bond; pure ((u, v), b))

/-! ## dumps -/

def showStr (s : Str) : String := escape s
def showOpt {α} (f : α → String) : Option α → String
  | none => "_"
  | some a => f a
def showInt (i : Int) : String := toString i
def showIntList (l : List Int) : String := if l.isEmpty then "nil" else ",".intercalate (l.map toString)
def showNatList (l : List Nat) : String := "[" ++ ",".intercalate (l.map toString) ++ "]"

def showAtom (a : Atom) : String :=
  let fields : List (String × Option String) := [
    ("sym", a.sym.map showStr), ("z", a.z.map showInt), ("part", a.part.map showInt),
    ("mass", a.mass.map showInt), ("rad", a.rad.map showInt), ("chg", a.chg.map showInt),
    ("x", a.x.map showStr), ("y", a.y.map showStr), ("zc", a.zc.map showStr),
    ("inv", a.inv.map showIntList), ("explored", a.explored.map fun b => if b then "T" else "F"),
    ("extra", a.extra.map showStr)]
  "{" ++ ",".intercalate (fields.filterMap fun (k, v) => v.map fun s => k ++ "=" ++ s) ++ "}"

def showBond (b : Bond) : String :=
  let fields : List (String × Option String) := [("bt", b.btype.map showInt), ("extra", b.extra.map showStr)]
  "(" ++ ",".intercalate (fields.filterMap fun (k, v) => v.map fun s => k ++ "=" ++ s) ++ ")"

def showNode (n : Node) : String :=
  toString n.id ++ showAtom n.attrs ++ ":" ++ ",".intercalate (n.nbrs.map fun (v, b) => toString v ++ showBond b)

def showGraph (g : Graph) : String := "G[" ++ "|".intercalate (g.nodes.map showNode) ++ "]"

def showAtomDict (d : List (Int × Atom)) : String :=
  "A[" ++ "|".intercalate (d.map fun (k, a) => toString k ++ showAtom a) ++ "]"

def showBondDict (d : List ((Int × Int) × Bond)) : String :=
  "B[" ++ "|".intercalate (d.map fun ((u, v), b) => toString u ++ "-" ++ toString v ++ showBond b) ++ "]"

def showErr (e : PyErr) : String := "ERR " ++ e.name

def showPairs (l : List (Nat × Nat)) : String :=
  "[" ++ ",".intercalate (l.map fun (a, b) => toString a ++ ":" ++ toString b) ++ "]"

def showStrList (l : List Str) : String := "[" ++ ",".intercalate (l.map showStr) ++ "]"

end Tucan.Codec
