import TucanProofs.Lemmas.Refine
/-!
# The contract of igraph/bliss

`igraph.Graph.canonical_permutation(color=partition)` followed by `permute_vertices` is C code the
library does not implement.  It enters the model as a *parameter* constrained by this contract; every
theorem that uses it is proved for every oracle meeting the contract.  The harness checks `perm` on
every real answer and `canonical` on every pair of colour-isomorphic inputs it generates.
-/
namespace Tucan

/-- equal partition class (the vertex colour handed to bliss) -/
def SamePart (x y : Atom) : Prop := x.part = y.part

structure CanonOracle where
  /-- the old label sitting at each position of the canonical form -/
  order : Graph → List Nat
  /-- the answer is a permutation of the vertices -/
  perm : ∀ r : Graph, r.WF → (order r).Perm r.labels
  /-- colour-isomorphic graphs have identical canonical forms: position by position the same colour, and
  the same adjacency between positions -/
  canonical : ∀ (f : Nat → Nat) (r r' : Graph), r.WF → r'.WF → Iso SamePart f r r' →
    ∀ (i j a b a' b' : Nat), (order r)[i]? = some a → (order r)[j]? = some b →
      (order r')[i]? = some a' → (order r')[j]? = some b' →
      partOf? r a = partOf? r' a' ∧ (r.Adj a b ↔ r'.Adj a' b')

end Tucan
