import TucanModel.Canon
import TucanModel.Serialize
/-!
# Specification-level notions shared by the property theorems

* `Graph.WF` — the well-formedness every graph built through networkx's API has
  (distinct node keys, adjacency closed, symmetric with the same bond record, no duplicates).
* `Relabel f g h` — `h` is `g` with every atom `a` renamed `f a`, *in any listing order of atoms
  and neighbours*, all atom attributes and bond records carried along.
* `Iso RA f g h` — the same with the atom attributes only related by `RA` and bond records free.
  With `RA := SameIdent` this is "two descriptions of the same molecule": numbering, listing order
  of atoms and bonds, bond orientation, charges, coordinates and bond types are all free.
-/
namespace Tucan

namespace Graph

/-- `G.nodes[a]` as an option -/
def attrs? (g : Graph) (a : Nat) : Option Atom := (g.find? a).map (·.attrs)

/-- `G._adj[a]` as an association list (`[]` for a missing node) -/
def nbrsD (g : Graph) (a : Nat) : List (Nat × Bond) :=
  match g.find? a with
  | some n => n.nbrs
  | none => []

/-- adjacency as a proposition -/
def Adj (g : Graph) (a b : Nat) : Prop := b ∈ g.nbrs a

structure WF (g : Graph) : Prop where
  nodup : g.labels.Nodup
  nbrNodup : ∀ n ∈ g.nodes, (n.nbrs.map (·.1)).Nodup
  closed : ∀ n ∈ g.nodes, ∀ e ∈ n.nbrs, e.1 ∈ g.labels
  symm : ∀ n ∈ g.nodes, ∀ e ∈ n.nbrs, (n.id, e.2) ∈ g.nbrsD e.1

/-- no self-loops (molecules are simple graphs) -/
def Simple (g : Graph) : Prop := ∀ n ∈ g.nodes, ∀ e ∈ n.nbrs, e.1 ≠ n.id

end Graph

/-- `h` is `g` renamed by `f`, in any listing; every attribute and bond record is carried along. -/
structure Relabel (f : Nat → Nat) (g h : Graph) : Prop where
  labels : h.labels.Perm (g.labels.map f)
  inj : ∀ a ∈ g.labels, ∀ b ∈ g.labels, f a = f b → a = b
  attrs : ∀ a ∈ g.labels, h.attrs? (f a) = g.attrs? a
  nbrs : ∀ a ∈ g.labels, (h.nbrsD (f a)).Perm ((g.nbrsD a).map fun e => (f e.1, e.2))

/-- `h` is `g` renamed by `f`, in any listing, with atom attributes related by `RA`;
bond records are not constrained. -/
structure Iso (RA : Atom → Atom → Prop) (f : Nat → Nat) (g h : Graph) : Prop where
  labels : h.labels.Perm (g.labels.map f)
  inj : ∀ a ∈ g.labels, ∀ b ∈ g.labels, f a = f b → a = b
  attrs : ∀ a ∈ g.labels, ∃ x y, g.attrs? a = some x ∧ h.attrs? (f a) = some y ∧ RA x y
  nbrs : ∀ a ∈ g.labels, (h.nbrs (f a)).Perm ((g.nbrs a).map f)

/-- identity colour of an atom as TUCAN models it: element, isotope mass, radical -/
def Atom.ident (a : Atom) : Option Int × Option Int × Option Int := (a.z, a.mass, a.rad)

/-- what two descriptions of the same molecule must agree on, atom by atom -/
def SameIdent (x y : Atom) : Prop :=
  x.z = y.z ∧ x.sym = y.sym ∧ x.mass = y.mass ∧ x.rad = y.rad ∧ x.inv = y.inv

/-- same identity and same partition class -/
def SameIdentPart (x y : Atom) : Prop := SameIdent x y ∧ x.part = y.part

/-- equal sort key for attribute `k` -/
def SameKey (k : AttrName) (x y : Atom) : Prop := x.key k = y.key k

end Tucan
