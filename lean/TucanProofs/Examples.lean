import TucanProofs.Spec
/-!
# A concrete molecule used to show that the hypotheses of the property theorems are satisfiable

Acetaldehyde-like fragment with an isotope label: atoms 0 (C, mass 13), 1 (C), 2 (O), bonds 0-1, 1-2,
listed in a non-trivial order with bond types and a charge.
-/
namespace Tucan

def exAtomC13 : Atom := { sym := some ['C'], z := some 6, part := some 0, mass := some 13, inv := some [6, 13, 0] }
def exAtomC : Atom := { sym := some ['C'], z := some 6, part := some 0, inv := some [6, 0, 0], chg := some 1 }
def exAtomO : Atom := { sym := some ['O'], z := some 8, part := some 0, inv := some [8, 0, 0] }

def exGraph : Graph := ⟨[
  ⟨2, exAtomO, [(1, { btype := some 2 })]⟩,
  ⟨0, exAtomC13, [(1, { btype := some 1 })]⟩,
  ⟨1, exAtomC, [(0, { btype := some 1 }), (2, { btype := some 2 })]⟩]⟩

theorem exGraph_wf : exGraph.WF := by
  refine ⟨by decide, ?_, ?_, ?_⟩ <;> decide

theorem exGraph_simple : exGraph.Simple := by
  unfold Graph.Simple; decide

end Tucan
