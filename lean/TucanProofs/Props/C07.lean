import TucanProofs.Lemmas.Wrap
/-! # C07 — property theorems (see DESIGN.md §5) -/
namespace Tucan

/-- Splicing the physical lines the writer produces for a logical line restores that line, for every
length; the hypothesis says the logical line itself does not end in a dash. -/
theorem C07_splice_wrap (line : Str) (rest : List Str) (h : endsWithChar (v30Prefix ++ line) '-' = false) :
    concatLinesWithDash (addV30Line line ++ rest) = expectedSplice (v30Prefix ++ line) rest := splice_wrap line rest h

/-- no physical line exceeds 79 characters -/
theorem C07_line_length (line : Str) : ∀ p ∈ addV30Line line, p.length ≤ 79 := addV30Line_length_le line

end Tucan
