import TucanProofs.Lemmas.LineMachinery
import TucanProofs.Lemmas.SpliceAny
import TucanProofs.Lemmas.V3000Lines
import TucanProofs.Lemmas.V3000File
import TucanProofs.Lemmas.GraphFromMoleculeKeys
import TucanProofs.Lemmas.Files
import TucanProofs.Lemmas.StarExample
import TucanProofs.Lemmas.FileRead
/-!
# C07 — the V3000 reader decodes exactly the molecule the file states

About the V3000 reader model.  The full reader (`graphAttributesV3000`, `graphFromMolfileText`) is tied to
the code by the correspondence on spec-derived renderings; the theorems cover the line machinery every
spelling goes through.

What "every spelling" quantifies over in the theorems below, and what it leaves to the correspondence: blank runs
of any length and wraps at any position, properties in any order with other keywords in between, repeated keys,
explicit defaults, any indices.  Narrower than the format: integers are spelled as Python's `str` spells them (no
`CHG=+1`, no `01`), blanks are U+0020, the tokens before `ENDPTS=(` contain no `)` (no other parenthesised keyword
in front of it), coordinates are opaque tokens that `float()` accepts (their numeric value is not modelled), and an
index token is "a token `int()` reads as the index" (through the model's `pyInt`).  Those other spellings — Unicode
blanks and digits, signs, leading zeros — are compared with the interpreter on every run (`INT`, `FLOATOK`,
`SPLITWS`, `CHARCLASS` operations and the exotic-mutation stream of the C07/C08 workloads), not proved.
-/
namespace Tucan

/-- **C07, the whole connection table under every spelling.**  Header, version line, and the logical
`M  V30 ` lines (any line at position 4, the counts line, `BEGIN ATOM`, one line per real or star atom,
`END ATOM`, and — unless the bond count is zero — `BEGIN BOND`, one line per bond, `END BOND`), followed by
any further lines; every logical line written with arbitrary runs of blanks and split into physical lines
at arbitrary positions with a trailing dash; atom properties in any order with other keywords in between;
arbitrary (sparse, large, unordered) atom indices; multi-attachment bonds to star atoms.  The reader returns
one atom per non-star atom line, in file order, keyed by the written index, with the stated element, charge,
radical, mass and coordinate tokens, and one bond per bond line between real atoms plus one bond per listed
endpoint for a bond to a star atom, each with the stated type. -/
theorem C07_connection_table_every_spelling (h0 h1 h2 h3 : Str) (line4 : List Str) (countsRest : List Str)
    (atoms : List AtomEntry) (bonds : List BondEntry) (tailLines tailSpliced : List Str)
    (p4 pCounts pBeginAtom pEndAtom pBeginBond pEndBond : List Str) (pAtoms pBonds : List (List Str))
    (hhdr : ∀ h ∈ [h0, h1, h2, h3], (startsWith h v30Prefix && endsWithChar h '-') = false)
    (r4 : Rendered line4 p4)
    (rCounts : Rendered (cs "COUNTS" :: natRepr atoms.length :: natRepr bonds.length :: countsRest) pCounts)
    (rBA : Rendered [cs "BEGIN", cs "ATOM"] pBeginAtom) (rEA : Rendered [cs "END", cs "ATOM"] pEndAtom)
    (rBB : Rendered [cs "BEGIN", cs "BOND"] pBeginBond) (rEB : Rendered [cs "END", cs "BOND"] pEndBond)
    (rAtoms : AllRendered AtomEntry.toks atoms pAtoms)
    (rBonds : AllRendered BondEntry.toks bonds pBonds)
    (hatoms : ∀ e ∈ atoms, e.Ok) (hbonds : ∀ b ∈ bonds, b.Ok)
    (hcounts : (natRepr atoms.length).length ≤ intMaxStrDigits ∧ (natRepr bonds.length).length ≤ intMaxStrDigits)
    (hnostar2 : ∀ b ∈ bonds, ¬ ((starsOf atoms).contains (b.a1 - 1) ∧ (starsOf atoms).contains (b.a2 - 1)))
    (hendpoints : ∀ b ∈ bonds, ∀ t ∈ b.tuples (starsOf atoms),
      (alookup t.1 (atomDictOf atoms)).isSome ∧ (alookup t.2 (atomDictOf atoms)).isSome)
    (htail : concatLinesWithDash tailLines = .ok tailSpliced) (htailne : tailLines ≠ []) :
    graphAttributesV3000
      (h0 :: h1 :: h2 :: h3 :: (p4 ++ pCounts ++ pBeginAtom ++ pAtoms.flatten ++ pEndAtom ++
        (if bonds.isEmpty then [] else pBeginBond ++ pBonds.flatten ++ pEndBond) ++ tailLines)) =
      .ok (atomDictOf atoms, bondDictOf (starsOf atoms) bonds) :=
  graphAttributesV3000_spec h0 h1 h2 h3 line4 countsRest atoms bonds tailLines tailSpliced p4 pCounts pBeginAtom
    pEndAtom pBeginBond pEndBond pAtoms pBonds hhdr r4 rCounts rBA rEA rBB rEB rAtoms rBonds hatoms hbonds hcounts
    hnostar2 hendpoints htail htailne

/-- **Arbitrary unique atom indices are renumbered consecutively in file order**: `graph_from_molecule` turns an
atom dictionary with any distinct keys into a graph whose node `i` is the atom listed at position `i`, and a
bond between two keys into a bond between their positions, with its record. -/
theorem C07_consecutive_renumbering (atoms : List (Int × Atom)) (bonds : List ((Int × Int) × Bond))
    (hk : (atoms.map (·.1)).Nodup) (hb : GoodKeyBonds atoms bonds) (hz : ∀ a ∈ atoms, a.2.z.isSome) :
    ∃ g post, graphFromMolecule atoms bonds = .ok (g, post) ∧
      g.labels = List.range atoms.length ∧ g.WF ∧ g.Simple ∧
      (∀ i (hi : i < atoms.length), ∃ x, addInvariantCode (atoms[i]).2 = .ok x ∧ g.attrs? i = some x) ∧
      (∀ i j d, (j, d) ∈ g.nbrsD i ↔
        ∃ k l, keyPos atoms k = some i ∧ keyPos atoms l = some j ∧
          (((k, l), d) ∈ bonds ∨ ((l, k), d) ∈ bonds)) :=
  graphFromMolecule_keys atoms bonds hk hb hz

/-- **Text level.**  The text of a V3000 file (any header lines, fourth line ending in `V3000`, any of the three
line-ending styles, the last line with or without terminator) is read by `graph_from_molfile_text` as the
graph `graph_from_molecule` builds from what the table states. -/
theorem C07_text_to_graph (text : Str) (lines : List Str) (atoms : List AtomEntry) (bonds : List BondEntry)
    (ht : IsTextOf text lines) (f : IsV3000File lines atoms bonds) (hb : V3BondsOk atoms bonds)
    (hver : ∀ l3, lines[3]? = some l3 → EndsInWord l3 (cs "V3000")) :
    graphFromMolfileText text =
      (graphFromMolecule (atomDictOf atoms) (bondDictOf (starsOf atoms) bonds) >>= fun q => pure q.1) := by
  obtain ⟨hnb, eol, he, htext⟩ := ht
  obtain ⟨l3, hl3⟩ := f.line3
  rw [(graphFromMolfileText_dispatch eol he lines hnb text htext l3 hl3).1 (hver l3 hl3), f.reads hb]
  rfl

/-- **Continuation at any split point.**  However a logical line is split over physical lines — inside a
token, directly after a minus sign, before or after a blank, once or many times — splicing restores it
(the logical line itself must not end in a dash, which no atom or bond line does). -/
theorem C07_splice_any_split (parts : List Str) (last : Str) (rest : List Str)
    (h : endsWithChar (v30Prefix ++ parts.flatten ++ last) '-' = false) :
    concatLinesWithDash (physicalLines parts last ++ rest) = expectedSplice (v30Prefix ++ parts.flatten ++ last) rest :=
  splice_any_split parts last rest h

/-- lines that are not continuation lines (header, counts line, `M  END`, …) pass through unchanged -/
theorem C07_splice_passthrough (pre : List Str)
    (h : ∀ l ∈ pre, (startsWith l v30Prefix && endsWithChar l '-') = false) (rest : List Str) (hr : rest ≠ []) :
    concatLinesWithDash (pre ++ rest) = (concatLinesWithDash rest).map (pre ++ ·) :=
  splice_passthrough pre h rest hr

/-- **Arbitrary runs of blanks.**  Tokens separated by any number (≥ 1) of blanks, with leading and trailing
blanks, are recovered exactly. -/
theorem C07_tokenize_blank_runs (toks : List Str) (h : ∀ t ∈ toks, IsToken t) (lead trail : Nat) (gaps : List Nat) :
    tokenizeLine (joinBlanks lead trail toks gaps) = toks :=
  tokenizeLine_joinBlanks toks h lead trail gaps

/-- **The atom line under every spelling.**  Key=value properties in ANY order, other spec-defined keywords
(whatever their values, `EXACHG`, `RGROUPS=(…)`, … ) anywhere in between, repeated keys, explicitly written
defaults, `D` / `T`: the reader returns the stated element, the coordinate tokens, and for charge, radical
and mass the last value written under exactly that keyword, with 0 meaning "not set". -/
theorem C07_atom_line_every_spelling (idxTok sym x y z aamap : Str) (ps : List AtomProp)
    (hidx : NotKeyword idxTok) (haa : NotKeyword aamap)
    (hx : ∀ t ∈ [x, y, z], IsToken t ∧ pyFloatOk t = true)
    (hps : ∀ p ∈ ps, p.Ok)
    (hsym : sym ∈ elementSyms ∨ sym = ['D'] ∨ sym = ['T']) :
    ∃ zAt : Int, atomicNumberOf (detectHydrogenIsotopes sym).1 = .ok zAt ∧
    parseAtomAttributesV3000 (cs "M" :: cs "V30" :: idxTok :: sym :: x :: y :: z :: aamap :: ps.map AtomProp.tok) =
      .ok (some { sym := some (detectHydrogenIsotopes sym).1, z := some zAt, part := some 0,
                  x := some x, y := some y, zc := some z,
                  chg := lastNonZero (chgValues ps),
                  mass := if (detectHydrogenIsotopes sym).2 = 0 then lastNonZero (massValues ps)
                          else some (detectHydrogenIsotopes sym).2,
                  rad := lastNonZero (radValues ps) }) :=
  parseAtomAttributes_general idxTok sym x y z aamap ps hidx haa hx hps hsym

/-- star atoms are not atoms of the molecule -/
theorem C07_star_atom (idxTok : Str) (rest : List Str) :
    parseAtomAttributesV3000 (cs "M" :: cs "V30" :: idxTok :: ['*'] :: rest) = .ok none :=
  parseAtomAttributes_star idxTok rest

/-- **Multi-attachment bonds expand to one bond per listed endpoint** (`ENDPTS=(n a₁ … aₙ)` anywhere among
the optional keywords of the bond line). -/
theorem C07_endpts_expansion (pre post : List Str) (ends : List Nat) (start : Int) (hne : ends ≠ [])
    (hpre : ∀ t ∈ pre, IsToken t ∧ ¬ isInfix (cs "ENDPTS=(") t = true ∧ ')' ∉ t)
    (hpost : ∀ t ∈ post, IsToken t ∧ ')' ∉ t)
    (hsize : ∀ e ∈ ends.length :: ends, (natRepr e).length ≤ intMaxStrDigits) :
    parseBondLineWithStarAtom (pre ++ endptsToks ends ++ post) start =
      .ok (ends.map fun (e : Nat) => (start, (e : Int) - 1)) :=
  parseBondLineWithStarAtom_endpts pre post ends start hne hpre hpost hsize

/-- integer fields read back -/
theorem C07_int_fields (i : Int) (h : (intRepr i).length ≤ intMaxStrDigits) : pyInt (intRepr i) = .ok i :=
  pyInt_intRepr i h

/-- every element symbol of the table is known to the reader, with atomic number 1 … 118 -/
theorem C07_symbols_known (s : Str) (h : s ∈ elementSyms) : ∃ z : Int, atomicNumberOf s = .ok z ∧ 1 ≤ z ∧ z ≤ 118 :=
  atomicNumberOf_elementSyms s h

/-- `D` and `T` denote hydrogen of mass 2 and 3; every other symbol denotes itself -/
theorem C07_hydrogen_isotopes :
    detectHydrogenIsotopes ['D'] = (['H'], 2) ∧ detectHydrogenIsotopes ['T'] = (['H'], 3) ∧
    ∀ s, s ≠ ['D'] → s ≠ ['T'] → detectHydrogenIsotopes s = (s, 0) := by
  refine ⟨rfl, rfl, ?_⟩
  intro s h1 h2
  simp [detectHydrogenIsotopes, h1, h2]

/-- an explicitly written default means the same as omitting the keyword; otherwise the last value wins -/
theorem C07_explicit_zero_is_default (vals : List Int) :
    lastNonZero (vals ++ [0]) = none ∧ lastNonZero [] = none ∧ ∀ v, v ≠ 0 → lastNonZero (vals ++ [v]) = some v := by
  refine ⟨by simp [lastNonZero], by simp [lastNonZero], ?_⟩
  intro v hv
  simp [lastNonZero, hv]

end Tucan

namespace Tucan
/-- non-vacuity of `C07_connection_table_every_spelling` with a star atom: atom indices 1, 2, 5 (star), 9, a bond
`9–5` with `ATTACH=ALL ENDPTS=(2 1 2)`: three atoms come back (keys 0, 1, 8) and three bonds, one from the iron
to each listed endpoint -/
example : graphAttributesV3000 StarExample.lines =
      .ok (atomDictOf StarExample.atoms, bondDictOf (starsOf StarExample.atoms) StarExample.bonds) ∧
    (atomDictOf StarExample.atoms).map (·.1) = [0, 1, 8] ∧
    (bondDictOf (starsOf StarExample.atoms) StarExample.bonds).map (·.1) = [(0, 1), (8, 0), (8, 1)] :=
  ⟨StarExample.reads.1, StarExample.reads.2.1, StarExample.reads.2.2.2⟩
end Tucan

namespace Tucan
def okEq (r : PyM (List Int)) (l : List Int) : Bool := match r with
  | .ok l' => l' == l
  | .error _ => false

/-- keyword detection is exact: `EXACHG=1` is not a charge (the defect repaired in /repo), in any order -/
example : okEq (keywordValues (cs "CHG") [cs "EXACHG=1", cs "CHG=-1"]) [-1] = true ∧
    okEq (keywordValues (cs "CHG") [cs "CHG=-1", cs "EXACHG=1"]) [-1] = true ∧
    okEq (keywordValues (cs "MASS") [cs "CHG=-1", cs "RAD=2"]) [] = true := by
  refine ⟨?_, ?_, ?_⟩ <;> decide +kernel
/-- **`graph_from_file` reads what `graph_from_molfile_text` reads.**  The file is opened in text mode, so Python's
universal-newlines translation rewrites `\r\n` and a lone `\r` to `\n` before the text is split into lines;
`splitlines` treats exactly those as one terminator, so for EVERY decoded content the translated text splits into
the same lines and the graph (or the exception) is the same.  Every theorem about `graphFromMolfileText` is thereby
a theorem about files on disk; not modelled: the filesystem and the decoding of the bytes (the suffix check in front
of the `open` is `C07_graph_from_file_suffix`). -/
theorem C07_graph_from_file (t : Str) :
    splitLines (universalNewlines t) = splitLines t ∧ graphFromFileContent t = graphFromMolfileText t :=
  ⟨splitLines_universalNewlines t, graphFromFileContent_eq t⟩

/-- … and the suffix check in front of it: `.mol` is read, every other suffix is refused with `IOError` before the
file is opened -/
theorem C07_graph_from_file_suffix (suffix t : Str) :
    (suffix = cs ".mol" → graphFromFile suffix t = graphFromMolfileText t) ∧
    (suffix ≠ cs ".mol" → graphFromFile suffix t = .error .osError) :=
  graphFromFile_spec suffix t

/-- non-vacuity: the translation does change the text -/
example : universalNewlines ['a', '\r', '\n', 'b', '\r', 'c', '\n'] = ['a', '\n', 'b', '\n', 'c', '\n'] :=
  universalNewlines_example

end Tucan
