import TucanProofs.Lemmas.RejectKind
import TucanProofs.Lemmas.Sentence
import TucanProofs.Lemmas.ParserDenotation
import TucanProofs.Lemmas.AcceptIff
import TucanProofs.Lemmas.TablesPin
import TucanProofs.Lemmas.MoreExamples
/-!
# C10 — the parser accepts exactly the grammar; every rejection is the parser's own exception

The Lean reader (`lex`, `parseTucan`, listener, `toGraph`) is the "independent reference reader written
from the EBNF" the property names; its grammar tables are regenerated from the executing ANTLR artifact
on every run and the real parser is compared with it on generated sentences and their single-token edits
(accept/reject, exception type, graph).  About the reference reader itself:
-/
namespace Tucan

/-- **Every other string is rejected with the parser's own exception type** — never `KeyError`,
`IndexError`, `ValueError` (over-long integer literals included) or anything else. -/
theorem C10_reject_kind (s : Str) (e : PyErr) (h : graphFromTucan s = .error e) : e = .tucanParser :=
  graphFromTucan_error_kind s e h

/-- **The recogniser accepts exactly the sentences of the published grammar**, transcribed rule by rule
as the inductive relation `Sentence`, and returns exactly their syntax tree. -/
theorem C10_recogniser_iff_grammar (ts : List Tok) (ast : Ast) : parseTucan ts = some ast ↔ Sentence ts ast :=
  parseTucan_iff ts ast

/-- an accepted string is a sentence of the grammar (lexically and syntactically) -/
theorem C10_accepted_is_sentence (s : Str) (g : Graph) (h : graphFromTucan s = .ok g) :
    ∃ toks ast, lex s = some toks ∧ Sentence toks ast := by
  unfold graphFromTucan at h
  cases hl : lex s with
  | none => simp [hl, bind, Except.bind] at h
  | some toks =>
    cases hp : parseTucan toks with
    | none => simp [hl, hp, bind, Except.bind, pure, Except.pure] at h
    | some ast => exact ⟨toks, ast, rfl, (parseTucan_iff toks ast).mp hp⟩

/-- **Acceptance, exactly.**  A string is accepted if and only if it is a sentence of the grammar whose bond
and attribute indices refer to existing atoms (an index is at most the number of atoms the formula states),
which has no bond from an atom to itself and sets no attribute key twice on one atom — within a block or across
blocks — and (the one line the interpreter draws, not the grammar) none of whose integer literals exceeds
CPython's conversion limit of 4300 digits. -/
theorem C10_accepts_iff (s : Str) :
    (∃ g, graphFromTucan s = .ok g) ↔ ∃ toks ast, lex s = some toks ∧ Sentence toks ast ∧ ast.Valid :=
  graphFromTucan_accepts_iff s

/-- what `Valid` asks, spelled out -/
theorem C10_valid_spelled_out (ast : Ast) : ast.Valid ↔
    (∀ t ∈ ast.literals, t.length ≤ intMaxStrDigits) ∧
    (∀ p ∈ ast.tuples, litVal p.1 ≤ ast.atomCount ∧ litVal p.2 ≤ ast.atomCount ∧ litVal p.1 ≠ litVal p.2) ∧
    (∀ b ∈ ast.attrs, litVal b.1 ≤ ast.atomCount) ∧ ast.settings.Nodup :=
  ⟨fun h => ⟨h.lits, h.tuples, h.attrIdx, h.once⟩, fun ⟨a, b, c, d⟩ => ⟨a, b, c, d⟩⟩

/-- **The returned graph is the denoted graph.**  For every listener state an accepted string gives rise
to (`GoodState`: atoms of the formula, bonds between different existing atoms in any order / orientation /
multiplicity, attribute records on existing atoms), `to_graph` returns the graph with exactly the atoms of
the formula numbered `0 … n-1` by increasing atomic number (stable sort of the formula's expansion),
exactly the listed attributes joined onto the indexed atoms, and exactly the listed bonds as a set. -/
theorem C10_denotation (st : ListenerState) (h : GoodState st) :
    ∃ g, toGraph st = .ok g ∧ g.labels = List.range st.atoms.length ∧ g.WF ∧ g.Simple ∧
      (∀ i, i < st.atoms.length → ∃ x, addInvariantCode (atomAt st i) = .ok x ∧ g.attrs? i = some x) ∧
      (∀ i j : Nat, g.Adj i j ↔ ((i : Int), (j : Int)) ∈ st.bonds ∨ ((j : Int), (i : Int)) ∈ st.bonds) :=
  toGraph_spec st h

/-- **"numbered by increasing atomic number"**: the arrangement `C10_denotation` speaks of (`sortAtomsByZ`) is a
rearrangement of the formula's atoms in which the atomic number never decreases -/
theorem C10_atoms_by_increasing_Z (l : List Atom) :
    (sortAtomsByZ l).Perm l ∧ (sortAtomsByZ l).Pairwise (fun a b => a.z.getD 0 ≤ b.z.getD 0) := by
  refine ⟨List.mergeSort_perm l _, ?_⟩
  have := List.pairwise_mergeSort (le := fun (a b : Atom) => decide (a.z.getD 0 ≤ b.z.getD 0))
    (fun a b c hab hbc => by simp only [decide_eq_true_eq] at *; omega)
    (fun a b => by simp only [Bool.or_eq_true, decide_eq_true_eq]; omega) l
  simpa [sortAtomsByZ] using this

/-- the element table the parser numbers atoms by is the periodic table (regenerated from the working
tree and compared with an independently written table of the 118 IUPAC symbols) -/
theorem C10_element_table : Tables.elementTable = periodicTable := elementTable_is_periodicTable

/-- the grammar the reference reader implements is the one the executing parser tables encode: the ATN of
`tucanParser.py` and the text of `tucan.g4` agree on the two formula rules, every other rule has the
expected shape, and the lexer's literal tokens are the parser's -/
theorem C10_grammar_tables :
    (Tables.atnWithCarbon = Tables.g4WithCarbon ∧ Tables.atnWithoutCarbon = Tables.g4WithoutCarbon ∧
      Tables.atnElementRulesWellShaped = true) ∧
    Tables.atnRuleShapes = expectedRuleShapes ∧
    Tables.lexLiterals = Tables.parserLiteralNames :=
  ⟨atn_matches_g4, atn_rule_shapes, lexer_tables.1⟩

/-- non-vacuity: a concrete string is lexed and recognised, a concrete non-sentence is not -/
example :
    lex ['C','2','/','(','1','-','2',')'] =
      some [.lit ['C'], .lit ['2'], .lit ['/'], .lit ['('], .lit ['1'], .lit ['-'], .lit ['2'], .lit [')']] ∧
    (parseTucan [.lit ['C'], .lit ['2'], .lit ['/'], .lit ['('], .lit ['1'], .lit ['-'], .lit ['2'], .lit [')']]).isSome = true ∧
    parseTucan [.lit ['C'], .lit ['/'], .lit ['('], .lit ['1'], .lit ['-'], .lit ['2']] = none := by
  refine ⟨?_, ?_, ?_⟩ <;> decide +kernel

/-- non-vacuity of `C10_accepts_iff`: the tree of `CH2O/(1-3)(2-3)(3-4)/(3:mass=13,rad=2)` is valid -/
example : MoreExamples.astA.Valid := MoreExamples.astA_valid

end Tucan
