import TucanProofs.Lemmas.RejectKind
import TucanProofs.Lemmas.Sentence
import TucanProofs.Lemmas.ParserDenotation
import TucanProofs.Lemmas.AcceptIff
import TucanProofs.Lemmas.AstDenotation
import TucanProofs.Lemmas.AstElements
import TucanProofs.Lemmas.TablesPin
import TucanProofs.Lemmas.MoreExamples
/-!
# C10 — the parser accepts exactly the grammar; every rejection is the parser's own exception

The Lean reader (`lex`, `parseTucan`, listener, `toGraph`) is the "independent reference reader written
from the EBNF" the property names; its grammar tables are regenerated from the executing ANTLR artifact
on every run and the real parser is compared with it on generated sentences and their single-token edits
(accept/reject, exception type, graph).  About the reference reader itself:
-/
namespace Tucan

/-- **Every other string is rejected with the parser's own exception type** — never `KeyError`,
`IndexError`, `ValueError` (over-long integer literals included) or anything else. -/
theorem C10_reject_kind (s : Str) (e : PyErr) (h : graphFromTucan s = .error e) : e = .tucanParser :=
  graphFromTucan_error_kind s e h

/-- **The recogniser accepts exactly the sentences of the published grammar**, transcribed rule by rule
as the inductive relation `Sentence`, and returns exactly their syntax tree. -/
theorem C10_recogniser_iff_grammar (ts : List Tok) (ast : Ast) : parseTucan ts = some ast ↔ Sentence ts ast :=
  parseTucan_iff ts ast

/-- an accepted string is a sentence of the grammar (lexically and syntactically) -/
theorem C10_accepted_is_sentence (s : Str) (g : Graph) (h : graphFromTucan s = .ok g) :
    ∃ toks ast, lex s = some toks ∧ Sentence toks ast := by
  unfold graphFromTucan at h
  cases hl : lex s with
  | none => simp [hl, bind, Except.bind] at h
  | some toks =>
    cases hp : parseTucan toks with
    | none => simp [hl, hp, bind, Except.bind, pure, Except.pure] at h
    | some ast => exact ⟨toks, ast, rfl, (parseTucan_iff toks ast).mp hp⟩

/-- **Acceptance, exactly.**  A string is accepted if and only if it is a sentence of the grammar whose bond
and attribute indices refer to existing atoms (an index is at most the number of atoms the formula states),
which has no bond from an atom to itself and sets no attribute key twice on one atom — within a block or across
blocks — and (the one line the interpreter draws, not the grammar) none of whose integer literals exceeds
CPython's conversion limit of 4300 digits. -/
theorem C10_accepts_iff (s : Str) :
    (∃ g, graphFromTucan s = .ok g) ↔ ∃ toks ast, lex s = some toks ∧ Sentence toks ast ∧ ast.Valid :=
  graphFromTucan_accepts_iff s

/-- what `Valid` asks, spelled out -/
theorem C10_valid_spelled_out (ast : Ast) : ast.Valid ↔
    (∀ t ∈ ast.literals, t.length ≤ intMaxStrDigits) ∧
    (∀ p ∈ ast.tuples, litVal p.1 ≤ ast.atomCount ∧ litVal p.2 ≤ ast.atomCount ∧ litVal p.1 ≠ litVal p.2) ∧
    (∀ b ∈ ast.attrs, litVal b.1 ≤ ast.atomCount) ∧ ast.settings.Nodup :=
  ⟨fun h => ⟨h.lits, h.tuples, h.attrIdx, h.once⟩, fun ⟨a, b, c, d⟩ => ⟨a, b, c, d⟩⟩

/-- **The returned graph, read off the syntax tree.**  For an accepted string with tree `ast` the parser returns
the graph whose atoms are `0 … n-1`, `n` the number of atoms the formula states; atom `i` is the `i`-th symbol of
the formula's expansion (every symbol repeated as often as its count says) arranged by non-decreasing atomic
number; atoms `i`, `j` are bonded exactly when some tuple of the tree names `i+1` and `j+1`, either way round;
atom `i` has isotope mass (radical) `v` exactly when some attribute block of the tree sets `mass=v` (`rad=v`) on
index `i+1`; and no atom has a charge or coordinates.  No listener state, no helper of the reader is mentioned:
`expansion`, `valuedSettings` and `litVal` are plain functions of the tree. -/
theorem C10_denotes (s : Str) (g : Graph) (h : graphFromTucan s = .ok g) :
    ∃ toks ast, lex s = some toks ∧ Sentence toks ast ∧ ast.Valid ∧
      g.labels = List.range ast.atomCount ∧ g.WF ∧ g.Simple ∧
      (∃ syms : List Str, syms.Perm ast.expansion ∧
        syms.Pairwise (fun a b => (elementZ a).getD 0 ≤ (elementZ b).getD 0) ∧
        ∀ i (hi : i < syms.length), ∃ x z, g.attrs? i = some x ∧ x.sym = some syms[i] ∧
          elementZ syms[i] = some z ∧ x.z = some (z : Int)) ∧
      (∀ i j : Nat, g.Adj i j ↔
        ∃ p ∈ ast.tuples, (litVal p.1 = i + 1 ∧ litVal p.2 = j + 1) ∨ (litVal p.1 = j + 1 ∧ litVal p.2 = i + 1)) ∧
      (∀ (i : Nat) (x : Atom), g.attrs? i = some x →
        (∀ v : Int, x.mass = some v ↔ ∃ w : Nat, (w : Int) = v ∧ (i + 1, "mass".toList, w) ∈ ast.valuedSettings) ∧
        (∀ v : Int, x.rad = some v ↔ ∃ w : Nat, (w : Int) = v ∧ (i + 1, "rad".toList, w) ∈ ast.valuedSettings) ∧
        x.chg = none ∧ x.x = none ∧ x.y = none ∧ x.zc = none) :=
  graphFromTucan_denotes s g h

/-- **Which element sits at which index, explicitly.**  The rearrangement `C10_denotes` speaks of is
`ast.sortedSymbols`: the formula's expansion merge-sorted (stably) by atomic number, a plain function of the syntax
tree.  Atom `i` of the returned graph has the `i`-th symbol of that list and that symbol's atomic number. -/
theorem C10_elements (s : Str) (g : Graph) (h : graphFromTucan s = .ok g) :
    ∃ toks ast, lex s = some toks ∧ Sentence toks ast ∧
      ast.sortedSymbols.length = ast.atomCount ∧
      ast.sortedSymbols.Perm ast.expansion ∧
      ast.sortedSymbols.Pairwise (fun a b => (elementZ a).getD 0 ≤ (elementZ b).getD 0) ∧
      ∀ i (hi : i < ast.sortedSymbols.length), ∃ x z, g.attrs? i = some x ∧
        x.sym = some ast.sortedSymbols[i] ∧ elementZ ast.sortedSymbols[i] = some z ∧ x.z = some (z : Int) :=
  graphFromTucan_elements s g h

/-- the expansion has as many symbols as the formula states atoms -/
theorem C10_expansion_length (ast : Ast) : ast.expansion.length = ast.atomCount := ast.expansion_length

/-- **The returned graph is the denoted graph**, at the level of listener states (the step `C10_denotes` composes
with the three listeners).  For every listener state an accepted string gives rise
to (`GoodState`: atoms of the formula, bonds between different existing atoms in any order / orientation /
multiplicity, attribute records on existing atoms), `to_graph` returns the graph with exactly the atoms of
the formula numbered `0 … n-1` by increasing atomic number (stable sort of the formula's expansion),
exactly the listed attributes joined onto the indexed atoms, and exactly the listed bonds as a set. -/
theorem C10_denotation (st : ListenerState) (h : GoodState st) :
    ∃ g, toGraph st = .ok g ∧ g.labels = List.range st.atoms.length ∧ g.WF ∧ g.Simple ∧
      (∀ i, i < st.atoms.length → ∃ x, addInvariantCode (atomAt st i) = .ok x ∧ g.attrs? i = some x) ∧
      (∀ i j : Nat, g.Adj i j ↔ ((i : Int), (j : Int)) ∈ st.bonds ∨ ((j : Int), (i : Int)) ∈ st.bonds) :=
  toGraph_spec st h

/-- **"numbered by increasing atomic number"**: the arrangement `C10_denotation` speaks of (`sortAtomsByZ`) is a
rearrangement of the formula's atoms in which the atomic number never decreases -/
theorem C10_atoms_by_increasing_Z (l : List Atom) :
    (sortAtomsByZ l).Perm l ∧ (sortAtomsByZ l).Pairwise (fun a b => a.z.getD 0 ≤ b.z.getD 0) := by
  refine ⟨List.mergeSort_perm l _, ?_⟩
  have := List.pairwise_mergeSort (le := fun (a b : Atom) => decide (a.z.getD 0 ≤ b.z.getD 0))
    (fun a b c hab hbc => by simp only [decide_eq_true_eq] at *; omega)
    (fun a b => by simp only [Bool.or_eq_true, decide_eq_true_eq]; omega) l
  simpa [sortAtomsByZ] using this

/-- the element table the parser numbers atoms by is the periodic table (regenerated from the working
tree and compared with an independently written table of the 118 IUPAC symbols) -/
theorem C10_element_table : Tables.elementTable = periodicTable := elementTable_is_periodicTable

/-- the grammar the reference reader implements is the one the executing parser tables encode: the ATN of
`tucanParser.py` and the text of `tucan.g4` agree on the two formula rules, every other rule has the
expected shape, and the lexer's literal tokens are the parser's -/
theorem C10_grammar_tables :
    (Tables.atnWithCarbon = Tables.g4WithCarbon ∧ Tables.atnWithoutCarbon = Tables.g4WithoutCarbon ∧
      Tables.atnElementRulesWellShaped = true) ∧
    Tables.atnRuleShapes = expectedRuleShapes ∧
    Tables.lexLiterals = Tables.parserLiteralNames :=
  ⟨atn_matches_g4, atn_rule_shapes, lexer_tables.1⟩

/-- non-vacuity: a concrete string is lexed and recognised, a concrete non-sentence is not -/
example :
    lex ['C','2','/','(','1','-','2',')'] =
      some [.lit ['C'], .lit ['2'], .lit ['/'], .lit ['('], .lit ['1'], .lit ['-'], .lit ['2'], .lit [')']] ∧
    (parseTucan [.lit ['C'], .lit ['2'], .lit ['/'], .lit ['('], .lit ['1'], .lit ['-'], .lit ['2'], .lit [')']]).isSome = true ∧
    parseTucan [.lit ['C'], .lit ['/'], .lit ['('], .lit ['1'], .lit ['-'], .lit ['2']] = none := by
  refine ⟨?_, ?_, ?_⟩ <;> decide +kernel

/-- non-vacuity of `C10_denotes`: the tree of `CH2O/…` states the atoms C, H, H, O -/
example : MoreExamples.astA.expansion = [['C'], ['H'], ['H'], ['O']] ∧ MoreExamples.astA.atomCount = 4 := by
  constructor <;> decide +kernel

/-- non-vacuity of `C10_accepts_iff`: the tree of `CH2O/(1-3)(2-3)(3-4)/(3:mass=13,rad=2)` is valid -/
example : MoreExamples.astA.Valid := MoreExamples.astA_valid

end Tucan
