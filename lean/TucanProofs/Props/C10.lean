import TucanModel.Parser
/-! # C10 — property theorems (see DESIGN.md §5) -/
namespace Tucan

/-- the listener's integer conversion reports every failure as the parser's own exception -/
theorem C10_listenerInt_error_kind (s : Str) (e : PyErr) (h : listenerInt s = .error e) : e = .tucanParser := by
  unfold listenerInt at h
  split at h <;> simp_all

end Tucan
