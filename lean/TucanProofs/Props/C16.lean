import TucanProofs.Lemmas.Permute
import TucanProofs.Lemmas.EdgeCount
import TucanProofs.Lemmas.ClassesEdges
import TucanProofs.Examples
/-!
# C16 — the permutation helper returns a faithful relabelled copy

Model: `permuteMolecule g shuffles` (`permute_molecule`), where `shuffles` is the stream of results of
`random.shuffle` after `random.seed(seed)` (recorded from the real run by the harness).  The result is a
*function* of the argument and of that stream, which is what "same result for the same seed" means.
The argument is a value, so "leaves its argument unchanged" is what the harness checks on the real code.
-/
namespace Tucan

/-- The helper's result is the argument renamed by a bijection of its label set: same label set, nodes
listed in label order, every atom attribute and every bond record carried along (`Relabel`). -/
theorem C16_faithful (g : Graph) (hw : g.WF) (hs : g.Simple) (shuffles : List (List Nat))
    (hall : ∀ s ∈ shuffles, s.Perm g.labels) (r : Graph) (h : permuteMolecule g shuffles = .ok r) :
    ∃ π : Nat → Nat, Relabel π g r ∧ r.labels = sortN g.labels ∧ r.WF ∧ r.Simple := by
  obtain ⟨s, hs', rfl⟩ := permuteMolecule_mem g shuffles r h
  obtain ⟨rel, hl, hw', hsimp⟩ := permuteOnce_spec g hw hs s (hall s hs')
  exact ⟨_, rel, hl, hw', hsimp⟩

/-- **For a molecule with at least two bonds that is not a complete graph, the returned edge set differs from
the original one** — in terms of adjacency: if two different atoms of the argument are not bonded and it has at
least two bonds, some pair of labels is bonded in the argument and not in the result, so the two adjacency
relations are not the same. -/
theorem C16_edges_differ (g : Graph) (hw : g.WF) (hs : g.Simple) (shuffles : List (List Nat))
    (hall : ∀ s ∈ shuffles, s.Perm g.labels) (r : Graph) (h : permuteMolecule g shuffles = .ok r)
    (h2 : 2 ≤ g.numberOfEdges)
    (hnon : ∃ a ∈ g.labels, ∃ b ∈ g.labels, a ≠ b ∧ ¬ g.Adj a b) :
    (∃ a b, g.Adj a b ∧ ¬ r.Adj a b) ∧ ¬ (∀ a b, g.Adj a b ↔ r.Adj a b) :=
  permute_edges_differ g hw hs shuffles hall r h h2 (Nat.ne_of_lt (incomplete_count g hw hs hnon))

/-- "not a complete graph", as the helper tests it by counting: a graph in which two different atoms are not
bonded has fewer than `n·(n-1)/2` bonds -/
theorem C16_incomplete_by_count (g : Graph) (hw : g.WF) (hs : g.Simple)
    (hnon : ∃ a ∈ g.labels, ∃ b ∈ g.labels, a ≠ b ∧ ¬ g.Adj a b) :
    2 * g.numberOfEdges < g.numberOfNodes * (g.numberOfNodes - 1) :=
  incomplete_count g hw hs hnon

/-- the same in the terms of the code: when the guard `|E| > 1 and 2|E| ≠ n(n-1)` holds, the Boolean the
retry loop tests is `false` on the result -/
theorem C16_loop_exit_test (g : Graph) (shuffles : List (List Nat)) (r : Graph)
    (henf : (g.numberOfEdges > 1 && 2 * g.numberOfEdges != g.numberOfNodes * (g.numberOfNodes - 1)) = true)
    (h : permuteMolecule g shuffles = .ok r) : sameEdgeSet g r = false :=
  permuteMolecule_enforced g shuffles r henf h

/-- **The retry loop can exit.**  A molecule that has a bond and is not a complete graph always has two atoms
whose exchange changes the edge set, so a relabelling with a different edge set exists (that the loop finds
one is almost-sure and depends on the random generator; it is not a theorem). -/
theorem C16_a_changing_relabelling_exists (g : Graph) (gw : g.WF) (gs : g.Simple)
    (hbond : ∃ a b, g.Adj a b)
    (hnon : ∃ a ∈ g.labels, ∃ b ∈ g.labels, a ≠ b ∧ ¬ g.Adj a b) :
    ∃ x ∈ g.labels, ∃ y ∈ g.labels, x ≠ y ∧
      ¬ (∀ a b, g.Adj a b ↔ g.Adj (if a = x then y else if a = y then x else a)
                                   (if b = x then y else if b = y then x else b)) :=
  exists_transposition_changing_edges g gw gs hbond hnon

/-- the result has as many atoms and as many bonds as the argument -/
theorem C16_same_counts (g : Graph) (hw : g.WF) (hs : g.Simple) (shuffles : List (List Nat))
    (hall : ∀ s ∈ shuffles, s.Perm g.labels) (r : Graph) (h : permuteMolecule g shuffles = .ok r) :
    r.numberOfNodes = g.numberOfNodes ∧ r.numberOfEdges = g.numberOfEdges := by
  obtain ⟨π, rel, hl, rw', rs⟩ := C16_faithful g hw hs shuffles hall r h
  exact ⟨rel.toIso.numberOfNodes, rel.toIso.numberOfEdges hw hs rw' rs⟩

/-- the label set is unchanged -/
theorem C16_same_label_set (g : Graph) (hw : g.WF) (hs : g.Simple) (shuffles : List (List Nat))
    (hall : ∀ s ∈ shuffles, s.Perm g.labels) (r : Graph) (h : permuteMolecule g shuffles = .ok r) :
    r.labels.Perm g.labels := by
  obtain ⟨π, _, hl, _, _⟩ := C16_faithful g hw hs shuffles hall r h
  rw [hl]; exact List.mergeSort_perm _ _

/-- non-vacuity of `C16_edges_differ`: the example molecule has two bonds and two atoms (0 and 2) that are not
bonded -/
example : 2 ≤ exGraph.numberOfEdges ∧ ∃ a ∈ exGraph.labels, ∃ b ∈ exGraph.labels, a ≠ b ∧ ¬ exGraph.Adj a b :=
  ⟨by decide, 0, by decide, 2, by decide, by decide, by unfold Graph.Adj; decide⟩

/-- non-vacuity: the hypotheses are met by a concrete molecule and a concrete shuffle -/
example : exGraph.WF ∧ exGraph.Simple ∧ (∀ s ∈ [[1, 2, 0]], s.Perm exGraph.labels) := by
  refine ⟨exGraph_wf, exGraph_simple, ?_⟩
  intro s hs
  simp only [List.mem_singleton] at hs
  subst hs
  decide

end Tucan
