import TucanProofs.Lemmas.Permute
import TucanProofs.Examples
/-!
# C16 — the permutation helper returns a faithful relabelled copy

Model: `permuteMolecule g shuffles` (`permute_molecule`), where `shuffles` is the stream of results of
`random.shuffle` after `random.seed(seed)` (recorded from the real run by the harness).  The result is a
*function* of the argument and of that stream, which is what "same result for the same seed" means.
The argument is a value, so "leaves its argument unchanged" is what the harness checks on the real code.
-/
namespace Tucan

/-- The helper's result is the argument renamed by a bijection of its label set: same label set, nodes
listed in label order, every atom attribute and every bond record carried along (`Relabel`). -/
theorem C16_faithful (g : Graph) (hw : g.WF) (hs : g.Simple) (shuffles : List (List Nat))
    (hall : ∀ s ∈ shuffles, s.Perm g.labels) (r : Graph) (h : permuteMolecule g shuffles = .ok r) :
    ∃ π : Nat → Nat, Relabel π g r ∧ r.labels = sortN g.labels ∧ r.WF ∧ r.Simple := by
  obtain ⟨s, hs', rfl⟩ := permuteMolecule_mem g shuffles r h
  obtain ⟨rel, hl, hw', hsimp⟩ := permuteOnce_spec g hw hs s (hall s hs')
  exact ⟨_, rel, hl, hw', hsimp⟩

/-- For a molecule with at least two bonds that is not a complete graph, the returned edge set differs
from the original one. -/
theorem C16_edges_differ (g : Graph) (shuffles : List (List Nat)) (r : Graph)
    (henf : (g.numberOfEdges > 1 && 2 * g.numberOfEdges != g.numberOfNodes * (g.numberOfNodes - 1)) = true)
    (h : permuteMolecule g shuffles = .ok r) : sameEdgeSet g r = false :=
  permuteMolecule_enforced g shuffles r henf h

/-- the label set is unchanged -/
theorem C16_same_label_set (g : Graph) (hw : g.WF) (hs : g.Simple) (shuffles : List (List Nat))
    (hall : ∀ s ∈ shuffles, s.Perm g.labels) (r : Graph) (h : permuteMolecule g shuffles = .ok r) :
    r.labels.Perm g.labels := by
  obtain ⟨π, _, hl, _, _⟩ := C16_faithful g hw hs shuffles hall r h
  rw [hl]; exact List.mergeSort_perm _ _

/-- non-vacuity: the hypotheses are met by a concrete molecule and a concrete shuffle -/
example : exGraph.WF ∧ exGraph.Simple ∧ (∀ s ∈ [[1, 2, 0]], s.Perm exGraph.labels) := by
  refine ⟨exGraph_wf, exGraph_simple, ?_⟩
  intro s hs
  simp only [List.mem_singleton] at hs
  subst hs
  decide

end Tucan
