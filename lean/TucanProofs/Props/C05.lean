import TucanProofs.Lemmas.Hill
import TucanProofs.Lemmas.NxEdges
/-!
# C05 — every emitted string obeys the published grammar and canonical layout

Facts about the serializer model and the grammar tables (regenerated from the parser's ATN on every run):
-/
namespace Tucan

/-- **Hill order is accepted by the grammar, for every subset of the 118 elements and any counts.**
The formula the writer emits for any multiset of element symbols is read by the `sum_formula` rule and
returns exactly the writer's items (symbol and count). -/
theorem C05_hill_formula_accepted (syms : List Str) (hel : ∀ s ∈ syms, s ∈ elementSyms) (rest : List Tok) :
    parseFormula (formulaToks (hillItems syms) ++ Tok.lit ['/'] :: rest)
      = some ((hillItems syms).map fun i => (i.1, countText i.2), Tok.lit ['/'] :: rest) :=
  parseFormula_hillItems syms hel rest

/-- the formula text is the text of those items, and the items are the element counts of the molecule:
every symbol that occurs, once, with its multiplicity (≥ 1) -/
theorem C05_formula_equals_element_counts (g : Graph) :
    writeSumFormula g = formulaText (hillItems (g.nodes.filterMap (·.attrs.sym))) ∧
    (∀ i ∈ hillItems (g.nodes.filterMap (·.attrs.sym)),
        1 ≤ i.2 ∧ i.2 = countOcc i.1 (g.nodes.filterMap (·.attrs.sym))) ∧
    ((hillItems (g.nodes.filterMap (·.attrs.sym))).map (·.1)).Nodup ∧
    (∀ s, s ∈ (hillItems (g.nodes.filterMap (·.attrs.sym))).map (·.1) ↔ s ∈ g.nodes.filterMap (·.attrs.sym)) :=
  ⟨writeSumFormula_eq g, (hillItems_counts _).1, (hillItems_counts _).2.1, (hillItems_counts _).2.2⟩

/-- **Each bond appears exactly once as `(a-b)` with `a < b`, tuples in strictly ascending order**, and
there is one tuple per bond. -/
theorem C05_tuples_layout (g : Graph) (hw : g.WF) (hs : g.Simple) :
    (∀ a b, (a, b) ∈ sortedEdges g ↔ a < b ∧ g.Adj a b) ∧
    (sortedEdges g).Pairwise (fun x y => x.1 < y.1 ∨ (x.1 = y.1 ∧ x.2 < y.2)) ∧
    (sortedEdges g).length = g.numberOfEdges :=
  ⟨fun a b => sortedEdges_mem g hw hs a b, sortedEdges_strict g hw hs, sortedEdges_length g⟩

/-- the grammar's two formula rules are: every element optional, in code-point order (`without_carbon`),
and C, H, then the rest in code-point order (`with_carbon`) — as the executing parser tables have it -/
theorem C05_grammar_element_order :
    chainLt withoutCarbonOrder = true ∧
    withCarbonOrder = ['C'] :: ['H'] :: withoutCarbonOrder.filter (· != ['H']) :=
  ⟨atn_withoutCarbon_is_sorted.2.2.1, atn_withCarbon_is_hill.2.2⟩

end Tucan
