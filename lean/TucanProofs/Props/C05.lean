import TucanProofs.Lemmas.Hill
import TucanProofs.Lemmas.NxEdges
import TucanProofs.Lemmas.RoundTripPipeline
import TucanProofs.Lemmas.FilesMol
import TucanProofs.Lemmas.MoreExamples
import TucanProofs.Lemmas.LayoutString
/-!
# C05 — every emitted string obeys the published grammar and canonical layout

Facts about the serializer model and the grammar tables (regenerated from the parser's ATN on every run):
-/
namespace Tucan

/-- **Hill order is accepted by the grammar, for every subset of the 118 elements and any counts.**
The formula the writer emits for any multiset of element symbols is read by the `sum_formula` rule and
returns exactly the writer's items (symbol and count). -/
theorem C05_hill_formula_accepted (syms : List Str) (hel : ∀ s ∈ syms, s ∈ elementSyms) (rest : List Tok) :
    parseFormula (formulaToks (hillItems syms) ++ Tok.lit ['/'] :: rest)
      = some ((hillItems syms).map fun i => (i.1, countText i.2), Tok.lit ['/'] :: rest) :=
  parseFormula_hillItems syms hel rest

/-- the formula text is the text of those items, and the items are the element counts of the molecule:
every symbol that occurs, once, with its multiplicity (≥ 1) -/
theorem C05_formula_equals_element_counts (g : Graph) :
    writeSumFormula g = formulaText (hillItems (g.nodes.filterMap (·.attrs.sym))) ∧
    (∀ i ∈ hillItems (g.nodes.filterMap (·.attrs.sym)),
        1 ≤ i.2 ∧ i.2 = countOcc i.1 (g.nodes.filterMap (·.attrs.sym))) ∧
    ((hillItems (g.nodes.filterMap (·.attrs.sym))).map (·.1)).Nodup ∧
    (∀ s, s ∈ (hillItems (g.nodes.filterMap (·.attrs.sym))).map (·.1) ↔ s ∈ g.nodes.filterMap (·.attrs.sym)) :=
  ⟨writeSumFormula_eq g, (hillItems_counts _).1, (hillItems_counts _).2.1, (hillItems_counts _).2.2⟩

/-- **Each bond appears exactly once as `(a-b)` with `a < b`, tuples in strictly ascending order**, and
there is one tuple per bond. -/
theorem C05_tuples_layout (g : Graph) (hw : g.WF) (hs : g.Simple) :
    (∀ a b, (a, b) ∈ sortedEdges g ↔ a < b ∧ g.Adj a b) ∧
    (sortedEdges g).Pairwise (fun x y => x.1 < y.1 ∨ (x.1 = y.1 ∧ x.2 < y.2)) ∧
    (sortedEdges g).length = g.numberOfEdges :=
  ⟨fun a b => sortedEdges_mem g hw hs a b, sortedEdges_strict g hw hs, sortedEdges_length g⟩

/-- the grammar's two formula rules are: every element optional, in code-point order (`without_carbon`),
and C, H, then the rest in code-point order (`with_carbon`) — as the executing parser tables have it -/
theorem C05_grammar_element_order :
    chainLt withoutCarbonOrder = true ∧
    withCarbonOrder = ['C'] :: ['H'] :: withoutCarbonOrder.filter (· != ['H']) :=
  ⟨atn_withoutCarbon_is_sorted.2.2.1, atn_withCarbon_is_hill.2.2⟩

/-- **The canonical layout, stated about the emitted string.**  The string the pipeline returns for a molecule
lexes, is a sentence of the grammar, and its syntax tree (which the grammar determines) has the canonical layout
(`Ast.Canonical`): element symbols in Hill order, each once (`IsHillOrder`, written without reference to the
writer); every literal the decimal numeral of a positive number without leading zeros, a count of 1 not
written; every tuple `(a-b)` with `a < b`, tuples strictly ascending (so each bond once); attribute blocks
strictly ascending by atom index (so one block per atom), each non-empty with `mass` before `rad`; and it states
the molecule's own counts: as many atoms of each element as the molecule has, every element of the molecule,
`n` atoms, one tuple per bond, one attribute block per atom that carries a mass or a radical. -/
theorem C05_emitted_layout (order : Graph → List Nat) (hperm : ∀ r : Graph, r.WF → (order r).Perm r.labels)
    (g : Graph) (hw : g.WF) (hs : g.Simple) (hmol : g.MolAtoms)
    (s : Str) (h : tucanOf order g = .ok s) :
    ∃ toks ast, lex s = some toks ∧ Sentence toks ast ∧ ast.Canonical ∧
      (∀ p ∈ ast.formula, Acc.itemCount p = countOcc p.1 (g.nodes.filterMap (·.attrs.sym))) ∧
      (∀ sym ∈ g.nodes.filterMap (·.attrs.sym), sym ∈ ast.formula.map (·.1)) ∧
      ast.atomCount = g.numberOfNodes ∧
      ast.tuples.length = g.numberOfEdges ∧
      ast.attrs.length = (g.nodes.filter fun n => n.attrs.mass.isSome || n.attrs.rad.isSome).length := by
  obtain ⟨toks, ast, hl, hsn, hc⟩ := emitted_layout order hperm g hw hs hmol s h
  obtain ⟨toks', ast', hl', hsn', hcnt⟩ := emitted_counts order hperm g hw hs hmol s h
  rw [hl] at hl'
  cases hl'
  have ha := (parseTucan_iff _ _).2 hsn
  rw [(parseTucan_iff _ _).2 hsn'] at ha
  cases ha
  exact ⟨toks, ast, hl, hsn, hc, hcnt⟩

/-- what `Ast.Canonical` asks, spelled out -/
theorem C05_canonical_spelled_out (ast : Ast) : ast.Canonical ↔
    IsHillOrder (ast.formula.map (·.1)) ∧
    (∀ t ∈ ast.literals, 1 ≤ litVal t ∧ t = natRepr (litVal t)) ∧
    (∀ p ∈ ast.formula, ∀ c, p.2 = some c → 2 ≤ litVal c) ∧
    (∀ p ∈ ast.tuples, litVal p.1 < litVal p.2) ∧
    (ast.tuples.map fun p => (litVal p.1, litVal p.2)).Pairwise (fun x y => x.1 < y.1 ∨ (x.1 = y.1 ∧ x.2 < y.2)) ∧
    (ast.attrs.map fun b => litVal b.1).Pairwise (· < ·) ∧
    (∀ b ∈ ast.attrs, b.2.map (·.1) = ["mass".toList] ∨ b.2.map (·.1) = ["rad".toList] ∨
      b.2.map (·.1) = ["mass".toList, "rad".toList]) :=
  ⟨fun h => ⟨h.hill, h.numerals, h.noCountOne, h.tupleOrient, h.tuplesAscending, h.blocksAscending, h.blockKeys⟩,
   fun ⟨a, b, c, d, e, f, g⟩ => ⟨a, b, c, d, e, f, g⟩⟩

/-- **Hill order, specified**: for every multiset of symbols, the symbols of the items the writer emits are
distinct; with carbon, `C` comes first, then `H` when present, then the rest by ascending code points; without
carbon everything (hydrogen included) by ascending code points. -/
theorem C05_writer_order_is_hill (syms : List Str) : IsHillOrder ((hillItems syms).map (·.1)) :=
  Layout.hill_order syms

/-- non-vacuity of `IsHillOrder`: `C, H, Cl, N, O` is in Hill order; `H, C` and `C, O, N` are not -/
example : IsHillOrder [['C'], ['H'], ['C','l'], ['N'], ['O']] ∧ ¬ IsHillOrder [['H'], ['C']] ∧
    ¬ IsHillOrder [['C'], ['O'], ['N']] := by
  refine ⟨⟨by decide, fun _ => ⟨_, rfl, fun _ => ⟨_, rfl⟩⟩, by decide⟩, ?_, ?_⟩
  · intro h
    obtain ⟨r, hr, _⟩ := h.carbonFirst (by decide)
    cases hr
  · intro h
    have := h.restAscending
    revert this
    decide

/-- **Every string the pipeline emits is a sentence of the published grammar** (lexically and
syntactically), for molecules in the domain the readers and the parser produce (`MolAtoms`: element
symbols of the table, mass / radical absent or strictly positive). -/
theorem C05_emitted_is_sentence (order : Graph → List Nat) (hperm : ∀ r : Graph, r.WF → (order r).Perm r.labels)
    (g : Graph) (hw : g.WF) (hs : g.Simple) (hmol : g.MolAtoms)
    (hsize : (natRepr (g.numberOfNodes + 1)).length ≤ intMaxStrDigits)
    (s : Str) (h : tucanOf order g = .ok s) :
    ∃ toks ast, lex s = some toks ∧ Sentence toks ast := by
  obtain ⟨H, _, hp, _⟩ := pipeline_roundtrip order hperm g hw hs hmol hsize s h
  unfold graphFromTucan at hp
  cases hl : lex s with
  | none => simp [hl, bind, Except.bind] at hp
  | some toks =>
    cases hpt : parseTucan toks with
    | none => simp [hl, hpt, bind, Except.bind, pure, Except.pure] at hp
    | some ast => exact ⟨toks, ast, rfl, (parseTucan_iff toks ast).mp hpt⟩

/-- **From the graph of a conformant molecule to a sentence** (with the file's text inside the statement:
`C15_v3000_text_to_string`).  For the graph of every molecule a molfile can state within the
CTfile specification (`Mol.Conformant`: element symbols of the table or D/T, masses and radicals not negative;
the graph is what either reader returns for a file stating it — `C06_v3000_file_any_indices`,
`C06_readsAs_graph_of`), the emitted string is a sentence of the grammar. -/
theorem C05_molfile_string_is_sentence (order : Graph → List Nat) (hperm : ∀ r : Graph, r.WF → (order r).Perm r.labels)
    (g : Graph) (m : Mol) (c : List (Str × Str × Str)) (hc : c.length = m.atoms.length)
    (hm : m.Conformant) (hg : IsGraphOf g m c)
    (hsize : (natRepr (m.atoms.length + 1)).length ≤ intMaxStrDigits)
    (s : Str) (h : tucanOf order g = .ok s) : ∃ toks ast, lex s = some toks ∧ Sentence toks ast :=
  (isGraphOf_string_is_sentence order hperm g m c hc hm hg hsize s h).1

/-- **Atom indices run `1 … n` in blocks of increasing atomic number**: the molecule the string is written
from (the result of `sort_molecule_by_attribute(·, ATOMIC_NUMBER)`) has the labels `0 … n-1`, and the
atomic number is non-decreasing along the labels. -/
theorem C05_indices_in_blocks_of_Z (g m : Graph) (hw : g.WF) (hs : g.Simple)
    (hm : sortMoleculeByAttribute g .atomicNumber = .ok m)
    (hz : ∀ a ∈ g.labels, ∃ x z, g.attrs? a = some x ∧ x.z = some z) :
    m.labels.Perm (List.range g.numberOfNodes) ∧
    ∀ i j, i < j → j < g.numberOfNodes →
      (RoundTrip.atomAt m i).z.getD 0 ≤ (RoundTrip.atomAt m j).z.getD 0 :=
  ⟨(RoundTrip.sorted_facts hw hs hm hz).2.2.2.1, (RoundTrip.sorted_facts hw hs hm hz).2.2.2.2⟩

/-- **Attribute blocks appear once per labelled atom, in strictly ascending index order.** -/
theorem C05_attribute_blocks_ascending (m : Graph) (hw : m.WF) :
    ((m.nodes.mergeSort fun a b => decide (a.id ≤ b.id)).filterMap fun n =>
      if (attrPairs n.attrs).isEmpty then none else some n.id).Pairwise (· < ·) := by
  have hsorted : (m.nodes.mergeSort fun a b => decide (a.id ≤ b.id)).Pairwise (fun a b => a.id ≤ b.id) := by
    have := List.pairwise_mergeSort (le := fun (a b : Node) => decide (a.id ≤ b.id))
      (fun a b c hab hbc => by simp only [decide_eq_true_eq] at *; omega)
      (fun a b => by simp only [Bool.or_eq_true, decide_eq_true_eq]; omega) m.nodes
    simpa using this
  have hnd : ((m.nodes.mergeSort fun a b => decide (a.id ≤ b.id)).map (·.id)).Nodup :=
    ((List.mergeSort_perm m.nodes _).map (·.id)).nodup_iff.mpr (by simpa [Graph.labels] using hw.nodup)
  have hstrict : (m.nodes.mergeSort fun a b => decide (a.id ≤ b.id)).Pairwise (fun a b => a.id < b.id) := by
    have h2 := List.pairwise_map.mp hnd
    exact (hsorted.and h2).imp (fun {a b} ⟨h1, h2⟩ => Nat.lt_of_le_of_ne h1 h2)
  refine List.Pairwise.filterMap _ ?_ hstrict
  intro a a' haa b hb b' hb'
  split at hb <;> simp at hb
  split at hb' <;> simp at hb'
  subst hb; subst hb'
  exact haa

/-- non-vacuity of `C05_molfile_string_is_sentence` -/
example : FilesExample.mol.Conformant := MoreExamples.mol_conformant

end Tucan
