import TucanProofs.Lemmas.Pipeline
import TucanProofs.Lemmas.FilesPerm
import TucanProofs.Lemmas.MoreExamples
import TucanProofs.Lemmas.ClassesEdges
import TucanProofs.Lemmas.Stable
import TucanProofs.Examples
/-!
# C13 — partition classes are label-independent, equitable and respect symmetry

`r` is the refined graph inside `canonicalize_molecule` (the graph handed to bliss): its nodes still
carry the input's labels, so `partOf? r a` is "the class of input atom `a`"; the canonical graph is `r`
renamed.  No oracle is involved: `order` is arbitrary.
-/
namespace Tucan

/-- **Label independence.**  `class(f a)` in the second description equals `class(a)` in the first, and
both refinements take the same number of rounds. -/
theorem C13_label_independent (order order' : Graph → List Nat) (f : Nat → Nat) (g g' c c' r r' : Graph) (k k' : Nat)
    (iso : Iso SameIdent f g g') (hw : g.WF) (hs : g.Simple) (hw' : g'.WF) (hs' : g'.Simple)
    (h : canonicalizeWith g order = .ok (c, r, k)) (h' : canonicalizeWith g' order' = .ok (c', r', k')) :
    k = k' ∧ ∀ a ∈ g.labels, partOf? r' (f a) = partOf? r a := by
  obtain ⟨hk, isoR, _, _, _, _⟩ := refined_equivariant iso hw hs hw' hs' h h'
  obtain ⟨_, _, hrl, _⟩ := refined_facts hw hs h
  exact ⟨hk, fun a ha => partOf?_iso isoR (hrl ▸ ha)⟩

/-- **Equitable.**  Atoms in one class share the stored invariant code (for chemistry-level atoms that is
element, mass, radical: `C13_same_class_same_identity`) and see the same multiset of classes among their
neighbours. -/
theorem C13_equitable (order : Graph → List Nat) (g c r : Graph) (k : Nat) (hw : g.WF) (hs : g.Simple)
    (h : canonicalizeWith g order = .ok (c, r, k)) :
    ∀ a ∈ r.labels, ∀ b ∈ r.labels, partOf? r a = partOf? r b →
      keyD r .invariantCode a = keyD r .invariantCode b ∧
      sortKDesc ((r.nbrs a).map (keyD r .partition)) = sortKDesc ((r.nbrs b).map (keyD r .partition)) := by
  obtain ⟨heq, hresp, _⟩ := refined_facts hw hs h
  intro a ha b hb hab
  exact ⟨hresp a ha b hb hab, heq a ha b hb hab⟩

/-- **Atoms of one class have the same element, isotope mass and radical state**, for inputs whose atoms are
chemistry-level (`g.Chem`: the stored invariant code is the one `graph_from_molecule` computes from atomic
number, mass and radical). -/
theorem C13_same_class_same_identity (order : Graph → List Nat) (g c r : Graph) (k : Nat) (hw : g.WF) (hs : g.Simple)
    (hchem : g.Chem) (h : canonicalizeWith g order = .ok (c, r, k)) :
    ∀ a ∈ g.labels, ∀ b ∈ g.labels, partOf? r a = partOf? r b →
      ∃ x y, g.attrs? a = some x ∧ g.attrs? b = some y ∧ SameIdent x y :=
  classes_same_ident order g c r k hw hs hchem h

/-- **The classes are those of the canonicalized molecule**: every atom has a class after refinement, and the
attribute `partition` of the canonical graph `c` on the renamed atom `σ a` is that class (so every statement of
this file about `partOf? r a` is a statement about `partOf? c (σ a)`). -/
theorem C13_classes_on_canonical_graph (order : Graph → List Nat)
    (hperm : ∀ r : Graph, r.WF → (order r).Perm r.labels)
    (g c r : Graph) (k : Nat) (hw : g.WF) (hs : g.Simple)
    (h : canonicalizeWith g order = .ok (c, r, k)) :
    ∃ σ : Nat → Nat, (∀ a ∈ g.labels, ∀ b ∈ g.labels, σ a = σ b → a = b) ∧ (∀ a ∈ g.labels, σ a ∈ c.labels) ∧
      ∀ a ∈ g.labels, ∃ q : Int, partOf? r a = some q ∧ partOf? c (σ a) = some q := by
  obtain ⟨σ, h1, h2, _, h4⟩ := canonicalize_classes order hperm g c r k hw hs h
  refine ⟨σ, h1, h2, fun a ha => ?_⟩
  obtain ⟨_, q, _, hr, hc, _⟩ := h4 a ha
  exact ⟨q, hr, hc⟩

/-- **Stable under further refinement**, literally: running the refinement step
(`partition_molecule_by_attribute(·, PARTITION)`) once more on the refined graph returns, and gives every atom the
class it already has. -/
theorem C13_stable_under_refinement (order : Graph → List Nat) (g c r : Graph) (k : Nat) (hw : g.WF) (hs : g.Simple)
    (h : canonicalizeWith g order = .ok (c, r, k)) :
    ∃ r', partitionMoleculeByAttribute r .partition = .ok r' ∧ r'.labels = r.labels ∧
      ∀ a ∈ r.labels, partOf? r' a = partOf? r a :=
  refined_stable order g c r k hw hs h

/-- **Symmetry.**  Two atoms that are mapped onto each other by a symmetry of the molecule (an
identity-preserving automorphism) are in the same class. -/
theorem C13_automorphism (order : Graph → List Nat) (σ : Nat → Nat) (g c r : Graph) (k : Nat)
    (auto : Iso SameIdent σ g g) (hw : g.WF) (hs : g.Simple)
    (h : canonicalizeWith g order = .ok (c, r, k)) :
    ∀ a ∈ g.labels, partOf? r (σ a) = partOf? r a :=
  (C13_label_independent order order σ g g c c r r k k auto hw hs hw hs h h).2

/-- the number of refinement rounds is bounded by the number of atoms (+1) -/
theorem C13_rounds_bounded (order : Graph → List Nat) (g c r : Graph) (k : Nat) (hw : g.WF) (hs : g.Simple)
    (h : canonicalizeWith g order = .ok (c, r, k)) : k ≤ g.numberOfNodes + 1 :=
  (refined_facts hw hs h).2.2.2.2.2.2

example : exGraph.WF ∧ exGraph.Simple := ⟨exGraph_wf, exGraph_simple⟩

/-- **Label independence for graphs of molecules.**  `g`, `g'` are graphs of molecules `m`, `m'` (`IsGraphOf`: what
either reader returns for a file stating the molecule); `m'` is `m` with its atoms listed in another order (`σ`,
inverse `τ`), bonds renumbered accordingly and listed in any order and orientation (`SameMolecule`).  Then atom `i` of
the first file and atom `σ i` of the second — the same atom of the molecule — end up in the same partition class, and
both refinements take the same number of rounds.  No oracle is involved. -/
theorem C13_graphs_of_same_molecule (order order' : Graph → List Nat) (σ τ : Nat → Nat) (m m' : Mol) (hm : m.Ok) (hm' : m'.Ok)
    (same : SameMolecule σ τ m m') (cs cs' : List (Str × Str × Str))
    (hc : cs.length = m.atoms.length) (hc' : cs'.length = m'.atoms.length)
    (g g' : Graph) (hg : IsGraphOf g m cs) (hg' : IsGraphOf g' m' cs') (c c' r r' : Graph) (k k' : Nat)
    (h : canonicalizeWith g order = .ok (c, r, k)) (h' : canonicalizeWith g' order' = .ok (c', r', k')) :
    k = k' ∧ ∀ i < m.atoms.length, partOf? r' (σ i) = partOf? r i := by
  obtain ⟨_, iso⟩ := isGraphOf_iso_perm σ τ m m' hm hm' same cs cs' hc hc' g g' hg hg'
  obtain ⟨hk, hp⟩ := C13_label_independent order order' σ g g' c c' r r' k k' iso hg.wf hg.simple hg'.wf hg'.simple h h'
  refine ⟨hk, fun i hi => hp i ?_⟩
  rw [hg.labels]
  exact List.mem_range.2 hi

/-- non-vacuity of the statement about graphs of molecules: `FilesExample.mol` and the same molecule listed in reverse order -/
example : MoreExamples.molRev.Ok ∧ SameMolecule MoreExamples.rev MoreExamples.rev FilesExample.mol MoreExamples.molRev :=
  ⟨MoreExamples.molRev_ok, MoreExamples.sameMolecule_rev⟩

end Tucan
