import TucanProofs.Lemmas.Totality
import TucanProofs.Lemmas.RoundTripPipeline
import TucanProofs.Examples
import TucanProofs.Lemmas.FilesMol
/-!
# C15 — the pipeline completes for every non-empty molecule regardless of size or shape  (PARTIAL)

About the model, for graphs of every size and shape (no bound on atoms, components, degree or
refinement depth): the pipeline returns a string — no `RecursionError`-like fuel exhaustion, no
`AssertionError`, `IndexError`, `KeyError` or `ValueError` result is reachable.  The refinement is a loop
(after the repair of the recursive generator) that provably stops within `n` rounds (`n` atoms; the model's fuel is `n + 1`); the BFS
relabelling is defined by well-founded recursion, never pops an empty list and meets its assertion.
What no theorem exhibits: Python's actual stack depth, memory, bliss's running time and the ANTLR
runtime's own recursion — the harness runs the real pipeline on depth-linear families in the thousands.
-/
namespace Tucan

/-- **The pipeline returns**, for every oracle that answers with a permutation of the vertices. -/
theorem C15_pipeline_total (order : Graph → List Nat) (hperm : ∀ r : Graph, r.WF → (order r).Perm r.labels)
    (g : Graph) (hw : g.WF) (hs : g.Simple) (hne : g.labels ≠ [])
    (hattrs : ∀ a ∈ g.labels, ∃ x, g.attrs? a = some x ∧ x.z.isSome ∧ x.inv.isSome) :
    ∃ s, tucanOf order g = .ok s :=
  pipeline_total order hperm g hw hs hne hattrs

/-- **… and parsing that string returns too**: the parser accepts the pipeline's output for every molecule
in the domain the readers and the parser produce. -/
theorem C15_parse_of_output_total (order : Graph → List Nat) (hperm : ∀ r : Graph, r.WF → (order r).Perm r.labels)
    (g : Graph) (hw : g.WF) (hs : g.Simple) (hmol : g.MolAtoms)
    (hsize : (natRepr (g.numberOfNodes + 1)).length ≤ intMaxStrDigits)
    (s : Str) (h : tucanOf order g = .ok s) : ∃ H, graphFromTucan s = .ok H :=
  let ⟨H, _, hp, _⟩ := pipeline_roundtrip order hperm g hw hs hmol hsize s h
  ⟨H, hp⟩

/-- canonicalization alone returns whatever the oracle answers -/
theorem C15_canonicalize_total (order : Graph → List Nat) (g : Graph) (hw : g.WF) (hs : g.Simple)
    (hne : g.labels ≠ [])
    (hattrs : ∀ a ∈ g.labels, ∃ x, g.attrs? a = some x ∧ x.z.isSome ∧ x.inv.isSome) :
    ∃ c r k, canonicalizeWith g order = .ok (c, r, k) :=
  canonicalize_total order g hw hs hne hattrs

/-- the refinement loop needs at most `n` rounds for `n` atoms: its depth is linear in the number of atoms, and
the fuel `n + 1` the model gives it is never exhausted -/
theorem C15_refinement_terminates (g : Graph) (hw : g.WF) (hs : g.Simple) (hd : Dense g) (hne : g.labels ≠ []) :
    ∃ r n, refinePartitions g = .ok (r, n) ∧ n ≤ g.numberOfNodes :=
  refinePartitions_ok copySpec mapAttrsSpec g hw hs hd hne

/-- the cosmetic relabelling: no `IndexError` (empty `pop`), no `KeyError`, the `assert` holds, and the
labels are assigned bijectively -/
theorem C15_final_labels_total (v : View) (h : v.WF) :
    ∃ fl, finalLabels v = .ok fl ∧ (fl.map (·.1)).Perm v.nodes ∧ (fl.map (·.2)).Perm v.nodes :=
  let ⟨fl, h1, h2, h3, _⟩ := finalLabels_ok v h
  ⟨fl, h1, h2, h3⟩

/-- non-vacuity: the hypotheses are met by a concrete molecule -/
example : exGraph.WF ∧ exGraph.Simple ∧ exGraph.labels ≠ [] ∧
    (∀ a ∈ exGraph.labels, ∃ x, exGraph.attrs? a = some x ∧ x.z.isSome ∧ x.inv.isSome) := by
  refine ⟨exGraph_wf, exGraph_simple, by decide, ?_⟩
  intro a ha
  have : a = 2 ∨ a = 0 ∨ a = 1 := by simpa [exGraph, Graph.labels] using ha
  rcases this with rfl | rfl | rfl
  · exact ⟨exAtomO, rfl, rfl, rfl⟩
  · exact ⟨exAtomC13, rfl, rfl, rfl⟩
  · exact ⟨exAtomC, rfl, rfl, rfl⟩

/-- **Every conformant molfile with at least one atom gets a string**: the model pipeline returns on the graph
either reader returns for it, for every oracle that returns permutations. -/
theorem C15_molfile_pipeline_total (order : Graph → List Nat) (hperm : ∀ r : Graph, r.WF → (order r).Perm r.labels)
    (g : Graph) (m : Mol) (c : List (Str × Str × Str)) (hc : c.length = m.atoms.length)
    (hm : m.Conformant) (hne : m.atoms ≠ []) (hg : IsGraphOf g m c) : ∃ s, tucanOf order g = .ok s :=
  isGraphOf_pipeline_total order hperm g m c hc hm hne hg

end Tucan
