import TucanProofs.Lemmas.Totality
import TucanProofs.Lemmas.RoundTripPipeline
import TucanProofs.Examples
import TucanProofs.Lemmas.FilesMol
import TucanProofs.Lemmas.FilesIdx
import TucanProofs.Lemmas.LayoutString
/-!
# C15 — the pipeline completes for every non-empty molecule regardless of size or shape  (PARTIAL)

About the model, for graphs of every size and shape (no bound on atoms, components, degree or
refinement depth): the pipeline returns a string — no `RecursionError`-like fuel exhaustion, no
`AssertionError`, `IndexError`, `KeyError` or `ValueError` result is reachable.  The refinement is a loop
(after the repair of the recursive generator) that provably stops within `n` rounds (`n` atoms; the model's fuel is `n + 1`); the BFS
relabelling is defined by well-founded recursion, never pops an empty list and meets its assertion.
What no theorem exhibits: Python's actual stack depth, memory, bliss's running time and the ANTLR
runtime's own recursion — the harness runs the real pipeline on depth-linear families in the thousands.
-/
namespace Tucan

/-- **The pipeline returns**, for every oracle that answers with a permutation of the vertices. -/
theorem C15_pipeline_total (order : Graph → List Nat) (hperm : ∀ r : Graph, r.WF → (order r).Perm r.labels)
    (g : Graph) (hw : g.WF) (hs : g.Simple) (hne : g.labels ≠ [])
    (hattrs : ∀ a ∈ g.labels, ∃ x, g.attrs? a = some x ∧ x.z.isSome ∧ x.inv.isSome) :
    ∃ s, tucanOf order g = .ok s :=
  pipeline_total order hperm g hw hs hne hattrs

/-- **… and parsing that string returns too**: the parser accepts the pipeline's output for every molecule
in the domain the readers and the parser produce. -/
theorem C15_parse_of_output_total (order : Graph → List Nat) (hperm : ∀ r : Graph, r.WF → (order r).Perm r.labels)
    (g : Graph) (hw : g.WF) (hs : g.Simple) (hmol : g.MolAtoms)
    (hsize : (natRepr (g.numberOfNodes + 1)).length ≤ intMaxStrDigits)
    (s : Str) (h : tucanOf order g = .ok s) : ∃ H, graphFromTucan s = .ok H :=
  let ⟨H, _, hp, _⟩ := pipeline_roundtrip order hperm g hw hs hmol hsize s h
  ⟨H, hp⟩

/-- canonicalization alone returns whatever the oracle answers -/
theorem C15_canonicalize_total (order : Graph → List Nat) (g : Graph) (hw : g.WF) (hs : g.Simple)
    (hne : g.labels ≠ [])
    (hattrs : ∀ a ∈ g.labels, ∃ x, g.attrs? a = some x ∧ x.z.isSome ∧ x.inv.isSome) :
    ∃ c r k, canonicalizeWith g order = .ok (c, r, k) :=
  canonicalize_total order g hw hs hne hattrs

/-- the refinement loop needs at most `n` rounds for `n` atoms: its depth is linear in the number of atoms, and
the fuel `n + 1` the model gives it is never exhausted.  The hypothesis `Dense g` is the state the loop is entered
in: every atom carries a class and the classes are exactly `0 … k-1` — what the first partition step
(`partition_molecule_by_attribute(·, INVARIANT_CODE)`) establishes for every non-empty graph; `C15_canonicalize_total`
and `C13_rounds_bounded` are the statements without that hypothesis, for the loop as `canonicalize_molecule` runs it. -/
theorem C15_refinement_terminates (g : Graph) (hw : g.WF) (hs : g.Simple) (hd : Dense g) (hne : g.labels ≠ []) :
    ∃ r n, refinePartitions g = .ok (r, n) ∧ n ≤ g.numberOfNodes :=
  refinePartitions_ok copySpec mapAttrsSpec g hw hs hd hne

/-- the cosmetic relabelling: no `IndexError` (empty `pop`), no `KeyError`, the `assert` holds, and the
labels are assigned bijectively -/
theorem C15_final_labels_total (v : View) (h : v.WF) :
    ∃ fl, finalLabels v = .ok fl ∧ (fl.map (·.1)).Perm v.nodes ∧ (fl.map (·.2)).Perm v.nodes :=
  let ⟨fl, h1, h2, h3, _⟩ := finalLabels_ok v h
  ⟨fl, h1, h2, h3⟩

/-- non-vacuity: the hypotheses are met by a concrete molecule -/
example : exGraph.WF ∧ exGraph.Simple ∧ exGraph.labels ≠ [] ∧
    (∀ a ∈ exGraph.labels, ∃ x, exGraph.attrs? a = some x ∧ x.z.isSome ∧ x.inv.isSome) := by
  refine ⟨exGraph_wf, exGraph_simple, by decide, ?_⟩
  intro a ha
  have : a = 2 ∨ a = 0 ∨ a = 1 := by simpa [exGraph, Graph.labels] using ha
  rcases this with rfl | rfl | rfl
  · exact ⟨exAtomO, rfl, rfl, rfl⟩
  · exact ⟨exAtomC13, rfl, rfl, rfl⟩
  · exact ⟨exAtomC, rfl, rfl, rfl⟩

/-- **Every graph of a conformant molecule with at least one atom gets a string**: the model pipeline returns on a
graph `g` of a molecule `m` a molfile can state within the CTfile specification (`IsGraphOf g m c`: what either
reader returns for a file stating `m` — `C06_v3000_file_any_indices`, `C06_readsAs_graph_of`; the statement with
the file's text inside is `C15_v3000_text_to_string`), for every oracle that returns permutations.  The molecule
domain (`Mol.Ok`) has no star atoms, no bond stated twice and no `D`/`T` with an explicit mass. -/
theorem C15_molfile_pipeline_total (order : Graph → List Nat) (hperm : ∀ r : Graph, r.WF → (order r).Perm r.labels)
    (g : Graph) (m : Mol) (c : List (Str × Str × Str)) (hc : c.length = m.atoms.length)
    (hm : m.Conformant) (hne : m.atoms ≠ []) (hg : IsGraphOf g m c) : ∃ s, tucanOf order g = .ok s :=
  isGraphOf_pipeline_total order hperm g m c hc hm hne hg

/-- **From the text of a conformant V3000 file to its string, end to end.**  A text that consists of lines with
one of the three terminators (`IsTextOf`), whose lines are a V3000 connection table (`IsV3000File`: header, counts
line, atom block with any pairwise distinct indices in any order, bond block, `M  END`, anything after it) that
states a conformant molecule `m` with at least one atom (`V3StatesIdx`): the reader returns a graph, the pipeline
returns a string on it, that string is a sentence of the grammar in canonical layout, and parsing it gives the
graph back up to a renaming of its atoms. -/
theorem C15_v3000_text_to_string (O : CanonOracle) (m : Mol) (hm : m.Conformant) (hne : m.atoms ≠ [])
    (hsize : (natRepr (m.atoms.length + 1)).length ≤ intMaxStrDigits)
    (idx : List Int) (coords : List (Str × Str × Str))
    (text : Str) (lines : List Str) (atoms : List AtomEntry) (bonds : List BondEntry)
    (ht : IsTextOf text lines) (f : IsV3000File lines atoms bonds)
    (hver : ∀ l3, lines[3]? = some l3 → EndsInWord l3 (cs "V3000"))
    (h : V3StatesIdx m idx coords atoms bonds) :
    ∃ g s, graphFromMolfileText text = .ok g ∧ tucanOf O.order g = .ok s ∧
      (∃ toks ast, lex s = some toks ∧ Sentence toks ast ∧ ast.Canonical) ∧
      (∃ H τ, graphFromTucan s = .ok H ∧ Iso SameIdent τ g H) := by
  obtain ⟨g, hread, hg⟩ := v3000_text_reads_graph_of m hm.ok idx coords text lines atoms bonds ht f hver h
  have hc := h.nAtoms.2
  obtain ⟨s, hs⟩ := isGraphOf_pipeline_total O.order O.perm g m coords hc hm hne hg
  have hmol := isGraphOf_molAtoms g m coords hc hm hg
  exact ⟨g, s, hread, hs, emitted_layout O.order O.perm g hg.wf hg.simple hmol s hs,
    (isGraphOf_string_is_sentence O.order O.perm g m coords hc hm hg hsize s hs).2⟩

end Tucan
