import TucanProofs.Lemmas.Pipeline
import TucanProofs.Lemmas.OracleNonempty
import TucanProofs.Examples
import TucanProofs.Lemmas.FilesPerm
import TucanProofs.Lemmas.MoreExamples
import TucanProofs.Lemmas.IsoExample
/-!
# C01 — the TUCAN string is invariant under atom/bond reordering of the input

`Iso SameIdent f g g'` is "two descriptions of the same molecule": `g'` is `g` with atom `a` renamed
`f a`, atoms and neighbours listed in any order (hence bonds listed in any order and orientation), with
equal element, isotope mass and radical on corresponding atoms; bond records, charges, coordinates and
any other attribute are unconstrained.  There is no connectivity or asymmetry hypothesis: symmetric
molecules, several components and labels on part of an orbit are covered.
`tucanOf O.order` is `serialize_molecule ∘ canonicalize_molecule` with igraph/bliss as the parameter `O`.

Domain.  `g.Chem` (chemistry-level atoms) asks of every atom: the symbol is the table's symbol of its atomic
number, the stored invariant code is `[z, mass or 0, radical or 0]` (what `graph_from_molecule` computes), and a
stored mass or radical is not the number 0.  It is a real restriction — with a stored `MASS=0` on one description
and no mass on the other the invariant codes coincide while the written attributes differ — and it holds for every
graph the two molfile readers and the parser return (`C06_readsAs_graph_of`, `C11_accepted_string_denotes_molecule`).
`SameIdent` compares `z`, `sym`, `mass`, `rad` and the stored `inv`; for `Chem` atoms the last two follow from the
first three.  All conclusions are about runs that return: that they do return is C15.
-/
namespace Tucan

/-- **C01.**  For every oracle meeting the bliss contract and every two descriptions of one molecule:
byte-identical strings. -/
theorem C01_string_invariant (O : CanonOracle) (f : Nat → Nat) (g g' : Graph) (s s' : Str)
    (iso : Iso SameIdent f g g') (hchem : g.Chem)
    (hw : g.WF) (hs : g.Simple) (hw' : g'.WF) (hs' : g'.Simple)
    (h : tucanOf O.order g = .ok s) (h' : tucanOf O.order g' = .ok s') : s = s' :=
  tucan_invariant O iso hchem hw hs hw' hs' h h'

/-- the same statement for a single description listed differently (no renaming): the string does not
depend on the iteration order of nodes, neighbours or bonds (the hash-seed / insertion-order quantifier) -/
theorem C01_listing_independent (O : CanonOracle) (g g' : Graph) (s s' : Str)
    (iso : Iso SameIdent id g g') (hchem : g.Chem)
    (hw : g.WF) (hs : g.Simple) (hw' : g'.WF) (hs' : g'.Simple)
    (h : tucanOf O.order g = .ok s) (h' : tucanOf O.order g' = .ok s') : s = s' :=
  tucan_invariant O iso hchem hw hs hw' hs' h h'

/-- **C01 for graphs of molecules.**  `g`, `g'` are graphs of molecules `m` and `m'` (`IsGraphOf`: what either
reader returns for a V3000 file — with any pairwise distinct atom indices in any order,
`C06_v3000_file_any_indices` — or a V2000 file stating the molecule, `C06_readsAs_graph_of`).  If `m'` is `m` with
its atoms listed in another order (`σ`, inverse `τ`), its bonds renumbered accordingly and listed in any order and
orientation (`SameMolecule`), the two graphs get the same string.  No file occurs in this statement; the one with
the texts inside is `C01_texts_same_string`. -/
theorem C01_graphs_of_same_molecule (O : CanonOracle) (σ τ : Nat → Nat) (m m' : Mol) (hm : m.Ok) (hm' : m'.Ok)
    (same : SameMolecule σ τ m m') (c c' : List (Str × Str × Str))
    (hc : c.length = m.atoms.length) (hc' : c'.length = m'.atoms.length)
    (g g' : Graph) (hg : IsGraphOf g m c) (hg' : IsGraphOf g' m' c') (s s' : Str)
    (hs : tucanOf O.order g = .ok s) (hs' : tucanOf O.order g' = .ok s') : s = s' :=
  isGraphOf_same_string_perm O σ τ m m' hm hm' same c c' hc hc' g g' hg hg' s s' hs hs'

/-- **C01 at the level of files**, with the reading of the texts inside the statement: two texts that `ReadsAs` molecules `m` and `m'` (what
`C06_v3000_file_readsAs` / `C06_v2000_file_readsAs` establish for a V3000 or V2000 file stating the molecule, in any
spelling, with any header and line endings), `m'` being `m` listed in another order: both texts are read, and
whatever graphs and strings come out, the strings are equal. -/
theorem C01_texts_same_string (O : CanonOracle) (σ τ : Nat → Nat) (m m' : Mol) (hm : m.Ok) (hm' : m'.Ok)
    (same : SameMolecule σ τ m m') (c c' : List (Str × Str × Str))
    (hc : c.length = m.atoms.length) (hc' : c'.length = m'.atoms.length)
    (text text' : Str) (r : ReadsAs text m c) (r' : ReadsAs text' m' c') :
    (∃ g g', graphFromMolfileText text = .ok g ∧ graphFromMolfileText text' = .ok g') ∧
    ∀ g g' s s', graphFromMolfileText text = .ok g → graphFromMolfileText text' = .ok g' →
      tucanOf O.order g = .ok s → tucanOf O.order g' = .ok s' → s = s' := by
  obtain ⟨g0, hg0, ig0⟩ := readsAs_graph_of m hm c hc text r
  obtain ⟨g0', hg0', ig0'⟩ := readsAs_graph_of m' hm' c' hc' text' r'
  refine ⟨⟨g0, g0', hg0, hg0'⟩, ?_⟩
  intro g g' s s' hg hg' hs hs'
  rw [hg0] at hg; rw [hg0'] at hg'
  cases hg; cases hg'
  exact isGraphOf_same_string_perm O σ τ m m' hm hm' same c c' hc hc' g0 g0' ig0 ig0' s s' hs hs'

/-- the contract the theorem quantifies over is satisfiable -/
theorem C01_oracle_contract_inhabited : Nonempty CanonOracle := CanonOracle.nonempty

/-- non-vacuity of `C01_string_invariant`: two concrete descriptions of one molecule — atoms renamed by
`a ↦ (a + 1) % 3` (not the identity), listed in another order, neighbours in another order, other bond types, the
charge dropped — meet every hypothesis -/
example : Iso SameIdent exRename exGraph exGraphR ∧ exRename ≠ id ∧ exGraph.Chem ∧
    exGraph.WF ∧ exGraph.Simple ∧ exGraphR.WF ∧ exGraphR.Simple :=
  ⟨exGraph_iso, exRename_ne_id, exGraph_chem, exGraph_wf, exGraph_simple, exGraphR_wf, exGraphR_simple⟩

/-- non-vacuity of `C01_graphs_of_same_molecule` / `C01_texts_same_string`: a molecule and the same molecule listed in reverse order (bonds
renumbered, one written the other way round, another bond type) -/
example : MoreExamples.molRev.Ok ∧ SameMolecule MoreExamples.rev MoreExamples.rev FilesExample.mol MoreExamples.molRev :=
  ⟨MoreExamples.molRev_ok, MoreExamples.sameMolecule_rev⟩

end Tucan
