import TucanProofs.Lemmas.Pipeline
import TucanProofs.Lemmas.OracleNonempty
import TucanProofs.Examples
/-!
# C01 — the TUCAN string is invariant under atom/bond reordering of the input

`Iso SameIdent f g g'` is "two descriptions of the same molecule": `g'` is `g` with atom `a` renamed
`f a`, atoms and neighbours listed in any order (hence bonds listed in any order and orientation), with
equal element, isotope mass and radical on corresponding atoms; bond records, charges, coordinates and
any other attribute are unconstrained.  There is no connectivity or asymmetry hypothesis: symmetric
molecules, several components and labels on part of an orbit are covered.
`tucanOf O.order` is `serialize_molecule ∘ canonicalize_molecule` with igraph/bliss as the parameter `O`.
-/
namespace Tucan

/-- **C01.**  For every oracle meeting the bliss contract and every two descriptions of one molecule:
byte-identical strings. -/
theorem C01_string_invariant (O : CanonOracle) (f : Nat → Nat) (g g' : Graph) (s s' : Str)
    (iso : Iso SameIdent f g g') (hchem : g.Chem)
    (hw : g.WF) (hs : g.Simple) (hw' : g'.WF) (hs' : g'.Simple)
    (h : tucanOf O.order g = .ok s) (h' : tucanOf O.order g' = .ok s') : s = s' :=
  tucan_invariant O iso hchem hw hs hw' hs' h h'

/-- the same statement for a single description listed differently (no renaming): the string does not
depend on the iteration order of nodes, neighbours or bonds (the hash-seed / insertion-order quantifier) -/
theorem C01_listing_independent (O : CanonOracle) (g g' : Graph) (s s' : Str)
    (iso : Iso SameIdent id g g') (hchem : g.Chem)
    (hw : g.WF) (hs : g.Simple) (hw' : g'.WF) (hs' : g'.Simple)
    (h : tucanOf O.order g = .ok s) (h' : tucanOf O.order g' = .ok s') : s = s' :=
  tucan_invariant O iso hchem hw hs hw' hs' h h'

/-- the contract the theorem quantifies over is satisfiable -/
theorem C01_oracle_contract_inhabited : Nonempty CanonOracle := CanonOracle.nonempty

/-- non-vacuity: a concrete molecule meets the structural hypotheses -/
example : exGraph.WF ∧ exGraph.Simple := ⟨exGraph_wf, exGraph_simple⟩

end Tucan
