import TucanProofs.Lemmas.Pipeline
import TucanProofs.Examples
import TucanProofs.Lemmas.Files
import TucanProofs.Lemmas.FilesIdx
import TucanProofs.Lemmas.MoreExamples
import TucanProofs.Lemmas.MixedEol
/-!
# C06 — TUCAN depends only on elements, isotopes, radicals and connectivity

A corollary of C01's theorem: the relation under which the pipeline is invariant (`Iso SameIdent`)
constrains nothing but the identity colour (element, mass, radical) of corresponding atoms and the
neighbour *sets*.  Charges, coordinates, bond types and annotations, any further attribute, the
numbering and every listing order are free.  `C06_files_same_string` carries this down to the text of the files, for both readers.
-/
namespace Tucan

/-- changing only non-identity data (same numbering) leaves the string unchanged -/
theorem C06_identity_only (O : CanonOracle) (g g' : Graph) (s s' : Str)
    (same : Iso SameIdent id g g') (hchem : g.Chem)
    (hw : g.WF) (hs : g.Simple) (hw' : g'.WF) (hs' : g'.Simple)
    (h : tucanOf O.order g = .ok s) (h' : tucanOf O.order g' = .ok s') : s = s' :=
  tucan_invariant O same hchem hw hs hw' hs' h h'

/-- … and so does changing the numeric atom indices on top of that -/
theorem C06_identity_only_renumbered (O : CanonOracle) (f : Nat → Nat) (g g' : Graph) (s s' : Str)
    (same : Iso SameIdent f g g') (hchem : g.Chem)
    (hw : g.WF) (hs : g.Simple) (hw' : g'.WF) (hs' : g'.Simple)
    (h : tucanOf O.order g = .ok s) (h' : tucanOf O.order g' = .ok s') : s = s' :=
  tucan_invariant O same hchem hw hs hw' hs' h h'

/-- `SameIdent` really ignores charge, coordinates, the scratch flag and extra data: any two atoms that
agree on element, symbol, mass, radical and invariant code are related -/
theorem C06_sameIdent_ignores (x : Atom) (chg : Option Int) (cx cy cz : Option Str) (extra : Option Str)
    (e : Option Bool) (p : Option Int) :
    SameIdent x { x with chg := chg, x := cx, y := cy, zc := cz, extra := extra, explored := e, part := p } :=
  ⟨rfl, rfl, rfl, rfl, rfl⟩

/-- **C06 at the level of files.**  Two molfile texts — each V3000 or V2000, with any header and comment
lines, any of the three line-ending styles, any spelling of the table, anything after the connection table —
that are read as molecules `m` and `m'` of the same identity (`SameIdentity`: the same atom positions with the
same element, isotope mass and radical, `D` being hydrogen of mass 2; the same bonded pairs, in any order and
orientation) get the same TUCAN string, whatever the two files say about charges, bond types, bond
annotations, coordinates, other keywords and blocks. `C06_v3000_file_readsAs` / `C06_v2000_file_readsAs`
establish the hypothesis `ReadsAs` for the files of the two formats. -/
theorem C06_files_same_string (O : CanonOracle) (m m' : Mol) (hm : m.Ok) (hm' : m'.Ok) (same : SameIdentity m m')
    (c c' : List (Str × Str × Str)) (hc : c.length = m.atoms.length) (hc' : c'.length = m'.atoms.length)
    (text text' : Str) (r : ReadsAs text m c) (r' : ReadsAs text' m' c') (g g' : Graph) (s s' : Str)
    (hg : graphFromMolfileText text = .ok g) (hg' : graphFromMolfileText text' = .ok g')
    (hs : tucanOf O.order g = .ok s) (hs' : tucanOf O.order g' = .ok s') : s = s' :=
  readsAs_same_string O m m' hm hm' same c c' hc hc' text text' r r' g g' s s' hg hg' hs hs'

theorem C06_v3000_file_readsAs (m : Mol) (hm : m.Ok) (coords : List (Str × Str × Str)) (text : Str) (lines : List Str)
    (atoms : List AtomEntry) (bonds : List BondEntry) (ht : IsTextOf text lines) (f : IsV3000File lines atoms bonds)
    (hver : ∀ l3, lines[3]? = some l3 → EndsInWord l3 (cs "V3000"))
    (h : V3States m coords atoms bonds) : ReadsAs text m coords :=
  v3000_text_reads_mol m hm coords text lines atoms bonds ht f hver h

theorem C06_v2000_file_readsAs (m : Mol) (hm : m.Ok) (text : Str) (lines : List Str)
    (atoms : List V2Atom) (bonds : List V2Bond) (bl : List BlockLine) (ht : IsTextOf text lines)
    (f : IsV2000File lines atoms bonds bl) (hver : ∀ l3, lines[3]? = some l3 → EndsInWord l3 (cs "V2000"))
    (h : V2States m atoms bonds bl) : ReadsAs text m (v2Coords atoms) :=
  v2000_text_reads_mol m hm text lines atoms bonds bl ht f hver h

/-- **The numeric atom indices used in the file.**  A V3000 file whose atom lines carry ANY pairwise distinct
indices, in any order, with bond lines referring to atoms by these indices, is read as a graph *of* the molecule
it states (`IsGraphOf`: node `i` is the `i`-th listed atom, adjacency is the molecule's) — the indices are
gone from the graph on. -/
theorem C06_v3000_file_any_indices (m : Mol) (hm : m.Ok) (idx : List Int) (coords : List (Str × Str × Str))
    (text : Str) (lines : List Str) (atoms : List AtomEntry) (bonds : List BondEntry)
    (ht : IsTextOf text lines) (f : IsV3000File lines atoms bonds)
    (hver : ∀ l3, lines[3]? = some l3 → EndsInWord l3 (cs "V3000"))
    (h : V3StatesIdx m idx coords atoms bonds) :
    ∃ g, graphFromMolfileText text = .ok g ∧ IsGraphOf g m coords :=
  v3000_text_reads_graph_of m hm idx coords text lines atoms bonds ht f hver h

/-- every text that `ReadsAs` a molecule (V3000 with indices `1…n`, or V2000) is read as a graph of it -/
theorem C06_readsAs_graph_of (m : Mol) (hm : m.Ok) (c : List (Str × Str × Str)) (hc : c.length = m.atoms.length)
    (text : Str) (r : ReadsAs text m c) : ∃ g, graphFromMolfileText text = .ok g ∧ IsGraphOf g m c :=
  readsAs_graph_of m hm c hc text r

/-- **… and graphs of molecules of the same identity get the same string**, whichever files (with whichever
indices, charges, bond types, coordinates, headers, line endings) they were read from. -/
theorem C06_graphs_of_same_identity (O : CanonOracle) (m m' : Mol) (hm : m.Ok) (same : SameIdentity m m')
    (c c' : List (Str × Str × Str)) (hc : c.length = m.atoms.length) (hc' : c'.length = m'.atoms.length)
    (g g' : Graph) (hg : IsGraphOf g m c) (hg' : IsGraphOf g' m' c') (s s' : Str)
    (hs : tucanOf O.order g = .ok s) (hs' : tucanOf O.order g' = .ok s') : s = s' :=
  isGraphOf_same_string O m m' hm same c c' hc hc' g g' hg hg' s s' hs hs'

/-- the line-ending style is invisible to the readers -/
theorem C06_line_endings (eol : Str) (he : IsEol eol) (lines : List Str) (hnb : ∀ l ∈ lines, WR.NoBreak l) :
    splitLines (fileText eol lines) = lines ∧
    ((∀ l, lines.getLast? = some l → l ≠ []) → splitLines (fileTextNoTrail eol lines) = lines) :=
  ⟨splitLines_fileText eol he lines hnb, fun h => splitLines_fileTextNoTrail eol he lines hnb h⟩

/-- **… also when the terminators are mixed within one file**: each line may end in its own `\n`, `\r\n` or
`\r`, the last one in none (`MixedOk`); the text splits into the same lines, hence the reader returns on it exactly
what it returns on the same lines written with `\n` throughout — every file-level theorem carries over.  The one
interaction: a line ended by `\r` directly followed by an empty line ended by `\n` spells `\r\n`, one terminator;
such a pair is excluded (`NoCrLfMerge`), and it has to be: Python reads `"a\r\n"` as the single line `a`. -/
theorem C06_mixed_line_endings (ls : List (Str × Str)) (hnb : ∀ p ∈ ls, WR.NoBreak p.1)
    (hok : MixedOk ls) (hm : NoCrLfMerge ls) :
    splitLines (fileTextMixed ls) = ls.map (·.1) ∧
    graphFromMolfileText (fileTextMixed ls) = graphFromMolfileText (fileText ['\n'] (ls.map (·.1))) :=
  ⟨splitLines_fileTextMixed ls hnb hok hm, graphFromMolfileText_mixed ls hnb hok hm⟩

/-- non-vacuity: `a\r\nb\rc\n\nd` — four terminators of three kinds, an empty line, no terminator at the end -/
example :
    MixedOk [(['a'], ['\r', '\n']), (['b'], ['\r']), (['c'], ['\n']), ([], ['\n']), (['d'], [])] ∧
    NoCrLfMerge [(['a'], ['\r', '\n']), (['b'], ['\r']), (['c'], ['\n']), ([], ['\n']), (['d'], [])] ∧
    splitLines (fileTextMixed [(['a'], ['\r', '\n']), (['b'], ['\r']), (['c'], ['\n']), ([], ['\n']), (['d'], [])])
      = [['a'], ['b'], ['c'], [], ['d']] := mixed_example

example : exGraph.WF ∧ exGraph.Simple := ⟨exGraph_wf, exGraph_simple⟩

/-- non-vacuity of `C06_v3000_file_any_indices`: atom lines numbered 7, 3, 12 -/
example : V3StatesIdx FilesExample.mol [7, 3, 12] FilesExample.coords3 MoreExamples.atomsIdx MoreExamples.bondsIdx :=
  MoreExamples.v3StatesIdx

end Tucan
