import TucanProofs.Lemmas.Pipeline
import TucanProofs.Examples
/-!
# C06 — TUCAN depends only on elements, isotopes, radicals and connectivity

A corollary of C01's theorem: the relation under which the pipeline is invariant (`Iso SameIdent`)
constrains nothing but the identity colour (element, mass, radical) of corresponding atoms and the
neighbour *sets*.  Charges, coordinates, bond types and annotations, any further attribute, the
numbering and every listing order are free.  (That the two readers map renderings which differ only in
such data to `Iso SameIdent id`-related graphs is C07/C08's business and is checked there.)
-/
namespace Tucan

/-- changing only non-identity data (same numbering) leaves the string unchanged -/
theorem C06_identity_only (O : CanonOracle) (g g' : Graph) (s s' : Str)
    (same : Iso SameIdent id g g') (hchem : g.Chem)
    (hw : g.WF) (hs : g.Simple) (hw' : g'.WF) (hs' : g'.Simple)
    (h : tucanOf O.order g = .ok s) (h' : tucanOf O.order g' = .ok s') : s = s' :=
  tucan_invariant O same hchem hw hs hw' hs' h h'

/-- … and so does changing the numeric atom indices on top of that -/
theorem C06_identity_only_renumbered (O : CanonOracle) (f : Nat → Nat) (g g' : Graph) (s s' : Str)
    (same : Iso SameIdent f g g') (hchem : g.Chem)
    (hw : g.WF) (hs : g.Simple) (hw' : g'.WF) (hs' : g'.Simple)
    (h : tucanOf O.order g = .ok s) (h' : tucanOf O.order g' = .ok s') : s = s' :=
  tucan_invariant O same hchem hw hs hw' hs' h h'

/-- `SameIdent` really ignores charge, coordinates, the scratch flag and extra data: any two atoms that
agree on element, symbol, mass, radical and invariant code are related -/
theorem C06_sameIdent_ignores (x : Atom) (chg : Option Int) (cx cy cz : Option Str) (extra : Option Str)
    (e : Option Bool) (p : Option Int) :
    SameIdent x { x with chg := chg, x := cx, y := cy, zc := cz, extra := extra, explored := e, part := p } :=
  ⟨rfl, rfl, rfl, rfl, rfl⟩

example : exGraph.WF ∧ exGraph.Simple := ⟨exGraph_wf, exGraph_simple⟩

end Tucan
