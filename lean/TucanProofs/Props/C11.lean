import TucanProofs.Lemmas.ParserOutput
import TucanProofs.Lemmas.RoundTripPipeline
import TucanProofs.Lemmas.OracleNonempty
import TucanProofs.Lemmas.RespellAst
import TucanProofs.Lemmas.MoreExamples
import TucanProofs.Lemmas.RespellPerm
/-!
# C11 — any valid spelling of a molecule normalizes to its one canonical string

`norm = serialize ∘ canonicalize ∘ parse`.  An accepted string is turned by the tree listener into a
listener state (atoms of the formula, bonds, attribute records); `to_graph` builds the graph.  Two spellings
of the same molecule — tuples reordered, a tuple's endpoints swapped, a tuple repeated, attribute blocks
reordered or split (all with `π = id`), atoms renumbered inside an element block (`π` a permutation that
moves atoms only inside blocks) — give listener states that correspond under `π`; the graphs are then
`Iso SameIdent π` and C01 gives equal normal forms.
-/
namespace Tucan

/-- **Respelling.**  Spellings whose listener states correspond under a renumbering inside element blocks
normalize to the same string, for every oracle meeting the bliss contract. -/
theorem C11_respelling (O : CanonOracle) (st st' : ListenerState) (h : GoodState st) (h' : GoodState st')
    (π : Nat → Nat)
    (hlen : st'.atoms.length = st.atoms.length)
    (hπ : ∀ i, i < st.atoms.length → π i < st.atoms.length)
    (hinj : ∀ i j, i < st.atoms.length → j < st.atoms.length → π i = π j → i = j)
    (hatoms : ∀ i, i < st.atoms.length → (sortAtomsByZ st'.atoms)[π i]? = (sortAtomsByZ st.atoms)[i]?)
    (hextra : ∀ i, i < st.atoms.length →
      (extraOf st' (π i)).mass = (extraOf st i).mass ∧ (extraOf st' (π i)).rad = (extraOf st i).rad)
    (hbonds : ∀ i j, i < st.atoms.length → j < st.atoms.length →
      ((((i : Int), (j : Int)) ∈ st.bonds ∨ ((j : Int), (i : Int)) ∈ st.bonds) ↔
       (((π i : Int), (π j : Int)) ∈ st'.bonds ∨ ((π j : Int), (π i : Int)) ∈ st'.bonds)))
    (g g' : Graph) (hg : toGraph st = .ok g) (hg' : toGraph st' = .ok g') (hchem : g.Chem)
    (s s' : Str) (hs : tucanOf O.order g = .ok s) (hs' : tucanOf O.order g' = .ok s') : s = s' := by
  have iso := toGraph_respell st st' h h' π hlen hπ hinj hatoms hextra hbonds g g' hg hg'
  obtain ⟨g0, hg0, _, gw, gs, _, _⟩ := toGraph_spec st h
  obtain ⟨g0', hg0', _, gw', gs', _, _⟩ := toGraph_spec st' h'
  rw [hg] at hg0; injection hg0 with e; subst e
  rw [hg'] at hg0'; injection hg0' with e'; subst e'
  exact tucan_invariant O iso hchem gw gs gw' gs' hs hs'

/-- **Respelling, at the level of strings.**  Two accepted strings whose syntax trees say the same thing
(`SameMeaning`: the same formula; the same set of bonded pairs — tuples in any order, endpoints either way round,
a tuple any number of times; the same attribute settings — blocks in any order, split or merged, properties in
any order) normalize to the same string, for every oracle meeting the bliss contract.  (Renumbering atoms inside
an element block: `C11_renumbered_strings`.) -/
theorem C11_respelled_strings (O : CanonOracle) (s s' : Str) (toks toks' : List Tok) (ast ast' : Ast)
    (hl : lex s = some toks) (hsen : Sentence toks ast) (hl' : lex s' = some toks') (hsen' : Sentence toks' ast')
    (same : SameMeaning ast ast') (g g' : Graph)
    (hg : graphFromTucan s = .ok g) (hg' : graphFromTucan s' = .ok g')
    (t t' : Str) (ht : tucanOf O.order g = .ok t) (ht' : tucanOf O.order g' = .ok t') : t = t' :=
  respelling_same_string O s s' toks toks' ast ast' hl hsen hl' hsen' same g g' hg hg' t t' ht ht'

/-- **Respelling with atoms renumbered inside an element block, at the level of strings.**  The second string may
number the atoms differently: `π` (0-based positions; the indices written in the strings are positions + 1) is a
bijection of the positions that keeps every atom inside its element block (`sortedSymbols`: the formula's expansion
by non-decreasing atomic number), and the second tree's bonds and attribute settings are the first tree's carried
along by `π` (`SameMeaningUpTo π`).  Both strings normalize to the same string, for every oracle meeting the bliss
contract. -/
theorem C11_renumbered_strings (O : CanonOracle) (π : Nat → Nat) (s s' : Str) (toks toks' : List Tok)
    (ast ast' : Ast)
    (hl : lex s = some toks) (hsen : Sentence toks ast) (hl' : lex s' = some toks') (hsen' : Sentence toks' ast')
    (same : SameMeaningUpTo π ast ast') (g g' : Graph)
    (hg : graphFromTucan s = .ok g) (hg' : graphFromTucan s' = .ok g')
    (t t' : Str) (ht : tucanOf O.order g = .ok t) (ht' : tucanOf O.order g' = .ok t') : t = t' :=
  respelling_same_string_perm O π s s' toks toks' ast ast' hl hsen hl' hsen' same g g' hg hg' t t' ht ht'

/-- non-vacuity of `C11_renumbered_strings`: `CH2O/(1-3)(3-4)/(1:mass=2)` and `CH2O/(4-3)(2-3)/(2:mass=2)` — the two
hydrogen atoms numbered the other way round, the deuterium label and its bond moving with them -/
example : SameMeaningUpTo RespellPermExample.swap01 RespellPermExample.astD RespellPermExample.astE ∧
    RespellPermExample.swap01 ≠ id ∧ RespellPermExample.astD.Valid ∧ RespellPermExample.astE.Valid :=
  RespellPermExample.sameMeaningUpTo_DE

/-- every accepted string denotes a molecule graph: the listener state the three listeners compute from the
string's own syntax tree (atoms from the formula, bonds from the tuples, attribute records from the blocks) is a
`GoodState`, `to_graph` of that state is the returned graph, and the graph is a well-formed simple graph of
chemistry-level atoms on the labels `0 … n-1`.  (What the graph is in terms of the tree: `C10_denotes`.) -/
theorem C11_accepted_string_denotes_molecule (s : Str) (g : Graph) (h : graphFromTucan s = .ok g) :
    (∃ toks ast st, lex s = some toks ∧ parseTucan toks = some ast ∧
      listenFormula ast.formula = .ok st.atoms ∧ listenTuples ast.tuples = .ok st.bonds ∧
      listenAttrs ast.attrs = .ok st.nodeAttrs ∧ toGraph st = .ok g ∧ GoodState st) ∧
    g.WF ∧ g.Simple ∧ g.MolAtoms := by
  obtain ⟨toks, ast, st, h1, h2, h3, h4, h5, h6, h7⟩ := graphFromTucan_state s g h
  obtain ⟨gw, gs, gm, _, _⟩ := graphFromTucan_mol s g h
  exact ⟨⟨toks, ast, st, h1, h2, h3, h4, h5, h6, h7⟩, gw, gs, gm⟩

/-- **Idempotence.**  `norm (norm s) = norm s`: the canonical string of any accepted string parses, and
normalizing it again returns the identical string. -/
theorem C11_idempotent (O : CanonOracle) (s0 : Str) (g : Graph) (hparse : graphFromTucan s0 = .ok g)
    (hsize : (natRepr (g.numberOfNodes + 1)).length ≤ intMaxStrDigits)
    (s : Str) (h : tucanOf O.order g = .ok s) :
    ∃ g2, graphFromTucan s = .ok g2 ∧ tucanOf O.order g2 = .ok s := by
  obtain ⟨gw, gs, gm, _, _⟩ := graphFromTucan_mol s0 g hparse
  obtain ⟨H, τ, hp, iso, hl, Hw, Hs, Hm⟩ := pipeline_roundtrip O.order O.perm g gw gs gm hsize s h
  refine ⟨H, hp, ?_⟩
  have hchem : g.Chem := fun a ha x hx => (gm a ha x hx).chem
  have hne : H.labels ≠ [] := by
    intro he
    have hn0 : g.numberOfNodes = 0 := by
      rw [hl] at he
      cases hn : g.numberOfNodes with
      | zero => rfl
      | succ k => rw [hn] at he; simp [List.range_succ] at he
    have hg : g.labels = [] := by
      have : g.labels.length = 0 := by simpa [Graph.numberOfNodes, Graph.labels] using hn0
      exact List.eq_nil_of_length_eq_zero this
    -- the pipeline does not return on the empty graph
    unfold tucanOf at h
    cases hc : canonicalizeWith g O.order with
    | error e => simp [hc, bind, Except.bind] at h
    | ok v =>
      obtain ⟨c, r, k⟩ := v
      obtain ⟨p, hp', hr, _⟩ := canonicalize_unfold hc
      obtain ⟨hpl, hpw, hps, _, _⟩ := partition_spec copySpec mapAttrsSpec g .invariantCode gw gs p hp'
      unfold refinePartitions refineLoop at hr
      cases hq : partitionMoleculeByAttribute p .partition with
      | error e => simp [hq, bind, Except.bind] at hr
      | ok q =>
        obtain ⟨hql, _, _, _, _⟩ := partition_spec copySpec mapAttrsSpec p .partition hpw hps q hq
        have : getNumberOfPartitions q = .error .valueError := by
          unfold getNumberOfPartitions
          have : q.nodes = [] := by
            have : q.labels = [] := by rw [hql, hpl, hg]
            simpa [Graph.labels] using this
          simp [this]
        simp [hq, this, bind, Except.bind] at hr
  have hattrs : ∀ a ∈ H.labels, ∃ x, H.attrs? a = some x ∧ x.z.isSome ∧ x.inv.isSome := by
    intro a ha
    obtain ⟨x, hx⟩ := Graph.attrs?_some_of_mem ha
    obtain ⟨z, hz, _, hi, _, _⟩ := (Hm a ha x hx).chem
    exact ⟨x, hx, by simp [hz], by simp [hi]⟩
  obtain ⟨s', hs'⟩ := pipeline_total O.order O.perm H Hw Hs hne hattrs
  have := tucan_invariant O iso hchem gw gs Hw Hs h hs'
  rw [this]; exact hs'

theorem C11_oracle_contract_inhabited : Nonempty CanonOracle := CanonOracle.nonempty

/-- non-vacuity: a concrete spelling is accepted by the front end -/
example : (parseTucan [.lit ['C'], .lit ['2'], .lit ['/'], .lit ['('], .lit ['2'], .lit ['-'], .lit ['1'], .lit [')']]).isSome = true := by
  decide +kernel

/-- non-vacuity of `C11_respelled_strings`: tuples reordered, one swapped, one repeated, the attribute block split -/
example : SameMeaning MoreExamples.astA MoreExamples.astB ∧ MoreExamples.astA.Valid ∧ MoreExamples.astB.Valid :=
  ⟨MoreExamples.sameMeaning_AB, MoreExamples.astA_valid, MoreExamples.astB_valid⟩

end Tucan
