import TucanProofs.Lemmas.Sort
import TucanProofs.Lemmas.Bfs
import TucanProofs.Lemmas.SerializeCongr
import TucanProofs.Lemmas.Pipeline
/-!
# C14 — determinism across processes, call histories and threads  (PARTIAL)

What a theorem can carry:
* (a) *order-obliviousness*: every set- or dict-derived sequence the modelled code reads is sorted first,
  and sorting is a function of the multiset — so the result cannot depend on hash-seed dependent
  iteration order (`C14_sorted_sequences_order_oblivious`, and at the level of whole operations
  `C14_serialize_listing_oblivious`);
* (b) *history independence*: model operations are functions of their arguments (Lean functions); the
  only write to an argument is the scratch flag reset (C12);
* (c) an abstract model of a shared lazily-filled cache (the ANTLR prediction cache): under every
  interleaving of reads, publishes and aborted computations, every stored entry and every returned value
  equals `f k`.
What it cannot exhibit — CPython's thread switching inside the ANTLR runtime, networkx and igraph — is
sampled by the harness (subprocesses under several PYTHONHASHSEED values and call orders, 8 threads).
-/
namespace Tucan

/-- (a) all the sorts the pipeline uses depend only on the multiset of their input -/
theorem C14_sorted_sequences_order_oblivious :
    (∀ l₁ l₂ : List Nat, l₁.Perm l₂ → sortN l₁ = sortN l₂) ∧
    (∀ l₁ l₂ : List Key, l₁.Perm l₂ → sortKDesc l₁ = sortKDesc l₂) ∧
    (∀ l₁ l₂ : List Seq, l₁.Perm l₂ → sortS l₁ = sortS l₂) ∧
    (∀ l₁ l₂ : List (Seq × Nat), l₁.Perm l₂ → l₁.mergeSort leSN = l₂.mergeSort leSN) ∧
    (∀ l₁ l₂ : List (Nat × Nat), l₁.Perm l₂ → l₁.mergeSort leNN = l₂.mergeSort leNN) :=
  ⟨fun _ _ h => sortN_perm_eq h, fun _ _ h => sortKDesc_perm_eq h, fun _ _ h => sortS_perm_eq h,
   fun _ _ h => sortSN_perm_eq h, fun _ _ h => sortNN_perm_eq h⟩

/-- (a) at the level of an operation: the serializer's result does not depend on the order in which
nodes and neighbours are iterated -/
theorem C14_serialize_listing_oblivious (c c' : Graph) (hw : c.WF) (hs : c.Simple) (hw' : c'.WF) (hs' : c'.Simple)
    (same : Iso SameIdentPart id c c') (s s' : Str) (p p' : Graph)
    (h : serializeMolecule c = .ok (s, p)) (h' : serializeMolecule c' = .ok (s', p')) : s = s' :=
  serialize_congr c c' hw hs hw' hs' same s s' p p' h h'

/-- (a) … and so does the canonical graph, and with it the whole pipeline: for one molecule whose nodes, neighbours
and bonds are iterated in another order (the same labels — what a different hash seed or insertion history can
change), canonicalization returns the same labelled graph and the pipeline the same string, for every oracle
meeting the bliss contract -/
theorem C14_pipeline_listing_oblivious (O : CanonOracle) (g g' : Graph) (hchem : g.Chem)
    (hw : g.WF) (hs : g.Simple) (hw' : g'.WF) (hs' : g'.Simple) (same : Iso SameIdent id g g') :
    (∀ c c' r r' k k', canonicalizeWith g O.order = .ok (c, r, k) → canonicalizeWith g' O.order = .ok (c', r', k') →
      Iso SameIdentPart id c c' ∧ k = k') ∧
    (∀ s s', tucanOf O.order g = .ok s → tucanOf O.order g' = .ok s' → s = s') := by
  refine ⟨?_, fun s s' h h' => tucan_invariant O same hchem hw hs hw' hs' h h'⟩
  intro c c' r r' k k' h h'
  exact ⟨(canonical_graph_invariant O same hchem hw hs hw' hs' h h').1,
    (refined_equivariant same hw hs hw' hs' h h').1⟩

/-! ### (c) a lazily filled shared cache -/

section Cache
variable {κ ν : Type} [DecidableEq κ] (f : κ → ν)

/-- an atomic step of some thread: look a key up, publish a computed entry, or abort a computation
(an exception while the entry was being computed leaves the cache as it is) -/
inductive CacheStep (κ : Type)
  | read (thread : Nat) (k : κ)
  | publish (thread : Nat) (k : κ)
  | abort (thread : Nat)

structure CacheState (κ ν : Type) where
  table : κ → Option ν
  returned : List (Nat × κ × ν)      -- (thread, key, value handed to the caller)

def cacheStep (s : CacheState κ ν) : CacheStep κ → CacheState κ ν
  | .read t k =>
    match s.table k with
    | some v => { s with returned := (t, k, v) :: s.returned }   -- hit
    | none => s                                                   -- miss: the thread goes on to compute
  | .publish t k =>
    { table := fun k' => if k' = k then some (f k) else s.table k',
      returned := (t, k, f k) :: s.returned }
  | .abort _ => s

def CacheInv (s : CacheState κ ν) : Prop :=
  (∀ k v, s.table k = some v → v = f k) ∧ (∀ r ∈ s.returned, r.2.2 = f r.2.1)

/-- one step preserves the invariant (helper of `C14_cache_any_interleaving`) -/
theorem cacheStep_inv (s : CacheState κ ν) (a : CacheStep κ) (h : CacheInv f s) : CacheInv f (cacheStep f s a) := by
  obtain ⟨h1, h2⟩ := h
  cases a with
  | read t k =>
    simp only [cacheStep]
    cases hk : s.table k with
    | none => exact ⟨h1, h2⟩
    | some v =>
      refine ⟨h1, ?_⟩
      intro r hr
      rcases List.mem_cons.mp hr with rfl | hr
      · exact h1 k v hk
      · exact h2 r hr
  | publish t k =>
    refine ⟨?_, ?_⟩
    · intro k' v hv
      simp only [cacheStep] at hv
      by_cases hkk : k' = k
      · simp [hkk] at hv; rw [hkk]; exact hv.symm
      · simp [hkk] at hv; exact h1 k' v hv
    · intro r hr
      simp only [cacheStep] at hr
      rcases List.mem_cons.mp hr with rfl | hr
      · rfl
      · exact h2 r hr
  | abort t => exact ⟨h1, h2⟩

/-- **Every interleaving, every history — of this toy model.**  `CacheStep` / `cacheStep` are defined in this file
and are not derived from the ANTLR runtime's cache: `publish` stores `f k` by construction, so the invariant holds
by design; the theorem only records that atomic publication of correct entries cannot be broken by interleaving,
abort or repetition.  That the real cache publishes atomically and correctly is what the harness probes (threads,
processes, histories), not what is proved.  Starting from any cache whose entries are correct (in
particular the empty one, or one left partly filled by earlier — possibly failed — calls), after any
sequence of atomic steps of any number of threads every entry is still correct and every value ever
handed to a caller equals `f k`. -/
theorem C14_cache_any_interleaving (s : CacheState κ ν) (steps : List (CacheStep κ)) (h : CacheInv f s) :
    CacheInv f (steps.foldl (cacheStep f) s) := by
  induction steps generalizing s with
  | nil => exact h
  | cons a as ih => exact ih _ (cacheStep_inv f s a h)

/-- the empty cache satisfies the invariant (non-vacuity) -/
example : CacheInv f (⟨fun _ => none, []⟩ : CacheState κ ν) := ⟨by simp, by simp⟩

end Cache
end Tucan
