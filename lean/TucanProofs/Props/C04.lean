import TucanProofs.Lemmas.Pipeline
import TucanProofs.Lemmas.FilesPerm
import TucanProofs.Lemmas.MoreExamples
import TucanProofs.Lemmas.OracleNonempty
import TucanProofs.Lemmas.ClassesTotal
import TucanProofs.Examples
/-!
# C04 — canonical atom numbering: the same molecule gives the same labelled graph
-/
namespace Tucan

/-- **C04.**  Canonicalizing two descriptions of the same molecule yields the same labelled graph: the
atoms are numbered `0 … n-1`; atom `k` has the same element, isotope mass, radical state and partition
class in both results (`Iso SameIdentPart id`: `attrs`), and atoms `j`, `k` are bonded in one result
exactly when they are bonded in the other (`nbrs`).  Charges, coordinates and bond records are not
constrained (they may sit on different but symmetry-equivalent atoms). -/
theorem C04_canonical_graph (O : CanonOracle) (f : Nat → Nat) (g g' c c' r r' : Graph) (k k' : Nat)
    (iso : Iso SameIdent f g g') (hchem : g.Chem)
    (hw : g.WF) (hs : g.Simple) (hw' : g'.WF) (hs' : g'.Simple)
    (h : canonicalizeWith g O.order = .ok (c, r, k)) (h' : canonicalizeWith g' O.order = .ok (c', r', k')) :
    Iso SameIdentPart id c c' ∧ c.labels.Perm (List.range g.numberOfNodes) ∧
    c'.labels.Perm (List.range g.numberOfNodes) := by
  obtain ⟨isoC, hl, _, _, _, _⟩ := canonical_graph_invariant O iso hchem hw hs hw' hs' h h'
  refine ⟨isoC, hl, ?_⟩
  have := isoC.labels
  simp only [List.map_id] at this
  exact this.trans hl

/-- spelled out: equal node → (element, mass, radical, class) maps and equal edge sets -/
theorem C04_nodes_and_edges (O : CanonOracle) (f : Nat → Nat) (g g' c c' r r' : Graph) (k k' : Nat)
    (iso : Iso SameIdent f g g') (hchem : g.Chem)
    (hw : g.WF) (hs : g.Simple) (hw' : g'.WF) (hs' : g'.Simple)
    (h : canonicalizeWith g O.order = .ok (c, r, k)) (h' : canonicalizeWith g' O.order = .ok (c', r', k')) :
    (∀ i < g.numberOfNodes, ∃ x y, c.attrs? i = some x ∧ c'.attrs? i = some y ∧
        x.z = y.z ∧ x.sym = y.sym ∧ x.mass = y.mass ∧ x.rad = y.rad ∧ x.part = y.part) ∧
    (∀ i j, i < g.numberOfNodes → j < g.numberOfNodes → (c.Adj i j ↔ c'.Adj i j)) := by
  obtain ⟨isoC, hl, _, cs, _, _⟩ := canonical_graph_invariant O iso hchem hw hs hw' hs' h h'
  have hmem : ∀ i, i < g.numberOfNodes → i ∈ c.labels := fun i hi => hl.mem_iff.mpr (by simpa using hi)
  refine ⟨?_, ?_⟩
  · intro i hi
    obtain ⟨x, y, hx, hy, hxy⟩ := isoC.attrs i (hmem i hi)
    exact ⟨x, y, hx, hy, hxy.1.1, hxy.1.2.1, hxy.1.2.2.1, hxy.1.2.2.2.1, hxy.2⟩
  · intro i j hi hj
    have := isoC.adj_iff (canonical_graph_invariant O iso hchem hw hs hw' hs' h h').2.2.1 (hmem i hi) (hmem j hj)
    simpa using this.symm

/-- **The partition class is there**: every label `i` of the canonical graph is the renamed copy of an input atom and
carries that atom's class from the refinement — so the equality of classes in `C04_nodes_and_edges` is an equality of
classes that are set, not of two absent values. -/
theorem C04_classes_set (order : Graph → List Nat)
    (hperm : ∀ r : Graph, r.WF → (order r).Perm r.labels)
    (g c r : Graph) (k : Nat) (hw : g.WF) (hs : g.Simple)
    (h : canonicalizeWith g order = .ok (c, r, k)) :
    ∀ i ∈ c.labels, ∃ a ∈ g.labels, ∃ q : Int, partOf? r a = some q ∧ partOf? c i = some q :=
  canonical_classes_total order hperm g c r k hw hs h

theorem C04_oracle_contract_inhabited : Nonempty CanonOracle := CanonOracle.nonempty

example : exGraph.WF ∧ exGraph.Simple := ⟨exGraph_wf, exGraph_simple⟩

/-- **C04 for graphs of molecules.**  `g`, `g'` are graphs of molecules `m`, `m'` (`IsGraphOf`: what either reader
returns for a file stating the molecule); `m'` is `m` with its atoms listed in another order (`σ`, inverse `τ`), its
bonds renumbered accordingly and listed in any order and orientation (`SameMolecule`).  Then canonicalizing both gives
the same labelled graph: labels `0 … n-1`, label `i` with the same element, mass, radical and partition class in
both, labels `i`, `j` bonded in one exactly when they are bonded in the other. -/
theorem C04_graphs_of_same_molecule (O : CanonOracle) (σ τ : Nat → Nat) (m m' : Mol) (hm : m.Ok) (hm' : m'.Ok)
    (same : SameMolecule σ τ m m') (cs cs' : List (Str × Str × Str))
    (hc : cs.length = m.atoms.length) (hc' : cs'.length = m'.atoms.length)
    (g g' : Graph) (hg : IsGraphOf g m cs) (hg' : IsGraphOf g' m' cs') (c c' r r' : Graph) (k k' : Nat)
    (h : canonicalizeWith g O.order = .ok (c, r, k)) (h' : canonicalizeWith g' O.order = .ok (c', r', k')) :
    (∀ i < m.atoms.length, ∃ x y, c.attrs? i = some x ∧ c'.attrs? i = some y ∧
        x.z = y.z ∧ x.sym = y.sym ∧ x.mass = y.mass ∧ x.rad = y.rad ∧ x.part = y.part) ∧
    (∀ i j, i < m.atoms.length → j < m.atoms.length → (c.Adj i j ↔ c'.Adj i j)) := by
  obtain ⟨hchem, iso⟩ := isGraphOf_iso_perm σ τ m m' hm hm' same cs cs' hc hc' g g' hg hg'
  have hn : g.numberOfNodes = m.atoms.length := by
    have := congrArg List.length hg.labels
    simpa [Graph.labels, Graph.numberOfNodes] using this
  have := C04_nodes_and_edges O σ g g' c c' r r' k k' iso hchem hg.wf hg.simple hg'.wf hg'.simple h h'
  rw [hn] at this
  exact this

/-- non-vacuity of the statement about graphs of molecules: `FilesExample.mol` and the same molecule listed in reverse order -/
example : MoreExamples.molRev.Ok ∧ SameMolecule MoreExamples.rev MoreExamples.rev FilesExample.mol MoreExamples.molRev :=
  ⟨MoreExamples.molRev_ok, MoreExamples.sameMolecule_rev⟩

end Tucan
