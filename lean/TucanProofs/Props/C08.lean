import TucanProofs.Lemmas.V2000
import TucanProofs.Lemmas.V2000File
import TucanProofs.Lemmas.Tables
/-!
# C08 — the V2000 reader agrees with V3000 on the same molecule

About the V2000 reader model: fixed-column fields, property lines with any number of entries, the
supersession rules, the charge-code table.  The whole reader (`graphAttributesV2000`) is tied to the code
by the correspondence on rendered V2000/V3000 pairs, and the probe compares both real readers with the
abstract molecule and with each other.
-/
namespace Tucan

/-- fixed-width integer fields (`"%3d"`) read back; a blank field is 0 -/
theorem C08_fixed_width_fields (i : Int) (h : (intRepr i).length ≤ 3) (k : Nat) :
    toIntV2000 (pad3 i) = .ok i ∧ toIntV2000 (List.replicate k ' ') = .ok 0 :=
  ⟨toIntV2000_pad3 i h, toIntV2000_blank k⟩

/-- **`M  CHG` / `M  RAD` / `M  ISO` lines are decoded entry by entry, whatever the number of entries per
line** (column offsets of the 3rd … 8th entry included): every `(atom, value)` pair comes back, in order. -/
theorem C08_property_line_entries (tag : Str) (htag : tag.length = 3) (entries : List (Int × Int))
    (hn : (intRepr (entries.length : Int)).length ≤ 3)
    (hfit : ∀ e ∈ entries, (intRepr e.1).length ≤ 3 ∧ (intRepr e.2).length ≤ 3)
    (atoms : List (Int × Atom)) (hex : ∀ e ∈ entries, (alookup (e.1 - 1) atoms).isSome) :
    parseAtomValueAssignments (propLine tag entries) atoms = .ok (entries.map fun e => (e.1 - 1, e.2)) :=
  parseAtomValueAssignments_propLine tag htag entries hn hfit atoms hex

/-- **The property block.**  `M  CHG` / `M  RAD` lines, when present, supersede ALL atom-block charge
codes; isotopes come from `M  ISO` lines over any number of lines; an atom-block mass (a D or T symbol)
is kept unless an `M  ISO` entry names that very atom; unrelated lines are ignored; a value of 0 means
"no value"; everything after `M  END` is ignored. -/
theorem C08_property_block (atoms : List (Int × Atom)) (bl : List BlockLine) (lines : List Str) (tail : List Str)
    (hlines : RendersAll atoms bl lines) :
    parseAttributeBlock (lines ++ cs "M  END" :: tail) atoms = .ok (atoms.map fun (k, a) =>
      let asg := allAssignments bl
      let base := if hasChgOrRad bl then { a with chg := none, rad := none } else a
      (k, { base with
        chg := nonZero (lastAssigned asg .chg k) <|> base.chg,
        rad := nonZero (lastAssigned asg .rad k) <|> base.rad,
        mass := nonZero (lastAssigned asg .mass k) <|> base.mass })) :=
  parseAttributeBlock_spec atoms bl lines tail hlines

/-- **The whole V2000 connection table.**  Three header lines, the counts line, fixed-column atom lines with
an atom-block charge code, fixed-column bond lines, atom-list lines, a property block (any mixture of
`M  CHG` / `M  RAD` / `M  ISO` and unrelated lines), `M  END`, and anything after it: the reader returns the
atoms in file order with the stated element (D/T = hydrogen-2/3), coordinates, and charge / radical / mass as
the charge code and the property block determine them, and one bond per bond line with its type. -/
theorem C08_connection_table (h0 h1 h2 countsTail : Str) (atoms : List V2Atom) (bonds : List V2Bond)
    (lists : List Str) (bl : List BlockLine) (blockLines : List Str) (tail : List Str)
    (hatoms : ∀ a ∈ atoms, a.Ok)
    (hna : (intRepr (atoms.length : Int)).length ≤ 3) (hnb : (intRepr (bonds.length : Int)).length ≤ 3)
    (hnl : (intRepr (lists.length : Int)).length ≤ 3)
    (hbonds : ∀ b ∈ bonds, (intRepr b.a).length ≤ 3 ∧ (intRepr b.b).length ≤ 3 ∧ (intRepr b.t).length ≤ 3 ∧
      1 ≤ b.a ∧ b.a ≤ atoms.length ∧ 1 ≤ b.b ∧ b.b ≤ atoms.length)
    (hskipB : ∀ b ∈ bonds, SkippedLine b.line) (hskipL : ∀ l ∈ lists, SkippedLine l)
    (hblock : RendersAll (atoms.zipIdx.map fun (a, i) => ((i : Int), a.record)) bl blockLines) :
    graphAttributesV2000
        (h0 :: h1 :: h2 :: (pad3 atoms.length ++ pad3 bonds.length ++ pad3 lists.length ++ countsTail) ::
          (atoms.map V2Atom.line ++ bonds.map V2Bond.line ++ lists ++ blockLines ++ cs "M  END" :: tail)) =
      .ok (applyBlock bl (atoms.zipIdx.map fun (a, i) => ((i : Int), a.record)),
           bonds.foldl (fun d b => ainsert (b.a - 1, b.b - 1) ({ btype := some b.t } : Bond) d) []) :=
  graphAttributesV2000_spec h0 h1 h2 countsTail atoms bonds lists bl blockLines tail hatoms hna hnb hnl hbonds
    hskipB hskipL hblock

/-- the charge codes of the atom block, as the CTfile specification defines them (regenerated table) -/
theorem C08_charge_codes : chargeCode 0 = (none, none) ∧ chargeCode 1 = (some 3, none) ∧ chargeCode 2 = (some 2, none) ∧
    chargeCode 3 = (some 1, none) ∧ chargeCode 4 = (none, some 2) ∧ chargeCode 5 = (some (-1), none) ∧
    chargeCode 6 = (some (-2), none) ∧ chargeCode 7 = (some (-3), none) ∧
    (∀ c : Int, c < 0 ∨ 7 < c → chargeCode c = (none, none)) :=
  chargeCode_table

/-- D and T keep denoting hydrogen-2 and hydrogen-3 (the same table the V3000 reader uses) -/
theorem C08_hydrogen_isotopes :
    detectHydrogenIsotopes ['D'] = (['H'], 2) ∧ detectHydrogenIsotopes ['T'] = (['H'], 3) := ⟨rfl, rfl⟩

/-- non-vacuity: a block with an ISO line for atom 2, an unrelated line and a CHG line renders -/
example : (propLine (cs "ISO") [(2, 13)]) = cs "M  ISO  1   2  13" := by decide

end Tucan
