import TucanProofs.Lemmas.V2000
import TucanProofs.Lemmas.V2000File
import TucanProofs.Lemmas.Tables
import TucanProofs.Lemmas.Files
import TucanProofs.Lemmas.FilesExample
import TucanProofs.Lemmas.PropBlockText
import TucanProofs.Lemmas.V2Repeated
/-!
# C08 — the V2000 reader agrees with V3000 on the same molecule

About the V2000 reader model: fixed-column fields, property lines with any number of entries, the
supersession rules, the charge-code table.  The whole reader (`graphAttributesV2000`) is tied to the code
by the correspondence on rendered V2000/V3000 pairs, and the probe compares both real readers with the
abstract molecule and with each other.

Scope of the agreement theorem (`C08_readers_agree`, through `V2States`): the mass-difference field of the atom
block is ` 0`; when `M  CHG` / `M  RAD` / `M  ISO` lines are used, each atom with a value is named exactly once
(`C08_readers_agree_repeated_entries` / `C08_same_string_repeated_entries` lift that: an atom may be named any number
of times, the last entry naming it counts and a last entry 0 revokes); coordinates agree up to their spelling.  `RendersAll`, the hypothesis
about the property block, is defined through the reader's line parser; `C08_block_written_in_columns` discharges
it for every block laid out in the specification's fixed columns.
-/
namespace Tucan

/-- fixed-width integer fields (`"%3d"`) read back; a blank field is 0 -/
theorem C08_fixed_width_fields (i : Int) (h : (intRepr i).length ≤ 3) (k : Nat) :
    toIntV2000 (pad3 i) = .ok i ∧ toIntV2000 (List.replicate k ' ') = .ok 0 :=
  ⟨toIntV2000_pad3 i h, toIntV2000_blank k⟩

/-- **`M  CHG` / `M  RAD` / `M  ISO` lines are decoded entry by entry, whatever the number of entries per
line** (column offsets of the 3rd … 8th entry included): every `(atom, value)` pair comes back, in order. -/
theorem C08_property_line_entries (tag : Str) (htag : tag.length = 3) (entries : List (Int × Int))
    (hn : (intRepr (entries.length : Int)).length ≤ 3)
    (hfit : ∀ e ∈ entries, (intRepr e.1).length ≤ 3 ∧ (intRepr e.2).length ≤ 3)
    (atoms : List (Int × Atom)) (hex : ∀ e ∈ entries, (alookup (e.1 - 1) atoms).isSome) :
    parseAtomValueAssignments (propLine tag entries) atoms = .ok (entries.map fun e => (e.1 - 1, e.2)) :=
  parseAtomValueAssignments_propLine tag htag entries hn hfit atoms hex

/-- **The property block.**  `M  CHG` / `M  RAD` lines, when present, supersede ALL atom-block charge
codes; isotopes come from `M  ISO` lines over any number of lines; an atom-block mass (a D or T symbol)
is kept unless an `M  ISO` entry names that very atom; unrelated lines are ignored; a value of 0 means
"no value"; everything after `M  END` is ignored. -/
theorem C08_property_block (atoms : List (Int × Atom)) (bl : List BlockLine) (lines : List Str) (tail : List Str)
    (hlines : RendersAll atoms bl lines) :
    parseAttributeBlock (lines ++ cs "M  END" :: tail) atoms = .ok (atoms.map fun (k, a) =>
      let asg := allAssignments bl
      let base := if hasChgOrRad bl then { a with chg := none, rad := none } else a
      (k, { base with
        chg := nonZero (lastAssigned asg .chg k) <|> base.chg,
        rad := nonZero (lastAssigned asg .rad k) <|> base.rad,
        mass := nonZero (lastAssigned asg .mass k) <|> base.mass })) :=
  parseAttributeBlock_spec atoms bl lines tail hlines

/-- **A property block written in the fixed columns of the specification is read as what it states.**
`RendersAll` — the hypothesis of `C08_property_block`, `C08_connection_table` and, through `IsV2000File`, of
`C08_readers_agree` — relates text and meaning through the reader's own line parser.  Here the text is produced:
`M  CHG` / `M  RAD` / `M  ISO` lines laid out by `propLine` (count in columns 7–9, then `aaa vvv` pairs of
1-based atom number and value, each right-aligned in three columns after a blank) and unrelated lines.  Every
block written this way satisfies `RendersAll` for the 0-based assignments it states. -/
theorem C08_block_written_in_columns (atoms : List (Int × Atom)) (ps : List PropText)
    (hfit : ∀ p ∈ ps, p.Fits atoms) :
    RendersAll atoms (ps.map PropText.blockLine) (ps.map PropText.line) :=
  rendersAll_of_propTexts atoms ps hfit

/-- … so for such a block the reader returns the closed form of `C08_property_block` -/
theorem C08_property_block_written (atoms : List (Int × Atom)) (ps : List PropText) (tail : List Str)
    (hfit : ∀ p ∈ ps, p.Fits atoms) :
    parseAttributeBlock (ps.map PropText.line ++ cs "M  END" :: tail) atoms = .ok (atoms.map fun (k, a) =>
      let asg := allAssignments (ps.map PropText.blockLine)
      let base := if hasChgOrRad (ps.map PropText.blockLine) then { a with chg := none, rad := none } else a
      (k, { base with
        chg := nonZero (lastAssigned asg .chg k) <|> base.chg,
        rad := nonZero (lastAssigned asg .rad k) <|> base.rad,
        mass := nonZero (lastAssigned asg .mass k) <|> base.mass })) :=
  parseAttributeBlock_spec atoms _ _ tail (rendersAll_of_propTexts atoms ps hfit)

/-- non-vacuity: `M  CHG  1   2  -1`, an unrelated line and `M  ISO  2   1  13   2   2` fit a two-atom table -/
example : ∀ p ∈ [PropText.chg [(2, -1)], PropText.other (cs "M  STY  1   1 SUP"), PropText.iso [(1, 13), (2, 2)]],
    p.Fits [((0 : Int), ({} : Atom)), ((1 : Int), ({} : Atom))] := propTexts_example

/-- **The whole V2000 connection table.**  Three header lines, the counts line, fixed-column atom lines with
an atom-block charge code, fixed-column bond lines, atom-list lines, a property block (any mixture of
`M  CHG` / `M  RAD` / `M  ISO` and unrelated lines), `M  END`, and anything after it: the reader returns the
atoms in file order with the stated element (D/T = hydrogen-2/3), coordinates, and charge / radical / mass as
the charge code and the property block determine them, and one bond per bond line with its type. -/
theorem C08_connection_table (h0 h1 h2 countsTail : Str) (atoms : List V2Atom) (bonds : List V2Bond)
    (lists : List Str) (bl : List BlockLine) (blockLines : List Str) (tail : List Str)
    (hatoms : ∀ a ∈ atoms, a.Ok)
    (hna : (intRepr (atoms.length : Int)).length ≤ 3) (hnb : (intRepr (bonds.length : Int)).length ≤ 3)
    (hnl : (intRepr (lists.length : Int)).length ≤ 3)
    (hbonds : ∀ b ∈ bonds, (intRepr b.a).length ≤ 3 ∧ (intRepr b.b).length ≤ 3 ∧ (intRepr b.t).length ≤ 3 ∧
      1 ≤ b.a ∧ b.a ≤ atoms.length ∧ 1 ≤ b.b ∧ b.b ≤ atoms.length)
    (hskipB : ∀ b ∈ bonds, SkippedLine b.line) (hskipL : ∀ l ∈ lists, SkippedLine l)
    (hblock : RendersAll (atoms.zipIdx.map fun (a, i) => ((i : Int), a.record)) bl blockLines) :
    graphAttributesV2000
        (h0 :: h1 :: h2 :: (pad3 atoms.length ++ pad3 bonds.length ++ pad3 lists.length ++ countsTail) ::
          (atoms.map V2Atom.line ++ bonds.map V2Bond.line ++ lists ++ blockLines ++ cs "M  END" :: tail)) =
      .ok (applyBlock bl (atoms.zipIdx.map fun (a, i) => ((i : Int), a.record)),
           bonds.foldl (fun d b => ainsert (b.a - 1, b.b - 1) ({ btype := some b.t } : Bond) d) []) :=
  graphAttributesV2000_spec h0 h1 h2 countsTail atoms bonds lists bl blockLines tail hatoms hna hnb hnl hbonds
    hskipB hskipL hblock

/-- **C08 itself: the two readers agree.**  Let `m` be any molecule (atoms with written symbol — an element
symbol, `D` or `T` — charge, radical, isotope mass; bonds with a type).  A V3000 connection table that states
`m` (in any spelling `C07_connection_table_every_spelling` covers: consecutive indices, properties in any
order with the last `CHG=`/`RAD=`/`MASS=` being the molecule's) and a V2000 connection table that states `m`
— charges and radicals EITHER by the atom-block charge codes OR by `M  CHG` / `M  RAD` lines that list every
atom with a value exactly once (any number of entries per line, any number of lines, any order, unrelated lines
in between; the atom-block codes are then arbitrary and superseded), isotopes by `M  ISO` lines in the same
manner, `D` / `T` by the symbol — are read as the same atom dictionary, up to the spelling of the coordinates,
and the same bond dictionary. -/
theorem C08_readers_agree (m : Mol) (hm : m.Ok) (coords : List (Str × Str × Str))
    (lines3 : List Str) (atoms3 : List AtomEntry) (bonds3 : List BondEntry)
    (f3 : IsV3000File lines3 atoms3 bonds3) (s3 : V3States m coords atoms3 bonds3)
    (lines2 : List Str) (atoms2 : List V2Atom) (bonds2 : List V2Bond) (bl : List BlockLine)
    (f2 : IsV2000File lines2 atoms2 bonds2 bl) (s2 : V2States m atoms2 bonds2 bl) :
    graphAttributesV3000 lines3 = .ok (m.atomDict coords, m.bondDict) ∧
    graphAttributesV2000 lines2 = .ok (m.atomDict (v2Coords atoms2), m.bondDict) :=
  ⟨v3000_reads_mol m hm coords lines3 atoms3 bonds3 f3 s3, v2000_reads_mol m hm lines2 atoms2 bonds2 bl f2 s2⟩

/-- **… and hence the same TUCAN string** (text level: any header lines, any of the three line-ending
styles in either file; for every oracle meeting the bliss contract). -/
theorem C08_same_string (O : CanonOracle) (m : Mol) (hm : m.Ok) (coords : List (Str × Str × Str))
    (text3 : Str) (lines3 : List Str) (atoms3 : List AtomEntry) (bonds3 : List BondEntry)
    (t3 : IsTextOf text3 lines3) (f3 : IsV3000File lines3 atoms3 bonds3)
    (v3 : ∀ l3, lines3[3]? = some l3 → EndsInWord l3 (cs "V3000")) (s3 : V3States m coords atoms3 bonds3)
    (text2 : Str) (lines2 : List Str) (atoms2 : List V2Atom) (bonds2 : List V2Bond) (bl : List BlockLine)
    (t2 : IsTextOf text2 lines2) (f2 : IsV2000File lines2 atoms2 bonds2 bl)
    (v2 : ∀ l3, lines2[3]? = some l3 → EndsInWord l3 (cs "V2000")) (s2 : V2States m atoms2 bonds2 bl)
    (g3 g2 : Graph) (str3 str2 : Str)
    (hg3 : graphFromMolfileText text3 = .ok g3) (hg2 : graphFromMolfileText text2 = .ok g2)
    (hs3 : tucanOf O.order g3 = .ok str3) (hs2 : tucanOf O.order g2 = .ok str2) : str3 = str2 :=
  readsAs_same_string O m m hm hm (sameIdentity_refl m) coords (v2Coords atoms2) s3.nAtoms.2
    (by simp [v2Coords, s2.nAtoms]) text3 text2
    (v3000_text_reads_mol m hm coords text3 lines3 atoms3 bonds3 t3 f3 v3 s3)
    (v2000_text_reads_mol m hm text2 lines2 atoms2 bonds2 bl t2 f2 v2 s2) g3 g2 str3 str2 hg3 hg2 hs3 hs2

/-- **The two readers agree also when the V2000 property lines name an atom more than once.**  `V2StatesRep`
replaces "every atom with a value is listed exactly once" by what the format leaves open: an atom may be named by
any number of `M  CHG` / `M  RAD` / `M  ISO` entries, on any lines; the LAST entry naming it carries the molecule's
value, a last entry of value 0 (or no entry at all) means the atom has none — for a `D` / `T` atom the symbol's
mass then stays.  `C08_readers_agree` is the special case without repetition (`C08_once_is_a_special_case`). -/
theorem C08_readers_agree_repeated_entries (m : Mol) (hm : m.Ok) (coords : List (Str × Str × Str))
    (lines3 : List Str) (atoms3 : List AtomEntry) (bonds3 : List BondEntry)
    (f3 : IsV3000File lines3 atoms3 bonds3) (s3 : V3States m coords atoms3 bonds3)
    (lines2 : List Str) (atoms2 : List V2Atom) (bonds2 : List V2Bond) (bl : List BlockLine)
    (f2 : IsV2000File lines2 atoms2 bonds2 bl) (s2 : V2StatesRep m atoms2 bonds2 bl) :
    graphAttributesV3000 lines3 = .ok (m.atomDict coords, m.bondDict) ∧
    graphAttributesV2000 lines2 = .ok (m.atomDict (v2Coords atoms2), m.bondDict) :=
  ⟨v3000_reads_mol m hm coords lines3 atoms3 bonds3 f3 s3, v2000_reads_mol_rep m hm lines2 atoms2 bonds2 bl f2 s2⟩

/-- … and hence the same TUCAN string (text level, any line-ending style, every oracle meeting the contract) -/
theorem C08_same_string_repeated_entries (O : CanonOracle) (m : Mol) (hm : m.Ok) (coords : List (Str × Str × Str))
    (text3 : Str) (lines3 : List Str) (atoms3 : List AtomEntry) (bonds3 : List BondEntry)
    (t3 : IsTextOf text3 lines3) (f3 : IsV3000File lines3 atoms3 bonds3)
    (v3 : ∀ l3, lines3[3]? = some l3 → EndsInWord l3 (cs "V3000")) (s3 : V3States m coords atoms3 bonds3)
    (text2 : Str) (lines2 : List Str) (atoms2 : List V2Atom) (bonds2 : List V2Bond) (bl : List BlockLine)
    (t2 : IsTextOf text2 lines2) (f2 : IsV2000File lines2 atoms2 bonds2 bl)
    (v2 : ∀ l3, lines2[3]? = some l3 → EndsInWord l3 (cs "V2000")) (s2 : V2StatesRep m atoms2 bonds2 bl)
    (g3 g2 : Graph) (str3 str2 : Str)
    (hg3 : graphFromMolfileText text3 = .ok g3) (hg2 : graphFromMolfileText text2 = .ok g2)
    (hs3 : tucanOf O.order g3 = .ok str3) (hs2 : tucanOf O.order g2 = .ok str2) : str3 = str2 :=
  readsAs_same_string O m m hm hm (sameIdentity_refl m) coords (v2Coords atoms2) s3.nAtoms.2
    (by simp [v2Coords, s2.nAtoms]) text3 text2
    (v3000_text_reads_mol m hm coords text3 lines3 atoms3 bonds3 t3 f3 v3 s3)
    (v2000_text_reads_mol_rep m hm text2 lines2 atoms2 bonds2 bl t2 f2 v2 s2) g3 g2 str3 str2 hg3 hg2 hs3 hs2

/-- listing every atom with a value exactly once (`V2States`) is a special case of `V2StatesRep` -/
theorem C08_once_is_a_special_case (m : Mol) (atoms : List V2Atom) (bonds : List V2Bond) (bl : List BlockLine)
    (h : V2States m atoms bonds bl) : V2StatesRep m atoms bonds bl :=
  v2StatesRep_of_v2States m atoms bonds bl h

/-- non-vacuity with a genuine repetition: `[13C]`, its mass first stated as 12 and then as 13, a charge 2 given
and then revoked by an entry 0; the `M  CHG` lines supersede the decoy charge code 3 of the atom line -/
example : V2StatesRep repExampleMol repExampleAtoms [] repExampleBlock := repExample

/-- **A value of 0 means "no value"** — what `nonZero` in `C08_property_block` is: an entry `0` in an `M  CHG` /
`M  RAD` / `M  ISO` line states nothing, every other value is kept -/
theorem C08_zero_means_no_value :
    nonZero (some 0) = none ∧ nonZero none = none ∧ ∀ v : Int, v ≠ 0 → nonZero (some v) = some v := by
  refine ⟨rfl, rfl, ?_⟩
  intro v hv
  unfold nonZero
  split
  · next h => exact absurd (Option.some.inj h) hv
  · rfl

/-- the charge codes of the atom block, as the CTfile specification defines them (regenerated table) -/
theorem C08_charge_codes : chargeCode 0 = (none, none) ∧ chargeCode 1 = (some 3, none) ∧ chargeCode 2 = (some 2, none) ∧
    chargeCode 3 = (some 1, none) ∧ chargeCode 4 = (none, some 2) ∧ chargeCode 5 = (some (-1), none) ∧
    chargeCode 6 = (some (-2), none) ∧ chargeCode 7 = (some (-3), none) ∧
    (∀ c : Int, c < 0 ∨ 7 < c → chargeCode c = (none, none)) :=
  chargeCode_table

/-- D and T keep denoting hydrogen-2 and hydrogen-3 (the same table the V3000 reader uses) -/
theorem C08_hydrogen_isotopes :
    detectHydrogenIsotopes ['D'] = (['H'], 2) ∧ detectHydrogenIsotopes ['T'] = (['H'], 3) := ⟨rfl, rfl⟩

/-- non-vacuity of `C08_readers_agree` / `C08_same_string`: the molecule `[13C]-O(-)-D`, its V3000 file (one atom
line with blank runs, split inside a token) and its V2000 file (decoy charge code superseded by `M  CHG`,
`M  ISO`, an unrelated line, a line after `M  END`) meet every hypothesis; both readers return the molecule's
dictionaries, and both texts (CRLF after every line / LF without a final one) are read. -/
example : FilesExample.mol.Ok ∧ IsV3000File FilesExample.lines3 FilesExample.atoms3 FilesExample.bonds3 ∧
    V3States FilesExample.mol FilesExample.coords3 FilesExample.atoms3 FilesExample.bonds3 ∧
    IsV2000File FilesExample.lines2 FilesExample.atoms2 FilesExample.bonds2 FilesExample.block ∧
    V2States FilesExample.mol FilesExample.atoms2 FilesExample.bonds2 FilesExample.block ∧
    IsTextOf (fileText ['\r', '\n'] FilesExample.lines3) FilesExample.lines3 ∧
    IsTextOf (fileTextNoTrail ['\n'] FilesExample.lines2) FilesExample.lines2 :=
  ⟨FilesExample.mol_ok, FilesExample.isV3000File, FilesExample.v3States, FilesExample.isV2000File,
   FilesExample.v2States, FilesExample.isTextOf3, FilesExample.isTextOf2⟩

/-- non-vacuity: a block with an ISO line for atom 2, an unrelated line and a CHG line renders -/
example : (propLine (cs "ISO") [(2, 13)]) = cs "M  ISO  1   2  13" := by decide

end Tucan
