import TucanProofs.Lemmas.RoundTripPipeline
import TucanProofs.Examples
import TucanProofs.Lemmas.FilesMol
import TucanProofs.Lemmas.MoreExamples
/-!
# C02 — different molecules never share a TUCAN string

Equal strings parse to the same graph, and that graph is (by C03's reconstruction) both molecules under a
renaming; composing the two renamings gives a colour-preserving isomorphism.  The two oracles need not
satisfy the bliss contract — only return permutations — so distinctness does not rest on bliss being
right.  Together with C01 the string is a complete invariant.
-/
namespace Tucan

/-- **C02.**  If two molecules get the same string they are isomorphic as graphs coloured by element,
isotope mass and radical state (`Iso SameIdent π`). -/
theorem C02_injective (order₁ order₂ : Graph → List Nat)
    (hperm₁ : ∀ r : Graph, r.WF → (order₁ r).Perm r.labels) (hperm₂ : ∀ r : Graph, r.WF → (order₂ r).Perm r.labels)
    (g₁ g₂ : Graph) (hw₁ : g₁.WF) (hs₁ : g₁.Simple) (hm₁ : g₁.MolAtoms) (hw₂ : g₂.WF) (hs₂ : g₂.Simple) (hm₂ : g₂.MolAtoms)
    (hsize₁ : (natRepr (g₁.numberOfNodes + 1)).length ≤ intMaxStrDigits)
    (hsize₂ : (natRepr (g₂.numberOfNodes + 1)).length ≤ intMaxStrDigits)
    (s : Str) (h₁ : tucanOf order₁ g₁ = .ok s) (h₂ : tucanOf order₂ g₂ = .ok s) :
    ∃ π : Nat → Nat, Iso SameIdent π g₁ g₂ := by
  obtain ⟨H₁, τ₁, hp₁, iso₁, _, _, _, _⟩ := pipeline_roundtrip order₁ hperm₁ g₁ hw₁ hs₁ hm₁ hsize₁ s h₁
  obtain ⟨H₂, τ₂, hp₂, iso₂, _, _, _, _⟩ := pipeline_roundtrip order₂ hperm₂ g₂ hw₂ hs₂ hm₂ hsize₂ s h₂
  rw [hp₁] at hp₂
  injection hp₂ with hH
  subst hH
  obtain ⟨τ₂', iso₂', _⟩ := iso₂.symm (fun x y => sameIdent_symm' x y) hw₂
  exact ⟨τ₂' ∘ τ₁, iso₁.trans (fun x y z => sameIdent_trans' x y z) iso₂'⟩

/-- contrapositive reading: non-isomorphic molecules get different strings -/
theorem C02_distinct (order₁ order₂ : Graph → List Nat)
    (hperm₁ : ∀ r : Graph, r.WF → (order₁ r).Perm r.labels) (hperm₂ : ∀ r : Graph, r.WF → (order₂ r).Perm r.labels)
    (g₁ g₂ : Graph) (hw₁ : g₁.WF) (hs₁ : g₁.Simple) (hm₁ : g₁.MolAtoms) (hw₂ : g₂.WF) (hs₂ : g₂.Simple) (hm₂ : g₂.MolAtoms)
    (hsize₁ : (natRepr (g₁.numberOfNodes + 1)).length ≤ intMaxStrDigits)
    (hsize₂ : (natRepr (g₂.numberOfNodes + 1)).length ≤ intMaxStrDigits)
    (hnon : ¬ ∃ π : Nat → Nat, Iso SameIdent π g₁ g₂)
    (s₁ s₂ : Str) (h₁ : tucanOf order₁ g₁ = .ok s₁) (h₂ : tucanOf order₂ g₂ = .ok s₂) : s₁ ≠ s₂ := by
  intro he
  subst he
  exact hnon (C02_injective order₁ order₂ hperm₁ hperm₂ g₁ g₂ hw₁ hs₁ hm₁ hw₂ hs₂ hm₂ hsize₁ hsize₂ s₁ h₁ h₂)

/-- **Together with C01: a complete invariant.**  For an oracle meeting the bliss contract, two molecules get
the same string exactly when they are isomorphic as graphs coloured by element, isotope mass and radical. -/
theorem C02_complete_invariant (O : CanonOracle)
    (g₁ g₂ : Graph) (hw₁ : g₁.WF) (hs₁ : g₁.Simple) (hm₁ : g₁.MolAtoms) (hw₂ : g₂.WF) (hs₂ : g₂.Simple) (hm₂ : g₂.MolAtoms)
    (hsize₁ : (natRepr (g₁.numberOfNodes + 1)).length ≤ intMaxStrDigits)
    (hsize₂ : (natRepr (g₂.numberOfNodes + 1)).length ≤ intMaxStrDigits)
    (s₁ s₂ : Str) (h₁ : tucanOf O.order g₁ = .ok s₁) (h₂ : tucanOf O.order g₂ = .ok s₂) :
    s₁ = s₂ ↔ ∃ π : Nat → Nat, Iso SameIdent π g₁ g₂ := by
  constructor
  · intro he
    subst he
    exact C02_injective O.order O.order O.perm O.perm g₁ g₂ hw₁ hs₁ hm₁ hw₂ hs₂ hm₂ hsize₁ hsize₂ s₁ h₁ h₂
  · rintro ⟨π, iso⟩
    exact tucan_invariant O iso (fun a ha x hx => (hm₁ a ha x hx).chem) hw₁ hs₁ hw₂ hs₂ h₁ h₂

/-- non-vacuity: a concrete molecule meets all hypotheses -/
example : exGraph.WF ∧ exGraph.Simple ∧ exGraph.MolAtoms ∧
    (natRepr (exGraph.numberOfNodes + 1)).length ≤ intMaxStrDigits :=
  ⟨exGraph_wf, exGraph_simple, exGraph_molAtoms, by decide⟩

/-- **C02 for graphs of molecules a molfile can state.**  `g₁`, `g₂` are graphs of conformant molecules `m₁`, `m₂`
(`IsGraphOf`: node `i` is the `i`-th listed atom, adjacency is the molecule's — what either reader returns for a
file stating the molecule).  If they get the same string, there is a renaming of the atoms of `m₁` onto those of
`m₂` that keeps element, isotope mass, radical and bonds. -/
theorem C02_graphs_of_molecules (order₁ order₂ : Graph → List Nat)
    (hperm₁ : ∀ r : Graph, r.WF → (order₁ r).Perm r.labels) (hperm₂ : ∀ r : Graph, r.WF → (order₂ r).Perm r.labels)
    (m₁ m₂ : Mol) (c₁ c₂ : List (Str × Str × Str)) (hc₁ : c₁.length = m₁.atoms.length) (hc₂ : c₂.length = m₂.atoms.length)
    (hm₁ : m₁.Conformant) (hm₂ : m₂.Conformant)
    (hsize₁ : (natRepr (m₁.atoms.length + 1)).length ≤ intMaxStrDigits)
    (hsize₂ : (natRepr (m₂.atoms.length + 1)).length ≤ intMaxStrDigits)
    (g₁ g₂ : Graph) (hg₁ : IsGraphOf g₁ m₁ c₁) (hg₂ : IsGraphOf g₂ m₂ c₂)
    (s : Str) (h₁ : tucanOf order₁ g₁ = .ok s) (h₂ : tucanOf order₂ g₂ = .ok s) :
    ∃ π : Nat → Nat, Iso SameIdent π g₁ g₂ := by
  have hn₁ : g₁.numberOfNodes = m₁.atoms.length := by
    have := congrArg List.length hg₁.labels
    simpa [Graph.labels, Graph.numberOfNodes] using this
  have hn₂ : g₂.numberOfNodes = m₂.atoms.length := by
    have := congrArg List.length hg₂.labels
    simpa [Graph.labels, Graph.numberOfNodes] using this
  exact C02_injective order₁ order₂ hperm₁ hperm₂ g₁ g₂ hg₁.wf hg₁.simple (isGraphOf_molAtoms g₁ m₁ c₁ hc₁ hm₁ hg₁)
    hg₂.wf hg₂.simple (isGraphOf_molAtoms g₂ m₂ c₂ hc₂ hm₂ hg₂) (by rw [hn₁]; exact hsize₁) (by rw [hn₂]; exact hsize₂) s h₁ h₂

/-- **C02 for files.**  Two molfile texts, each V3000 or V2000 with any header, line endings and spelling, that are
read as conformant molecules `m₁`, `m₂` (`ReadsAs`) and get the same TUCAN string state isomorphic molecules: the
graphs the reader returns are graphs of `m₁` and `m₂`, and some renaming between them keeps element, isotope mass,
radical and bonds.  Contrapositive: files stating non-isomorphic molecules never share a string. -/
theorem C02_files_same_string_isomorphic (order₁ order₂ : Graph → List Nat)
    (hperm₁ : ∀ r : Graph, r.WF → (order₁ r).Perm r.labels) (hperm₂ : ∀ r : Graph, r.WF → (order₂ r).Perm r.labels)
    (m₁ m₂ : Mol) (c₁ c₂ : List (Str × Str × Str)) (hc₁ : c₁.length = m₁.atoms.length) (hc₂ : c₂.length = m₂.atoms.length)
    (hm₁ : m₁.Conformant) (hm₂ : m₂.Conformant)
    (hsize₁ : (natRepr (m₁.atoms.length + 1)).length ≤ intMaxStrDigits)
    (hsize₂ : (natRepr (m₂.atoms.length + 1)).length ≤ intMaxStrDigits)
    (text₁ text₂ : Str) (r₁ : ReadsAs text₁ m₁ c₁) (r₂ : ReadsAs text₂ m₂ c₂)
    (g₁ g₂ : Graph) (hr₁ : graphFromMolfileText text₁ = .ok g₁) (hr₂ : graphFromMolfileText text₂ = .ok g₂)
    (s : Str) (h₁ : tucanOf order₁ g₁ = .ok s) (h₂ : tucanOf order₂ g₂ = .ok s) :
    IsGraphOf g₁ m₁ c₁ ∧ IsGraphOf g₂ m₂ c₂ ∧ ∃ π : Nat → Nat, Iso SameIdent π g₁ g₂ := by
  obtain ⟨g₁', e₁, hg₁⟩ := readsAs_graph_of m₁ hm₁.ok c₁ hc₁ text₁ r₁
  obtain ⟨g₂', e₂, hg₂⟩ := readsAs_graph_of m₂ hm₂.ok c₂ hc₂ text₂ r₂
  rw [hr₁] at e₁
  rw [hr₂] at e₂
  injection e₁ with e₁
  injection e₂ with e₂
  subst e₁ e₂
  exact ⟨hg₁, hg₂, C02_graphs_of_molecules order₁ order₂ hperm₁ hperm₂ m₁ m₂ c₁ c₂ hc₁ hc₂ hm₁ hm₂ hsize₁ hsize₂
    g₁ g₂ hg₁ hg₂ s h₁ h₂⟩

/-- non-vacuity of the file-level statement: the V3000 text (CRLF) and the V2000 text (LF, no final newline) of
`FilesExample` are read as its molecule, which is conformant -/
example : FilesExample.mol.Conformant ∧
    ReadsAs (fileText ['\r', '\n'] FilesExample.lines3) FilesExample.mol FilesExample.coords3 ∧
    ReadsAs (fileTextNoTrail ['\n'] FilesExample.lines2) FilesExample.mol (v2Coords FilesExample.atoms2) :=
  ⟨MoreExamples.mol_conformant, FilesExample.texts_read.1, FilesExample.texts_read.2⟩

end Tucan
