import TucanProofs.Lemmas.RoundTripPipeline
import TucanProofs.Examples
/-!
# C02 — different molecules never share a TUCAN string

Equal strings parse to the same graph, and that graph is (by C03's reconstruction) both molecules under a
renaming; composing the two renamings gives a colour-preserving isomorphism.  The two oracles need not
satisfy the bliss contract — only return permutations — so distinctness does not rest on bliss being
right.  Together with C01 the string is a complete invariant.
-/
namespace Tucan

/-- **C02.**  If two molecules get the same string they are isomorphic as graphs coloured by element,
isotope mass and radical state (`Iso SameIdent π`). -/
theorem C02_injective (order₁ order₂ : Graph → List Nat)
    (hperm₁ : ∀ r : Graph, r.WF → (order₁ r).Perm r.labels) (hperm₂ : ∀ r : Graph, r.WF → (order₂ r).Perm r.labels)
    (g₁ g₂ : Graph) (hw₁ : g₁.WF) (hs₁ : g₁.Simple) (hm₁ : g₁.MolAtoms) (hw₂ : g₂.WF) (hs₂ : g₂.Simple) (hm₂ : g₂.MolAtoms)
    (hsize₁ : (natRepr (g₁.numberOfNodes + 1)).length ≤ intMaxStrDigits)
    (hsize₂ : (natRepr (g₂.numberOfNodes + 1)).length ≤ intMaxStrDigits)
    (s : Str) (h₁ : tucanOf order₁ g₁ = .ok s) (h₂ : tucanOf order₂ g₂ = .ok s) :
    ∃ π : Nat → Nat, Iso SameIdent π g₁ g₂ := by
  obtain ⟨H₁, τ₁, hp₁, iso₁, _, _, _, _⟩ := pipeline_roundtrip order₁ hperm₁ g₁ hw₁ hs₁ hm₁ hsize₁ s h₁
  obtain ⟨H₂, τ₂, hp₂, iso₂, _, _, _, _⟩ := pipeline_roundtrip order₂ hperm₂ g₂ hw₂ hs₂ hm₂ hsize₂ s h₂
  rw [hp₁] at hp₂
  injection hp₂ with hH
  subst hH
  obtain ⟨τ₂', iso₂', _⟩ := iso₂.symm (fun x y => sameIdent_symm' x y) hw₂
  exact ⟨τ₂' ∘ τ₁, iso₁.trans (fun x y z => sameIdent_trans' x y z) iso₂'⟩

/-- contrapositive reading: non-isomorphic molecules get different strings -/
theorem C02_distinct (order₁ order₂ : Graph → List Nat)
    (hperm₁ : ∀ r : Graph, r.WF → (order₁ r).Perm r.labels) (hperm₂ : ∀ r : Graph, r.WF → (order₂ r).Perm r.labels)
    (g₁ g₂ : Graph) (hw₁ : g₁.WF) (hs₁ : g₁.Simple) (hm₁ : g₁.MolAtoms) (hw₂ : g₂.WF) (hs₂ : g₂.Simple) (hm₂ : g₂.MolAtoms)
    (hsize₁ : (natRepr (g₁.numberOfNodes + 1)).length ≤ intMaxStrDigits)
    (hsize₂ : (natRepr (g₂.numberOfNodes + 1)).length ≤ intMaxStrDigits)
    (hnon : ¬ ∃ π : Nat → Nat, Iso SameIdent π g₁ g₂)
    (s₁ s₂ : Str) (h₁ : tucanOf order₁ g₁ = .ok s₁) (h₂ : tucanOf order₂ g₂ = .ok s₂) : s₁ ≠ s₂ := by
  intro he
  subst he
  exact hnon (C02_injective order₁ order₂ hperm₁ hperm₂ g₁ g₂ hw₁ hs₁ hm₁ hw₂ hs₂ hm₂ hsize₁ hsize₂ s₁ h₁ h₂)

/-- **Together with C01: a complete invariant.**  For an oracle meeting the bliss contract, two molecules get
the same string exactly when they are isomorphic as graphs coloured by element, isotope mass and radical. -/
theorem C02_complete_invariant (O : CanonOracle)
    (g₁ g₂ : Graph) (hw₁ : g₁.WF) (hs₁ : g₁.Simple) (hm₁ : g₁.MolAtoms) (hw₂ : g₂.WF) (hs₂ : g₂.Simple) (hm₂ : g₂.MolAtoms)
    (hsize₁ : (natRepr (g₁.numberOfNodes + 1)).length ≤ intMaxStrDigits)
    (hsize₂ : (natRepr (g₂.numberOfNodes + 1)).length ≤ intMaxStrDigits)
    (s₁ s₂ : Str) (h₁ : tucanOf O.order g₁ = .ok s₁) (h₂ : tucanOf O.order g₂ = .ok s₂) :
    s₁ = s₂ ↔ ∃ π : Nat → Nat, Iso SameIdent π g₁ g₂ := by
  constructor
  · intro he
    subst he
    exact C02_injective O.order O.order O.perm O.perm g₁ g₂ hw₁ hs₁ hm₁ hw₂ hs₂ hm₂ hsize₁ hsize₂ s₁ h₁ h₂
  · rintro ⟨π, iso⟩
    exact tucan_invariant O iso (fun a ha x hx => (hm₁ a ha x hx).chem) hw₁ hs₁ hw₂ hs₂ h₁ h₂

/-- non-vacuity: a concrete molecule meets all hypotheses -/
example : exGraph.WF ∧ exGraph.Simple ∧ exGraph.MolAtoms ∧
    (natRepr (exGraph.numberOfNodes + 1)).length ≤ intMaxStrDigits :=
  ⟨exGraph_wf, exGraph_simple, exGraph_molAtoms, by decide⟩

end Tucan
