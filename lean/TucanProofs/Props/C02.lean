import TucanProofs.Lemmas.Sort
import TucanModel.Serialize
/-! # C02 — property theorems (see DESIGN.md §5) -/
namespace Tucan

/-- The tuple list written by the serializer is a function of the *set* of bonds: any two listings of
the same normalised bonds give the same sorted list. -/
theorem C02_tuples_listing_independent {l₁ l₂ : List (Nat × Nat)} (h : l₁.Perm l₂) :
    l₁.mergeSort leNN = l₂.mergeSort leNN := sortNN_perm_eq h

end Tucan
