import TucanProofs.Lemmas.LineMachinery
import TucanProofs.Lemmas.SpliceAny
import TucanProofs.Lemmas.WriteRead
import TucanProofs.Examples
import TucanProofs.Lemmas.WriteReadAny
import TucanProofs.Lemmas.Chain
import TucanProofs.Lemmas.ChainTotal
import TucanProofs.Lemmas.WrittenIsV3000
import TucanProofs.Lemmas.WrittenReadsBySpec
/-!
# C09 — written molfiles read back as the same molecule, at any line length

About the writer model (`addV30Line`, `atomLine`, `graphToMolfileLines`) and the V3000 reader model
(`concatLinesWithDash`, `tokenizeLine`, `parseAtomAttributesV3000`).  Coordinates are opaque tokens of
arbitrary length (`f"{x:.6f}"` is not modelled), which is exactly what forces wraps at every position.
-/
namespace Tucan

/-- **C09, the whole file.**  For a graph with consecutive labels whose attributes are in the format's
ranges (non-zero charge within ±15, radical 1–3, mass > 0, blank-free float coordinate tokens of ANY
length, any bond type, any atom count and index width) the written molfile has no line longer than 79
characters (80 with the newline; the time-stamped header line aside), and reading it back returns the same
atoms in the same order with the same element, charge, radical, isotope mass and coordinate tokens, and
the same bonds with the same bond types (a missing bond type is written, and read back, as 1). -/
theorem C09_write_read (g : Graph) (hw : g.WF) (hs : g.Simple) (hlab : g.labels = List.range g.numberOfNodes)
    (hatoms : ∀ n ∈ g.nodes, WritableAtom n)
    (hbonds : ∀ n ∈ g.nodes, ∀ e ∈ n.nbrs, ∀ bt, e.2.btype = some bt → (intRepr bt).length ≤ intMaxStrDigits)
    (hsize : (natRepr (g.numberOfNodes + g.numberOfEdges + 1)).length ≤ intMaxStrDigits)
    (hdr : Str) (hh : GoodHeader hdr) :
    ∃ lines g', graphToMolfileLines g hdr = .ok lines ∧
      (∀ l ∈ lines, l.length ≤ 79 ∨ l = hdr) ∧
      graphFromMolfileText (joinLines lines) = .ok g' ∧
      g'.labels = g.labels ∧ g'.WF ∧ g'.Simple ∧
      (∀ n ∈ g.nodes, ∃ z, atomicNumberOf ((n.attrs.sym).getD []) = .ok z ∧
          g'.attrs? n.id = some (readBackAtom n.attrs z)) ∧
      (∀ i j bt, (j, ({ btype := some bt } : Bond)) ∈ g'.nbrsD i ↔
          ∃ d, (j, d) ∈ g.nbrsD i ∧ d.btype.getD 1 = bt) :=
  write_read g hw hs hlab hatoms hbonds hsize hdr hh

/-- **… for a graph listed in ANY order** (what `relabel_nodes` returns: canonical graphs in particular have the
labels `0 … n-1` listed in another order).  The atom lines carry `label + 1` in listing order, the reader
renumbers in file order: the graph read back is the written graph with its `i`-th listed node renamed `i` —
same element, charge, radical, mass, coordinate tokens on that node, and `i`, `j` bonded with type `bt` exactly
when the `i`-th and `j`-th listed nodes were. -/
theorem C09_write_read_any_listing (g : Graph) (hw : g.WF) (hs : g.Simple)
    (hlab : g.labels.Perm (List.range g.numberOfNodes))
    (hatoms : ∀ n ∈ g.nodes, WritableAtom n)
    (hbonds : ∀ n ∈ g.nodes, ∀ e ∈ n.nbrs, ∀ bt, e.2.btype = some bt → (intRepr bt).length ≤ intMaxStrDigits)
    (hsize : (natRepr (g.numberOfNodes + g.numberOfEdges + 1)).length ≤ intMaxStrDigits)
    (hdr : Str) (hh : GoodHeader hdr) :
    ∃ lines g', graphToMolfileLines g hdr = .ok lines ∧
      (∀ l ∈ lines, l.length ≤ 79 ∨ l = hdr) ∧
      graphFromMolfileText (joinLines lines) = .ok g' ∧
      g'.labels = List.range g.numberOfNodes ∧ g'.WF ∧ g'.Simple ∧
      (∀ i (hi : i < g.nodes.length), ∃ z, atomicNumberOf ((g.nodes[i].attrs.sym).getD []) = .ok z ∧
          g'.attrs? i = some (readBackAtom g.nodes[i].attrs z)) ∧
      (∀ i j (hi : i < g.nodes.length) (hj : j < g.nodes.length) (bt : Int),
          (j, ({ btype := some bt } : Bond)) ∈ g'.nbrsD i ↔
          ∃ d, (g.nodes[j].id, d) ∈ g.nbrsD g.nodes[i].id ∧ d.btype.getD 1 = bt) :=
  write_read_any_listing g hw hs hlab hatoms hbonds hsize hdr hh

/-- **No other bond appears**: every adjacency record of the graph read back has the form `{ btype := some bt }`
— so the bond conclusion of `C09_write_read` / `C09_write_read_any_listing`, which characterises the records of
that form, characterises all of them. -/
theorem C09_bond_records (g : Graph) (hw : g.WF) (hs : g.Simple)
    (hlab : g.labels.Perm (List.range g.numberOfNodes))
    (hatoms : ∀ n ∈ g.nodes, WritableAtom n)
    (hbonds : ∀ n ∈ g.nodes, ∀ e ∈ n.nbrs, ∀ bt, e.2.btype = some bt → (intRepr bt).length ≤ intMaxStrDigits)
    (hsize : (natRepr (g.numberOfNodes + g.numberOfEdges + 1)).length ≤ intMaxStrDigits)
    (hdr : Str) (hh : GoodHeader hdr) (lines : List Str) (g' : Graph)
    (hwr : graphToMolfileLines g hdr = .ok lines) (hrd : graphFromMolfileText (joinLines lines) = .ok g') :
    ∀ (i j : Nat) (d' : Bond), (j, d') ∈ g'.nbrsD i → ∃ bt : Int, d' = { btype := some bt } :=
  write_read_bond_records g hw hs hlab hatoms hbonds hsize hdr hh lines g' hwr hrd

/-- **What the writer writes is a well-formed V3000 connection table**, independently of any reader: the written
lines are a V3000 file as `IsV3000File` — the hypothesis bundle of C07's specification theorem — defines one (four
header lines, `BEGIN CTAB`, a counts line carrying the numbers of atom and bond lines, `BEGIN ATOM`, one well-formed
atom line per atom, `END ATOM`, the bond block unless there is no bond, a tail ending in `M  END`; every logical line
wrapped with a trailing dash), with exactly the entries `writtenAtom n` per node in listing order (index = label + 1,
symbol, three coordinate tokens, `0`, then `CHG=` / `RAD=` / `MASS=` for the values present) and `writtenBond` per
reported edge (running number, type, the two atom indices); its fourth line ends in `V3000`; no line contains a line
break.  So every statement C07 proves about such files applies to the writer's output. -/
theorem C09_written_is_v3000_file (g : Graph) (hw : g.WF)
    (hlab : g.labels.Perm (List.range g.numberOfNodes))
    (hatoms : ∀ n ∈ g.nodes, WritableAtom n)
    (hbonds : ∀ n ∈ g.nodes, ∀ e ∈ n.nbrs, ∀ bt, e.2.btype = some bt → (intRepr bt).length ≤ intMaxStrDigits)
    (hsize : (natRepr (g.numberOfNodes + g.numberOfEdges + 1)).length ≤ intMaxStrDigits)
    (hdr : Str) (hh : GoodHeader hdr) (lines : List Str)
    (hwr : graphToMolfileLines g hdr = .ok lines) :
    IsV3000File lines (g.nodes.map writtenAtom) (g.edges.zipIdx.map writtenBond) ∧
    (∀ l3, lines[3]? = some l3 → EndsInWord l3 (cs "V3000")) ∧
    (∀ l ∈ lines, WR.NoBreak l) :=
  written_isV3000File g hw hlab hatoms hbonds hsize hdr hh lines hwr

/-- **… and C07's specification, applied to it, says what the reader returns**: the closed forms `atomDictOf` /
`bondDictOf` of the written entries (no star atom among them, every bond between two written atoms).  A second route
to the reader's result for a written file, through the format's specification instead of the writer-specific lemmas
behind `C09_write_read`; the two share only the line machinery. -/
theorem C09_written_read_by_spec (g : Graph) (hw : g.WF)
    (hlab : g.labels.Perm (List.range g.numberOfNodes))
    (hatoms : ∀ n ∈ g.nodes, WritableAtom n)
    (hbonds : ∀ n ∈ g.nodes, ∀ e ∈ n.nbrs, ∀ bt, e.2.btype = some bt → (intRepr bt).length ≤ intMaxStrDigits)
    (hsize : (natRepr (g.numberOfNodes + g.numberOfEdges + 1)).length ≤ intMaxStrDigits)
    (hdr : Str) (hh : GoodHeader hdr) (lines : List Str)
    (hwr : graphToMolfileLines g hdr = .ok lines) :
    graphAttributesV3000 lines =
      .ok (atomDictOf (g.nodes.map writtenAtom), bondDictOf [] (g.edges.zipIdx.map writtenBond)) ∧
    starsOf (g.nodes.map writtenAtom) = [] ∧
    V3BondsOk (g.nodes.map writtenAtom) (g.edges.zipIdx.map writtenBond) :=
  ⟨(written_reads_by_spec g hw hlab hatoms hbonds hsize hdr hh lines hwr).1,
   (written_reads_by_spec g hw hlab hatoms hbonds hsize hdr hh lines hwr).2, written_bondsOk g hw⟩

/-- **The graph read back is the written molecule**: for a molecule graph listed in any order, writing and
reading back gives a graph related to it by `Iso SameIdent` (atom ↦ its listing position), hence with the same
TUCAN string. -/
theorem C09_write_read_same_string (O : CanonOracle) (g : Graph) (hw : g.WF) (hs : g.Simple)
    (hlab : g.labels.Perm (List.range g.numberOfNodes)) (hmol : g.MolAtoms)
    (hatoms : ∀ n ∈ g.nodes, WritableAtom n)
    (hbonds : ∀ n ∈ g.nodes, ∀ e ∈ n.nbrs, ∀ bt, e.2.btype = some bt → (intRepr bt).length ≤ intMaxStrDigits)
    (hsize : (natRepr (g.numberOfNodes + g.numberOfEdges + 1)).length ≤ intMaxStrDigits)
    (hdr : Str) (hh : GoodHeader hdr) (lines : List Str) (g' : Graph)
    (hwr : graphToMolfileLines g hdr = .ok lines) (hrd : graphFromMolfileText (joinLines lines) = .ok g')
    (s s' : Str) (h : tucanOf O.order g = .ok s) (h' : tucanOf O.order g' = .ok s') : s = s' :=
  write_read_same_string O g hw hs hlab hmol hatoms hbonds hsize hdr hh lines g' hwr hrd s s' h h'

/-- **Consequently string → graph → molfile → graph → string returns the original TUCAN string**: start from
the string `s` of a molecule, parse it, write the parsed graph, read the file, run the pipeline on what was read
— the result is `s`.  (The parsed graph must be writable: radicals within the format's range 1–3.) -/
theorem C09_string_molfile_string (O : CanonOracle) (g0 : Graph) (hw0 : g0.WF) (hs0 : g0.Simple) (hmol0 : g0.MolAtoms)
    (hsize0 : (natRepr (g0.numberOfNodes + 1)).length ≤ intMaxStrDigits)
    (s : Str) (h0 : tucanOf O.order g0 = .ok s)
    (H : Graph) (hp : graphFromTucan s = .ok H)
    (hatoms : ∀ n ∈ H.nodes, WritableAtom n)
    (hbonds : ∀ n ∈ H.nodes, ∀ e ∈ n.nbrs, ∀ bt, e.2.btype = some bt → (intRepr bt).length ≤ intMaxStrDigits)
    (hsize : (natRepr (H.numberOfNodes + H.numberOfEdges + 1)).length ≤ intMaxStrDigits)
    (hdr : Str) (hh : GoodHeader hdr) (lines : List Str) (g' : Graph)
    (hwr : graphToMolfileLines H hdr = .ok lines) (hrd : graphFromMolfileText (joinLines lines) = .ok g')
    (s' : Str) (h' : tucanOf O.order g' = .ok s') : s' = s :=
  string_molfile_string O g0 hw0 hs0 hmol0 hsize0 s h0 H hp hatoms hbonds hsize hdr hh lines g' hwr hrd s' h'

/-- **… with existence.**  Of the parsed graph only the radical range (a molfile cannot state a radical above 3)
and two width guards (bond-type numerals and the counts, CPython's integer-conversion limit) are assumed.  That
every atom of the parsed graph is writable, that writing returns, that reading the written file returns, that the
pipeline returns on what was read, and that it returns `s`, are conclusions. -/
theorem C09_string_molfile_string_total (O : CanonOracle) (g0 : Graph) (hw0 : g0.WF) (hs0 : g0.Simple)
    (hne0 : g0.labels ≠ []) (hmol0 : g0.MolAtoms)
    (hsize0 : (natRepr (g0.numberOfNodes + 1)).length ≤ intMaxStrDigits)
    (s : Str) (h0 : tucanOf O.order g0 = .ok s)
    (H : Graph) (hp : graphFromTucan s = .ok H)
    (hrad : ∀ n ∈ H.nodes, ∀ r, n.attrs.rad = some r → r ≤ 3)
    (hbonds : ∀ n ∈ H.nodes, ∀ e ∈ n.nbrs, ∀ bt, e.2.btype = some bt → (intRepr bt).length ≤ intMaxStrDigits)
    (hsize : (natRepr (H.numberOfNodes + H.numberOfEdges + 1)).length ≤ intMaxStrDigits)
    (hdr : Str) (hh : GoodHeader hdr) :
    (∀ n ∈ H.nodes, WritableAtom n) ∧
    ∃ lines g', graphToMolfileLines H hdr = .ok lines ∧ graphFromMolfileText (joinLines lines) = .ok g' ∧
      tucanOf O.order g' = .ok s :=
  string_molfile_string_total O g0 hw0 hs0 hne0 hmol0 hsize0 s h0 H hp hrad hbonds hsize hdr hh

/-- **No line is longer than 80 characters including the newline**, for logical lines of every length. -/
theorem C09_line_length (line : Str) : ∀ p ∈ addV30Line line, p.length ≤ 79 := addV30Line_length_le line

/-- every physical line carries the `M  V30 ` prefix -/
theorem C09_line_prefix (line : Str) : ∀ p ∈ addV30Line line, startsWith p v30Prefix = true := addV30Line_prefix line

/-- **Splicing inverts wrapping, for every line length** (one, two or any number of wraps; wrap points
inside a coordinate, a keyword, before or after a blank or a minus sign): the physical lines of a logical
line that does not itself end in a dash splice back to `"M  V30 " ++ line`. -/
theorem C09_splice_wrap (line : Str) (rest : List Str) (h : endsWithChar (v30Prefix ++ line) '-' = false) :
    concatLinesWithDash (addV30Line line ++ rest) = expectedSplice (v30Prefix ++ line) rest := splice_wrap line rest h

/-- a whole block of wrapped lines followed by one more line (e.g. the atom block followed by `M  END`)
splices back to the prefixed logical lines -/
theorem C09_splice_block (ls : List Str) (h : ∀ l ∈ ls, endsWithChar (v30Prefix ++ l) '-' = false) (last : Str) :
    concatLinesWithDash ((ls.map addV30Line).flatten ++ [last]) = .ok (ls.map (v30Prefix ++ ·) ++ [last]) :=
  splice_wrap_block ls h last

/-- **The atom line the writer produces is decoded to what was written**: symbol, atomic number, the three
coordinate tokens, and charge / radical / mass whenever they are in the format's ranges — and no other
keyword is picked up (no element symbol, index or coordinate token is mistaken for `CHG`, `MASS`, `RAD`). -/
theorem C09_atom_line_roundtrip (n : Node) (sym : Str) (hsym : n.attrs.sym = some sym) (hel : sym ∈ elementSyms)
    (hx : ∀ t ∈ [n.attrs.x.getD zeroCoord, n.attrs.y.getD zeroCoord, n.attrs.zc.getD zeroCoord],
      IsToken t ∧ pyFloatOk t = true)
    (hchg : ∀ c, n.attrs.chg = some c → c ≠ 0 ∧ -15 ≤ c ∧ c ≤ 15)
    (hrad : ∀ r, n.attrs.rad = some r → 0 < r ∧ r ≤ 3)
    (hmass : ∀ m, n.attrs.mass = some m → 0 < m ∧ (intRepr m).length ≤ intMaxStrDigits) :
    ∃ line z, atomLine n = .ok line ∧ atomicNumberOf sym = .ok z ∧
      (tokenizeLine (v30Prefix ++ line))[2]? = some (natRepr (n.id + 1)) ∧
      parseAtomAttributesV3000 (tokenizeLine (v30Prefix ++ line)) =
        .ok (some { sym := some sym, z := some z, part := some 0,
                    x := some (n.attrs.x.getD zeroCoord), y := some (n.attrs.y.getD zeroCoord),
                    zc := some (n.attrs.zc.getD zeroCoord),
                    chg := n.attrs.chg, rad := n.attrs.rad, mass := n.attrs.mass }) :=
  atomLine_roundtrip n sym hsym hel hx hchg hrad hmass

/-- index and count fields: `int(str(n)) = n` -/
theorem C09_int_roundtrip (n : Nat) (h : (natRepr n).length ≤ intMaxStrDigits) : pyInt (natRepr n) = .ok (n : Int) :=
  pyInt_natRepr n h

/-- non-vacuity: a line of 100 characters wraps once and splices back -/
example : (addV30Line (List.replicate 100 'x')).length = 2 ∧
    endsWithChar (v30Prefix ++ List.replicate 100 'x') '-' = false := by
  constructor
  · rw [addV30Line]; simp; rw [addV30Line]; simp
  · decide

/-- non-vacuity of `C09_write_read_any_listing` / `C09_write_read_same_string` / `C09_bond_records`: the graph of
`Examples.lean` (three atoms listed in the order 2, 0, 1, an isotope label, a charge, a double bond) and the
header `  TUCAN` meet every hypothesis -/
example : exGraph.WF ∧ exGraph.Simple ∧ exGraph.labels.Perm (List.range exGraph.numberOfNodes) ∧
    (∀ n ∈ exGraph.nodes, WritableAtom n) ∧
    (∀ n ∈ exGraph.nodes, ∀ e ∈ n.nbrs, ∀ bt, e.2.btype = some bt → (intRepr bt).length ≤ intMaxStrDigits) ∧
    (natRepr (exGraph.numberOfNodes + exGraph.numberOfEdges + 1)).length ≤ intMaxStrDigits ∧
    GoodHeader "  TUCAN".toList :=
  ⟨exGraph_wf, exGraph_simple, exGraph_writable⟩

end Tucan
