import TucanProofs.Lemmas.Sort
import TucanModel.Canon
/-! # C12 — property theorems (see DESIGN.md §5) -/
namespace Tucan

/-- The neighbour part of an attribute sequence does not depend on the order in which the neighbours
are listed. -/
theorem C12_neighbour_keys_listing_independent {l₁ l₂ : List Key} (h : l₁.Perm l₂) :
    sortKDesc l₁ = sortKDesc l₂ := sortKDesc_perm_eq h

end Tucan
