import TucanProofs.Lemmas.Canonical
import TucanProofs.Lemmas.ClassesEdges
import TucanProofs.Examples
/-!
# C12 — canonicalization only renames atoms; nothing is lost, added or mutated

Model: `canonicalizeWith g order` (`canonicalize_molecule` with igraph's answer as a parameter) and
`serializeMolecule` (which returns the string together with the post-state of its argument).
The model is value-based: an operation cannot change its argument except through the post-state it
returns explicitly; that the real code does not alias or mutate beyond that is checked by the harness
on every run (argument snapshots before/after, identity of attribute dictionaries, repeated calls).
-/
namespace Tucan
open NxRelabel

/-- **Canonicalization is a renaming.**  For any oracle that returns a permutation of the vertices
(checked on every real call), the canonical graph is the input under an injective renaming `σ` of its
atoms onto `0 … n-1`: every atom keeps all of its attributes (only `partition` is set), every bond keeps
its endpoints and its bond record, and no atom or bond appears or disappears. -/
theorem C12_canonicalize_renames (order : Graph → List Nat)
    (hperm : ∀ r : Graph, r.WF → (order r).Perm r.labels)
    (g c r : Graph) (k : Nat) (hw : g.WF) (hs : g.Simple)
    (h : canonicalizeWith g order = .ok (c, r, k)) :
    ∃ σ : Nat → Nat,
      (∀ a ∈ g.labels, ∀ b ∈ g.labels, σ a = σ b → a = b) ∧
      c.labels.Perm (List.range g.numberOfNodes) ∧
      (∀ a ∈ g.labels, ∃ x p, g.attrs? a = some x ∧ c.attrs? (σ a) = some { x with part := p }) ∧
      (∀ a ∈ g.labels, (c.nbrsD (σ a)).Perm ((g.nbrsD a).map fun e => (σ e.1, e.2))) ∧
      c.WF ∧ c.Simple := by
  have hc : CopySpec := Graph.copy_spec
  have hm : MapAttrsSpec := Graph.mapAttrs_spec
  unfold canonicalizeWith at h
  cases hp : partitionMoleculeByAttribute g .invariantCode with
  | error e => simp [hp, bind, Except.bind] at h
  | ok p =>
    simp only [hp, bind, Except.bind] at h
    cases hr : refinePartitions p with
    | error e => simp [hr] at h
    | ok rr =>
      obtain ⟨r0, k0⟩ := rr
      simp only [hr, pure, Except.pure] at h
      injection h with h
      injection h with hcq h2
      injection h2 with hrq hkq
      subst hrq
      obtain ⟨hpl, hpw, hps, hpa, hpn⟩ := partition_spec hc hm g .invariantCode hw hs p hp
      obtain ⟨hrl, hrw, hrs, hra, hrn⟩ := refineLoop_attrs hc hm _ p 0 r0 k0 hpw hps hr
      have hlab : r0.labels = g.labels := hrl.trans hpl
      have hord := hperm r0 hrw
      have hnd : (order r0).Nodup := hord.nodup_iff.mpr hrw.nodup
      have hinj : ∀ a ∈ r0.labels, ∀ b ∈ r0.labels,
          Graph.mapGet (order r0).zipIdx a = Graph.mapGet (order r0).zipIdx b → a = b :=
        fun a ha b hb => mapGet_zipIdx_inj hnd a (hord.mem_iff.mpr ha) b (hord.mem_iff.mpr hb)
      obtain ⟨rel, cw, cs, cl⟩ := Graph.relabelCopy_spec r0 (order r0).zipIdx hrw hrs hinj
      unfold assignCanonicalLabels at hcq
      subst hcq
      refine ⟨Graph.mapGet (order r0).zipIdx, ?_, ?_, ?_, ?_, cw, cs⟩
      · intro a ha b hb; exact hinj a (hlab ▸ ha) b (hlab ▸ hb)
      · rw [cl]
        have hlen : (order r0).length = g.numberOfNodes := by
          have := hord.length_eq
          rw [hlab] at this
          simpa [Graph.numberOfNodes, Graph.labels] using this
        rw [← hlen, ← map_mapGet_zipIdx hnd]
        exact hord.symm.map _
      · intro a ha
        obtain ⟨x, hx⟩ := Graph.attrs?_some_of_mem ha
        have h1 := hpa a ha
        rw [hx] at h1
        obtain ⟨y, q, hy, hry⟩ := hra a (hpl ▸ ha)
        rw [h1] at hy
        have : y = { x with part := some (classOf g .invariantCode a : Int) } := by
          simpa using hy.symm
        subst this
        exact ⟨x, q, hx, by rw [rel.attrs a (hlab ▸ ha), hry]⟩
      · intro a ha
        have h1 := rel.nbrs a (hlab ▸ ha)
        have h2 := (hrn a (hpl ▸ ha)).trans (hpn a ha)
        exact h1.trans (h2.map _)

/-- **The class is set, and carried.**  The `part` component of `C12_canonicalize_renames` is never absent: every
atom of the refined graph `r` has a partition class `q`, and the canonical graph carries exactly that class on
the renamed atom — `c.attrs? (σ a)` is the input's record with `part := some q` and nothing else changed. -/
theorem C12_classes_carried (order : Graph → List Nat)
    (hperm : ∀ r : Graph, r.WF → (order r).Perm r.labels)
    (g c r : Graph) (k : Nat) (hw : g.WF) (hs : g.Simple)
    (h : canonicalizeWith g order = .ok (c, r, k)) :
    ∃ σ : Nat → Nat,
      (∀ a ∈ g.labels, ∀ b ∈ g.labels, σ a = σ b → a = b) ∧
      (∀ a ∈ g.labels, σ a ∈ c.labels) ∧
      (∀ a ∈ g.labels, (c.nbrsD (σ a)).Perm ((g.nbrsD a).map fun e => (σ e.1, e.2))) ∧
      ∀ a ∈ g.labels, ∃ (x : Atom) (q : Int), g.attrs? a = some x ∧
        partOf? r a = some q ∧ partOf? c (σ a) = some q ∧
        c.attrs? (σ a) = some { x with part := some q } :=
  canonicalize_classes order hperm g c r k hw hs h

/-- **Serialization only touches the scratch flag.**  The post-state of the serializer's argument is the
argument with `explored := false` on every atom: labels, neighbour lists, bond records and every other
attribute are unchanged. -/
theorem C12_serialize_post (c p : Graph) (s : Str) (h : serializeMolecule c = .ok (s, p)) :
    p = c.resetExplored ∧ p.labels = c.labels ∧ (∀ a, p.nbrsD a = c.nbrsD a) ∧
    (∀ a, p.attrs? a = (c.attrs? a).map fun x => { x with explored := some false }) := by
  have hp : p = c.resetExplored := by
    unfold serializeMolecule at h
    cases h1 : assignFinalLabels c with
    | error e => simp [h1, bind, Except.bind] at h
    | ok v =>
      obtain ⟨fl, g', m⟩ := v
      simp only [h1, bind, Except.bind] at h
      cases h2 : sortMoleculeByAttribute fl .atomicNumber with
      | error e => simp [h2] at h
      | ok mm =>
        simp only [h2, pure, Except.pure] at h
        injection h with h; injection h with _ hg
        subst hg
        unfold assignFinalLabels at h1
        split at h1
        · simp at h1
        · cases h3 : finalLabels c.resetExplored.view with
          | error e => simp [h3, bind, Except.bind] at h1
          | ok f =>
            simp only [h3, bind, Except.bind, pure, Except.pure] at h1
            injection h1 with h1; injection h1 with _ h1; injection h1 with h1 _
            exact h1.symm
  subst hp
  obtain ⟨hl, hn, ha, _, _⟩ := Graph.mapAttrs_spec c (fun _ a => { a with explored := some false })
  exact ⟨rfl, hl, hn, ha⟩

/-- **Repeating the serialization on the same object gives the same string.**  After one call the
argument is `c.resetExplored`; serializing that again returns the identical result. -/
theorem C12_serialize_repeat (c : Graph) :
    (serializeMolecule c.resetExplored).map (·.1) = (serializeMolecule c).map (·.1) := by
  have hidem : c.resetExplored.resetExplored = c.resetExplored := by
    simp [Graph.resetExplored, Graph.mapAttrs, List.map_map, Function.comp_def]
  have hany : c.resetExplored.nodes.any (·.attrs.part.isNone) = c.nodes.any (·.attrs.part.isNone) := by
    simp [Graph.resetExplored, Graph.mapAttrs, List.any_map, Function.comp_def]
  unfold serializeMolecule assignFinalLabels
  rw [hany, hidem]

/-- non-vacuity: a concrete molecule meets the hypotheses -/
example : exGraph.WF ∧ exGraph.Simple := ⟨exGraph_wf, exGraph_simple⟩

end Tucan
