import TucanProofs.Lemmas.RoundTripPipeline
import TucanProofs.Lemmas.OracleNonempty
import TucanProofs.Lemmas.EdgeCount
import TucanProofs.Examples
import TucanProofs.Lemmas.FilesMol
/-!
# C03 — a TUCAN string reconstructs its molecule and is a fixed point of the pipeline

Domain (`Graph.MolAtoms`): every atom is a chemistry-level atom (`sym = table[Z]`, invariant code
`(Z, mass or 0, rad or 0)`, "no label" is absence, never 0) with an element symbol of the table and strictly
positive mass / radical values — what the readers and the parser produce.  `hsize` excludes molecules with
more than 10^4300 atoms (CPython's integer-literal limit).
-/
namespace Tucan

/-- **Reconstruction.**  `graph_from_tucan(tucan(G))` is `G` under a renaming of its atoms: the same element,
isotope mass and radical on every corresponding atom, the same bonds, the same number of atoms; needs only
that the oracle answers with a permutation (checked on every real call). -/
theorem C03_roundtrip (order : Graph → List Nat) (hperm : ∀ r : Graph, r.WF → (order r).Perm r.labels)
    (g : Graph) (hw : g.WF) (hs : g.Simple) (hmol : g.MolAtoms)
    (hsize : (natRepr (g.numberOfNodes + 1)).length ≤ intMaxStrDigits)
    (s : Str) (h : tucanOf order g = .ok s) :
    ∃ (H : Graph) (τ : Nat → Nat), graphFromTucan s = .ok H ∧ Iso SameIdent τ g H ∧
      H.numberOfNodes = g.numberOfNodes ∧ H.numberOfEdges = g.numberOfEdges := by
  obtain ⟨H, τ, hp, iso, hl, Hw, Hs, _⟩ := pipeline_roundtrip order hperm g hw hs hmol hsize s h
  exact ⟨H, τ, hp, iso, iso.numberOfNodes, iso.numberOfEdges hw hs Hw Hs⟩

/-- the text the three writers assemble for a graph `m` (`serializedText m`: formula, tuples, attribute blocks) is
accepted by the parser — it lexes and is a sentence of the grammar with tree `astOf m` — for ANY graph `m` with
table symbols and positive labels.  The pipeline applies it to the canonical graph after the final relabelling and
the sort by atomic number; the statement about the pipeline's own output is `C05_emitted_layout` /
`C05_emitted_is_sentence`. -/
theorem C03_emitted_string_parses (m : Graph)
    (hsyms : ∀ s ∈ m.nodes.filterMap (·.attrs.sym), s ∈ elementSyms)
    (hpos : ∀ n ∈ m.nodes, (∀ v, n.attrs.mass = some v → 0 < v) ∧ (∀ v, n.attrs.rad = some v → 0 < v)) :
    ∃ toks, lex (serializedText m) = some toks ∧ parseTucan toks = some (astOf m) ∧ Sentence toks (astOf m) :=
  serialize_parses m hsyms hpos

/-- **… for every graph of a conformant molecule**: the string of a graph `g` of a molecule a molfile can state
within the CTfile specification (`IsGraphOf g m c`: what either reader returns for a file stating `m`,
`C06_v3000_file_any_indices` / `C06_readsAs_graph_of`) parses back to that graph under a renaming of its atoms.
(With the file's text inside the statement: `C15_v3000_text_to_string`.) -/
theorem C03_molfile_roundtrip (order : Graph → List Nat) (hperm : ∀ r : Graph, r.WF → (order r).Perm r.labels)
    (g : Graph) (m : Mol) (c : List (Str × Str × Str)) (hc : c.length = m.atoms.length)
    (hm : m.Conformant) (hg : IsGraphOf g m c)
    (hsize : (natRepr (m.atoms.length + 1)).length ≤ intMaxStrDigits)
    (s : Str) (h : tucanOf order g = .ok s) : ∃ H τ, graphFromTucan s = .ok H ∧ Iso SameIdent τ g H :=
  (isGraphOf_string_is_sentence order hperm g m c hc hm hg hsize s h).2

/-- **Fixed point.**  Canonicalizing and serializing the parsed graph reproduces the identical string, for
every oracle meeting the bliss contract. -/
theorem C03_fixed_point (O : CanonOracle) (g : Graph) (hw : g.WF) (hs : g.Simple) (hmol : g.MolAtoms)
    (hsize : (natRepr (g.numberOfNodes + 1)).length ≤ intMaxStrDigits)
    (s : Str) (h : tucanOf O.order g = .ok s) :
    ∃ H, graphFromTucan s = .ok H ∧ tucanOf O.order H = .ok s := by
  obtain ⟨H, τ, hp, iso, hl, Hw, Hs, Hm⟩ := pipeline_roundtrip O.order O.perm g hw hs hmol hsize s h
  refine ⟨H, hp, ?_⟩
  have hchem : g.Chem := fun a ha x hx => (hmol a ha x hx).chem
  have hne : H.labels ≠ [] := by
    intro he
    -- an empty result would mean an empty input, for which the pipeline does not return
    have hn0 : g.numberOfNodes = 0 := by
      rw [hl] at he
      cases hn : g.numberOfNodes with
      | zero => rfl
      | succ k => rw [hn] at he; simp [List.range_succ] at he
    have hg : g.labels = [] := by
      have : g.labels.length = 0 := by simpa [Graph.numberOfNodes, Graph.labels] using hn0
      exact List.eq_nil_of_length_eq_zero this
    unfold tucanOf at h
    cases hc : canonicalizeWith g O.order with
    | error e => simp [hc, bind, Except.bind] at h
    | ok v =>
      obtain ⟨c, r, k⟩ := v
      obtain ⟨p, hp', hr, _⟩ := canonicalize_unfold hc
      obtain ⟨hpl, hpw, _, _, _⟩ := partition_spec copySpec mapAttrsSpec g .invariantCode hw hs p hp'
      unfold refinePartitions refineLoop at hr
      cases hq : partitionMoleculeByAttribute p .partition with
      | error e => simp [hq, bind, Except.bind] at hr
      | ok q =>
        obtain ⟨hql, _, _, _, _⟩ := partition_spec copySpec mapAttrsSpec p .partition hpw
          (partition_spec copySpec mapAttrsSpec g .invariantCode hw hs p hp').2.2.1 q hq
        have : getNumberOfPartitions q = .error .valueError := by
          unfold getNumberOfPartitions
          have : q.nodes = [] := by
            have : q.labels = [] := by rw [hql, hpl, hg]
            simpa [Graph.labels] using this
          simp [this]
        simp [hq, this, bind, Except.bind] at hr
  have hattrs : ∀ a ∈ H.labels, ∃ x, H.attrs? a = some x ∧ x.z.isSome ∧ x.inv.isSome := by
    intro a ha
    obtain ⟨x, hx⟩ := Graph.attrs?_some_of_mem ha
    obtain ⟨z, hz, _, hi, _, _⟩ := (Hm a ha x hx).chem
    exact ⟨x, hx, by simp [hz], by simp [hi]⟩
  obtain ⟨s', hs'⟩ := pipeline_total O.order O.perm H Hw Hs hne hattrs
  have := tucan_invariant O iso hchem hw hs Hw Hs h hs'
  rw [this]; exact hs'

theorem C03_oracle_contract_inhabited : Nonempty CanonOracle := CanonOracle.nonempty

/-- non-vacuity: a concrete molecule meets all hypotheses -/
example : exGraph.WF ∧ exGraph.Simple ∧ exGraph.MolAtoms ∧
    (natRepr (exGraph.numberOfNodes + 1)).length ≤ intMaxStrDigits :=
  ⟨exGraph_wf, exGraph_simple, exGraph_molAtoms, by decide⟩

end Tucan
