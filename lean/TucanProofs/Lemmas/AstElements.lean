import TucanProofs.Lemmas.RespellPerm
/-!
# Which element sits at which index, explicitly

`graphFromTucan_denotes` describes the elements of the returned graph through *some* rearrangement of the formula's
expansion with non-decreasing atomic number.  Here the rearrangement is named: `ast.sortedSymbols`, the expansion
merge-sorted (stably) by atomic number — a plain function of the syntax tree.  Atom `i` of the returned graph has the
`i`-th symbol of that list.
-/
namespace Tucan

namespace AstEl

theorem sortedSymbols_length (ast : Ast) : ast.sortedSymbols.length = ast.atomCount := by
  unfold Ast.sortedSymbols
  rw [List.length_mergeSort, Ast.expansion_length]

theorem sortedSymbols_perm (ast : Ast) : ast.sortedSymbols.Perm ast.expansion :=
  List.mergeSort_perm ast.expansion _

theorem sortedSymbols_pairwise (ast : Ast) :
    ast.sortedSymbols.Pairwise (fun a b => (elementZ a).getD 0 ≤ (elementZ b).getD 0) := by
  have := List.pairwise_mergeSort
    (le := fun (a b : Str) => decide ((elementZ a).getD 0 ≤ (elementZ b).getD 0))
    (fun a b c hab hbc => by simp only [decide_eq_true_eq] at *; omega)
    (fun a b => by simp only [Bool.or_eq_true, decide_eq_true_eq]; omega) ast.expansion
  simpa [Ast.sortedSymbols] using this

end AstEl

/-- atom `i` of the graph returned for an accepted string has the element `ast.sortedSymbols[i]` -/
theorem graphFromTucan_elements (s : Str) (g : Graph) (h : graphFromTucan s = .ok g) :
    ∃ toks ast, lex s = some toks ∧ Sentence toks ast ∧
      ast.sortedSymbols.length = ast.atomCount ∧
      ast.sortedSymbols.Perm ast.expansion ∧
      ast.sortedSymbols.Pairwise (fun a b => (elementZ a).getD 0 ≤ (elementZ b).getD 0) ∧
      ∀ i (hi : i < ast.sortedSymbols.length), ∃ x z, g.attrs? i = some x ∧
        x.sym = some ast.sortedSymbols[i] ∧ elementZ ast.sortedSymbols[i] = some z ∧ x.z = some (z : Int) := by
  obtain ⟨toks, ast, st, hl, hp, h1, h2, h3, h4, hgood⟩ := graphFromTucan_state s g h
  have hs : Sentence toks ast := (parseTucan_iff toks ast).1 hp
  obtain ⟨o1, o2, o3⟩ := Acc.sentence_ok hs (Acc.lex_lit hl)
  obtain ⟨g0, e0, hlab, hw, hsimp, hat, hadj⟩ := toGraph_spec st hgood
  rw [h4] at e0
  have hgg : g = g0 := Except.ok.inj e0
  subst hgg
  obtain ⟨f1, f2⟩ := Acc.listenFormula_char o1
  have hatoms : st.atoms = ast.formula.flatMap Acc.expand := by
    have := f1 (f2 _ h1)
    rw [h1] at this
    exact Except.ok.inj this
  have hfat : ∀ a ∈ sortAtomsByZ st.atoms, AstDen.FAt a := by
    intro a ha
    have : a ∈ st.atoms := (AstDen.sorted_perm st.atoms).mem_iff.1 ha
    rw [hatoms] at this
    exact AstDen.fat_of_mem this
  have hslen : (sortAtomsByZ st.atoms).length = st.atoms.length := PDen.sorted_length _
  have hmap : (sortAtomsByZ st.atoms).map AstDen.symOf = ast.sortedSymbols := by
    rw [hatoms]; exact RPerm.map_sorted ast o1
  refine ⟨toks, ast, hl, hs, AstEl.sortedSymbols_length ast, AstEl.sortedSymbols_perm ast,
    AstEl.sortedSymbols_pairwise ast, ?_⟩
  intro i hi
  have hi' : i < (sortAtomsByZ st.atoms).length := by
    rw [← hmap, List.length_map] at hi; exact hi
  obtain ⟨x, hx1, hx2⟩ := hat i (by rw [← hslen]; exact hi')
  obtain ⟨sy, z, hz, ha⟩ := hfat _ (List.getElem_mem hi')
  unfold atomAt at hx1
  rw [List.getElem?_eq_getElem hi', Option.getD_some] at hx1
  have hsym : AstDen.symOf (sortAtomsByZ st.atoms)[i] = sy := by rw [ha]; rfl
  have hget : ast.sortedSymbols[i] = sy := by
    have : ((sortAtomsByZ st.atoms).map AstDen.symOf)[i]'(by rw [List.length_map]; exact hi') = sy := by
      rw [List.getElem_map, hsym]
    simpa only [hmap] using this
  obtain ⟨hxs, hxz, _⟩ := AstDen.out_fields ha (PDen.onlyMassRad_extraOf hgood _) hx1
  rw [hget]
  exact ⟨x, z, hx2, hxs, hz, hxz⟩

end Tucan
