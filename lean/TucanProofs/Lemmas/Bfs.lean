import TucanProofs.Spec
import TucanProofs.Lemmas.Sort
/-!
# The cosmetic relabelling `_assign_final_labels` (model: `bfsRun`, `finalLabels`)

S4 (representation independence): the result does not depend on the order in which nodes and
neighbours are listed.  S5 (totality and bijectivity): on a well-formed view the loop never pops an
empty list, never looks up a missing node, meets its assertion, and assigns every label exactly once.
-/
namespace Tucan

/-- two views of the same labelled graph that differ only in listing order -/
structure ViewEquiv (v w : View) : Prop where
  nodes : v.nodes.Perm w.nodes
  part : ∀ a, v.part a = w.part a
  nbrs : ∀ a, (v.nbrs a).Perm (w.nbrs a)

structure View.WF (v : View) : Prop where
  nodup : v.nodes.Nodup
  closed : ∀ a ∈ v.nodes, ∀ b ∈ v.nbrs a, b ∈ v.nodes

/-! ## one-step unfolding of `bfsRun` without dependent matches -/

theorem bfsRun_unfold (v : View) (s : BfsState) :
    bfsRun v s =
      (match s.queue.getLast? with
       | none =>
         (match sortN (unexplored v s.explored) with
          | [] => .ok s
          | u :: _ => (explore v s u []).bind (bfsRun v))
       | some a =>
         if a ∈ v.nodes then
           (if s.explored.contains a then bfsRun v { s with queue := s.queue.dropLast }
            else (explore v s a s.queue.dropLast).bind (bfsRun v))
         else .error .keyError) := by
  rw [bfsRun]
  split
  · next hq =>
    split
    · next hu => simp only [hq, hu]
    · next u t hu =>
      simp only []
      split
      · next e he => simp only [hq, hu, he, Except.bind]
      · next s' he => simp only [hq, hu, he, Except.bind]
  · next a hq =>
    simp only []
    split
    · next hn =>
      split
      · next hx => simp only [hq, hn, hx, if_true]
      · next hx =>
        split
        · next e he => simp only [hq, hn, hx, he, Except.bind, if_true]; rfl
        · next s' he => simp only [hq, hn, hx, he, Except.bind, if_true]; rfl
    · next hn => simp only [hq, hn, if_false]

section Congr
variable {v w : View} (h : ViewEquiv v w)
include h

theorem ViewEquiv.part_fun : v.part = w.part := funext h.part

theorem ViewEquiv.availInit_eq : availInit v = availInit w := by
  unfold availInit
  rw [← h.part_fun]
  have h1 : (v.nodes.map v.part).mergeSort leI = (w.nodes.map v.part).mergeSort leI :=
    sort_perm_eq leI leI_trans leI_total leI_antisymm (h.nodes.map _)
  rw [h1]
  apply List.map_congr_left
  intro p _
  rw [sortN_perm_eq (h.nodes.filter _)]

theorem ViewEquiv.travOrder_eq (a : Nat) : travOrder v a = travOrder w a := by
  unfold travOrder
  simp only [← h.part_fun]
  rw [sortN_perm_eq ((h.nbrs a).filter _), sortN_perm_eq ((h.nbrs a).filter _),
    sortN_perm_eq ((h.nbrs a).filter _)]

theorem ViewEquiv.unexplored_eq (ex : List Nat) :
    sortN (unexplored v ex) = sortN (unexplored w ex) :=
  sortN_perm_eq (h.nodes.filter _)

theorem ViewEquiv.explore_eq (s : BfsState) (a : Nat) (q : List Nat) :
    explore v s a q = explore w s a q := by
  unfold explore
  rw [h.travOrder_eq, h.part_fun]

theorem ViewEquiv.bfsRun_eq (s : BfsState) : bfsRun v s = bfsRun w s := by
  induction s using bfsRun.induct (v := v) with
  | case1 s hq hu =>
    rw [bfsRun_unfold v, bfsRun_unfold w, ← h.unexplored_eq, hq, hu]
  | case2 s hq u t hu hmem e he =>
    rw [bfsRun_unfold v, bfsRun_unfold w, ← h.unexplored_eq, hq, hu]
    simp only [← h.explore_eq, he, Except.bind]
  | case3 s hq u t hu hmem s' he ih =>
    rw [bfsRun_unfold v, bfsRun_unfold w, ← h.unexplored_eq, hq, hu]
    simp only [← h.explore_eq, he, Except.bind, ih]
  | case4 s a hq q hn hx ih =>
    have hn' : a ∈ w.nodes := h.nodes.mem_iff.mp hn
    rw [bfsRun_unfold v, bfsRun_unfold w, hq]
    simp only [hn, hn', hx, if_true]
    exact ih
  | case5 s a hq q hn hx e he =>
    have hn' : a ∈ w.nodes := h.nodes.mem_iff.mp hn
    rw [bfsRun_unfold v, bfsRun_unfold w, hq]
    simp only [hn, hn', hx, if_true, ← h.explore_eq]
    simp only [q] at he
    simp only [he, Except.bind]
    rfl
  | case6 s a hq q hn hx s' he ih =>
    have hn' : a ∈ w.nodes := h.nodes.mem_iff.mp hn
    rw [bfsRun_unfold v, bfsRun_unfold w, hq]
    simp only [hn, hn', hx, if_true, ← h.explore_eq]
    simp only [q] at he
    simp only [he, Except.bind, ih]
    rfl
  | case7 s a hq hn =>
    have hn' : ¬ a ∈ w.nodes := fun h' => hn (h.nodes.mem_iff.mpr h')
    rw [bfsRun_unfold v, bfsRun_unfold w, hq]
    simp only [hn, hn', if_false]

end Congr

/-- S4: `final_labels` (including its insertion order) is a function of the labelled graph, not of its
listing -/
theorem finalLabels_congr (v w : View) (h : ViewEquiv v w) : finalLabels v = finalLabels w := by
  unfold finalLabels
  rw [h.availInit_eq, h.bfsRun_eq, h.nodes.length_eq]

/-! ## S5: the loop invariant -/

/- helpers live in `Tucan.Bfs` so that generic names (`mem_dedupAdj`, `Inv`, …) cannot clash with
other lemma files -/
namespace Bfs

/-- the labels still available for partition `p` (first entry with key `p`) -/
def availOf (p : Int) : List (Int × List Nat) → List Nat
  | [] => []
  | (q, ls) :: rest => if q == p then ls else availOf p rest

theorem availOf_map (f : Int → List Nat) (keys : List Int) (p : Int) :
    availOf p (keys.map fun k => (k, f k)) = if p ∈ keys then f p else [] := by
  induction keys with
  | nil => simp [availOf]
  | cons k ks ih =>
    simp only [List.map_cons, availOf, List.mem_cons]
    by_cases hk : k = p
    · subst hk; simp
    · have : (k == p) = false := by simpa using hk
      have hk' : ¬ p = k := fun h => hk h.symm
      simp only [this, ih, hk', false_or]
      rfl

theorem mem_dedupAdj (a : Int) (l : List Int) : a ∈ dedupAdj l ↔ a ∈ l := by
  induction l using dedupAdj.induct with
  | case1 => simp [dedupAdj]
  | case2 b => simp [dedupAdj]
  | case3 b c r hbc ih =>
    have : b = c := by simpa using hbc
    subst this
    simp only [dedupAdj, hbc, if_true, ih, List.mem_cons]
    constructor
    · intro h; exact Or.inr h
    · rintro (h | h)
      · exact Or.inl h
      · exact h
  | case4 b c r hbc ih =>
    simp only [dedupAdj, hbc, List.mem_cons, Bool.false_eq_true, if_false]
    rw [ih, List.mem_cons]

theorem dedupAdj_lt (l : List Int) (h : l.Pairwise (· ≤ ·)) : (dedupAdj l).Pairwise (· < ·) := by
  induction l using dedupAdj.induct with
  | case1 => simp [dedupAdj]
  | case2 b => simp [dedupAdj]
  | case3 b c r hbc ih =>
    simp only [dedupAdj, hbc, if_true]
    exact ih (List.pairwise_cons.mp h).2
  | case4 b c r hbc ih =>
    simp only [dedupAdj, hbc]
    have hbc' : b ≠ c := by simpa using hbc
    obtain ⟨h1, h2⟩ := List.pairwise_cons.mp h
    refine List.pairwise_cons.mpr ⟨?_, ih h2⟩
    intro x hx
    rw [mem_dedupAdj] at hx
    have hb : b ≤ c := h1 c (by simp)
    have hc : c ≤ x := by
      rcases List.mem_cons.mp hx with rfl | hx'
      · exact Int.le_refl _
      · exact (List.pairwise_cons.mp h2).1 x hx'
    omega

theorem dedupAdj_sorted_nodup (l : List Int) : (dedupAdj (l.mergeSort leI)).Nodup := by
  have h1 : (l.mergeSort leI).Pairwise (· ≤ ·) := by
    have := List.pairwise_mergeSort (le := leI) (fun a b c => leI_trans a b c) leI_total l
    refine this.imp ?_
    intro a b hab
    simpa [leI] using hab
  have h2 := dedupAdj_lt _ h1
  refine h2.imp ?_
  intro a b hab
  omega

/-- two disjoint filters partition the filter of their disjunction -/
theorem filter_or_perm (f g : Nat → Bool) (hd : ∀ k, f k = true → g k = false) (l : List Nat) :
    (l.filter f ++ l.filter g).Perm (l.filter fun k => f k || g k) := by
  induction l with
  | nil => simp
  | cons a l ih =>
    simp only [List.filter_cons]
    cases hf : f a
    · cases hg : g a
      · simpa using ih
      · simp only [Bool.false_or, if_true, Bool.false_eq_true, if_false]
        exact List.perm_middle.trans (ih.cons a)
    · have hg := hd a hf
      simp only [hg, Bool.or_false, if_true, Bool.false_eq_true, if_false, List.cons_append]
      exact ih.cons a

theorem flatMap_filter_perm (part : Nat → Int) (l : List Nat) (keys : List Int) (hk : keys.Nodup) :
    (keys.flatMap fun p => l.filter (part · == p)).Perm (l.filter fun a => keys.contains (part a)) := by
  induction keys with
  | nil => simp
  | cons k ks ih =>
    obtain ⟨hk1, hk2⟩ := List.nodup_cons.mp hk
    simp only [List.flatMap_cons]
    refine ((ih hk2).append_left _).trans ?_
    refine (filter_or_perm (fun a => part a == k) (fun a => ks.contains (part a)) ?_ l).trans ?_
    · intro a ha
      have : part a = k := by simpa using ha
      simp only [this]
      simpa using hk1
    · apply List.Perm.of_eq
      apply List.filter_congr
      intro a _
      rw [Bool.eq_iff_iff]; simp

theorem popAvail_none (p : Int) (av : List (Int × List Nat)) (h : popAvail p av = none) :
    availOf p av = [] := by
  induction av with
  | nil => rfl
  | cons e rest ih =>
    obtain ⟨q, ls⟩ := e
    unfold popAvail at h
    unfold availOf
    split at h
    · next hq =>
      rw [if_pos hq]
      split at h
      · rfl
      · cases h
    · next hq =>
      rw [if_neg hq]
      cases hr : popAvail p rest with
      | none => exact ih hr
      | some x => rw [hr] at h; cases h

theorem popAvail_some (p : Int) (av : List (Int × List Nat)) (l : Nat) (av' : List (Int × List Nat))
    (h : popAvail p av = some (l, av')) :
    availOf p av = l :: availOf p av' ∧ (∀ p', p' ≠ p → availOf p' av' = availOf p' av) ∧
      (av.flatMap (·.2)).Perm (l :: av'.flatMap (·.2)) := by
  induction av generalizing av' with
  | nil => cases h
  | cons e rest ih =>
    obtain ⟨q, ls⟩ := e
    unfold popAvail at h
    split at h
    · next hq =>
      have hqp : q = p := by simpa using hq
      subst hqp
      split at h
      · cases h
      · next l0 ls' =>
        cases h
        refine ⟨?_, ?_, ?_⟩
        · simp [availOf]
        · intro p' hp'
          have : (q == p') = false := by simpa using fun h => hp' h.symm
          simp [availOf, this]
        · simp
    · next hq =>
      cases hr : popAvail p rest with
      | none => rw [hr] at h; cases h
      | some x =>
        obtain ⟨l1, rest'⟩ := x
        rw [hr] at h
        cases h
        obtain ⟨h1, h2, h3⟩ := ih rest' hr
        refine ⟨?_, ?_, ?_⟩
        · simp only [availOf, if_neg hq]; exact h1
        · intro p' hp'
          simp only [availOf]
          split
          · rfl
          · exact h2 p' hp'
        · simp only [List.flatMap_cons]
          exact (List.Perm.append_left ls h3).trans List.perm_middle


theorem flatMap_perm_congr {α} (f g : α → List Nat) (l : List α) (h : ∀ a ∈ l, (f a).Perm (g a)) :
    (l.flatMap f).Perm (l.flatMap g) := by
  induction l with
  | nil => simp
  | cons a l ih =>
    simp only [List.flatMap_cons]
    exact (h a (by simp)).append (ih fun b hb => h b (by simp [hb]))

theorem filter_remove_length (l : List Nat) (hnd : l.Nodup) (a : Nat) (ha : a ∈ l) (f g : Nat → Bool)
    (hfa : f a = true) (hg : ∀ k, g k = (f k && k != a)) :
    (l.filter g).length + 1 = (l.filter f).length := by
  induction l with
  | nil => cases ha
  | cons b l ih =>
    obtain ⟨hb, hnd'⟩ := List.nodup_cons.mp hnd
    by_cases hba : b = a
    · subst hba
      have hgb : g b = false := by rw [hg]; simp
      have : l.filter g = l.filter f := by
        apply List.filter_congr
        intro k hk
        have : k ≠ b := fun h => hb (h ▸ hk)
        rw [hg]; simp [this]
      simp [hgb, hfa, this]
    · have ha' : a ∈ l := by
        rcases List.mem_cons.mp ha with h | h
        · exact absurd h.symm hba
        · exact h
      have := ih hnd' ha'
      have hgb : g b = f b := by rw [hg]; simp [hba]
      simp only [List.filter_cons, hgb]
      split
      · simp only [List.length_cons]; omega
      · exact this

theorem availOf_availInit (v : View) (p : Int) :
    availOf p (availInit v) = sortN (v.nodes.filter (v.part · == p)) := by
  unfold availInit
  rw [availOf_map (fun p => sortN (v.nodes.filter (v.part · == p)))]
  split
  · rfl
  · next hp =>
    rw [mem_dedupAdj, List.mem_mergeSort, List.mem_map] at hp
    have : v.nodes.filter (v.part · == p) = [] := by
      rw [List.filter_eq_nil_iff]
      intro a ha hpa
      exact hp ⟨a, ha, by simpa using hpa⟩
    rw [this]; simp [sortN]

theorem availInit_flatMap (v : View) : ((availInit v).flatMap (·.2)).Perm v.nodes := by
  unfold availInit
  rw [List.flatMap_map]
  refine (flatMap_perm_congr _ (fun p => v.nodes.filter (v.part · == p)) _ ?_).trans ?_
  · intro p _
    exact List.mergeSort_perm _ _
  · refine (flatMap_filter_perm v.part v.nodes _ (dedupAdj_sorted_nodup _)).trans ?_
    apply List.Perm.of_eq
    rw [List.filter_eq_self]
    intro a ha
    rw [List.contains_iff_mem, mem_dedupAdj, List.mem_mergeSort]
    exact List.mem_map_of_mem ha

structure Inv (v : View) (s : BfsState) : Prop where
  exNodup : s.explored.Nodup
  exNodes : ∀ a ∈ s.explored, a ∈ v.nodes
  finalFst : s.final.map (·.1) = s.explored.reverse
  availPart : ∀ p, ∀ l ∈ availOf p s.avail, v.part l = p
  labels : (s.final.map (·.2) ++ s.avail.flatMap (·.2)).Perm v.nodes
  count : ∀ p, (availOf p s.avail).length =
    (v.nodes.filter (fun k => !s.explored.contains k && v.part k == p)).length
  queueNodes : ∀ b ∈ s.queue, b ∈ v.nodes
  finalPart : ∀ x ∈ s.final, v.part x.2 = v.part x.1

theorem Inv.init (v : View) : Inv v ⟨[], [], availInit v, []⟩ where
  exNodup := List.nodup_nil
  exNodes := by simp
  finalFst := rfl
  availPart := by
    intro p l hl
    rw [availOf_availInit] at hl
    simp only [sortN, List.mem_mergeSort, List.mem_filter] at hl
    simpa using hl.2
  labels := by simpa using availInit_flatMap v
  count := by
    intro p
    rw [availOf_availInit]
    simp [sortN]
  queueNodes := by simp
  finalPart := by simp


theorem mem_travOrder (v : View) (a b : Nat) (h : b ∈ travOrder v a) : b ∈ v.nbrs a := by
  unfold travOrder at h
  simp only [sortN, List.mem_append, List.mem_mergeSort, List.mem_filter] at h
  rcases h with (h | h) | h <;> exact h.1

theorem Inv.explore {v : View} {s : BfsState} (hwf : v.WF) (hI : Inv v s) (a : Nat)
    (ha : a ∈ v.nodes) (hx : s.explored.contains a = false) (q : List Nat)
    (hq : ∀ b ∈ q, b ∈ v.nodes) : ∃ s', explore v s a q = .ok s' ∧ Inv v s' := by
  have hxa : a ∉ s.explored := by
    intro h; rw [List.contains_iff_mem.mpr h] at hx; cases hx
  unfold Tucan.explore
  cases hp : popAvail (v.part a) s.avail with
  | none =>
    exfalso
    have h0 := popAvail_none _ _ hp
    have hc := hI.count (v.part a)
    rw [h0] at hc
    have : a ∈ v.nodes.filter (fun k => !s.explored.contains k && v.part k == v.part a) := by
      rw [List.mem_filter]; exact ⟨ha, by simp [hxa]⟩
    have := List.length_pos_iff_exists_mem.mpr ⟨a, this⟩
    simp only [List.length_nil] at hc
    omega
  | some x =>
    obtain ⟨l, av'⟩ := x
    obtain ⟨h1, h2, h3⟩ := popAvail_some _ _ _ _ hp
    refine ⟨_, rfl, ?_⟩
    have hsub : ∀ p, ∀ l' ∈ availOf p av', l' ∈ availOf p s.avail := by
      intro p l' hl'
      by_cases hpa : p = v.part a
      · subst hpa; rw [h1]; exact List.mem_cons_of_mem _ hl'
      · rw [← h2 p hpa]; exact hl'
    constructor
    · exact List.nodup_cons.mpr ⟨hxa, hI.exNodup⟩
    · intro b hb
      rcases List.mem_cons.mp hb with rfl | hb
      · exact ha
      · exact hI.exNodes b hb
    · simp [hI.finalFst]
    · intro p l' hl'
      exact hI.availPart p l' (hsub p l' hl')
    · refine List.Perm.trans ?_ hI.labels
      simp only [List.map_append, List.map_cons, List.map_nil, List.append_assoc,
        List.singleton_append]
      exact List.Perm.append_left _ h3.symm
    · intro p
      by_cases hpa : p = v.part a
      · subst hpa
        show (availOf (v.part a) av').length = (v.nodes.filter
          (fun k => !(a :: s.explored).contains k && v.part k == v.part a)).length
        have hc := hI.count (v.part a)
        rw [h1] at hc
        have := filter_remove_length v.nodes hwf.nodup a ha
          (fun k => !s.explored.contains k && v.part k == v.part a)
          (fun k => !(a :: s.explored).contains k && v.part k == v.part a)
          (by simp [hxa]) (by
            intro k
            simp only [List.contains_cons, bne]
            cases (k == a) <;> cases s.explored.contains k <;> cases (v.part k == v.part a) <;> rfl)
        simp only [List.length_cons] at hc
        omega
      · show (availOf p av').length = (v.nodes.filter
          (fun k => !(a :: s.explored).contains k && v.part k == p)).length
        rw [h2 p hpa, hI.count p]
        congr 1
        apply List.filter_congr
        intro k _
        simp only [List.contains_cons]
        by_cases hka : k = a
        · subst hka
          have : (v.part k == p) = false := by simpa using fun h => hpa h.symm
          simp [this]
        · have : (k == a) = false := by simpa using hka
          simp [this]
    · intro b hb
      rcases List.mem_append.mp hb with hb | hb
      · exact hwf.closed a ha b (mem_travOrder v a b (List.mem_reverse.mp hb))
      · exact hq b hb
    · intro y hy
      rcases List.mem_append.mp hy with hy | hy
      · exact hI.finalPart y hy
      · have : y = (a, l) := by simpa using hy
        subst this
        exact hI.availPart (v.part a) l (by rw [h1]; simp)

theorem Inv.skip {v : View} {s : BfsState} (hI : Inv v s) :
    Inv v { s with queue := s.queue.dropLast } :=
  { hI with queueNodes := fun b hb => hI.queueNodes b (List.dropLast_subset _ hb) }

theorem mem_unexplored {v : View} {ex : List Nat} {u : Nat} (h : u ∈ unexplored v ex) :
    u ∈ v.nodes ∧ ex.contains u = false := by
  unfold unexplored at h
  rw [List.mem_filter] at h
  exact ⟨h.1, by simpa using h.2⟩

theorem Inv.run {v : View} (hwf : v.WF) (s : BfsState) (hI : Inv v s) :
    ∃ s', bfsRun v s = .ok s' ∧ Inv v s' ∧ unexplored v s'.explored = [] := by
  induction s using bfsRun.induct (v := v) with
  | case1 s hq hu =>
    refine ⟨s, ?_, hI, ?_⟩
    · rw [bfsRun_unfold, hq, hu]
    · have := congrArg List.length hu
      simp only [sortN, List.length_mergeSort, List.length_nil] at this
      exact List.eq_nil_of_length_eq_zero this
  | case2 s hq u t hu hmem e he =>
    obtain ⟨hn, hx⟩ := mem_unexplored hmem
    obtain ⟨s'', he', _⟩ := hI.explore hwf u hn hx [] (by simp)
    rw [he] at he'; cases he'
  | case3 s hq u t hu hmem s' he ih =>
    obtain ⟨hn, hx⟩ := mem_unexplored hmem
    obtain ⟨s'', he', hI'⟩ := hI.explore hwf u hn hx [] (by simp)
    rw [he] at he'; cases he'
    obtain ⟨r, hr, hIr, hur⟩ := ih hI'
    refine ⟨r, ?_, hIr, hur⟩
    rw [bfsRun_unfold, hq, hu]
    simp only [he, Except.bind, hr]
  | case4 s a hq q hn hx ih =>
    obtain ⟨r, hr, hIr, hur⟩ := ih hI.skip
    refine ⟨r, ?_, hIr, hur⟩
    rw [bfsRun_unfold, hq]
    simp only [hn, hx, if_true]
    exact hr
  | case5 s a hq q hn hx e he =>
    have hx' : s.explored.contains a = false := by simpa using hx
    obtain ⟨s'', he', _⟩ := hI.explore hwf a hn hx' q
      (fun b hb => hI.queueNodes b (List.dropLast_subset _ hb))
    rw [he] at he'; cases he'
  | case6 s a hq q hn hx s' he ih =>
    have hx' : s.explored.contains a = false := by simpa using hx
    obtain ⟨s'', he', hI'⟩ := hI.explore hwf a hn hx' q
      (fun b hb => hI.queueNodes b (List.dropLast_subset _ hb))
    rw [he] at he'; cases he'
    obtain ⟨r, hr, hIr, hur⟩ := ih hI'
    refine ⟨r, ?_, hIr, hur⟩
    rw [bfsRun_unfold, hq]
    simp only [q] at he
    simp only [hn, hx', if_true, Bool.false_eq_true, if_false, he, Except.bind, hr]
  | case7 s a hq hn =>
    exact absurd (hI.queueNodes a (List.mem_of_getLast? hq)) hn

end Bfs

/-- S5: the loop completes without `IndexError`, `KeyError` or `AssertionError`, and `final_labels`
is a bijection from the nodes onto the nodes that keeps every node inside its partition -/
theorem finalLabels_ok (v : View) (h : v.WF) :
    ∃ fl, finalLabels v = .ok fl ∧ (fl.map (·.1)).Perm v.nodes ∧ (fl.map (·.2)).Perm v.nodes ∧
      ∀ p ∈ fl, v.part p.2 = v.part p.1 := by
  obtain ⟨s, hs, hI, hu⟩ := Bfs.Inv.run h _ (Bfs.Inv.init v)
  have hex : s.explored.Perm v.nodes := by
    rw [List.perm_ext_iff_of_nodup hI.exNodup h.nodup]
    intro a
    constructor
    · exact hI.exNodes a
    · intro ha
      unfold unexplored at hu
      rw [List.filter_eq_nil_iff] at hu
      have := hu a ha
      simpa using this
  have hfst : (s.final.map (·.1)).Perm v.nodes := by
    rw [hI.finalFst]; exact (List.reverse_perm _).trans hex
  have hlen : s.final.length = v.nodes.length := by
    simpa using hfst.length_eq
  have hnil : s.avail.flatMap (·.2) = [] := by
    have := hI.labels.length_eq
    simp only [List.length_append, List.length_map] at this
    exact List.eq_nil_of_length_eq_zero (by omega)
  have hsnd : (s.final.map (·.2)).Perm v.nodes := by
    have := hI.labels
    rwa [hnil, List.append_nil] at this
  refine ⟨s.final, ?_, hfst, hsnd, hI.finalPart⟩
  unfold finalLabels
  rw [hs]
  show (if (s.final.length == v.nodes.length) = true then Except.ok s.final
    else Except.error PyErr.assertion) = _
  rw [hlen]; simp

end Tucan
