import TucanProofs.Lemmas.V2000File
import TucanProofs.Lemmas.V3000File
import TucanProofs.Lemmas.GraphFromMolecule
import TucanProofs.Lemmas.Pipeline
import TucanProofs.Lemmas.ParserOutput
/-!
# One molecule, two formats: what a V2000 file and a V3000 file state about the same molecule

An abstract molecule `Mol` (atoms with written symbol, charge, radical, isotope mass; bonds with type) is
*stated* by a V3000 atom/bond block (`V3States`) and by a V2000 atom block, bond block and property block
(`V2States`) in every way the two formats allow:

* V3000: consecutive indices `1 … n`, the symbol, any property list whose last `CHG=` / `RAD=` / `MASS=`
  values are the molecule's (0 = not set), other keywords anywhere;
* V2000: the symbol in the atom block; charges and radicals EITHER by the atom-block charge codes (no
  `M  CHG` / `M  RAD` line in the file) OR by `M  CHG` / `M  RAD` lines that between them list every atom
  with a non-zero value exactly once — any number of entries per line, any number of lines, any order,
  unrelated lines in between — in which case the atom-block codes are arbitrary; isotopes by `M  ISO` lines
  in the same manner; `D` / `T` state their mass by the symbol.

Then the closed forms of the two readers (`graphAttributesV3000_spec`, `graphAttributesV2000_spec`) are the
same dictionary up to the spelling of the coordinates (`v3_dict`, `v2_dict`, `v3_bonds`, `v2_bonds`), the two
graphs built from them are related by `Iso SameIdent id`, and the TUCAN strings are equal
(`same_string`).
-/
namespace Tucan

/-- an atom as a file states it -/
structure MAtom where
  sym : Str          -- as written: an element symbol, `D` or `T`
  chg : Int          -- 0 = none
  rad : Int          -- 0 = none
  mass : Int         -- 0 = none (for `D` / `T`: 0, the symbol carries the mass)

/-- a bond between the atoms at (0-based) positions `a` and `b` -/
structure MBond where
  a : Nat
  b : Nat
  t : Int

structure Mol where
  atoms : List MAtom
  bonds : List MBond

def nzI (v : Int) : Option Int := if v = 0 then none else some v

structure Mol.Ok (m : Mol) : Prop where
  sym : ∀ a ∈ m.atoms, a.sym ∈ elementSyms ∨ a.sym = ['D'] ∨ a.sym = ['T']
  dt : ∀ a ∈ m.atoms, (detectHydrogenIsotopes a.sym).2 ≠ 0 → a.mass = 0
  bonds : ∀ b ∈ m.bonds, b.a < m.atoms.length ∧ b.b < m.atoms.length ∧ b.a ≠ b.b
  nodup : (m.bonds.map fun b => if b.a ≤ b.b then (b.a, b.b) else (b.b, b.a)).Nodup

/-- the attribute record both readers return for an atom; `c` are the coordinates as that file spells them -/
def MAtom.record (a : MAtom) (c : Str × Str × Str) : Atom :=
  { sym := some (detectHydrogenIsotopes a.sym).1,
    z := (match atomicNumberOf (detectHydrogenIsotopes a.sym).1 with | .ok v => some v | .error _ => none),
    part := some 0, x := some c.1, y := some c.2.1, zc := some c.2.2,
    chg := nzI a.chg, rad := nzI a.rad,
    mass := if (detectHydrogenIsotopes a.sym).2 = 0 then nzI a.mass else some (detectHydrogenIsotopes a.sym).2 }

/-- the atom dictionary: keys `0 … n-1` in order -/
def Mol.atomDict (m : Mol) (coords : List (Str × Str × Str)) : List (Int × Atom) :=
  (m.atoms.zip coords).zipIdx.map fun (p, i) => ((i : Int), p.1.record p.2)

/-- the bond dictionary: one entry per bond, in order, keyed as written -/
def Mol.bondDict (m : Mol) : List ((Int × Int) × Bond) :=
  m.bonds.foldl (fun d b => ainsert ((b.a : Int), (b.b : Int)) ({ btype := some b.t } : Bond) d) []

/-! ## V3000 -/

/-- the `i`-th atom line of a V3000 file states atom `a` with coordinates `c` -/
def V3StatesAtom (a : MAtom) (i : Nat) (c : Str × Str × Str) (e : AtomEntry) : Prop :=
  ∃ idxTok aamap ps, e = .real idxTok ((i : Int) + 1) a.sym c.1 c.2.1 c.2.2 aamap ps ∧
    lastNonZero (chgValues ps) = nzI a.chg ∧ lastNonZero (radValues ps) = nzI a.rad ∧
    ((detectHydrogenIsotopes a.sym).2 = 0 → lastNonZero (massValues ps) = nzI a.mass)

/-- a bond line of a V3000 file states bond `b` -/
def V3StatesBond (b : MBond) (e : BondEntry) : Prop :=
  e.btype = b.t ∧ e.a1 = (b.a : Int) + 1 ∧ e.a2 = (b.b : Int) + 1

structure V3States (m : Mol) (coords : List (Str × Str × Str)) (atoms : List AtomEntry) (bonds : List BondEntry) : Prop where
  nAtoms : atoms.length = m.atoms.length ∧ coords.length = m.atoms.length
  nBonds : bonds.length = m.bonds.length
  atom : ∀ i (h : i < m.atoms.length) (h1 : i < coords.length) (h2 : i < atoms.length),
    V3StatesAtom m.atoms[i] i coords[i] atoms[i]
  bond : ∀ j (h : j < m.bonds.length) (h2 : j < bonds.length), V3StatesBond m.bonds[j] bonds[j]

namespace Agree

/-! ### association lists: inserting fresh keys appends -/

theorem ainsert_fresh {κ ν} [BEq κ] (k : κ) (v : ν) : ∀ (d : List (κ × ν)),
    (∀ p ∈ d, (p.1 == k) = false) → ainsert k v d = d ++ [(k, v)]
  | [], _ => rfl
  | (k', v') :: r, h => by
    have h1 : (k' == k) = false := h (k', v') (by simp)
    simp only [ainsert, h1, Bool.false_eq_true, if_false, List.cons_append]
    rw [ainsert_fresh k v r (fun p hp => h p (List.mem_cons_of_mem _ hp))]

theorem foldl_ainsert_fresh {κ ν} [BEq κ] [LawfulBEq κ] : ∀ (l acc : List (κ × ν)),
    ((acc ++ l).map (·.1)).Nodup →
    l.foldl (fun d p => ainsert p.1 p.2 d) acc = acc ++ l
  | [], acc, _ => by simp
  | (k, v) :: r, acc, h => by
    rw [List.foldl_cons]
    have hf : ainsert k v acc = acc ++ [(k, v)] := by
      apply ainsert_fresh
      intro p hp
      rw [List.map_append, List.map_cons, List.nodup_append] at h
      have := h.2.2 p.1 (List.mem_map.2 ⟨p, hp, rfl⟩) k (by simp)
      simpa using this
    rw [hf]
    have h' : (((acc ++ [(k, v)]) ++ r).map (·.1)).Nodup := by
      simpa [List.append_assoc] using h
    rw [foldl_ainsert_fresh r (acc ++ [(k, v)]) h']
    simp [List.append_assoc]

theorem foldl_ainsert_nodup {κ ν} [BEq κ] [LawfulBEq κ] (l : List (κ × ν)) (h : (l.map (·.1)).Nodup) :
    l.foldl (fun d p => ainsert p.1 p.2 d) [] = l := by
  have := foldl_ainsert_fresh l [] (by simpa using h)
  simpa using this

/-! ### the molecule's dictionaries -/

theorem atomDict_length (m : Mol) (c : List (Str × Str × Str)) (hc : c.length = m.atoms.length) :
    (m.atomDict c).length = m.atoms.length := by
  simp [Mol.atomDict, hc]

theorem atomDict_getElem (m : Mol) (c : List (Str × Str × Str)) (i : Nat) (h : i < (m.atomDict c).length)
    (h1 : i < m.atoms.length) (h2 : i < c.length) :
    (m.atomDict c)[i] = ((i : Int), m.atoms[i].record c[i]) := by
  simp [Mol.atomDict]

theorem atomDict_keys (m : Mol) (c : List (Str × Str × Str)) :
    (m.atomDict c).map (·.1) = (List.range (m.atomDict c).length).map (fun (i : Nat) => (i : Int)) := by
  apply List.ext_getElem
  · simp
  · intro i h1 h2
    simp [Mol.atomDict]

theorem natCast_range_nodup (n : Nat) : ((List.range n).map (fun (i : Nat) => (i : Int))).Nodup := by
  rw [List.nodup_iff_pairwise_ne, List.pairwise_map]
  exact (List.nodup_range (n := n)).imp (fun h => by omega)

theorem atomDict_nodup (m : Mol) (c : List (Str × Str × Str)) : ((m.atomDict c).map (·.1)).Nodup := by
  rw [atomDict_keys]; exact natCast_range_nodup _

/-- the bond dictionary as a fold over the list of its entries -/
def bondPairs (m : Mol) : List ((Int × Int) × Bond) :=
  m.bonds.map fun b => (((b.a : Int), (b.b : Int)), ({ btype := some b.t } : Bond))

theorem bondDict_eq_fold (m : Mol) :
    m.bondDict = (bondPairs m).foldl (fun d p => ainsert p.1 p.2 d) [] := by
  simp only [Mol.bondDict, bondPairs, List.foldl_map]

end Agree

theorem v3_dict (m : Mol) (hm : m.Ok) (coords : List (Str × Str × Str)) (atoms : List AtomEntry)
    (bonds : List BondEntry) (h : V3States m coords atoms bonds) :
    atomDictOf atoms = m.atomDict coords ∧ starsOf atoms = [] := by
  have _ := hm
  obtain ⟨⟨hn1, hn2⟩, -, hatom, -⟩ := h
  have hentries : atoms.map (fun e => (e.idx - 1, e.record)) =
      (m.atomDict coords).map (fun p => (p.1, some p.2)) := by
    apply List.ext_getElem
    · simp [Agree.atomDict_length m coords hn2, hn1]
    · intro i h1 h2
      have hi : i < atoms.length := by simpa using h1
      obtain ⟨idxTok, aamap, ps, he, hc, hr, hms⟩ := hatom i (by omega) (by omega) hi
      rw [List.getElem_map, List.getElem_map,
        Agree.atomDict_getElem m coords i (by simpa using h2) (by omega) (by omega), he]
      simp only [AtomEntry.idx, AtomEntry.record, MAtom.record, hc, hr, Prod.mk.injEq, Option.some.injEq]
      refine ⟨by omega, ?_⟩
      by_cases hz : (detectHydrogenIsotopes m.atoms[i].sym).2 = 0
      · simp only [hz, hms hz, if_true]; rfl
      · simp only [hz, if_false]; rfl
  refine ⟨?_, ?_⟩
  · have e1 : atomDictOf atoms = (atoms.map (fun e => (e.idx - 1, e.record))).foldl
        (fun d (p : Int × Option Atom) => match p.2 with
          | some a => ainsert p.1 a d
          | none => d) [] := by
      simp only [atomDictOf, List.foldl_map]
      rfl
    rw [e1, hentries, List.foldl_map]
    exact Agree.foldl_ainsert_nodup _ (Agree.atomDict_nodup m coords)
  · unfold starsOf
    rw [List.filterMap_eq_nil_iff]
    intro e he
    obtain ⟨i, hi, rfl⟩ := List.getElem_of_mem he
    obtain ⟨idxTok, aamap, ps, he', -⟩ := hatom i (by omega) (by omega) hi
    rw [he']
    rfl

theorem v3_bonds (m : Mol) (hm : m.Ok) (coords : List (Str × Str × Str)) (atoms : List AtomEntry)
    (bonds : List BondEntry) (h : V3States m coords atoms bonds) :
    bondDictOf (starsOf atoms) bonds = m.bondDict := by
  rw [(v3_dict m hm coords atoms bonds h).2, Agree.bondDict_eq_fold]
  have e1 : bondDictOf [] bonds = (bonds.map fun b =>
      ((b.a1 - 1, b.a2 - 1), ({ btype := some b.btype } : Bond))).foldl (fun d p => ainsert p.1 p.2 d) [] := by
    simp only [bondDictOf, BondEntry.tuples, List.foldl_map]
    rfl
  rw [e1]
  congr 1
  apply List.ext_getElem
  · simp [Agree.bondPairs, h.nBonds]
  · intro j h1 h2
    have hj : j < bonds.length := by simpa using h1
    obtain ⟨b1, b2, b3⟩ := h.bond j (by have := h.nBonds; omega) hj
    simp only [Agree.bondPairs, List.getElem_map, b1, b2, b3, Prod.mk.injEq, and_true]
    omega

/-! ## V2000 -/

/-- the atoms with a non-zero value under `f`, with that value, in atom order -/
def entriesOf (f : MAtom → Int) (atoms : List MAtom) : List (Int × Int) :=
  atoms.zipIdx.filterMap fun (a, i) => if f a = 0 then none else some ((i : Int), f a)

/-- all entries of the property lines of one kind, concatenated in file order -/
def blockEntries (key : PropKey) (bl : List BlockLine) : List (Int × Int) :=
  bl.flatMap fun
    | .assign k entries => if k == key then entries else []
    | .other => []

structure V2States (m : Mol) (atoms : List V2Atom) (bonds : List V2Bond) (bl : List BlockLine) : Prop where
  nAtoms : atoms.length = m.atoms.length
  nBonds : bonds.length = m.bonds.length
  sym : ∀ i (h : i < m.atoms.length) (h2 : i < atoms.length), atoms[i].sym = m.atoms[i].sym
  /-- charges and radicals: by the charge codes, or by property lines listing every atom with a value once -/
  chgRad :
    (hasChgOrRad bl = false ∧ ∀ i (h : i < m.atoms.length) (h2 : i < atoms.length),
        chargeCode atoms[i].code = (nzI m.atoms[i].chg, nzI m.atoms[i].rad)) ∨
    (hasChgOrRad bl = true ∧ (blockEntries .chg bl).Perm (entriesOf (·.chg) m.atoms) ∧
        (blockEntries .rad bl).Perm (entriesOf (·.rad) m.atoms))
  iso : (blockEntries .mass bl).Perm (entriesOf (·.mass) m.atoms)
  bond : ∀ j (h : j < m.bonds.length) (h2 : j < bonds.length),
    bonds[j].a = (m.bonds[j].a : Int) + 1 ∧ bonds[j].b = (m.bonds[j].b : Int) + 1 ∧ bonds[j].t = m.bonds[j].t

/-- the coordinates as the V2000 atom block spells them -/
def v2Coords (atoms : List V2Atom) : List (Str × Str × Str) :=
  atoms.map fun a => (v2Coord a.fx, v2Coord a.fy, v2Coord a.fz)

namespace Agree

/-! ### the property block: what the last assignment to an atom is -/

theorem filter_allAssignments (key : PropKey) (k : Int) : ∀ bl : List BlockLine,
    (allAssignments bl).filter (fun a => a.1 == key && a.2.1 == k) =
      ((blockEntries key bl).filter (·.1 == k)).map (fun e => (key, e.1, e.2))
  | [] => rfl
  | b :: bl => by
    have ih := filter_allAssignments key k bl
    simp only [allAssignments, blockEntries, List.flatMap_cons, List.filter_append, List.map_append] at ih ⊢
    rw [ih]
    congr 1
    cases b with
    | other => rfl
    | assign k' entries =>
      by_cases hk : k' = key
      · subst hk
        simp [List.filter_map, Function.comp_def]
      · have : (k' == key) = false := by simpa using hk
        simp [List.filter_map, Function.comp_def, this]

theorem lastAssigned_eq (key : PropKey) (k : Int) (bl : List BlockLine) :
    lastAssigned (allAssignments bl) key k = (((blockEntries key bl).filter (·.1 == k)).getLast?).map (·.2) := by
  unfold lastAssigned
  rw [filter_allAssignments, List.getLast?_map, Option.map_map]
  rfl

theorem blockEntries_of_no_chgRad : ∀ bl : List BlockLine, hasChgOrRad bl = false →
    blockEntries .chg bl = [] ∧ blockEntries .rad bl = []
  | [], _ => ⟨rfl, rfl⟩
  | b :: bl, h => by
    simp only [hasChgOrRad, List.any_cons, Bool.or_eq_false_iff] at h
    obtain ⟨i1, i2⟩ := blockEntries_of_no_chgRad bl h.2
    simp only [blockEntries, List.flatMap_cons] at i1 i2 ⊢
    rw [i1, i2]
    cases b with
    | other => exact ⟨rfl, rfl⟩
    | assign k entries =>
      cases k with
      | chg => simp at h
      | rad => simp at h
      | mass => exact ⟨rfl, rfl⟩

theorem entries_ge (f : MAtom → Int) : ∀ (atoms : List MAtom) (n : Nat) (e : Int × Int),
    e ∈ (atoms.zipIdx n).filterMap (fun (a, i) => if f a = 0 then none else some ((i : Int), f a)) →
    (n : Int) ≤ e.1
  | [], _, _, h => by simp at h
  | a :: r, n, e, h => by
    rw [List.zipIdx_cons, List.filterMap_cons] at h
    have ih := entries_ge f r (n + 1) e
    by_cases hz : f a = 0
    · simp only [hz, if_true] at h
      have := ih h; omega
    · simp only [hz, if_false, List.mem_cons] at h
      rcases h with rfl | h
      · simp
      · have := ih h; omega

theorem entries_filter (f : MAtom → Int) : ∀ (atoms : List MAtom) (n k : Nat) (hk : k < atoms.length),
    ((atoms.zipIdx n).filterMap (fun (a, i) => if f a = 0 then none else some ((i : Int), f a))).filter
        (·.1 == ((n + k : Nat) : Int)) =
      if f atoms[k] = 0 then [] else [(((n + k : Nat) : Int), f atoms[k])]
  | [], _, _, hk => by simp at hk
  | a :: r, n, 0, _ => by
    rw [List.zipIdx_cons, List.filterMap_cons]
    have htail : ((r.zipIdx (n + 1)).filterMap (fun (a, i) => if f a = 0 then none else some ((i : Int), f a))).filter
        (·.1 == ((n + 0 : Nat) : Int)) = [] := by
      rw [List.filter_eq_nil_iff]
      intro e he
      have := entries_ge f r (n + 1) e he
      simp only [beq_iff_eq, Nat.add_zero]
      omega
    by_cases hz : f a = 0
    · simp only [hz, if_true, List.getElem_cons_zero]
      exact htail
    · simp only [hz, if_false, List.getElem_cons_zero]
      rw [List.filter_cons, htail]
      simp
  | a :: r, n, k + 1, hk => by
    rw [List.zipIdx_cons, List.filterMap_cons]
    have ih := entries_filter f r (n + 1) k (by simpa using hk)
    have e : n + 1 + k = n + (k + 1) := by omega
    rw [e] at ih
    by_cases hz : f a = 0
    · simp only [hz, if_true, List.getElem_cons_succ]
      exact ih
    · simp only [hz, if_false, List.getElem_cons_succ]
      rw [List.filter_cons]
      have : (((n : Int), f a).1 == ((n + (k + 1) : Nat) : Int)) = false := by
        simp only [beq_eq_false_iff_ne, ne_eq]; omega
      rw [this]
      exact ih

theorem nonZero_nzI (v : Int) : nonZero (if v = 0 then none else some v) = nzI v := by
  unfold nzI
  by_cases h : v = 0
  · simp [h, nonZero]
  · simp only [h, if_false]
    unfold nonZero
    split
    · rename_i h0; exact absurd (Option.some.inj h0) h
    · rfl

/-- the value a permutation of the molecule's entries assigns last to atom `i` -/
theorem lastEntry (f : MAtom → Int) (atoms : List MAtom) (es : List (Int × Int))
    (hp : es.Perm (entriesOf f atoms)) (i : Nat) (hi : i < atoms.length) :
    nonZero (((es.filter (·.1 == (i : Int))).getLast?).map (·.2)) = nzI (f atoms[i]) := by
  have h1 := hp.filter (·.1 == (i : Int))
  have h2 := entries_filter f atoms 0 i hi
  rw [Nat.zero_add] at h2
  unfold entriesOf at h1
  rw [h2] at h1
  rw [← nonZero_nzI]
  by_cases hz : f atoms[i] = 0
  · simp only [hz, if_true] at h1 ⊢
    rw [List.perm_nil.1 h1]
    rfl
  · simp only [hz, if_false] at h1 ⊢
    rw [List.perm_singleton.1 h1]
    rfl

end Agree

theorem v2_dict (m : Mol) (hm : m.Ok) (atoms : List V2Atom) (bonds : List V2Bond) (bl : List BlockLine)
    (hok : ∀ a ∈ atoms, a.Ok) (h : V2States m atoms bonds bl) :
    applyBlock bl (atoms.zipIdx.map fun (a, i) => ((i : Int), a.record)) = m.atomDict (v2Coords atoms) := by
  obtain ⟨hn, -, hsym, hcr, hiso, -⟩ := h
  have hlc : (v2Coords atoms).length = m.atoms.length := by simp [v2Coords, hn]
  apply List.ext_getElem
  · simp [applyBlock, Agree.atomDict_length m _ hlc, hn]
  · intro i h1 h2
    have hi : i < atoms.length := by simpa [applyBlock] using h1
    have hi' : i < m.atoms.length := by omega
    rw [Agree.atomDict_getElem m _ i h2 hi' (by omega)]
    have hS := hsym i hi' hi
    have hZ := (hok atoms[i] (List.getElem_mem hi)).z
    have hmass : nonZero (lastAssigned (allAssignments bl) .mass (i : Int)) = nzI m.atoms[i].mass := by
      rw [Agree.lastAssigned_eq]
      exact Agree.lastEntry (·.mass) m.atoms _ hiso i hi'
    have hdt := hm.dt m.atoms[i] (List.getElem_mem hi')
    have hchg : (nonZero (lastAssigned (allAssignments bl) .chg (i : Int)) <|>
          (if hasChgOrRad bl then none else (chargeCode atoms[i].code).1)) = nzI m.atoms[i].chg ∧
        (nonZero (lastAssigned (allAssignments bl) .rad (i : Int)) <|>
          (if hasChgOrRad bl then none else (chargeCode atoms[i].code).2)) = nzI m.atoms[i].rad := by
      rcases hcr with ⟨hf, hcode⟩ | ⟨hf, hpc, hpr⟩
      · obtain ⟨e1, e2⟩ := Agree.blockEntries_of_no_chgRad bl hf
        rw [Agree.lastAssigned_eq, Agree.lastAssigned_eq, e1, e2, hf, hcode i hi' hi]
        exact ⟨rfl, rfl⟩
      · rw [Agree.lastAssigned_eq, Agree.lastAssigned_eq, hf,
          Agree.lastEntry (·.chg) m.atoms _ hpc i hi', Agree.lastEntry (·.rad) m.atoms _ hpr i hi']
        simp
    obtain ⟨hc1, hc2⟩ := hchg
    have hM : (nzI m.atoms[i].mass <|> (if (detectHydrogenIsotopes m.atoms[i].sym).2 = 0 then none
          else some (detectHydrogenIsotopes m.atoms[i].sym).2)) =
        (if (detectHydrogenIsotopes m.atoms[i].sym).2 = 0 then nzI m.atoms[i].mass
          else some (detectHydrogenIsotopes m.atoms[i].sym).2) := by
      by_cases hz : (detectHydrogenIsotopes m.atoms[i].sym).2 = 0
      · simp [hz]
      · simp [hz, hdt hz, nzI]
    rw [hS] at hZ
    cases hf : hasChgOrRad bl <;> rw [hf] at hc1 hc2 <;>
      simp only [applyBlock, List.getElem_map, List.getElem_zipIdx, v2Coords, hf, V2Atom.record, MAtom.record,
        Bool.false_eq_true, if_false, if_true, hmass, hS, hZ, hM, Nat.zero_add] <;>
      simp only [Bool.false_eq_true, if_false, if_true] at hc1 hc2 <;>
      simp only [hc1, hc2]

theorem v2_bonds (m : Mol) (hm : m.Ok) (atoms : List V2Atom) (bonds : List V2Bond) (bl : List BlockLine)
    (h : V2States m atoms bonds bl) :
    bonds.foldl (fun d b => ainsert (b.a - 1, b.b - 1) ({ btype := some b.t } : Bond) d) [] = m.bondDict := by
  have _ := hm
  rw [Agree.bondDict_eq_fold]
  have e1 : bonds.foldl (fun d b => ainsert (b.a - 1, b.b - 1) ({ btype := some b.t } : Bond) d) [] =
      (bonds.map fun b => ((b.a - 1, b.b - 1), ({ btype := some b.t } : Bond))).foldl
        (fun d p => ainsert p.1 p.2 d) [] := by
    simp only [List.foldl_map]
  rw [e1]
  congr 1
  apply List.ext_getElem
  · simp [Agree.bondPairs, h.nBonds]
  · intro j h1 h2
    have hj : j < bonds.length := by simpa using h1
    obtain ⟨b1, b2, b3⟩ := h.bond j (by have := h.nBonds; omega) hj
    simp only [Agree.bondPairs, List.getElem_map, b1, b2, b3, Prod.mk.injEq, and_true]
    omega

/-! ## the graphs and the strings -/

/-- what TUCAN identifies an atom by: the element (D/T read as hydrogen), the isotope mass, the radical -/
def MAtom.identity (a : MAtom) : Str × Option Int × Option Int :=
  ((detectHydrogenIsotopes a.sym).1,
   (if (detectHydrogenIsotopes a.sym).2 = 0 then nzI a.mass else some (detectHydrogenIsotopes a.sym).2),
   nzI a.rad)

/-- two molecules on the same atom positions that differ at most in charges, in bond types, in the order and
orientation in which bonds are listed, and in how an isotope of hydrogen is written (`D` vs `H` with mass 2) -/
structure SameIdentity (m m' : Mol) : Prop where
  n : m.atoms.length = m'.atoms.length
  atom : ∀ i (h : i < m.atoms.length) (h' : i < m'.atoms.length), m.atoms[i].identity = m'.atoms[i].identity
  bonds : ∀ i j : Nat, (∃ b ∈ m.bonds, (b.a = i ∧ b.b = j) ∨ (b.a = j ∧ b.b = i)) ↔
    (∃ b ∈ m'.bonds, (b.a = i ∧ b.b = j) ∨ (b.a = j ∧ b.b = i))

theorem sameIdentity_refl (m : Mol) : SameIdentity m m := ⟨rfl, fun _ _ _ => rfl, fun _ _ => Iff.rfl⟩

namespace Agree

/-! ### the graph of one molecule -/

theorem bondKeys_nodup (m : Mol) (hm : m.Ok) : ((bondPairs m).map (·.1)).Nodup := by
  have h := hm.nodup
  rw [List.nodup_iff_pairwise_ne, List.pairwise_map] at h
  simp only [bondPairs, List.map_map]
  rw [List.nodup_iff_pairwise_ne, List.pairwise_map]
  refine h.imp ?_
  intro b b' hne heq
  apply hne
  simp only [Function.comp_apply, Prod.mk.injEq, Int.natCast_inj] at heq
  rw [heq.1, heq.2]

theorem bondDict_eq (m : Mol) (hm : m.Ok) : m.bondDict = bondPairs m := by
  rw [bondDict_eq_fold]
  exact foldl_ainsert_nodup _ (bondKeys_nodup m hm)

theorem goodBonds (m : Mol) (hm : m.Ok) : GoodBonds m.atoms.length (bondPairs m) := by
  constructor
  · intro b hb
    obtain ⟨b0, hb0, rfl⟩ := List.mem_map.1 hb
    obtain ⟨h1, h2, h3⟩ := hm.bonds b0 hb0
    refine ⟨?_, ?_, ?_, ?_, ?_⟩ <;> simp only <;> omega
  · have h := hm.nodup
    rw [List.nodup_iff_pairwise_ne, List.pairwise_map] at h
    simp only [bondPairs, List.map_map]
    rw [List.nodup_iff_pairwise_ne, List.pairwise_map]
    refine h.imp ?_
    intro b b' hne heq
    apply hne
    simp only [Function.comp_apply, Int.ofNat_le] at heq
    by_cases h1 : b.a ≤ b.b <;> by_cases h2 : b'.a ≤ b'.b <;>
      simp only [h1, h2, if_true, if_false, Prod.mk.injEq, Int.natCast_inj] at heq ⊢ <;> exact heq

theorem det_fst_elem (s : Str) (h : s ∈ elementSyms ∨ s = ['D'] ∨ s = ['T']) :
    (detectHydrogenIsotopes s).1 ∈ elementSyms := by
  have hH : ['H'] ∈ elementSyms := by decide +kernel
  unfold detectHydrogenIsotopes
  by_cases h1 : s = ['D']
  · simp [h1, hH]
  · by_cases h2 : s = ['T']
    · simp [h2, hH]
    · rcases h with h | h | h
      · simp [h1, h2, h]
      · exact absurd h h1
      · exact absurd h h2

theorem exists_z (s : Str) (h : s ∈ elementSyms) :
    ∃ z : Nat, elementZ s = some z ∧ atomicNumberOf s = .ok (z : Int) := by
  obtain ⟨z, hz, -⟩ := atomicNumberOf_elementSyms s h
  unfold atomicNumberOf at hz
  unfold elementZ atomicNumberOf
  cases ha : alookup (String.ofList s) Tables.elementTable with
  | none => rw [ha] at hz; cases hz
  | some n => exact ⟨n, rfl, rfl⟩

theorem nzI_ne_zero (v : Int) : nzI v ≠ some 0 := by
  unfold nzI
  by_cases h : v = 0
  · simp [h]
  · simp [h]

theorem record_z (a : MAtom) (c : Str × Str × Str) (h : a.sym ∈ elementSyms ∨ a.sym = ['D'] ∨ a.sym = ['T']) :
    (a.record c).z.isSome := by
  obtain ⟨z, -, hz⟩ := exists_z _ (det_fst_elem a.sym h)
  simp [MAtom.record, hz]

theorem record_chem (a : MAtom) (c : Str × Str × Str) (h : a.sym ∈ elementSyms ∨ a.sym = ['D'] ∨ a.sym = ['T']) :
    (GFM.inv' (a.record c)).Chem := by
  obtain ⟨z, hez, hz⟩ := exists_z _ (det_fst_elem a.sym h)
  refine ⟨(z : Int), ?_, ?_, ?_, ?_, ?_⟩
  · simp [GFM.inv', MAtom.record, hz]
  · rw [POut.symOfZ_of_elementZ hez]; rfl
  · simp [GFM.inv', MAtom.record, hz]
  · simp only [GFM.inv', MAtom.record]
    by_cases h0 : (detectHydrogenIsotopes a.sym).2 = 0
    · simp only [h0, if_true]; exact nzI_ne_zero _
    · simp only [h0, if_false]
      intro h1; exact h0 (Option.some.inj h1)
  · exact nzI_ne_zero _

theorem record_sameIdent (a a' : MAtom) (c c' : Str × Str × Str) (h : a.identity = a'.identity) :
    SameIdent (GFM.inv' (a.record c)) (GFM.inv' (a'.record c')) := by
  simp only [MAtom.identity, Prod.mk.injEq] at h
  obtain ⟨h1, h2, h3⟩ := h
  simp only [SameIdent, GFM.inv', MAtom.record, h1, h2, h3]
  exact ⟨trivial, trivial, trivial, trivial, trivial⟩

theorem graph_of_mol (m : Mol) (hm : m.Ok) (c : List (Str × Str × Str)) (hc : c.length = m.atoms.length) :
    ∃ g post, graphFromMolecule (m.atomDict c) m.bondDict = .ok (g, post) ∧
      g.labels = List.range m.atoms.length ∧ g.WF ∧ g.Simple ∧
      (∀ i (h : i < m.atoms.length) (h' : i < c.length),
        g.attrs? i = some (GFM.inv' (m.atoms[i].record c[i]))) ∧
      (∀ i j, j ∈ g.nbrs i ↔ ∃ b ∈ m.bonds, (b.a = i ∧ b.b = j) ∨ (b.a = j ∧ b.b = i)) := by
  have hA := atomDict_length m c hc
  have hzs : ∀ a ∈ m.atomDict c, a.2.z.isSome := by
    intro a ha
    obtain ⟨i, hi, rfl⟩ := List.getElem_of_mem ha
    rw [atomDict_getElem m c i hi (by omega) (by omega)]
    exact record_z _ _ (hm.sym _ (List.getElem_mem _))
  obtain ⟨g, post, hg, hlab, hwf, hsimp, hattr, hadj⟩ := graphFromMolecule_spec (m.atomDict c) m.bondDict
    (atomDict_keys m c) (by rw [hA, bondDict_eq m hm]; exact goodBonds m hm) hzs
  refine ⟨g, post, hg, by rw [hlab, hA], hwf, hsimp, ?_, ?_⟩
  · intro i h h'
    obtain ⟨x, hx, hgx⟩ := hattr i (by omega)
    rw [atomDict_getElem m c i (by omega) h h'] at hx
    rw [GFM.addInvariantCode_ok (record_z _ _ (hm.sym _ (List.getElem_mem _)))] at hx
    rw [hgx, ← Except.ok.inj hx]
  · intro i j
    rw [bondDict_eq m hm] at hadj
    rw [NxE.nbrs_eq_map, List.mem_map]
    constructor
    · rintro ⟨⟨j', d⟩, h, rfl⟩
      rcases (hadj i j' d).1 h with h | h
      · obtain ⟨b, hb, he⟩ := List.mem_map.1 h
        simp only [Prod.mk.injEq, Int.natCast_inj] at he
        exact ⟨b, hb, Or.inl ⟨he.1.1, he.1.2⟩⟩
      · obtain ⟨b, hb, he⟩ := List.mem_map.1 h
        simp only [Prod.mk.injEq, Int.natCast_inj] at he
        exact ⟨b, hb, Or.inr ⟨he.1.1, he.1.2⟩⟩
    · rintro ⟨b, hb, ⟨rfl, rfl⟩ | ⟨rfl, rfl⟩⟩
      · exact ⟨(b.b, { btype := some b.t }), (hadj _ _ _).2 (Or.inl (List.mem_map.2 ⟨b, hb, rfl⟩)), rfl⟩
      · exact ⟨(b.a, { btype := some b.t }), (hadj _ _ _).2 (Or.inr (List.mem_map.2 ⟨b, hb, rfl⟩)), rfl⟩

theorem nbrs_nodup {g : Graph} (hw : g.WF) (a : Nat) : (g.nbrs a).Nodup := by
  rw [NxE.nbrs_eq_map]; exact NxE.WF.nodupD hw a

end Agree

/-- the graph built from a molecule's dictionaries exists, is a well-formed simple graph of chemistry-level
atoms; for two molecules of the same identity, under any spelling of the coordinates, the two graphs are the
same molecule, atom `i` ↦ atom `i` -/
theorem graphs_same_identity (m m' : Mol) (hm : m.Ok) (hm' : m'.Ok) (same : SameIdentity m m')
    (c c' : List (Str × Str × Str)) (hc : c.length = m.atoms.length) (hc' : c'.length = m'.atoms.length) :
    ∃ g g' post post', graphFromMolecule (m.atomDict c) m.bondDict = .ok (g, post) ∧
      graphFromMolecule (m'.atomDict c') m'.bondDict = .ok (g', post') ∧
      g.WF ∧ g.Simple ∧ g'.WF ∧ g'.Simple ∧ g.Chem ∧ Iso SameIdent id g g' := by
  obtain ⟨g, post, hg, hlab, hwf, hsimp, hattr, hnb⟩ := Agree.graph_of_mol m hm c hc
  obtain ⟨g', post', hg', hlab', hwf', hsimp', hattr', hnb'⟩ := Agree.graph_of_mol m' hm' c' hc'
  have hn := same.n
  refine ⟨g, g', post, post', hg, hg', hwf, hsimp, hwf', hsimp', ?_, ?_⟩
  · intro a ha x hx
    rw [hlab, List.mem_range] at ha
    rw [hattr a ha (by omega)] at hx
    rw [← Option.some.inj hx]
    exact Agree.record_chem _ _ (hm.sym _ (List.getElem_mem _))
  · refine ⟨?_, fun a _ b _ h => h, ?_, ?_⟩
    · rw [List.map_id, hlab, hlab', hn]
    · intro a ha
      rw [hlab, List.mem_range] at ha
      exact ⟨_, _, hattr a ha (by omega), hattr' a (by omega) (by omega),
        Agree.record_sameIdent _ _ _ _ (same.atom a ha (by omega))⟩
    · intro a _
      rw [List.map_id]
      refine (List.perm_ext_iff_of_nodup (Agree.nbrs_nodup hwf' a) (Agree.nbrs_nodup hwf a)).2 ?_
      intro j
      show j ∈ g'.nbrs a ↔ j ∈ g.nbrs a
      rw [hnb, hnb']
      exact (same.bonds a j).symm

/-- … and hence the same TUCAN string, for every oracle meeting the bliss contract -/
theorem same_string (O : CanonOracle) (m m' : Mol) (hm : m.Ok) (hm' : m'.Ok) (same : SameIdentity m m')
    (c c' : List (Str × Str × Str)) (hc : c.length = m.atoms.length) (hc' : c'.length = m'.atoms.length)
    (g g' : Graph) (post post' : List (Int × Atom)) (s s' : Str)
    (hg : graphFromMolecule (m.atomDict c) m.bondDict = .ok (g, post))
    (hg' : graphFromMolecule (m'.atomDict c') m'.bondDict = .ok (g', post'))
    (hs : tucanOf O.order g = .ok s) (hs' : tucanOf O.order g' = .ok s') : s = s' := by
  obtain ⟨g0, g0', p0, p0', h0, h0', hwf, hsimp, hwf', hsimp', hchem, hiso⟩ :=
    graphs_same_identity m m' hm hm' same c c' hc hc'
  rw [hg] at h0
  rw [hg'] at h0'
  obtain ⟨rfl, -⟩ := Prod.mk.inj (Except.ok.inj h0)
  obtain ⟨rfl, -⟩ := Prod.mk.inj (Except.ok.inj h0')
  exact tucan_invariant O hiso hchem hwf hsimp hwf' hsimp' hs hs'

end Tucan
