import TucanModel.Molfile
/-!
# S7 — the reader's continuation-line splicing inverts the writer's wrapping

`addV30Line` is `molfile_writer._add_v30_line`; `concatLinesWithDash` is
`molfile_v3000_reader._concat_lines_with_dash`.  For every logical line of every length the physical
lines are at most 79 characters long and splicing them restores `"M  V30 " ++ line`.
-/
namespace Tucan

@[simp] theorem v30Prefix_isPrefixOf (l : Str) : startsWith (v30Prefix ++ l) v30Prefix = true := by
  simp [startsWith, v30Prefix, cs, List.isPrefixOf]
@[simp] theorem drop_v30Prefix (l : Str) : (v30Prefix ++ l).drop 7 = l := by simp [v30Prefix, cs]
@[simp] theorem endsWithChar_append_dash (l : Str) : endsWithChar (l ++ ['-']) '-' = true := by
  simp [endsWithChar]
theorem v30Prefix_length : v30Prefix.length = 7 := by simp [v30Prefix, cs]

/-- what splicing must return for a block that starts with one complete logical line `full` -/
def expectedSplice (full : Str) (rest : List Str) : PyM (List Str) :=
  match rest with
  | [] => .ok [full]
  | _ :: _ => (concatLinesWithDash rest).map (full :: ·)

/-- first physical line re-based on an already spliced prefix `acc` -/
def joinFirst (acc : Str) : List Str → List Str
  | [] => []
  | p :: ps => (v30Prefix ++ acc ++ p.drop 7) :: ps

theorem addV30Line_cons (line : Str) :
    ∃ t, addV30Line line = (v30Prefix ++ (if line.length ≤ 72 then line else line.take 71 ++ ['-'])) :: t := by
  rw [addV30Line]; split <;> simp

theorem splice_wrap_aux (line : Str) :
    ∀ (acc : Str) (rest : List Str), endsWithChar (v30Prefix ++ acc ++ line) '-' = false →
      concatLinesWithDash (joinFirst acc (addV30Line line) ++ rest) = expectedSplice (v30Prefix ++ acc ++ line) rest := by
  induction line using addV30Line.induct with
  | case1 l h =>
    intro acc rest hd
    rw [addV30Line]; simp only [h, if_true, joinFirst, drop_v30Prefix]
    cases rest with
    | nil => simp [concatLinesWithDash, expectedSplice]
    | cons n r =>
      have hd' : endsWithChar (v30Prefix ++ (acc ++ l)) '-' = false := by simpa [List.append_assoc] using hd
      simp [concatLinesWithDash, expectedSplice, hd']
  | case2 l h ih =>
    intro acc rest hd
    rw [addV30Line]; simp only [h, if_false, joinFirst]
    obtain ⟨t, ht⟩ := addV30Line_cons (l.drop 71)
    have key := ih (acc ++ l.take 71) rest (by simpa [List.append_assoc] using hd)
    rw [ht] at key ⊢
    simp only [joinFirst, drop_v30Prefix] at key
    simp only [List.cons_append, concatLinesWithDash, List.append_assoc, drop_v30Prefix]
    have e1 : startsWith (v30Prefix ++ (acc ++ (List.take 71 l ++ ['-']))) v30Prefix = true := v30Prefix_isPrefixOf _
    have e2 : endsWithChar (v30Prefix ++ (acc ++ (List.take 71 l ++ ['-']))) '-' = true := by
      have := endsWithChar_append_dash (v30Prefix ++ (acc ++ List.take 71 l)); simpa [List.append_assoc] using this
    simp only [e1, e2, Bool.and_self, if_true, v30Prefix_isPrefixOf]
    have e3 : (v30Prefix ++ (acc ++ (List.take 71 l ++ ['-']))).dropLast = v30Prefix ++ (acc ++ List.take 71 l) := by
      have : v30Prefix ++ (acc ++ (List.take 71 l ++ ['-'])) = (v30Prefix ++ (acc ++ List.take 71 l)) ++ ['-'] := by simp
      rw [this, List.dropLast_concat]
    rw [e3]
    simpa [List.append_assoc] using key

/-- Reader splicing inverts writer wrapping, for every line length. -/
theorem splice_wrap (line : Str) (rest : List Str) (h : endsWithChar (v30Prefix ++ line) '-' = false) :
    concatLinesWithDash (addV30Line line ++ rest) = expectedSplice (v30Prefix ++ line) rest := by
  have := splice_wrap_aux line [] rest (by simpa using h)
  obtain ⟨t, ht⟩ := addV30Line_cons line
  rw [ht] at this ⊢
  simpa [joinFirst] using this

/-- every physical line is at most 79 characters (80 with the newline) -/
theorem addV30Line_length_le (line : Str) : ∀ p ∈ addV30Line line, p.length ≤ 79 := by
  induction line using addV30Line.induct with
  | case1 l h => rw [addV30Line]; simp [h, v30Prefix, cs]
  | case2 l h ih =>
    rw [addV30Line]; simp only [h, if_false]
    intro p hp
    rcases List.mem_cons.mp hp with rfl | hp
    · simp [v30Prefix, cs]; omega
    · exact ih p hp

/-- every physical line carries the `M  V30 ` prefix -/
theorem addV30Line_prefix (line : Str) : ∀ p ∈ addV30Line line, startsWith p v30Prefix = true := by
  induction line using addV30Line.induct with
  | case1 l h => rw [addV30Line]; simp [h]
  | case2 l h ih =>
    rw [addV30Line]; simp only [h, if_false]
    intro p hp
    rcases List.mem_cons.mp hp with rfl | hp
    · simp [List.append_assoc]
    · exact ih p hp

end Tucan
