import TucanProofs.Lemmas.MolfileText
/-!
# Files whose lines end in different terminators

`IsTextOf` (the hypothesis of the file-level theorems) asks for one terminator throughout the file.  Python's
`splitlines` does not care: each line may end in its own `\n`, `\r\n` or `\r`, and the last line may have none.
`fileTextMixed` is such a text; it splits into the same lines, so `graph_from_molfile_text` returns on it exactly
what it returns on the text of the same lines written with `\n` — every file-level theorem carries over.
The one interaction between terminators: a line ended by `\r` that is followed by an *empty* line ended by `\n`
spells `\r\n`, which is one terminator; such a pair is excluded (`NoCrLfMerge`).
-/
namespace Tucan

/-- each line with its own terminator -/
def fileTextMixed (ls : List (Str × Str)) : Str := (ls.map fun p => p.1 ++ p.2).flatten

/-- no `\r` terminator is directly followed by a `\n` that belongs to the next (empty) line -/
def NoCrLfMerge : List (Str × Str) → Prop
  | [] => True
  | [_] => True
  | p :: q :: r => (p.2 = ['\r'] → ¬ (q.1 = [] ∧ q.2.head? = some '\n')) ∧ NoCrLfMerge (q :: r)

/-- every line but the last ends in one of the three terminators; the last may end in none, if it is not empty -/
def MixedOk : List (Str × Str) → Prop
  | [] => True
  | [p] => IsEol p.2 ∨ (p.2 = [] ∧ p.1 ≠ [])
  | p :: q :: r => IsEol p.2 ∧ MixedOk (q :: r)

namespace MixE
open WR MT

theorem fileTextMixed_cons (p : Str × Str) (r : List (Str × Str)) :
    fileTextMixed (p :: r) = p.1 ++ p.2 ++ fileTextMixed r := by
  simp [fileTextMixed]

theorem mixedOk_head (q : Str × Str) (r : List (Str × Str)) (h : MixedOk (q :: r)) :
    IsEol q.2 ∨ (q.2 = [] ∧ q.1 ≠ []) := by
  cases r with
  | nil => exact h
  | cons _ _ => exact Or.inl h.1

theorem mixedOk_tail (p : Str × Str) (r : List (Str × Str)) (h : MixedOk (p :: r)) : MixedOk r := by
  cases r with
  | nil => trivial
  | cons _ _ => exact h.2

theorem noCrLfMerge_tail (p : Str × Str) (r : List (Str × Str)) (h : NoCrLfMerge (p :: r)) : NoCrLfMerge r := by
  cases r with
  | nil => trivial
  | cons _ _ => exact h.2

/-- the text of lines whose first is not an empty line ended by a terminator starting with `\n` -/
theorem noLFHead_fileTextMixed (q : Str × Str) (r : List (Str × Str)) (hq : NoBreak q.1)
    (hok : MixedOk (q :: r)) (hne : ¬ (q.1 = [] ∧ q.2.head? = some '\n')) :
    NoLFHead (fileTextMixed (q :: r)) := by
  rw [fileTextMixed_cons, List.append_assoc]
  cases h1 : q.1 with
  | cons c t =>
    have hc : isLineBreak c = false := hq c (by rw [h1]; simp)
    simp only [NoLFHead, List.cons_append, List.head?_cons, ne_eq, Option.some.injEq]
    rintro rfl
    revert hc; decide
  | nil =>
    rw [List.nil_append]
    rcases mixedOk_head q r hok with he | ⟨_, h1'⟩
    · rcases he with e | e | e
      · exact absurd ⟨h1, by rw [e]; rfl⟩ hne
      · rw [e]; exact noLFHead_cr _
      · rw [e]; exact noLFHead_cr _
    · exact absurd h1 h1'

theorem splitLinesGo_fileTextMixed : ∀ (ls : List (Str × Str)), (∀ p ∈ ls, NoBreak p.1) →
    MixedOk ls → NoCrLfMerge ls →
    ∀ (acc : List Str), splitLinesGo [] acc false (fileTextMixed ls) = acc.reverse ++ ls.map (·.1) := by
  intro ls
  induction ls with
  | nil => intro _ _ _ acc; simp [fileTextMixed, splitLinesGo]
  | cons p r ih =>
    intro hnb hok hm acc
    have hr : ∀ x ∈ r, NoBreak x.1 := fun x hx => hnb x (by simp [hx])
    have hp : NoBreak p.1 := hnb p (by simp)
    rw [fileTextMixed_cons]
    rcases mixedOk_head p r hok with he | ⟨h2, h1⟩
    · rw [splitLinesGo_step p.2 he p.1 hp acc _ ?_, ih hr (mixedOk_tail p r hok) (noCrLfMerge_tail p r hm)]
      · simp
      · intro hcr
        cases r with
        | nil => simp [fileTextMixed, NoLFHead]
        | cons q r' =>
          exact noLFHead_fileTextMixed q r' (hr q (by simp)) hok.2 (hm.1 hcr)
    · cases r with
      | cons q r' =>
        -- `p` is not the last line, so it has a terminator
        have : IsEol p.2 := hok.1
        rw [h2] at this
        rcases this with e | e | e <;> cases e
      | nil =>
        have := splitLinesGo_line p.1 hp [] acc []
        simp only [List.append_nil] at this
        have hemp : p.1.reverse.isEmpty = false := by simp [h1]
        simp [fileTextMixed, h2, this, splitLinesGo, hemp]

end MixE

/-- **`splitlines` of a text with mixed terminators is the list of its lines.** -/
theorem splitLines_fileTextMixed (ls : List (Str × Str)) (hnb : ∀ p ∈ ls, WR.NoBreak p.1)
    (hok : MixedOk ls) (hm : NoCrLfMerge ls) :
    splitLines (fileTextMixed ls) = ls.map (·.1) := by
  unfold splitLines
  rw [MixE.splitLinesGo_fileTextMixed ls hnb hok hm]; rfl

/-- … hence the reader returns on it what it returns on the same lines written with `\n` throughout -/
theorem graphFromMolfileText_mixed (ls : List (Str × Str)) (hnb : ∀ p ∈ ls, WR.NoBreak p.1)
    (hok : MixedOk ls) (hm : NoCrLfMerge ls) :
    graphFromMolfileText (fileTextMixed ls) = graphFromMolfileText (fileText ['\n'] (ls.map (·.1))) := by
  have hnb' : ∀ l ∈ ls.map (·.1), WR.NoBreak l := by
    intro l hl
    obtain ⟨p, hp, rfl⟩ := List.mem_map.1 hl
    exact hnb p hp
  unfold graphFromMolfileText
  rw [splitLines_fileTextMixed ls hnb hok hm, splitLines_fileText ['\n'] (Or.inl rfl) _ hnb']

/-- non-vacuity: `a\r\nb\rc\n\nd` — four terminators of three kinds, an empty line, no terminator at the end -/
theorem mixed_example :
    MixedOk [(['a'], ['\r', '\n']), (['b'], ['\r']), (['c'], ['\n']), ([], ['\n']), (['d'], [])] ∧
    NoCrLfMerge [(['a'], ['\r', '\n']), (['b'], ['\r']), (['c'], ['\n']), ([], ['\n']), (['d'], [])] ∧
    splitLines (fileTextMixed [(['a'], ['\r', '\n']), (['b'], ['\r']), (['c'], ['\n']), ([], ['\n']), (['d'], [])])
      = [['a'], ['b'], ['c'], [], ['d']] := by
  have hok : MixedOk [(['a'], ['\r', '\n']), (['b'], ['\r']), (['c'], ['\n']), ([], ['\n']), (['d'], [])] := by
    simp [MixedOk, IsEol]
  have hm : NoCrLfMerge [(['a'], ['\r', '\n']), (['b'], ['\r']), (['c'], ['\n']), ([], ['\n']), (['d'], [])] := by
    simp [NoCrLfMerge]
  refine ⟨hok, hm, ?_⟩
  rw [splitLines_fileTextMixed _ ?_ hok hm]
  · rfl
  · intro p hp
    simp only [List.mem_cons, List.not_mem_nil, or_false] at hp
    rcases hp with rfl | rfl | rfl | rfl | rfl <;> intro c hc <;> simp at hc <;> subst_vars <;> decide

end Tucan
