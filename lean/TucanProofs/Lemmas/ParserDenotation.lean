import TucanProofs.Lemmas.GraphFromMolecule
import TucanProofs.Lemmas.RejectKind
import TucanProofs.Lemmas.IsoCompose
/-!
# What `to_graph` returns: the denotation of a parsed TUCAN string

`toGraph` is the model of `TucanListenerImpl.to_graph`.  For every listener state that can arise from an
accepted string — atoms from the formula (each with an atomic number), bonds between different existing
atoms (any order, any orientation, repeats allowed), attribute records that only set mass / radical on
existing atoms — the returned graph has exactly the atoms of the formula numbered by increasing atomic
number (a stable sort of the formula's expansion), exactly the listed bonds as a *set*, and exactly the
listed attributes on the indexed atoms.  Consequently two spellings that denote the same molecule up to a
renumbering inside element blocks give graphs that are `Iso SameIdent`.
-/
namespace Tucan

/-- the attribute record the listener collected for atom index `k` (`{}` if none) -/
def extraOf (st : ListenerState) (k : Int) : Atom := (alookup k st.nodeAttrs).getD {}

/-- a record that sets nothing but (possibly) mass and radical -/
def OnlyMassRad (x : Atom) : Prop :=
  x.sym = none ∧ x.z = none ∧ x.part = none ∧ x.chg = none ∧ x.x = none ∧ x.y = none ∧ x.zc = none ∧
  x.inv = none ∧ x.explored = none ∧ x.extra = none

/-- listener states that arise from accepted strings -/
structure GoodState (st : ListenerState) : Prop where
  atomsZ : ∀ a ∈ st.atoms, a.z.isSome
  bonds : ∀ b ∈ st.bonds, 0 ≤ b.1 ∧ b.1 < st.atoms.length ∧ 0 ≤ b.2 ∧ b.2 < st.atoms.length ∧ b.1 ≠ b.2
  attrsIdx : ∀ e ∈ st.nodeAttrs, 0 ≤ e.1 ∧ e.1 < st.atoms.length ∧ OnlyMassRad e.2
  attrsKeys : (st.nodeAttrs.map (·.1)).Nodup

/-- the atom the parser puts at index `i`: the `i`-th atom of the formula's expansion stably sorted by
atomic number, with the collected attributes joined in -/
def atomAt (st : ListenerState) (i : Nat) : Atom :=
  ((sortAtomsByZ st.atoms)[i]?.getD {}).update (extraOf st i)

namespace PDen
open Graph

/-! ### folding `addEdge` with empty records over a list that may repeat bonds -/

theorem Inv.stepBlank {L : List Nat} {A : Nat → Option Atom} {h : Graph}
    {done : List (Nat × Nat × Bond)} (inv : NxE.Inv L A h done) (hd : ∀ e ∈ done, e.2.2 = ({} : Bond))
    {u v : Nat} (hu : u ∈ L) (hv : v ∈ L) (hne : u ≠ v) :
    NxE.Inv L A (h.addEdge u v {}) (done ++ [(u, v, ({} : Bond))]) := by
  have hu' : u ∈ h.labels := inv.labels ▸ hu
  have hv' : v ∈ h.labels := inv.labels ▸ hv
  obtain ⟨s1, s2, s3, s4⟩ := GFM.addEdge_step h u v {} hu' hv' hne inv.keys
  have hall : ∀ a w d, (w, d) ∈ h.nbrsD a → d = ({} : Bond) := by
    intro a w d hm
    rcases (inv.nbrs a w d).1 hm with hm | hm
    · exact hd _ hm
    · exact hd _ hm
  have hdd : ((h.edgeData? u v).getD {}).update {} = ({} : Bond) := by
    rw [NxRelabel.edgeData?_eq]
    cases hl : alookup v (h.nbrsD u) with
    | none => rfl
    | some d =>
      have := hall _ _ _ (NxRelabel.mem_of_alookup hl)
      subst this
      rfl
  rw [hdd] at s4
  refine ⟨s1.trans inv.labels, fun a => (s2 a).trans (inv.attrs a), ?_, s3⟩
  intro x y e
  rw [s4, inv.nbrs]
  simp only [List.mem_append, List.mem_singleton, Prod.mk.injEq]
  constructor
  · rintro (⟨rfl, rfl, rfl⟩ | ⟨rfl, rfl, rfl⟩ | ⟨_, _, hp | hp⟩)
    · exact Or.inl (Or.inr ⟨rfl, rfl, rfl⟩)
    · exact Or.inr (Or.inr ⟨rfl, rfl, rfl⟩)
    · exact Or.inl (Or.inl hp)
    · exact Or.inr (Or.inl hp)
  · rintro ((hp | hp) | (hp | hp))
    · have he : e = ({} : Bond) := hd _ hp
      by_cases c1 : x = u ∧ y = v
      · exact Or.inl ⟨c1.1, c1.2, he⟩
      · by_cases c2 : x = v ∧ y = u
        · exact Or.inr (Or.inl ⟨c2.1, c2.2, he⟩)
        · exact Or.inr (Or.inr ⟨c1, c2, Or.inl hp⟩)
    · exact Or.inl hp
    · have he : e = ({} : Bond) := hd _ hp
      by_cases c1 : x = u ∧ y = v
      · exact Or.inl ⟨c1.1, c1.2, he⟩
      · by_cases c2 : x = v ∧ y = u
        · exact Or.inr (Or.inl ⟨c2.1, c2.2, he⟩)
        · exact Or.inr (Or.inr ⟨c1, c2, Or.inr hp⟩)
    · exact Or.inr (Or.inl ⟨hp.2.1, hp.1, hp.2.2⟩)

theorem Inv.foldBlank {L : List Nat} {A : Nat → Option Atom} (es : List (Nat × Nat × Bond)) :
    ∀ (done : List (Nat × Nat × Bond)) (h : Graph), NxE.Inv L A h done →
      (∀ e ∈ done, e.2.2 = ({} : Bond)) →
      (∀ e ∈ es, e.1 ∈ L ∧ e.2.1 ∈ L ∧ e.1 ≠ e.2.1 ∧ e.2.2 = ({} : Bond)) →
      NxE.Inv L A (es.foldl (fun h (u, v, d) => h.addEdge u v d) h) (done ++ es) := by
  induction es with
  | nil => intro done h inv _ _; simpa using inv
  | cons e r ih =>
    intro done h inv hd hes
    obtain ⟨u, v, d⟩ := e
    obtain ⟨hu, hv, hne, hd0⟩ := hes _ List.mem_cons_self
    simp only at hu hv hne hd0
    subst hd0
    rw [List.foldl_cons, List.append_cons]
    refine ih _ _ (Inv.stepBlank inv hd hu hv hne) ?_ (fun e he => hes e (List.mem_cons_of_mem _ he))
    intro e he
    rcases List.mem_append.1 he with he | he
    · exact hd e he
    · rw [List.mem_singleton.1 he]

/-- `graph_from_molecule` on a bond dictionary whose records are all empty and which may list a bond in
both orientations -/
theorem graphFromMolecule_blank (atoms : List (Int × Atom)) (bonds : List ((Int × Int) × Bond))
    (hk : ConsecutiveKeys atoms)
    (hb1 : ∀ b ∈ bonds, 0 ≤ b.1.1 ∧ b.1.1 < atoms.length ∧ 0 ≤ b.1.2 ∧ b.1.2 < atoms.length ∧
      b.1.1 ≠ b.1.2 ∧ b.2 = ({} : Bond))
    (hz : ∀ a ∈ atoms, a.2.z.isSome) :
    ∃ g post, graphFromMolecule atoms bonds = .ok (g, post) ∧
      g.labels = List.range atoms.length ∧ g.WF ∧ g.Simple ∧
      (∀ i (hi : i < atoms.length), ∃ x, addInvariantCode (atoms[i]).2 = .ok x ∧ g.attrs? i = some x) ∧
      (∀ i j d, (j, d) ∈ g.nbrsD i ↔
        (((i : Int), (j : Int)), d) ∈ bonds ∨ (((j : Int), (i : Int)), d) ∈ bonds) := by
  have hmap := GFM.mapM_ok atoms hz
  have hkeys' : (atoms.map fun p => (p.1, GFM.inv' p.2)).map (·.1)
      = (List.range atoms.length).map (fun (i : Nat) => (i : Int)) := by
    rw [List.map_map]; exact hk
  have hmemks : ∀ k : Int, 0 ≤ k → k < atoms.length →
      k ∈ (List.range atoms.length).map (fun (i : Nat) => (i : Int)) := by
    intro k h0 h1
    exact List.mem_map.2 ⟨k.toNat, List.mem_range.2 (by omega), Int.toNat_of_nonneg h0⟩
  have hall := GFM.allKeys_eq bonds _ (fun b hb =>
    ⟨hmemks _ (hb1 b hb).1 (hb1 b hb).2.1, hmemks _ (hb1 b hb).2.2.1 (hb1 b hb).2.2.2.1⟩)
  have heq := GFM.graphFromMolecule_eq atoms _ bonds hmap
  rw [hkeys', hall] at heq
  have hidx : ∀ b ∈ bonds,
      GFM.idxOf ((List.range atoms.length).map (fun (i : Nat) => (i : Int))) b.1.1 = b.1.1.toNat ∧
      GFM.idxOf ((List.range atoms.length).map (fun (i : Nat) => (i : Int))) b.1.2 = b.1.2.toNat :=
    fun b hb => ⟨GFM.idxOf_range _ _ (hb1 b hb).1 (hb1 b hb).2.1,
      GFM.idxOf_range _ _ (hb1 b hb).2.2.1 (hb1 b hb).2.2.2.1⟩
  rw [GFM.core_eq _ _ _ hidx] at heq
  have hidxN : ∀ i : Nat, i < atoms.length →
      GFM.idxOf ((List.range atoms.length).map (fun (i : Nat) => (i : Int))) (i : Int) = i := by
    intro i hi
    rw [GFM.idxOf_range _ _ (by omega) (by omega)]
    exact Int.toNat_natCast i
  generalize hg0 : (⟨(atoms.map fun p => (p.1, GFM.inv' p.2)).map fun p =>
    ⟨GFM.idxOf ((List.range atoms.length).map (fun (i : Nat) => (i : Int))) p.1, p.2, []⟩⟩ : Graph)
    = g0 at heq
  have hl0 : g0.labels = List.range atoms.length := by
    have h1 : g0.labels = (atoms.map (·.1)).map
        (GFM.idxOf ((List.range atoms.length).map (fun (i : Nat) => (i : Int)))) := by
      subst hg0
      simp only [Graph.labels, List.map_map]
      rfl
    rw [h1, hk, List.map_map]
    conv => rhs; rw [← List.map_id (List.range atoms.length)]
    apply List.map_congr_left
    intro i hi
    exact hidxN i (List.mem_range.1 hi)
  have hnd0 : g0.labels.Nodup := hl0 ▸ List.nodup_range
  have hkey : ∀ i (hi : i < atoms.length), (atoms[i]).1 = (i : Int) := by
    intro i hi
    have := congrArg (fun l => l[i]?) hk
    simpa [hi] using this
  have ha0 : ∀ i (hi : i < atoms.length), g0.attrs? i = some (GFM.inv' (atoms[i]).2) := by
    intro i hi
    have hm : (⟨GFM.idxOf ((List.range atoms.length).map (fun (i : Nat) => (i : Int))) (atoms[i]).1,
        GFM.inv' (atoms[i]).2, []⟩ : Node) ∈ g0.nodes := by
      subst hg0
      simp only [List.map_map]
      exact List.mem_map.2 ⟨atoms[i], List.getElem_mem hi, rfl⟩
    have := NxRelabel.attrs?_of_mem hnd0 hm
    simp only [hkey i hi, hidxN i hi] at this
    exact this
  have hn0 : ∀ x, g0.nbrsD x = [] := by
    apply NxRelabel.nbrsD_eq_nil_of
    intro m hm
    subst hg0
    obtain ⟨p, -, rfl⟩ := List.mem_map.1 hm
    rfl
  have inv0 : NxE.Inv (List.range atoms.length) g0.attrs? g0 [] :=
    ⟨hl0, fun _ => rfl, fun a w d => by rw [hn0]; simp, fun a => by rw [hn0]; exact List.nodup_nil⟩
  have hes : ∀ e ∈ GFM.natEdges bonds,
      e.1 ∈ List.range atoms.length ∧ e.2.1 ∈ List.range atoms.length ∧ e.1 ≠ e.2.1 ∧
        e.2.2 = ({} : Bond) := by
    intro e he
    obtain ⟨b, hb, rfl⟩ := List.mem_map.1 he
    obtain ⟨h1, h2, h3, h4, h5, h6⟩ := hb1 b hb
    refine ⟨List.mem_range.2 ?_, List.mem_range.2 ?_, ?_, h6⟩ <;> simp only <;> omega
  have hblank : (GFM.natEdges bonds).map GFM.blank = GFM.natEdges bonds := by
    conv => rhs; rw [← List.map_id (GFM.natEdges bonds)]
    apply List.map_congr_left
    rintro ⟨u, v, d⟩ he
    have := (hes _ he).2.2.2
    simp only at this
    subst this
    rfl
  have hmemE : ∀ i j d, (i, j, d) ∈ GFM.natEdges bonds ↔ (((i : Int), (j : Int)), d) ∈ bonds := by
    intro i j d
    unfold GFM.natEdges
    rw [List.mem_map]
    constructor
    · rintro ⟨⟨⟨u, v⟩, d'⟩, hb, he⟩
      obtain ⟨h1, h2, h3, h4, h5, h6⟩ := hb1 _ hb
      simp only [Prod.mk.injEq] at he h1 h3
      obtain ⟨rfl, rfl, rfl⟩ := he
      rw [Int.toNat_of_nonneg h1, Int.toNat_of_nonneg h3]
      exact hb
    · intro hb
      exact ⟨_, hb, by simp⟩
  have inv1 := Inv.foldBlank (GFM.natEdges bonds) [] g0 inv0 (by simp) hes
  rw [List.nil_append] at inv1
  have inv2 := Inv.foldBlank (GFM.natEdges bonds) (GFM.natEdges bonds) _ inv1
    (fun e he => (hes e he).2.2.2) hes
  rw [hblank] at heq
  generalize (GFM.natEdges bonds).foldl (fun h (u, v, d) => h.addEdge u v d)
    ((GFM.natEdges bonds).foldl (fun h (u, v, d) => h.addEdge u v d) g0) = g2
    at heq inv2
  have hnb : ∀ a w d, (w, d) ∈ g2.nbrsD a ↔
      ((a, w, d) ∈ GFM.natEdges bonds ∨ (w, a, d) ∈ GFM.natEdges bonds) := by
    intro a w d
    rw [inv2.nbrs]
    simp only [List.mem_append, or_self]
  have hnd2 : g2.labels.Nodup := inv2.labels ▸ List.nodup_range
  have hw2 : g2.WF := by
    refine NxE.WF.of_obs hnd2 inv2.keys ?_
    intro a w d he
    have he' := (hnb a w d).1 he
    refine ⟨?_, (hnb w a d).2 he'.symm⟩
    rw [inv2.labels]
    rcases he' with h | h
    · exact (hes _ h).2.1
    · exact (hes _ h).1
  have hs2 : g2.Simple := by
    refine NxE.Simple.of_obs hnd2 ?_
    intro a w d he
    rcases (hnb a w d).1 he with h | h
    · exact fun hc => (hes _ h).2.2.1 hc.symm
    · exact (hes _ h).2.2.1
  obtain ⟨rl, hwg, hsg, hlg⟩ := Graph.relabelCopy_spec g2 [] hw2 hs2 (fun a _ b _ h => h)
  have hid : Graph.mapGet [] = id := rfl
  rw [hid] at rl
  rw [hid, List.map_id, inv2.labels] at hlg
  refine ⟨_, _, heq, hlg, hwg, hsg, ?_, ?_⟩
  · intro i hi
    refine ⟨GFM.inv' (atoms[i]).2, GFM.addInvariantCode_ok (hz _ (List.getElem_mem hi)), ?_⟩
    have := rl.attrs i (by rw [inv2.labels]; exact List.mem_range.2 hi)
    rw [id] at this
    rw [this, inv2.attrs, ha0 i hi]
  · intro i j d
    rw [← hmemE, ← hmemE, ← hnb]
    by_cases hi : i ∈ g2.labels
    · have hp := rl.nbrs i hi
      have : (fun (e : Nat × Bond) => (id e.1, e.2)) = id := rfl
      rw [this, List.map_id, id] at hp
      exact hp.mem_iff
    · have h1 : (g2.relabelCopy []).nbrsD i = [] :=
        NxRelabel.nbrsD_of_not_mem (by rw [hlg, ← inv2.labels]; exact hi)
      rw [h1, NxRelabel.nbrsD_of_not_mem hi]

/-! ### the atom dictionary as a function of the index -/

/-- the dictionary `{0: F 0, 1: F 1, …}` -/
def mk (n : Nat) (F : Nat → Atom) : List (Int × Atom) :=
  (List.range n).map fun (i : Nat) => ((i : Int), F i)

theorem alookup_range' (F : Nat → Atom) : ∀ (n s k : Nat), s ≤ k → k < s + n →
    alookup (k : Int) ((List.range' s n).map fun (i : Nat) => ((i : Int), F i)) = some (F k)
  | 0, s, k, h1, h2 => by omega
  | n + 1, s, k, h1, h2 => by
    rw [List.range'_succ, List.map_cons, alookup]
    by_cases hk : s = k
    · subst hk; simp
    · have : ((s : Int) == (k : Int)) = false := by
        simp only [beq_eq_false_iff_ne, ne_eq]; omega
      rw [this]
      exact alookup_range' F n (s + 1) k (by omega) (by omega)

theorem ainsert_range' (F : Nat → Atom) (v : Atom) : ∀ (n s k : Nat), s ≤ k → k < s + n →
    ainsert (k : Int) v ((List.range' s n).map fun (i : Nat) => ((i : Int), F i)) =
      (List.range' s n).map fun (i : Nat) => ((i : Int), if i = k then v else F i)
  | 0, s, k, h1, h2 => by omega
  | n + 1, s, k, h1, h2 => by
    rw [List.range'_succ, List.map_cons, List.map_cons, ainsert]
    by_cases hk : s = k
    · subst hk
      simp only [beq_self_eq_true, if_true]
      congr 1
      apply List.map_congr_left
      intro i hi
      have := (List.mem_range'_1.1 hi).1
      have hne : ¬ i = s := by omega
      simp [hne]
    · have : ((s : Int) == (k : Int)) = false := by
        simp only [beq_eq_false_iff_ne, ne_eq]; omega
      rw [this]
      simp only [Bool.false_eq_true, if_false, hk]
      congr 1
      exact ainsert_range' F v n (s + 1) k (by omega) (by omega)

theorem alookup_mk (n : Nat) (F : Nat → Atom) (k : Nat) (hk : k < n) :
    alookup (k : Int) (mk n F) = some (F k) := by
  unfold mk
  rw [List.range_eq_range']
  exact alookup_range' F n 0 k (Nat.zero_le _) (by omega)

theorem ainsert_mk (n : Nat) (F : Nat → Atom) (v : Atom) (k : Nat) (hk : k < n) :
    ainsert (k : Int) v (mk n F) = mk n (fun i => if i = k then v else F i) := by
  unfold mk
  rw [List.range_eq_range']
  exact ainsert_range' F v n 0 k (Nat.zero_le _) (by omega)

theorem mk_congr {n : Nat} {F G : Nat → Atom} (h : ∀ i, i < n → F i = G i) : mk n F = mk n G := by
  unfold mk
  apply List.map_congr_left
  intro i hi
  rw [h i (List.mem_range.1 hi)]

theorem mk_length (n : Nat) (F : Nat → Atom) : (mk n F).length = n := by simp [mk]

theorem mk_consecutive (n : Nat) (F : Nat → Atom) : ConsecutiveKeys (mk n F) := by
  unfold ConsecutiveKeys
  rw [mk_length]
  unfold mk
  rw [List.map_map]
  rfl

theorem mk_getElem (n : Nat) (F : Nat → Atom) (i : Nat) (hi : i < (mk n F).length) :
    (mk n F)[i] = ((i : Int), F i) := by
  simp [mk]

theorem zipIdx_eq_mk (l : List Atom) :
    (l.zipIdx.map fun (a, i) => ((i : Int), a)) = mk l.length (fun i => l[i]?.getD {}) := by
  apply List.ext_getElem
  · simp [mk]
  · intro i h1 h2
    simp only [List.length_map, List.length_zipIdx] at h1
    simp [mk, h1]

theorem Atom.update_empty (a : Atom) : a.update {} = a := by
  cases a
  simp [Atom.update]

theorem alookup_none_of_not_mem {κ ν} [BEq κ] [LawfulBEq κ] {k : κ} :
    ∀ {l : List (κ × ν)}, k ∉ l.map (·.1) → alookup k l = none
  | [], _ => rfl
  | (k', v') :: r, h => by
    simp only [List.map_cons, List.mem_cons, not_or] at h
    have : (k' == k) = false := by simpa using fun he => h.1 he.symm
    simp only [alookup, this]
    exact alookup_none_of_not_mem h.2

/-- one round of the attribute loop of `to_graph` -/
def stepAttr (d : List (Int × Atom)) (e : Int × Atom) : List (Int × Atom) :=
  match alookup e.1 d with
  | none => d
  | some a => ainsert e.1 (a.update e.2) d

theorem foldl_stepAttr (n : Nat) : ∀ (na : List (Int × Atom)) (F : Nat → Atom),
    (∀ e ∈ na, 0 ≤ e.1 ∧ e.1 < n) → (na.map (·.1)).Nodup →
    na.foldl stepAttr (mk n F) = mk n (fun i => (F i).update ((alookup (i : Int) na).getD {}))
  | [], F, _, _ => by
    rw [List.foldl_nil]
    apply mk_congr
    intro i _
    simp only [alookup, Option.getD_none]
    exact (Atom.update_empty _).symm
  | (idx, extra) :: r, F, hr, hnd => by
    obtain ⟨h0, h1⟩ := hr _ List.mem_cons_self
    simp only at h0 h1
    rw [List.map_cons, List.nodup_cons] at hnd
    obtain ⟨k, rfl⟩ : ∃ k : Nat, idx = (k : Int) := ⟨idx.toNat, (Int.toNat_of_nonneg h0).symm⟩
    have hk : k < n := by omega
    rw [List.foldl_cons]
    have hs : stepAttr (mk n F) ((k : Int), extra)
        = mk n (fun i => if i = k then (F k).update extra else F i) := by
      unfold stepAttr
      simp only [alookup_mk n F k hk]
      exact ainsert_mk n F _ k hk
    rw [hs, foldl_stepAttr n r _ (fun e he => hr e (List.mem_cons_of_mem _ he)) hnd.2]
    apply mk_congr
    intro i _
    by_cases hik : i = k
    · subst hik
      simp only [if_true, alookup, beq_self_eq_true, Option.getD_some]
      rw [alookup_none_of_not_mem hnd.1]
      exact Atom.update_empty _
    · have : (((k : Int)) == (i : Int)) = false := by
        simp only [beq_eq_false_iff_ne, ne_eq]; omega
      simp only [hik, if_false, alookup, this, Bool.false_eq_true]

/-! ### the bond dictionary -/

theorem mem_ainsert_const {κ ν} [BEq κ] [LawfulBEq κ] (k : κ) (v : ν) : ∀ (l : List (κ × ν)),
    (∀ e ∈ l, e.2 = v) → ∀ p, p ∈ ainsert k v l ↔ p ∈ l ∨ p = (k, v)
  | [], _, p => by simp [ainsert]
  | (k', v') :: r, h, p => by
    simp only [ainsert]
    split
    · rename_i hk
      have hk' : k' = k := eq_of_beq hk
      have hv : v' = v := h (k', v') List.mem_cons_self
      subst hk' hv
      simp only [List.mem_cons]
      constructor
      · exact Or.inl
      · rintro (h' | h')
        · exact h'
        · exact Or.inl h'
    · have ih := mem_ainsert_const k v r (fun e he => h e (List.mem_cons_of_mem _ he)) p
      simp only [List.mem_cons, ih, or_assoc]

theorem mem_bondsDict : ∀ (bs : List (Int × Int)) (acc : List ((Int × Int) × Bond)),
    (∀ e ∈ acc, e.2 = ({} : Bond)) → ∀ p,
    p ∈ bs.foldl (fun d b => ainsert b ({} : Bond) d) acc ↔ p ∈ acc ∨ (p.2 = ({} : Bond) ∧ p.1 ∈ bs)
  | [], acc, _, p => by simp
  | b :: r, acc, h, p => by
    rw [List.foldl_cons]
    have h' : ∀ e ∈ ainsert b ({} : Bond) acc, e.2 = ({} : Bond) := by
      intro e he
      rcases (mem_ainsert_const b ({} : Bond) acc h e).1 he with he | he
      · exact h e he
      · rw [he]
    rw [mem_bondsDict r _ h' p, mem_ainsert_const b ({} : Bond) acc h p]
    obtain ⟨p1, p2⟩ := p
    simp only [List.mem_cons, Prod.mk.injEq]
    constructor
    · rintro ((h1 | h1) | h1)
      · exact Or.inl h1
      · exact Or.inr ⟨h1.2, Or.inl h1.1⟩
      · exact Or.inr ⟨h1.1, Or.inr h1.2⟩
    · rintro (h1 | ⟨h1, h2 | h2⟩)
      · exact Or.inl (Or.inl h1)
      · exact Or.inl (Or.inr ⟨h2, h1⟩)
      · exact Or.inr ⟨h1, h2⟩

/-! ### running `do` blocks that succeed -/

/-- the computation succeeds with a value satisfying `P` -/
def IsOk {α} (P : α → Prop) (x : PyM α) : Prop := ∃ a, x = .ok a ∧ P a

theorem IsOk.bind {α β} {P : α → Prop} {Q : β → Prop} {x : PyM α} {f : α → PyM β}
    (hx : IsOk P x) (hf : ∀ a, P a → IsOk Q (f a)) : IsOk Q (x >>= f) := by
  obtain ⟨a, rfl, ha⟩ := hx
  exact hf a ha

theorem IsOk.forIn {α β} {P : β → Prop} {Q : α → Prop} (f : α → β → PyM (ForInStep β))
    (step : β → α → β)
    (hf : ∀ a, Q a → ∀ b, P b → f a b = .ok (.yield (step b a)) ∧ P (step b a)) :
    ∀ (l : List α), (∀ a ∈ l, Q a) → ∀ b, P b →
      IsOk (fun r => r = l.foldl step b) (forIn l b f) := by
  intro l
  induction l with
  | nil => intro _ b _; exact ⟨b, rfl, rfl⟩
  | cons a l ih =>
    intro hl b hb
    obtain ⟨h1, h2⟩ := hf a (hl a List.mem_cons_self) b hb
    rw [List.forIn_cons, h1]
    exact ih (fun x hx => hl x (List.mem_cons_of_mem _ hx)) _ h2

/-! ### the atoms the parser builds -/

theorem onlyMassRad_extraOf {st : ListenerState} (h : GoodState st) (k : Int) :
    OnlyMassRad (extraOf st k) := by
  unfold extraOf
  cases hl : alookup k st.nodeAttrs with
  | none => exact ⟨rfl, rfl, rfl, rfl, rfl, rfl, rfl, rfl, rfl, rfl⟩
  | some e => exact (h.attrsIdx _ (RejectKind.alookup_mem hl)).2.2

theorem sorted_length (l : List Atom) : (sortAtomsByZ l).length = l.length := by
  simp [sortAtomsByZ, List.length_mergeSort]

theorem atomAt_z {st : ListenerState} (h : GoodState st) (i : Nat) (hi : i < st.atoms.length) :
    (atomAt st i).z.isSome := by
  unfold atomAt
  rw [RejectKind.update_z (onlyMassRad_extraOf h _).2.1]
  have hi' : i < (sortAtomsByZ st.atoms).length := by rw [sorted_length]; exact hi
  rw [List.getElem?_eq_getElem hi', Option.getD_some]
  exact h.atomsZ _ (List.mem_mergeSort.1 (List.getElem_mem hi'))

/-! ### an injective self-map of `{0, …, n-1}` is a bijection -/

theorem subset_of_nodup_length {α} [DecidableEq α] : ∀ (l₁ l₂ : List α), l₁.Nodup → l₁ ⊆ l₂ →
    l₂.length ≤ l₁.length → l₂ ⊆ l₁
  | [], l₂, _, _, hl => by
    have : l₂ = [] := List.eq_nil_of_length_eq_zero (by simpa using hl)
    subst this; exact fun _ h => h
  | a :: t, l₂, hn, hsub, hl => by
    have ha : a ∈ l₂ := hsub List.mem_cons_self
    obtain ⟨hat, hnt⟩ := List.nodup_cons.mp hn
    have hsub' : t ⊆ l₂.erase a := by
      intro x hx
      have hxa : x ≠ a := fun e => hat (e ▸ hx)
      exact (List.mem_erase_of_ne hxa).mpr (hsub (List.mem_cons_of_mem _ hx))
    have hle := List.length_erase_of_mem ha
    have hpos : 0 < l₂.length := List.length_pos_of_mem ha
    simp only [List.length_cons] at hl
    have ih := subset_of_nodup_length t (l₂.erase a) hnt hsub' (by omega)
    intro x hx
    by_cases hxa : x = a
    · subst hxa; exact List.mem_cons_self
    · exact List.mem_cons_of_mem _ (ih ((List.mem_erase_of_ne hxa).mpr hx))

theorem perm_range_map (n : Nat) (π : Nat → Nat) (hπ : ∀ i, i < n → π i < n)
    (hinj : ∀ i j, i < n → j < n → π i = π j → i = j) :
    (List.range n).Perm ((List.range n).map π) := by
  have hnd : ((List.range n).map π).Nodup :=
    NxRelabel.nodup_map_of_injOn π List.nodup_range
      (fun a ha b hb => hinj a b (List.mem_range.1 ha) (List.mem_range.1 hb))
  have hsub : (List.range n).map π ⊆ List.range n := by
    intro x hx
    obtain ⟨i, hi, rfl⟩ := List.mem_map.1 hx
    exact List.mem_range.2 (hπ i (List.mem_range.1 hi))
  have hsup := subset_of_nodup_length _ _ hnd hsub (by simp)
  exact (List.perm_ext_iff_of_nodup List.nodup_range hnd).2 (fun a => ⟨fun h => hsup h, fun h => hsub h⟩)

theorem onlyMassRad_ext {e e' : Atom} (h : OnlyMassRad e) (h' : OnlyMassRad e')
    (hm : e.mass = e'.mass) (hr : e.rad = e'.rad) : e = e' := by
  obtain ⟨a1, a2, a3, a4, a5, a6, a7, a8, a9, a10⟩ := h
  obtain ⟨b1, b2, b3, b4, b5, b6, b7, b8, b9, b10⟩ := h'
  cases e; cases e'
  simp only at a1 a2 a3 a4 a5 a6 a7 a8 a9 a10 b1 b2 b3 b4 b5 b6 b7 b8 b9 b10 hm hr
  subst a1 a2 a3 a4 a5 a6 a7 a8 a9 a10 b1 b2 b3 b4 b5 b6 b7 b8 b9 b10 hm hr
  rfl

end PDen

/-- **The denotation of an accepted string.** -/
theorem toGraph_spec (st : ListenerState) (h : GoodState st) :
    ∃ g, toGraph st = .ok g ∧ g.labels = List.range st.atoms.length ∧ g.WF ∧ g.Simple ∧
      (∀ i, i < st.atoms.length → ∃ x, addInvariantCode (atomAt st i) = .ok x ∧ g.attrs? i = some x) ∧
      (∀ i j : Nat, g.Adj i j ↔ ((i : Int), (j : Int)) ∈ st.bonds ∨ ((j : Int), (i : Int)) ∈ st.bonds) := by
  show PDen.IsOk _ (toGraph st)
  unfold toGraph
  refine PDen.IsOk.bind (P := fun _ => True) ?_ (fun _ _ => ?_)
  · refine (PDen.IsOk.forIn (P := fun _ => True)
      (Q := fun (b : Int × Int) => b.1 < st.atoms.length ∧ b.2 < st.atoms.length) _
      (fun b _ => b) ?_ _ ?_ _ trivial).imp (fun _ h => ⟨h.1, trivial⟩)
    · rintro ⟨i1, i2⟩ ⟨h1, h2⟩ b _
      simp only at h1 h2 ⊢
      rw [if_neg (by omega), if_neg (by omega)]
      exact ⟨rfl, trivial⟩
    · intro b hb
      obtain ⟨_, h2, _, h4, _⟩ := h.bonds b hb
      exact ⟨h2, h4⟩
  simp only [PDen.zipIdx_eq_mk]
  have hlen : (sortAtomsByZ st.atoms).length = st.atoms.length := by
    simp [sortAtomsByZ, List.length_mergeSort]
  rw [hlen]
  refine PDen.IsOk.bind (PDen.IsOk.forIn (P := fun d => ∃ F, d = PDen.mk st.atoms.length F)
      (Q := fun (e : Int × Atom) => 0 ≤ e.1 ∧ e.1 < st.atoms.length) _
      PDen.stepAttr ?_ _ ?_ _ ⟨_, rfl⟩) (fun d hd => ?_)
  · rintro ⟨idx, extra⟩ ⟨h0, h1⟩ d ⟨F, rfl⟩
    simp only at h0 h1 ⊢
    obtain ⟨k, rfl⟩ : ∃ k : Nat, idx = (k : Int) := ⟨idx.toNat, (Int.toNat_of_nonneg h0).symm⟩
    have hk : k < st.atoms.length := by omega
    rw [if_neg (by omega)]
    unfold PDen.stepAttr
    simp only [PDen.alookup_mk _ F k hk]
    exact ⟨rfl, _, PDen.ainsert_mk _ F _ k hk⟩
  · intro e he
    exact ⟨(h.attrsIdx e he).1, (h.attrsIdx e he).2.1⟩
  rw [PDen.foldl_stepAttr _ _ _ (fun e he => ⟨(h.attrsIdx e he).1, (h.attrsIdx e he).2.1⟩)
    h.attrsKeys] at hd
  have hd' : d = PDen.mk st.atoms.length (atomAt st) := hd
  clear hd
  subst hd'
  have hb0 : ∀ e ∈ ([] : List ((Int × Int) × Bond)), e.2 = ({} : Bond) := by simp
  obtain ⟨g, post, hgm, hl, hw, hs, hat, hnb⟩ := PDen.graphFromMolecule_blank
    (PDen.mk st.atoms.length (atomAt st))
    (List.foldl (fun d b => ainsert b ({} : Bond) d) [] st.bonds)
    (PDen.mk_consecutive _ _)
    (by
      intro b hb
      rw [PDen.mk_length]
      rcases (PDen.mem_bondsDict st.bonds [] hb0 b).1 hb with hb | hb
      · cases hb
      · obtain ⟨h1, h2, h3, h4, h5⟩ := h.bonds _ hb.2
        exact ⟨h1, h2, h3, h4, h5, hb.1⟩)
    (by
      intro a ha
      obtain ⟨i, hi, rfl⟩ := List.getElem_of_mem ha
      rw [PDen.mk_getElem]
      rw [PDen.mk_length] at hi
      exact PDen.atomAt_z h i hi)
  rw [PDen.mk_length] at hl
  refine ⟨g, by rw [hgm]; rfl, hl, hw, hs, ?_, ?_⟩
  · intro i hi
    obtain ⟨x, hx1, hx2⟩ := hat i (by rw [PDen.mk_length]; exact hi)
    rw [PDen.mk_getElem] at hx1
    exact ⟨x, hx1, hx2⟩
  · intro i j
    rw [NxE.adj_iff]
    constructor
    · rintro ⟨d, hd⟩
      rcases (hnb i j d).1 hd with hm | hm
      · rcases (PDen.mem_bondsDict st.bonds [] hb0 _).1 hm with hm | hm
        · cases hm
        · exact Or.inl hm.2
      · rcases (PDen.mem_bondsDict st.bonds [] hb0 _).1 hm with hm | hm
        · cases hm
        · exact Or.inr hm.2
    · rintro (hm | hm)
      · exact ⟨{}, (hnb i j {}).2 (Or.inl ((PDen.mem_bondsDict st.bonds [] hb0 _).2 (Or.inr ⟨rfl, hm⟩)))⟩
      · exact ⟨{}, (hnb i j {}).2 (Or.inr ((PDen.mem_bondsDict st.bonds [] hb0 _).2 (Or.inr ⟨rfl, hm⟩)))⟩

/-- **Respelling.**  Two listener states over the same formula whose bonds and attributes correspond
under a renumbering `π` of the atom indices that only moves atoms inside element blocks (it preserves the
atom found at each index) yield graphs that are the same molecule: `Iso SameIdent π`.  This covers
reordering tuples, swapping a tuple's endpoints, repeating a tuple, reordering or splitting attribute
blocks (all with `π = id`) and renumbering atoms within an element block. -/
theorem toGraph_respell (st st' : ListenerState) (h : GoodState st) (h' : GoodState st')
    (π : Nat → Nat)
    (hlen : st'.atoms.length = st.atoms.length)
    (hπ : ∀ i, i < st.atoms.length → π i < st.atoms.length)
    (hinj : ∀ i j, i < st.atoms.length → j < st.atoms.length → π i = π j → i = j)
    (hatoms : ∀ i, i < st.atoms.length → (sortAtomsByZ st'.atoms)[π i]? = (sortAtomsByZ st.atoms)[i]?)
    (hextra : ∀ i, i < st.atoms.length →
      (extraOf st' (π i)).mass = (extraOf st i).mass ∧ (extraOf st' (π i)).rad = (extraOf st i).rad)
    (hbonds : ∀ i j, i < st.atoms.length → j < st.atoms.length →
      ((((i : Int), (j : Int)) ∈ st.bonds ∨ ((j : Int), (i : Int)) ∈ st.bonds) ↔
       (((π i : Int), (π j : Int)) ∈ st'.bonds ∨ ((π j : Int), (π i : Int)) ∈ st'.bonds)))
    (g g' : Graph) (hg : toGraph st = .ok g) (hg' : toGraph st' = .ok g') :
    Iso SameIdent π g g' := by
  obtain ⟨g0, e0, hl, hw, hs, hat, hadj⟩ := toGraph_spec st h
  obtain ⟨g0', e0', hl', hw', hs', hat', hadj'⟩ := toGraph_spec st' h'
  rw [hg] at e0; cases e0
  rw [hg'] at e0'; cases e0'
  rw [hlen] at hl' hat'
  have hperm := PDen.perm_range_map st.atoms.length π hπ hinj
  -- neighbours are atoms
  have hcl : ∀ a b, g.Adj a b → b < st.atoms.length := by
    intro a b hab
    obtain ⟨d, hd⟩ := (NxE.adj_iff g a b).1 hab
    have := NxE.WF.closedD hw hd
    rw [hl] at this
    exact List.mem_range.1 this
  have hcl' : ∀ a b, g'.Adj a b → b < st.atoms.length := by
    intro a b hab
    obtain ⟨d, hd⟩ := (NxE.adj_iff g' a b).1 hab
    have := NxE.WF.closedD hw' hd
    rw [hl'] at this
    exact List.mem_range.1 this
  refine ⟨?_, ?_, ?_, ?_⟩
  · rw [hl, hl']; exact hperm
  · intro a ha b hb
    rw [hl] at ha hb
    exact hinj a b (List.mem_range.1 ha) (List.mem_range.1 hb)
  · intro a ha
    rw [hl] at ha
    have ha := List.mem_range.1 ha
    obtain ⟨x, hx1, hx2⟩ := hat a ha
    obtain ⟨y, hy1, hy2⟩ := hat' (π a) (hπ a ha)
    have hex : extraOf st' (π a) = extraOf st a :=
      PDen.onlyMassRad_ext (PDen.onlyMassRad_extraOf h' _) (PDen.onlyMassRad_extraOf h _)
        (hextra a ha).1 (hextra a ha).2
    have heq : atomAt st' (π a) = atomAt st a := by
      unfold atomAt
      rw [hatoms a ha, hex]
    rw [heq, hx1] at hy1
    cases hy1
    exact ⟨x, x, hx2, hy2, rfl, rfl, rfl, rfl, rfl⟩
  · intro a ha
    rw [hl] at ha
    have ha := List.mem_range.1 ha
    have hnd : (g.nbrs a).Nodup := by rw [NxE.nbrs_eq_map]; exact NxE.WF.nodupD hw a
    have hnd' : (g'.nbrs (π a)).Nodup := by rw [NxE.nbrs_eq_map]; exact NxE.WF.nodupD hw' _
    have hndm : ((g.nbrs a).map π).Nodup :=
      NxRelabel.nodup_map_of_injOn π hnd (fun x hx y hy => hinj x y (hcl a x hx) (hcl a y hy))
    refine (List.perm_ext_iff_of_nodup hnd' hndm).2 ?_
    intro y
    constructor
    · intro hy
      have hyn := hcl' _ _ hy
      obtain ⟨j, hj, rfl⟩ := List.mem_map.1 (hperm.mem_iff.1 (List.mem_range.2 hyn))
      have hj := List.mem_range.1 hj
      refine List.mem_map.2 ⟨j, ?_, rfl⟩
      exact (hadj a j).2 ((hbonds a j ha hj).2 ((hadj' (π a) (π j)).1 hy))
    · intro hy
      obtain ⟨j, hj, rfl⟩ := List.mem_map.1 hy
      exact (hadj' (π a) (π j)).2 ((hbonds a j ha (hcl a j hj)).1 ((hadj a j).1 hj))

end Tucan
