import TucanProofs.Lemmas.GraphFromMolecule
import TucanProofs.Lemmas.RejectKind
import TucanProofs.Lemmas.IsoCompose
/-!
# What `to_graph` returns: the denotation of a parsed TUCAN string

`toGraph` is the model of `TucanListenerImpl.to_graph`.  For every listener state that can arise from an
accepted string — atoms from the formula (each with an atomic number), bonds between different existing
atoms (any order, any orientation, repeats allowed), attribute records that only set mass / radical on
existing atoms — the returned graph has exactly the atoms of the formula numbered by increasing atomic
number (a stable sort of the formula's expansion), exactly the listed bonds as a *set*, and exactly the
listed attributes on the indexed atoms.  Consequently two spellings that denote the same molecule up to a
renumbering inside element blocks give graphs that are `Iso SameIdent`.
-/
namespace Tucan

/-- the attribute record the listener collected for atom index `k` (`{}` if none) -/
def extraOf (st : ListenerState) (k : Int) : Atom := (alookup k st.nodeAttrs).getD {}

/-- a record that sets nothing but (possibly) mass and radical -/
def OnlyMassRad (x : Atom) : Prop :=
  x.sym = none ∧ x.z = none ∧ x.part = none ∧ x.chg = none ∧ x.x = none ∧ x.y = none ∧ x.zc = none ∧
  x.inv = none ∧ x.explored = none ∧ x.extra = none

/-- listener states that arise from accepted strings -/
structure GoodState (st : ListenerState) : Prop where
  atomsZ : ∀ a ∈ st.atoms, a.z.isSome
  bonds : ∀ b ∈ st.bonds, 0 ≤ b.1 ∧ b.1 < st.atoms.length ∧ 0 ≤ b.2 ∧ b.2 < st.atoms.length ∧ b.1 ≠ b.2
  attrsIdx : ∀ e ∈ st.nodeAttrs, 0 ≤ e.1 ∧ e.1 < st.atoms.length ∧ OnlyMassRad e.2
  attrsKeys : (st.nodeAttrs.map (·.1)).Nodup

/-- the atom the parser puts at index `i`: the `i`-th atom of the formula's expansion stably sorted by
atomic number, with the collected attributes joined in -/
def atomAt (st : ListenerState) (i : Nat) : Atom :=
  ((sortAtomsByZ st.atoms)[i]?.getD {}).update (extraOf st i)

/-- **The denotation of an accepted string.** -/
theorem toGraph_spec (st : ListenerState) (h : GoodState st) :
    ∃ g, toGraph st = .ok g ∧ g.labels = List.range st.atoms.length ∧ g.WF ∧ g.Simple ∧
      (∀ i, i < st.atoms.length → ∃ x, addInvariantCode (atomAt st i) = .ok x ∧ g.attrs? i = some x) ∧
      (∀ i j : Nat, g.Adj i j ↔ ((i : Int), (j : Int)) ∈ st.bonds ∨ ((j : Int), (i : Int)) ∈ st.bonds) := by
  sorry

/-- **Respelling.**  Two listener states over the same formula whose bonds and attributes correspond
under a renumbering `π` of the atom indices that only moves atoms inside element blocks (it preserves the
atom found at each index) yield graphs that are the same molecule: `Iso SameIdent π`.  This covers
reordering tuples, swapping a tuple's endpoints, repeating a tuple, reordering or splitting attribute
blocks (all with `π = id`) and renumbering atoms within an element block. -/
theorem toGraph_respell (st st' : ListenerState) (h : GoodState st) (h' : GoodState st')
    (π : Nat → Nat)
    (hlen : st'.atoms.length = st.atoms.length)
    (hπ : ∀ i, i < st.atoms.length → π i < st.atoms.length)
    (hinj : ∀ i j, i < st.atoms.length → j < st.atoms.length → π i = π j → i = j)
    (hatoms : ∀ i, i < st.atoms.length → (sortAtomsByZ st'.atoms)[π i]? = (sortAtomsByZ st.atoms)[i]?)
    (hextra : ∀ i, i < st.atoms.length →
      (extraOf st' (π i)).mass = (extraOf st i).mass ∧ (extraOf st' (π i)).rad = (extraOf st i).rad)
    (hbonds : ∀ i j, i < st.atoms.length → j < st.atoms.length →
      ((((i : Int), (j : Int)) ∈ st.bonds ∨ ((j : Int), (i : Int)) ∈ st.bonds) ↔
       (((π i : Int), (π j : Int)) ∈ st'.bonds ∨ ((π j : Int), (π i : Int)) ∈ st'.bonds)))
    (g g' : Graph) (hg : toGraph st = .ok g) (hg' : toGraph st' = .ok g') :
    Iso SameIdent π g g' := by
  sorry

end Tucan
