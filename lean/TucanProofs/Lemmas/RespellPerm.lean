import TucanProofs.Lemmas.RespellAst
import TucanProofs.Lemmas.AstDenotation
import TucanProofs.Lemmas.MoreExamples
/-!
# Respelling with atoms renumbered inside an element block, at the level of strings

`RespellAst.lean` covers respellings that keep every index (`SameMeaning`).  Here the second tree may number the
atoms differently, as long as the renumbering `π` (0-based positions) keeps every atom inside its element block:
position `π i` of the second string holds the same element as position `i` of the first.  Bonds and attribute
settings are carried along by `π`.  The two strings parse to the same molecule (`Iso SameIdent π`) and hence
normalize to the same canonical string.
-/
namespace Tucan

/-- the element symbols of the atoms the tree denotes, in the order the parser numbers them: the formula's
expansion arranged by non-decreasing atomic number (stable) -/
def Ast.sortedSymbols (ast : Ast) : List Str :=
  ast.expansion.mergeSort fun a b => decide ((elementZ a).getD 0 ≤ (elementZ b).getD 0)

/-- the second tree says what the first says, with atom position `i` renumbered `π i` (0-based positions; the
indices written in the strings are positions + 1) -/
structure SameMeaningUpTo (π : Nat → Nat) (a b : Ast) : Prop where
  formula : a.formula = b.formula
  range : ∀ i, i < a.atomCount → π i < a.atomCount
  inj : ∀ i j, i < a.atomCount → j < a.atomCount → π i = π j → i = j
  /-- `π` moves atoms only inside element blocks -/
  block : ∀ i, i < a.atomCount → a.sortedSymbols[π i]? = a.sortedSymbols[i]?
  bonds : ∀ i j, i < a.atomCount → j < a.atomCount →
    ((∃ p ∈ a.tuples, (litVal p.1 = i + 1 ∧ litVal p.2 = j + 1) ∨ (litVal p.1 = j + 1 ∧ litVal p.2 = i + 1)) ↔
     (∃ p ∈ b.tuples, (litVal p.1 = π i + 1 ∧ litVal p.2 = π j + 1) ∨
        (litVal p.1 = π j + 1 ∧ litVal p.2 = π i + 1)))
  settings : ∀ i, i < a.atomCount → ∀ (k : Str) (v : Nat),
    (i + 1, k, v) ∈ a.valuedSettings ↔ (π i + 1, k, v) ∈ b.valuedSettings

namespace RPerm
open Tucan.Acc AstDen Respell RejectKind

/-- the symbols of the sorted atom list are the tree's sorted symbols -/
theorem map_sorted (ast : Ast) (hf : FormulaOk ast.formula) :
    (sortAtomsByZ (ast.formula.flatMap expand)).map symOf = ast.sortedSymbols := by
  unfold sortAtomsByZ Ast.sortedSymbols Ast.expansion
  rw [← map_symOf_flatMap _ hf]
  apply List.map_mergeSort
  intro a ha b hb
  obtain ⟨sa, za, hza, rfl⟩ := fat_of_mem ha
  obtain ⟨sb, zb, hzb, rfl⟩ := fat_of_mem hb
  simp only [symOf, Option.getD_some, hza, hzb, Int.ofNat_le]

/-- a formula atom is determined by its symbol -/
theorem fat_ext {a b : Atom} (ha : FAt a) (hb : FAt b) (h : symOf a = symOf b) : a = b := by
  obtain ⟨sa, za, hza, rfl⟩ := ha
  obtain ⟨sb, zb, hzb, rfl⟩ := hb
  have e : sa = sb := h
  subst e
  rw [hza] at hzb
  cases hzb
  rfl

/-- `Respell.field_eq` with two different indices -/
theorem field_eq' {r r' : List (Int × Atom)} {Q Q' : List (Nat × Str × Nat)} (v : VInv r Q) (v' : VInv r' Q')
    (n n' : Nat) (hQ : ∀ (k : Str) (w : Nat), (n, k, w) ∈ Q ↔ (n', k, w) ∈ Q') (k : Str) (hk : KeyText k) :
    fieldOf k (recOf r n) = fieldOf k (recOf r' n') := by
  apply Option.ext
  intro a
  rw [v n k hk a, v' n' k hk a]
  constructor
  · rintro ⟨w, hw, hq⟩; exact ⟨w, hw, (hQ _ _).1 hq⟩
  · rintro ⟨w, hw, hq⟩; exact ⟨w, hw, (hQ _ _).2 hq⟩

/-- equal symbols at two positions of the sorted atom list mean equal atoms there -/
theorem sorted_getElem?_eq (ast : Ast) (hf : FormulaOk ast.formula) (i j : Nat) (hi : i < ast.atomCount)
    (hj : j < ast.atomCount) (h : ast.sortedSymbols[j]? = ast.sortedSymbols[i]?) :
    (sortAtomsByZ (ast.formula.flatMap expand))[j]? = (sortAtomsByZ (ast.formula.flatMap expand))[i]? := by
  have hlen : (sortAtomsByZ (ast.formula.flatMap expand)).length = ast.atomCount := by
    rw [PDen.sorted_length, flatMap_expand_length _ hf, atomCount_eq]
  have hi' : i < (sortAtomsByZ (ast.formula.flatMap expand)).length := by rw [hlen]; exact hi
  have hj' : j < (sortAtomsByZ (ast.formula.flatMap expand)).length := by rw [hlen]; exact hj
  rw [← map_sorted ast hf, List.getElem?_map, List.getElem?_map, List.getElem?_eq_getElem hi',
    List.getElem?_eq_getElem hj'] at h
  rw [List.getElem?_eq_getElem hi', List.getElem?_eq_getElem hj']
  have hfat : ∀ a ∈ sortAtomsByZ (ast.formula.flatMap expand), FAt a := fun a ha =>
    fat_of_mem ((sorted_perm _).mem_iff.1 ha)
  exact congrArg some (fat_ext (hfat _ (List.getElem_mem hj')) (hfat _ (List.getElem_mem hi'))
    (Option.some.inj h))

end RPerm

/-- the two parsed graphs are the same molecule, atom `i` ↦ atom `π i` -/
theorem respelling_iso_perm (π : Nat → Nat) (s s' : Str) (toks toks' : List Tok) (ast ast' : Ast)
    (hl : lex s = some toks) (hsen : Sentence toks ast) (hl' : lex s' = some toks') (hsen' : Sentence toks' ast')
    (same : SameMeaningUpTo π ast ast') (g g' : Graph)
    (hg : graphFromTucan s = .ok g) (hg' : graphFromTucan s' = .ok g') :
    Iso SameIdent π g g' ∧ g.Chem ∧ g.WF ∧ g.Simple ∧ g'.WF ∧ g'.Simple := by
  obtain ⟨st, h1, h2, h3, h4, hgood, o2, o3⟩ := Respell.state_of s toks ast hl hsen g hg
  obtain ⟨st', h1', h2', h3', h4', hgood', o2', o3'⟩ := Respell.state_of s' toks' ast' hl' hsen' g' hg'
  obtain ⟨gw, gs, gm, _, _⟩ := graphFromTucan_mol s g hg
  obtain ⟨gw', gs', _, _, _⟩ := graphFromTucan_mol s' g' hg'
  obtain ⟨o1, _, _⟩ := Acc.sentence_ok hsen (Acc.lex_lit hl)
  have hatoms' : st.atoms = st'.atoms := by
    rw [same.formula, h1'] at h1
    exact (Except.ok.inj h1).symm
  obtain ⟨f1, f2⟩ := Acc.listenFormula_char o1
  have hatoms : st.atoms = ast.formula.flatMap Acc.expand := by
    have := f1 (f2 _ h1)
    rw [h1] at this
    exact Except.ok.inj this
  have hlen : st.atoms.length = ast.atomCount := by
    rw [hatoms]; exact Acc.flatMap_expand_length _ o1
  have vinv := Respell.listenAttrs_val o3 _ h3
  have vinv' := Respell.listenAttrs_val o3' _ h3'
  have iso : Iso SameIdent π g g' := by
    refine toGraph_respell st st' hgood hgood' π (by rw [hatoms']) (fun i hi => ?_)
      (fun i j hi hj h => ?_) (fun i hi => ?_) ?_ ?_ g g' h4 h4'
    · rw [hlen] at hi ⊢; exact same.range i hi
    · rw [hlen] at hi hj; exact same.inj i j hi hj h
    · rw [hlen] at hi
      rw [← hatoms', hatoms]
      exact RPerm.sorted_getElem?_eq ast o1 i (π i) hi (same.range i hi) (same.block i hi)
    · intro i hi
      rw [hlen] at hi
      have hm := RPerm.field_eq' vinv vinv' (i + 1) (π i + 1) (same.settings i hi) _ (Or.inl rfl)
      have hr := RPerm.field_eq' vinv vinv' (i + 1) (π i + 1) (same.settings i hi) _ (Or.inr rfl)
      rw [Respell.recOf_succ, Respell.recOf_succ, Respell.fieldOf_mass, Respell.fieldOf_mass] at hm
      rw [Respell.recOf_succ, Respell.recOf_succ, Respell.fieldOf_rad, Respell.fieldOf_rad] at hr
      exact ⟨hm.symm, hr.symm⟩
    · intro i j hi hj
      rw [hlen] at hi hj
      rw [Respell.bonds_mem o2 _ h2, Respell.bonds_mem o2' _ h2']
      exact same.bonds i j hi hj
  exact ⟨iso, fun a ha x hx => (gm a ha x hx).chem, gw, gs, gw', gs'⟩

/-- **Renumbered respellings normalize to the same string**, for every oracle meeting the bliss contract. -/
theorem respelling_same_string_perm (O : CanonOracle) (π : Nat → Nat) (s s' : Str) (toks toks' : List Tok)
    (ast ast' : Ast)
    (hl : lex s = some toks) (hsen : Sentence toks ast) (hl' : lex s' = some toks') (hsen' : Sentence toks' ast')
    (same : SameMeaningUpTo π ast ast') (g g' : Graph)
    (hg : graphFromTucan s = .ok g) (hg' : graphFromTucan s' = .ok g')
    (t t' : Str) (ht : tucanOf O.order g = .ok t) (ht' : tucanOf O.order g' = .ok t') : t = t' := by
  obtain ⟨iso, hchem, gw, gs, gw', gs'⟩ :=
    respelling_iso_perm π s s' toks toks' ast ast' hl hsen hl' hsen' same g g' hg hg'
  exact tucan_invariant O iso hchem gw gs gw' gs' ht ht'

namespace RespellPermExample
open MoreExamples

/-- `CH2O/(1-3)(3-4)/(1:mass=2)`: atoms 1, 2 are H, 3 is C, 4 is O; the deuterium is bonded to carbon -/
def astD : Ast :=
  { formula := [(['C'], none), (['H'], some (cs "2")), (['O'], none)],
    tuples := [(cs "1", cs "3"), (cs "3", cs "4")],
    attrs := [(cs "1", [(cs "mass", cs "2")])] }

/-- the same molecule with the two hydrogen atoms numbered the other way round: `CH2O/(4-3)(2-3)/(2:mass=2)` -/
def astE : Ast :=
  { formula := [(['C'], none), (['H'], some (cs "2")), (['O'], none)],
    tuples := [(cs "4", cs "3"), (cs "2", cs "3")],
    attrs := [(cs "2", [(cs "mass", cs "2")])] }

/-- exchange positions 0 and 1 -/
def swap01 (i : Nat) : Nat := if i = 0 then 1 else if i = 1 then 0 else i

/-- non-vacuity: a renumbering that is not the identity -/
theorem sameMeaningUpTo_DE : SameMeaningUpTo swap01 astD astE ∧ swap01 ≠ id ∧ astD.Valid ∧ astE.Valid := by
  have hc : astD.atomCount = 4 := by decide +kernel
  have hs : astD.sortedSymbols = [['H'], ['H'], ['C'], ['O']] := by
    have he : astD.expansion = [['C'], ['H'], ['H'], ['O']] := by decide +kernel
    have zC : elementZ ['C'] = some 6 := by decide +kernel
    have zH : elementZ ['H'] = some 1 := by decide +kernel
    have zO : elementZ ['O'] = some 8 := by decide +kernel
    rw [Ast.sortedSymbols, he]
    simp [List.mergeSort, List.MergeSort.Internal.splitInTwo, zC, zH, zO]
  have hvD : astD.valuedSettings = [(1, cs "mass", 2)] := by decide +kernel
  have hvE : astE.valuedSettings = [(2, cs "mass", 2)] := by decide +kernel
  refine ⟨⟨rfl, ?_, ?_, ?_, ?_, ?_⟩, ?_, ?_, ?_⟩
  · intro i hi
    rw [hc] at hi ⊢
    match i, hi with
    | 0, _ => decide
    | 1, _ => decide
    | 2, _ => decide
    | 3, _ => decide
  · intro i j hi hj
    rw [hc] at hi hj
    match i, hi, j, hj with
    | 0, _, 0, _ | 0, _, 1, _ | 0, _, 2, _ | 0, _, 3, _
    | 1, _, 0, _ | 1, _, 1, _ | 1, _, 2, _ | 1, _, 3, _
    | 2, _, 0, _ | 2, _, 1, _ | 2, _, 2, _ | 2, _, 3, _
    | 3, _, 0, _ | 3, _, 1, _ | 3, _, 2, _ | 3, _, 3, _ => decide
  · intro i hi
    rw [hc] at hi
    rw [hs]
    match i, hi with
    | 0, _ => rfl
    | 1, _ => rfl
    | 2, _ => rfl
    | 3, _ => rfl
  · intro i j hi hj
    rw [hc] at hi hj
    match i, hi, j, hj with
    | 0, _, 0, _ | 0, _, 1, _ | 0, _, 2, _ | 0, _, 3, _
    | 1, _, 0, _ | 1, _, 1, _ | 1, _, 2, _ | 1, _, 3, _
    | 2, _, 0, _ | 2, _, 1, _ | 2, _, 2, _ | 2, _, 3, _
    | 3, _, 0, _ | 3, _, 1, _ | 3, _, 2, _ | 3, _, 3, _ => decide +kernel
  · intro i hi k v
    rw [hc] at hi
    rw [hvD, hvE]
    match i, hi with
    | 0, _ => simp [swap01]
    | 1, _ => simp [swap01]
    | 2, _ => simp [swap01]
    | 3, _ => simp [swap01]
  · intro h
    have := congrFun h 0
    exact absurd this (by decide)
  · refine ⟨?_, ?_, ?_, ?_⟩
    · intro t ht
      have : t.length ≤ 2 := by
        revert t
        decide +kernel
      exact Nat.le_trans this (by decide)
    · decide +kernel
    · decide +kernel
    · decide +kernel
  · refine ⟨?_, ?_, ?_, ?_⟩
    · intro t ht
      have : t.length ≤ 2 := by
        revert t
        decide +kernel
      exact Nat.le_trans this (by decide)
    · decide +kernel
    · decide +kernel
    · decide +kernel

end RespellPermExample

end Tucan
