import TucanProofs.Lemmas.Files
import TucanProofs.Lemmas.FilesExample
/-!
# A concrete V3000 file with a star atom and a multi-attachment bond

Ferrocene-like fragment, reduced: an iron atom bonded to a star atom whose `ENDPTS` list names two carbons
(written after another bond keyword), the carbons bonded to each other; the atom indices are not consecutive
(1, 2, 5, 9) and the star atom sits between real atoms.  The file meets every hypothesis of
`C07_connection_table_every_spelling` (`IsV3000File`, `V3BondsOk`), so the reader returns three atoms (keys 0, 1,
8 — the star atom with index 5 is not an atom) and three bonds: C–C and one bond from the iron to each listed endpoint.
-/
namespace Tucan
namespace StarExample
open FilesExample (rendered_plain)

def atoms : List AtomEntry :=
  [.real (cs "1") 1 ['C'] (cs "0") (cs "0") (cs "0") (cs "0") [],
   .real (cs "2") 2 ['C'] (cs "1.4") (cs "0") (cs "0") (cs "0") [],
   .star (cs "5") 5 [cs "0.7", cs "0", cs "0", cs "0"],
   .real (cs "9") 9 ['F', 'e'] (cs "0.7") (cs "2") (cs "0") (cs "0") [.chg 2]]

def bonds : List BondEntry :=
  [{ idxTok := cs "1", btype := 2, a1 := 1, a2 := 2, pre := [], ends := none, post := [] },
   { idxTok := cs "2", btype := 9, a1 := 9, a2 := 5, pre := [cs "ATTACH=ALL"], ends := some [1, 2], post := [] }]

def lines : List Str :=
  [cs "fragment", cs "  example", cs "", cs "  0  0  0     0  0            999 V3000",
   cs "M  V30 BEGIN CTAB",
   cs "M  V30 COUNTS 4 2 0 0 0",
   cs "M  V30 BEGIN ATOM",
   cs "M  V30 1 C 0 0 0 0",
   cs "M  V30 2 C 1.4 0 0 0",
   cs "M  V30 5 * 0.7 0 0 0",
   cs "M  V30 9 Fe 0.7 2 0 0 CHG=2",
   cs "M  V30 END ATOM",
   cs "M  V30 BEGIN BOND",
   cs "M  V30 1 2 1 2",
   cs "M  V30 2 9 9 5 ATTACH=ALL ENDPTS=(2 1 2)",
   cs "M  V30 END BOND",
   cs "M  V30 END CTAB",
   cs "M  END"]

theorem isV3000File : IsV3000File lines atoms bonds := by
  refine ⟨cs "fragment", cs "  example", cs "", cs "  0  0  0     0  0            999 V3000",
    [cs "BEGIN", cs "CTAB"], [cs "0", cs "0", cs "0"],
    [cs "M  V30 END CTAB", cs "M  END"], [cs "M  V30 END CTAB", cs "M  END"],
    [cs "M  V30 BEGIN CTAB"], [cs "M  V30 COUNTS 4 2 0 0 0"], [cs "M  V30 BEGIN ATOM"], [cs "M  V30 END ATOM"],
    [cs "M  V30 BEGIN BOND"], [cs "M  V30 END BOND"],
    [[cs "M  V30 1 C 0 0 0 0"], [cs "M  V30 2 C 1.4 0 0 0"], [cs "M  V30 5 * 0.7 0 0 0"],
      [cs "M  V30 9 Fe 0.7 2 0 0 CHG=2"]],
    [[cs "M  V30 1 2 1 2"], [cs "M  V30 2 9 9 5 ATTACH=ALL ENDPTS=(2 1 2)"]],
    by decide, by decide, ?_, ?_, ?_, ?_, ?_, ?_, ?_, ?_, ?_, ?_, by decide +kernel, ?_, by decide⟩
  · exact rendered_plain _ _ (by decide +kernel) (by decide +kernel) (by unfold IsToken; decide +kernel)
  · exact rendered_plain _ _ (by decide +kernel) (by decide +kernel) (by unfold IsToken; decide +kernel)
  · exact rendered_plain _ _ (by decide +kernel) (by decide +kernel) (by unfold IsToken; decide +kernel)
  · exact rendered_plain _ _ (by decide +kernel) (by decide +kernel) (by unfold IsToken; decide +kernel)
  · exact rendered_plain _ _ (by decide +kernel) (by decide +kernel) (by unfold IsToken; decide +kernel)
  · exact rendered_plain _ _ (by decide +kernel) (by decide +kernel) (by unfold IsToken; decide +kernel)
  · refine .cons ?_ (.cons ?_ (.cons ?_ (.cons ?_ .nil)))
    · exact rendered_plain _ _ (by decide +kernel) (by decide +kernel) (by unfold IsToken; decide +kernel)
    · exact rendered_plain _ _ (by decide +kernel) (by decide +kernel) (by unfold IsToken; decide +kernel)
    · exact rendered_plain _ _ (by decide +kernel) (by decide +kernel) (by unfold IsToken; decide +kernel)
    · exact rendered_plain _ _ (by decide +kernel) (by decide +kernel) (by unfold IsToken; decide +kernel)
  · refine .cons ?_ (.cons ?_ .nil)
    · exact rendered_plain _ _ (by decide +kernel) (by decide +kernel) (by unfold IsToken; decide +kernel)
    · exact rendered_plain _ _ (by decide +kernel) (by decide +kernel) (by unfold IsToken; decide +kernel)
  · intro e he
    simp only [atoms, List.mem_cons, List.not_mem_nil, or_false] at he
    rcases he with rfl | rfl | rfl | rfl
    · refine ⟨rfl, by unfold NotKeyword IsToken; decide +kernel, by unfold NotKeyword IsToken; decide +kernel,
        by unfold IsToken; decide +kernel, ?_, Or.inl (by decide +kernel)⟩
      intro p hp
      cases hp
    · refine ⟨rfl, by unfold NotKeyword IsToken; decide +kernel, by unfold NotKeyword IsToken; decide +kernel,
        by unfold IsToken; decide +kernel, ?_, Or.inl (by decide +kernel)⟩
      intro p hp
      cases hp
    · refine ⟨rfl, ?_⟩
      show ∀ t ∈ [cs "0.7", cs "0", cs "0", cs "0"], IsToken t
      unfold IsToken; decide +kernel
    · refine ⟨rfl, by unfold NotKeyword IsToken; decide +kernel, by unfold NotKeyword IsToken; decide +kernel,
        by unfold IsToken; decide +kernel, ?_, Or.inl (by decide +kernel)⟩
      intro p hp
      simp only [List.mem_cons, List.not_mem_nil, or_false] at hp
      subst hp
      show (intRepr 2).length ≤ intMaxStrDigits
      decide +kernel
  · intro b hb
    simp only [bonds, List.mem_cons, List.not_mem_nil, or_false] at hb
    rcases hb with rfl | rfl
    · exact ⟨by unfold IsToken; decide +kernel, by decide +kernel, (fun t ht => by cases ht), (fun t ht => by cases ht),
        (fun es h => by cases h)⟩
    · refine ⟨by unfold IsToken; decide +kernel, by decide +kernel, ?_, (fun t ht => by cases ht), ?_⟩
      · intro t ht
        simp only [List.mem_cons, List.not_mem_nil, or_false] at ht
        subst ht
        unfold IsToken; decide +kernel
      · intro es h
        have : es = [1, 2] := by
          simp only [Option.some.injEq] at h
          exact h.symm
        subst this
        decide +kernel
  · rw [concatLinesWithDash]
    have h : (startsWith (cs "M  V30 END CTAB") v30Prefix && endsWithChar (cs "M  V30 END CTAB") '-') = false := by
      decide +kernel
    rw [if_neg (by rw [h]; decide), concatLinesWithDash]
    rfl

theorem bondsOk : V3BondsOk atoms bonds := by
  unfold V3BondsOk
  decide +kernel

/-- what the reader returns: the three real atoms keyed 0, 1, 8, and the three bonds -/
theorem reads :
    graphAttributesV3000 lines = .ok (atomDictOf atoms, bondDictOf (starsOf atoms) bonds) ∧
    (atomDictOf atoms).map (·.1) = [0, 1, 8] ∧ starsOf atoms = [4] ∧
    (bondDictOf (starsOf atoms) bonds).map (·.1) = [(0, 1), (8, 0), (8, 1)] :=
  ⟨isV3000File.reads bondsOk, by decide +kernel, by decide +kernel, by decide +kernel⟩

end StarExample
end Tucan
