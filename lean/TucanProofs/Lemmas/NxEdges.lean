import TucanProofs.Spec
import TucanProofs.Lemmas.Sort
/-!
# networkx container lemmas II: `G.edges`, the sorted edge list, `_sort_molecule_by_label`
-/
namespace Tucan
open Graph

namespace NxE

/-! ### `find?` in a list of nodes with distinct ids -/

theorem find?_some_iff {ns : List Node} (hnd : (ns.map (·.id)).Nodup) (a : Nat) (n : Node) :
    ns.find? (·.id == a) = some n ↔ n ∈ ns ∧ n.id = a := by
  constructor
  · intro h
    exact ⟨List.mem_of_find?_eq_some h, by simpa using List.find?_some h⟩
  · rintro ⟨hm, rfl⟩
    induction ns with
    | nil => cases hm
    | cons m r ih =>
      rw [List.map_cons, List.nodup_cons] at hnd
      rw [List.find?_cons]
      rcases List.mem_cons.1 hm with rfl | hm
      · simp
      · have hne : m.id ≠ n.id := by
          intro he; exact hnd.1 (he ▸ List.mem_map.2 ⟨n, hm, rfl⟩)
        have : (m.id == n.id) = false := by simpa using hne
        rw [this]; exact ih hnd.2 hm

theorem find?_none_iff {ns : List Node} (a : Nat) :
    ns.find? (·.id == a) = none ↔ a ∉ ns.map (·.id) := by
  simp [List.find?_eq_none]

theorem find?_perm {l l' : List Node} (hp : l.Perm l') (hnd : (l.map (·.id)).Nodup) (a : Nat) :
    l.find? (·.id == a) = l'.find? (·.id == a) := by
  have hnd' : (l'.map (·.id)).Nodup := (hp.map _).nodup_iff.1 hnd
  cases h : l.find? (·.id == a) with
  | none =>
    symm; rw [find?_none_iff] at h ⊢
    intro hm; exact h ((hp.map _).mem_iff.2 hm)
  | some n =>
    symm; rw [find?_some_iff hnd] at h; rw [find?_some_iff hnd']
    exact ⟨hp.mem_iff.1 h.1, h.2⟩

theorem gfind?_some_iff {g : Graph} (hnd : g.labels.Nodup) (a : Nat) (n : Node) :
    g.find? a = some n ↔ n ∈ g.nodes ∧ n.id = a := find?_some_iff hnd a n

theorem gfind?_none_iff {g : Graph} (a : Nat) : g.find? a = none ↔ a ∉ g.labels := find?_none_iff a

theorem nbrsD_of_mem {g : Graph} (hnd : g.labels.Nodup) {n : Node} (h : n ∈ g.nodes) :
    g.nbrsD n.id = n.nbrs := by
  have := (gfind?_some_iff hnd n.id n).2 ⟨h, rfl⟩
  simp [Graph.nbrsD, this]

theorem mem_nbrsD {g : Graph} {a : Nat} {e : Nat × Bond} (h : e ∈ g.nbrsD a) :
    ∃ n, g.find? a = some n ∧ n ∈ g.nodes ∧ n.id = a ∧ e ∈ n.nbrs := by
  unfold Graph.nbrsD at h
  cases hf : g.find? a with
  | none => rw [hf] at h; cases h
  | some n =>
    rw [hf] at h
    exact ⟨n, rfl, List.mem_of_find?_eq_some hf, by simpa using List.find?_some hf, h⟩

theorem mem_labels_of_mem_nbrsD {g : Graph} {a : Nat} {e : Nat × Bond} (h : e ∈ g.nbrsD a) :
    a ∈ g.labels := by
  obtain ⟨n, -, hn, rfl, -⟩ := mem_nbrsD h
  exact List.mem_map.2 ⟨n, hn, rfl⟩

theorem nbrs_eq_map (g : Graph) (a : Nat) : g.nbrs a = (g.nbrsD a).map (·.1) := by
  unfold Graph.nbrs Graph.nbrsD; cases g.find? a <;> rfl

theorem adj_iff (g : Graph) (a b : Nat) : g.Adj a b ↔ ∃ d, (b, d) ∈ g.nbrsD a := by
  unfold Graph.Adj; rw [nbrs_eq_map, List.mem_map]
  constructor
  · rintro ⟨⟨b', d⟩, h, rfl⟩; exact ⟨d, h⟩
  · rintro ⟨d, h⟩; exact ⟨(b, d), h, rfl⟩

/-- symmetry in `nbrsD` form -/
theorem WF.symmD {g : Graph} (hw : g.WF) {a b : Nat} {d : Bond} (h : (b, d) ∈ g.nbrsD a) :
    (a, d) ∈ g.nbrsD b := by
  obtain ⟨n, -, hn, rfl, he⟩ := mem_nbrsD h
  exact hw.symm n hn _ he

theorem WF.closedD {g : Graph} (hw : g.WF) {a b : Nat} {d : Bond} (h : (b, d) ∈ g.nbrsD a) :
    b ∈ g.labels := by
  obtain ⟨n, -, hn, rfl, he⟩ := mem_nbrsD h
  exact hw.closed n hn _ he

theorem WF.nodupD {g : Graph} (hw : g.WF) (a : Nat) : ((g.nbrsD a).map (·.1)).Nodup := by
  unfold Graph.nbrsD
  cases hf : g.find? a with
  | none => exact List.nodup_nil
  | some n => exact hw.nbrNodup n (List.mem_of_find?_eq_some hf)

theorem Simple.neD {g : Graph} (hs : g.Simple) {a b : Nat} {d : Bond} (h : (b, d) ∈ g.nbrsD a) :
    b ≠ a := by
  obtain ⟨n, -, hn, rfl, he⟩ := mem_nbrsD h
  exact hs n hn _ he

/-! ### `edgesGo` -/

theorem mem_edgesGo {ns : List Node} {seen : List Nat} {u v : Nat} {d : Bond} :
    (u, v, d) ∈ edgesGo ns seen ↔
      ∃ pre n post, ns = pre ++ n :: post ∧ n.id = u ∧ (v, d) ∈ n.nbrs ∧ v ∉ seen ∧
        v ∉ pre.map (·.id) := by
  induction ns generalizing seen with
  | nil => simp [edgesGo]
  | cons m r ih =>
    rw [edgesGo, List.mem_append, ih, List.mem_filterMap]
    constructor
    · rintro (⟨⟨v', d'⟩, he, hf⟩ | ⟨pre, n, post, rfl, hid, he, hs, hp⟩)
      · simp only [List.contains_eq_mem, decide_eq_true_eq] at hf
        split at hf
        · cases hf
        · rename_i hc
          simp only [Option.some.injEq, Prod.mk.injEq] at hf
          obtain ⟨rfl, rfl, rfl⟩ := hf
          exact ⟨[], m, r, rfl, rfl, he, hc, by simp⟩
      · refine ⟨m :: pre, n, post, rfl, hid, he, ?_, ?_⟩
        · intro h; exact hs (List.mem_cons_of_mem _ h)
        · intro h
          rcases List.mem_cons.1 h with h | h
          · exact hs (h ▸ List.mem_cons_self)
          · exact hp h
    · rintro ⟨pre, n, post, heq, hid, he, hs, hp⟩
      cases pre with
      | nil =>
        simp only [List.nil_append, List.cons.injEq] at heq
        obtain ⟨rfl, rfl⟩ := heq
        left
        refine ⟨(v, d), he, ?_⟩
        simp [hs, hid]
      | cons p pre =>
        simp only [List.cons_append, List.cons.injEq] at heq
        obtain ⟨rfl, rfl⟩ := heq
        right
        refine ⟨pre, n, post, rfl, hid, he, ?_, ?_⟩
        · intro h
          rcases List.mem_cons.1 h with h | h
          · exact hp (by simp [h])
          · exact hs h
        · intro h; exact hp (by simp at h ⊢; exact Or.inr h)

theorem mem_edgesGo_weak {ns : List Node} {seen : List Nat} {u v : Nat} {d : Bond}
    (h : (u, v, d) ∈ edgesGo ns seen) :
    (∃ n ∈ ns, n.id = u ∧ (v, d) ∈ n.nbrs) ∧ v ∉ seen := by
  obtain ⟨pre, n, post, rfl, hid, he, hs, -⟩ := mem_edgesGo.1 h
  exact ⟨⟨n, by simp, hid, he⟩, hs⟩

end NxE

/-- every reported edge is an adjacency entry of its first endpoint -/
theorem Graph.mem_edges (g : Graph) (hw : g.WF) (u v : Nat) (d : Bond) (h : (u, v, d) ∈ g.edges) :
    (v, d) ∈ g.nbrsD u := by
  obtain ⟨⟨n, hn, rfl, he⟩, -⟩ := NxE.mem_edgesGo_weak h
  rw [NxE.nbrsD_of_mem hw.nodup hn]; exact he

/-- every adjacent pair is reported exactly once, from one of its two endpoints -/
theorem Graph.edges_complete (g : Graph) (hw : g.WF) (u v : Nat) (d : Bond) (h : (v, d) ∈ g.nbrsD u) :
    (u, v, d) ∈ g.edges ∨ (v, u, d) ∈ g.edges := by
  have h' := NxE.WF.symmD hw h
  obtain ⟨n, -, hn, rfl, he⟩ := NxE.mem_nbrsD h
  obtain ⟨m, -, hm, rfl, he'⟩ := NxE.mem_nbrsD h'
  obtain ⟨pre, post, hsplit⟩ := List.append_of_mem hn
  have hnd := hw.nodup
  unfold Graph.labels at hnd
  by_cases hp : m.id ∈ pre.map (·.id)
  · right
    obtain ⟨m', hm', hid⟩ := List.mem_map.1 hp
    have hmm : m' = m := by
      have h1 := (NxE.gfind?_some_iff hw.nodup m.id m').2
        ⟨by rw [hsplit]; exact List.mem_append_left _ hm', hid⟩
      have h2 := (NxE.gfind?_some_iff hw.nodup m.id m).2 ⟨hm, rfl⟩
      rw [h1] at h2; exact Option.some.inj h2
    subst hmm
    obtain ⟨pre1, post1, hsplit1⟩ := List.append_of_mem hm'
    refine NxE.mem_edgesGo.2 ⟨pre1, m', post1 ++ n :: post, ?_, rfl, he', by simp, ?_⟩
    · rw [hsplit, hsplit1]; simp
    · intro hc
      rw [hsplit, hsplit1] at hnd
      simp only [List.map_append, List.map_cons, List.append_assoc, List.cons_append] at hnd
      rw [List.nodup_append] at hnd
      exact hnd.2.2 _ hc _ (by simp) rfl
  · left
    exact NxE.mem_edgesGo.2 ⟨pre, n, post, hsplit, rfl, he, by simp, hp⟩

namespace NxE

/-- the unordered pair of an edge, as the serializer normalises it -/
def norm : Nat × Nat × Bond → Nat × Nat := fun (u, v, _) => if u ≤ v then (u, v) else (v, u)

theorem sortedEdges_eq (g : Graph) : sortedEdges g = (g.edges.map norm).mergeSort leNN := rfl

theorem norm_eq_iff {u v a b : Nat} {d : Bond} :
    norm (u, v, d) = (a, b) ↔ a ≤ b ∧ ((u = a ∧ v = b) ∨ (u = b ∧ v = a)) := by
  unfold norm
  simp only
  split <;> simp only [Prod.mk.injEq] <;> omega

theorem norm_eq_norm_iff {u v u' v' : Nat} {d d' : Bond} :
    norm (u, v, d) = norm (u', v', d') ↔ ((u = u' ∧ v = v') ∨ (u = v' ∧ v = u')) := by
  unfold norm
  simp only
  split <;> split <;> simp only [Prod.mk.injEq] <;> omega

end NxE

/-- the number of tuples written equals the number of bonds -/
theorem sortedEdges_length (g : Graph) : (sortedEdges g).length = g.numberOfEdges := by
  rw [NxE.sortedEdges_eq, List.length_mergeSort, List.length_map]; rfl

/-- membership in the sorted edge list the serializer writes -/
theorem sortedEdges_mem (g : Graph) (hw : g.WF) (hs : g.Simple) (a b : Nat) :
    (a, b) ∈ sortedEdges g ↔ a < b ∧ g.Adj a b := by
  rw [NxE.sortedEdges_eq, List.mem_mergeSort, List.mem_map, NxE.adj_iff]
  constructor
  · rintro ⟨⟨u, v, d⟩, he, hn⟩
    have h1 := Graph.mem_edges g hw u v d he
    have h2 := NxE.WF.symmD hw h1
    have hne := NxE.Simple.neD hs h1
    rw [NxE.norm_eq_iff] at hn
    rcases hn with ⟨hle, ⟨rfl, rfl⟩ | ⟨rfl, rfl⟩⟩
    · exact ⟨by omega, d, h1⟩
    · exact ⟨by omega, d, h2⟩
  · rintro ⟨hlt, d, h⟩
    rcases Graph.edges_complete g hw a b d h with he | he
    · exact ⟨_, he, NxE.norm_eq_iff.2 ⟨by omega, Or.inl ⟨rfl, rfl⟩⟩⟩
    · exact ⟨_, he, NxE.norm_eq_iff.2 ⟨by omega, Or.inr ⟨rfl, rfl⟩⟩⟩

namespace NxE

theorem edgesGo_norm_pairwise {ns : List Node} (hnd : (ns.map (·.id)).Nodup)
    (hk : ∀ n ∈ ns, (n.nbrs.map (·.1)).Nodup) (seen : List Nat) :
    (edgesGo ns seen).Pairwise (fun x y => norm x ≠ norm y) := by
  induction ns generalizing seen with
  | nil => simp [edgesGo]
  | cons m r ih =>
    rw [List.map_cons, List.nodup_cons] at hnd
    rw [edgesGo, List.pairwise_append]
    refine ⟨?_, ih hnd.2 (fun n hn => hk n (List.mem_cons_of_mem _ hn)) _, ?_⟩
    · rw [List.pairwise_filterMap]
      have hm := hk m List.mem_cons_self
      unfold List.Nodup at hm
      rw [List.pairwise_map] at hm
      refine hm.imp ?_
      rintro ⟨v, d⟩ ⟨v', d'⟩ hne x hx y hy
      simp only at hx hy
      split at hx
      · cases hx
      · split at hy
        · cases hy
        · cases hx; cases hy
          rw [Ne, norm_eq_norm_iff]
          simp only at hne
          omega
    · rintro ⟨u, v, d⟩ hx ⟨u', v', d'⟩ hy
      rw [List.mem_filterMap] at hx
      obtain ⟨⟨v0, d0⟩, -, hx⟩ := hx
      simp only at hx
      split at hx
      · cases hx
      · cases hx
        obtain ⟨⟨n, hn, rfl, -⟩, hseen⟩ := mem_edgesGo_weak hy
        rw [Ne, norm_eq_norm_iff]
        have h1 : m.id ≠ n.id := fun he => hnd.1 (he ▸ List.mem_map.2 ⟨n, hn, rfl⟩)
        have h2 : v' ≠ m.id := fun he => hseen (he ▸ List.mem_cons_self)
        omega

theorem edges_norm_nodup {g : Graph} (hw : g.WF) : (g.edges.map norm).Nodup := by
  unfold List.Nodup
  rw [List.pairwise_map]
  exact edgesGo_norm_pairwise hw.nodup hw.nbrNodup []

theorem leNN_iff (a b : Nat × Nat) : leNN a b = true ↔ a.1 < b.1 ∨ (a.1 = b.1 ∧ a.2 ≤ b.2) := by
  rw [leNN_eq]; exact lePair_iff a b

/-- strictly ascending lists with the same members are equal -/
theorem eq_of_strict {l l' : List (Nat × Nat)}
    (h : l.Pairwise (fun x y => x.1 < y.1 ∨ (x.1 = y.1 ∧ x.2 < y.2)))
    (h' : l'.Pairwise (fun x y => x.1 < y.1 ∨ (x.1 = y.1 ∧ x.2 < y.2)))
    (hm : ∀ x, x ∈ l ↔ x ∈ l') : l = l' := by
  have nd : ∀ {l : List (Nat × Nat)}, l.Pairwise (fun x y => x.1 < y.1 ∨ (x.1 = y.1 ∧ x.2 < y.2)) →
      l.Nodup := by
    intro l h
    refine h.imp ?_
    intro a b hab he
    subst he; omega
  have hp : l.Perm l' := (List.perm_ext_iff_of_nodup (nd h) (nd h')).2 hm
  refine List.Perm.eq_of_pairwise (le := fun x y => x.1 < y.1 ∨ (x.1 = y.1 ∧ x.2 < y.2)) ?_ h h' hp
  intro a b _ _ h1 h2
  omega

end NxE

/-- the sorted edge list is strictly ascending (each bond exactly once) -/
theorem sortedEdges_strict (g : Graph) (hw : g.WF) (hs : g.Simple) :
    (sortedEdges g).Pairwise (fun x y => x.1 < y.1 ∨ (x.1 = y.1 ∧ x.2 < y.2)) := by
  have _ := hs -- not needed: self-loops are also reported once
  rw [NxE.sortedEdges_eq]
  have h1 : ((g.edges.map NxE.norm).mergeSort leNN).Pairwise (fun a b => leNN a b = true) := by
    rw [leNN_eq]
    exact List.pairwise_mergeSort (fun a b c => lePair_trans a b c) lePair_total _
  have h2 : ((g.edges.map NxE.norm).mergeSort leNN).Nodup :=
    (List.mergeSort_perm _ _).nodup_iff.2 (NxE.edges_norm_nodup hw)
  refine (h1.and h2).imp ?_
  rintro ⟨a1, a2⟩ ⟨b1, b2⟩ ⟨hle, hne⟩
  rw [NxE.leNN_iff] at hle
  simp only [ne_eq, Prod.mk.injEq] at hne
  simp only at hle ⊢
  omega

/-- the sorted edge list is a function of the adjacency relation alone: listing order of atoms and
bonds, bond orientation and bond records do not matter -/
theorem sortedEdges_congr (g g' : Graph) (hw : g.WF) (hs : g.Simple) (hw' : g'.WF) (hs' : g'.Simple)
    (hadj : ∀ a b, g.Adj a b ↔ g'.Adj a b) : sortedEdges g = sortedEdges g' := by
  refine NxE.eq_of_strict (sortedEdges_strict g hw hs) (sortedEdges_strict g' hw' hs') ?_
  rintro ⟨a, b⟩
  rw [sortedEdges_mem g hw hs, sortedEdges_mem g' hw' hs', hadj]

namespace NxE

/-! ### effect of the mutators on `labels`, `attrs?`, `nbrsD` -/

theorem hasNode_iff (g : Graph) (a : Nat) : g.hasNode a = true ↔ a ∈ g.labels := by
  unfold Graph.hasNode Graph.find? Graph.labels
  rw [List.find?_isSome, List.mem_map]
  constructor
  · rintro ⟨n, hn, h⟩; exact ⟨n, hn, by simpa using h⟩
  · rintro ⟨n, hn, h⟩; exact ⟨n, hn, by simpa using h⟩

theorem addNode_of_mem {g : Graph} {a : Nat} (h : a ∈ g.labels) : g.addNode a = g := by
  unfold Graph.addNode; rw [(hasNode_iff g a).2 h]; rfl

theorem modifyNode_labels (g : Graph) (a : Nat) (f : Node → Node) (hf : ∀ n, (f n).id = n.id) :
    (g.modifyNode a f).labels = g.labels := by
  unfold Graph.modifyNode Graph.labels
  rw [List.map_map]
  apply List.map_congr_left
  intro n _
  simp only [Function.comp]
  split
  · exact hf n
  · rfl

theorem modifyNode_find? (g : Graph) (a : Nat) (f : Node → Node) (hf : ∀ n, (f n).id = n.id)
    (b : Nat) :
    (g.modifyNode a f).find? b = (g.find? b).map fun n => if n.id == a then f n else n := by
  unfold Graph.modifyNode Graph.find?
  rw [List.find?_map]
  congr 2
  funext n
  simp only [Function.comp]
  split
  · rw [hf n]
  · rfl

theorem find?_id {g : Graph} {a : Nat} {n : Node} (h : g.find? a = some n) : n.id = a := by
  simpa using List.find?_some h

theorem setNbr_labels (g : Graph) (u v : Nat) (d : Bond) : (g.setNbr u v d).labels = g.labels :=
  modifyNode_labels g u (fun n => { n with nbrs := ainsert v d n.nbrs }) (fun _ => rfl)

theorem setNbr_attrs? (g : Graph) (u v : Nat) (d : Bond) (a : Nat) :
    (g.setNbr u v d).attrs? a = g.attrs? a := by
  unfold Graph.attrs? Graph.setNbr
  rw [modifyNode_find? g u (fun n => { n with nbrs := ainsert v d n.nbrs }) (fun _ => rfl)]
  cases g.find? a with
  | none => rfl
  | some n =>
    simp only [Option.map_some]
    split <;> rfl

theorem setNbr_nbrsD_ne (g : Graph) (u v : Nat) (d : Bond) {a : Nat} (h : a ≠ u) :
    (g.setNbr u v d).nbrsD a = g.nbrsD a := by
  unfold Graph.nbrsD Graph.setNbr
  rw [modifyNode_find? g u (fun n => { n with nbrs := ainsert v d n.nbrs }) (fun _ => rfl)]
  cases hf : g.find? a with
  | none => rfl
  | some n =>
    have hid := find?_id hf
    have : (n.id == u) = false := by rw [hid]; simpa using h
    simp only [Option.map_some, this]
    rfl

theorem setNbr_nbrsD_self (g : Graph) (u v : Nat) (d : Bond) (h : u ∈ g.labels) :
    (g.setNbr u v d).nbrsD u = ainsert v d (g.nbrsD u) := by
  unfold Graph.nbrsD Graph.setNbr
  rw [modifyNode_find? g u (fun n => { n with nbrs := ainsert v d n.nbrs }) (fun _ => rfl)]
  cases hf : g.find? u with
  | none => exact absurd h ((gfind?_none_iff u).1 hf)
  | some n =>
    have hid := find?_id hf
    have : (n.id == u) = true := by rw [hid]; simp
    simp only [Option.map_some, this]
    rfl

theorem ainsert_of_not_mem {k : Nat} {v : Bond} {l : List (Nat × Bond)} (h : k ∉ l.map (·.1)) :
    ainsert k v l = l ++ [(k, v)] := by
  induction l with
  | nil => rfl
  | cons e r ih =>
    obtain ⟨k', v'⟩ := e
    simp only [List.map_cons, List.mem_cons, not_or] at h
    have : (k' == k) = false := by simpa using fun he => h.1 he.symm
    simp only [ainsert, this, ih h.2]
    rfl

theorem alookup_of_not_mem {k : Nat} {l : List (Nat × Bond)} (h : k ∉ l.map (·.1)) :
    alookup k l = none := by
  induction l with
  | nil => rfl
  | cons e r ih =>
    obtain ⟨k', v'⟩ := e
    simp only [List.map_cons, List.mem_cons, not_or] at h
    have : (k' == k) = false := by simpa using fun he => h.1 he.symm
    simp only [alookup, this, ih h.2]
    rfl

theorem edgeData?_eq (g : Graph) (u v : Nat) : g.edgeData? u v = alookup v (g.nbrsD u) := by
  unfold Graph.edgeData? Graph.nbrsD
  cases g.find? u <;> rfl

theorem Bond.empty_update (d : Bond) : Bond.update {} d = d := by
  obtain ⟨b, e⟩ := d
  cases b <;> cases e <;> rfl

theorem addEdge_eq {g : Graph} {u v : Nat} {d : Bond} (hu : u ∈ g.labels) (hv : v ∈ g.labels)
    (hvu : v ∉ (g.nbrsD u).map (·.1)) : g.addEdge u v d = (g.setNbr u v d).setNbr v u d := by
  unfold Graph.addEdge
  simp only [addNode_of_mem hu, addNode_of_mem hv, edgeData?_eq, alookup_of_not_mem hvu,
    Option.getD_none, Bond.empty_update]

theorem addEdge_labels {g : Graph} {u v : Nat} {d : Bond} (hu : u ∈ g.labels) (hv : v ∈ g.labels)
    (hvu : v ∉ (g.nbrsD u).map (·.1)) : (g.addEdge u v d).labels = g.labels := by
  rw [addEdge_eq hu hv hvu, setNbr_labels, setNbr_labels]

theorem addEdge_attrs? {g : Graph} {u v : Nat} {d : Bond} (hu : u ∈ g.labels) (hv : v ∈ g.labels)
    (hvu : v ∉ (g.nbrsD u).map (·.1)) (a : Nat) : (g.addEdge u v d).attrs? a = g.attrs? a := by
  rw [addEdge_eq hu hv hvu, setNbr_attrs?, setNbr_attrs?]

theorem addEdge_nbrsD {g : Graph} {u v : Nat} {d : Bond} (hu : u ∈ g.labels) (hv : v ∈ g.labels)
    (hne : u ≠ v) (hvu : v ∉ (g.nbrsD u).map (·.1)) (huv : u ∉ (g.nbrsD v).map (·.1)) (a : Nat) :
    (g.addEdge u v d).nbrsD a =
      g.nbrsD a ++ (if a = u then [(v, d)] else if a = v then [(u, d)] else []) := by
  rw [addEdge_eq hu hv hvu]
  by_cases h1 : a = u
  · subst h1
    rw [setNbr_nbrsD_ne _ _ _ _ hne, setNbr_nbrsD_self _ _ _ _ hu, ainsert_of_not_mem hvu]
    simp
  · by_cases h2 : a = v
    · subst h2
      rw [setNbr_nbrsD_self _ _ _ _ (by rw [setNbr_labels]; exact hv), setNbr_nbrsD_ne _ _ _ _ h1,
        ainsert_of_not_mem huv]
      simp [h1]
    · rw [setNbr_nbrsD_ne _ _ _ _ h2, setNbr_nbrsD_ne _ _ _ _ h1]
      simp [h1, h2]

/-! ### folding `addNodeWith` over nodes with fresh distinct ids -/

def bare (n : Node) : Node := ⟨n.id, n.attrs, []⟩

theorem foldl_addNodeWith (ns : List Node) (acc : List Node)
    (hnd : (acc.map (·.id) ++ ns.map (·.id)).Nodup) :
    ns.foldl (fun (h : Graph) n => h.addNodeWith n.id n.attrs) ⟨acc⟩ = ⟨acc ++ ns.map bare⟩ := by
  induction ns generalizing acc with
  | nil => simp
  | cons n r ih =>
    rw [List.foldl_cons]
    have hn : n.id ∉ (⟨acc⟩ : Graph).labels := by
      intro hc
      rw [List.nodup_append] at hnd
      exact hnd.2.2 _ hc _ (by simp) rfl
    have hh : (⟨acc⟩ : Graph).hasNode n.id = false := by
      rw [← Bool.not_eq_true, hasNode_iff]; exact hn
    have : (⟨acc⟩ : Graph).addNodeWith n.id n.attrs = ⟨acc ++ [bare n]⟩ := by
      unfold Graph.addNodeWith; rw [hh]; rfl
    rw [this, ih]
    · simp
    · simpa [bare] using hnd

end NxE

namespace NxE

/-! ### folding `addEdge` over a list of distinct new edges between existing nodes -/

structure Inv (L : List Nat) (A : Nat → Option Atom) (h : Graph) (done : List (Nat × Nat × Bond)) :
    Prop where
  labels : h.labels = L
  attrs : ∀ a, h.attrs? a = A a
  nbrs : ∀ a w d, (w, d) ∈ h.nbrsD a ↔ ((a, w, d) ∈ done ∨ (w, a, d) ∈ done)
  keys : ∀ a, ((h.nbrsD a).map (·.1)).Nodup

theorem Inv.step {L : List Nat} {A : Nat → Option Atom} {h : Graph} {done : List (Nat × Nat × Bond)}
    (inv : Inv L A h done) {u v : Nat} {d : Bond} (hu : u ∈ L) (hv : v ∈ L) (hne : u ≠ v)
    (hfresh : norm (u, v, d) ∉ done.map norm) :
    Inv L A (h.addEdge u v d) (done ++ [(u, v, d)]) := by
  have hf : ∀ u' v' d', (u', v', d') ∈ done → ¬ ((u' = u ∧ v' = v) ∨ (u' = v ∧ v' = u)) := by
    intro u' v' d' hm hc
    apply hfresh
    rw [List.mem_map]
    exact ⟨(u', v', d'), hm, norm_eq_norm_iff.2 hc⟩
  have hvu : v ∉ (h.nbrsD u).map (·.1) := by
    intro hc
    obtain ⟨⟨v', d'⟩, hm, rfl⟩ := List.mem_map.1 hc
    rcases (inv.nbrs u v' d').1 hm with hm | hm
    · exact hf _ _ _ hm (Or.inl ⟨rfl, rfl⟩)
    · exact hf _ _ _ hm (Or.inr ⟨rfl, rfl⟩)
  have huv : u ∉ (h.nbrsD v).map (·.1) := by
    intro hc
    obtain ⟨⟨u', d'⟩, hm, rfl⟩ := List.mem_map.1 hc
    rcases (inv.nbrs v u' d').1 hm with hm | hm
    · exact hf _ _ _ hm (Or.inr ⟨rfl, rfl⟩)
    · exact hf _ _ _ hm (Or.inl ⟨rfl, rfl⟩)
  have hu' : u ∈ h.labels := inv.labels ▸ hu
  have hv' : v ∈ h.labels := inv.labels ▸ hv
  refine ⟨?_, ?_, ?_, ?_⟩
  · rw [addEdge_labels hu' hv' hvu]; exact inv.labels
  · intro a; rw [addEdge_attrs? hu' hv' hvu]; exact inv.attrs a
  · intro a w d'
    rw [addEdge_nbrsD hu' hv' hne hvu huv, List.mem_append, inv.nbrs, List.mem_append,
      List.mem_append, List.mem_singleton, List.mem_singleton]
    simp only [Prod.mk.injEq]
    have hX : (w, d') ∈ (if a = u then [(v, d)] else if a = v then [(u, d)] else []) ↔
        ((a = u ∧ w = v ∧ d' = d) ∨ (w = u ∧ a = v ∧ d' = d)) := by
      by_cases h1 : a = u
      · subst h1
        simp only [if_true, List.mem_singleton, Prod.mk.injEq, true_and]
        constructor
        · rintro ⟨rfl, rfl⟩; exact Or.inl ⟨rfl, rfl⟩
        · rintro (⟨rfl, rfl⟩ | ⟨rfl, rfl, rfl⟩)
          · exact ⟨rfl, rfl⟩
          · exact absurd rfl hne
      · by_cases h2 : a = v
        · subst h2
          simp only [h1, if_false, if_true, List.mem_singleton, Prod.mk.injEq, false_and, false_or,
            true_and]
        · simp only [h1, h2, if_false, List.not_mem_nil, false_and, and_false, or_self]
    rw [hX]
    constructor
    · rintro ((h | h) | (h | h))
      · exact Or.inl (Or.inl h)
      · exact Or.inr (Or.inl h)
      · exact Or.inl (Or.inr h)
      · exact Or.inr (Or.inr h)
    · rintro ((h | h) | (h | h))
      · exact Or.inl (Or.inl h)
      · exact Or.inr (Or.inl h)
      · exact Or.inl (Or.inr h)
      · exact Or.inr (Or.inr h)
  · intro a
    rw [addEdge_nbrsD hu' hv' hne hvu huv, List.map_append, List.nodup_append]
    refine ⟨inv.keys a, ?_, ?_⟩
    · split
      · simp
      · split <;> simp
    · intro x hx y hy
      by_cases h1 : a = u
      · subst h1
        simp only [if_true, List.map_cons, List.map_nil, List.mem_singleton] at hy
        subst hy; intro he; subst he; exact hvu hx
      · by_cases h2 : a = v
        · subst h2
          simp only [h1, if_false, if_true, List.map_cons, List.map_nil, List.mem_singleton] at hy
          subst hy; intro he; subst he; exact huv hx
        · simp [h1, h2] at hy

theorem Inv.foldl {L : List Nat} {A : Nat → Option Atom} (es : List (Nat × Nat × Bond)) :
    ∀ (done : List (Nat × Nat × Bond)) (h : Graph), Inv L A h done →
      (∀ e ∈ es, e.1 ∈ L ∧ e.2.1 ∈ L ∧ e.1 ≠ e.2.1) → ((done ++ es).map norm).Nodup →
      Inv L A (es.foldl (fun h (u, v, d) => h.addEdge u v d) h) (done ++ es) := by
  induction es with
  | nil => intro done h inv _ _; simpa using inv
  | cons e r ih =>
    intro done h inv hes hnd
    obtain ⟨u, v, d⟩ := e
    rw [List.foldl_cons, List.append_cons]
    rw [List.append_cons] at hnd
    obtain ⟨hu, hv, hne⟩ := hes _ List.mem_cons_self
    refine ih _ _ (inv.step hu hv hne ?_) (fun e he => hes e (List.mem_cons_of_mem _ he)) hnd
    rw [List.map_append, List.nodup_append] at hnd
    have := hnd.1
    rw [List.map_append, List.nodup_append] at this
    intro hc
    exact this.2.2 _ hc _ (by simp) rfl

/-! ### observational characterisation of `WF` and `Simple` -/

theorem WF.of_obs {h : Graph} (hnd : h.labels.Nodup)
    (hk : ∀ a, ((h.nbrsD a).map (·.1)).Nodup)
    (hc : ∀ a w d, (w, d) ∈ h.nbrsD a → w ∈ h.labels ∧ (a, d) ∈ h.nbrsD w) : h.WF := by
  refine ⟨hnd, ?_, ?_, ?_⟩
  · intro n hn; rw [← nbrsD_of_mem hnd hn]; exact hk _
  · rintro n hn ⟨w, d⟩ he; rw [← nbrsD_of_mem hnd hn] at he; exact (hc _ _ _ he).1
  · rintro n hn ⟨w, d⟩ he; rw [← nbrsD_of_mem hnd hn] at he; exact (hc _ _ _ he).2

theorem Simple.of_obs {h : Graph} (hnd : h.labels.Nodup)
    (hc : ∀ a w d, (w, d) ∈ h.nbrsD a → w ≠ a) : h.Simple := by
  rintro n hn ⟨w, d⟩ he; rw [← nbrsD_of_mem hnd hn] at he; exact hc _ _ _ he

theorem mem_nbrsD_iff_edges {g : Graph} (hw : g.WF) (a w : Nat) (d : Bond) :
    (w, d) ∈ g.nbrsD a ↔ ((a, w, d) ∈ g.edges ∨ (w, a, d) ∈ g.edges) := by
  constructor
  · exact Graph.edges_complete g hw a w d
  · rintro (h | h)
    · exact Graph.mem_edges g hw _ _ _ h
    · exact WF.symmD hw (Graph.mem_edges g hw _ _ _ h)

theorem nodup_of_map {α β} (f : α → β) {l : List α} (h : (l.map f).Nodup) : l.Nodup := by
  unfold List.Nodup at h ⊢
  rw [List.pairwise_map] at h
  exact h.imp (fun {a b} (hne : f a ≠ f b) (he : a = b) => hne (congrArg f he))

theorem leNode_trans (a b c : Node) :
    decide (a.id ≤ b.id) = true → decide (b.id ≤ c.id) = true → decide (a.id ≤ c.id) = true := by
  simp only [decide_eq_true_eq]; omega

theorem leNode_total (a b : Node) : (decide (a.id ≤ b.id) || decide (b.id ≤ a.id)) = true := by
  simp only [Bool.or_eq_true, decide_eq_true_eq]; omega

end NxE

/-- `_sort_molecule_by_label`: the same graph with its nodes listed in label order -/
theorem sortMoleculeByLabel_spec (g : Graph) (hw : g.WF) (hs : g.Simple) :
    Relabel id g (sortMoleculeByLabel g) ∧ (sortMoleculeByLabel g).WF ∧ (sortMoleculeByLabel g).Simple ∧
      (sortMoleculeByLabel g).labels = sortN g.labels := by
  -- the sorted node list
  let ns := g.nodes.mergeSort fun a b => decide (a.id ≤ b.id)
  have hperm : ns.Perm g.nodes := List.mergeSort_perm _ _
  have hpermL : (ns.map (·.id)).Perm g.labels := hperm.map _
  have hndL : (ns.map (·.id)).Nodup := hpermL.nodup_iff.2 hw.nodup
  -- the graph after the node loop
  have h0 : ns.foldl (fun (h : Graph) n => h.addNodeWith n.id n.attrs) Graph.empty =
      ⟨ns.map NxE.bare⟩ := by
    have := NxE.foldl_addNodeWith ns [] (by simpa using hndL)
    simpa [Graph.empty] using this
  have hfind0 : ∀ a, (⟨ns.map NxE.bare⟩ : Graph).find? a = (g.find? a).map NxE.bare := by
    intro a
    unfold Graph.find?
    rw [List.find?_map]
    have : ((fun (x : Node) => x.id == a) ∘ NxE.bare) = (fun x => x.id == a) := rfl
    rw [this, NxE.find?_perm hperm hndL a]
  have inv0 : NxE.Inv (ns.map (·.id)) g.attrs? ⟨ns.map NxE.bare⟩ [] := by
    refine ⟨?_, ?_, ?_, ?_⟩
    · unfold Graph.labels; rw [List.map_map]; rfl
    · intro a; unfold Graph.attrs?; rw [hfind0]; cases g.find? a <;> rfl
    · intro a w d; unfold Graph.nbrsD; rw [hfind0]; cases g.find? a <;> simp [NxE.bare]
    · intro a; unfold Graph.nbrsD; rw [hfind0]; cases g.find? a <;> simp [NxE.bare]
  -- the edge loop
  have hes : ∀ e ∈ g.edges, e.1 ∈ ns.map (·.id) ∧ e.2.1 ∈ ns.map (·.id) ∧ e.1 ≠ e.2.1 := by
    rintro ⟨u, v, d⟩ he
    have h1 := Graph.mem_edges g hw u v d he
    exact ⟨hpermL.mem_iff.2 (NxE.mem_labels_of_mem_nbrsD h1),
      hpermL.mem_iff.2 (NxE.WF.closedD hw h1), (NxE.Simple.neD hs h1).symm⟩
  have inv := NxE.Inv.foldl g.edges [] _ inv0 hes (by simpa using NxE.edges_norm_nodup hw)
  rw [List.nil_append] at inv
  have hsm : sortMoleculeByLabel g =
      g.edges.foldl (fun h (u, v, d) => h.addEdge u v d) ⟨ns.map NxE.bare⟩ := by
    unfold sortMoleculeByLabel; simp only; rw [h0]
  rw [← hsm] at inv
  generalize sortMoleculeByLabel g = h' at inv ⊢
  have hnd' : h'.labels.Nodup := inv.labels ▸ hndL
  have hmem : ∀ a w d, (w, d) ∈ h'.nbrsD a ↔ (w, d) ∈ g.nbrsD a := by
    intro a w d; rw [inv.nbrs, NxE.mem_nbrsD_iff_edges hw]
  refine ⟨⟨?_, ?_, ?_, ?_⟩, ?_, ?_, ?_⟩
  · rw [inv.labels, List.map_id]; exact hpermL
  · intro a _ b _ h; exact h
  · intro a _; exact inv.attrs a
  · intro a _
    have : (fun (e : Nat × Bond) => (id e.1, e.2)) = id := rfl
    rw [this, List.map_id]
    refine (List.perm_ext_iff_of_nodup (NxE.nodup_of_map _ (inv.keys a))
      (NxE.nodup_of_map _ (NxE.WF.nodupD hw a))).2 ?_
    rintro ⟨w, d⟩; exact hmem a w d
  · refine NxE.WF.of_obs hnd' inv.keys ?_
    intro a w d he
    rw [hmem] at he
    refine ⟨?_, ?_⟩
    · rw [inv.labels]; exact hpermL.mem_iff.2 (NxE.WF.closedD hw he)
    · rw [hmem]; exact NxE.WF.symmD hw he
  · refine NxE.Simple.of_obs hnd' ?_
    intro a w d he
    rw [hmem] at he
    exact NxE.Simple.neD hs he
  · rw [inv.labels]
    unfold sortN
    refine List.Perm.eq_of_pairwise (le := fun a b => leN a b = true) ?_ ?_ ?_ ?_
    · intro a b _ _; exact leN_antisymm a b
    · rw [List.pairwise_map]
      exact (List.pairwise_mergeSort NxE.leNode_trans NxE.leNode_total g.nodes).imp (fun h => h)
    · exact List.pairwise_mergeSort leN_trans leN_total _
    · exact hpermL.trans (List.mergeSort_perm _ _).symm

end Tucan
