import TucanProofs.Lemmas.SerializeTokens
import TucanProofs.Lemmas.GraphFromMolecule
import TucanProofs.Lemmas.LineMachinery
import TucanProofs.Lemmas.Pipeline
import TucanProofs.Lemmas.RejectKind
/-!
# S6 — decode ∘ encode: parsing the emitted string reconstructs the molecule

For a molecule graph `c` (as the readers, the parser or `canonicalize_molecule` produce it) whose atoms
are chemistry-level atoms with an element symbol of the table and strictly positive mass / radical
values, parsing the string `serialize_molecule(c)` returns a graph `H` on the labels `0 … n-1` that is
`c` under a renaming `τ` of its atoms: same element, mass and radical on corresponding atoms, same
adjacency, hence the same number of atoms and bonds.
-/
namespace Tucan

/-- the atom-level domain of the round trip -/
structure MolAtom (x : Atom) : Prop where
  chem : x.Chem
  sym : ∃ s, x.sym = some s
  massPos : ∀ v, x.mass = some v → 0 < v ∧ (intRepr v).length ≤ intMaxStrDigits
  radPos : ∀ v, x.rad = some v → 0 < v ∧ (intRepr v).length ≤ intMaxStrDigits

def Graph.MolAtoms (g : Graph) : Prop := ∀ a ∈ g.labels, ∀ x, g.attrs? a = some x → MolAtom x

/-- **C03 (model level), reconstruction half.** -/
theorem serialize_roundtrip (c : Graph) (hw : c.WF) (hs : c.Simple) (hmol : c.MolAtoms)
    (hsize : (natRepr (c.numberOfNodes + 1)).length ≤ intMaxStrDigits)
    (s : Str) (p : Graph) (h : serializeMolecule c = .ok (s, p)) :
    ∃ (H : Graph) (τ : Nat → Nat), graphFromTucan s = .ok H ∧ Iso SameIdent τ c H ∧
      H.labels = List.range c.numberOfNodes ∧ H.WF ∧ H.Simple ∧ H.MolAtoms ∧
      (∀ a ∈ H.labels, ∃ y, H.attrs? a = some y ∧ y.part = some 0) := by
  sorry

end Tucan
