import TucanProofs.Lemmas.SerializeTokens
import TucanProofs.Lemmas.GraphFromMolecule
import TucanProofs.Lemmas.LineMachinery
import TucanProofs.Lemmas.Pipeline
import TucanProofs.Lemmas.RejectKind
/-!
# S6 — decode ∘ encode: parsing the emitted string reconstructs the molecule

For a molecule graph `c` (as the readers, the parser or `canonicalize_molecule` produce it) whose atoms
are chemistry-level atoms with an element symbol of the table and strictly positive mass / radical
values, parsing the string `serialize_molecule(c)` returns a graph `H` on the labels `0 … n-1` that is
`c` under a renaming `τ` of its atoms: same element, mass and radical on corresponding atoms, same
adjacency, hence the same number of atoms and bonds.
-/
namespace Tucan

/-- the atom-level domain of the round trip -/
structure MolAtom (x : Atom) : Prop where
  chem : x.Chem
  sym : ∃ s, x.sym = some s
  massPos : ∀ v, x.mass = some v → 0 < v ∧ (intRepr v).length ≤ intMaxStrDigits
  radPos : ∀ v, x.rad = some v → 0 < v ∧ (intRepr v).length ≤ intMaxStrDigits

def Graph.MolAtoms (g : Graph) : Prop := ∀ a ∈ g.labels, ∀ x, g.attrs? a = some x → MolAtom x

namespace RoundTrip

/-! ## association lists -/
section Assoc
variable {κ ν : Type} [BEq κ] [LawfulBEq κ]

theorem alookup_none {k : κ} : ∀ {l : List (κ × ν)}, k ∉ l.map (·.1) → alookup k l = none
  | [], _ => rfl
  | (k', v') :: r, h => by
    simp only [List.map_cons, List.mem_cons, not_or] at h
    have : (k' == k) = false := by
      rw [beq_eq_false_iff_ne]; exact fun e => h.1 e.symm
    simp only [alookup, this]
    exact alookup_none h.2

theorem alookup_append_single {k : κ} {v : ν} : ∀ {l : List (κ × ν)}, k ∉ l.map (·.1) →
    alookup k (l ++ [(k, v)]) = some v
  | [], _ => by simp [alookup]
  | (k', v') :: r, h => by
    simp only [List.map_cons, List.mem_cons, not_or] at h
    have : (k' == k) = false := by
      rw [beq_eq_false_iff_ne]; exact fun e => h.1 e.symm
    simp only [List.cons_append, alookup, this]
    exact alookup_append_single h.2

theorem ainsert_not_mem {k : κ} {v : ν} : ∀ {l : List (κ × ν)}, k ∉ l.map (·.1) →
    ainsert k v l = l ++ [(k, v)]
  | [], _ => rfl
  | (k', v') :: r, h => by
    simp only [List.map_cons, List.mem_cons, not_or] at h
    have : (k' == k) = false := by
      rw [beq_eq_false_iff_ne]; exact fun e => h.1 e.symm
    simp only [ainsert, this, List.cons_append]
    rw [ainsert_not_mem h.2]
    rfl

theorem ainsert_append_self {k : κ} {v v' : ν} : ∀ {l : List (κ × ν)}, k ∉ l.map (·.1) →
    ainsert k v' (l ++ [(k, v)]) = l ++ [(k, v')]
  | [], _ => by simp [ainsert]
  | (k', v0) :: r, h => by
    simp only [List.map_cons, List.mem_cons, not_or] at h
    have : (k' == k) = false := by
      rw [beq_eq_false_iff_ne]; exact fun e => h.1 e.symm
    simp only [List.cons_append, ainsert, this]
    rw [ainsert_append_self h.2]
    rfl

theorem alookup_of_mem {k : κ} {v : ν} : ∀ {l : List (κ × ν)}, (l.map (·.1)).Nodup →
    (k, v) ∈ l → alookup k l = some v
  | [], _, h => by simp at h
  | (k0, v0) :: r, hnd, h => by
    simp only [List.map_cons, List.nodup_cons] at hnd
    simp only [alookup]
    rcases List.mem_cons.1 h with h | h
    · cases h; simp
    · have hne : k0 ≠ k := fun he => hnd.1 (he ▸ List.mem_map_of_mem (f := (·.1)) h)
      have : (k0 == k) = false := by simpa using hne
      rw [this]
      exact alookup_of_mem hnd.2 h

theorem ainsert_eq_map {k : κ} {v : ν} : ∀ {l : List (κ × ν)}, (l.map (·.1)).Nodup → k ∈ l.map (·.1) →
    ainsert k v l = l.map (fun p => if p.1 == k then (k, v) else p)
  | [], _, h => by simp at h
  | (k0, v0) :: r, hnd, h => by
    simp only [List.map_cons, List.nodup_cons] at hnd
    simp only [ainsert, List.map_cons]
    by_cases hk : (k0 == k) = true
    · simp only [hk, if_true]
      congr 1
      have hk' : k0 = k := eq_of_beq hk
      subst hk'
      symm
      conv => rhs; rw [← List.map_id r]
      apply List.map_congr_left
      intro p hp
      have : (p.1 == k0) = false := by
        rw [beq_eq_false_iff_ne]
        intro e
        exact hnd.1 (e ▸ List.mem_map_of_mem (f := (·.1)) hp)
      simp [this]
    · have hk' : (k0 == k) = false := by simpa using hk
      simp only [hk', Bool.false_eq_true, if_false]
      congr 1
      apply ainsert_eq_map hnd.2
      simp only [List.map_cons, List.mem_cons] at h
      rcases h with h | h
      · subst h; simp at hk'
      · exact h

end Assoc

/-! ## listener: formula -/


def formulaStep (acc : List Atom) (p : Str × Option Str) : PyM (List Atom) :=
  match p with
  | (sym, cnt) => do
    let count ← match cnt with
      | none => pure (1 : Int)
      | some c => listenerInt c
    let z ← match elementZ sym with
      | some z => pure z
      | none => .error .keyError
    let a : Atom := { sym := some sym, z := some (z : Int), part := some 0 }
    pure (acc ++ List.replicate count.toNat a)

theorem listenFormula_eq (f : List (Str × Option Str)) : listenFormula f = f.foldlM formulaStep [] := rfl

def mkAtom (s : Str) : Atom :=
  { sym := some s, z := some (((elementZ s).getD 0 : Nat) : Int), part := some 0 }

theorem listenerInt_natRepr (n : Nat) (h : (natRepr n).length ≤ intMaxStrDigits) :
    listenerInt (natRepr n) = .ok (n : Int) := by
  unfold listenerInt
  rw [pyInt_natRepr n h]

theorem formulaStep_eval (acc : List Atom) (s : Str) (c : Nat) (z : Nat) (hc : 1 ≤ c)
    (hlen : (natRepr c).length ≤ intMaxStrDigits) (hz : elementZ s = some z) :
    formulaStep acc (s, countText c) = .ok (acc ++ List.replicate c (mkAtom s)) := by
  unfold formulaStep mkAtom countText
  by_cases h1 : c > 1
  · simp only [h1, if_true, listenerInt_natRepr c hlen, hz]
    rfl
  · have : c = 1 := by omega
    subst this
    simp only [h1, if_false, hz]
    rfl


theorem formula_eval : ∀ (items : List (Str × Nat)) (acc : List Atom),
    (∀ i ∈ items, 1 ≤ i.2 ∧ (natRepr i.2).length ≤ intMaxStrDigits ∧ (elementZ i.1).isSome) →
    (items.map fun i => (i.1, countText i.2)).foldlM formulaStep acc
      = .ok (acc ++ items.flatMap fun i => List.replicate i.2 (mkAtom i.1))
  | [], acc, _ => by simp [pure, Except.pure]
  | i :: r, acc, h => by
    obtain ⟨h1, h2, h3⟩ := h i List.mem_cons_self
    obtain ⟨z, hz⟩ := Option.isSome_iff_exists.mp h3
    rw [List.map_cons, List.foldlM_cons, formulaStep_eval acc i.1 i.2 z h1 h2 hz]
    show List.foldlM formulaStep _ _ = _
    rw [formula_eval r _ (fun j hj => h j (List.mem_cons_of_mem _ hj))]
    simp [List.flatMap_cons]

/-! ## listener: tuples -/

def tupleStep (acc : List (Int × Int)) (p : Str × Str) : PyM (List (Int × Int)) :=
  match p with
  | (a, b) => do
    let i1 ← listenerInt a
    let i2 ← listenerInt b
    if i1 == i2 then .error .tucanParser else pure (acc ++ [(i1 - 1, i2 - 1)])

theorem listenTuples_eq (tu : List (Str × Str)) : listenTuples tu = tu.foldlM tupleStep [] := rfl

theorem tupleStep_eval (acc : List (Int × Int)) (a b : Nat) (hab : a ≠ b)
    (ha : (natRepr (a + 1)).length ≤ intMaxStrDigits) (hb : (natRepr (b + 1)).length ≤ intMaxStrDigits) :
    tupleStep acc (natRepr (a + 1), natRepr (b + 1)) = .ok (acc ++ [((a : Int), (b : Int))]) := by
  unfold tupleStep
  simp only [listenerInt_natRepr _ ha, listenerInt_natRepr _ hb]
  have hne : (((a + 1 : Nat) : Int) == ((b + 1 : Nat) : Int)) = false := by
    rw [beq_eq_false_iff_ne]; omega
  have e1 : ((a + 1 : Nat) : Int) - 1 = (a : Int) := by omega
  have e2 : ((b + 1 : Nat) : Int) - 1 = (b : Int) := by omega
  show (if (((a + 1 : Nat) : Int) == ((b + 1 : Nat) : Int)) = true then _ else _) = _
  rw [hne, e1, e2]
  rfl

theorem tuples_eval : ∀ (es : List (Nat × Nat)) (acc : List (Int × Int)),
    (∀ e ∈ es, e.1 ≠ e.2 ∧ (natRepr (e.1 + 1)).length ≤ intMaxStrDigits ∧
      (natRepr (e.2 + 1)).length ≤ intMaxStrDigits) →
    (es.map fun e => (natRepr (e.1 + 1), natRepr (e.2 + 1))).foldlM tupleStep acc
      = .ok (acc ++ es.map fun e => ((e.1 : Int), (e.2 : Int)))
  | [], acc, _ => by simp [pure, Except.pure]
  | e :: r, acc, h => by
    obtain ⟨h1, h2, h3⟩ := h e List.mem_cons_self
    rw [List.map_cons, List.foldlM_cons, tupleStep_eval acc e.1 e.2 h1 h2 h3]
    show List.foldlM tupleStep _ _ = _
    rw [tuples_eval r _ (fun j hj => h j (List.mem_cons_of_mem _ hj))]
    simp

/-! ## listener: node attributes -/

def propStep (idx : Str) (acc : List (Int × Atom)) (q : Str × Str) : PyM (List (Int × Atom)) :=
  match q with
  | (k, v) => do
    let i ← listenerInt idx
    let value ← listenerInt v
    let key ← match attrKeyOf k with
      | some key => pure key
      | none => .error .keyError
    let cur := (alookup (i - 1) acc).getD {}
    let cur' ← setAttr key value cur
    pure (ainsert (i - 1) cur' acc)

def blockStep (acc : List (Int × Atom)) (p : Str × List (Str × Str)) : PyM (List (Int × Atom)) :=
  match p with
  | (idx, props) => props.foldlM (propStep idx) acc

theorem listenAttrs_eq (ats : List (Str × List (Str × Str))) :
    listenAttrs ats = ats.foldlM blockStep [] := rfl

theorem listenerInt_intRepr (v : Int) (h : (intRepr v).length ≤ intMaxStrDigits) :
    listenerInt (intRepr v) = .ok v := by
  unfold listenerInt
  rw [pyInt_intRepr v h]

theorem propStep_mass (id : Nat) (acc : List (Int × Atom)) (v : Int)
    (hid : (natRepr (id + 1)).length ≤ intMaxStrDigits) (hv : (intRepr v).length ≤ intMaxStrDigits) :
    propStep (natRepr (id + 1)) acc ("mass".toList, intRepr v) =
      (setAttr "mass" v ((alookup (id : Int) acc).getD {})).bind fun cur' =>
        .ok (ainsert (id : Int) cur' acc) := by
  unfold propStep
  simp only [listenerInt_natRepr _ hid, listenerInt_intRepr v hv, RejectKind.attrKeyOf_keys.1]
  have e1 : ((id + 1 : Nat) : Int) - 1 = (id : Int) := by omega
  show (setAttr "mass" v ((alookup (((id + 1 : Nat) : Int) - 1) acc).getD {})).bind
    (fun cur' => Except.ok (ainsert (((id + 1 : Nat) : Int) - 1) cur' acc)) = _
  rw [e1]

theorem propStep_rad (id : Nat) (acc : List (Int × Atom)) (v : Int)
    (hid : (natRepr (id + 1)).length ≤ intMaxStrDigits) (hv : (intRepr v).length ≤ intMaxStrDigits) :
    propStep (natRepr (id + 1)) acc ("rad".toList, intRepr v) =
      (setAttr "rad" v ((alookup (id : Int) acc).getD {})).bind fun cur' =>
        .ok (ainsert (id : Int) cur' acc) := by
  unfold propStep
  simp only [listenerInt_natRepr _ hid, listenerInt_intRepr v hv, RejectKind.attrKeyOf_keys.2]
  have e1 : ((id + 1 : Nat) : Int) - 1 = (id : Int) := by omega
  show (setAttr "rad" v ((alookup (((id + 1 : Nat) : Int) - 1) acc).getD {})).bind
    (fun cur' => Except.ok (ainsert (((id + 1 : Nat) : Int) - 1) cur' acc)) = _
  rw [e1]

/-- the record `_node_attributes` holds for an atom -/
def recOf (a : Atom) : Atom := { mass := a.mass, rad := a.rad }

theorem setAttr_mass (v : Int) (a : Atom) (h : a.mass = none) :
    setAttr "mass" v a = .ok { a with mass := some v } := by
  unfold setAttr
  simp [h, pure, Except.pure]

theorem setAttr_rad (v : Int) (a : Atom) (h : a.rad = none) :
    setAttr "rad" v a = .ok { a with rad := some v } := by
  unfold setAttr
  have : ("rad" == "mass") = false := by decide
  simp [this, h, pure, Except.pure]

theorem blockStep_eval (id : Nat) (a : Atom) (acc : List (Int × Atom))
    (hne : attrPairs a ≠ [])
    (hid : (natRepr (id + 1)).length ≤ intMaxStrDigits)
    (hm : ∀ v, a.mass = some v → (intRepr v).length ≤ intMaxStrDigits)
    (hr : ∀ v, a.rad = some v → (intRepr v).length ≤ intMaxStrDigits)
    (hfresh : (id : Int) ∉ acc.map (·.1)) :
    blockStep acc (natRepr (id + 1), attrPairs a) = .ok (acc ++ [((id : Int), recOf a)]) := by
  unfold blockStep attrPairs recOf
  cases hmass : a.mass with
  | none =>
    cases hrad : a.rad with
    | none => simp [attrPairs, hmass, hrad] at hne
    | some r =>
      simp only [List.nil_append, List.foldlM_cons, List.foldlM_nil]
      rw [propStep_rad id acc r hid (hr r hrad), alookup_none hfresh]
      simp only [Option.getD_none]
      rw [setAttr_rad r {} rfl]
      show Except.ok (ainsert _ _ _) = _
      rw [ainsert_not_mem hfresh]
  | some v =>
    cases hrad : a.rad with
    | none =>
      simp only [List.append_nil, List.foldlM_cons, List.foldlM_nil]
      rw [propStep_mass id acc v hid (hm v hmass), alookup_none hfresh]
      simp only [Option.getD_none]
      rw [setAttr_mass v {} rfl]
      show Except.ok (ainsert _ _ _) = _
      rw [ainsert_not_mem hfresh]
    | some r =>
      simp only [List.cons_append, List.nil_append, List.foldlM_cons, List.foldlM_nil]
      rw [propStep_mass id acc v hid (hm v hmass), alookup_none hfresh]
      simp only [Option.getD_none]
      rw [setAttr_mass v {} rfl]
      show (propStep _ (ainsert _ _ _) _ >>= _) = _
      rw [ainsert_not_mem hfresh, propStep_rad id _ r hid (hr r hrad), alookup_append_single hfresh]
      simp only [Option.getD_some]
      rw [setAttr_rad r _ rfl]
      show (Except.ok (ainsert _ _ _) >>= _) = _
      rw [ainsert_append_self hfresh]
      rfl

def hasAttr (nd : Node) : Bool := !(attrPairs nd.attrs).isEmpty

theorem attrs_eval : ∀ (ns : List Node) (acc : List (Int × Atom)),
    (ns.map (·.id)).Nodup →
    (∀ nd ∈ ns, (natRepr (nd.id + 1)).length ≤ intMaxStrDigits ∧
      (∀ v, nd.attrs.mass = some v → (intRepr v).length ≤ intMaxStrDigits) ∧
      (∀ v, nd.attrs.rad = some v → (intRepr v).length ≤ intMaxStrDigits) ∧
      (nd.id : Int) ∉ acc.map (·.1)) →
    (ns.filterMap SerTok.nodeBlock).foldlM blockStep acc
      = .ok (acc ++ (ns.filter hasAttr).map fun nd => ((nd.id : Int), recOf nd.attrs))
  | [], acc, _, _ => by simp [pure, Except.pure]
  | nd :: r, acc, hnd, h => by
    obtain ⟨h1, h2, h3, h4⟩ := h nd List.mem_cons_self
    simp only [List.map_cons, List.nodup_cons] at hnd
    rw [List.filterMap_cons, List.filter_cons]
    by_cases he : (attrPairs nd.attrs).isEmpty = true
    · have e1 : SerTok.nodeBlock nd = none := by unfold SerTok.nodeBlock; rw [if_pos he]
      have e2 : hasAttr nd = false := by unfold hasAttr; rw [he]; rfl
      simp only [e1, e2, Bool.false_eq_true, if_false]
      exact attrs_eval r acc hnd.2 (fun x hx => h x (List.mem_cons_of_mem _ hx))
    · have e1 : SerTok.nodeBlock nd = some (natRepr (nd.id + 1), attrPairs nd.attrs) := by
        unfold SerTok.nodeBlock; rw [if_neg he]
      have e2 : hasAttr nd = true := by
        unfold hasAttr; simp only [Bool.not_eq_true] at he; rw [he]; rfl
      have hne : attrPairs nd.attrs ≠ [] := by
        intro hc; rw [hc] at he; exact he rfl
      simp only [e1, e2, if_true]
      rw [List.foldlM_cons, blockStep_eval nd.id nd.attrs acc hne h1 h2 h3 h4]
      show List.foldlM blockStep _ _ = _
      rw [attrs_eval r _ hnd.2]
      · simp
      · intro x hx
        obtain ⟨g1, g2, g3, g4⟩ := h x (List.mem_cons_of_mem _ hx)
        refine ⟨g1, g2, g3, ?_⟩
        simp only [List.map_append, List.map_cons, List.map_nil, List.mem_append, List.mem_singleton, not_or]
        refine ⟨g4, ?_⟩
        intro hc
        have : x.id = nd.id := by omega
        exact hnd.1 (this ▸ List.mem_map_of_mem (f := (·.id)) hx)

/-! ## §1 the element table: `symOfZ` and `elementZ` are inverse -/

theorem table_lookup : Tables.elementTable.all
    (fun e => alookup e.1 Tables.elementTable == some e.2 && decide (1 ≤ e.2)) = true := by
  decide +kernel

theorem symOfZ_spec {z : Int} {s : Str} (h : symOfZ z = some s) :
    s ∈ elementSyms ∧ elementZ s = some z.toNat ∧ 1 ≤ z := by
  unfold symOfZ at h
  cases hf : Tables.elementTable.find? (fun e => (e.2 : Int) == z) with
  | none => rw [hf] at h; cases h
  | some e =>
    rw [hf] at h
    simp only [Option.map_some, Option.some.injEq] at h
    have hmem := List.mem_of_find?_eq_some hf
    have hz : (e.2 : Int) = z := by simpa using List.find?_some hf
    have ht := List.all_eq_true.mp table_lookup e hmem
    simp only [Bool.and_eq_true, beq_iff_eq, decide_eq_true_eq] at ht
    subst h
    refine ⟨?_, ?_, by omega⟩
    · unfold elementSyms elementSymbols
      exact List.mem_map_of_mem (List.mem_map_of_mem hmem)
    · unfold elementZ
      rw [String.ofList_toList, ht.1, ← hz]
      rfl

/-! ## digit counts -/

theorem natRepr_len_mono {a b : Nat} (hab : a ≤ b) (h : (natRepr b).length ≤ intMaxStrDigits) :
    (natRepr a).length ≤ intMaxStrDigits := by
  rw [LineM.natRepr_eq] at h ⊢
  have hk : 0 < intMaxStrDigits := by decide
  rw [Nat.length_toDigits_le_iff (by decide) hk] at h ⊢
  omega

/-! ## the Hill items list every symbol with its multiplicity -/

theorem count_flatMap_replicate {α : Type} [BEq α] [LawfulBEq α] (c : α → Nat) (s : α) :
    ∀ (items : List (α × Nat)), (items.map (·.1)).Nodup → (∀ i ∈ items, i.2 = c i.1) →
    List.count s (items.flatMap fun i => List.replicate i.2 i.1)
      = if s ∈ items.map (·.1) then c s else 0
  | [], _, _ => by simp
  | i :: r, hnd, h => by
    simp only [List.map_cons, List.nodup_cons] at hnd
    have ih := count_flatMap_replicate c s r hnd.2 (fun j hj => h j (List.mem_cons_of_mem _ hj))
    rw [List.flatMap_cons, List.count_append, List.count_replicate, ih]
    by_cases hs : i.1 = s
    · subst hs
      simp [hnd.1, h i List.mem_cons_self]
    · have : (i.1 == s) = false := by simpa using hs
      have hs' : ¬ s = i.1 := fun e => hs e.symm
      have hm : s ∈ List.map (·.1) (i :: r) ↔ s ∈ List.map (·.1) r := by
        simp [hs']
      simp only [this, Bool.false_eq_true, if_false, Nat.zero_add, hm]

theorem hill_perm (syms : List Str) :
    ((hillItems syms).flatMap fun i => List.replicate i.2 i.1).Perm syms := by
  obtain ⟨h1, h2, h3⟩ := hillItems_counts syms
  rw [List.perm_iff_count]
  intro s
  rw [count_flatMap_replicate (fun k => countOcc k syms) s _ h2 (fun i hi => (h1 i hi).2)]
  split
  · rw [List.count_eq_length_filter]; rfl
  · next hn =>
    rw [h3] at hn
    exact (List.count_eq_zero.mpr hn).symm

theorem hill_perm_map {β : Type} (f : Str → β) (syms : List Str) :
    ((hillItems syms).flatMap fun i => List.replicate i.2 (f i.1)).Perm (syms.map f) := by
  have := (hill_perm syms).map f
  rw [List.map_flatMap] at this
  simpa using this

/-! ## §4 `to_graph` -/

def checkStep (n : Int) (x : Int × Int) (_s : PUnit) : PyM (ForInStep PUnit) :=
  if x.1 ≥ n then .error .tucanParser
  else if x.2 ≥ n then .error .tucanParser else .ok (.yield PUnit.unit)

def joinStep (n : Int) (x : Int × Atom) (d : List (Int × Atom)) : PyM (ForInStep (List (Int × Atom))) :=
  if x.1 ≥ n then .error .tucanParser
  else match alookup x.1 d with
    | none => .error .keyError
    | some a => .ok (.yield (ainsert x.1 (a.update x.2) d))

theorem toGraph_eq (st : ListenerState) : toGraph st =
    (forIn st.bonds PUnit.unit (checkStep st.atoms.length)) >>= fun _ =>
    (forIn st.nodeAttrs ((sortAtomsByZ st.atoms).zipIdx.map fun (a, i) => ((i : Int), a))
      (joinStep st.atoms.length)) >>= fun d =>
    graphFromMolecule d (st.bonds.foldl (fun d b => ainsert b ({} : Bond) d) []) >>= fun x =>
    pure x.1 := by
  rfl

theorem forIn_inv {α β : Type} (f : α → β → PyM (ForInStep β)) (g : β → α → β) (I : β → Prop)
    (Q : α → Prop) (hf : ∀ a, Q a → ∀ b, I b → f a b = .ok (.yield (g b a)) ∧ I (g b a)) :
    ∀ (l : List α), (∀ a ∈ l, Q a) → ∀ b, I b → forIn l b f = .ok (l.foldl g b)
  | [], _, b, _ => rfl
  | a :: l, hl, b, hb => by
    obtain ⟨h1, h2⟩ := hf a (hl a List.mem_cons_self) b hb
    rw [List.forIn_cons, h1, List.foldl_cons]
    exact forIn_inv f g I Q hf l (fun x hx => hl x (List.mem_cons_of_mem _ hx)) _ h2

theorem check_eval (n : Int) (bonds : List (Int × Int)) (h : ∀ b ∈ bonds, b.1 < n ∧ b.2 < n) :
    forIn bonds PUnit.unit (checkStep n) = .ok PUnit.unit := by
  rw [forIn_inv (checkStep n) (fun _ _ => PUnit.unit) (fun _ => True) (fun b => b.1 < n ∧ b.2 < n) ?_
    bonds h PUnit.unit trivial]
  intro a ha b _
  refine ⟨?_, trivial⟩
  unfold checkStep
  rw [if_neg (by omega), if_neg (by omega)]

/-- one step of the attribute join, as a pure function -/
def joinG (d : List (Int × Atom)) (e : Int × Atom) : List (Int × Atom) :=
  ainsert e.1 (((alookup e.1 d).getD default).update e.2) d

theorem keys_ainsert_of_mem {k : Int} {v : Atom} {d : List (Int × Atom)} (hnd : (d.map (·.1)).Nodup)
    (hk : k ∈ d.map (·.1)) : (ainsert k v d).map (·.1) = d.map (·.1) := by
  rw [ainsert_eq_map hnd hk, List.map_map]
  apply List.map_congr_left
  intro p _
  simp only [Function.comp]
  split
  · next h => exact (eq_of_beq h).symm
  · rfl

theorem alookup_isSome_of_mem {k : Int} : ∀ {d : List (Int × Atom)}, k ∈ d.map (·.1) →
    ∃ a, alookup k d = some a
  | [], h => by simp at h
  | (k0, v0) :: r, h => by
    simp only [alookup]
    by_cases hk : (k0 == k) = true
    · exact ⟨v0, by rw [if_pos hk]⟩
    · rw [if_neg hk]
      simp only [List.map_cons, List.mem_cons] at h
      rcases h with h | h
      · subst h; simp at hk
      · exact alookup_isSome_of_mem h

theorem join_eval (n : Int) (E d : List (Int × Atom)) (hnd : (d.map (·.1)).Nodup)
    (hE : ∀ e ∈ E, e.1 < n ∧ e.1 ∈ d.map (·.1)) :
    forIn E d (joinStep n) = .ok (E.foldl joinG d) := by
  refine forIn_inv (joinStep n) joinG (fun d' => d'.map (·.1) = d.map (·.1))
    (fun e => e.1 < n ∧ e.1 ∈ d.map (·.1)) ?_ E hE d rfl
  intro e he d' hd'
  obtain ⟨a, ha⟩ := alookup_isSome_of_mem (hd' ▸ he.2)
  refine ⟨?_, ?_⟩
  · unfold joinStep joinG
    rw [if_neg (by omega), ha]
    rfl
  · unfold joinG
    rw [keys_ainsert_of_mem (hd' ▸ hnd) (hd' ▸ he.2), hd']

/-- the dictionary after the join: every key keeps its place, the listed ones are updated -/
def joined (E : List (Int × Atom)) (p : Int × Atom) : Int × Atom :=
  (p.1, match alookup p.1 E with | some e => p.2.update e | none => p.2)

theorem join_fold : ∀ (E d : List (Int × Atom)), (d.map (·.1)).Nodup → (E.map (·.1)).Nodup →
    (∀ e ∈ E, e.1 ∈ d.map (·.1)) → E.foldl joinG d = d.map (joined E)
  | [], d, _, _, _ => by
    simp only [List.foldl_nil]
    conv => lhs; rw [← List.map_id d]
    apply List.map_congr_left
    intro p _
    rfl
  | e :: E', d, hnd, hE, hmem => by
    simp only [List.map_cons, List.nodup_cons] at hE
    have hk := hmem e List.mem_cons_self
    have hkeys : (joinG d e).map (·.1) = d.map (·.1) := keys_ainsert_of_mem hnd hk
    rw [List.foldl_cons, join_fold E' (joinG d e) (hkeys ▸ hnd) hE.2
      (fun x hx => hkeys ▸ hmem x (List.mem_cons_of_mem _ hx))]
    unfold joinG
    rw [ainsert_eq_map hnd hk, List.map_map]
    apply List.map_congr_left
    intro p hp
    simp only [Function.comp]
    by_cases hpe : (p.1 == e.1) = true
    · have hpe' : p.1 = e.1 := eq_of_beq hpe
      have hl : alookup e.1 d = some p.2 := by
        rw [← hpe']; exact alookup_of_mem hnd hp
      rw [if_pos hpe, hl]
      unfold joined
      simp only [Option.getD_some, alookup_none hE.1, alookup, hpe']
      simp
    · rw [if_neg hpe]
      unfold joined
      have : (e.1 == p.1) = false := by
        rw [beq_eq_false_iff_ne]; intro h; rw [h] at hpe; simp at hpe
      simp only [alookup, this, Bool.false_eq_true, if_false]

-- §MARK
end RoundTrip

/-- **C03 (model level), reconstruction half.** -/
theorem serialize_roundtrip (c : Graph) (hw : c.WF) (hs : c.Simple) (hmol : c.MolAtoms)
    (hsize : (natRepr (c.numberOfNodes + 1)).length ≤ intMaxStrDigits)
    (s : Str) (p : Graph) (h : serializeMolecule c = .ok (s, p)) :
    ∃ (H : Graph) (τ : Nat → Nat), graphFromTucan s = .ok H ∧ Iso SameIdent τ c H ∧
      H.labels = List.range c.numberOfNodes ∧ H.WF ∧ H.Simple ∧ H.MolAtoms ∧
      (∀ a ∈ H.labels, ∃ y, H.attrs? a = some y ∧ y.part = some 0) := by
  sorry

end Tucan
