import TucanProofs.Lemmas.SerializeTokens
import TucanProofs.Lemmas.GraphFromMolecule
import TucanProofs.Lemmas.LineMachinery
import TucanProofs.Lemmas.Pipeline
import TucanProofs.Lemmas.RejectKind
import TucanProofs.Lemmas.IsoCompose
/-!
# S6 — decode ∘ encode: parsing the emitted string reconstructs the molecule

For a molecule graph `c` (as the readers, the parser or `canonicalize_molecule` produce it) whose atoms
are chemistry-level atoms with an element symbol of the table and strictly positive mass / radical
values, parsing the string `serialize_molecule(c)` returns a graph `H` on the labels `0 … n-1` that is
`c` under a renaming `τ` of its atoms: same element, mass and radical on corresponding atoms, same
adjacency, hence the same number of atoms and bonds.
-/
namespace Tucan

/-- the atom-level domain of the round trip -/
structure MolAtom (x : Atom) : Prop where
  chem : x.Chem
  sym : ∃ s, x.sym = some s
  massPos : ∀ v, x.mass = some v → 0 < v ∧ (intRepr v).length ≤ intMaxStrDigits
  radPos : ∀ v, x.rad = some v → 0 < v ∧ (intRepr v).length ≤ intMaxStrDigits

def Graph.MolAtoms (g : Graph) : Prop := ∀ a ∈ g.labels, ∀ x, g.attrs? a = some x → MolAtom x

namespace RoundTrip
/-!
Structure of the proof.
* association lists; the three listener loops evaluated on explicit syntax trees (`formula_eval`,
  `tuples_eval`, `attrs_eval`);
* §1 `symOfZ` / `elementZ` are inverse on the table; the Hill items list every symbol with its
  multiplicity (`hill_perm`);
* §4 `to_graph` restated with explicit loop bodies (`toGraph_eq`), the bound check (`check_eval`), the
  attribute join (`join_eval`, `join_fold`), the bond dictionary (`bondsDict_fold`);
* §2' `SortedMol m n`: what is needed of the sorted molecule (labels `0 … n-1`, chemistry-level atoms,
  atomic numbers ascending along the labels); under it the listener results, the sorted atom list
  (`sorted_atoms`), the atom dictionary (`dict_eval`), `parse_run` and `parse_back`;
* §2 `sorted_facts`: `sort_molecule_by_attribute(·, ATOMIC_NUMBER)` produces such a molecule;
* §5 assembly.
-/

/-! ## association lists -/
section Assoc
variable {κ ν : Type} [BEq κ] [LawfulBEq κ]

theorem alookup_none {k : κ} : ∀ {l : List (κ × ν)}, k ∉ l.map (·.1) → alookup k l = none
  | [], _ => rfl
  | (k', v') :: r, h => by
    simp only [List.map_cons, List.mem_cons, not_or] at h
    have : (k' == k) = false := by
      rw [beq_eq_false_iff_ne]; exact fun e => h.1 e.symm
    simp only [alookup, this]
    exact alookup_none h.2

theorem alookup_append_single {k : κ} {v : ν} : ∀ {l : List (κ × ν)}, k ∉ l.map (·.1) →
    alookup k (l ++ [(k, v)]) = some v
  | [], _ => by simp [alookup]
  | (k', v') :: r, h => by
    simp only [List.map_cons, List.mem_cons, not_or] at h
    have : (k' == k) = false := by
      rw [beq_eq_false_iff_ne]; exact fun e => h.1 e.symm
    simp only [List.cons_append, alookup, this]
    exact alookup_append_single h.2

theorem ainsert_not_mem {k : κ} {v : ν} : ∀ {l : List (κ × ν)}, k ∉ l.map (·.1) →
    ainsert k v l = l ++ [(k, v)]
  | [], _ => rfl
  | (k', v') :: r, h => by
    simp only [List.map_cons, List.mem_cons, not_or] at h
    have : (k' == k) = false := by
      rw [beq_eq_false_iff_ne]; exact fun e => h.1 e.symm
    simp only [ainsert, this, List.cons_append]
    rw [ainsert_not_mem h.2]
    rfl

theorem ainsert_append_self {k : κ} {v v' : ν} : ∀ {l : List (κ × ν)}, k ∉ l.map (·.1) →
    ainsert k v' (l ++ [(k, v)]) = l ++ [(k, v')]
  | [], _ => by simp [ainsert]
  | (k', v0) :: r, h => by
    simp only [List.map_cons, List.mem_cons, not_or] at h
    have : (k' == k) = false := by
      rw [beq_eq_false_iff_ne]; exact fun e => h.1 e.symm
    simp only [List.cons_append, ainsert, this]
    rw [ainsert_append_self h.2]
    rfl

theorem alookup_of_mem {k : κ} {v : ν} : ∀ {l : List (κ × ν)}, (l.map (·.1)).Nodup →
    (k, v) ∈ l → alookup k l = some v
  | [], _, h => by simp at h
  | (k0, v0) :: r, hnd, h => by
    simp only [List.map_cons, List.nodup_cons] at hnd
    simp only [alookup]
    rcases List.mem_cons.1 h with h | h
    · cases h; simp
    · have hne : k0 ≠ k := fun he => hnd.1 (he ▸ List.mem_map_of_mem (f := (·.1)) h)
      have : (k0 == k) = false := by simpa using hne
      rw [this]
      exact alookup_of_mem hnd.2 h

theorem ainsert_eq_map {k : κ} {v : ν} : ∀ {l : List (κ × ν)}, (l.map (·.1)).Nodup → k ∈ l.map (·.1) →
    ainsert k v l = l.map (fun p => if p.1 == k then (k, v) else p)
  | [], _, h => by simp at h
  | (k0, v0) :: r, hnd, h => by
    simp only [List.map_cons, List.nodup_cons] at hnd
    simp only [ainsert, List.map_cons]
    by_cases hk : (k0 == k) = true
    · simp only [hk, if_true]
      congr 1
      have hk' : k0 = k := eq_of_beq hk
      subst hk'
      symm
      conv => rhs; rw [← List.map_id r]
      apply List.map_congr_left
      intro p hp
      have : (p.1 == k0) = false := by
        rw [beq_eq_false_iff_ne]
        intro e
        exact hnd.1 (e ▸ List.mem_map_of_mem (f := (·.1)) hp)
      simp [this]
    · have hk' : (k0 == k) = false := by simpa using hk
      simp only [hk', Bool.false_eq_true, if_false]
      congr 1
      apply ainsert_eq_map hnd.2
      simp only [List.map_cons, List.mem_cons] at h
      rcases h with h | h
      · subst h; simp at hk'
      · exact h

end Assoc

/-! ## listener: formula -/


def formulaStep (acc : List Atom) (p : Str × Option Str) : PyM (List Atom) :=
  match p with
  | (sym, cnt) => do
    let count ← match cnt with
      | none => pure (1 : Int)
      | some c => listenerInt c
    let z ← match elementZ sym with
      | some z => pure z
      | none => .error .keyError
    let a : Atom := { sym := some sym, z := some (z : Int), part := some 0 }
    pure (acc ++ List.replicate count.toNat a)

theorem listenFormula_eq (f : List (Str × Option Str)) : listenFormula f = f.foldlM formulaStep [] := rfl

def mkAtom (s : Str) : Atom :=
  { sym := some s, z := some (((elementZ s).getD 0 : Nat) : Int), part := some 0 }

theorem listenerInt_natRepr (n : Nat) (h : (natRepr n).length ≤ intMaxStrDigits) :
    listenerInt (natRepr n) = .ok (n : Int) := by
  unfold listenerInt
  rw [pyInt_natRepr n h]

theorem formulaStep_eval (acc : List Atom) (s : Str) (c : Nat) (z : Nat) (hc : 1 ≤ c)
    (hlen : (natRepr c).length ≤ intMaxStrDigits) (hz : elementZ s = some z) :
    formulaStep acc (s, countText c) = .ok (acc ++ List.replicate c (mkAtom s)) := by
  unfold formulaStep mkAtom countText
  by_cases h1 : c > 1
  · simp only [h1, if_true, listenerInt_natRepr c hlen, hz]
    rfl
  · have : c = 1 := by omega
    subst this
    simp only [h1, if_false, hz]
    rfl


theorem formula_eval : ∀ (items : List (Str × Nat)) (acc : List Atom),
    (∀ i ∈ items, 1 ≤ i.2 ∧ (natRepr i.2).length ≤ intMaxStrDigits ∧ (elementZ i.1).isSome) →
    (items.map fun i => (i.1, countText i.2)).foldlM formulaStep acc
      = .ok (acc ++ items.flatMap fun i => List.replicate i.2 (mkAtom i.1))
  | [], acc, _ => by simp [pure, Except.pure]
  | i :: r, acc, h => by
    obtain ⟨h1, h2, h3⟩ := h i List.mem_cons_self
    obtain ⟨z, hz⟩ := Option.isSome_iff_exists.mp h3
    rw [List.map_cons, List.foldlM_cons, formulaStep_eval acc i.1 i.2 z h1 h2 hz]
    show List.foldlM formulaStep _ _ = _
    rw [formula_eval r _ (fun j hj => h j (List.mem_cons_of_mem _ hj))]
    simp [List.flatMap_cons]

/-! ## listener: tuples -/

def tupleStep (acc : List (Int × Int)) (p : Str × Str) : PyM (List (Int × Int)) :=
  match p with
  | (a, b) => do
    let i1 ← listenerInt a
    let i2 ← listenerInt b
    if i1 == i2 then .error .tucanParser else pure (acc ++ [(i1 - 1, i2 - 1)])

theorem listenTuples_eq (tu : List (Str × Str)) : listenTuples tu = tu.foldlM tupleStep [] := rfl

theorem tupleStep_eval (acc : List (Int × Int)) (a b : Nat) (hab : a ≠ b)
    (ha : (natRepr (a + 1)).length ≤ intMaxStrDigits) (hb : (natRepr (b + 1)).length ≤ intMaxStrDigits) :
    tupleStep acc (natRepr (a + 1), natRepr (b + 1)) = .ok (acc ++ [((a : Int), (b : Int))]) := by
  unfold tupleStep
  simp only [listenerInt_natRepr _ ha, listenerInt_natRepr _ hb]
  have hne : (((a + 1 : Nat) : Int) == ((b + 1 : Nat) : Int)) = false := by
    rw [beq_eq_false_iff_ne]; omega
  have e1 : ((a + 1 : Nat) : Int) - 1 = (a : Int) := by omega
  have e2 : ((b + 1 : Nat) : Int) - 1 = (b : Int) := by omega
  show (if (((a + 1 : Nat) : Int) == ((b + 1 : Nat) : Int)) = true then _ else _) = _
  rw [hne, e1, e2]
  rfl

theorem tuples_eval : ∀ (es : List (Nat × Nat)) (acc : List (Int × Int)),
    (∀ e ∈ es, e.1 ≠ e.2 ∧ (natRepr (e.1 + 1)).length ≤ intMaxStrDigits ∧
      (natRepr (e.2 + 1)).length ≤ intMaxStrDigits) →
    (es.map fun e => (natRepr (e.1 + 1), natRepr (e.2 + 1))).foldlM tupleStep acc
      = .ok (acc ++ es.map fun e => ((e.1 : Int), (e.2 : Int)))
  | [], acc, _ => by simp [pure, Except.pure]
  | e :: r, acc, h => by
    obtain ⟨h1, h2, h3⟩ := h e List.mem_cons_self
    rw [List.map_cons, List.foldlM_cons, tupleStep_eval acc e.1 e.2 h1 h2 h3]
    show List.foldlM tupleStep _ _ = _
    rw [tuples_eval r _ (fun j hj => h j (List.mem_cons_of_mem _ hj))]
    simp

/-! ## listener: node attributes -/

def propStep (idx : Str) (acc : List (Int × Atom)) (q : Str × Str) : PyM (List (Int × Atom)) :=
  match q with
  | (k, v) => do
    let i ← listenerInt idx
    let value ← listenerInt v
    let key ← match attrKeyOf k with
      | some key => pure key
      | none => .error .keyError
    let cur := (alookup (i - 1) acc).getD {}
    let cur' ← setAttr key value cur
    pure (ainsert (i - 1) cur' acc)

def blockStep (acc : List (Int × Atom)) (p : Str × List (Str × Str)) : PyM (List (Int × Atom)) :=
  match p with
  | (idx, props) => props.foldlM (propStep idx) acc

theorem listenAttrs_eq (ats : List (Str × List (Str × Str))) :
    listenAttrs ats = ats.foldlM blockStep [] := rfl

theorem listenerInt_intRepr (v : Int) (h : (intRepr v).length ≤ intMaxStrDigits) :
    listenerInt (intRepr v) = .ok v := by
  unfold listenerInt
  rw [pyInt_intRepr v h]

theorem propStep_mass (id : Nat) (acc : List (Int × Atom)) (v : Int)
    (hid : (natRepr (id + 1)).length ≤ intMaxStrDigits) (hv : (intRepr v).length ≤ intMaxStrDigits) :
    propStep (natRepr (id + 1)) acc ("mass".toList, intRepr v) =
      (setAttr "mass" v ((alookup (id : Int) acc).getD {})).bind fun cur' =>
        .ok (ainsert (id : Int) cur' acc) := by
  unfold propStep
  simp only [listenerInt_natRepr _ hid, listenerInt_intRepr v hv, RejectKind.attrKeyOf_keys.1]
  have e1 : ((id + 1 : Nat) : Int) - 1 = (id : Int) := by omega
  show (setAttr "mass" v ((alookup (((id + 1 : Nat) : Int) - 1) acc).getD {})).bind
    (fun cur' => Except.ok (ainsert (((id + 1 : Nat) : Int) - 1) cur' acc)) = _
  rw [e1]

theorem propStep_rad (id : Nat) (acc : List (Int × Atom)) (v : Int)
    (hid : (natRepr (id + 1)).length ≤ intMaxStrDigits) (hv : (intRepr v).length ≤ intMaxStrDigits) :
    propStep (natRepr (id + 1)) acc ("rad".toList, intRepr v) =
      (setAttr "rad" v ((alookup (id : Int) acc).getD {})).bind fun cur' =>
        .ok (ainsert (id : Int) cur' acc) := by
  unfold propStep
  simp only [listenerInt_natRepr _ hid, listenerInt_intRepr v hv, RejectKind.attrKeyOf_keys.2]
  have e1 : ((id + 1 : Nat) : Int) - 1 = (id : Int) := by omega
  show (setAttr "rad" v ((alookup (((id + 1 : Nat) : Int) - 1) acc).getD {})).bind
    (fun cur' => Except.ok (ainsert (((id + 1 : Nat) : Int) - 1) cur' acc)) = _
  rw [e1]

/-- the record `_node_attributes` holds for an atom -/
def recOf (a : Atom) : Atom := { mass := a.mass, rad := a.rad }

theorem setAttr_mass (v : Int) (a : Atom) (h : a.mass = none) :
    setAttr "mass" v a = .ok { a with mass := some v } := by
  unfold setAttr
  simp [h, pure, Except.pure]

theorem setAttr_rad (v : Int) (a : Atom) (h : a.rad = none) :
    setAttr "rad" v a = .ok { a with rad := some v } := by
  unfold setAttr
  have : ("rad" == "mass") = false := by decide
  simp [this, h, pure, Except.pure]

theorem blockStep_eval (id : Nat) (a : Atom) (acc : List (Int × Atom))
    (hne : attrPairs a ≠ [])
    (hid : (natRepr (id + 1)).length ≤ intMaxStrDigits)
    (hm : ∀ v, a.mass = some v → (intRepr v).length ≤ intMaxStrDigits)
    (hr : ∀ v, a.rad = some v → (intRepr v).length ≤ intMaxStrDigits)
    (hfresh : (id : Int) ∉ acc.map (·.1)) :
    blockStep acc (natRepr (id + 1), attrPairs a) = .ok (acc ++ [((id : Int), recOf a)]) := by
  unfold blockStep attrPairs recOf
  cases hmass : a.mass with
  | none =>
    cases hrad : a.rad with
    | none => simp [attrPairs, hmass, hrad] at hne
    | some r =>
      simp only [List.nil_append, List.foldlM_cons, List.foldlM_nil]
      rw [propStep_rad id acc r hid (hr r hrad), alookup_none hfresh]
      simp only [Option.getD_none]
      rw [setAttr_rad r {} rfl]
      show Except.ok (ainsert _ _ _) = _
      rw [ainsert_not_mem hfresh]
  | some v =>
    cases hrad : a.rad with
    | none =>
      simp only [List.append_nil, List.foldlM_cons, List.foldlM_nil]
      rw [propStep_mass id acc v hid (hm v hmass), alookup_none hfresh]
      simp only [Option.getD_none]
      rw [setAttr_mass v {} rfl]
      show Except.ok (ainsert _ _ _) = _
      rw [ainsert_not_mem hfresh]
    | some r =>
      simp only [List.cons_append, List.nil_append, List.foldlM_cons, List.foldlM_nil]
      rw [propStep_mass id acc v hid (hm v hmass), alookup_none hfresh]
      simp only [Option.getD_none]
      rw [setAttr_mass v {} rfl]
      simp only [Except.bind, bind]
      rw [ainsert_not_mem hfresh, propStep_rad id _ r hid (hr r hrad), alookup_append_single hfresh]
      simp only [Option.getD_some]
      rw [setAttr_rad r _ rfl]
      simp only [Except.bind]
      rw [ainsert_append_self hfresh]
      rfl

def hasAttr (nd : Node) : Bool := !(attrPairs nd.attrs).isEmpty

theorem attrs_eval : ∀ (ns : List Node) (acc : List (Int × Atom)),
    (ns.map (·.id)).Nodup →
    (∀ nd ∈ ns, (natRepr (nd.id + 1)).length ≤ intMaxStrDigits ∧
      (∀ v, nd.attrs.mass = some v → (intRepr v).length ≤ intMaxStrDigits) ∧
      (∀ v, nd.attrs.rad = some v → (intRepr v).length ≤ intMaxStrDigits) ∧
      (nd.id : Int) ∉ acc.map (·.1)) →
    (ns.filterMap SerTok.nodeBlock).foldlM blockStep acc
      = .ok (acc ++ (ns.filter hasAttr).map fun nd => ((nd.id : Int), recOf nd.attrs))
  | [], acc, _, _ => by simp [pure, Except.pure]
  | nd :: r, acc, hnd, h => by
    obtain ⟨h1, h2, h3, h4⟩ := h nd List.mem_cons_self
    simp only [List.map_cons, List.nodup_cons] at hnd
    rw [List.filterMap_cons, List.filter_cons]
    by_cases he : (attrPairs nd.attrs).isEmpty = true
    · have e1 : SerTok.nodeBlock nd = none := by unfold SerTok.nodeBlock; rw [if_pos he]
      have e2 : hasAttr nd = false := by unfold hasAttr; rw [he]; rfl
      simp only [e1, e2, Bool.false_eq_true, if_false]
      exact attrs_eval r acc hnd.2 (fun x hx => h x (List.mem_cons_of_mem _ hx))
    · have e1 : SerTok.nodeBlock nd = some (natRepr (nd.id + 1), attrPairs nd.attrs) := by
        unfold SerTok.nodeBlock; rw [if_neg he]
      have e2 : hasAttr nd = true := by
        unfold hasAttr; simp only [Bool.not_eq_true] at he; rw [he]; rfl
      have hne : attrPairs nd.attrs ≠ [] := by
        intro hc; rw [hc] at he; exact he rfl
      simp only [e1, e2, if_true]
      rw [List.foldlM_cons, blockStep_eval nd.id nd.attrs acc hne h1 h2 h3 h4]
      show List.foldlM blockStep _ _ = _
      rw [attrs_eval r _ hnd.2]
      · simp
      · intro x hx
        obtain ⟨g1, g2, g3, g4⟩ := h x (List.mem_cons_of_mem _ hx)
        refine ⟨g1, g2, g3, ?_⟩
        simp only [List.map_append, List.map_cons, List.map_nil, List.mem_append, List.mem_singleton, not_or]
        refine ⟨g4, ?_⟩
        intro hc
        have : x.id = nd.id := by omega
        exact hnd.1 (this ▸ List.mem_map_of_mem (f := (·.id)) hx)

/-! ## §1 the element table: `symOfZ` and `elementZ` are inverse -/

theorem table_lookup : Tables.elementTable.all
    (fun e => alookup e.1 Tables.elementTable == some e.2 && decide (1 ≤ e.2)) = true := by
  decide +kernel

theorem symOfZ_spec {z : Int} {s : Str} (h : symOfZ z = some s) :
    s ∈ elementSyms ∧ elementZ s = some z.toNat ∧ 1 ≤ z := by
  unfold symOfZ at h
  cases hf : Tables.elementTable.find? (fun e => (e.2 : Int) == z) with
  | none => rw [hf] at h; cases h
  | some e =>
    rw [hf] at h
    simp only [Option.map_some, Option.some.injEq] at h
    have hmem := List.mem_of_find?_eq_some hf
    have hz : (e.2 : Int) = z := by simpa using List.find?_some hf
    have ht := List.all_eq_true.mp table_lookup e hmem
    simp only [Bool.and_eq_true, beq_iff_eq, decide_eq_true_eq] at ht
    subst h
    refine ⟨?_, ?_, by omega⟩
    · unfold elementSyms elementSymbols
      exact List.mem_map_of_mem (List.mem_map_of_mem hmem)
    · unfold elementZ
      rw [String.ofList_toList, ht.1, ← hz]
      rfl

/-! ## digit counts -/

theorem natRepr_len_mono {a b : Nat} (hab : a ≤ b) (h : (natRepr b).length ≤ intMaxStrDigits) :
    (natRepr a).length ≤ intMaxStrDigits := by
  rw [LineM.natRepr_eq] at h ⊢
  have hk : 0 < intMaxStrDigits := by decide
  rw [Nat.length_toDigits_le_iff (by decide) hk] at h ⊢
  omega

/-! ## the Hill items list every symbol with its multiplicity -/

theorem count_flatMap_replicate {α : Type} [BEq α] [LawfulBEq α] (c : α → Nat) (s : α) :
    ∀ (items : List (α × Nat)), (items.map (·.1)).Nodup → (∀ i ∈ items, i.2 = c i.1) →
    List.count s (items.flatMap fun i => List.replicate i.2 i.1)
      = if s ∈ items.map (·.1) then c s else 0
  | [], _, _ => by simp
  | i :: r, hnd, h => by
    simp only [List.map_cons, List.nodup_cons] at hnd
    have ih := count_flatMap_replicate c s r hnd.2 (fun j hj => h j (List.mem_cons_of_mem _ hj))
    rw [List.flatMap_cons, List.count_append, List.count_replicate, ih]
    by_cases hs : i.1 = s
    · subst hs
      simp [hnd.1, h i List.mem_cons_self]
    · have : (i.1 == s) = false := by simpa using hs
      have hs' : ¬ s = i.1 := fun e => hs e.symm
      have hm : s ∈ List.map (·.1) (i :: r) ↔ s ∈ List.map (·.1) r := by
        simp [hs']
      simp only [this, Bool.false_eq_true, if_false, Nat.zero_add, hm]

theorem hill_perm (syms : List Str) :
    ((hillItems syms).flatMap fun i => List.replicate i.2 i.1).Perm syms := by
  obtain ⟨h1, h2, h3⟩ := hillItems_counts syms
  rw [List.perm_iff_count]
  intro s
  rw [count_flatMap_replicate (fun k => countOcc k syms) s _ h2 (fun i hi => (h1 i hi).2)]
  split
  · rw [List.count_eq_length_filter]; rfl
  · next hn =>
    rw [h3] at hn
    exact (List.count_eq_zero.mpr hn).symm

theorem hill_perm_map {β : Type} (f : Str → β) (syms : List Str) :
    ((hillItems syms).flatMap fun i => List.replicate i.2 (f i.1)).Perm (syms.map f) := by
  have := (hill_perm syms).map f
  rw [List.map_flatMap] at this
  simpa using this

/-! ## §4 `to_graph` -/

def checkStep (n : Int) (x : Int × Int) (_s : PUnit.{1}) : PyM (ForInStep PUnit.{1}) :=
  if x.1 ≥ n then .error .tucanParser
  else if x.2 ≥ n then .error .tucanParser else .ok (.yield PUnit.unit)

def joinStep (n : Int) (x : Int × Atom) (d : List (Int × Atom)) : PyM (ForInStep (List (Int × Atom))) :=
  if x.1 ≥ n then .error .tucanParser
  else match alookup x.1 d with
    | none => .error .keyError
    | some a => .ok (.yield (ainsert x.1 (a.update x.2) d))

theorem toGraph_eq (st : ListenerState) : toGraph st =
    (forIn st.bonds PUnit.unit (checkStep st.atoms.length)) >>= fun _ =>
    (forIn st.nodeAttrs ((sortAtomsByZ st.atoms).zipIdx.map fun (a, i) => ((i : Int), a))
      (joinStep st.atoms.length)) >>= fun d =>
    graphFromMolecule d (st.bonds.foldl (fun d b => ainsert b ({} : Bond) d) []) >>= fun x =>
    pure x.1 := by
  rfl

theorem forIn_inv {α β : Type} (f : α → β → PyM (ForInStep β)) (g : β → α → β) (I : β → Prop)
    (Q : α → Prop) (hf : ∀ a, Q a → ∀ b, I b → f a b = .ok (.yield (g b a)) ∧ I (g b a)) :
    ∀ (l : List α), (∀ a ∈ l, Q a) → ∀ b, I b → forIn l b f = .ok (l.foldl g b)
  | [], _, b, _ => rfl
  | a :: l, hl, b, hb => by
    obtain ⟨h1, h2⟩ := hf a (hl a List.mem_cons_self) b hb
    rw [List.forIn_cons, h1, List.foldl_cons]
    exact forIn_inv f g I Q hf l (fun x hx => hl x (List.mem_cons_of_mem _ hx)) _ h2

theorem check_eval (n : Int) (bonds : List (Int × Int)) (h : ∀ b ∈ bonds, b.1 < n ∧ b.2 < n) :
    forIn bonds PUnit.unit (checkStep n) = .ok PUnit.unit := by
  have key := forIn_inv (checkStep n) (fun _ _ => PUnit.unit) (fun _ => True)
    (fun b => b.1 < n ∧ b.2 < n) ?_ bonds h PUnit.unit trivial
  · rw [key]
  · intro a ha b _
    refine ⟨?_, trivial⟩
    unfold checkStep
    rw [if_neg (by omega), if_neg (by omega)]

/-- one step of the attribute join, as a pure function -/
def joinG (d : List (Int × Atom)) (e : Int × Atom) : List (Int × Atom) :=
  ainsert e.1 (((alookup e.1 d).getD default).update e.2) d

theorem keys_ainsert_of_mem {k : Int} {v : Atom} {d : List (Int × Atom)} (hnd : (d.map (·.1)).Nodup)
    (hk : k ∈ d.map (·.1)) : (ainsert k v d).map (·.1) = d.map (·.1) := by
  rw [ainsert_eq_map hnd hk, List.map_map]
  apply List.map_congr_left
  intro p _
  simp only [Function.comp]
  split
  · next h => exact (eq_of_beq h).symm
  · rfl

theorem alookup_isSome_of_mem {k : Int} : ∀ {d : List (Int × Atom)}, k ∈ d.map (·.1) →
    ∃ a, alookup k d = some a
  | [], h => by simp at h
  | (k0, v0) :: r, h => by
    simp only [alookup]
    by_cases hk : (k0 == k) = true
    · exact ⟨v0, by rw [if_pos hk]⟩
    · rw [if_neg hk]
      simp only [List.map_cons, List.mem_cons] at h
      rcases h with h | h
      · subst h; simp at hk
      · exact alookup_isSome_of_mem h

theorem join_eval (n : Int) (E d : List (Int × Atom)) (hnd : (d.map (·.1)).Nodup)
    (hE : ∀ e ∈ E, e.1 < n ∧ e.1 ∈ d.map (·.1)) :
    forIn E d (joinStep n) = .ok (E.foldl joinG d) := by
  refine forIn_inv (joinStep n) joinG (fun d' => d'.map (·.1) = d.map (·.1))
    (fun e => e.1 < n ∧ e.1 ∈ d.map (·.1)) ?_ E hE d rfl
  intro e he d' hd'
  obtain ⟨a, ha⟩ := alookup_isSome_of_mem (hd' ▸ he.2)
  refine ⟨?_, ?_⟩
  · unfold joinStep joinG
    rw [if_neg (by omega), ha]
    rfl
  · unfold joinG
    rw [keys_ainsert_of_mem (hd' ▸ hnd) (hd' ▸ he.2), hd']

/-- the dictionary after the join: every key keeps its place, the listed ones are updated -/
def joined (E : List (Int × Atom)) (p : Int × Atom) : Int × Atom :=
  (p.1, match alookup p.1 E with | some e => p.2.update e | none => p.2)

theorem join_fold : ∀ (E d : List (Int × Atom)), (d.map (·.1)).Nodup → (E.map (·.1)).Nodup →
    (∀ e ∈ E, e.1 ∈ d.map (·.1)) → E.foldl joinG d = d.map (joined E)
  | [], d, _, _, _ => by
    simp only [List.foldl_nil]
    conv => lhs; rw [← List.map_id d]
    apply List.map_congr_left
    intro p _
    rfl
  | e :: E', d, hnd, hE, hmem => by
    simp only [List.map_cons, List.nodup_cons] at hE
    have hk := hmem e List.mem_cons_self
    have hkeys : (joinG d e).map (·.1) = d.map (·.1) := keys_ainsert_of_mem hnd hk
    rw [List.foldl_cons, join_fold E' (joinG d e) (hkeys ▸ hnd) hE.2
      (fun x hx => hkeys ▸ hmem x (List.mem_cons_of_mem _ hx))]
    unfold joinG
    rw [ainsert_eq_map hnd hk, List.map_map]
    apply List.map_congr_left
    intro p hp
    simp only [Function.comp]
    by_cases hpe : (p.1 == e.1) = true
    · have hpe' : p.1 = e.1 := eq_of_beq hpe
      have hl : alookup e.1 d = some p.2 := by
        rw [← hpe']; exact alookup_of_mem hnd hp
      rw [if_pos hpe, hl]
      unfold joined
      simp only [Option.getD_some, alookup_none hE.1, alookup, hpe']
      simp
    · rw [if_neg hpe]
      unfold joined
      have : (e.1 == p.1) = false := by
        rw [beq_eq_false_iff_ne]; intro h; rw [h] at hpe; simp at hpe
      simp only [alookup, this, Bool.false_eq_true, if_false]

theorem bondsDict_fold : ∀ (bs : List (Int × Int)) (acc : List ((Int × Int) × Bond)),
    bs.Nodup → (∀ b ∈ bs, b ∉ acc.map (·.1)) →
    bs.foldl (fun d b => ainsert b ({} : Bond) d) acc = acc ++ bs.map fun b => (b, ({} : Bond))
  | [], acc, _, _ => by simp
  | b :: r, acc, hnd, h => by
    rw [List.nodup_cons] at hnd
    rw [List.foldl_cons, ainsert_not_mem (h b List.mem_cons_self), bondsDict_fold r _ hnd.2]
    · simp
    · intro x hx
      simp only [List.map_append, List.map_cons, List.map_nil, List.mem_append, List.mem_singleton, not_or]
      refine ⟨h x (List.mem_cons_of_mem _ hx), ?_⟩
      rintro rfl
      exact hnd.1 hx

theorem zipIdx_range_map {β : Type} (f : Nat → β) (n : Nat) :
    ((List.range n).map f).zipIdx = (List.range n).map fun i => (f i, i) := by
  apply List.ext_getElem
  · simp
  · intro i h1 h2
    simp at h1
    simp [List.getElem_zipIdx]

/-! ## §2' what the front half of the proof establishes about the sorted molecule -/

/-- the atom with label `i` (`default` outside the graph) -/
def atomAt (m : Graph) (i : Nat) : Atom := (m.attrs? i).getD default

structure SortedMol (m : Graph) (n : Nat) : Prop where
  wf : m.WF
  simple : m.Simple
  labels : m.labels.Perm (List.range n)
  mol : m.MolAtoms
  zsorted : ∀ i j, i < j → j < n → (atomAt m i).z.getD 0 ≤ (atomAt m j).z.getD 0

/-- the atom record the listener creates for label `i` -/
def bareAt (m : Graph) (i : Nat) : Atom :=
  { sym := (atomAt m i).sym, z := (atomAt m i).z, part := some 0 }

/-- the atom record `to_graph` passes to `graph_from_molecule` for label `i` -/
def fullAt (m : Graph) (i : Nat) : Atom :=
  { sym := (atomAt m i).sym, z := (atomAt m i).z, part := some 0,
    mass := (atomAt m i).mass, rad := (atomAt m i).rad }

namespace SortedMol
variable {m : Graph} {n : Nat} (S : SortedMol m n)
include S

theorem mem_labels {i : Nat} : i ∈ m.labels ↔ i < n := by
  rw [S.labels.mem_iff, List.mem_range]

theorem attrs_at {i : Nat} (hi : i < n) : m.attrs? i = some (atomAt m i) := by
  obtain ⟨x, hx⟩ := Graph.attrs?_some_of_mem (S.mem_labels.mpr hi)
  unfold atomAt
  rw [hx]; rfl

theorem molAt {i : Nat} (hi : i < n) : MolAtom (atomAt m i) :=
  S.mol i (S.mem_labels.mpr hi) _ (S.attrs_at hi)

theorem numberOfNodes : m.numberOfNodes = n := by
  have := S.labels.length_eq
  simpa [Graph.numberOfNodes, Graph.labels] using this

end SortedMol

/-- everything the chemistry-level hypotheses say about one atom -/
theorem molAtom_facts {x : Atom} (h : MolAtom x) :
    ∃ (z : Int) (s : Str), x.z = some z ∧ x.sym = some s ∧ symOfZ z = some s ∧ s ∈ elementSyms ∧
      elementZ s = some z.toNat ∧ 1 ≤ z ∧ x.inv = some [z, x.mass.getD 0, x.rad.getD 0] := by
  obtain ⟨z, hz, hs, hi, _, _⟩ := h.chem
  obtain ⟨s, hsym⟩ := h.sym
  have hsz : symOfZ z = some s := by rw [← hs, hsym]
  obtain ⟨h1, h2, h3⟩ := symOfZ_spec hsz
  exact ⟨z, s, hz, hsym, hsz, h1, h2, h3, hi⟩

theorem mkAtom_of_mol {x : Atom} (h : MolAtom x) {s : Str} (hs : x.sym = some s) :
    mkAtom s = { sym := x.sym, z := x.z, part := some 0 } := by
  obtain ⟨z, s', hz, hs', _, _, he, h1, _⟩ := molAtom_facts h
  rw [hs] at hs'
  injection hs' with hs'
  subst hs'
  unfold mkAtom
  rw [he, hz, hs]
  simp only [Option.getD_some]
  congr 2
  omega

namespace SortedMol
variable {m : Graph} {n : Nat} (S : SortedMol m n)
include S

theorem node_mol {nd : Node} (hn : nd ∈ m.nodes) : MolAtom nd.attrs ∧ nd.id < n ∧ nd.attrs = atomAt m nd.id := by
  have hid : nd.id ∈ m.labels := List.mem_map_of_mem (f := (·.id)) hn
  have ha := NxRelabel.attrs?_of_mem S.wf.nodup hn
  refine ⟨S.mol nd.id hid _ ha, S.mem_labels.mp hid, ?_⟩
  unfold atomAt
  rw [ha]; rfl

theorem syms_elem : ∀ s ∈ m.nodes.filterMap (·.attrs.sym), s ∈ elementSyms ∧ (elementZ s).isSome := by
  intro s hs
  obtain ⟨nd, hn, hsym⟩ := List.mem_filterMap.mp hs
  obtain ⟨z, s', _, hs', _, h1, h2, _⟩ := molAtom_facts (S.node_mol hn).1
  rw [hsym] at hs'
  injection hs' with hs'
  subst hs'
  exact ⟨h1, by rw [h2]; rfl⟩

theorem formula_listen (hsize : (natRepr (n + 1)).length ≤ intMaxStrDigits) :
    listenFormula (astOf m).formula = .ok ((hillItems (m.nodes.filterMap (·.attrs.sym))).flatMap
      fun i => List.replicate i.2 (mkAtom i.1)) := by
  rw [listenFormula_eq]
  show List.foldlM formulaStep [] ((hillItems (m.nodes.filterMap (·.attrs.sym))).map
    fun i => (i.1, countText i.2)) = _
  rw [formula_eval _ [] ?_]
  · rfl
  · intro i hi
    obtain ⟨h1, _, h3⟩ := hillItems_counts (m.nodes.filterMap (·.attrs.sym))
    obtain ⟨hpos, hcnt⟩ := h1 i hi
    have hmem : i.1 ∈ m.nodes.filterMap (·.attrs.sym) := (h3 i.1).mp (List.mem_map_of_mem hi)
    refine ⟨hpos, ?_, (S.syms_elem _ hmem).2⟩
    apply natRepr_len_mono _ hsize
    rw [hcnt]
    unfold countOcc
    have l1 := List.length_filter_le (fun x => x == i.1) (m.nodes.filterMap (·.attrs.sym))
    have l2 := List.length_filterMap_le (fun (nd : Node) => nd.attrs.sym) m.nodes
    have l3 := S.numberOfNodes
    unfold Graph.numberOfNodes at l3
    omega

theorem bare_perm :
    ((hillItems (m.nodes.filterMap (·.attrs.sym))).flatMap fun i => List.replicate i.2 (mkAtom i.1)).Perm
      ((List.range n).map (bareAt m)) := by
  refine (hill_perm_map mkAtom _).trans ?_
  have e1 : (m.nodes.filterMap (·.attrs.sym)).map mkAtom
      = m.nodes.filterMap (fun nd => (fun (_ : Nat) (x : Atom) => x.sym.map mkAtom) nd.id nd.attrs) := by
    rw [List.map_filterMap]
  rw [e1, SerializeCongr.nodes_filterMap_eq_labels S.wf (fun (_ : Nat) (x : Atom) => x.sym.map mkAtom)]
  refine (S.labels.filterMap _).trans ?_
  have e2 : (List.range n).filterMap (fun a => (m.attrs? a).bind fun x => x.sym.map mkAtom)
      = (List.range n).filterMap (fun a => some (bareAt m a)) := by
    apply SerializeCongr.filterMap_congr
    intro a ha
    have ha' := List.mem_range.mp ha
    rw [S.attrs_at ha']
    obtain ⟨s, hs⟩ := (S.molAt ha').sym
    simp only [Option.bind_some, hs, Option.map_some]
    rw [mkAtom_of_mol (S.molAt ha') hs]
    rfl
  rw [e2, List.filterMap_eq_map']

end SortedMol

namespace SortedMol
variable {m : Graph} {n : Nat} (S : SortedMol m n)
include S

theorem bareAt_inj {i j : Nat} (hi : i < n) (hj : j < n)
    (h : (bareAt m i).z.getD 0 = (bareAt m j).z.getD 0) : bareAt m i = bareAt m j := by
  obtain ⟨z, _, hz, _, _, _, _, _, _⟩ := molAtom_facts (S.molAt hi)
  obtain ⟨z', _, hz', _, _, _, _, _, _⟩ := molAtom_facts (S.molAt hj)
  obtain ⟨w, hw1, hw2, _⟩ := (S.molAt hi).chem
  obtain ⟨w', hw1', hw2', _⟩ := (S.molAt hj).chem
  unfold bareAt at h ⊢
  simp only [hz, hz', Option.getD_some] at h
  subst h
  rw [hz] at hw1; injection hw1 with hw1; subst hw1
  rw [hz'] at hw1'; injection hw1' with hw1'; subst hw1'
  rw [hw2, hw2', hz, hz']

theorem sorted_atoms :
    sortAtomsByZ ((hillItems (m.nodes.filterMap (·.attrs.sym))).flatMap
      fun i => List.replicate i.2 (mkAtom i.1)) = (List.range n).map (bareAt m) := by
  have hp := S.bare_perm
  generalize ((hillItems (m.nodes.filterMap (·.attrs.sym))).flatMap
      fun i => List.replicate i.2 (mkAtom i.1)) = A at hp ⊢
  unfold sortAtomsByZ
  have hs1 := List.pairwise_mergeSort (le := fun (a b : Atom) => decide (a.z.getD 0 ≤ b.z.getD 0))
    (fun a b c h1 h2 => by
      simp only [decide_eq_true_eq] at h1 h2 ⊢; omega)
    (fun a b => by
      simp only [Bool.or_eq_true, decide_eq_true_eq]; omega) A
  have hs2 : ((List.range n).map (bareAt m)).Pairwise
      (fun a b => decide (a.z.getD 0 ≤ b.z.getD 0) = true) := by
    rw [List.pairwise_map]
    refine List.Pairwise.imp_of_mem ?_ List.pairwise_lt_range
    intro i j _ hj hij
    simp only [decide_eq_true_eq]
    exact S.zsorted i j hij (List.mem_range.mp hj)
  refine List.Perm.eq_of_pairwise ?_ hs1 hs2 ((List.mergeSort_perm _ _).trans hp)
  intro a b ha hb h1 h2
  have ha' : a ∈ (List.range n).map (bareAt m) :=
    hp.mem_iff.mp (List.mem_mergeSort.mp ha)
  obtain ⟨i, hi, rfl⟩ := List.mem_map.mp ha'
  obtain ⟨j, hj, rfl⟩ := List.mem_map.mp hb
  simp only [decide_eq_true_eq] at h1 h2
  exact S.bareAt_inj (List.mem_range.mp hi) (List.mem_range.mp hj) (by omega)

end SortedMol

theorem adj_symm {g : Graph} (hw : g.WF) {a b : Nat} (h : g.Adj a b) : g.Adj b a := by
  rw [NxE.adj_iff] at h ⊢
  obtain ⟨d, hd⟩ := h
  exact ⟨d, NxE.WF.symmD hw hd⟩

theorem adj_ne {g : Graph} (hs : g.Simple) {a b : Nat} (h : g.Adj a b) : b ≠ a := by
  rw [NxE.adj_iff] at h
  obtain ⟨d, hd⟩ := h
  exact NxE.Simple.neD hs hd

/-- the edge list as the parser's bond list -/
def castE (e : Nat × Nat) : Int × Int := ((e.1 : Int), (e.2 : Int))

theorem castE_inj {e e' : Nat × Nat} (h : castE e = castE e') : e = e' := by
  unfold castE at h
  simp only [Prod.mk.injEq] at h
  obtain ⟨a, b⟩ := e
  obtain ⟨a', b'⟩ := e'
  simp only [Prod.mk.injEq]
  simp only at h
  omega

namespace SortedMol
variable {m : Graph} {n : Nat} (S : SortedMol m n)
include S

theorem edge_bounds {e : Nat × Nat} (he : e ∈ sortedEdges m) : e.1 < e.2 ∧ e.2 < n ∧ m.Adj e.1 e.2 := by
  obtain ⟨a, b⟩ := e
  obtain ⟨h1, h2⟩ := (sortedEdges_mem m S.wf S.simple a b).mp he
  exact ⟨h1, S.mem_labels.mp (Graph.nbrs_closed S.wf h2), h2⟩

theorem tuples_listen (hsize : (natRepr (n + 1)).length ≤ intMaxStrDigits) :
    listenTuples (astOf m).tuples = .ok ((sortedEdges m).map castE) := by
  rw [listenTuples_eq]
  show List.foldlM tupleStep [] ((sortedEdges m).map fun e => (natRepr (e.1 + 1), natRepr (e.2 + 1))) = _
  rw [tuples_eval _ [] ?_]
  · rfl
  · intro e he
    obtain ⟨h1, h2, _⟩ := S.edge_bounds he
    exact ⟨by omega, natRepr_len_mono (by omega) hsize, natRepr_len_mono (by omega) hsize⟩

/-- the nodes in label order -/
theorem sortedNodes_facts :
    ((m.nodes.mergeSort fun a b => decide (a.id ≤ b.id)).map (·.id)).Nodup ∧
    ∀ nd ∈ m.nodes.mergeSort fun a b => decide (a.id ≤ b.id), nd ∈ m.nodes := by
  refine ⟨?_, fun nd h => List.mem_mergeSort.mp h⟩
  exact ((List.mergeSort_perm _ _).map _).nodup_iff.mpr S.wf.nodup

theorem attrs_listen (hsize : (natRepr (n + 1)).length ≤ intMaxStrDigits) :
    listenAttrs (astOf m).attrs = .ok (((m.nodes.mergeSort fun a b => decide (a.id ≤ b.id)).filter hasAttr).map
      fun nd => ((nd.id : Int), recOf nd.attrs)) := by
  rw [listenAttrs_eq]
  show List.foldlM blockStep []
    ((m.nodes.mergeSort fun a b => decide (a.id ≤ b.id)).filterMap SerTok.nodeBlock) = _
  rw [attrs_eval _ [] S.sortedNodes_facts.1 ?_]
  · rfl
  · intro nd hnd
    obtain ⟨hmol, hid, _⟩ := S.node_mol (S.sortedNodes_facts.2 nd hnd)
    exact ⟨natRepr_len_mono (by omega) hsize, fun v hv => (hmol.massPos v hv).2,
      fun v hv => (hmol.radPos v hv).2, by simp⟩

end SortedMol

theorem hasAttr_false {nd : Node} (h : hasAttr nd = false) : nd.attrs.mass = none ∧ nd.attrs.rad = none := by
  unfold hasAttr attrPairs at h
  cases hm : nd.attrs.mass <;> cases hr : nd.attrs.rad <;> simp [hm, hr] at h ⊢

theorem update_recOf (b x : Atom) (hm : b.mass = none) (hr : b.rad = none) :
    b.update (recOf x) = { b with mass := x.mass, rad := x.rad } := by
  unfold Atom.update recOf
  cases b
  simp only at hm hr
  subst hm hr
  simp only [Atom.mk.injEq]
  refine ⟨?_, ?_, ?_, ?_, ?_, ?_, ?_, ?_, ?_, ?_, ?_, ?_⟩ <;> first | rfl | (cases x.mass <;> rfl) | (cases x.rad <;> rfl)

namespace SortedMol
variable {m : Graph} {n : Nat} (S : SortedMol m n)
include S

theorem exists_node {i : Nat} (hi : i < n) :
    ∃ nd ∈ m.nodes.mergeSort fun a b => decide (a.id ≤ b.id), nd.id = i ∧ nd.attrs = atomAt m i := by
  obtain ⟨nd, hnd, hid⟩ := List.mem_map.mp (S.mem_labels.mpr hi)
  refine ⟨nd, List.mem_mergeSort.mpr hnd, hid, ?_⟩
  rw [← hid]
  exact (S.node_mol hnd).2.2

theorem joined_at {i : Nat} (hi : i < n) :
    joined (((m.nodes.mergeSort fun a b => decide (a.id ≤ b.id)).filter hasAttr).map
      fun nd => ((nd.id : Int), recOf nd.attrs)) ((i : Int), bareAt m i) = ((i : Int), fullAt m i) := by
  obtain ⟨nd, hnd, hid, hat⟩ := S.exists_node hi
  obtain ⟨hnodup, _⟩ := S.sortedNodes_facts
  generalize (m.nodes.mergeSort fun a b => decide (a.id ≤ b.id)) = ns at hnd hnodup
  have hkeys : (((ns.filter hasAttr).map fun nd => ((nd.id : Int), recOf nd.attrs)).map (·.1)).Nodup := by
    rw [List.map_map]
    have h1 : ((ns.filter hasAttr).map (·.id)).Nodup :=
      (List.filter_sublist.map _).nodup hnodup
    have : ((fun (x : Int × Atom) => x.1) ∘ fun (nd : Node) => ((nd.id : Int), recOf nd.attrs))
        = (fun (k : Nat) => (k : Int)) ∘ (·.id) := rfl
    rw [this, ← List.map_map]
    exact NxRelabel.nodup_map_of_injOn _ h1 (fun a _ b _ h => by omega)
  unfold joined
  simp only
  by_cases hh : hasAttr nd = true
  · have hmem : ((i : Int), recOf (atomAt m i)) ∈
        (ns.filter hasAttr).map fun nd => ((nd.id : Int), recOf nd.attrs) :=
      List.mem_map.mpr ⟨nd, List.mem_filter.mpr ⟨hnd, hh⟩, by rw [hid, hat]⟩
    rw [alookup_of_mem hkeys hmem]
    simp only
    rw [update_recOf _ _ rfl rfl]
    rfl
  · have hh' : hasAttr nd = false := by simpa using hh
    have hnone : (i : Int) ∉ ((ns.filter hasAttr).map fun nd => ((nd.id : Int), recOf nd.attrs)).map (·.1) := by
      intro hc
      rw [List.map_map] at hc
      obtain ⟨nd', hnd', hid'⟩ := List.mem_map.mp hc
      obtain ⟨hin', hat'⟩ := List.mem_filter.mp hnd'
      simp only [Function.comp] at hid'
      have hii : nd'.id = nd.id := by omega
      have := SerializeCongr.eq_of_nodup_map (·.id) hnodup hin' hnd hii
      subst this
      rw [hh'] at hat'
      cases hat'
    rw [alookup_none hnone]
    simp only
    obtain ⟨hm, hr⟩ := hasAttr_false hh'
    rw [hat] at hm hr
    unfold fullAt bareAt
    rw [hm, hr]

end SortedMol

namespace SortedMol
variable {m : Graph} {n : Nat} (S : SortedMol m n)
include S

theorem dict_eval :
    forIn (((m.nodes.mergeSort fun a b => decide (a.id ≤ b.id)).filter hasAttr).map
        fun nd => ((nd.id : Int), recOf nd.attrs))
      (((List.range n).map (bareAt m)).zipIdx.map fun (a, i) => ((i : Int), a)) (joinStep n)
    = .ok ((List.range n).map fun (i : Nat) => ((i : Int), fullAt m i)) := by
  have hD0 : (((List.range n).map (bareAt m)).zipIdx.map fun (a, i) => ((i : Int), a))
      = (List.range n).map fun (i : Nat) => ((i : Int), bareAt m i) := by
    rw [zipIdx_range_map, List.map_map]
    rfl
  rw [hD0]
  have hkeys : ((List.range n).map fun (i : Nat) => ((i : Int), bareAt m i)).map (·.1)
      = (List.range n).map fun (i : Nat) => (i : Int) := by
    rw [List.map_map]; rfl
  have hnd : (((List.range n).map fun (i : Nat) => ((i : Int), bareAt m i)).map (·.1)).Nodup := by
    rw [hkeys]
    exact NxRelabel.nodup_map_of_injOn _ List.nodup_range (fun a _ b _ h => by omega)
  obtain ⟨hnodup, hsub⟩ := S.sortedNodes_facts
  have hmemE : ∀ e ∈ ((m.nodes.mergeSort fun a b => decide (a.id ≤ b.id)).filter hasAttr).map
        (fun nd => ((nd.id : Int), recOf nd.attrs)),
      e.1 < (n : Int) ∧ e.1 ∈ ((List.range n).map fun (i : Nat) => ((i : Int), bareAt m i)).map (·.1) := by
    intro e he
    obtain ⟨nd, hnd', rfl⟩ := List.mem_map.mp he
    have hlt := (S.node_mol (hsub nd (List.mem_filter.mp hnd').1)).2.1
    refine ⟨by simp only; omega, ?_⟩
    rw [hkeys]
    exact List.mem_map.mpr ⟨nd.id, List.mem_range.mpr hlt, rfl⟩
  have hEk : ((((m.nodes.mergeSort fun a b => decide (a.id ≤ b.id)).filter hasAttr).map
        fun nd => ((nd.id : Int), recOf nd.attrs)).map (·.1)).Nodup := by
    rw [List.map_map]
    have h1 : (((m.nodes.mergeSort fun a b => decide (a.id ≤ b.id)).filter hasAttr).map (·.id)).Nodup :=
      (List.filter_sublist.map _).nodup hnodup
    have : ((fun (x : Int × Atom) => x.1) ∘ fun (nd : Node) => ((nd.id : Int), recOf nd.attrs))
        = (fun (k : Nat) => (k : Int)) ∘ (·.id) := rfl
    rw [this, ← List.map_map]
    exact NxRelabel.nodup_map_of_injOn _ h1 (fun a _ b _ h => by omega)
  rw [join_eval (n : Int) _ _ hnd hmemE, join_fold _ _ hnd hEk (fun e he => (hmemE e he).2), List.map_map]
  congr 1
  apply List.map_congr_left
  intro i hi
  exact S.joined_at (List.mem_range.mp hi)

end SortedMol

namespace SortedMol
variable {m : Graph} {n : Nat} (S : SortedMol m n)
include S

theorem edges_nodup : ((sortedEdges m).map castE).Nodup := by
  have h1 : (sortedEdges m).Nodup := by
    refine (sortedEdges_strict m S.wf S.simple).imp ?_
    rintro ⟨a1, a2⟩ ⟨b1, b2⟩ h
    simp only [ne_eq, Prod.mk.injEq]
    simp only at h
    omega
  exact NxRelabel.nodup_map_of_injOn _ h1 (fun a _ b _ h => castE_inj h)

theorem bondsDict_eval :
    ((sortedEdges m).map castE).foldl (fun d b => ainsert b ({} : Bond) d) []
      = ((sortedEdges m).map castE).map fun b => (b, ({} : Bond)) := by
  rw [bondsDict_fold _ [] S.edges_nodup (by simp)]
  rfl

theorem goodBonds : GoodBonds n (((sortedEdges m).map castE).map fun b => (b, ({} : Bond))) := by
  have hnorm : ∀ e ∈ sortedEdges m,
      (fun (b : (Int × Int) × Bond) => if b.1.1 ≤ b.1.2 then (b.1.1, b.1.2) else (b.1.2, b.1.1))
        ((fun b => (b, ({} : Bond))) (castE e)) = castE e := by
    intro e he
    obtain ⟨h1, _, _⟩ := S.edge_bounds he
    show (if ((e.1 : Nat) : Int) ≤ ((e.2 : Nat) : Int) then (((e.1 : Nat) : Int), ((e.2 : Nat) : Int))
      else (((e.2 : Nat) : Int), ((e.1 : Nat) : Int))) = castE e
    rw [if_pos (by omega)]
    rfl
  refine ⟨?_, ?_⟩
  · intro b hb
    rw [List.map_map] at hb
    obtain ⟨e, he, rfl⟩ := List.mem_map.mp hb
    obtain ⟨h1, h2, _⟩ := S.edge_bounds he
    simp only [Function.comp, castE]
    omega
  · rw [List.map_map, List.map_map]
    have : (sortedEdges m).map (((fun (b : (Int × Int) × Bond) =>
          if b.1.1 ≤ b.1.2 then (b.1.1, b.1.2) else (b.1.2, b.1.1)) ∘ (fun b => (b, ({} : Bond)))) ∘ castE)
        = (sortedEdges m).map castE :=
      List.map_congr_left (fun e he => hnorm e he)
    rw [this]
    exact S.edges_nodup

theorem bonds_check : forIn ((sortedEdges m).map castE) PUnit.unit (checkStep n) = .ok PUnit.unit := by
  apply check_eval
  intro b hb
  obtain ⟨e, he, rfl⟩ := List.mem_map.mp hb
  obtain ⟨h1, h2, _⟩ := S.edge_bounds he
  simp only [castE]
  omega

theorem atoms_length :
    ((hillItems (m.nodes.filterMap (·.attrs.sym))).flatMap fun i => List.replicate i.2 (mkAtom i.1)).length = n := by
  rw [S.bare_perm.length_eq]
  simp

end SortedMol

theorem parse_run {m : Graph} {n : Nat} (S : SortedMol m n)
    (hsize : (natRepr (n + 1)).length ≤ intMaxStrDigits) :
    graphFromTucan (serializedText m) =
      (graphFromMolecule ((List.range n).map fun (i : Nat) => ((i : Int), fullAt m i))
        (((sortedEdges m).map castE).map fun b => (b, ({} : Bond)))) >>= fun x => pure x.1 := by
  have hsyms : ∀ s ∈ m.nodes.filterMap (·.attrs.sym), s ∈ elementSyms :=
    fun s hs => (S.syms_elem s hs).1
  have hpos : ∀ nd ∈ m.nodes, (∀ v, nd.attrs.mass = some v → 0 < v) ∧
      (∀ v, nd.attrs.rad = some v → 0 < v) :=
    fun nd hnd => ⟨fun v hv => ((S.node_mol hnd).1.massPos v hv).1,
      fun v hv => ((S.node_mol hnd).1.radPos v hv).1⟩
  obtain ⟨toks, hlex, hparse, _⟩ := serialize_parses m hsyms hpos
  unfold graphFromTucan
  rw [hlex]
  simp only [pure_bind]
  rw [hparse]
  simp only
  rw [S.formula_listen hsize, S.tuples_listen hsize, S.attrs_listen hsize]
  show toGraph _ = _
  rw [toGraph_eq]
  simp only
  rw [S.atoms_length, S.bonds_check, S.sorted_atoms, S.bondsDict_eval]
  rw [S.dict_eval]
  rfl

/-- the atom record of label `i` in the parsed graph -/
def outAt (m : Graph) (i : Nat) : Atom :=
  { sym := (atomAt m i).sym, z := (atomAt m i).z, part := some 0,
    mass := (atomAt m i).mass, rad := (atomAt m i).rad, inv := (atomAt m i).inv }

theorem fullAt_inv {m : Graph} {n : Nat} (S : SortedMol m n) {i : Nat} (hi : i < n) {x : Atom}
    (hx : addInvariantCode (fullAt m i) = .ok x) : x = outAt m i := by
  obtain ⟨z, _, hz, _, _, _, _, _, hinv⟩ := molAtom_facts (S.molAt hi)
  unfold addInvariantCode fullAt at hx
  simp only [hz, Except.ok.injEq] at hx
  unfold outAt
  rw [← hx, hinv, hz]

theorem parse_back {m : Graph} {n : Nat} (S : SortedMol m n)
    (hsize : (natRepr (n + 1)).length ≤ intMaxStrDigits) :
    ∃ H, graphFromTucan (serializedText m) = .ok H ∧ Iso SameIdent id m H ∧
      H.labels = List.range n ∧ H.WF ∧ H.Simple ∧ H.MolAtoms ∧
      (∀ a ∈ H.labels, ∃ y, H.attrs? a = some y ∧ y.part = some 0) := by
  have hlen : ((List.range n).map fun (i : Nat) => ((i : Int), fullAt m i)).length = n := by simp
  have hget : ∀ i (hi : i < ((List.range n).map fun (i : Nat) => ((i : Int), fullAt m i)).length),
      (((List.range n).map fun (i : Nat) => ((i : Int), fullAt m i))[i]).2 = fullAt m i := by
    intro i hi
    simp
  obtain ⟨H, post, hgfm, hlab, hwf, hsimple, hattrs, hnbrs⟩ :=
    graphFromMolecule_spec ((List.range n).map fun (i : Nat) => ((i : Int), fullAt m i))
      (((sortedEdges m).map castE).map fun b => (b, ({} : Bond)))
      (by unfold ConsecutiveKeys; rw [hlen, List.map_map]; rfl)
      (by rw [hlen]; exact S.goodBonds)
      (by
        intro a ha
        obtain ⟨i, hi, rfl⟩ := List.mem_map.mp ha
        obtain ⟨z, _, hz, _⟩ := molAtom_facts (S.molAt (List.mem_range.mp hi))
        show ((atomAt m i).z).isSome
        rw [hz]; rfl)
  rw [hlen] at hlab
  -- attributes of `H`
  have hHat : ∀ i, i < n → H.attrs? i = some (outAt m i) := by
    intro i hi
    obtain ⟨x, hx, hHx⟩ := hattrs i (by rw [hlen]; exact hi)
    rw [hget i (by rw [hlen]; exact hi)] at hx
    rw [hHx, fullAt_inv S hi hx]
  have hmolH : ∀ i, i < n → MolAtom (outAt m i) := by
    intro i hi
    have hM := S.molAt hi
    obtain ⟨z, hz, hs, hinv, hm0, hr0⟩ := hM.chem
    exact ⟨⟨z, hz, hs, hinv, hm0, hr0⟩, hM.sym, hM.massPos, hM.radPos⟩
  refine ⟨H, ?_, ?_, hlab, hwf, hsimple, ?_, ?_⟩
  · rw [parse_run S hsize, hgfm]
    rfl
  · refine ⟨?_, fun _ _ _ _ h => h, ?_, ?_⟩
    · rw [hlab, List.map_id]
      exact S.labels.symm
    · intro a ha
      have hi := S.mem_labels.mp ha
      refine ⟨atomAt m a, _, S.attrs_at hi, hHat a hi, ?_⟩
      exact ⟨rfl, rfl, rfl, rfl, rfl⟩
    · intro a ha
      have hi := S.mem_labels.mp ha
      simp only [id, List.map_id]
      have nd1 : (H.nbrs a).Nodup := by
        rw [Graph.nbrs_eq_nbrsD]; exact NxRelabel.wf_keysNodup hwf a
      have nd2 : (m.nbrs a).Nodup := by
        rw [Graph.nbrs_eq_nbrsD]; exact NxRelabel.wf_keysNodup S.wf a
      refine (List.perm_ext_iff_of_nodup nd1 nd2).mpr ?_
      intro j
      show H.Adj a j ↔ m.Adj a j
      rw [NxE.adj_iff]
      constructor
      · rintro ⟨d, hd⟩
        rcases (hnbrs a j d).mp hd with hb | hb
        · rw [List.map_map] at hb
          obtain ⟨e, he, heq⟩ := List.mem_map.mp hb
          simp only [Function.comp, castE, Prod.mk.injEq] at heq
          obtain ⟨_, _, hadj⟩ := S.edge_bounds he
          have h1 : e.1 = a := by omega
          have h2 : e.2 = j := by omega
          rw [h1, h2] at hadj
          exact hadj
        · rw [List.map_map] at hb
          obtain ⟨e, he, heq⟩ := List.mem_map.mp hb
          simp only [Function.comp, castE, Prod.mk.injEq] at heq
          obtain ⟨_, _, hadj⟩ := S.edge_bounds he
          have h1 : e.1 = j := by omega
          have h2 : e.2 = a := by omega
          rw [h1, h2] at hadj
          exact adj_symm S.wf hadj
      · intro hadj
        have hne := adj_ne S.simple hadj
        refine ⟨{}, (hnbrs a j {}).mpr ?_⟩
        by_cases hlt : a < j
        · left
          have he := (sortedEdges_mem m S.wf S.simple a j).mpr ⟨hlt, hadj⟩
          rw [List.map_map]
          exact List.mem_map.mpr ⟨(a, j), he, rfl⟩
        · right
          have he := (sortedEdges_mem m S.wf S.simple j a).mpr ⟨by omega, adj_symm S.wf hadj⟩
          rw [List.map_map]
          exact List.mem_map.mpr ⟨(j, a), he, rfl⟩
  · intro a ha x hx
    rw [hlab] at ha
    have hi := List.mem_range.mp ha
    rw [hHat a hi] at hx
    injection hx with hx
    rw [← hx]
    exact hmolH a hi
  · intro a ha
    rw [hlab] at ha
    exact ⟨_, hHat a (List.mem_range.mp ha), rfl⟩

/-! ## §2 the sorted molecule -/

theorem head_le {z z' : Int} {r r' : List Key}
    (h : (([z] : Key) :: r) < (([z'] : Key) :: r') ∨ (([z] : Key) :: r) = (([z'] : Key) :: r')) : z ≤ z' := by
  rcases h with h | h
  · rw [List.cons_lt_cons_iff] at h
    rcases h with h | ⟨h, _⟩
    · rw [List.cons_lt_cons_iff] at h
      rcases h with h | ⟨h, _⟩
      · omega
      · omega
    · simp at h; omega
  · simp at h; omega

theorem keyD_z {g : Graph} {a : Nat} {x : Atom} {z : Int} (hx : g.attrs? a = some x) (hz : x.z = some z) :
    keyD g .atomicNumber a = [z] := by
  unfold keyD
  rw [hx]
  simp [Atom.key, hz]

theorem sorted_facts {g m : Graph} (hw : g.WF) (hs : g.Simple)
    (hm : sortMoleculeByAttribute g .atomicNumber = .ok m)
    (hz : ∀ a ∈ g.labels, ∃ x z, g.attrs? a = some x ∧ x.z = some z) :
    Relabel (Graph.mapGet (SerializeCongr.sortMap g .atomicNumber)) g m ∧ m.WF ∧ m.Simple ∧
    m.labels.Perm (List.range g.numberOfNodes) ∧
    ∀ i j, i < j → j < g.numberOfNodes → (atomAt m i).z.getD 0 ≤ (atomAt m j).z.getD 0 := by
  have e := SerializeCongr.sortBy_form hm
  subst e
  obtain ⟨rel, mw, ms, ml⟩ := Graph.relabelCopy_spec g _ hw hs (SerializeCongr.sortMap_inj hw .atomicNumber)
  generalize hsrt : (g.labels.map fun a => (seqOf g .atomicNumber a, a)).mergeSort leSN = srt
  have hsm : SerializeCongr.sortMap g .atomicNumber = (srt.map (·.2)).zipIdx := by
    unfold SerializeCongr.sortMap; rw [hsrt]
  have hpermS : srt.Perm (g.labels.map fun a => (seqOf g .atomicNumber a, a)) := by
    rw [← hsrt]; exact List.mergeSort_perm _ _
  have hperm : (srt.map (·.2)).Perm g.labels := by
    refine (hpermS.map _).trans ?_
    rw [List.map_map]
    have : ((fun x : Seq × Nat => x.2) ∘ fun a => (seqOf g .atomicNumber a, a)) = id := rfl
    rw [this, List.map_id]
  have hnd : (srt.map (·.2)).Nodup := hperm.nodup_iff.mpr hw.nodup
  have hlen : srt.length = g.numberOfNodes := by
    have := hperm.length_eq
    simpa [Graph.numberOfNodes, Graph.labels] using this
  have hpair : srt.Pairwise (fun a b => leSN a b = true) := by
    rw [← hsrt, leSN_eq]
    exact List.pairwise_mergeSort (fun a b c => lePair_trans a b c) lePair_total _
  rw [hsm] at rel ml
  refine ⟨hsm ▸ rel, mw, ms, ?_, ?_⟩
  · rw [hsm, ml, ← hlen]
    have h1 := map_mapGet_zipIdx hnd
    rw [List.length_map] at h1
    rw [← h1]
    exact hperm.symm.map _
  · intro i j hij hj
    have hj' : j < srt.length := by omega
    have hi' : i < srt.length := by omega
    -- the atoms at sorted positions `i` and `j`
    have pos : ∀ k (hk : k < srt.length), ∃ x z, srt[k] = (seqOf g .atomicNumber (srt[k]).2, (srt[k]).2) ∧
        g.attrs? (srt[k]).2 = some x ∧ x.z = some z ∧ atomAt (g.relabelCopy (srt.map (·.2)).zipIdx) k = x := by
      intro k hk
      have hmem : srt[k] ∈ g.labels.map fun a => (seqOf g .atomicNumber a, a) :=
        hpermS.mem_iff.mp (List.getElem_mem hk)
      obtain ⟨a, ha, hak⟩ := List.mem_map.mp hmem
      have ha2 : (srt[k]).2 = a := by rw [← hak]
      obtain ⟨x, z, hx, hxz⟩ := hz a ha
      refine ⟨x, z, by rw [ha2, ← hak], by rw [ha2]; exact hx, hxz, ?_⟩
      have hget : (srt.map (·.2))[k]? = some a := by
        rw [List.getElem?_map, List.getElem?_eq_getElem hk, Option.map_some, ha2]
      have hf := mapGet_zipIdx hnd hget
      have hat := rel.attrs a ha
      rw [hf, hx] at hat
      unfold atomAt
      rw [hat]; rfl
    obtain ⟨xi, zi, hsi, hxi, hzi, hai⟩ := pos i hi'
    obtain ⟨xj, zj, hsj, hxj, hzj, haj⟩ := pos j hj'
    rw [hsm, hai, haj, hzi, hzj]
    simp only [Option.getD_some]
    have hle := (List.pairwise_iff_getElem.mp hpair) i j hi' hj' hij
    rw [leSN_eq, lePair_iff, hsi, hsj] at hle
    simp only at hle
    unfold seqOf at hle
    rw [keyD_z hxi hzi, keyD_z hxj hzj] at hle
    rcases hle with h | ⟨h, _⟩
    · exact head_le (Or.inl h)
    · exact head_le (Or.inr h)

/-! ## §5 assembly -/

theorem molAtom_of_sameIdent {x y : Atom} (h : SameIdent x y) (hx : MolAtom x) : MolAtom y :=
  ⟨h.chem hx.chem, by rw [← h.2.1]; exact hx.sym, by rw [← h.2.2.1]; exact hx.massPos,
    by rw [← h.2.2.2.1]; exact hx.radPos⟩

theorem molAtoms_of_iso {f : Nat → Nat} {g h : Graph} (iso : Iso SameIdent f g h) (hg : g.MolAtoms) :
    h.MolAtoms := by
  intro a ha x hx
  obtain ⟨b, hb, rfl⟩ := iso.exists_preimage ha
  obtain ⟨x0, y, hx0, hy, hxy⟩ := iso.attrs b hb
  rw [hy] at hx
  injection hx with hx
  subst hx
  exact molAtom_of_sameIdent hxy (hg b hb x0 hx0)

theorem reset_iso_ident (c : Graph) : Iso SameIdent id c c.resetExplored := by
  refine ⟨by rw [SerializeCongr.reset_labels, List.map_id], fun _ _ _ _ h => h, ?_, ?_⟩
  · intro a ha
    obtain ⟨x, hx⟩ := Graph.attrs?_some_of_mem ha
    refine ⟨x, SerializeCongr.resetF a x, hx, by rw [id, SerializeCongr.reset_attrs?, hx]; rfl, ?_⟩
    exact ⟨rfl, rfl, rfl, rfl, rfl⟩
  · intro a _
    rw [id, SerializeCongr.reset_nbrs, List.map_id]

theorem sameIdent_of_eq' (x y : Atom) (h : x = y) : SameIdent x y := by
  subst h; exact ⟨rfl, rfl, rfl, rfl, rfl⟩

end RoundTrip

/-- **C03 (model level), reconstruction half.** -/
theorem serialize_roundtrip (c : Graph) (hw : c.WF) (hs : c.Simple) (hmol : c.MolAtoms)
    (hsize : (natRepr (c.numberOfNodes + 1)).length ≤ intMaxStrDigits)
    (s : Str) (p : Graph) (h : serializeMolecule c = .ok (s, p)) :
    ∃ (H : Graph) (τ : Nat → Nat), graphFromTucan s = .ok H ∧ Iso SameIdent τ c H ∧
      H.labels = List.range c.numberOfNodes ∧ H.WF ∧ H.Simple ∧ H.MolAtoms ∧
      (∀ a ∈ H.labels, ∃ y, H.attrs? a = some y ∧ y.part = some 0) := by
  open RoundTrip SerializeCongr in
  obtain ⟨fl, m, hfl, hm, rfl⟩ := serialize_form h
  -- the BFS relabelling is a bijection of the labels
  obtain ⟨fl0, hfl0, hk, hv, _⟩ := finalLabels_ok _ (view_wf c hw)
  rw [hfl] at hfl0
  injection hfl0 with hfl0
  subst hfl0
  have hk' : (fl.map (·.1)).Perm c.resetExplored.labels := hk
  have hv' : (fl.map (·.2)).Perm c.resetExplored.labels := hv
  have rw1 := reset_wf hw
  have hinj : ∀ a ∈ c.resetExplored.labels, ∀ b ∈ c.resetExplored.labels,
      Graph.mapGet fl a = Graph.mapGet fl b → a = b := fun a ha b hb hab =>
    mapGet_inj (hk'.nodup_iff.2 rw1.nodup) (hv'.nodup_iff.2 rw1.nodup)
      (hk'.mem_iff.2 ha) (hk'.mem_iff.2 hb) hab
  obtain ⟨r1, w1, s1, l1⟩ := Graph.relabelCopy_spec _ fl rw1 (reset_simple hs) hinj
  have iso1 : Iso SameIdent (Graph.mapGet fl ∘ id) c (c.resetExplored.relabelCopy fl) :=
    Iso.trans sameIdent_trans' (reset_iso_ident c) (r1.toIso.mono sameIdent_of_eq')
  have hmol1 := molAtoms_of_iso iso1 hmol
  have hn1 : (c.resetExplored.relabelCopy fl).numberOfNodes = c.numberOfNodes := iso1.numberOfNodes
  -- the sort by atomic number
  obtain ⟨r2, mw, ms, mlab, mz⟩ := sorted_facts w1 s1 hm (by
    intro a ha
    obtain ⟨x, hx⟩ := Graph.attrs?_some_of_mem ha
    obtain ⟨z, hz, _⟩ := (hmol1 a ha x hx).chem
    exact ⟨x, z, hx, hz⟩)
  rw [hn1] at mlab mz
  have iso2 : Iso SameIdent (Graph.mapGet (sortMap (c.resetExplored.relabelCopy fl) .atomicNumber) ∘
      (Graph.mapGet fl ∘ id)) c m :=
    Iso.trans sameIdent_trans' iso1 (r2.toIso.mono sameIdent_of_eq')
  have S : SortedMol m c.numberOfNodes := ⟨mw, ms, mlab, molAtoms_of_iso iso2 hmol, mz⟩
  obtain ⟨H, hrun, isoH, hlab, hwH, hsH, hmolH, hpart⟩ := parse_back S hsize
  exact ⟨H, _, hrun, Iso.trans sameIdent_trans' iso2 isoH, hlab, hwH, hsH, hmolH, hpart⟩

end Tucan
