import TucanProofs.Lemmas.Partition
set_option linter.unusedSimpArgs false
/-!
# S3 — the whole refinement is equivariant, and so is the number of rounds
-/
namespace Tucan

/-! ### the class count (`max` of the partition values) is a function of the multiset of classes -/

theorem foldl_max_spec : ∀ (ps : List Int) (p : Int),
    (ps.foldl max p ∈ p :: ps) ∧ ∀ x ∈ p :: ps, x ≤ ps.foldl max p
  | [], p => by simp
  | q :: ps, p => by
    obtain ⟨h1, h2⟩ := foldl_max_spec ps (max p q)
    simp only [List.foldl_cons]
    refine ⟨?_, ?_⟩
    · rcases List.mem_cons.mp h1 with h | h
      · rw [h]
        rcases Int.le_total p q with hpq | hpq
        · rw [Int.max_eq_right hpq]; simp
        · rw [Int.max_eq_left hpq]; simp
      · simp [h]
    · intro x hx
      have hm := h2 (max p q) (by simp)
      rcases List.mem_cons.mp hx with rfl | hx
      · exact Int.le_trans (Int.le_max_left _ _) hm
      · rcases List.mem_cons.mp hx with rfl | hx
        · exact Int.le_trans (Int.le_max_right _ _) hm
        · exact h2 x (by simp [hx])

/-- the maximum of a non-empty list, as `get_number_of_partitions` computes it -/
def maxOf : List Int → PyM Int
  | [] => .error .valueError
  | p :: ps => .ok (ps.foldl max p)

theorem maxOf_perm {l l' : List Int} (h : l.Perm l') : maxOf l = maxOf l' := by
  cases l with
  | nil => simp [List.nil_perm.mp h]
  | cons p ps =>
    cases l' with
    | nil => exact absurd h.symm (by simp)
    | cons q qs =>
      simp only [maxOf]
      congr 1
      obtain ⟨h1, h2⟩ := foldl_max_spec ps p
      obtain ⟨h1', h2'⟩ := foldl_max_spec qs q
      exact Int.le_antisymm (h2' _ (h.mem_iff.mp h1)) (h2 _ (h.mem_iff.mpr h1'))

theorem getNumberOfPartitions_eq (g : Graph) : getNumberOfPartitions g = maxOf (g.nodes.filterMap (·.attrs.part)) := by
  unfold getNumberOfPartitions maxOf
  cases g.nodes.filterMap (·.attrs.part) <;> rfl

/-- `G.nodes[a].get("partition")` -/
def partOf? (g : Graph) (a : Nat) : Option Int := (g.attrs? a).bind (·.part)

theorem find?_of_mem_nodup : ∀ (l : List Node), (l.map (·.id)).Nodup → ∀ n ∈ l, l.find? (·.id == n.id) = some n
  | [], _, n, h => by simp at h
  | m :: l, hn, n, h => by
    simp only [List.map_cons, List.nodup_cons] at hn
    rcases List.mem_cons.mp h with rfl | h
    · simp
    · have hne : m.id ≠ n.id := by
        intro he; exact hn.1 (he ▸ List.mem_map.mpr ⟨n, h, rfl⟩)
      rw [List.find?_cons_of_neg (by simpa using hne)]
      exact find?_of_mem_nodup l hn.2 n h

theorem filterMap_congr' {α β} {f g : α → Option β} : ∀ {l : List α}, (∀ a ∈ l, f a = g a) → l.filterMap f = l.filterMap g
  | [], _ => rfl
  | a :: l, h => by
    simp only [List.filterMap_cons, h a (by simp)]
    rw [filterMap_congr' (fun b hb => h b (by simp [hb]))]

theorem parts_eq_labels (g : Graph) (hw : g.WF) :
    g.nodes.filterMap (·.attrs.part) = g.labels.filterMap (partOf? g) := by
  unfold Graph.labels
  rw [List.filterMap_map]
  apply filterMap_congr'
  intro n hn
  have := find?_of_mem_nodup g.nodes hw.nodup n hn
  simp [partOf?, Graph.attrs?, Graph.find?, this]

theorem partOf?_iso {f : Nat → Nat} {g g' : Graph} (iso : Iso SameIdentPart f g g') {a : Nat} (ha : a ∈ g.labels) :
    partOf? g' (f a) = partOf? g a := by
  obtain ⟨x, y, hx, hy, hxy⟩ := iso.attrs a ha
  simp [partOf?, hx, hy, hxy.2]

/-- the class count is the same for two descriptions of the same molecule -/
theorem getNumberOfPartitions_iso {f : Nat → Nat} {g g' : Graph} (iso : Iso SameIdentPart f g g')
    (hw : g.WF) (hw' : g'.WF) : getNumberOfPartitions g' = getNumberOfPartitions g := by
  rw [getNumberOfPartitions_eq, getNumberOfPartitions_eq, parts_eq_labels g hw, parts_eq_labels g' hw']
  apply maxOf_perm
  refine (iso.labels.filterMap _).trans ?_
  rw [List.filterMap_map]
  have : g.labels.filterMap (partOf? g' ∘ f) = g.labels.filterMap (partOf? g) :=
    filterMap_congr' (fun a ha => partOf?_iso iso ha)
  rw [this]

theorem sameIdentPart_key (x y : Atom) (h : SameIdentPart x y) :
    SameIdent x y ∧ x.key .partition = y.key .partition := ⟨h.1, by simp [Atom.key, h.2]⟩

theorem sameIdent_key (x y : Atom) (h : SameIdent x y) :
    SameIdent x y ∧ x.key .invariantCode = y.key .invariantCode := ⟨h, by simp [Atom.key, h.2.2.2.2]⟩

/-- **S3.** The refinement loop commutes with relabelling in any listing: equal number of rounds and
related results. -/
theorem refineLoop_equivariant (hc : CopySpec) (hm : MapAttrsSpec) {f : Nat → Nat} :
    ∀ (fuel : Nat) (g g' : Graph) (k : Nat) (r r' : Graph) (n n' : Nat),
      Iso SameIdentPart f g g' → g.WF → g.Simple → g'.WF → g'.Simple →
      refineLoop fuel g k = .ok (r, n) → refineLoop fuel g' k = .ok (r', n') →
      n = n' ∧ Iso SameIdentPart f r r' ∧ r.WF ∧ r.Simple ∧ r'.WF ∧ r'.Simple
  | 0, g, g', k, r, r', n, n', _, _, _, _, _, h, _ => by simp [refineLoop] at h
  | fuel + 1, g, g', k, r, r', n, n', iso, hw, hs, hw', hs', h, h' => by
    unfold refineLoop at h h'
    cases hp : partitionMoleculeByAttribute g .partition with
    | error e => simp [hp, bind, Except.bind] at h
    | ok p =>
      cases hp' : partitionMoleculeByAttribute g' .partition with
      | error e => simp [hp', bind, Except.bind] at h'
      | ok p' =>
        have isoP := partition_equivariant hc hm sameIdentPart_key iso hw hs hw' hs' hp hp'
        obtain ⟨_, hpw, hps, _, _⟩ := partition_spec hc hm g .partition hw hs p hp
        obtain ⟨_, hpw', hps', _, _⟩ := partition_spec hc hm g' .partition hw' hs' p' hp'
        have e1 := getNumberOfPartitions_iso isoP hpw hpw'
        have e0 := getNumberOfPartitions_iso iso hw hw'
        simp only [hp, hp', bind, Except.bind] at h h'
        rw [e1] at h'
        rw [e0] at h'
        cases hn1 : getNumberOfPartitions p with
        | error e => simp [hn1] at h
        | ok n1 =>
          cases hn0 : getNumberOfPartitions g with
          | error e => simp [hn1, hn0] at h
          | ok n0 =>
            simp only [hn1, hn0] at h h'
            by_cases hEq : n1 == n0
            · simp only [hEq, if_true, pure, Except.pure] at h h'
              injection h with h; injection h' with h'
              injection h with ha hb; injection h' with ha' hb'
              subst ha; subst ha'
              exact ⟨by omega, isoP, hpw, hps, hpw', hps'⟩
            · simp only [hEq, Bool.false_eq_true, if_false] at h h'
              exact refineLoop_equivariant hc hm fuel p p' (k + 1) r r' n n' isoP hpw hps hpw' hps' h h'

end Tucan
