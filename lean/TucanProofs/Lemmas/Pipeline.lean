import TucanProofs.Lemmas.Canonical
import TucanProofs.Lemmas.Equitable
import TucanProofs.Lemmas.SerializeCongr
set_option linter.unusedSimpArgs false
/-!
# The pipeline: canonicalize, then serialize

Assembles S2/S3 (equivariance of the refinement), the bliss contract, the canonical relabelling and S4
(representation independence of the serializer) into statements about `canonicalizeWith` and about the
whole pipeline `tucanOf`.
-/
namespace Tucan
open NxRelabel

theorem copySpec : CopySpec := Graph.copy_spec
theorem mapAttrsSpec : MapAttrsSpec := Graph.mapAttrs_spec

/-- `serialize_molecule(canonicalize_molecule(m))` -/
def tucanOf (order : Graph → List Nat) (g : Graph) : PyM Str := do
  let (c, _, _) ← canonicalizeWith g order
  let (s, _) ← serializeMolecule c
  pure s

/-- what a successful `canonicalize_molecule` consists of -/
theorem canonicalize_unfold {order : Graph → List Nat} {g c r : Graph} {k : Nat}
    (h : canonicalizeWith g order = .ok (c, r, k)) :
    ∃ p, partitionMoleculeByAttribute g .invariantCode = .ok p ∧ refinePartitions p = .ok (r, k) ∧
      c = r.relabelCopy (order r).zipIdx := by
  unfold canonicalizeWith at h
  cases hp : partitionMoleculeByAttribute g .invariantCode with
  | error e => simp [hp, bind, Except.bind] at h
  | ok p =>
    simp only [hp, bind, Except.bind] at h
    cases hr : refinePartitions p with
    | error e => simp [hr] at h
    | ok rr =>
      obtain ⟨r0, k0⟩ := rr
      simp only [hr, pure, Except.pure] at h
      injection h with h
      injection h with hcq h2
      injection h2 with hrq hkq
      subst hrq; subst hkq
      exact ⟨p, rfl, hr, hcq.symm⟩

theorem sameIdent_of_eq (x y : Atom) (h : SameIdent x y) :
    SameIdent x y ∧ x.key .invariantCode = y.key .invariantCode := sameIdent_key x y h

/-- **Refinement is equivariant.**  For two descriptions of one molecule the refined graphs are related
by the same renaming, with equal classes, and the number of rounds is the same. -/
theorem refined_equivariant {order order' : Graph → List Nat} {f : Nat → Nat} {g g' c c' r r' : Graph} {k k' : Nat}
    (iso : Iso SameIdent f g g') (hw : g.WF) (hs : g.Simple) (hw' : g'.WF) (hs' : g'.Simple)
    (h : canonicalizeWith g order = .ok (c, r, k)) (h' : canonicalizeWith g' order' = .ok (c', r', k')) :
    k = k' ∧ Iso SameIdentPart f r r' ∧ r.WF ∧ r.Simple ∧ r'.WF ∧ r'.Simple := by
  obtain ⟨p, hp, hr, _⟩ := canonicalize_unfold h
  obtain ⟨p', hp', hr', _⟩ := canonicalize_unfold h'
  have isoP := partition_equivariant copySpec mapAttrsSpec sameIdent_of_eq iso hw hs hw' hs' hp hp'
  obtain ⟨_, hpw, hps, _, _⟩ := partition_spec copySpec mapAttrsSpec g .invariantCode hw hs p hp
  obtain ⟨_, hpw', hps', _, _⟩ := partition_spec copySpec mapAttrsSpec g' .invariantCode hw' hs' p' hp'
  unfold refinePartitions at hr hr'
  rw [isoP.numberOfNodes] at hr'
  exact refineLoop_equivariant copySpec mapAttrsSpec _ p p' 0 r r' k k' isoP hpw hps hpw' hps' hr hr'

/-- the refined graph: equitable, classes determine the invariant code, attributes unchanged but `partition` -/
theorem refined_facts {order : Graph → List Nat} {g c r : Graph} {k : Nat} (hw : g.WF) (hs : g.Simple)
    (h : canonicalizeWith g order = .ok (c, r, k)) :
    Equitable r ∧ ClassesRespectIdent r ∧ r.labels = g.labels ∧ r.WF ∧ r.Simple ∧
    (∀ a ∈ g.labels, ∃ x q, g.attrs? a = some x ∧ r.attrs? a = some { x with part := q }) ∧
    k ≤ g.numberOfNodes + 1 := by
  obtain ⟨p, hp, hr, _⟩ := canonicalize_unfold h
  obtain ⟨hpl, hpw, hps, hpa, _⟩ := partition_spec copySpec mapAttrsSpec g .invariantCode hw hs p hp
  have hd : Dense p := by
    by_cases hne : g.labels = []
    · refine ⟨by rw [hpl, hne]; simp, 0, ?_⟩
      intro q; rw [hpl, hne]; simp
    · exact partition_dense copySpec mapAttrsSpec g .invariantCode hw hs hne p hp
  have hresp := partition_inv_respects copySpec mapAttrsSpec g hw hs p hp
  unfold refinePartitions at hr
  obtain ⟨heq, _, hrw, hrs, hrl, hresp'⟩ := refineLoop_equitable copySpec mapAttrsSpec _ p 0 r k hpw hps hd hr
  obtain ⟨_, _, _, hra, _⟩ := refineLoop_attrs copySpec mapAttrsSpec _ p 0 r k hpw hps hr
  refine ⟨heq, hresp' hresp, hrl.trans hpl, hrw, hrs, ?_, ?_⟩
  · intro a ha
    obtain ⟨x, hx⟩ := Graph.attrs?_some_of_mem ha
    have h1 := hpa a ha
    rw [hx] at h1
    obtain ⟨y, q, hy, hry⟩ := hra a (hpl ▸ ha)
    rw [h1] at hy
    have : y = { x with part := some (classOf g .invariantCode a : Int) } := by simpa using hy.symm
    subst this
    exact ⟨x, q, hx, hry⟩
  · -- the loop returns within its fuel, and every round decrements it
    have bound : ∀ (fuel : Nat) (g0 : Graph) (k0 : Nat) (r0 : Graph) (n0 : Nat),
        refineLoop fuel g0 k0 = .ok (r0, n0) → n0 ≤ k0 + fuel := by
      intro fuel
      induction fuel with
      | zero => intro g0 k0 r0 n0 h0; simp [refineLoop] at h0
      | succ fuel ih =>
        intro g0 k0 r0 n0 h0
        unfold refineLoop at h0
        cases hp0 : partitionMoleculeByAttribute g0 .partition with
        | error e => simp [hp0, bind, Except.bind] at h0
        | ok p0 =>
          simp only [hp0, bind, Except.bind] at h0
          cases hn1 : getNumberOfPartitions p0 with
          | error e => simp [hn1] at h0
          | ok n1 =>
            cases hn0 : getNumberOfPartitions g0 with
            | error e => simp [hn1, hn0] at h0
            | ok m0 =>
              simp only [hn1, hn0] at h0
              by_cases hEq : n1 == m0
              · simp only [hEq, if_true, pure, Except.pure] at h0
                injection h0 with h0; injection h0 with _ hb
                omega
              · simp only [hEq, Bool.false_eq_true, if_false] at h0
                have := ih p0 (k0 + 1) r0 n0 h0
                omega
    have := bound _ p 0 r k hr
    have hn : p.numberOfNodes = g.numberOfNodes := by
      simp [Graph.numberOfNodes, Graph.labels] at hpl ⊢
      have := congrArg List.length hpl
      simpa using this
    omega

theorem chem_refined {g r : Graph}
    (hattrs : ∀ a ∈ g.labels, ∃ x q, g.attrs? a = some x ∧ r.attrs? a = some { x with part := q })
    (hl : r.labels = g.labels) (hchem : g.Chem) : r.Chem := by
  intro a ha y hy
  obtain ⟨x, q, hx, hr⟩ := hattrs a (hl ▸ ha)
  rw [hr] at hy
  injection hy with hy
  subst hy
  obtain ⟨z, h1, h2, h3, h4, h5⟩ := hchem a (hl ▸ ha) x hx
  exact ⟨z, h1, h2, h3, h4, h5⟩

theorem respectsInv_of {r : Graph} (h : ClassesRespectIdent r) : RespectsInv r := h

/-- **C04 (model level).**  For every oracle meeting the bliss contract, canonicalizing two descriptions
of one molecule gives the same labelled graph up to listing: labels `0 … n-1`, the same element, mass,
radical and class on every label, the same adjacency. -/
theorem canonical_graph_invariant (O : CanonOracle) {f : Nat → Nat} {g g' c c' r r' : Graph} {k k' : Nat}
    (iso : Iso SameIdent f g g') (hchem : g.Chem) (hw : g.WF) (hs : g.Simple) (hw' : g'.WF) (hs' : g'.Simple)
    (h : canonicalizeWith g O.order = .ok (c, r, k)) (h' : canonicalizeWith g' O.order = .ok (c', r', k')) :
    Iso SameIdentPart id c c' ∧ c.labels.Perm (List.range g.numberOfNodes) ∧
    c.WF ∧ c.Simple ∧ c'.WF ∧ c'.Simple := by
  obtain ⟨_, isoR, rw, rs, rw', rs'⟩ := refined_equivariant iso hw hs hw' hs' h h'
  obtain ⟨_, hresp, hrl, _, _, hra, _⟩ := refined_facts hw hs h
  obtain ⟨_, _, _, hc⟩ := canonicalize_unfold h
  obtain ⟨_, _, _, hc'⟩ := canonicalize_unfold h'
  have := canonical_relabel O rw rs rw' rs' isoR (chem_refined hra hrl hchem) (respectsInv_of hresp)
  rw [← hc, ← hc'] at this
  have hn : r.numberOfNodes = g.numberOfNodes := by
    simp [Graph.numberOfNodes, Graph.labels] at hrl ⊢
    simpa using congrArg List.length hrl
  rw [hn] at this
  exact this

/-- **C01 (model level).**  Two descriptions of the same molecule yield identical strings, for every
oracle meeting the bliss contract. -/
theorem tucan_invariant (O : CanonOracle) {f : Nat → Nat} {g g' : Graph} {s s' : Str}
    (iso : Iso SameIdent f g g') (hchem : g.Chem) (hw : g.WF) (hs : g.Simple) (hw' : g'.WF) (hs' : g'.Simple)
    (h : tucanOf O.order g = .ok s) (h' : tucanOf O.order g' = .ok s') : s = s' := by
  unfold tucanOf at h h'
  cases hc : canonicalizeWith g O.order with
  | error e => simp [hc, bind, Except.bind] at h
  | ok v =>
    obtain ⟨c, r, k⟩ := v
    cases hc' : canonicalizeWith g' O.order with
    | error e => simp [hc', bind, Except.bind] at h'
    | ok v' =>
      obtain ⟨c', r', k'⟩ := v'
      simp only [hc, hc', bind, Except.bind] at h h'
      cases hser : serializeMolecule c with
      | error e => simp [hser] at h
      | ok w =>
        obtain ⟨t, p⟩ := w
        cases hser' : serializeMolecule c' with
        | error e => simp [hser'] at h'
        | ok w' =>
          obtain ⟨t', p'⟩ := w'
          simp only [hser, hser', pure, Except.pure] at h h'
          injection h with h; injection h' with h'
          subst h; subst h'
          obtain ⟨isoC, _, cw, cs, cw', cs'⟩ := canonical_graph_invariant O iso hchem hw hs hw' hs' hc hc'
          exact serialize_congr c c' cw cs cw' cs' isoC t t' p p' hser hser'

end Tucan
