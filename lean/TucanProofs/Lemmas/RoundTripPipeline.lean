import TucanProofs.Lemmas.RoundTrip
import TucanProofs.Lemmas.Totality
import TucanProofs.Props.C12
import TucanProofs.Examples
/-!
# C03 / C02 at the level of the whole pipeline
-/
namespace Tucan
open NxRelabel

/-- canonicalization as an `Iso SameIdent`: the canonical graph is the input renamed, identity data kept -/
theorem canonicalize_iso (order : Graph → List Nat) (hperm : ∀ r : Graph, r.WF → (order r).Perm r.labels)
    (g c r : Graph) (k : Nat) (hw : g.WF) (hs : g.Simple) (h : canonicalizeWith g order = .ok (c, r, k)) :
    ∃ σ, Iso SameIdent σ g c ∧ c.WF ∧ c.Simple ∧ c.numberOfNodes = g.numberOfNodes ∧
      (g.MolAtoms → c.MolAtoms) := by
  obtain ⟨σ, hinj, hlab, hattr, hnb, cw, cs⟩ := C12_canonicalize_renames order hperm g c r k hw hs h
  have hmap : c.labels.Perm (g.labels.map σ) := by
    -- both sides are Nodup lists of length n with the same members
    have hnd : (g.labels.map σ).Nodup := nodup_map_of_injOn σ hw.nodup (fun a ha b hb => hinj a ha b hb)
    refine (List.perm_ext_iff_of_nodup cw.nodup hnd).mpr ?_
    intro b
    constructor
    · intro hb
      -- b ∈ range n; the image of σ is a Nodup sublist of c.labels of the same length, hence everything
      have hsub : ∀ x ∈ g.labels.map σ, x ∈ c.labels := by
        intro x hx
        obtain ⟨a, ha, rfl⟩ := List.mem_map.mp hx
        obtain ⟨y, p, _, hy⟩ := hattr a ha
        cases hf : c.find? (σ a) with
        | none => simp [Graph.attrs?, hf] at hy
        | some n => exact mem_labels_of_find? hf
      have hlen : (g.labels.map σ).length = c.labels.length := by
        have := hlab.length_eq
        simp [Graph.numberOfNodes, Graph.labels] at this ⊢
        omega
      -- pigeonhole: if b were missing, the image would fit into `c.labels.erase b`, which is shorter
      by_cases hbI : b ∈ g.labels.map σ
      · exact hbI
      · exfalso
        have hsub' : g.labels.map σ ⊆ c.labels.erase b := by
          intro x hx
          have hxb : x ≠ b := fun e => hbI (e ▸ hx)
          exact (List.mem_erase_of_ne hxb).mpr (hsub x hx)
        have h1 := EqAux.nodup_subset_length_le _ _ hnd hsub'
        have h2 : (c.labels.erase b).length = c.labels.length - 1 := List.length_erase_of_mem hb
        have h3 : 0 < c.labels.length := List.length_pos_of_mem hb
        omega
    · intro hb
      obtain ⟨a, ha, rfl⟩ := List.mem_map.mp hb
      obtain ⟨y, p, _, hy⟩ := hattr a ha
      cases hf : c.find? (σ a) with
      | none => simp [Graph.attrs?, hf] at hy
      | some n => exact mem_labels_of_find? hf
  have hn : c.numberOfNodes = g.numberOfNodes := by
    have := hlab.length_eq
    simpa [Graph.numberOfNodes, Graph.labels] using this
  refine ⟨σ, ⟨hmap, hinj, ?_, ?_⟩, cw, cs, hn, ?_⟩
  · intro a ha
    obtain ⟨x, p, hx, hy⟩ := hattr a ha
    exact ⟨x, _, hx, hy, ⟨rfl, rfl, rfl, rfl, rfl⟩⟩
  · intro a ha
    rw [Graph.nbrs_eq_nbrsD, Graph.nbrs_eq_nbrsD]
    have := (hnb a ha).map (·.1)
    simpa [List.map_map, Function.comp_def] using this
  · intro hmol b hb y hy
    obtain ⟨a, ha, rfl⟩ := List.mem_map.mp (hmap.mem_iff.mp hb)
    obtain ⟨x, p, hx, hy'⟩ := hattr a ha
    rw [hy'] at hy
    injection hy with hy
    subst hy
    have := hmol a ha x hx
    exact ⟨this.chem, this.sym, this.massPos, this.radPos⟩

/-- **C03, reconstruction.**  Parsing the string produced for a molecule yields a graph that is the
molecule under a renaming of its atoms: same element, mass and radical on corresponding atoms, same
adjacency, same number of atoms. -/
theorem pipeline_roundtrip (order : Graph → List Nat) (hperm : ∀ r : Graph, r.WF → (order r).Perm r.labels)
    (g : Graph) (hw : g.WF) (hs : g.Simple) (hmol : g.MolAtoms)
    (hsize : (natRepr (g.numberOfNodes + 1)).length ≤ intMaxStrDigits)
    (s : Str) (h : tucanOf order g = .ok s) :
    ∃ (H : Graph) (τ : Nat → Nat), graphFromTucan s = .ok H ∧ Iso SameIdent τ g H ∧
      H.labels = List.range g.numberOfNodes ∧ H.WF ∧ H.Simple ∧ H.MolAtoms := by
  unfold tucanOf at h
  cases hc : canonicalizeWith g order with
  | error e => simp [hc, bind, Except.bind] at h
  | ok v =>
    obtain ⟨c, r, k⟩ := v
    simp only [hc, bind, Except.bind] at h
    cases hser : serializeMolecule c with
    | error e => simp [hser] at h
    | ok w =>
      obtain ⟨t, p⟩ := w
      simp only [hser, pure, Except.pure] at h
      injection h with h; subst h
      obtain ⟨σ, isoC, cw, cs, hn, hcm⟩ := canonicalize_iso order hperm g c r k hw hs hc
      obtain ⟨H, τ, hparse, isoH, hlab, Hw, Hs, Hm, _⟩ :=
        serialize_roundtrip c cw cs (hcm hmol) (by rw [hn]; exact hsize) t p hser
      exact ⟨H, τ ∘ σ, hparse, isoC.trans (fun x y z => sameIdent_trans' x y z) isoH, by rw [hlab, hn], Hw, Hs, Hm⟩

/-- non-vacuity: the example molecule is in the round trip's domain -/
theorem exGraph_molAtoms : exGraph.MolAtoms := by
  intro a ha x hx
  have : a = 2 ∨ a = 0 ∨ a = 1 := by simpa [exGraph, Graph.labels] using ha
  rcases this with rfl | rfl | rfl
  · have : x = exAtomO := by simpa [Graph.attrs?, Graph.find?, exGraph] using hx.symm
    subst this
    exact ⟨⟨8, rfl, by decide, rfl, by decide, by decide⟩, ⟨_, rfl⟩, by intro v hv; simp [exAtomO] at hv, by intro v hv; simp [exAtomO] at hv⟩
  · have : x = exAtomC13 := by simpa [Graph.attrs?, Graph.find?, exGraph] using hx.symm
    subst this
    exact ⟨⟨6, rfl, by decide, rfl, by decide, by decide⟩, ⟨_, rfl⟩, by intro v hv; simp [exAtomC13] at hv; subst hv; decide, by intro v hv; simp [exAtomC13] at hv⟩
  · have : x = exAtomC := by simpa [Graph.attrs?, Graph.find?, exGraph] using hx.symm
    subst this
    exact ⟨⟨6, rfl, by decide, rfl, by decide, by decide⟩, ⟨_, rfl⟩, by intro v hv; simp [exAtomC] at hv, by intro v hv; simp [exAtomC] at hv⟩

end Tucan
