import TucanProofs.Lemmas.Tables
import TucanProofs.Lemmas.Hill
/-!
# The declarative grammar and the recogniser

`Sentence ts ast` is the published grammar (`tucan.ebnf` / `tucan.g4`) as an inductive relation on
token lists, transcribed rule by rule, a relation where the model's reader `parseTucan` is a recursive-descent
function.  What the two share: the token classes `isGtZero`, `isGtOne`, `isKey` (the grammar's "no leading zero",
"> 1", "> 0" and key rules are these Boolean tests in both) and the two element-order tables `withCarbonOrder`,
`withoutCarbonOrder`, regenerated from the parser's ATN and compared with `tucan.g4` by `C10_grammar_tables`.
`parseTucan_iff` says the reader accepts exactly the sentences and returns exactly their syntax tree.
-/
namespace Tucan

def tk (s : String) : Tok := .lit s.toList

/-- `x? y? z? …` where every `x` is `'Sym' count?` and `count : greater_than_one` -/
inductive OptElems : List Str → List Tok → List (Str × Option Str) → Prop
  | done (order : List Str) : OptElems order [] []
  | skip {e es ts items} : OptElems es ts items → OptElems (e :: es) ts items
  | plain {e es ts items} : OptElems es ts items →
      OptElems (e :: es) (Tok.lit e :: ts) ((e, none) :: items)
  | counted {e es c ts items} : isGtOne c = true → OptElems es ts items →
      OptElems (e :: es) (Tok.lit e :: c :: ts) ((e, some c.text) :: items)

/-- `sum_formula : with_carbon | without_carbon`; `with_carbon : c h? ac? …` (c mandatory) -/
inductive SumFormula : List Tok → List (Str × Option Str) → Prop
  | withCarbon {c0 es ts items} : withCarbonOrder = c0 :: es → OptElems es ts items →
      SumFormula (Tok.lit c0 :: ts) ((c0, none) :: items)
  | withCarbonCounted {c0 es c ts items} : withCarbonOrder = c0 :: es → isGtOne c = true → OptElems es ts items →
      SumFormula (Tok.lit c0 :: c :: ts) ((c0, some c.text) :: items)
  | withoutCarbon {ts items} : OptElems withoutCarbonOrder ts items → SumFormula ts items

/-- `tuples : tuple*`, `tuple : '(' node_index '-' node_index ')'`, `node_index : greater_than_zero` -/
inductive Tuples : List Tok → List (Str × Str) → Prop
  | nil : Tuples [] []
  | cons {a b ts r} : isGtZero a = true → isGtZero b = true → Tuples ts r →
      Tuples (tk "(" :: a :: tk "-" :: b :: tk ")" :: ts) ((a.text, b.text) :: r)

/-- `node_property (',' node_property)*` with `node_property : ('mass' | 'rad') '=' greater_than_zero` -/
inductive Props : List Tok → List (Str × Str) → Prop
  | one {k v} : isKey k = true → isGtZero v = true → Props [k, tk "=", v] [(k.text, v.text)]
  | more {k v ts r} : isKey k = true → isGtZero v = true → Props ts r →
      Props (k :: tk "=" :: v :: tk "," :: ts) ((k.text, v.text) :: r)

/-- `node_attributes : node_attribute*`, `node_attribute : '(' node_index ':' … ')'` -/
inductive Attrs : List Tok → List (Str × List (Str × Str)) → Prop
  | nil : Attrs [] []
  | cons {i ps pr ts r} : isGtZero i = true → Props ps pr → Attrs ts r →
      Attrs (tk "(" :: i :: tk ":" :: (ps ++ tk ")" :: ts)) ((i.text, pr) :: r)

/-- `tucan : sum_formula '/' tuples ('/' node_attributes)? EOF` -/
inductive Sentence : List Tok → Ast → Prop
  | plain {f items tu tups} : SumFormula f items → Tuples tu tups →
      Sentence (f ++ tk "/" :: tu) ⟨items, tups, []⟩
  | withAttrs {f items tu tups ta ats} : SumFormula f items → Tuples tu tups → Attrs ta ats →
      Sentence (f ++ tk "/" :: (tu ++ tk "/" :: ta)) ⟨items, tups, ats⟩

namespace Sentence

/-! ### the punctuation tokens -/

theorem tk_lparen : tk "(" = Tok.lit ['('] := rfl
theorem tk_rparen : tk ")" = Tok.lit [')'] := rfl
theorem tk_minus : tk "-" = Tok.lit ['-'] := rfl
theorem tk_colon : tk ":" = Tok.lit [':'] := rfl
theorem tk_comma : tk "," = Tok.lit [','] := rfl
theorem tk_eq : tk "=" = Tok.lit ['='] := rfl
theorem tk_slash : tk "/" = Tok.lit ['/'] := rfl

/-! ### soundness of the reader functions -/

theorem tuples_sound (ts : List Tok) : ∀ (r : List (Str × Str)) (rest : List Tok),
    parseTuples ts = some (r, rest) → ∃ pre, ts = pre ++ rest ∧ Tuples pre r := by
  induction ts using parseTuples.induct with
  | case1 a b rest0 hab ih =>
    intro r rest h
    rw [parseTuples.eq_1, if_pos hab, Option.map_eq_some_iff] at h
    obtain ⟨⟨r', rest'⟩, h1, h2⟩ := h
    simp only [Prod.mk.injEq] at h2
    obtain ⟨rfl, rfl⟩ := h2
    obtain ⟨pre, hpre, ht⟩ := ih r' rest' h1
    simp only [Bool.and_eq_true] at hab
    refine ⟨tk "(" :: a :: tk "-" :: b :: tk ")" :: pre, ?_, Tuples.cons hab.1 hab.2 ht⟩
    rw [hpre]; rfl
  | case2 a b rest0 hab =>
    intro r rest h
    rw [parseTuples.eq_1, if_neg hab] at h
    exact absurd h (by simp)
  | case3 tail hne =>
    intro r rest h
    rw [parseTuples.eq_2 _ hne] at h
    exact absurd h (by simp)
  | case4 ts h1 h2 =>
    intro r rest h
    rw [parseTuples.eq_3 _ h1 h2] at h
    simp only [Option.some.injEq, Prod.mk.injEq] at h
    obtain ⟨rfl, rfl⟩ := h
    exact ⟨[], rfl, Tuples.nil⟩

theorem props_sound (ts : List Tok) : ∀ (r : List (Str × Str)) (rest : List Tok) (k v : Tok),
    parseProps ts = some (r, rest) → isKey k = true → isGtZero v = true →
    ∃ pre, ts = pre ++ tk ")" :: rest ∧ Props (k :: tk "=" :: v :: pre) ((k.text, v.text) :: r) := by
  induction ts using parseProps.induct with
  | case1 rest0 =>
    intro r rest k v h hk hv
    rw [parseProps.eq_1] at h
    simp only [Option.some.injEq, Prod.mk.injEq] at h
    obtain ⟨rfl, rfl⟩ := h
    exact ⟨[], rfl, Props.one hk hv⟩
  | case2 k' v' rest0 hkv ih =>
    intro r rest k v h hk hv
    rw [parseProps.eq_2, if_pos hkv, Option.map_eq_some_iff] at h
    obtain ⟨⟨r', rest'⟩, h1, h2⟩ := h
    simp only [Prod.mk.injEq] at h2
    obtain ⟨rfl, rfl⟩ := h2
    simp only [Bool.and_eq_true] at hkv
    obtain ⟨pre, hpre, hp⟩ := ih r' rest' k' v' h1 hkv.1 hkv.2
    refine ⟨tk "," :: k' :: tk "=" :: v' :: pre, ?_, Props.more hk hv hp⟩
    rw [hpre]; rfl
  | case3 k' v' rest0 hkv =>
    intro r rest k v h
    rw [parseProps.eq_2, if_neg hkv] at h
    exact absurd h (by simp)
  | case4 t h1 h2 =>
    intro r rest k v h
    rw [parseProps.eq_3 _ h1 h2] at h
    exact absurd h (by simp)

theorem attrs_sound (ts : List Tok) : ∀ (r : List (Str × List (Str × Str))) (rest : List Tok),
    parseAttrs ts = some (r, rest) → ∃ pre, ts = pre ++ rest ∧ Attrs pre r := by
  induction ts using parseAttrs.induct with
  | case1 i k v rest0 hc ps rest' hpp hlen ih =>
    intro r rest h
    rw [parseAttrs.eq_1, if_pos hc] at h
    simp only [hpp, if_pos hlen] at h
    rw [Option.map_eq_some_iff] at h
    obtain ⟨⟨r', rest''⟩, h1, h2⟩ := h
    simp only [Prod.mk.injEq] at h2
    obtain ⟨rfl, rfl⟩ := h2
    simp only [Bool.and_eq_true] at hc
    obtain ⟨pre, hpre, ha⟩ := ih r' rest'' h1
    obtain ⟨pp, hpp', hp⟩ := props_sound rest0 ps rest' k v hpp hc.1.2 hc.2
    refine ⟨tk "(" :: i :: tk ":" :: ((k :: tk "=" :: v :: pp) ++ tk ")" :: pre), ?_,
      Attrs.cons hc.1.1 hp ha⟩
    rw [hpp', hpre]
    simp only [List.cons_append, List.append_assoc]
    rfl
  | case2 i k v rest0 hc ps rest' hpp hlen =>
    intro r rest h
    rw [parseAttrs.eq_1, if_pos hc] at h
    simp only [hpp, if_neg hlen] at h
    exact absurd h (by simp)
  | case3 i k v rest0 hc hpp =>
    intro r rest h
    rw [parseAttrs.eq_1, if_pos hc] at h
    simp only [hpp] at h
    exact absurd h (by simp)
  | case4 i k v rest0 hc =>
    intro r rest h
    rw [parseAttrs.eq_1, if_neg hc] at h
    exact absurd h (by simp)
  | case5 tail hne =>
    intro r rest h
    rw [parseAttrs.eq_2 _ hne] at h
    exact absurd h (by simp)
  | case6 ts h1 h2 =>
    intro r rest h
    rw [parseAttrs.eq_3 _ h1 h2] at h
    simp only [Option.some.injEq, Prod.mk.injEq] at h
    obtain ⟨rfl, rfl⟩ := h
    exact ⟨[], rfl, Attrs.nil⟩

/-! ### stepping through `parseElems` -/

theorem parseElems_nil (ts : List Tok) : parseElems [] ts = ([], ts) := by
  simp only [parseElems]

theorem parseElems_end (e : Str) (es : List Str) : parseElems (e :: es) [] = ([], []) := by
  simp only [parseElems]

theorem parseElems_big (e : Str) (es : List Str) (d : Str) (tl : List Tok) :
    parseElems (e :: es) (.big d :: tl) = ([], .big d :: tl) := by
  simp only [parseElems]

theorem parseElems_last (e : Str) (es : List Str) :
    parseElems (e :: es) [.lit e] = ([(e, none)], []) := by
  simp only [parseElems, beq_self_eq_true, if_true]

theorem elems_sound (order : List Str) : ∀ (ts : List Tok) (items : List (Str × Option Str))
    (rest : List Tok), parseElems order ts = (items, rest) →
    ∃ pre, ts = pre ++ rest ∧ OptElems order pre items := by
  induction order with
  | nil =>
    intro ts items rest h
    rw [parseElems_nil] at h
    simp only [Prod.mk.injEq] at h
    obtain ⟨rfl, rfl⟩ := h
    exact ⟨[], rfl, OptElems.done _⟩
  | cons e es ih =>
    intro ts items rest h
    cases ts with
    | nil =>
      rw [parseElems_end] at h
      simp only [Prod.mk.injEq] at h
      obtain ⟨rfl, rfl⟩ := h
      exact ⟨[], rfl, OptElems.done _⟩
    | cons t tl =>
      cases t with
      | big d =>
        rw [parseElems_big] at h
        simp only [Prod.mk.injEq] at h
        obtain ⟨rfl, rfl⟩ := h
        exact ⟨[], rfl, OptElems.done _⟩
      | lit s =>
        by_cases hs : s = e
        · subst hs
          cases tl with
          | nil =>
            rw [parseElems_last] at h
            simp only [Prod.mk.injEq] at h
            obtain ⟨rfl, rfl⟩ := h
            exact ⟨[.lit s], rfl, OptElems.plain (OptElems.done _)⟩
          | cons c tl' =>
            cases hc : isGtOne c with
            | true =>
              rw [Hill.parseElems_count _ _ _ _ hc] at h
              simp only [Prod.mk.injEq] at h
              obtain ⟨rfl, rfl⟩ := h
              obtain ⟨pre, hpre, ho⟩ := ih tl' _ _ rfl
              refine ⟨.lit s :: c :: pre, ?_, OptElems.counted hc ho⟩
              simp only [List.cons_append]
              rw [← hpre]
            | false =>
              rw [Hill.parseElems_nocount _ _ _ _ hc] at h
              simp only [Prod.mk.injEq] at h
              obtain ⟨rfl, rfl⟩ := h
              obtain ⟨pre, hpre, ho⟩ := ih (c :: tl') _ _ rfl
              refine ⟨.lit s :: pre, ?_, OptElems.plain ho⟩
              simp only [List.cons_append]
              rw [← hpre]
        · have hne : (s == e) = false := beq_false_of_ne hs
          rw [Hill.parseElems_skip _ _ _ _ hne] at h
          obtain ⟨pre, hpre, ho⟩ := ih _ _ _ h
          exact ⟨pre, hpre, OptElems.skip ho⟩

theorem formula_sound (ts : List Tok) (items : List (Str × Option Str)) (rest : List Tok)
    (h : parseFormula ts = some (items, rest)) : ∃ pre, ts = pre ++ rest ∧ SumFormula pre items := by
  by_cases hC : ∃ tl, ts = Tok.lit ['C'] :: tl
  · obtain ⟨tl, rfl⟩ := hC
    rw [Hill.parseFormula_carbon, Hill.withCarbonOrder_eq] at h
    have hw := Hill.withCarbonOrder_eq
    simp only [Option.some.injEq] at h
    cases tl with
    | nil =>
      rw [parseElems_last] at h
      simp only [Prod.mk.injEq] at h
      obtain ⟨rfl, rfl⟩ := h
      exact ⟨[.lit ['C']], rfl, SumFormula.withCarbon hw (OptElems.done _)⟩
    | cons c tl' =>
      cases hc : isGtOne c with
      | true =>
        rw [Hill.parseElems_count _ _ _ _ hc] at h
        simp only [Prod.mk.injEq] at h
        obtain ⟨rfl, rfl⟩ := h
        obtain ⟨pre, hpre, ho⟩ := elems_sound _ tl' _ _ rfl
        refine ⟨.lit ['C'] :: c :: pre, ?_, SumFormula.withCarbonCounted hw hc ho⟩
        simp only [List.cons_append]
        rw [← hpre]
      | false =>
        rw [Hill.parseElems_nocount _ _ _ _ hc] at h
        simp only [Prod.mk.injEq] at h
        obtain ⟨rfl, rfl⟩ := h
        obtain ⟨pre, hpre, ho⟩ := elems_sound _ (c :: tl') _ _ rfl
        refine ⟨.lit ['C'] :: pre, ?_, SumFormula.withCarbon hw ho⟩
        simp only [List.cons_append]
        rw [← hpre]
  · have hne : ∀ tl, ts ≠ Tok.lit ['C'] :: tl := fun tl htl => hC ⟨tl, htl⟩
    rw [Hill.parseFormula_of_head_ne _ hne] at h
    simp only [Option.some.injEq] at h
    obtain ⟨pre, hpre, ho⟩ := elems_sound _ ts _ _ h
    exact ⟨pre, hpre, SumFormula.withoutCarbon ho⟩

end Sentence

/-- soundness: whatever the reader accepts is a sentence with that syntax tree -/
theorem parseTucan_sound (ts : List Tok) (ast : Ast) (h : parseTucan ts = some ast) : Sentence ts ast := by
  unfold parseTucan at h
  cases hf : parseFormula ts with
  | none => rw [hf] at h; exact absurd h (by simp)
  | some p =>
    obtain ⟨f, ts1⟩ := p
    rw [hf] at h
    obtain ⟨pf, hpf, hF⟩ := Sentence.formula_sound ts f ts1 hf
    simp only [Option.bind_eq_bind, Option.bind_some] at h
    split at h
    · rename_i ts2
      cases ht : parseTuples ts2 with
      | none => rw [ht] at h; exact absurd h (by simp)
      | some q =>
        obtain ⟨tu, ts3⟩ := q
        rw [ht] at h
        obtain ⟨pt, hpt, hT⟩ := Sentence.tuples_sound ts2 tu ts3 ht
        simp only [Option.bind_some] at h
        split at h
        · simp only [Option.some.injEq] at h
          subst h
          rw [hpf, hpt, List.append_nil]
          exact Sentence.plain hF hT
        · rename_i ts4
          cases ha : parseAttrs ts4 with
          | none => rw [ha] at h; exact absurd h (by simp)
          | some q =>
            obtain ⟨ats, ts5⟩ := q
            rw [ha] at h
            obtain ⟨pa, hpa, hA⟩ := Sentence.attrs_sound ts4 ats ts5 ha
            simp only [Option.bind_some] at h
            split at h
            · rename_i hemp
              simp only [Option.some.injEq] at h
              subst h
              simp only [List.isEmpty_iff] at hemp
              subst hemp
              rw [hpf, hpt, hpa, List.append_nil]
              exact Sentence.withAttrs hF hT hA
            · exact absurd h (by simp)
        · exact absurd h (by simp)
    · exact absurd h (by simp)

namespace Sentence

/-! ### completeness of the reader functions -/

theorem tuples_complete {pre : List Tok} {r : List (Str × Str)} (h : Tuples pre r) :
    ∀ rest : List Tok, (∀ tl, rest ≠ Tok.lit ['('] :: tl) →
      parseTuples (pre ++ rest) = some (r, rest) := by
  induction h with
  | nil =>
    intro rest hrest
    exact parseTuples.eq_3 rest (fun a b r' h => hrest _ h) (fun tl h => hrest _ h)
  | @cons a b ts r ha hb _ ih =>
    intro rest hrest
    show parseTuples (Tok.lit ['('] :: a :: Tok.lit ['-'] :: b :: Tok.lit [')'] :: (ts ++ rest)) = _
    rw [parseTuples.eq_1, if_pos (by simp [ha, hb]), ih rest hrest]
    rfl

theorem props_complete {ps : List Tok} {pr : List (Str × Str)} (h : Props ps pr) :
    ∀ rest : List Tok, ∃ k v tail pr', ps = k :: tk "=" :: v :: tail ∧ pr = (k.text, v.text) :: pr' ∧
      isKey k = true ∧ isGtZero v = true ∧ parseProps (tail ++ tk ")" :: rest) = some (pr', rest) := by
  induction h with
  | @one k v hk hv =>
    intro rest
    exact ⟨k, v, [], [], rfl, rfl, hk, hv, parseProps.eq_1 rest⟩
  | @more k v ts r hk hv _ ih =>
    intro rest
    obtain ⟨k', v', tail', pr'', hts, hr, hk', hv', hp⟩ := ih rest
    refine ⟨k, v, tk "," :: ts, r, rfl, rfl, hk, hv, ?_⟩
    subst hts hr
    show parseProps (Tok.lit [','] :: k' :: Tok.lit ['='] :: v' :: (tail' ++ tk ")" :: rest)) = _
    rw [parseProps.eq_2, if_pos (by simp [hk', hv']), hp]
    rfl

theorem attrs_complete {pre : List Tok} {r : List (Str × List (Str × Str))} (h : Attrs pre r) :
    ∀ rest : List Tok, (∀ tl, rest ≠ Tok.lit ['('] :: tl) →
      parseAttrs (pre ++ rest) = some (r, rest) := by
  induction h with
  | nil =>
    intro rest hrest
    exact parseAttrs.eq_3 rest (fun i k v r' h => hrest _ h) (fun tl h => hrest _ h)
  | @cons i ps pr ts r hi hp _ ih =>
    intro rest hrest
    obtain ⟨k, v, tail, pr', hps, hpr, hk, hv, hpp⟩ := props_complete hp (ts ++ rest)
    subst hps hpr
    have hshape : tk "(" :: i :: tk ":" :: ((k :: tk "=" :: v :: tail) ++ tk ")" :: ts) ++ rest
        = Tok.lit ['('] :: i :: Tok.lit [':'] :: k :: Tok.lit ['='] :: v
            :: (tail ++ tk ")" :: (ts ++ rest)) := by
      simp only [List.cons_append, List.append_assoc]
      rfl
    rw [hshape, parseAttrs.eq_1, if_pos (by simp [hi, hk, hv])]
    simp only [hpp]
    rw [if_pos (by simp; omega), ih rest hrest]
    rfl

/-! ### determinism of the greedy element reader -/

/-- a token that is not the symbol `e` is not consumed by the rule for `e` -/
theorem parseElems_skip' (e : Str) (es : List Str) (x : Tok) (tl : List Tok) (h : x ≠ Tok.lit e) :
    parseElems (e :: es) (x :: tl) = parseElems es (x :: tl) := by
  cases x with
  | big d =>
    rw [parseElems_big]
    cases es with
    | nil => rw [parseElems_nil]
    | cons e' es' => rw [parseElems_big]
  | lit s =>
    have hne : (s == e) = false := beq_false_of_ne (fun hs => h (by rw [hs]))
    exact Hill.parseElems_skip _ _ _ _ hne

/-- a token that is no symbol of the order ends the chain of optional rules -/
theorem parseElems_stop (order : List Str) (t : Tok) (rest : List Tok)
    (h : ∀ e ∈ order, t ≠ Tok.lit e) : parseElems order (t :: rest) = ([], t :: rest) := by
  induction order with
  | nil => exact parseElems_nil _
  | cons e es ih =>
    rw [parseElems_skip' _ _ _ _ (h e List.mem_cons_self)]
    exact ih (fun e' he' => h e' (List.mem_cons_of_mem _ he'))

/-- the tokens of `x? y? z? …` start with one of the symbols -/
theorem optElems_head {order : List Str} {pre : List Tok} {items : List (Str × Option Str)}
    (h : OptElems order pre items) : pre = [] ∨ ∃ e ∈ order, ∃ tl, pre = Tok.lit e :: tl := by
  induction h with
  | done order => exact Or.inl rfl
  | @skip e es ts items _ ih =>
    rcases ih with ih | ⟨e', he', tl, htl⟩
    · exact Or.inl ih
    · exact Or.inr ⟨e', List.mem_cons_of_mem _ he', tl, htl⟩
  | @plain e es ts items _ _ => exact Or.inr ⟨e, List.mem_cons_self, _, rfl⟩
  | @counted e es c ts items _ _ _ => exact Or.inr ⟨e, List.mem_cons_self, _, rfl⟩

/-- the token that follows: the stop token or one of the symbols -/
theorem optElems_next {order : List Str} {pre : List Tok} {items : List (Str × Option Str)}
    (h : OptElems order pre items) (t : Tok) (rest : List Tok) :
    ∃ x tl, pre ++ t :: rest = x :: tl ∧ (x = t ∨ ∃ e ∈ order, x = Tok.lit e) := by
  rcases optElems_head h with rfl | ⟨e, he, tl, rfl⟩
  · exact ⟨t, rest, rfl, Or.inl rfl⟩
  · exact ⟨Tok.lit e, tl ++ t :: rest, rfl, Or.inr ⟨e, he, rfl⟩⟩

theorem elems_complete {order : List Str} {pre : List Tok} {items : List (Str × Option Str)}
    (h : OptElems order pre items) : order.Nodup → (∀ e ∈ order, digit1to9 e = false) →
    ∀ (t : Tok) (rest : List Tok), isGtOne t = false → (∀ e ∈ order, t ≠ Tok.lit e) →
      parseElems order (pre ++ t :: rest) = (items, t :: rest) := by
  induction h with
  | done order =>
    intro _ _ t rest _ ht
    exact parseElems_stop order t rest ht
  | @skip e es ts items h' ih =>
    intro hnd hsym t rest hg ht
    have hnd' := List.nodup_cons.mp hnd
    have key := ih hnd'.2 (fun x hx => hsym x (List.mem_cons_of_mem _ hx)) t rest hg
      (fun x hx => ht x (List.mem_cons_of_mem _ hx))
    obtain ⟨x, tl, hx, hx'⟩ := optElems_next h' t rest
    rw [hx] at key ⊢
    rw [parseElems_skip' _ _ _ _ ?_, key]
    rcases hx' with rfl | ⟨e', he', rfl⟩
    · exact ht e List.mem_cons_self
    · intro heq
      injection heq with heq
      exact hnd'.1 (heq ▸ he')
  | @plain e es ts items h' ih =>
    intro hnd hsym t rest hg ht
    have hnd' := List.nodup_cons.mp hnd
    have key := ih hnd'.2 (fun x hx => hsym x (List.mem_cons_of_mem _ hx)) t rest hg
      (fun x hx => ht x (List.mem_cons_of_mem _ hx))
    obtain ⟨x, tl, hx, hx'⟩ := optElems_next h' t rest
    have hxg : isGtOne x = false := by
      rcases hx' with rfl | ⟨e', he', rfl⟩
      · exact hg
      · exact Hill.isGtOne_lit_of_not_digit _ (hsym e' (List.mem_cons_of_mem _ he'))
    rw [hx] at key
    rw [List.cons_append, hx]
    rw [Hill.parseElems_nocount _ _ _ _ hxg, key]
  | @counted e es c ts items hc h' ih =>
    intro hnd hsym t rest hg ht
    have hnd' := List.nodup_cons.mp hnd
    have key := ih hnd'.2 (fun x hx => hsym x (List.mem_cons_of_mem _ hx)) t rest hg
      (fun x hx => ht x (List.mem_cons_of_mem _ hx))
    rw [List.cons_append, List.cons_append, Hill.parseElems_count _ _ _ _ hc, key]

/-- `'/'` ends both formula rules -/
theorem slash_stops (order : List Str) (h : order.all (fun e => !digit1to9 e && e != ['/']) = true) :
    isGtOne (tk "/") = false ∧ ∀ e ∈ order, tk "/" ≠ Tok.lit e := by
  refine ⟨by decide, ?_⟩
  intro e he heq
  rw [tk_slash] at heq
  injection heq with heq
  exact (Hill.tokens_hsym order h).2 (heq ▸ he)

theorem formula_complete {pre : List Tok} {items : List (Str × Option Str)} (h : SumFormula pre items)
    (rest : List Tok) : parseFormula (pre ++ tk "/" :: rest) = some (items, tk "/" :: rest) := by
  have hstopW := slash_stops _ Hill.withCarbonOrder_tokens
  have hsymW := (Hill.tokens_hsym _ Hill.withCarbonOrder_tokens).1
  cases h with
  | @withCarbon c0 es ts items hw ho =>
    have hc0 : c0 = ['C'] := by
      have := Hill.withCarbonOrder_eq
      rw [hw] at this
      injection this
    subst hc0
    rw [List.cons_append, Hill.parseFormula_carbon, ← List.cons_append]
    rw [hw] at hstopW hsymW ⊢
    rw [elems_complete (OptElems.plain ho) (hw ▸ Hill.withCarbonOrder_nodup) hsymW _ rest
      hstopW.1 hstopW.2]
  | @withCarbonCounted c0 es c ts items hw hc ho =>
    have hc0 : c0 = ['C'] := by
      have := Hill.withCarbonOrder_eq
      rw [hw] at this
      injection this
    subst hc0
    rw [List.cons_append, Hill.parseFormula_carbon, ← List.cons_append]
    rw [hw] at hstopW hsymW ⊢
    rw [elems_complete (OptElems.counted hc ho) (hw ▸ Hill.withCarbonOrder_nodup) hsymW _ rest
      hstopW.1 hstopW.2]
  | withoutCarbon ho =>
    have hstop := slash_stops _ Hill.withoutCarbonOrder_tokens
    have hsym := (Hill.tokens_hsym _ Hill.withoutCarbonOrder_tokens).1
    have hne : ∀ tl, pre ++ tk "/" :: rest ≠ Tok.lit ['C'] :: tl := by
      intro tl htl
      obtain ⟨x, tl', hx, hx'⟩ := optElems_next ho (tk "/") rest
      rw [hx] at htl
      injection htl with hxC _
      rcases hx' with rfl | ⟨e, he, rfl⟩
      · exact absurd hxC (by decide)
      · injection hxC with hxC
        exact ((Hill.mem_withoutCarbonOrder e).mp he).2 hxC
    rw [Hill.parseFormula_of_head_ne _ hne,
      elems_complete ho (Hill.nodup_of_pairwise_lt _ Hill.withoutCarbonOrder_pairwise) hsym _ rest
        hstop.1 hstop.2]

end Sentence

/-- completeness: every sentence is accepted, with its syntax tree -/
theorem parseTucan_complete (ts : List Tok) (ast : Ast) (h : Sentence ts ast) : parseTucan ts = some ast := by
  cases h with
  | @plain f items tu tups hF hT =>
    have h1 := Sentence.formula_complete hF tu
    have h2 := Sentence.tuples_complete hT [] (fun tl h => by simp at h)
    rw [List.append_nil] at h2
    unfold parseTucan
    rw [h1]
    simp only [Sentence.tk_slash, Option.bind_eq_bind, Option.bind_some, h2]
  | @withAttrs f items tu tups ta ats hF hT hA =>
    have h1 := Sentence.formula_complete hF (tu ++ tk "/" :: ta)
    have h2 := Sentence.tuples_complete hT (tk "/" :: ta) (fun tl h => by
      rw [Sentence.tk_slash] at h
      injection h with h _
      injection h with h
      exact absurd h (by decide))
    have h3 := Sentence.attrs_complete hA [] (fun tl h => by simp at h)
    rw [List.append_nil] at h3
    unfold parseTucan
    rw [h1]
    simp only [Sentence.tk_slash, Option.bind_eq_bind, Option.bind_some] at h2 ⊢
    rw [h2]
    simp only [Option.bind_some, h3, List.isEmpty_nil, if_true]

/-- **The recogniser accepts exactly the grammar.** -/
theorem parseTucan_iff (ts : List Tok) (ast : Ast) : parseTucan ts = some ast ↔ Sentence ts ast :=
  ⟨parseTucan_sound ts ast, parseTucan_complete ts ast⟩

end Tucan
