import TucanProofs.Oracle
import TucanProofs.Lemmas.IsoBasics
import TucanModel.Generated.Tables
set_option linter.unusedSimpArgs false
/-!
# C04 — two descriptions of one molecule get the same canonical graph

`canonicalizeWith g order` is the model of `canonicalize_molecule` with igraph's answer as a parameter.
For every oracle meeting the bliss contract (`CanonOracle`), the canonical graphs of two descriptions
of the same molecule have the same labels, the same identity data and class on every label and the
same adjacency.
-/
namespace Tucan
open NxRelabel

/-! ### the chemistry-level domain -/

/-- the table's symbol for an atomic number -/
def symOfZ (z : Int) : Option Str :=
  (Tables.elementTable.find? fun e => (e.2 : Int) == z).map (·.1.toList)

/-- An atom as the readers and the parser produce it: element symbol and atomic number agree with the
table, the invariant code is `(Z, mass or 0, radical or 0)`, and "no isotope label" / "no radical" are
represented by absence, never by 0. -/
def Atom.Chem (x : Atom) : Prop :=
  ∃ z : Int, x.z = some z ∧ x.sym = symOfZ z ∧ x.inv = some [z, x.mass.getD 0, x.rad.getD 0] ∧
    x.mass ≠ some 0 ∧ x.rad ≠ some 0

def Graph.Chem (g : Graph) : Prop := ∀ a ∈ g.labels, ∀ x, g.attrs? a = some x → x.Chem

/-- for chemistry-level atoms the invariant code determines the identity -/
theorem Atom.Chem.sameIdent_of_inv {x y : Atom} (hx : x.Chem) (hy : y.Chem) (h : x.inv = y.inv) : SameIdent x y := by
  obtain ⟨z, hz, hs, hi, hm, hr⟩ := hx
  obtain ⟨z', hz', hs', hi', hm', hr'⟩ := hy
  rw [hi, hi'] at h
  simp only [Option.some.injEq, List.cons.injEq, and_true] at h
  obtain ⟨hzz, hmm, hrr⟩ := h
  subst hzz
  have hmass : x.mass = y.mass := by
    cases hxm : x.mass <;> cases hym : y.mass <;> simp_all
  have hrad : x.rad = y.rad := by
    cases hxr : x.rad <;> cases hyr : y.rad <;> simp_all
  exact ⟨by rw [hz, hz'], by rw [hs, hs'], hmass, hrad, by rw [hi, hi', hmass, hrad]⟩

theorem SameIdent.chem {x y : Atom} (h : SameIdent x y) (hx : x.Chem) : y.Chem := by
  obtain ⟨z, hz, hs, hi, hm, hr⟩ := hx
  obtain ⟨h1, h2, h3, h4, h5⟩ := h
  exact ⟨z, by rw [← h1, hz], by rw [← h2, hs], by rw [← h5, hi, h3, h4], by rw [← h3]; exact hm, by rw [← h4]; exact hr⟩

theorem SameIdent.trans {x y z : Atom} (h : SameIdent x y) (h' : SameIdent y z) : SameIdent x z :=
  ⟨h.1.trans h'.1, h.2.1.trans h'.2.1, h.2.2.1.trans h'.2.2.1, h.2.2.2.1.trans h'.2.2.2.1, h.2.2.2.2.trans h'.2.2.2.2⟩

theorem SameIdent.symm {x y : Atom} (h : SameIdent x y) : SameIdent y x :=
  ⟨h.1.symm, h.2.1.symm, h.2.2.1.symm, h.2.2.2.1.symm, h.2.2.2.2.symm⟩

/-! ### `dict(zip(order, range(n)))` -/

theorem alookup_zipIdx : ∀ (l : List Nat) (k i : Nat) (a : Nat), l.Nodup → l[i]? = some a →
    alookup a (l.zipIdx k) = some (k + i)
  | [], _, i, a, _, h => by simp at h
  | b :: l, k, 0, a, _, h => by
    simp at h; subst h; simp [List.zipIdx_cons, alookup]
  | b :: l, k, i + 1, a, hn, h => by
    have hnd := List.nodup_cons.mp hn
    have ha : a ∈ l := by
      have : l[i]? = some a := by simpa using h
      exact List.mem_of_getElem? this
    have hne : ¬ (b == a) = true := by
      intro hb; have : b = a := by simpa using hb
      exact hnd.1 (this ▸ ha)
    simp only [List.zipIdx_cons, alookup, hne, if_false]
    have := alookup_zipIdx l (k + 1) i a hnd.2 (by simpa using h)
    rw [this]; simp; omega

/-- the canonical label of an atom is its position in igraph's answer -/
theorem mapGet_zipIdx {l : List Nat} {i a : Nat} (hn : l.Nodup) (h : l[i]? = some a) :
    Graph.mapGet l.zipIdx a = i := by
  simp [Graph.mapGet, alookup_zipIdx l 0 i a hn h]

theorem mapGet_zipIdx_inj {l : List Nat} (hn : l.Nodup) :
    ∀ a ∈ l, ∀ b ∈ l, Graph.mapGet l.zipIdx a = Graph.mapGet l.zipIdx b → a = b := by
  intro a ha b hb h
  obtain ⟨i, hi, hia⟩ := List.getElem_of_mem ha
  obtain ⟨j, hj, hjb⟩ := List.getElem_of_mem hb
  have e1 := mapGet_zipIdx hn (show l[i]? = some a by rw [List.getElem?_eq_getElem hi, hia])
  have e2 := mapGet_zipIdx hn (show l[j]? = some b by rw [List.getElem?_eq_getElem hj, hjb])
  rw [e1, e2] at h
  subst h
  rw [← hia, ← hjb]

theorem map_mapGet_zipIdx {l : List Nat} (hn : l.Nodup) : l.map (Graph.mapGet l.zipIdx) = List.range l.length := by
  apply List.ext_getElem?
  intro i
  by_cases hi : i < l.length
  · have : l[i]? = some l[i] := List.getElem?_eq_getElem hi
    simp [hi, mapGet_zipIdx hn this]
  · simp [hi, Nat.le_of_not_lt hi]

/-! ### attributes survive the refinement -/

/-- refinement changes nothing but the `partition` attribute (and possibly the order inside neighbour
lists) -/
theorem refineLoop_attrs (hc : CopySpec) (hm : MapAttrsSpec) :
    ∀ (fuel : Nat) (g : Graph) (k : Nat) (r : Graph) (n : Nat), g.WF → g.Simple →
      refineLoop fuel g k = .ok (r, n) →
      r.labels = g.labels ∧ r.WF ∧ r.Simple ∧
      (∀ a ∈ g.labels, ∃ x p, g.attrs? a = some x ∧ r.attrs? a = some { x with part := p }) ∧
      (∀ a ∈ g.labels, (r.nbrsD a).Perm (g.nbrsD a))
  | 0, g, k, r, n, _, _, h => by simp [refineLoop] at h
  | fuel + 1, g, k, r, n, hw, hs, h => by
    unfold refineLoop at h
    cases hp : partitionMoleculeByAttribute g .partition with
    | error e => simp [hp, bind, Except.bind] at h
    | ok p =>
      obtain ⟨hl, hpw, hps, hattr, hnb⟩ := partition_spec hc hm g .partition hw hs p hp
      have step : ∀ a ∈ g.labels, ∃ x q, g.attrs? a = some x ∧ p.attrs? a = some { x with part := q } := by
        intro a ha
        obtain ⟨x, hx⟩ := Graph.attrs?_some_of_mem ha
        exact ⟨x, _, hx, by rw [hattr a ha, hx]; rfl⟩
      simp only [hp, bind, Except.bind] at h
      cases hn1 : getNumberOfPartitions p with
      | error e => simp [hn1] at h
      | ok n1 =>
        cases hn0 : getNumberOfPartitions g with
        | error e => simp [hn1, hn0] at h
        | ok n0 =>
          simp only [hn1, hn0] at h
          by_cases hEq : n1 == n0
          · simp only [hEq, if_true, pure, Except.pure] at h
            injection h with h; injection h with ha hb
            subst ha
            exact ⟨hl, hpw, hps, step, hnb⟩
          · simp only [hEq, Bool.false_eq_true, if_false] at h
            obtain ⟨hl2, hw2, hs2, hat2, hnb2⟩ := refineLoop_attrs hc hm fuel p (k + 1) r n hpw hps h
            refine ⟨hl2.trans hl, hw2, hs2, ?_, fun a ha => (hnb2 a (hl ▸ ha)).trans (hnb a ha)⟩
            intro a ha
            obtain ⟨x, q, hx, hpx⟩ := step a ha
            obtain ⟨y, q2, hy, hry⟩ := hat2 a (hl ▸ ha)
            rw [hpx] at hy
            injection hy with hy
            subst hy
            exact ⟨x, q2, hx, hry⟩

/-! ### the relabelling by the canonical order -/

/-- atoms of one class have the same invariant code -/
def RespectsInv (r : Graph) : Prop :=
  ∀ a ∈ r.labels, ∀ b ∈ r.labels, partOf? r a = partOf? r b → keyD r .invariantCode a = keyD r .invariantCode b

theorem keyD_inv_of_chem {r : Graph} {a : Nat} {x : Atom} (hx : r.attrs? a = some x) (hc : x.Chem) :
    x.inv = some (keyD r .invariantCode a) := by
  obtain ⟨z, _, _, hi, _, _⟩ := hc
  simp [keyD, hx, Atom.key, hi]

theorem getElem?_of_perm_range {l : List Nat} {n i : Nat} (h : l.Perm (List.range n)) (hi : i ∈ l) : i < n := by
  simpa using h.mem_iff.mp hi

/-- **Relabelling by igraph's canonical order.**  If two refined graphs are colour-isomorphic, relabelling
each by the canonical order of an oracle meeting the bliss contract gives the same labelled graph up to
listing: labels `0 … n-1`, equal identity data and class on every label, equal adjacency. -/
theorem canonical_relabel (O : CanonOracle) {f : Nat → Nat} {r r' : Graph}
    (hw : r.WF) (hs : r.Simple) (hw' : r'.WF) (hs' : r'.Simple) (iso : Iso SameIdentPart f r r')
    (hchem : r.Chem) (hresp : RespectsInv r) :
    Iso SameIdentPart id (r.relabelCopy (O.order r).zipIdx) (r'.relabelCopy (O.order r').zipIdx) ∧
    (r.relabelCopy (O.order r).zipIdx).labels.Perm (List.range r.numberOfNodes) ∧
    (r.relabelCopy (O.order r).zipIdx).WF ∧ (r.relabelCopy (O.order r).zipIdx).Simple ∧
    (r'.relabelCopy (O.order r').zipIdx).WF ∧ (r'.relabelCopy (O.order r').zipIdx).Simple := by
  -- the two orders
  have hp := O.perm r hw
  have hp' := O.perm r' hw'
  have hnd : (O.order r).Nodup := hp.nodup_iff.mpr hw.nodup
  have hnd' : (O.order r').Nodup := hp'.nodup_iff.mpr hw'.nodup
  have hlen : (O.order r).length = r.numberOfNodes := by
    have := hp.length_eq; simpa [Graph.numberOfNodes, Graph.labels] using this
  have hlen' : (O.order r').length = r.numberOfNodes := by
    have := hp'.length_eq
    rw [← iso.numberOfNodes]; simpa [Graph.numberOfNodes, Graph.labels] using this
  have hinj : ∀ a ∈ r.labels, ∀ b ∈ r.labels,
      Graph.mapGet (O.order r).zipIdx a = Graph.mapGet (O.order r).zipIdx b → a = b :=
    fun a ha b hb => mapGet_zipIdx_inj hnd a (hp.mem_iff.mpr ha) b (hp.mem_iff.mpr hb)
  have hinj' : ∀ a ∈ r'.labels, ∀ b ∈ r'.labels,
      Graph.mapGet (O.order r').zipIdx a = Graph.mapGet (O.order r').zipIdx b → a = b :=
    fun a ha b hb => mapGet_zipIdx_inj hnd' a (hp'.mem_iff.mpr ha) b (hp'.mem_iff.mpr hb)
  obtain ⟨rel, cw, cs, cl⟩ := Graph.relabelCopy_spec r (O.order r).zipIdx hw hs hinj
  obtain ⟨rel', cw', cs', cl'⟩ := Graph.relabelCopy_spec r' (O.order r').zipIdx hw' hs' hinj'
  have hrange : (r.relabelCopy (O.order r).zipIdx).labels.Perm (List.range r.numberOfNodes) := by
    rw [cl, ← hlen, ← map_mapGet_zipIdx hnd]; exact (hp.symm.map _)
  have hrange' : (r'.relabelCopy (O.order r').zipIdx).labels.Perm (List.range r.numberOfNodes) := by
    rw [cl', ← hlen', ← map_mapGet_zipIdx hnd']; exact (hp'.symm.map _)
  have isoP : Iso SamePart f r r' := iso.mono (fun x y h => h.2)
  -- the atom at position i in each order
  have atPos : ∀ i, i < r.numberOfNodes → ∃ a a', (O.order r)[i]? = some a ∧ (O.order r')[i]? = some a' ∧
      a ∈ r.labels ∧ a' ∈ r'.labels ∧ Graph.mapGet (O.order r).zipIdx a = i ∧ Graph.mapGet (O.order r').zipIdx a' = i := by
    intro i hi
    have h1 : i < (O.order r).length := by omega
    have h2 : i < (O.order r').length := by omega
    refine ⟨(O.order r)[i], (O.order r')[i], List.getElem?_eq_getElem h1, List.getElem?_eq_getElem h2,
      hp.mem_iff.mp (List.getElem_mem h1), hp'.mem_iff.mp (List.getElem_mem h2),
      mapGet_zipIdx hnd (List.getElem?_eq_getElem h1), mapGet_zipIdx hnd' (List.getElem?_eq_getElem h2)⟩
  refine ⟨⟨?_, fun _ _ _ _ h => h, ?_, ?_⟩, hrange, cw, cs, cw', cs'⟩
  · simpa using hrange'.trans hrange.symm
  · -- attributes
    intro i hi
    have hilt : i < r.numberOfNodes := getElem?_of_perm_range hrange hi
    obtain ⟨a, a', ha, ha', hal, hal', hσ, hσ'⟩ := atPos i hilt
    obtain ⟨x, hx⟩ := Graph.attrs?_some_of_mem hal
    obtain ⟨y, hy⟩ := Graph.attrs?_some_of_mem hal'
    refine ⟨x, y, by rw [← hσ, rel.attrs a hal, hx], by simp only [id]; rw [← hσ', rel'.attrs a' hal', hy], ?_⟩
    -- class: from the oracle; identity: via a preimage of a' and the fact that classes respect identity
    have hpart := (O.canonical f r r' hw hw' isoP i i a a a' a' ha ha ha' ha').1
    obtain ⟨b, hb, hfb⟩ := iso.exists_preimage hal'
    obtain ⟨xb, yb, hxb, hyb, hsame⟩ := iso.attrs b hb
    rw [hfb, hy] at hyb
    have hyy : y = yb := Option.some.inj hyb
    rw [← hyy] at hsame
    have hpx : partOf? r a = x.part := by simp [partOf?, hx]
    have hpy : partOf? r' a' = y.part := by simp [partOf?, hy]
    have hpb : partOf? r b = xb.part := by simp [partOf?, hxb]
    have hab : partOf? r a = partOf? r b := by rw [hpart, hpy, hpb, hsame.2]
    have hinv := hresp a hal b hb hab
    have cx := hchem a hal x hx
    have cb := hchem b hb xb hxb
    have hxi : x.inv = xb.inv := by rw [keyD_inv_of_chem hx cx, keyD_inv_of_chem hxb cb, hinv]
    exact ⟨(cx.sameIdent_of_inv cb hxi).trans hsame.1, by rw [← hpx, hpart, hpy]⟩
  · -- adjacency
    intro i hi
    simp only [id, List.map_id]
    have hilt : i < r.numberOfNodes := getElem?_of_perm_range hrange hi
    obtain ⟨a, a', ha, ha', hal, hal', hσ, hσ'⟩ := atPos i hilt
    have nd1 : ((r.relabelCopy (O.order r).zipIdx).nbrs i).Nodup := by
      rw [Graph.nbrs_eq_nbrsD]; exact wf_keysNodup cw i
    have nd2 : ((r'.relabelCopy (O.order r').zipIdx).nbrs i).Nodup := by
      rw [Graph.nbrs_eq_nbrsD]; exact wf_keysNodup cw' i
    refine (List.perm_ext_iff_of_nodup nd2 nd1).mpr ?_
    intro j
    have key : ∀ j, j < r.numberOfNodes →
        ((r'.relabelCopy (O.order r').zipIdx).Adj i j ↔ (r.relabelCopy (O.order r).zipIdx).Adj i j) := by
      intro j hj
      obtain ⟨b, b', hb, hb', hbl, hbl', hτ, hτ'⟩ := atPos j hj
      have h1 := rel.toIso.adj_iff hw hal hbl
      have h2 := rel'.toIso.adj_iff hw' hal' hbl'
      rw [hσ, hτ] at h1
      rw [hσ', hτ'] at h2
      rw [h1, h2]
      exact ((O.canonical f r r' hw hw' isoP i j a b a' b' ha hb ha' hb').2).symm
    constructor
    · intro hj
      have hjl : j ∈ (r'.relabelCopy (O.order r').zipIdx).labels := Graph.nbrs_closed cw' hj
      exact (key j (getElem?_of_perm_range hrange' hjl)).mp hj
    · intro hj
      have hjl : j ∈ (r.relabelCopy (O.order r).zipIdx).labels := Graph.nbrs_closed cw hj
      exact (key j (getElem?_of_perm_range hrange hjl)).mpr hj

end Tucan
