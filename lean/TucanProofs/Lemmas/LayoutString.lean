import TucanProofs.Lemmas.RoundTripPipeline
import TucanProofs.Lemmas.AcceptIff
import TucanProofs.Lemmas.EdgeCount
/-!
# The canonical layout, stated about the emitted string

`C05_tuples_layout`, `C05_attribute_blocks_ascending`, `C05_formula_equals_element_counts` are statements about
the lists the writer builds.  Here the same facts are stated about the *string* the pipeline returns: it lexes,
it is a sentence of the grammar, and the syntax tree of that sentence — which the grammar determines — has the
canonical layout.  `IsHillOrder` is written without reference to the writer.
-/
namespace Tucan

/-- Hill order of a list of distinct element symbols: with carbon, `C` first, then `H` when present, then the
rest by ascending code points; without carbon, everything (hydrogen included) by ascending code points. -/
structure IsHillOrder (l : List Str) : Prop where
  nodup : l.Nodup
  carbonFirst : ['C'] ∈ l → ∃ r, l = ['C'] :: r ∧ (['H'] ∈ r → ∃ r', r = ['H'] :: r')
  restAscending :
    (if ['C'] ∈ l then l.filter (fun s => s != ['C'] && s != ['H']) else l).Pairwise (fun a b => a < b)

/-- the canonical layout of a syntax tree -/
structure Ast.Canonical (ast : Ast) : Prop where
  /-- element symbols in Hill order, each once -/
  hill : IsHillOrder (ast.formula.map (·.1))
  /-- every literal is the decimal numeral of a positive number without leading zeros -/
  numerals : ∀ t ∈ ast.literals, 1 ≤ litVal t ∧ t = natRepr (litVal t)
  /-- a count of 1 is not written -/
  noCountOne : ∀ p ∈ ast.formula, ∀ c, p.2 = some c → 2 ≤ litVal c
  /-- every tuple is `(a-b)` with `a < b` -/
  tupleOrient : ∀ p ∈ ast.tuples, litVal p.1 < litVal p.2
  /-- tuples strictly ascending (so no bond twice) -/
  tuplesAscending :
    (ast.tuples.map fun p => (litVal p.1, litVal p.2)).Pairwise (fun x y => x.1 < y.1 ∨ (x.1 = y.1 ∧ x.2 < y.2))
  /-- attribute blocks strictly ascending by atom index (so one block per atom) -/
  blocksAscending : (ast.attrs.map fun b => litVal b.1).Pairwise (· < ·)
  /-- inside a block: `mass` before `rad`, each at most once, never empty -/
  blockKeys : ∀ b ∈ ast.attrs,
    b.2.map (·.1) = ["mass".toList] ∨ b.2.map (·.1) = ["rad".toList] ∨ b.2.map (·.1) = ["mass".toList, "rad".toList]

namespace Layout

/-! ### the decomposition of the pipeline's output -/

theorem litVal_natRepr (k : Nat) : litVal (natRepr k) = k := LineM.natOfDigits_natRepr k

theorem numeral_natRepr {k : Nat} (hk : 1 ≤ k) :
    1 ≤ litVal (natRepr k) ∧ natRepr k = natRepr (litVal (natRepr k)) := by
  rw [litVal_natRepr]; exact ⟨hk, rfl⟩

open RoundTrip SerializeCongr in
/-- the string `serialize_molecule` returns is the text of a sorted molecule that is the input renamed -/
theorem serialize_sorted (c : Graph) (hw : c.WF) (hs : c.Simple) (hmol : c.MolAtoms)
    (s : Str) (p : Graph) (h : serializeMolecule c = .ok (s, p)) :
    ∃ (m : Graph) (τ : Nat → Nat), s = serializedText m ∧ RoundTrip.SortedMol m c.numberOfNodes ∧
      Iso SameIdent τ c m := by
  obtain ⟨fl, m, hfl, hm, rfl⟩ := serialize_form h
  obtain ⟨fl0, hfl0, hk, hv, _⟩ := finalLabels_ok _ (view_wf c hw)
  rw [hfl] at hfl0
  injection hfl0 with hfl0
  subst hfl0
  have hk' : (fl.map (·.1)).Perm c.resetExplored.labels := hk
  have hv' : (fl.map (·.2)).Perm c.resetExplored.labels := hv
  have rw1 := reset_wf hw
  have hinj : ∀ a ∈ c.resetExplored.labels, ∀ b ∈ c.resetExplored.labels,
      Graph.mapGet fl a = Graph.mapGet fl b → a = b := fun a ha b hb hab =>
    mapGet_inj (hk'.nodup_iff.2 rw1.nodup) (hv'.nodup_iff.2 rw1.nodup)
      (hk'.mem_iff.2 ha) (hk'.mem_iff.2 hb) hab
  obtain ⟨r1, w1, s1, l1⟩ := Graph.relabelCopy_spec _ fl rw1 (reset_simple hs) hinj
  have iso1 : Iso SameIdent (Graph.mapGet fl ∘ id) c (c.resetExplored.relabelCopy fl) :=
    Iso.trans sameIdent_trans' (reset_iso_ident c) (r1.toIso.mono sameIdent_of_eq')
  have hmol1 := molAtoms_of_iso iso1 hmol
  have hn1 : (c.resetExplored.relabelCopy fl).numberOfNodes = c.numberOfNodes := iso1.numberOfNodes
  obtain ⟨r2, mw, ms, mlab, mz⟩ := sorted_facts w1 s1 hm (by
    intro a ha
    obtain ⟨x, hx⟩ := Graph.attrs?_some_of_mem ha
    obtain ⟨z, hz, _⟩ := (hmol1 a ha x hx).chem
    exact ⟨x, z, hx, hz⟩)
  rw [hn1] at mlab mz
  have iso2 : Iso SameIdent (Graph.mapGet (sortMap (c.resetExplored.relabelCopy fl) .atomicNumber) ∘
      (Graph.mapGet fl ∘ id)) c m :=
    Iso.trans sameIdent_trans' iso1 (r2.toIso.mono sameIdent_of_eq')
  exact ⟨m, _, rfl, ⟨mw, ms, mlab, molAtoms_of_iso iso2 hmol, mz⟩, iso2⟩

/-- the pipeline's output is the text of a sorted molecule that is the input renamed -/
theorem emitted_form (order : Graph → List Nat) (hperm : ∀ r : Graph, r.WF → (order r).Perm r.labels)
    (g : Graph) (hw : g.WF) (hs : g.Simple) (hmol : g.MolAtoms)
    (s : Str) (h : tucanOf order g = .ok s) :
    ∃ (m : Graph) (τ : Nat → Nat), s = serializedText m ∧ RoundTrip.SortedMol m g.numberOfNodes ∧
      Iso SameIdent τ g m := by
  unfold tucanOf at h
  cases hc : canonicalizeWith g order with
  | error e => simp [hc, bind, Except.bind] at h
  | ok v =>
    obtain ⟨c, r, k⟩ := v
    simp only [hc, bind, Except.bind] at h
    cases hser : serializeMolecule c with
    | error e => simp [hser] at h
    | ok w =>
      obtain ⟨t, p⟩ := w
      simp only [hser, pure, Except.pure] at h
      injection h with h; subst h
      obtain ⟨σ, isoC, cw, cs, hn, hcm⟩ := canonicalize_iso order hperm g c r k hw hs hc
      obtain ⟨m, τ, ht, S, iso⟩ := serialize_sorted c cw cs (hcm hmol) t p hser
      exact ⟨m, τ ∘ σ, ht, hn ▸ S, isoC.trans (fun x y z => sameIdent_trans' x y z) iso⟩

/-- the text of a sorted molecule is a sentence with tree `astOf m` -/
theorem sorted_sentence {m : Graph} {n : Nat} (S : RoundTrip.SortedMol m n) :
    ∃ toks, lex (serializedText m) = some toks ∧ Sentence toks (astOf m) := by
  have hsyms : ∀ s ∈ m.nodes.filterMap (·.attrs.sym), s ∈ elementSyms :=
    fun s hs => (S.syms_elem s hs).1
  have hpos : ∀ nd ∈ m.nodes, (∀ v, nd.attrs.mass = some v → 0 < v) ∧
      (∀ v, nd.attrs.rad = some v → 0 < v) :=
    fun nd hnd => ⟨fun v hv => ((S.node_mol hnd).1.massPos v hv).1,
      fun v hv => ((S.node_mol hnd).1.radPos v hv).1⟩
  obtain ⟨toks, hlex, _, hsent⟩ := serialize_parses m hsyms hpos
  exact ⟨toks, hlex, hsent⟩

/-! ### the formula -/

open Hill in
theorem hill_order (syms : List Str) : IsHillOrder ((hillItems syms).map (·.1)) := by
  obtain ⟨_, hnd, hmem⟩ := hillItems_counts syms
  have hkC : ['C'] ∉ hillKeys syms := fun h => ((mem_hillKeys _ _).mp h).2.1 rfl
  by_cases hc : countOcc ['C'] syms > 0
  · have hkH : ['H'] ∉ hillKeys syms := fun h => ((mem_hillKeys _ _).mp h).2.2 ⟨hc, rfl⟩
    have hfilter : (hillKeys syms).filter (fun s => s != ['C'] && s != ['H']) = hillKeys syms := by
      apply List.filter_eq_self.mpr
      intro a ha
      have h1 : a ≠ ['C'] := fun e => hkC (e ▸ ha)
      have h2 : a ≠ ['H'] := fun e => hkH (e ▸ ha)
      simp [h1, h2]
    have hC : ['C'] ∈ (hillItems syms).map (·.1) := (hmem _).mpr ((countOcc_pos _ _).mp hc)
    by_cases hh : countOcc ['H'] syms > 0
    · have hl : (hillItems syms).map (·.1) = ['C'] :: ['H'] :: hillKeys syms := by
        rw [hillItems_map_fst]; unfold hillHead; rw [if_pos hc, if_pos hh]; rfl
      refine ⟨hnd, fun _ => ⟨_, hl, fun _ => ⟨_, rfl⟩⟩, ?_⟩
      rw [if_pos hC, hl]
      have : (['C'] :: ['H'] :: hillKeys syms).filter (fun s => s != ['C'] && s != ['H'])
          = (hillKeys syms).filter (fun s => s != ['C'] && s != ['H']) := by
        simp
      rw [this, hfilter]
      exact hillKeys_pairwise syms
    · have hl : (hillItems syms).map (·.1) = ['C'] :: hillKeys syms := by
        rw [hillItems_map_fst]; unfold hillHead; rw [if_pos hc, if_neg hh]; rfl
      refine ⟨hnd, fun _ => ⟨_, hl, fun hH => absurd hH hkH⟩, ?_⟩
      rw [if_pos hC, hl]
      have : (['C'] :: hillKeys syms).filter (fun s => s != ['C'] && s != ['H'])
          = (hillKeys syms).filter (fun s => s != ['C'] && s != ['H']) := by
        simp
      rw [this, hfilter]
      exact hillKeys_pairwise syms
  · have hl : (hillItems syms).map (·.1) = hillKeys syms := by
      rw [hillItems_map_fst]; unfold hillHead; rw [if_neg hc]; rfl
    have hC : ['C'] ∉ (hillItems syms).map (·.1) := by rw [hl]; exact hkC
    refine ⟨hnd, fun h => absurd h hC, ?_⟩
    rw [if_neg hC, hl]
    exact hillKeys_pairwise syms

theorem formula_fst (m : Graph) :
    (astOf m).formula.map (·.1) = (hillItems (m.nodes.filterMap (·.attrs.sym))).map (·.1) := by
  simp [astOf, List.map_map, Function.comp_def]

theorem mem_formula {m : Graph} {p : Str × Option Str} (hp : p ∈ (astOf m).formula) :
    ∃ i ∈ hillItems (m.nodes.filterMap (·.attrs.sym)), p = (i.1, countText i.2) := by
  obtain ⟨i, hi, rfl⟩ := List.mem_map.mp hp
  exact ⟨i, hi, rfl⟩

theorem countText_some {c : Nat} {t : Str} (h : countText c = some t) : 2 ≤ c ∧ t = natRepr c := by
  unfold countText at h
  split at h
  · injection h with h; exact ⟨by omega, h.symm⟩
  · cases h

theorem itemCount_countText (s : Str) {c : Nat} (hc : 1 ≤ c) : Acc.itemCount (s, countText c) = c := by
  unfold Acc.itemCount countText
  by_cases h : c > 1
  · simp only [if_pos h, litVal_natRepr]
  · simp only [if_neg h]; omega

/-! ### the attribute blocks -/

theorem mem_attrsAstOf {m : Graph} {b : Str × List (Str × Str)} (hb : b ∈ attrsAstOf m) :
    ∃ n ∈ m.nodes, (attrPairs n.attrs).isEmpty = false ∧ b = (natRepr (n.id + 1), attrPairs n.attrs) := by
  unfold attrsAstOf at hb
  rw [List.mem_filterMap] at hb
  obtain ⟨n, hn, hnb⟩ := hb
  have hn' : n ∈ m.nodes := List.mem_mergeSort.mp hn
  split at hnb
  · cases hnb
  · rename_i hne
    injection hnb with hnb
    exact ⟨n, hn', by simpa using hne, hnb.symm⟩

theorem attrPairs_vals (a : Atom) (hm : ∀ v, a.mass = some v → 0 < v) (hr : ∀ v, a.rad = some v → 0 < v) :
    ∀ p ∈ attrPairs a, ∃ k, 1 ≤ k ∧ p.2 = natRepr k := by
  intro p hp
  unfold attrPairs at hp
  rcases List.mem_append.mp hp with hp | hp
  · cases hmass : a.mass with
    | none => rw [hmass] at hp; simp at hp
    | some v =>
      rw [hmass] at hp
      have := List.mem_singleton.mp hp
      subst this
      obtain ⟨n, hn, he⟩ := SerTok.intRepr_pos v (hm v hmass)
      exact ⟨n, hn, he⟩
  · cases hrad : a.rad with
    | none => rw [hrad] at hp; simp at hp
    | some v =>
      rw [hrad] at hp
      have := List.mem_singleton.mp hp
      subst this
      obtain ⟨n, hn, he⟩ := SerTok.intRepr_pos v (hr v hrad)
      exact ⟨n, hn, he⟩

theorem attrPairs_keys (a : Atom) (h : (attrPairs a).isEmpty = false) :
    (attrPairs a).map (·.1) = ["mass".toList] ∨ (attrPairs a).map (·.1) = ["rad".toList] ∨
      (attrPairs a).map (·.1) = ["mass".toList, "rad".toList] := by
  unfold attrPairs at h ⊢
  revert h
  cases a.mass <;> cases a.rad <;> intro h
  · simp at h
  · right; left; rfl
  · left; rfl
  · right; right; rfl

theorem attrPairs_isEmpty (a : Atom) :
    (!(attrPairs a).isEmpty) = (a.mass.isSome || a.rad.isSome) := by
  unfold attrPairs
  cases a.mass <;> cases a.rad <;> rfl

theorem sortedNodes_strict {m : Graph} (hw : m.WF) :
    (m.nodes.mergeSort fun a b => decide (a.id ≤ b.id)).Pairwise (fun a b => a.id < b.id) := by
  have hsorted : (m.nodes.mergeSort fun a b => decide (a.id ≤ b.id)).Pairwise (fun a b => a.id ≤ b.id) := by
    have := List.pairwise_mergeSort (le := fun (a b : Node) => decide (a.id ≤ b.id))
      (fun a b c hab hbc => by simp only [decide_eq_true_eq] at *; omega)
      (fun a b => by simp only [Bool.or_eq_true, decide_eq_true_eq]; omega) m.nodes
    simpa using this
  have hnd : ((m.nodes.mergeSort fun a b => decide (a.id ≤ b.id)).map (·.id)).Nodup :=
    ((List.mergeSort_perm m.nodes _).map (·.id)).nodup_iff.mpr (by simpa [Graph.labels] using hw.nodup)
  have h2 := List.pairwise_map.mp hnd
  exact (hsorted.and h2).imp (fun {a b} ⟨h1, h2⟩ => Nat.lt_of_le_of_ne h1 h2)

theorem blocks_ascending {m : Graph} (hw : m.WF) :
    ((attrsAstOf m).map fun b => litVal b.1).Pairwise (· < ·) := by
  rw [List.pairwise_map]
  unfold attrsAstOf
  refine List.Pairwise.filterMap _ ?_ (sortedNodes_strict hw)
  intro a a' haa b hb b' hb'
  split at hb <;> simp at hb
  split at hb' <;> simp at hb'
  subst hb; subst hb'
  simp only [litVal_natRepr]
  omega

/-! ### the canonical layout of `astOf m` -/

theorem literals_numerals {m : Graph} {n : Nat} (S : RoundTrip.SortedMol m n) :
    ∀ t ∈ (astOf m).literals, ∃ k, 1 ≤ k ∧ t = natRepr k := by
  intro t ht
  unfold Ast.literals at ht
  rcases List.mem_append.mp ht with ht | ht
  · rcases List.mem_append.mp ht with ht | ht
    · obtain ⟨p, hp, hpt⟩ := List.mem_filterMap.mp ht
      obtain ⟨i, _, rfl⟩ := mem_formula hp
      obtain ⟨h2, rfl⟩ := countText_some hpt
      exact ⟨i.2, by omega, rfl⟩
    · obtain ⟨p, hp, hpt⟩ := List.mem_flatMap.mp ht
      obtain ⟨e, _, rfl⟩ := List.mem_map.mp hp
      rcases List.mem_cons.mp hpt with rfl | hpt
      · exact ⟨e.1 + 1, by omega, rfl⟩
      · rcases List.mem_cons.mp hpt with rfl | hpt
        · exact ⟨e.2 + 1, by omega, rfl⟩
        · cases hpt
  · obtain ⟨b, hb, hbt⟩ := List.mem_flatMap.mp ht
    obtain ⟨nd, hnd, _, rfl⟩ := mem_attrsAstOf hb
    rcases List.mem_cons.mp hbt with rfl | hbt
    · exact ⟨nd.id + 1, by omega, rfl⟩
    · obtain ⟨q, hq, rfl⟩ := List.mem_map.mp hbt
      exact attrPairs_vals nd.attrs (fun v hv => ((S.node_mol hnd).1.massPos v hv).1)
        (fun v hv => ((S.node_mol hnd).1.radPos v hv).1) q hq

theorem astOf_canonical {m : Graph} {n : Nat} (S : RoundTrip.SortedMol m n) : (astOf m).Canonical := by
  refine ⟨?_, ?_, ?_, ?_, ?_, blocks_ascending S.wf, ?_⟩
  · rw [formula_fst]; exact hill_order _
  · intro t ht
    obtain ⟨k, hk, rfl⟩ := literals_numerals S t ht
    exact numeral_natRepr hk
  · intro p hp c hc
    obtain ⟨i, _, rfl⟩ := mem_formula hp
    obtain ⟨h2, rfl⟩ := countText_some hc
    rw [litVal_natRepr]; exact h2
  · intro p hp
    obtain ⟨e, he, rfl⟩ := List.mem_map.mp hp
    have := (S.edge_bounds he).1
    simp only [litVal_natRepr]
    omega
  · show (((sortedEdges m).map fun e => (natRepr (e.1 + 1), natRepr (e.2 + 1))).map
      fun p => (litVal p.1, litVal p.2)).Pairwise _
    rw [List.map_map, List.pairwise_map]
    refine (sortedEdges_strict m S.wf S.simple).imp ?_
    intro a b hab
    simp only [Function.comp, litVal_natRepr]
    omega
  · intro b hb
    obtain ⟨nd, _, hne, rfl⟩ := mem_attrsAstOf hb
    exact attrPairs_keys nd.attrs hne

/-! ### the counts -/

theorem length_flatMap_replicate {α β : Type} (f : α → β) (items : List (α × Nat)) :
    (items.flatMap fun i => List.replicate i.2 (f i.1)).length = (items.map (·.2)).sum := by
  induction items with
  | nil => rfl
  | cons i r ih => simp [List.flatMap_cons, ih]

theorem atomCount_astOf {m : Graph} {n : Nat} (S : RoundTrip.SortedMol m n) : (astOf m).atomCount = n := by
  rw [← S.atoms_length, length_flatMap_replicate]
  unfold Ast.atomCount
  show (((hillItems (m.nodes.filterMap (·.attrs.sym))).map fun i => (i.1, countText i.2)).map
    Acc.itemCount).sum = _
  rw [List.map_map]
  congr 1
  apply List.map_congr_left
  intro i hi
  exact itemCount_countText i.1 ((hillItems_counts _).1 i hi).1

/-- data read from the atoms, invariant under `SameIdent`, is the same up to order in isomorphic graphs -/
theorem nodes_filterMap_perm_iso {β : Type} {f : Nat → Nat} {g h : Graph} (gw : g.WF) (hw : h.WF)
    (iso : Iso SameIdent f g h) (P : Atom → Option β) (hP : ∀ x y, SameIdent x y → P x = P y) :
    (h.nodes.filterMap (fun n => P n.attrs)).Perm (g.nodes.filterMap (fun n => P n.attrs)) := by
  have e1 := SerializeCongr.nodes_filterMap_eq_labels hw (fun _ x => P x)
  have e2 := SerializeCongr.nodes_filterMap_eq_labels gw (fun _ x => P x)
  rw [e1, e2]
  refine (iso.labels.filterMap _).trans ?_
  rw [List.filterMap_map]
  apply List.Perm.of_eq
  apply SerializeCongr.filterMap_congr
  intro a ha
  obtain ⟨x, y, hx, hy, hxy⟩ := iso.attrs a ha
  simp only [Function.comp, hx, hy, Option.bind_some]
  exact (hP x y hxy).symm

theorem length_filterMap_eq_filter {α β : Type} (f : α → Option β) (p : α → Bool) (l : List α)
    (h : ∀ a ∈ l, (f a).isSome = p a) : (l.filterMap f).length = (l.filter p).length := by
  induction l with
  | nil => rfl
  | cons a r ih =>
    have ha := h a (by simp)
    have ih' := ih (fun b hb => h b (List.mem_cons_of_mem _ hb))
    rw [List.filterMap_cons, List.filter_cons]
    cases hfa : f a with
    | none => rw [hfa] at ha; simp only [Option.isSome_none] at ha; simp [← ha, ih']
    | some v => rw [hfa] at ha; simp only [Option.isSome_some] at ha; simp [← ha, ih']

/-- has a mass or a radical -/
def labelled (x : Atom) : Option Unit := if x.mass.isSome || x.rad.isSome then some () else none

theorem attrs_length (m : Graph) :
    (attrsAstOf m).length = (m.nodes.filterMap fun n => labelled n.attrs).length := by
  have h1 : (attrsAstOf m).length
      = ((m.nodes.mergeSort fun a b => decide (a.id ≤ b.id)).filter
          fun n => !(attrPairs n.attrs).isEmpty).length := by
    unfold attrsAstOf
    apply length_filterMap_eq_filter
    intro a _
    split <;> simp_all
  have h2 := ((List.mergeSort_perm m.nodes fun a b => decide (a.id ≤ b.id)).filter
    fun n => !(attrPairs n.attrs).isEmpty).length_eq
  rw [h1, h2]
  symm
  apply length_filterMap_eq_filter
  intro a _
  rw [attrPairs_isEmpty]
  unfold labelled
  split <;> simp_all

theorem labelled_length (g : Graph) :
    (g.nodes.filterMap fun n => labelled n.attrs).length
      = (g.nodes.filter fun n => n.attrs.mass.isSome || n.attrs.rad.isSome).length := by
  apply length_filterMap_eq_filter
  intro a _
  unfold labelled
  split <;> simp_all

end Layout

/-- **The emitted string has the canonical layout.** -/
theorem emitted_layout (order : Graph → List Nat) (hperm : ∀ r : Graph, r.WF → (order r).Perm r.labels)
    (g : Graph) (hw : g.WF) (hs : g.Simple) (hmol : g.MolAtoms)
    (s : Str) (h : tucanOf order g = .ok s) :
    ∃ toks ast, lex s = some toks ∧ Sentence toks ast ∧ ast.Canonical := by
  obtain ⟨m, τ, rfl, S, _⟩ := Layout.emitted_form order hperm g hw hs hmol s h
  obtain ⟨toks, hlex, hsent⟩ := Layout.sorted_sentence S
  exact ⟨toks, astOf m, hlex, hsent, Layout.astOf_canonical S⟩

/-- **… and states the molecule's own counts**: as many atoms of each element as the molecule has, one tuple per
bond, one attribute block per atom that carries a mass or a radical. -/
theorem emitted_counts (order : Graph → List Nat) (hperm : ∀ r : Graph, r.WF → (order r).Perm r.labels)
    (g : Graph) (hw : g.WF) (hs : g.Simple) (hmol : g.MolAtoms)
    (s : Str) (h : tucanOf order g = .ok s) :
    ∃ toks ast, lex s = some toks ∧ Sentence toks ast ∧
      (∀ p ∈ ast.formula, Acc.itemCount p = countOcc p.1 (g.nodes.filterMap (·.attrs.sym))) ∧
      (∀ sym ∈ g.nodes.filterMap (·.attrs.sym), sym ∈ ast.formula.map (·.1)) ∧
      ast.atomCount = g.numberOfNodes ∧
      ast.tuples.length = g.numberOfEdges ∧
      ast.attrs.length = (g.nodes.filter fun n => n.attrs.mass.isSome || n.attrs.rad.isSome).length := by
  obtain ⟨m, τ, rfl, S, iso⟩ := Layout.emitted_form order hperm g hw hs hmol s h
  obtain ⟨toks, hlex, hsent⟩ := Layout.sorted_sentence S
  have hsym : (m.nodes.filterMap (·.attrs.sym)).Perm (g.nodes.filterMap (·.attrs.sym)) :=
    Layout.nodes_filterMap_perm_iso hw S.wf iso (·.sym) (fun x y hxy => hxy.2.1)
  have hlab := (Layout.nodes_filterMap_perm_iso hw S.wf iso Layout.labelled (fun x y hxy => by
    unfold Layout.labelled; rw [hxy.2.2.1, hxy.2.2.2.1])).length_eq
  obtain ⟨hcnt, _, hmem⟩ := hillItems_counts (m.nodes.filterMap (·.attrs.sym))
  refine ⟨toks, astOf m, hlex, hsent, ?_, ?_, Layout.atomCount_astOf S, ?_, ?_⟩
  · intro p hp
    obtain ⟨i, hi, rfl⟩ := Layout.mem_formula hp
    rw [Layout.itemCount_countText i.1 (hcnt i hi).1, (hcnt i hi).2]
    exact SerializeCongr.countOcc_perm _ hsym
  · intro sym hsy
    rw [Layout.formula_fst, hmem]
    exact hsym.mem_iff.mpr hsy
  · show ((sortedEdges m).map _).length = _
    rw [List.length_map, sortedEdges_length]
    exact iso.numberOfEdges hw hs S.wf S.simple
  · show (attrsAstOf m).length = _
    rw [Layout.attrs_length, hlab, Layout.labelled_length]

end Tucan
