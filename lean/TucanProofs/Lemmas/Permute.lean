import TucanProofs.Lemmas.IsoBasics
import TucanProofs.Lemmas.NxEdges
set_option linter.unusedSimpArgs false
/-!
# `permute_molecule` (the helper that produces "another drawing" of a molecule)
-/
namespace Tucan
open NxRelabel

/-- `dict(zip(permuted_labels, labels))[permuted_labels[i]] = labels[i]` -/
theorem alookup_zip_of_getElem : ∀ (ks vs : List Nat) (i : Nat) (k v : Nat), ks.Nodup →
    ks[i]? = some k → vs[i]? = some v → alookup k (ks.zip vs) = some v
  | [], _, _, _, _, _, h, _ => by simp at h
  | _ :: _, [], _, _, _, _, _, h => by simp at h
  | k0 :: ks, v0 :: vs, 0, k, v, _, hk, hv => by
    simp at hk hv; subst hk; subst hv; simp [alookup]
  | k0 :: ks, v0 :: vs, i + 1, k, v, hn, hk, hv => by
    have hnd := List.nodup_cons.mp hn
    have hk' : ks[i]? = some k := by simpa using hk
    have hmem : k ∈ ks := List.mem_of_getElem? hk'
    have hne : ¬ (k0 == k) = true := by
      intro hb; have : k0 = k := by simpa using hb
      exact hnd.1 (this ▸ hmem)
    simp only [List.zip_cons_cons, alookup, hne, if_false]
    exact alookup_zip_of_getElem ks vs i k v hnd.2 hk' (by simpa using hv)

/-- the mapping `dict(zip(shuffled, labels))` built from a permutation of the labels is a bijection of
the labels: it is injective on them and maps them onto themselves -/
theorem zip_mapping_spec {labels shuffled : List Nat} (hn : labels.Nodup) (hp : shuffled.Perm labels) :
    (∀ a ∈ labels, ∀ b ∈ labels,
      Graph.mapGet (shuffled.zip labels) a = Graph.mapGet (shuffled.zip labels) b → a = b) ∧
    (labels.map (Graph.mapGet (shuffled.zip labels))).Perm labels := by
  have hns : shuffled.Nodup := hp.nodup_iff.mpr hn
  have hlen : shuffled.length = labels.length := hp.length_eq
  have hget : ∀ i (hi : i < shuffled.length),
      Graph.mapGet (shuffled.zip labels) shuffled[i] = labels[i]'(hlen ▸ hi) := by
    intro i hi
    have := alookup_zip_of_getElem shuffled labels i shuffled[i] (labels[i]'(hlen ▸ hi)) hns
      (List.getElem?_eq_getElem hi) (List.getElem?_eq_getElem (hlen ▸ hi))
    simp [Graph.mapGet, this]
  have hmap : shuffled.map (Graph.mapGet (shuffled.zip labels)) = labels := by
    apply List.ext_getElem (by simp [hlen])
    intro i h1 h2
    simp only [List.getElem_map]
    exact hget i (by simpa using h1)
  refine ⟨?_, ?_⟩
  · intro a ha b hb h
    obtain ⟨i, hi, hia⟩ := List.getElem_of_mem (hp.mem_iff.mpr ha)
    obtain ⟨j, hj, hjb⟩ := List.getElem_of_mem (hp.mem_iff.mpr hb)
    rw [← hia, ← hjb, hget i hi, hget j hj] at h
    have hij : i = j := (List.getElem_inj hn).mp h
    subst hij
    rw [← hia, ← hjb]
  · have := (hp.symm.map (Graph.mapGet (shuffled.zip labels)))
    rw [hmap] at this
    exact this

/-- **One shuffle.**  `_permute_molecule` with a shuffle that is a permutation of the labels returns the
argument renamed by a bijection of its label set, every atom attribute and bond record carried along,
with the nodes listed in label order. -/
theorem permuteOnce_spec (g : Graph) (hw : g.WF) (hs : g.Simple) (shuffled : List Nat)
    (hp : shuffled.Perm g.labels) :
    Relabel (Graph.mapGet (shuffled.zip g.labels)) g (permuteOnce g shuffled) ∧
    (permuteOnce g shuffled).labels = sortN g.labels ∧
    (permuteOnce g shuffled).WF ∧ (permuteOnce g shuffled).Simple := by
  obtain ⟨hinj, hperm⟩ := zip_mapping_spec hw.nodup hp
  obtain ⟨rel, rw', rs, rl⟩ := Graph.relabelCopy_spec g (shuffled.zip g.labels) hw hs hinj
  obtain ⟨rel2, sw, ss, sl⟩ := sortMoleculeByLabel_spec (g.relabelCopy (shuffled.zip g.labels)) rw' rs
  refine ⟨rel.comp_id rel2, ?_, sw, ss⟩
  unfold permuteOnce
  rw [sl, rl]
  exact sortN_perm_eq hperm

/-- whatever `permute_molecule` returns is the result of one of the recorded shuffles -/
theorem permuteMolecule_mem (g : Graph) (shuffles : List (List Nat)) (r : Graph)
    (h : permuteMolecule g shuffles = .ok r) : ∃ s ∈ shuffles, r = permuteOnce g s := by
  unfold permuteMolecule at h
  cases shuffles with
  | nil => simp at h
  | cons s rest =>
    simp only at h
    split at h
    · -- retry loop
      have key : ∀ (rest : List (List Nat)) (p : Graph), (∃ s' ∈ s :: (rest ++ []), True) →
          permuteMolecule.retry g p rest = .ok r → r = p ∨ ∃ s' ∈ rest, r = permuteOnce g s' := by
        intro rest
        induction rest with
        | nil =>
          intro p _ h
          unfold permuteMolecule.retry at h
          split at h
          · simp at h
          · injection h with h; exact Or.inl h.symm
        | cons t ts ih =>
          intro p _ h
          unfold permuteMolecule.retry at h
          split at h
          · rcases ih (permuteOnce g t) ⟨s, by simp, trivial⟩ h with h | ⟨s', hs', h⟩
            · exact Or.inr ⟨t, by simp, h⟩
            · exact Or.inr ⟨s', by simp [hs'], h⟩
          · injection h with h; exact Or.inl h.symm
      rcases key rest (permuteOnce g s) ⟨s, by simp, trivial⟩ h with h | ⟨s', hs', h⟩
      · exact ⟨s, by simp, h⟩
      · exact ⟨s', by simp [hs'], h⟩
    · injection h with h; exact ⟨s, by simp, h.symm⟩

/-- when a changed edge set is enforced, the returned graph's edge set differs from the argument's -/
theorem permuteMolecule_enforced (g : Graph) (shuffles : List (List Nat)) (r : Graph)
    (henf : (g.numberOfEdges > 1 && 2 * g.numberOfEdges != g.numberOfNodes * (g.numberOfNodes - 1)) = true)
    (h : permuteMolecule g shuffles = .ok r) : sameEdgeSet g r = false := by
  unfold permuteMolecule at h
  cases shuffles with
  | nil => simp at h
  | cons s rest =>
    simp only [henf, if_true] at h
    have key : ∀ (rest : List (List Nat)) (p : Graph), permuteMolecule.retry g p rest = .ok r → sameEdgeSet g r = false := by
      intro rest
      induction rest with
      | nil =>
        intro p h
        unfold permuteMolecule.retry at h
        split at h
        · simp at h
        · rename_i hne; injection h with h; subst h; simpa using hne
      | cons t ts ih =>
        intro p h
        unfold permuteMolecule.retry at h
        split at h
        · exact ih _ h
        · rename_i hne; injection h with h; subst h; simpa using hne
    exact key rest _ h

end Tucan
