import TucanProofs.Lemmas.IsoBasics
import TucanProofs.Lemmas.Bfs
import TucanProofs.Lemmas.NxEdges
/-!
# S4 — the serializer is a function of the labelled graph, not of its listing

If two graphs have the same labels, the same identity data and partition class on every label and the
same neighbour *sets* (listing order of nodes and neighbours, bond records, charges, coordinates free),
`serialize_molecule` returns the same string for both.
-/
namespace Tucan
open NxRelabel

namespace SerializeCongr

/-! ### `Iso R id` in convenient form -/

section IsoId
variable {R : Atom → Atom → Prop} {c c' : Graph}

theorem iso_labels (iso : Iso R id c c') : c.labels.Perm c'.labels := by
  have := iso.labels
  rw [List.map_id] at this
  exact this.symm

theorem iso_mem (iso : Iso R id c c') (a : Nat) : a ∈ c.labels ↔ a ∈ c'.labels :=
  (iso_labels iso).mem_iff

theorem nbrs_of_not_mem {g : Graph} {a : Nat} (h : a ∉ g.labels) : g.nbrs a = [] := by
  rw [Graph.nbrs_eq_nbrsD, nbrsD_of_not_mem h]; rfl

theorem attrs?_of_not_mem {g : Graph} {a : Nat} (h : a ∉ g.labels) : g.attrs? a = none := by
  unfold Graph.attrs?
  rw [find?_eq_none_iff.2 h]; rfl

/-- neighbour lists agree up to order for *every* `a` -/
theorem iso_nbrs (iso : Iso R id c c') (a : Nat) : (c.nbrs a).Perm (c'.nbrs a) := by
  by_cases ha : a ∈ c.labels
  · have := iso.nbrs a ha
    rw [List.map_id] at this
    exact this.symm
  · have ha' : a ∉ c'.labels := fun h => ha ((iso_mem iso a).2 h)
    rw [nbrs_of_not_mem ha, nbrs_of_not_mem ha']

theorem iso_attrs (iso : Iso R id c c') {a : Nat} (ha : a ∈ c.labels) :
    ∃ x y, c.attrs? a = some x ∧ c'.attrs? a = some y ∧ R x y := iso.attrs a ha

theorem iso_adj (iso : Iso R id c c') (a b : Nat) : c.Adj a b ↔ c'.Adj a b := by
  unfold Graph.Adj
  exact (iso_nbrs iso a).mem_iff

end IsoId

/-! ### `resetExplored` -/

def resetF : Nat → Atom → Atom := fun _ a => { a with explored := some false }

theorem resetExplored_eq (g : Graph) : g.resetExplored = g.mapAttrs resetF := rfl

theorem reset_labels (g : Graph) : g.resetExplored.labels = g.labels :=
  (Graph.mapAttrs_spec g resetF).1

theorem reset_nbrs (g : Graph) (a : Nat) : g.resetExplored.nbrs a = g.nbrs a := by
  rw [Graph.nbrs_eq_nbrsD, Graph.nbrs_eq_nbrsD, resetExplored_eq, (Graph.mapAttrs_spec g resetF).2.1]

theorem reset_attrs? (g : Graph) (a : Nat) : g.resetExplored.attrs? a = (g.attrs? a).map (resetF a) :=
  (Graph.mapAttrs_spec g resetF).2.2.1 a

theorem reset_wf {g : Graph} (hw : g.WF) : g.resetExplored.WF :=
  (Graph.mapAttrs_spec g resetF).2.2.2.1 hw

theorem reset_simple {g : Graph} (hs : g.Simple) : g.resetExplored.Simple :=
  (Graph.mapAttrs_spec g resetF).2.2.2.2 hs

theorem reset_iso {c c' : Graph} (iso : Iso SameIdentPart id c c') :
    Iso SameIdentPart id c.resetExplored c'.resetExplored := by
  refine ⟨by rw [reset_labels, reset_labels]; exact iso.labels,
    fun _ _ _ _ h => h, ?_, ?_⟩
  · intro a ha
    rw [reset_labels] at ha
    obtain ⟨x, y, hx, hy, hxy⟩ := iso.attrs a ha
    refine ⟨resetF a x, resetF (id a) y, by rw [reset_attrs?, hx]; rfl,
      by rw [reset_attrs?, hy]; rfl, ?_⟩
    exact hxy
  · intro a ha
    rw [reset_labels] at ha
    rw [reset_nbrs, reset_nbrs]
    exact iso.nbrs a ha

theorem view_part (g : Graph) (a : Nat) :
    g.view.part a = ((g.attrs? a).bind (·.part)).getD 0 := by
  show ((g.find? a).bind (·.attrs.part)).getD 0 = (((g.find? a).map (·.attrs)).bind (·.part)).getD 0
  cases g.find? a <;> rfl

/-! ### `mapGet` of an association list with distinct keys and distinct values -/

theorem alookup_of_mem {ν} {k : Nat} {v : ν} : ∀ {l : List (Nat × ν)}, (l.map (·.1)).Nodup →
    (k, v) ∈ l → alookup k l = some v
  | [], _, h => by simp at h
  | (k0, v0) :: r, hnd, h => by
    simp only [List.map_cons, List.nodup_cons] at hnd
    simp only [alookup]
    rcases List.mem_cons.1 h with h | h
    · simp only [Prod.mk.injEq] at h
      simp [h.1, h.2]
    · have hne : k0 ≠ k := fun he => hnd.1 (he ▸ List.mem_map_of_mem (f := (·.1)) h)
      have : (k0 == k) = false := by simpa using hne
      simp only [this]
      exact alookup_of_mem hnd.2 h

theorem fst_unique {k k' v : Nat} : ∀ {l : List (Nat × Nat)}, (l.map (·.2)).Nodup →
    (k, v) ∈ l → (k', v) ∈ l → k = k'
  | [], _, h, _ => by simp at h
  | (k0, v0) :: r, hnd, h, h' => by
    simp only [List.map_cons, List.nodup_cons] at hnd
    have hv : ∀ {w : Nat}, (w, v) ∈ r → v0 ≠ v := fun hm he =>
      hnd.1 (he ▸ List.mem_map_of_mem (f := (·.2)) hm)
    rcases List.mem_cons.1 h with h | h <;> rcases List.mem_cons.1 h' with h' | h'
    · simp only [Prod.mk.injEq] at h h'
      exact h.1.trans h'.1.symm
    · simp only [Prod.mk.injEq] at h
      exact absurd h.2.symm (hv h')
    · simp only [Prod.mk.injEq] at h'
      exact absurd h'.2.symm (hv h)
    · exact fst_unique hnd.2 h h'

theorem mapGet_inj {fl : List (Nat × Nat)} (hk : (fl.map (·.1)).Nodup) (hv : (fl.map (·.2)).Nodup)
    {a b : Nat} (ha : a ∈ fl.map (·.1)) (hb : b ∈ fl.map (·.1))
    (h : Graph.mapGet fl a = Graph.mapGet fl b) : a = b := by
  obtain ⟨⟨a', va⟩, hma, rfl⟩ := List.mem_map.1 ha
  obtain ⟨⟨b', vb⟩, hmb, rfl⟩ := List.mem_map.1 hb
  simp only at h ⊢
  unfold Graph.mapGet at h
  rw [alookup_of_mem hk hma, alookup_of_mem hk hmb] at h
  simp only [Option.getD_some] at h
  subst h
  exact fst_unique hv hma hmb

/-! ### `sort_molecule_by_attribute` -/

/-- the mapping `sort_molecule_by_attribute` passes to `relabel_nodes` -/
def sortMap (g : Graph) (attr : AttrName) : List (Nat × Nat) :=
  (((g.labels.map fun a => (seqOf g attr a, a)).mergeSort leSN).map (·.2)).zipIdx

theorem sortBy_unfold (g : Graph) (attr : AttrName) : sortMoleculeByAttribute g attr =
    (g.labels.mapM (fun a => (attributeSequence g a attr).bind fun s => Except.ok (s, a))).bind fun wl =>
      if wl.isEmpty then Except.error PyErr.valueError
      else Except.ok (g.relabelCopy ((wl.mergeSort leSN).map (·.2)).zipIdx) := rfl

theorem sortBy_form {g : Graph} {attr : AttrName} {r : Graph}
    (h : sortMoleculeByAttribute g attr = .ok r) : r = g.relabelCopy (sortMap g attr) := by
  rw [sortBy_unfold] at h
  cases hwl : g.labels.mapM (fun a => (attributeSequence g a attr).bind fun s => Except.ok (s, a)) with
  | error e => rw [hwl] at h; cases h
  | ok wl =>
    rw [hwl] at h
    have hwl' : wl = g.labels.map (fun a => (seqOf g attr a, a)) := by
      refine mapM_ok_eq_map _ _ g.labels wl ?_ hwl
      intro a _ y hy
      cases hs : attributeSequence g a attr with
      | error e => rw [hs] at hy; cases hy
      | ok s =>
        rw [hs] at hy
        simp only [Except.bind, Except.ok.injEq] at hy
        rw [← hy, attributeSequence_ok hs]
    simp only [Except.bind] at h
    split at h
    · cases h
    · simp only [Except.ok.injEq] at h
      rw [← h, hwl']
      rfl

theorem sortMap_keys (g : Graph) (attr : AttrName) : ((sortMap g attr).map (·.1)).Perm g.labels := by
  unfold sortMap
  rw [List.zipIdx_map_fst]
  refine ((List.mergeSort_perm _ _).map _).trans ?_
  rw [List.map_map]
  have : ((fun x : Seq × Nat => x.2) ∘ fun a => (seqOf g attr a, a)) = id := rfl
  rw [this, List.map_id]

theorem sortMap_vals (g : Graph) (attr : AttrName) : ((sortMap g attr).map (·.2)).Nodup := by
  unfold sortMap
  rw [List.zipIdx_map_snd]
  exact List.nodup_range'

theorem sortMap_inj {g : Graph} (hw : g.WF) (attr : AttrName) :
    ∀ a ∈ g.labels, ∀ b ∈ g.labels,
      Graph.mapGet (sortMap g attr) a = Graph.mapGet (sortMap g attr) b → a = b := by
  intro a ha b hb h
  have hk := sortMap_keys g attr
  exact mapGet_inj (hk.nodup_iff.2 hw.nodup) (sortMap_vals g attr) (hk.mem_iff.2 ha) (hk.mem_iff.2 hb) h

theorem sortMap_congr {m m' : Graph} (hw : m.WF) (iso : Iso SameIdentPart id m m') :
    sortMap m' .atomicNumber = sortMap m .atomicNumber := by
  unfold sortMap
  congr 2
  apply sortSN_perm_eq
  refine ((iso_labels iso).symm.map _).trans ?_
  have : m.labels.map (fun a => (seqOf m' .atomicNumber a, a))
      = m.labels.map (fun a => (seqOf m .atomicNumber a, a)) := by
    apply List.map_congr_left
    intro a ha
    have := seqOf_iso (attr := .atomicNumber) (R := SameIdentPart) (f := id) (g := m) (g' := m')
      (fun x y hxy => by simp [Atom.key, hxy.1.1]) iso hw ha
    simp only [id] at this
    rw [this]
  rw [this]

/-! ### the writers -/

theorem eq_of_nodup_map {α β} (f : α → β) : ∀ {l : List α}, (l.map f).Nodup →
    ∀ {a b : α}, a ∈ l → b ∈ l → f a = f b → a = b
  | [], _, _, _, h, _, _ => by simp at h
  | x :: r, hnd, a, b, ha, hb, h => by
    simp only [List.map_cons, List.nodup_cons] at hnd
    rcases List.mem_cons.1 ha with ha1 | ha1 <;> rcases List.mem_cons.1 hb with hb1 | hb1
    · rw [ha1, hb1]
    · have : f x ∈ r.map f := by rw [← ha1, h]; exact List.mem_map_of_mem hb1
      exact absurd this hnd.1
    · have : f x ∈ r.map f := by rw [← hb1, ← h]; exact List.mem_map_of_mem ha1
      exact absurd this hnd.1
    · exact eq_of_nodup_map f hnd.2 ha1 hb1 h

theorem filterMap_congr {α β} {f g : α → Option β} : ∀ {l : List α}, (∀ a ∈ l, f a = g a) →
    l.filterMap f = l.filterMap g
  | [], _ => rfl
  | a :: l, h => by
    simp only [List.filterMap_cons, h a List.mem_cons_self]
    rw [filterMap_congr (fun b hb => h b (List.mem_cons_of_mem _ hb))]

/-- data read from a node through `g.nodes` is data read through the labels -/
theorem nodes_filterMap_eq_labels {β} {g : Graph} (hw : g.WF) (F : Nat → Atom → Option β) :
    g.nodes.filterMap (fun n => F n.id n.attrs)
      = g.labels.filterMap (fun a => (g.attrs? a).bind (F a)) := by
  unfold Graph.labels
  rw [List.filterMap_map]
  apply filterMap_congr
  intro n hn
  show F n.id n.attrs = (g.attrs? n.id).bind (F n.id)
  rw [attrs?_of_mem hw.nodup hn]
  rfl

/-- data read per label agrees up to order as soon as it agrees on related atoms -/
theorem labels_filterMap_perm {β} {R : Atom → Atom → Prop} {m m' : Graph} (iso : Iso R id m m')
    (F : Nat → Atom → Option β) (hF : ∀ a x y, R x y → F a x = F a y) :
    (m.labels.filterMap (fun a => (m.attrs? a).bind (F a))).Perm
      (m'.labels.filterMap (fun a => (m'.attrs? a).bind (F a))) := by
  have : m.labels.filterMap (fun a => (m.attrs? a).bind (F a))
      = m.labels.filterMap (fun a => (m'.attrs? a).bind (F a)) := by
    apply filterMap_congr
    intro a ha
    obtain ⟨x, y, hx, hy, hxy⟩ := iso_attrs iso ha
    rw [hx, hy]
    exact hF a x y hxy
  rw [this]
  exact (iso_labels iso).filterMap _

theorem nodes_filterMap_perm {β} {R : Atom → Atom → Prop} {m m' : Graph} (hw : m.WF) (hw' : m'.WF)
    (iso : Iso R id m m') (F : Nat → Atom → Option β) (hF : ∀ a x y, R x y → F a x = F a y) :
    (m.nodes.filterMap (fun n => F n.id n.attrs)).Perm
      (m'.nodes.filterMap (fun n => F n.id n.attrs)) := by
  rw [nodes_filterMap_eq_labels hw, nodes_filterMap_eq_labels hw']
  exact labels_filterMap_perm iso F hF

/-! #### sum formula -/

def sumOf (syms : List Str) : Str :=
  let c := countOcc ['C'] syms
  let h := countOcc ['H'] syms
  let withC := c > 0
  let head := if withC then symCount ['C'] c ++ (if h > 0 then symCount ['H'] h else []) else []
  let rest0 := syms.filter fun s => s != ['C'] && !(withC && s == ['H'])
  let keys := dedupAdj (rest0.mergeSort leStr)
  head ++ (keys.map fun k => symCount k (countOcc k syms)).flatten

theorem writeSumFormula_eq (g : Graph) :
    writeSumFormula g = sumOf (g.nodes.filterMap (fun n => n.attrs.sym)) := rfl

theorem countOcc_perm (s : Str) {l l' : List Str} (h : l.Perm l') : countOcc s l = countOcc s l' :=
  (h.filter _).length_eq

theorem leStr_trans (a b c : Str) : leStr a b → leStr b c → leStr a c := by
  simp only [leStr, decide_eq_true_eq]; exact List.le_trans
theorem leStr_total (a b : Str) : (leStr a b || leStr b a) = true := by
  simp only [leStr, Bool.or_eq_true, decide_eq_true_eq]; exact List.le_total a b
theorem leStr_antisymm (a b : Str) : leStr a b → leStr b a → a = b := by
  simp only [leStr, decide_eq_true_eq]; exact List.le_antisymm

theorem sumOf_perm {l l' : List Str} (h : l.Perm l') : sumOf l = sumOf l' := by
  have hc : ∀ k, countOcc k l = countOcc k l' := fun k => countOcc_perm k h
  unfold sumOf
  simp only [hc]
  rw [sort_perm_eq leStr leStr_trans leStr_total leStr_antisymm (h.filter _)]

/-! #### node attributes -/

def proj (n : Node) : Nat × Option Int × Option Int := (n.id, n.attrs.mass, n.attrs.rad)

def nodeStr (t : Nat × Option Int × Option Int) : Str :=
  let av := (match t.2.1 with | some m => ["mass=".toList ++ intRepr m] | none => []) ++
            (match t.2.2 with | some r => ["rad=".toList ++ intRepr r] | none => [])
  if av.isEmpty then [] else
    '(' :: natRepr (t.1 + 1) ++ ':' :: joinWith [','] av ++ [')']

theorem writeNodeAttributes_eq (g : Graph) : writeNodeAttributes g =
    (((g.nodes.mergeSort fun a b => decide (a.id ≤ b.id)).map proj).map nodeStr).flatten := by
  unfold writeNodeAttributes
  rw [List.map_map]
  rfl

theorem nodes_proj_perm {m m' : Graph} (hw : m.WF) (hw' : m'.WF) (iso : Iso SameIdentPart id m m') :
    (m.nodes.map proj).Perm (m'.nodes.map proj) := by
  have h := nodes_filterMap_perm hw hw' iso (fun a x => some (a, x.mass, x.rad))
    (fun a x y hxy => by rw [hxy.1.2.2.1, hxy.1.2.2.2.1])
  simp only [List.filterMap_eq_map'] at h
  exact h

theorem sortedProj_eq {m m' : Graph} (hw : m.WF) (hw' : m'.WF) (iso : Iso SameIdentPart id m m') :
    (m.nodes.mergeSort fun a b => decide (a.id ≤ b.id)).map proj
      = (m'.nodes.mergeSort fun a b => decide (a.id ≤ b.id)).map proj := by
  have hp : ((m.nodes.mergeSort fun a b => decide (a.id ≤ b.id)).map proj).Perm
      ((m'.nodes.mergeSort fun a b => decide (a.id ≤ b.id)).map proj) :=
    ((List.mergeSort_perm _ _).map proj).trans
      ((nodes_proj_perm hw hw' iso).trans ((List.mergeSort_perm _ _).map proj).symm)
  have hnd : (((m.nodes.mergeSort fun a b => decide (a.id ≤ b.id)).map proj).map (·.1)).Nodup := by
    rw [List.map_map]
    exact (((List.mergeSort_perm _ _).map _).nodup_iff).2 hw.nodup
  have hsorted : ∀ g : Graph, ((g.nodes.mergeSort fun a b => decide (a.id ≤ b.id)).map proj).Pairwise
      (fun x y => x.1 ≤ y.1) := by
    intro g
    rw [List.pairwise_map]
    refine (List.pairwise_mergeSort NxE.leNode_trans NxE.leNode_total g.nodes).imp ?_
    intro a b hab
    simpa [proj] using hab
  refine List.Perm.eq_of_pairwise (le := fun x y => x.1 ≤ y.1) ?_ (hsorted m) (hsorted m') hp
  intro a b ha hb h1 h2
  exact eq_of_nodup_map (·.1) hnd ha (hp.mem_iff.2 hb) (Nat.le_antisymm h1 h2)

/-! ### the pipeline -/

def body (m : Graph) : Str :=
  writeSumFormula m ++ '/' :: writeEdgeList m ++
    (if (writeNodeAttributes m).isEmpty then [] else '/' :: writeNodeAttributes m)

theorem assign_unfold (g : Graph) : assignFinalLabels g =
    if g.nodes.any (·.attrs.part.isNone) then Except.error PyErr.keyError
    else (finalLabels g.resetExplored.view).bind fun fl =>
      Except.ok (g.resetExplored.relabelCopy fl, g.resetExplored, fl) := rfl

theorem serialize_unfold (g : Graph) : serializeMolecule g =
    (assignFinalLabels g).bind fun t =>
      match t with
      | (fl, g', _) =>
        (sortMoleculeByAttribute fl .atomicNumber).bind fun m => Except.ok (body m, g') := rfl

theorem serialize_form {g : Graph} {s : Str} {p : Graph} (h : serializeMolecule g = .ok (s, p)) :
    ∃ fl m, finalLabels g.resetExplored.view = .ok fl ∧
      sortMoleculeByAttribute (g.resetExplored.relabelCopy fl) .atomicNumber = .ok m ∧ s = body m := by
  rw [serialize_unfold, assign_unfold] at h
  split at h
  · cases h
  · cases hfl : finalLabels g.resetExplored.view with
    | error e => rw [hfl] at h; cases h
    | ok fl =>
      rw [hfl] at h
      simp only [Except.bind] at h
      cases hm : sortMoleculeByAttribute (g.resetExplored.relabelCopy fl) .atomicNumber with
      | error e => rw [hm] at h; cases h
      | ok m =>
        rw [hm] at h
        simp only [Except.ok.injEq, Prod.mk.injEq] at h
        exact ⟨fl, m, rfl, hm, h.1.symm⟩

end SerializeCongr
open SerializeCongr

/-- the view of a graph after the scratch flag was reset depends on the listing only up to `ViewEquiv` -/
theorem view_equiv_of_iso (c c' : Graph) (hw : c.WF) (hw' : c'.WF) (iso : Iso SameIdentPart id c c') :
    ViewEquiv c.resetExplored.view c'.resetExplored.view := by
  have _ := hw
  have _ := hw'
  refine ⟨?_, ?_, ?_⟩
  · show c.resetExplored.labels.Perm c'.resetExplored.labels
    rw [reset_labels, reset_labels]
    exact iso_labels iso
  · intro a
    rw [view_part, view_part, reset_attrs?, reset_attrs?]
    by_cases ha : a ∈ c.labels
    · obtain ⟨x, y, hx, hy, hxy⟩ := iso_attrs iso ha
      rw [hx, hy]
      show (x.part).getD 0 = (y.part).getD 0
      rw [hxy.2]
    · have ha' : a ∉ c'.labels := fun h => ha ((iso_mem iso a).2 h)
      rw [attrs?_of_not_mem ha, attrs?_of_not_mem ha']
  · intro a
    show (c.resetExplored.nbrs a).Perm (c'.resetExplored.nbrs a)
    rw [reset_nbrs, reset_nbrs]
    exact iso_nbrs iso a

/-- the view of a well-formed graph is a well-formed view -/
theorem view_wf (c : Graph) (hw : c.WF) : c.resetExplored.view.WF := by
  have hw2 := reset_wf hw
  refine ⟨hw2.nodup, ?_⟩
  intro a _ b hb
  exact Graph.nbrs_closed hw2 hb

/-- the three writers see only labels, identity data and adjacency -/
theorem writers_congr (m m' : Graph) (hw : m.WF) (hs : m.Simple) (hw' : m'.WF) (hs' : m'.Simple)
    (iso : Iso SameIdentPart id m m') :
    writeSumFormula m = writeSumFormula m' ∧ writeEdgeList m = writeEdgeList m' ∧
    writeNodeAttributes m = writeNodeAttributes m' := by
  refine ⟨?_, ?_, ?_⟩
  · rw [writeSumFormula_eq, writeSumFormula_eq]
    apply sumOf_perm
    exact nodes_filterMap_perm hw hw' iso (fun _ x => x.sym) (fun _ x y hxy => hxy.1.2.1)
  · unfold writeEdgeList
    rw [sortedEdges_congr m m' hw hs hw' hs' (iso_adj iso)]
  · rw [writeNodeAttributes_eq, writeNodeAttributes_eq, sortedProj_eq hw hw' iso]

/-- `sort_molecule_by_attribute(·, ATOMIC_NUMBER)` maps same-up-to-listing graphs to same-up-to-listing
graphs (and preserves well-formedness) -/
theorem sortByZ_congr (m m' r r' : Graph) (hw : m.WF) (hs : m.Simple) (hw' : m'.WF) (hs' : m'.Simple)
    (iso : Iso SameIdentPart id m m')
    (h : sortMoleculeByAttribute m .atomicNumber = .ok r) (h' : sortMoleculeByAttribute m' .atomicNumber = .ok r') :
    Iso SameIdentPart id r r' ∧ r.WF ∧ r.Simple ∧ r'.WF ∧ r'.Simple := by
  have e := sortBy_form h
  have e' := sortBy_form h'
  rw [sortMap_congr hw iso] at e'
  have hinj := sortMap_inj hw .atomicNumber
  have hinj' : ∀ a ∈ m'.labels, ∀ b ∈ m'.labels,
      Graph.mapGet (sortMap m .atomicNumber) a = Graph.mapGet (sortMap m .atomicNumber) b → a = b :=
    fun a ha b hb => hinj a ((iso_mem iso a).2 ha) b ((iso_mem iso b).2 hb)
  obtain ⟨r1, w1, s1, _⟩ := Graph.relabelCopy_spec m _ hw hs hinj
  obtain ⟨r2, w2, s2, _⟩ := Graph.relabelCopy_spec m' _ hw' hs' hinj'
  subst e; subst e'
  exact ⟨Iso.relabel_same iso r1 r2, w1, s1, w2, s2⟩

/-- **S4.** -/
theorem serialize_congr (c c' : Graph) (hw : c.WF) (hs : c.Simple) (hw' : c'.WF) (hs' : c'.Simple)
    (iso : Iso SameIdentPart id c c') (s s' : Str) (p p' : Graph)
    (h : serializeMolecule c = .ok (s, p)) (h' : serializeMolecule c' = .ok (s', p')) : s = s' := by
  obtain ⟨fl, m, hfl, hm, rfl⟩ := serialize_form h
  obtain ⟨fl', m', hfl', hm', rfl⟩ := serialize_form h'
  -- the BFS relabelling is the same for both
  rw [← finalLabels_congr _ _ (view_equiv_of_iso c c' hw hw' iso), hfl] at hfl'
  injection hfl' with hfl'
  subst hfl'
  -- and it is injective on the labels
  obtain ⟨fl0, hfl0, hk, hv, _⟩ := finalLabels_ok _ (view_wf c hw)
  rw [hfl] at hfl0
  injection hfl0 with hfl0
  subst hfl0
  have hk' : (fl.map (·.1)).Perm c.resetExplored.labels := hk
  have hv' : (fl.map (·.2)).Perm c.resetExplored.labels := hv
  have rw1 := reset_wf hw
  have rw2 := reset_wf hw'
  have riso := reset_iso iso
  have hinj : ∀ a ∈ c.resetExplored.labels, ∀ b ∈ c.resetExplored.labels,
      Graph.mapGet fl a = Graph.mapGet fl b → a = b := fun a ha b hb hab =>
    mapGet_inj (hk'.nodup_iff.2 rw1.nodup) (hv'.nodup_iff.2 rw1.nodup)
      (hk'.mem_iff.2 ha) (hk'.mem_iff.2 hb) hab
  have hinj' : ∀ a ∈ c'.resetExplored.labels, ∀ b ∈ c'.resetExplored.labels,
      Graph.mapGet fl a = Graph.mapGet fl b → a = b := fun a ha b hb =>
    hinj a ((iso_mem riso a).2 ha) b ((iso_mem riso b).2 hb)
  obtain ⟨r1, w1, s1, _⟩ := Graph.relabelCopy_spec _ fl rw1 (reset_simple hs) hinj
  obtain ⟨r2, w2, s2, _⟩ := Graph.relabelCopy_spec _ fl rw2 (reset_simple hs') hinj'
  have iso1 := Iso.relabel_same riso r1 r2
  obtain ⟨iso2, w3, s3, w4, s4⟩ := sortByZ_congr _ _ m m' w1 s1 w2 s2 iso1 hm hm'
  obtain ⟨e1, e2, e3⟩ := writers_congr m m' w3 s3 w4 s4 iso2
  unfold body
  rw [e1, e2, e3]

end Tucan
