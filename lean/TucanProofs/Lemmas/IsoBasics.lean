import TucanProofs.Lemmas.NxRelabel
import TucanProofs.Lemmas.Partition
/-!
# Basic facts about `Relabel` and `Iso`
-/
namespace Tucan
open NxRelabel

theorem Iso.mono {R R' : Atom → Atom → Prop} {f : Nat → Nat} {g h : Graph} (hRR : ∀ x y, R x y → R' x y)
    (iso : Iso R f g h) : Iso R' f g h :=
  ⟨iso.labels, iso.inj, fun a ha => by
    obtain ⟨x, y, hx, hy, hxy⟩ := iso.attrs a ha
    exact ⟨x, y, hx, hy, hRR x y hxy⟩, iso.nbrs⟩

theorem Graph.attrs?_some_of_mem {g : Graph} {a : Nat} (h : a ∈ g.labels) : ∃ x, g.attrs? a = some x := by
  exact attrs?_isSome_of_mem h

/-- neighbour ids under a relabelling -/
theorem Relabel.nbrs' {f : Nat → Nat} {g h : Graph} (r : Relabel f g h) {a : Nat} (ha : a ∈ g.labels) :
    (h.nbrs (f a)).Perm ((g.nbrs a).map f) := by
  rw [Graph.nbrs_eq_nbrsD, Graph.nbrs_eq_nbrsD]
  have := (r.nbrs a ha).map (·.1)
  simpa [List.map_map, Function.comp_def] using this

/-- a relabelling that carries all attributes is in particular an `Iso` for equality -/
theorem Relabel.toIso {f : Nat → Nat} {g h : Graph} (r : Relabel f g h) : Iso Eq f g h :=
  ⟨r.labels, r.inj, fun a ha => by
    obtain ⟨x, hx⟩ := Graph.attrs?_some_of_mem ha
    exact ⟨x, x, hx, by rw [r.attrs a ha, hx], rfl⟩, fun a ha => r.nbrs' ha⟩

theorem Iso.mem_labels {R : Atom → Atom → Prop} {f : Nat → Nat} {g h : Graph} (iso : Iso R f g h) {a : Nat}
    (ha : a ∈ g.labels) : f a ∈ h.labels :=
  iso.labels.mem_iff.mpr (List.mem_map.mpr ⟨a, ha, rfl⟩)

theorem Iso.exists_preimage {R : Atom → Atom → Prop} {f : Nat → Nat} {g h : Graph} (iso : Iso R f g h) {b : Nat}
    (hb : b ∈ h.labels) : ∃ a ∈ g.labels, f a = b := by
  have := iso.labels.mem_iff.mp hb
  obtain ⟨a, ha, rfl⟩ := List.mem_map.mp this
  exact ⟨a, ha, rfl⟩

theorem Iso.numberOfNodes {R : Atom → Atom → Prop} {f : Nat → Nat} {g h : Graph} (iso : Iso R f g h) :
    h.numberOfNodes = g.numberOfNodes := by
  have := iso.labels.length_eq
  simpa [Graph.numberOfNodes, Graph.labels] using this

/-- adjacency is transported by an `Iso` -/
theorem Iso.adj_iff {R : Atom → Atom → Prop} {f : Nat → Nat} {g h : Graph} (iso : Iso R f g h) (hw : g.WF)
    {a b : Nat} (ha : a ∈ g.labels) (hb : b ∈ g.labels) : h.Adj (f a) (f b) ↔ g.Adj a b := by
  unfold Graph.Adj
  rw [(iso.nbrs a ha).mem_iff, List.mem_map]
  constructor
  · rintro ⟨c, hc, hcb⟩
    have hcl : c ∈ g.labels := Graph.nbrs_closed hw hc
    rw [iso.inj c hcl b hb hcb] at hc; exact hc
  · intro h'; exact ⟨b, h', rfl⟩

/-- Two graphs that are the same up to listing stay so when both are renamed by the same injective map. -/
theorem Iso.relabel_same {R : Atom → Atom → Prop} {φ : Nat → Nat} {c c' m m' : Graph}
    (iso : Iso R id c c') (r : Relabel φ c m) (r' : Relabel φ c' m') : Iso R id m m' := by
  have hlab : c'.labels.Perm c.labels := by simpa using iso.labels
  refine ⟨?_, fun _ _ _ _ h => h, ?_, ?_⟩
  · simp only [List.map_id]
    exact r'.labels.trans ((hlab.map φ).trans r.labels.symm)
  · intro b hb
    obtain ⟨a, ha, rfl⟩ := List.mem_map.mp (r.labels.mem_iff.mp hb)
    obtain ⟨x, y, hx, hy, hxy⟩ := iso.attrs a ha
    have ha' : a ∈ c'.labels := hlab.mem_iff.mpr ha
    exact ⟨x, y, by rw [r.attrs a ha, hx], by simp only [id]; rw [r'.attrs a ha']; simpa using hy, hxy⟩
  · intro b hb
    obtain ⟨a, ha, rfl⟩ := List.mem_map.mp (r.labels.mem_iff.mp hb)
    have ha' : a ∈ c'.labels := hlab.mem_iff.mpr ha
    simp only [id, List.map_id]
    have h1 := r'.nbrs' ha'
    have h2 := r.nbrs' ha
    have h3 : (c'.nbrs a).Perm (c.nbrs a) := by simpa using iso.nbrs a ha
    exact h1.trans ((h3.map φ).trans h2.symm)

/-- a renaming followed by a re-listing is the same renaming -/
theorem Relabel.comp_id {f : Nat → Nat} {g h k : Graph} (r1 : Relabel f g h) (r2 : Relabel id h k) : Relabel f g k := by
  have hmem : ∀ a ∈ g.labels, f a ∈ h.labels := fun a ha =>
    r1.labels.mem_iff.mpr (List.mem_map.mpr ⟨a, ha, rfl⟩)
  refine ⟨?_, r1.inj, ?_, ?_⟩
  · have := r2.labels; simp only [List.map_id] at this; exact this.trans r1.labels
  · intro a ha
    have := r2.attrs (f a) (hmem a ha)
    simp only [id] at this
    rw [this, r1.attrs a ha]
  · intro a ha
    have := r2.nbrs (f a) (hmem a ha)
    simp only [id] at this
    have h2 : (List.map (fun e : Nat × Bond => (e.1, e.2)) (h.nbrsD (f a))) = h.nbrsD (f a) := by
      simp
    rw [h2] at this
    exact this.trans (r1.nbrs a ha)

end Tucan
