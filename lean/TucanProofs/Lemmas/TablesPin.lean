import TucanProofs.Lemmas.Tables
/-!
# Facts that pin the regenerated tables to an independent reference

Kept apart from `Tables.lean` (facts the proofs of the pipeline need) so that a change of the *order* of the
element table or of the lexer's literal list stops exactly the statements that speak about it (C10), not every
proof that merely uses the table.
-/
namespace Tucan
open Tables

/-- the periodic table, written down independently of the library (IUPAC symbols, Z = 1 … 118) -/
def periodicTable : List (String × Nat) := [
  ("H", 1), ("He", 2), ("Li", 3), ("Be", 4), ("B", 5), ("C", 6), ("N", 7), ("O", 8),
  ("F", 9), ("Ne", 10), ("Na", 11), ("Mg", 12), ("Al", 13), ("Si", 14), ("P", 15), ("S", 16),
  ("Cl", 17), ("Ar", 18), ("K", 19), ("Ca", 20), ("Sc", 21), ("Ti", 22), ("V", 23), ("Cr", 24),
  ("Mn", 25), ("Fe", 26), ("Co", 27), ("Ni", 28), ("Cu", 29), ("Zn", 30), ("Ga", 31), ("Ge", 32),
  ("As", 33), ("Se", 34), ("Br", 35), ("Kr", 36), ("Rb", 37), ("Sr", 38), ("Y", 39), ("Zr", 40),
  ("Nb", 41), ("Mo", 42), ("Tc", 43), ("Ru", 44), ("Rh", 45), ("Pd", 46), ("Ag", 47), ("Cd", 48),
  ("In", 49), ("Sn", 50), ("Sb", 51), ("Te", 52), ("I", 53), ("Xe", 54), ("Cs", 55), ("Ba", 56),
  ("La", 57), ("Ce", 58), ("Pr", 59), ("Nd", 60), ("Pm", 61), ("Sm", 62), ("Eu", 63), ("Gd", 64),
  ("Tb", 65), ("Dy", 66), ("Ho", 67), ("Er", 68), ("Tm", 69), ("Yb", 70), ("Lu", 71), ("Hf", 72),
  ("Ta", 73), ("W", 74), ("Re", 75), ("Os", 76), ("Ir", 77), ("Pt", 78), ("Au", 79), ("Hg", 80),
  ("Tl", 81), ("Pb", 82), ("Bi", 83), ("Po", 84), ("At", 85), ("Rn", 86), ("Fr", 87), ("Ra", 88),
  ("Ac", 89), ("Th", 90), ("Pa", 91), ("U", 92), ("Np", 93), ("Pu", 94), ("Am", 95), ("Cm", 96),
  ("Bk", 97), ("Cf", 98), ("Es", 99), ("Fm", 100), ("Md", 101), ("No", 102), ("Lr", 103), ("Rf", 104),
  ("Db", 105), ("Sg", 106), ("Bh", 107), ("Hs", 108), ("Mt", 109), ("Ds", 110), ("Rg", 111), ("Cn", 112),
  ("Nh", 113), ("Fl", 114), ("Mc", 115), ("Lv", 116), ("Ts", 117), ("Og", 118)]

/-- **The library's element table is the periodic table**: every symbol has its atomic number. -/
theorem elementTable_is_periodicTable : elementTable = periodicTable := by
  decide +kernel

/-- the lexer: the literal tokens are exactly the parser's literals; they are the 118 symbols plus the
listed punctuation, keywords and digits; the only other rule is `GREATER_THAN_NINE : [1-9][0-9]+` -/
theorem lexer_tables :
    lexLiterals = parserLiteralNames ∧
    lexLiterals = "/" :: elementSymbols ++ ["(", "-", ")", ":", ",", "=", "mass", "rad", "1", "2", "3", "4", "5", "6", "7", "8", "9"] ∧
    lexOtherRules = [("GREATER_THAN_NINE", 137,
      "0:eps>1;1:set(chr(49)|chr(50)|chr(51)|chr(52)|chr(53)|chr(54)|chr(55)|chr(56)|chr(57))>2;2:eps>3;3:set(chr(48)|chr(49)|chr(50)|chr(51)|chr(52)|chr(53)|chr(54)|chr(55)|chr(56)|chr(57))>4;4:eps>5;5:eps>2,eps>6;6:eps>7;7:STOP")] := by
  decide +kernel

end Tucan
