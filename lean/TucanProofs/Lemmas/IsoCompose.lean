import TucanProofs.Lemmas.IsoBasics
/-!
# Composition and inversion of `Iso`
-/
namespace Tucan
open NxRelabel

/-- composition -/
theorem Iso.trans {R R' R'' : Atom → Atom → Prop} {f f' : Nat → Nat} {g h k : Graph}
    (hR : ∀ x y z, R x y → R' y z → R'' x z) (i1 : Iso R f g h) (i2 : Iso R' f' h k) :
    Iso R'' (f' ∘ f) g k := by
  refine ⟨?_, ?_, ?_, ?_⟩
  · have := i2.labels.trans (i1.labels.map f')
    simpa [List.map_map] using this
  · intro a ha b hb hab
    exact i1.inj a ha b hb (i2.inj (f a) (i1.mem_labels ha) (f b) (i1.mem_labels hb) hab)
  · intro a ha
    obtain ⟨x, y, hx, hy, hxy⟩ := i1.attrs a ha
    obtain ⟨y', z, hy', hz, hyz⟩ := i2.attrs (f a) (i1.mem_labels ha)
    rw [hy] at hy'; injection hy' with hy'; subst hy'
    exact ⟨x, z, hx, hz, hR x y z hxy hyz⟩
  · intro a ha
    have h1 := i2.nbrs (f a) (i1.mem_labels ha)
    have h2 := (i1.nbrs a ha).map f'
    simpa [List.map_map] using h1.trans h2

/-- inversion (the inverse renaming is obtained by choice) -/
theorem Iso.symm {R R' : Atom → Atom → Prop} {f : Nat → Nat} {g h : Graph} (hR : ∀ x y, R x y → R' y x)
    (hw : g.WF) (iso : Iso R f g h) : ∃ f', Iso R' f' h g ∧ (∀ a ∈ g.labels, f' (f a) = a) := by
  classical
  let f' : Nat → Nat := fun b => if hb : ∃ a, a ∈ g.labels ∧ f a = b then Classical.choose hb else 0
  have hf' : ∀ a ∈ g.labels, f' (f a) = a := by
    intro a ha
    have hex : ∃ a', a' ∈ g.labels ∧ f a' = f a := ⟨a, ha, rfl⟩
    have hsp := Classical.choose_spec hex
    simp only [f', hex, dif_pos]
    exact iso.inj _ hsp.1 a ha hsp.2
  have hmap : (g.labels.map f).map f' = g.labels := by
    rw [List.map_map]
    conv => rhs; rw [← List.map_id g.labels]
    exact List.map_congr_left (fun a ha => by simp [hf' a ha])
  refine ⟨f', ⟨?_, ?_, ?_, ?_⟩, hf'⟩
  · have := (iso.labels.map f')
    rw [hmap] at this
    exact this.symm
  · intro b hb c hc hbc
    obtain ⟨a, ha, rfl⟩ := iso.exists_preimage hb
    obtain ⟨a', ha', rfl⟩ := iso.exists_preimage hc
    rw [hf' a ha, hf' a' ha'] at hbc
    rw [hbc]
  · intro b hb
    obtain ⟨a, ha, rfl⟩ := iso.exists_preimage hb
    obtain ⟨x, y, hx, hy, hxy⟩ := iso.attrs a ha
    exact ⟨y, x, hy, by rw [hf' a ha]; exact hx, hR x y hxy⟩
  · intro b hb
    obtain ⟨a, ha, rfl⟩ := iso.exists_preimage hb
    rw [hf' a ha]
    have h1 := (iso.nbrs a ha).map f'
    rw [List.map_map] at h1
    have h2 : (g.nbrs a).map (f' ∘ f) = g.nbrs a := by
      conv => rhs; rw [← List.map_id (g.nbrs a)]
      exact List.map_congr_left (fun c hc => by simp [hf' c (Graph.nbrs_closed hw hc)])
    rw [h2] at h1
    exact h1.symm

theorem sameIdent_symm' (x y : Atom) (h : SameIdent x y) : SameIdent y x :=
  ⟨h.1.symm, h.2.1.symm, h.2.2.1.symm, h.2.2.2.1.symm, h.2.2.2.2.symm⟩

theorem sameIdent_trans' (x y z : Atom) (h : SameIdent x y) (h' : SameIdent y z) : SameIdent x z :=
  ⟨h.1.trans h'.1, h.2.1.trans h'.2.1, h.2.2.1.trans h'.2.2.1, h.2.2.2.1.trans h'.2.2.2.1, h.2.2.2.2.trans h'.2.2.2.2⟩

end Tucan
