import TucanProofs.Lemmas.ParserDenotation
import TucanProofs.Lemmas.RoundTrip
/-!
# What the parser returns is a molecule graph

Every graph `graph_from_tucan` returns comes from a listener state of the shape `GoodState` (so
`toGraph_spec` describes it), is well formed and simple, has the labels `0 … n-1`, and its atoms are
chemistry-level atoms in the round trip's domain (`MolAtoms`): element symbol and atomic number from the
table, invariant code `(Z, mass or 0, rad or 0)`, mass / radical either absent or strictly positive.
-/
namespace Tucan.POut
open Tucan RejectKind

/-! ## integers read from `greater_than_zero` tokens -/

theorem bind_ok {α β} {x : PyM α} {f : α → PyM β} {b : β} (h : x >>= f = .ok b) :
    ∃ a, x = .ok a ∧ f a = .ok b := by
  cases x with
  | error e => cases h
  | ok a => exact ⟨a, rfl, h⟩

theorem digitsGo_digits : ∀ (s : Str) (st : Nat) (ds : List Char), digitsGo st s = some ds →
    ∀ c ∈ ds, isDigit c = true := by
  intro s
  induction s with
  | nil =>
    intro st ds h
    simp only [digitsGo] at h
    split at h
    · cases h; intro c hc; cases hc
    · cases h
  | cons c r ih =>
    intro st ds h
    simp only [digitsGo] at h
    split at h
    · next hd =>
      cases hr : digitsGo 1 r with
      | none => simp [hr] at h
      | some ds' =>
        simp only [hr, Option.map_some, Option.some.injEq] at h
        subst h
        intro x hx
        rcases List.mem_cons.1 hx with rfl | hx
        · exact hd
        · exact ih _ _ hr x hx
    · split at h
      · exact ih _ _ h
      · cases h

theorem digitVal_le {c : Char} (h : isDigit c = true) : digitVal c ≤ 9 := by
  simp only [isDigit, Bool.and_eq_true, decide_eq_true_eq] at h
  have h9 : c.toNat ≤ 57 := h.2
  show c.toNat - 48 ≤ 9
  omega

theorem foldl_digits_lt : ∀ (ds : List Char), (∀ c ∈ ds, isDigit c = true) → ∀ acc : Nat,
    ds.foldl (fun acc c => acc * 10 + digitVal c) acc < (acc + 1) * 10 ^ ds.length := by
  intro ds
  induction ds with
  | nil => intro _ acc; simp
  | cons d ds ih =>
    intro hd acc
    simp only [List.foldl_cons, List.length_cons]
    have h1 := ih (fun c hc => hd c (List.mem_cons_of_mem _ hc)) (acc * 10 + digitVal d)
    have h2 := digitVal_le (hd d List.mem_cons_self)
    have h3 : (acc * 10 + digitVal d + 1) * 10 ^ ds.length ≤ ((acc + 1) * 10) * 10 ^ ds.length :=
      Nat.mul_le_mul_right _ (by omega)
    rw [Nat.pow_succ, Nat.mul_comm (10 ^ ds.length) 10, ← Nat.mul_assoc]
    exact Nat.lt_of_lt_of_le h1 h3

theorem natRepr_len_of_digits (ds : List Char) (hd : ∀ c ∈ ds, isDigit c = true)
    (hl : ds.length ≤ intMaxStrDigits) : (natRepr (natOfDigits ds)).length ≤ intMaxStrDigits := by
  rw [LineM.natRepr_eq]
  rw [Nat.length_toDigits_le_iff (by decide) (by decide)]
  have h1 := foldl_digits_lt ds hd 0
  simp only [Nat.zero_add, Nat.one_mul] at h1
  exact Nat.lt_of_lt_of_le h1 (Nat.pow_le_pow_right (by decide) hl)

/-- a text that starts with `1`..`9`: its value is `≥ 1` and prints with at most 4300 digits -/
def PosVal (i : Int) : Prop := 1 ≤ i ∧ (intRepr i).length ≤ intMaxStrDigits

theorem pyInt_posVal {t : Str} (ht : PosText t) {i : Int} (h : pyInt t = .ok i) : PosVal i := by
  refine ⟨pyInt_pos ht h, ?_⟩
  obtain ⟨c, r, rfl, h1, h9⟩ := ht
  obtain ⟨hsp, hm, hp, hd, hv⟩ := char_facts h1 h9
  have hstrip : numText (c :: r) = c :: dropWhileEnd isCSpace (r.map foldChar) := numText_pos h1 h9 r
  have hmatch : pyInt.match_1 (fun _ => Bool × List Char) (c :: dropWhileEnd isCSpace (r.map foldChar))
      (fun r => (true, r)) (fun r => (false, r)) (fun r => (false, r))
      = (false, c :: dropWhileEnd isCSpace (r.map foldChar)) := by
    split
    · next heq => injection heq with h2 _; exact absurd h2 hm
    · next heq => injection heq with h2 _; exact absurd h2 hp
    · rfl
  unfold pyInt at h
  simp only [hstrip, hmatch, digitsWithUnderscores, digitsGo, hd, if_true] at h
  cases hg : digitsGo 1 (dropWhileEnd isCSpace (r.map foldChar)) with
  | none => simp [hg] at h
  | some ds =>
    simp only [hg, Option.map_some] at h
    split at h
    · cases h
    · next hlen =>
      injection h with h
      subst h
      simp only [Bool.false_eq_true, if_false]
      show (natRepr (natOfDigits (c :: ds))).length ≤ intMaxStrDigits
      refine natRepr_len_of_digits _ ?_ (by omega)
      intro x hx
      rcases List.mem_cons.1 hx with rfl | hx
      · exact hd
      · exact digitsGo_digits _ _ _ hg x hx

theorem listenerInt_ok {t : Str} {i : Int} (h : listenerInt t = .ok i) : pyInt t = .ok i := by
  unfold listenerInt at h
  cases hp : pyInt t with
  | error e => rw [hp] at h; cases h
  | ok j => rw [hp] at h; exact h

/-! ## what the recogniser returns -/

theorem parseTuples_pos : ∀ (ts : List Tok) (tu : List (Str × Str)) (rest : List Tok),
    (∀ t ∈ ts, GoodTok t) → parseTuples ts = some (tu, rest) → ∀ p ∈ tu, PosText p.1 ∧ PosText p.2 := by
  intro ts
  fun_induction parseTuples ts with
  | case1 a b rest hab ih =>
    intro tu rest' hg h
    cases hr : parseTuples rest with
    | none => simp [hr] at h
    | some p =>
      obtain ⟨r, ts'⟩ := p
      simp only [hr, Option.map_some, Option.some.injEq, Prod.mk.injEq] at h
      obtain ⟨rfl, rfl⟩ := h
      simp only [Bool.and_eq_true] at hab
      intro p hp
      rcases List.mem_cons.1 hp with rfl | hp
      · exact ⟨gtZero_pos (hg a (by simp)) hab.1, gtZero_pos (hg b (by simp)) hab.2⟩
      · exact ih _ _ (fun t ht => hg t (by simp [ht])) hr p hp
  | case2 => intro tu rest' _ h; cases h
  | case3 => intro tu rest' _ h; cases h
  | case4 ts h1 h2 =>
    intro tu rest' _ h
    simp only [Option.some.injEq, Prod.mk.injEq] at h
    obtain ⟨rfl, _⟩ := h
    intro p hp; cases hp

theorem parseProps_pos : ∀ (ts : List Tok) (ps : List (Str × Str)) (rest : List Tok),
    (∀ t ∈ ts, GoodTok t) → parseProps ts = some (ps, rest) → ∀ q ∈ ps, KeyText q.1 ∧ PosText q.2 := by
  intro ts
  fun_induction parseProps ts with
  | case1 rest =>
    intro ps rest' _ h
    simp only [Option.some.injEq, Prod.mk.injEq] at h
    obtain ⟨rfl, rfl⟩ := h
    intro q hq; cases hq
  | case2 k v rest hkv ih =>
    intro ps rest' hg h
    cases hr : parseProps rest with
    | none => simp [hr] at h
    | some p =>
      obtain ⟨r, ts'⟩ := p
      simp only [hr, Option.map_some, Option.some.injEq, Prod.mk.injEq] at h
      obtain ⟨rfl, rfl⟩ := h
      simp only [Bool.and_eq_true] at hkv
      intro q hq
      rcases List.mem_cons.1 hq with rfl | hq
      · exact ⟨isKey_text hkv.1, gtZero_pos (hg v (by simp)) hkv.2⟩
      · exact ih _ _ (fun t ht => hg t (by simp [ht])) hr q hq
  | case3 => intro ps rest' _ h; cases h
  | case4 => intro ps rest' _ h; cases h

/-- index texts and value texts start with `1`..`9`, keys are `mass` / `rad` -/
def GoodAttrs' (ats : List (Str × List (Str × Str))) : Prop :=
  ∀ p ∈ ats, PosText p.1 ∧ ∀ q ∈ p.2, KeyText q.1 ∧ PosText q.2

theorem parseAttrs_pos : ∀ (ts : List Tok) (ats : List (Str × List (Str × Str))) (rest : List Tok),
    (∀ t ∈ ts, GoodTok t) → parseAttrs ts = some (ats, rest) → GoodAttrs' ats := by
  intro ts
  fun_induction parseAttrs ts with
  | case1 i k v rest hc ps rest' hps hlen ih =>
    intro ats rest'' hg h
    cases hr : parseAttrs rest' with
    | none => simp [hr] at h
    | some p =>
      obtain ⟨r, ts'⟩ := p
      simp only [hr, Option.map_some, Option.some.injEq, Prod.mk.injEq] at h
      obtain ⟨rfl, rfl⟩ := h
      obtain ⟨_, h2⟩ := parseProps_spec _ _ _ hps
      have h1 := parseProps_pos _ _ _ (fun t ht => hg t (by simp [ht])) hps
      simp only [Bool.and_eq_true] at hc
      have hg' : ∀ t ∈ rest', GoodTok t := fun t ht => hg t (by have := h2 ht; simp [this])
      have := ih _ _ hg' hr
      intro p hp
      rcases List.mem_cons.1 hp with rfl | hp
      · refine ⟨gtZero_pos (hg i (by simp)) hc.1.1, ?_⟩
        intro q hq
        rcases List.mem_cons.1 hq with rfl | hq
        · exact ⟨isKey_text hc.1.2, gtZero_pos (hg v (by simp)) hc.2⟩
        · exact h1 q hq
      · exact this p hp
  | case2 => intro ats rest'' hg h; cases h
  | case3 => intro ats rest'' hg h; cases h
  | case4 => intro ats rest'' hg h; cases h
  | case5 => intro ats rest'' hg h; cases h
  | case6 =>
    intro ats rest'' hg h
    simp only [Option.some.injEq, Prod.mk.injEq] at h
    obtain ⟨rfl, rfl⟩ := h
    intro p hp; cases hp

theorem parseTucan_pos {ts : List Tok} {ast : Ast} (hg : ∀ t ∈ ts, GoodTok t)
    (h : parseTucan ts = some ast) :
    (∀ p ∈ ast.tuples, PosText p.1 ∧ PosText p.2) ∧ GoodAttrs' ast.attrs := by
  unfold parseTucan at h
  cases hf : parseFormula ts with
  | none => simp [hf] at h
  | some p =>
    obtain ⟨f, ts1⟩ := p
    obtain ⟨hf1, hf2⟩ := parseFormula_spec hf
    simp only [hf, Option.bind_eq_bind, Option.bind_some] at h
    split at h
    · next ts2 =>
      have hg2 : ∀ t ∈ ts2, GoodTok t := fun t ht => hg t (hf2 (List.mem_cons_of_mem _ ht))
      cases ht : parseTuples ts2 with
      | none => simp [ht] at h
      | some p =>
        obtain ⟨tu, ts3⟩ := p
        have ht2 := parseTuples_subset _ _ _ ht
        have htp := parseTuples_pos _ _ _ hg2 ht
        simp only [ht, Option.bind_some] at h
        split at h
        · simp only [Option.some.injEq] at h
          subst h
          exact ⟨htp, fun p hp => by cases hp⟩
        · next ts4 =>
          cases ha : parseAttrs ts4 with
          | none => simp [ha] at h
          | some p =>
            obtain ⟨ats, ts5⟩ := p
            simp only [ha, Option.bind_some] at h
            split at h
            · simp only [Option.some.injEq] at h
              subst h
              refine ⟨htp, parseAttrs_pos _ _ _ ?_ ha⟩
              intro t ht4
              exact hg2 t (ht2 (List.mem_cons_of_mem _ ht4))
            · cases h
        · cases h
    · cases h

/-! ## the listeners -/

theorem foldlM_ok_inv {α β} {P : β → Prop} {Q : α → Prop} (f : β → α → PyM β)
    (hf : ∀ a, Q a → ∀ b b', P b → f b a = .ok b' → P b') :
    ∀ (l : List α), (∀ a ∈ l, Q a) → ∀ b r, P b → l.foldlM f b = .ok r → P r := by
  intro l
  induction l with
  | nil =>
    intro _ b r hb h
    cases h
    exact hb
  | cons a l ih =>
    intro hl b r hb h
    rw [List.foldlM_cons] at h
    obtain ⟨b', h1, h2⟩ := bind_ok h
    exact ih (fun x hx => hl x (List.mem_cons_of_mem _ hx)) b' r
      (hf a (hl a List.mem_cons_self) b b' hb h1) h2

/-- an atom as `listenFormula` creates it -/
def FAtom (a : Atom) : Prop :=
  ∃ (s : Str) (z : Nat), elementZ s = some z ∧ a = { sym := some s, z := some (z : Int), part := some 0 }

theorem listenFormula_ok {f : List (Str × Option Str)} {atoms : List Atom}
    (h : listenFormula f = .ok atoms) : ∀ a ∈ atoms, FAtom a := by
  unfold listenFormula at h
  refine foldlM_ok_inv (P := fun (atoms : List Atom) => ∀ a ∈ atoms, FAtom a) (Q := fun _ => True)
    _ ?_ f (fun _ _ => trivial) [] atoms (by intro a ha; cases ha) h
  rintro ⟨sym, cnt⟩ _ acc acc' hacc hs
  simp only at hs
  cases hez : elementZ sym with
  | none =>
    rw [hez] at hs
    cases cnt with
    | none => cases hs
    | some c =>
      obtain ⟨count, _, hs⟩ := bind_ok hs
      cases hs
  | some z' =>
    rw [hez] at hs
    have key : ∀ count : Int, acc' = acc ++ List.replicate count.toNat
        ({ sym := some sym, z := some (z' : Int), part := some 0 } : Atom) → ∀ a ∈ acc', FAtom a := by
      intro count he a ha
      subst he
      rcases List.mem_append.1 ha with ha | ha
      · exact hacc a ha
      · exact ⟨sym, z', hez, (List.mem_replicate.1 ha).2⟩
    cases cnt with
    | none => cases hs; exact key 1 rfl
    | some c =>
      obtain ⟨count, _, hs⟩ := bind_ok hs
      cases hs
      exact key count rfl

theorem listenTuples_ok {tu : List (Str × Str)} (htu : ∀ p ∈ tu, PosText p.1 ∧ PosText p.2)
    {bonds : List (Int × Int)} (h : listenTuples tu = .ok bonds) :
    ∀ b ∈ bonds, 0 ≤ b.1 ∧ 0 ≤ b.2 ∧ b.1 ≠ b.2 := by
  unfold listenTuples at h
  refine foldlM_ok_inv (P := fun (bonds : List (Int × Int)) => ∀ b ∈ bonds, 0 ≤ b.1 ∧ 0 ≤ b.2 ∧ b.1 ≠ b.2)
    (Q := fun (p : Str × Str) => PosText p.1 ∧ PosText p.2)
    _ ?_ tu htu [] bonds (by intro a ha; cases ha) h
  rintro ⟨a, b⟩ ⟨ha, hb⟩ acc acc' hacc hs
  obtain ⟨i1, h1, hs⟩ := bind_ok hs
  obtain ⟨i2, h2, hs⟩ := bind_ok hs
  have p1 := (pyInt_posVal ha (listenerInt_ok h1)).1
  have p2 := (pyInt_posVal hb (listenerInt_ok h2)).1
  split at hs
  · cases hs
  · next hne =>
    cases hs
    simp only [beq_iff_eq] at hne
    intro x hx
    rcases List.mem_append.1 hx with hx | hx
    · exact hacc x hx
    · rw [List.mem_singleton.1 hx]
      refine ⟨?_, ?_, ?_⟩ <;> simp only <;> omega

/-- an attribute record as `listenAttrs` builds it -/
def AttrRec (x : Atom) : Prop :=
  OnlyMassRad x ∧ (∀ v, x.mass = some v → PosVal v) ∧ (∀ v, x.rad = some v → PosVal v)

theorem attrRec_empty : AttrRec {} :=
  ⟨⟨rfl, rfl, rfl, rfl, rfl, rfl, rfl, rfl, rfl, rfl⟩, fun _ h => (by cases h), fun _ h => (by cases h)⟩

theorem setAttr_ok {key : String} (hk : key = "mass" ∨ key = "rad") {v : Int} (hv : PosVal v) {a a' : Atom}
    (ha : AttrRec a) (h : setAttr key v a = .ok a') : AttrRec a' := by
  unfold setAttr at h
  obtain ⟨⟨a1, a2, a3, a4, a5, a6, a7, a8, a9, a10⟩, hm, hr⟩ := ha
  rcases hk with rfl | rfl
  · simp only [beq_self_eq_true, if_true] at h
    split at h
    · cases h
    · cases h
      refine ⟨⟨a1, a2, a3, a4, a5, a6, a7, a8, a9, a10⟩, ?_, hr⟩
      intro w hw
      cases hw
      exact hv
  · have : ("rad" == "mass") = false := by decide
    simp only [this, Bool.false_eq_true, if_false, beq_self_eq_true, if_true] at h
    split at h
    · cases h
    · cases h
      refine ⟨⟨a1, a2, a3, a4, a5, a6, a7, a8, a9, a10⟩, hm, ?_⟩
      intro w hw
      cases hw
      exact hv

theorem nodup_ainsert {κ ν} [BEq κ] [LawfulBEq κ] (k : κ) (v : ν) : ∀ (l : List (κ × ν)),
    (l.map (·.1)).Nodup → ((ainsert k v l).map (·.1)).Nodup
  | [], _ => by simp [ainsert]
  | (k', v') :: r, h => by
    simp only [ainsert]
    split
    · next hk =>
      have := eq_of_beq hk
      subst this
      exact h
    · next hk =>
      rw [List.map_cons, List.nodup_cons] at h ⊢
      refine ⟨?_, nodup_ainsert k v r h.2⟩
      intro hm
      obtain ⟨p, hp, hpk⟩ := List.mem_map.1 hm
      rcases mem_ainsert hp with rfl | hp
      · simp only at hpk
        subst hpk
        simp at hk
      · exact h.1 (List.mem_map.2 ⟨p, hp, hpk⟩)

def AttrsOk (na : List (Int × Atom)) : Prop :=
  (na.map (·.1)).Nodup ∧ ∀ p ∈ na, 0 ≤ p.1 ∧ AttrRec p.2

theorem listenAttrs_ok {ats : List (Str × List (Str × Str))} (hats : GoodAttrs' ats)
    {na : List (Int × Atom)} (h : listenAttrs ats = .ok na) : AttrsOk na := by
  unfold listenAttrs at h
  refine foldlM_ok_inv (P := AttrsOk)
    (Q := fun (p : Str × List (Str × Str)) => PosText p.1 ∧ ∀ q ∈ p.2, KeyText q.1 ∧ PosText q.2)
    _ ?_ ats hats [] na ⟨List.nodup_nil, by intro a ha; cases ha⟩ h
  rintro ⟨idx, props⟩ ⟨hidx, hprops⟩ acc acc' hacc hs
  refine foldlM_ok_inv (P := AttrsOk) (Q := fun (q : Str × Str) => KeyText q.1 ∧ PosText q.2)
    _ ?_ props hprops acc acc' hacc hs
  rintro ⟨k, v⟩ ⟨hk, hv⟩ acc acc' ⟨hnd, hacc⟩ hs
  obtain ⟨i, hi, hs⟩ := bind_ok hs
  obtain ⟨value, hval, hs⟩ := bind_ok hs
  have hkey' : ∃ key, (key = "mass" ∨ key = "rad") ∧ attrKeyOf k = some key := by
    rcases hk with hk | hk
    · simp only at hk
      subst hk
      exact ⟨_, Or.inl rfl, attrKeyOf_keys.1⟩
    · simp only at hk
      subst hk
      exact ⟨_, Or.inr rfl, attrKeyOf_keys.2⟩
  obtain ⟨key, hkey', hak⟩ := hkey'
  rw [hak] at hs
  obtain ⟨key0, hk0, hs⟩ := bind_ok hs
  cases hk0
  obtain ⟨cur', hcur, hs⟩ := bind_ok hs
  cases hs
  have hi1 := (pyInt_posVal hidx (listenerInt_ok hi)).1
  have hvp := pyInt_posVal hv (listenerInt_ok hval)
  have hc : AttrRec ((alookup (i - 1) acc).getD {}) := by
    cases hl : alookup (i - 1) acc with
    | none => exact attrRec_empty
    | some a => exact (hacc _ (alookup_mem hl)).2
  refine ⟨nodup_ainsert _ _ _ hnd, ?_⟩
  intro p hp
  rcases mem_ainsert hp with rfl | hp
  · exact ⟨by show 0 ≤ i - 1; omega, setAttr_ok hkey' hvp hc hcur⟩
  · exact hacc p hp

/-! ## the bound checks of `to_graph` -/

theorem forIn_ok_all {α β} {Q : α → Prop} (f : α → β → PyM (ForInStep β))
    (hf : ∀ a b s, f a b = .ok s → Q a ∧ ∃ b', s = .yield b') :
    ∀ (l : List α) (b r : β), forIn l b f = .ok r → ∀ a ∈ l, Q a := by
  intro l
  induction l with
  | nil => intro _ _ _ a ha; cases ha
  | cons x l ih =>
    intro b r h a ha
    rw [List.forIn_cons] at h
    obtain ⟨s, h1, h2⟩ := bind_ok h
    obtain ⟨hq, b', rfl⟩ := hf x b s h1
    rcases List.mem_cons.1 ha with rfl | ha
    · exact hq
    · exact ih b' r h2 a ha

theorem toGraph_ok_bounds {st : ListenerState} {g : Graph} (h : toGraph st = .ok g) :
    (∀ b ∈ st.bonds, b.1 < st.atoms.length ∧ b.2 < st.atoms.length) ∧
    (∀ e ∈ st.nodeAttrs, e.1 < st.atoms.length) := by
  unfold toGraph at h
  obtain ⟨u, h1, h2⟩ := bind_ok h
  obtain ⟨d, h3, h4⟩ := bind_ok h2
  refine ⟨forIn_ok_all _ ?_ _ _ _ h1, forIn_ok_all _ ?_ _ _ _ h3⟩
  · rintro ⟨i1, i2⟩ b s hs
    simp only at hs ⊢
    split at hs
    · cases hs
    · next c1 =>
      split at hs
      · cases hs
      · next c2 =>
        cases hs
        exact ⟨⟨by omega, by omega⟩, _, rfl⟩
  · rintro ⟨idx, extra⟩ b s hs
    simp only at hs ⊢
    split at hs
    · cases hs
    · next c1 =>
      split at hs
      · cases hs
      · cases hs
        exact ⟨by omega, _, rfl⟩


/-! ## assembly -/

theorem table_symOfZ :
    Tables.elementTable.all (fun e => symOfZ (e.2 : Int) == some e.1.toList) = true := by
  decide +kernel

theorem symOfZ_of_elementZ {s : Str} {z : Nat} (h : elementZ s = some z) : symOfZ (z : Int) = some s := by
  unfold elementZ at h
  have hm := alookup_mem h
  have := List.all_eq_true.1 table_symOfZ _ hm
  simp only [beq_iff_eq] at this
  rw [this, String.toList_ofList]

/-- the listener state of an accepted string, with everything the listeners guarantee -/
theorem state_strong (s : Str) (g : Graph) (h : graphFromTucan s = .ok g) :
    ∃ toks ast st, lex s = some toks ∧ parseTucan toks = some ast ∧
      listenFormula ast.formula = .ok st.atoms ∧ listenTuples ast.tuples = .ok st.bonds ∧
      listenAttrs ast.attrs = .ok st.nodeAttrs ∧ toGraph st = .ok g ∧ GoodState st ∧
      (∀ a ∈ st.atoms, FAtom a) ∧ (∀ e ∈ st.nodeAttrs, AttrRec e.2) := by
  unfold graphFromTucan at h
  cases hl : lex s with
  | none => rw [hl] at h; cases h
  | some toks =>
    rw [hl] at h
    simp only [pure_bind] at h
    cases hp : parseTucan toks with
    | none => rw [hp] at h; cases h
    | some ast =>
      rw [hp] at h
      obtain ⟨atoms, ha, h⟩ := bind_ok h
      obtain ⟨bonds, hb, h⟩ := bind_ok h
      obtain ⟨na, hn, h⟩ := bind_ok h
      obtain ⟨htu, hats⟩ := parseTucan_pos (lex_good hl) hp
      have fa := listenFormula_ok ha
      have fb := listenTuples_ok htu hb
      obtain ⟨fnd, fn⟩ := listenAttrs_ok hats hn
      obtain ⟨gb, gn⟩ := toGraph_ok_bounds h
      refine ⟨toks, ast, ⟨atoms, bonds, na⟩, rfl, hp, ha, hb, hn, h, ⟨?_, ?_, ?_, fnd⟩, fa,
        fun e he => (fn e he).2⟩
      · intro a hm
        obtain ⟨s', z, _, rfl⟩ := fa a hm
        rfl
      · intro b hm
        obtain ⟨b1, b2, b3⟩ := fb b hm
        obtain ⟨b4, b5⟩ := gb b hm
        exact ⟨b1, b4, b2, b5, b3⟩
      · intro e hm
        exact ⟨(fn e hm).1, gn e hm, (fn e hm).2.1⟩

theorem molAtom_out {a e x : Atom} (ha : FAtom a) (he : AttrRec e)
    (hx : addInvariantCode (a.update e) = .ok x) : MolAtom x ∧ x.part = some 0 := by
  obtain ⟨s, z, hez, rfl⟩ := ha
  obtain ⟨⟨e1, e2, e3, e4, e5, e6, e7, e8, e9, e10⟩, hm, hr⟩ := he
  cases e
  simp only at e1 e2 e3 e4 e5 e6 e7 e8 e9 e10 hm hr
  subst e1 e2 e3 e4 e5 e6 e7 e8 e9 e10
  unfold addInvariantCode Atom.update at hx
  simp only [Option.orElse_eq_orElse, Option.orElse_eq_or, Option.or_some, Option.getD_none,
    Option.or_none, Option.or_self, Except.ok.injEq] at hx
  subst hx
  refine ⟨⟨⟨z, rfl, (symOfZ_of_elementZ hez).symm, rfl, ?_, ?_⟩, ⟨s, rfl⟩, ?_, ?_⟩, rfl⟩
  · intro h0
    exact absurd (hm 0 h0).1 (by decide)
  · intro h0
    exact absurd (hr 0 h0).1 (by decide)
  · intro v hv
    exact ⟨Int.lt_of_lt_of_le (by decide) (hm v hv).1, (hm v hv).2⟩
  · intro v hv
    exact ⟨Int.lt_of_lt_of_le (by decide) (hr v hv).1, (hr v hv).2⟩

end Tucan.POut

namespace Tucan

/-- the listener state of an accepted string -/
theorem graphFromTucan_state (s : Str) (g : Graph) (h : graphFromTucan s = .ok g) :
    ∃ toks ast st, lex s = some toks ∧ parseTucan toks = some ast ∧
      listenFormula ast.formula = .ok st.atoms ∧ listenTuples ast.tuples = .ok st.bonds ∧
      listenAttrs ast.attrs = .ok st.nodeAttrs ∧ toGraph st = .ok g ∧ GoodState st := by
  obtain ⟨toks, ast, st, h1, h2, h3, h4, h5, h6, h7, _⟩ := POut.state_strong s g h
  exact ⟨toks, ast, st, h1, h2, h3, h4, h5, h6, h7⟩

/-- **The parser's output is a molecule graph.** -/
theorem graphFromTucan_mol (s : Str) (g : Graph) (h : graphFromTucan s = .ok g) :
    g.WF ∧ g.Simple ∧ g.MolAtoms ∧ (∃ n, g.labels = List.range n) ∧
    (∀ a ∈ g.labels, ∃ x, g.attrs? a = some x ∧ x.part = some 0) := by
  obtain ⟨toks, ast, st, _, _, _, _, _, hg, hgood, hfa, hna⟩ := POut.state_strong s g h
  obtain ⟨g', e0, hl, hw, hs, hat, _⟩ := toGraph_spec st hgood
  rw [hg] at e0
  cases e0
  have hnode : ∀ i, i < st.atoms.length → ∃ x, g.attrs? i = some x ∧ MolAtom x ∧ x.part = some 0 := by
    intro i hi
    obtain ⟨x, hx1, hx2⟩ := hat i hi
    have hi' : i < (sortAtomsByZ st.atoms).length := by rw [PDen.sorted_length]; exact hi
    have hfa' : POut.FAtom ((sortAtomsByZ st.atoms)[i]?.getD {}) := by
      rw [List.getElem?_eq_getElem hi', Option.getD_some]
      exact hfa _ (List.mem_mergeSort.1 (List.getElem_mem hi'))
    have hrec : POut.AttrRec (extraOf st i) := by
      unfold extraOf
      cases hlk : alookup (i : Int) st.nodeAttrs with
      | none => exact POut.attrRec_empty
      | some e => exact hna _ (RejectKind.alookup_mem hlk)
    exact ⟨x, hx2, POut.molAtom_out hfa' hrec hx1⟩
  refine ⟨hw, hs, ?_, ⟨_, hl⟩, ?_⟩
  · intro a ha x hx
    rw [hl] at ha
    obtain ⟨y, hy, hm, _⟩ := hnode a (List.mem_range.1 ha)
    rw [hy] at hx
    cases hx
    exact hm
  · intro a ha
    rw [hl] at ha
    obtain ⟨y, hy, _, hp⟩ := hnode a (List.mem_range.1 ha)
    exact ⟨y, hy, hp⟩

end Tucan
