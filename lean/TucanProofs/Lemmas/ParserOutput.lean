import TucanProofs.Lemmas.ParserDenotation
import TucanProofs.Lemmas.RoundTrip
/-!
# What the parser returns is a molecule graph

Every graph `graph_from_tucan` returns comes from a listener state of the shape `GoodState` (so
`toGraph_spec` describes it), is well formed and simple, has the labels `0 … n-1`, and its atoms are
chemistry-level atoms in the round trip's domain (`MolAtoms`): element symbol and atomic number from the
table, invariant code `(Z, mass or 0, rad or 0)`, mass / radical either absent or strictly positive.
-/
namespace Tucan

/-- the listener state of an accepted string -/
theorem graphFromTucan_state (s : Str) (g : Graph) (h : graphFromTucan s = .ok g) :
    ∃ toks ast st, lex s = some toks ∧ parseTucan toks = some ast ∧
      listenFormula ast.formula = .ok st.atoms ∧ listenTuples ast.tuples = .ok st.bonds ∧
      listenAttrs ast.attrs = .ok st.nodeAttrs ∧ toGraph st = .ok g ∧ GoodState st := by
  sorry

/-- **The parser's output is a molecule graph.** -/
theorem graphFromTucan_mol (s : Str) (g : Graph) (h : graphFromTucan s = .ok g) :
    g.WF ∧ g.Simple ∧ g.MolAtoms ∧ (∃ n, g.labels = List.range n) ∧
    (∀ a ∈ g.labels, ∃ x, g.attrs? a = some x ∧ x.part = some 0) := by
  sorry

end Tucan
