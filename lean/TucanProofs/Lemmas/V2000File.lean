import TucanProofs.Lemmas.V2000
/-!
# The V2000 reader on a whole connection table

An abstract V2000 file: three header lines, the counts line, fixed-column atom lines (with an atom-block
charge code), fixed-column bond lines, atom-list lines, a property block (any mixture of `M  CHG`, `M  RAD`,
`M  ISO` and unrelated lines), `M  END`, and anything after it.  The reader returns the atoms in file
order with the stated element (D/T = hydrogen-2/3), coordinates, and charge / radical / mass as the charge
code and the property block determine them (`C08_property_block`), and one bond per bond line.
-/
namespace Tucan

/-- a 10-character coordinate field -/
def v2Coord (f : Str) : Str := if (stripSp f).isEmpty then ['0'] else strip f

structure V2Atom where
  fx : Str
  fy : Str
  fz : Str
  sym : Str           -- as written: an element symbol, `D` or `T`
  code : Int          -- atom-block charge code
  z : Int             -- the atomic number of the denoted element
  tail : Str          -- the rest of the line (further fixed-width fields), any text

structure V2Atom.Ok (a : V2Atom) : Prop where
  fx : a.fx.length = 10 ∧ ((stripSp a.fx).isEmpty ∨ pyFloatOk a.fx = true)
  fy : a.fy.length = 10 ∧ ((stripSp a.fy).isEmpty ∨ pyFloatOk a.fy = true)
  fz : a.fz.length = 10 ∧ ((stripSp a.fz).isEmpty ∨ pyFloatOk a.fz = true)
  sym : a.sym.length ≤ 3 ∧ a.sym ≠ [] ∧ ' ' ∉ a.sym
  z : atomicNumberOf (detectHydrogenIsotopes a.sym).1 = .ok a.z
  code : (intRepr a.code).length ≤ 3

/-- `xxxxx.xxxxyyyyy.yyyyzzzzz.zzzz aaaddcccsss…` -/
def V2Atom.line (a : V2Atom) : Str :=
  a.fx ++ a.fy ++ a.fz ++ ' ' :: (a.sym ++ List.replicate (3 - a.sym.length) ' ') ++ cs " 0" ++ pad3 a.code ++ a.tail

/-- the record the atom block yields for one atom line (before the property block is applied) -/
def V2Atom.record (a : V2Atom) : Atom :=
  { sym := some (detectHydrogenIsotopes a.sym).1, z := some a.z, part := some 0,
    x := some (v2Coord a.fx), y := some (v2Coord a.fy), zc := some (v2Coord a.fz),
    chg := (chargeCode a.code).1, rad := (chargeCode a.code).2,
    mass := if (detectHydrogenIsotopes a.sym).2 = 0 then none else some (detectHydrogenIsotopes a.sym).2 }

structure V2Bond where
  a : Int            -- 1-based atom numbers
  b : Int
  t : Int            -- bond type
  tail : Str

def V2Bond.line (b : V2Bond) : Str := pad3 b.a ++ pad3 b.b ++ pad3 b.t ++ b.tail

/-- what the property block does to the atom dictionary (`parseAttributeBlock_spec`) -/
def applyBlock (bl : List BlockLine) (atoms : List (Int × Atom)) : List (Int × Atom) :=
  atoms.map fun (k, a) =>
    let asg := allAssignments bl
    let base := if hasChgOrRad bl then { a with chg := none, rad := none } else a
    (k, { base with
      chg := nonZero (lastAssigned asg .chg k) <|> base.chg,
      rad := nonZero (lastAssigned asg .rad k) <|> base.rad,
      mass := nonZero (lastAssigned asg .mass k) <|> base.mass })

/-- a line that the property-block scan skips -/
def SkippedLine (l : Str) : Prop :=
  startsWith l (cs "M  CHG") = false ∧ startsWith l (cs "M  RAD") = false ∧
  startsWith l (cs "M  ISO") = false ∧ l ≠ cs "M  END"

/-- **The V2000 connection table.** -/
theorem graphAttributesV2000_spec (h0 h1 h2 countsTail : Str) (atoms : List V2Atom) (bonds : List V2Bond)
    (lists : List Str) (bl : List BlockLine) (blockLines : List Str) (tail : List Str)
    (hatoms : ∀ a ∈ atoms, a.Ok)
    (hna : (intRepr (atoms.length : Int)).length ≤ 3) (hnb : (intRepr (bonds.length : Int)).length ≤ 3)
    (hnl : (intRepr (lists.length : Int)).length ≤ 3)
    (hbonds : ∀ b ∈ bonds, (intRepr b.a).length ≤ 3 ∧ (intRepr b.b).length ≤ 3 ∧ (intRepr b.t).length ≤ 3 ∧
      1 ≤ b.a ∧ b.a ≤ atoms.length ∧ 1 ≤ b.b ∧ b.b ≤ atoms.length)
    (hskipB : ∀ b ∈ bonds, SkippedLine b.line) (hskipL : ∀ l ∈ lists, SkippedLine l)
    (hblock : RendersAll (atoms.zipIdx.map fun (a, i) => ((i : Int), a.record)) bl blockLines) :
    graphAttributesV2000
        (h0 :: h1 :: h2 :: (pad3 atoms.length ++ pad3 bonds.length ++ pad3 lists.length ++ countsTail) ::
          (atoms.map V2Atom.line ++ bonds.map V2Bond.line ++ lists ++ blockLines ++ cs "M  END" :: tail)) =
      .ok (applyBlock bl (atoms.zipIdx.map fun (a, i) => ((i : Int), a.record)),
           bonds.foldl (fun d b => ainsert (b.a - 1, b.b - 1) ({ btype := some b.t } : Bond) d) []) := by
  sorry

end Tucan
