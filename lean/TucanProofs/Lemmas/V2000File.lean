import TucanProofs.Lemmas.V2000
/-!
# The V2000 reader on a whole connection table

An abstract V2000 file: three header lines, the counts line, fixed-column atom lines (with an atom-block
charge code), fixed-column bond lines, atom-list lines, a property block (any mixture of `M  CHG`, `M  RAD`,
`M  ISO` and unrelated lines), `M  END`, and anything after it.  The reader returns the atoms in file
order with the stated element (D/T = hydrogen-2/3), coordinates, and charge / radical / mass as the charge
code and the property block determine them (`C08_property_block`), and one bond per bond line.
-/
namespace Tucan

/-- a 10-character coordinate field -/
def v2Coord (f : Str) : Str := if (stripSp f).isEmpty then ['0'] else strip f

structure V2Atom where
  fx : Str
  fy : Str
  fz : Str
  sym : Str           -- as written: an element symbol, `D` or `T`
  code : Int          -- atom-block charge code
  z : Int             -- the atomic number of the denoted element
  tail : Str          -- the rest of the line (further fixed-width fields), any text

structure V2Atom.Ok (a : V2Atom) : Prop where
  fx : a.fx.length = 10 ∧ ((stripSp a.fx).isEmpty ∨ pyFloatOk a.fx = true)
  fy : a.fy.length = 10 ∧ ((stripSp a.fy).isEmpty ∨ pyFloatOk a.fy = true)
  fz : a.fz.length = 10 ∧ ((stripSp a.fz).isEmpty ∨ pyFloatOk a.fz = true)
  sym : a.sym.length ≤ 3 ∧ a.sym ≠ [] ∧ ' ' ∉ a.sym
  z : atomicNumberOf (detectHydrogenIsotopes a.sym).1 = .ok a.z
  code : (intRepr a.code).length ≤ 3

/-- `xxxxx.xxxxyyyyy.yyyyzzzzz.zzzz aaaddcccsss…` -/
def V2Atom.line (a : V2Atom) : Str :=
  a.fx ++ a.fy ++ a.fz ++ ' ' :: (a.sym ++ List.replicate (3 - a.sym.length) ' ') ++ cs " 0" ++ pad3 a.code ++ a.tail

/-- the record the atom block yields for one atom line (before the property block is applied) -/
def V2Atom.record (a : V2Atom) : Atom :=
  { sym := some (detectHydrogenIsotopes a.sym).1, z := some a.z, part := some 0,
    x := some (v2Coord a.fx), y := some (v2Coord a.fy), zc := some (v2Coord a.fz),
    chg := (chargeCode a.code).1, rad := (chargeCode a.code).2,
    mass := if (detectHydrogenIsotopes a.sym).2 = 0 then none else some (detectHydrogenIsotopes a.sym).2 }

structure V2Bond where
  a : Int            -- 1-based atom numbers
  b : Int
  t : Int            -- bond type
  tail : Str

def V2Bond.line (b : V2Bond) : Str := pad3 b.a ++ pad3 b.b ++ pad3 b.t ++ b.tail

/-- what the property block does to the atom dictionary (`parseAttributeBlock_spec`) -/
def applyBlock (bl : List BlockLine) (atoms : List (Int × Atom)) : List (Int × Atom) :=
  atoms.map fun (k, a) =>
    let asg := allAssignments bl
    let base := if hasChgOrRad bl then { a with chg := none, rad := none } else a
    (k, { base with
      chg := nonZero (lastAssigned asg .chg k) <|> base.chg,
      rad := nonZero (lastAssigned asg .rad k) <|> base.rad,
      mass := nonZero (lastAssigned asg .mass k) <|> base.mass })

/-- a line that the property-block scan skips -/
def SkippedLine (l : Str) : Prop :=
  startsWith l (cs "M  CHG") = false ∧ startsWith l (cs "M  RAD") = false ∧
  startsWith l (cs "M  ISO") = false ∧ l ≠ cs "M  END"

namespace V2F
open V2000 LineM

/-! ### §1 lists and slices -/

theorem sliceInt_nat {α} (l : List α) (a b : Int) (a' b' : Nat) (ha : a = a') (hb : b = b')
    (ha' : a' ≤ l.length) (hb' : b' ≤ l.length) : sliceInt l a b = (l.drop a').take (b' - a') := by
  subst ha hb
  unfold sliceInt
  have h1 : ¬ ((a' : Int) < 0) := by omega
  have h2 : ¬ ((b' : Int) < 0) := by omega
  simp only [if_neg h1, if_neg h2]
  have e1 : (min (a' : Int) (l.length : Int)).toNat = a' := by omega
  have e2 : (min (b' : Int) (l.length : Int)).toNat = b' := by omega
  rw [e1, e2]

theorem mapM_map_ok {α β γ} (h : α → β) (f : β → PyM γ) (g : α → γ) : ∀ (l : List α),
    (∀ x ∈ l, f (h x) = .ok (g x)) → (l.map h).mapM f = .ok (l.map g)
  | [], _ => rfl
  | x :: l, hx => by
    rw [List.map_cons, List.mapM_cons, hx x (by simp), mapM_map_ok h f g l (fun y hy => hx y (by simp [hy]))]
    rfl

/-! ### §2 one atom line -/

theorem stripSp_sym (s : Str) (hne : s ≠ []) (h : ' ' ∉ s) (k : Nat) :
    stripSp (s ++ List.replicate k ' ') = s := by
  have hall : ∀ c ∈ s, (c == ' ') = false := by
    intro c hc
    cases hcc : c == ' ' with
    | false => rfl
    | true => rw [beq_iff_eq] at hcc; subst hcc; exact absurd hc h
  unfold stripSp
  have h1 : (s ++ List.replicate k ' ').dropWhile (· == ' ') = s ++ List.replicate k ' ' := by
    cases s with
    | nil => exact absurd rfl hne
    | cons c r =>
      simp only [List.cons_append, List.dropWhile, hall c (by simp)]
  rw [h1]
  unfold dropWhileEnd
  rw [List.reverse_append, List.reverse_replicate, dropWhile_replicate_append (· == ' ') (by decide),
    dropWhile_of_all _ (by intro c hc; exact hall c (List.mem_reverse.1 hc)), List.reverse_reverse]

theorem toFloat_field (f : Str) (h : (stripSp f).isEmpty ∨ pyFloatOk f = true) :
    toFloatV2000 f = .ok (v2Coord f) := by
  unfold toFloatV2000 v2Coord
  cases he : (stripSp f).isEmpty with
  | true => simp
  | false =>
    rw [he] at h
    have : pyFloatOk f = true := by simpa using h
    simp [pyFloat, this]

theorem parseAtomLine (a : V2Atom) (h : a.Ok) : parseAtomLineV2000 a.line = .ok a.record := by
  obtain ⟨⟨lx, hx⟩, ⟨ly, hy⟩, ⟨lz, hz⟩, ⟨ls, hsne, hsp⟩, hzz, hc⟩ := h
  have lS : (a.sym ++ List.replicate (3 - a.sym.length) ' ').length = 3 := by
    simp only [List.length_append, List.length_replicate]; omega
  have l0 : (cs " 0").length = 2 := rfl
  have s1 : slice a.line 0 10 = a.fx :=
    slice_mid _ [] a.fx (a.fy ++ a.fz ++ ' ' :: (a.sym ++ List.replicate (3 - a.sym.length) ' ') ++ cs " 0"
      ++ pad3 a.code ++ a.tail) 0 10 (by simp [V2Atom.line]) rfl (by omega)
  have s2 : slice a.line 10 20 = a.fy :=
    slice_mid _ a.fx a.fy (a.fz ++ ' ' :: (a.sym ++ List.replicate (3 - a.sym.length) ' ') ++ cs " 0"
      ++ pad3 a.code ++ a.tail) 10 20 (by simp [V2Atom.line]) lx (by omega)
  have s3 : slice a.line 20 30 = a.fz :=
    slice_mid _ (a.fx ++ a.fy) a.fz (' ' :: (a.sym ++ List.replicate (3 - a.sym.length) ' ') ++ cs " 0"
      ++ pad3 a.code ++ a.tail) 20 30 (by simp [V2Atom.line]) (by rw [List.length_append]; omega) (by omega)
  have s4 : slice a.line 31 34 = a.sym ++ List.replicate (3 - a.sym.length) ' ' :=
    slice_mid _ (a.fx ++ a.fy ++ a.fz ++ [' ']) (a.sym ++ List.replicate (3 - a.sym.length) ' ')
      (cs " 0" ++ pad3 a.code ++ a.tail) 31 34 (by simp [V2Atom.line])
      (by simp only [List.length_append, List.length_singleton]; omega) (by rw [lS])
  have s5 : slice a.line 36 39 = pad3 a.code :=
    slice_mid _ (a.fx ++ a.fy ++ a.fz ++ ' ' :: (a.sym ++ List.replicate (3 - a.sym.length) ' ') ++ cs " 0")
      (pad3 a.code) a.tail 36 39 (by simp [V2Atom.line])
      (by simp only [List.length_append, List.length_cons, lS, l0]; omega) (by rw [pad3_length _ hc])
  unfold parseAtomLineV2000 V2Atom.record
  simp only [s1, s2, s3, s4, s5, stripSp_sym _ hsne hsp, toFloat_field _ hx, toFloat_field _ hy,
    toFloat_field _ hz, toIntV2000_pad3 _ hc]
  rcases hd : detectHydrogenIsotopes a.sym with ⟨sym, iso⟩
  rw [hd] at hzz
  simp only [hzz, ok_bind]
  rcases hcc : chargeCode a.code with ⟨chg, rad⟩
  by_cases hi : iso = 0 <;> simp [hi, pure, Except.pure]

/-! ### §3 the atom block -/

/-- the atom dictionary the atom block yields -/
abbrev atomDict (atoms : List V2Atom) : List (Int × Atom) :=
  atoms.zipIdx.map fun (a, i) => ((i : Int), a.record)

theorem atomBlock (atoms : List V2Atom) (h : ∀ a ∈ atoms, a.Ok) :
    ((atoms.map V2Atom.line).zipIdx.mapM fun (l, i) => do
      let a ← parseAtomLineV2000 l
      pure ((i : Int), a)) = .ok (atomDict atoms) := by
  rw [List.zipIdx_map]
  apply mapM_map_ok
  rintro ⟨a, i⟩ hm
  have := parseAtomLine a (h a (List.fst_mem_of_mem_zipIdx hm))
  simp only [Prod.map, id, this, ok_bind]
  rfl

/-! ### §4 the bond block -/

theorem alookup_zipIdx : ∀ (atoms : List V2Atom) (n : Nat) (k : Int), (n : Int) ≤ k → k < n + atoms.length →
    (alookup k ((atoms.zipIdx n).map fun (a, i) => ((i : Int), a.record))).isSome = true
  | [], n, k, h1, h2 => by simp at h2; omega
  | a :: l, n, k, h1, h2 => by
    rw [List.zipIdx_cons, List.map_cons]
    simp only [alookup]
    by_cases hk : (n : Int) = k
    · simp [hk]
    · have : ((n : Int) == k) = false := by simpa using hk
      simp only [this, Bool.false_eq_true, if_false]
      apply alookup_zipIdx l (n + 1) k
      · omega
      · simp only [List.length_cons] at h2; omega

theorem parseBondLine (b : V2Bond) (atoms0 : List (Int × Atom))
    (ha : (intRepr b.a).length ≤ 3) (hb : (intRepr b.b).length ≤ 3) (ht : (intRepr b.t).length ≤ 3)
    (ea : (alookup (b.a - 1) atoms0).isSome = true) (eb : (alookup (b.b - 1) atoms0).isSome = true) :
    parseBondLineV2000 b.line atoms0 = .ok ((b.a - 1, b.b - 1), { btype := some b.t }) := by
  have s1 : slice b.line 0 3 = pad3 b.a :=
    slice_mid _ [] (pad3 b.a) (pad3 b.b ++ pad3 b.t ++ b.tail) 0 3 (by simp [V2Bond.line]) rfl
      (by rw [pad3_length _ ha])
  have s2 : slice b.line 3 6 = pad3 b.b :=
    slice_mid _ (pad3 b.a) (pad3 b.b) (pad3 b.t ++ b.tail) 3 6 (by simp [V2Bond.line]) (pad3_length _ ha)
      (by rw [pad3_length _ hb])
  have s3 : slice b.line 6 9 = pad3 b.t :=
    slice_mid _ (pad3 b.a ++ pad3 b.b) (pad3 b.t) b.tail 6 9 (by simp [V2Bond.line])
      (by rw [List.length_append, pad3_length _ ha, pad3_length _ hb]) (by rw [pad3_length _ ht])
  have na : (alookup (b.a - 1) atoms0).isNone = false := by
    cases h : alookup (b.a - 1) atoms0 with
    | none => rw [h] at ea; cases ea
    | some a => rfl
  have nb : (alookup (b.b - 1) atoms0).isNone = false := by
    cases h : alookup (b.b - 1) atoms0 with
    | none => rw [h] at eb; cases eb
    | some a => rfl
  unfold parseBondLineV2000
  simp only [s1, s2, s3, toIntV2000_pad3 _ ha, toIntV2000_pad3 _ hb, toIntV2000_pad3 _ ht, ok_bind, na, nb,
    Bool.false_eq_true, if_false]
  rfl

/-! ### §5 the scan starts inside the bond / list lines -/

theorem rendersAll_skip (atoms0 : List (Int × Atom)) (bl : List BlockLine) (lines : List Str)
    (h : RendersAll atoms0 bl lines) : ∀ (sk : List Str), (∀ l ∈ sk, SkippedLine l) →
    RendersAll atoms0 (List.replicate sk.length .other ++ bl) (sk ++ lines)
  | [], _ => h
  | l :: sk, hs =>
    RendersAll.cons (hs l (by simp)) (rendersAll_skip atoms0 bl lines h sk (fun x hx => hs x (by simp [hx])))

theorem allAssignments_skip (k : Nat) (bl : List BlockLine) :
    allAssignments (List.replicate k .other ++ bl) = allAssignments bl := by
  induction k with
  | zero => rfl
  | succ k ih =>
    rw [List.replicate_succ, List.cons_append]
    simp [allAssignments]

theorem hasChgOrRad_skip (k : Nat) (bl : List BlockLine) :
    hasChgOrRad (List.replicate k .other ++ bl) = hasChgOrRad bl := by
  induction k with
  | zero => rfl
  | succ k ih =>
    rw [List.replicate_succ, List.cons_append]
    simp [hasChgOrRad]

theorem attrBlock (atoms0 : List (Int × Atom)) (bl : List BlockLine) (sk blockLines tail : List Str)
    (hs : ∀ l ∈ sk, SkippedLine l) (h : RendersAll atoms0 bl blockLines) :
    parseAttributeBlock (sk ++ blockLines ++ cs "M  END" :: tail) atoms0 = .ok (applyBlock bl atoms0) := by
  rw [parseAttributeBlock_spec atoms0 _ _ tail (rendersAll_skip atoms0 bl blockLines h sk hs)]
  simp only [allAssignments_skip, hasChgOrRad_skip]
  rfl

/-! ### §6 assembly -/

theorem graphAttributesV2000_eq (lines : List Str) : graphAttributesV2000 lines =
    getIdx lines 3 >>= fun l3 => toIntV2000 (slice l3 0 3) >>= fun atomCount =>
    toIntV2000 (slice l3 3 6) >>= fun bondCount => toIntV2000 (slice l3 6 9) >>= fun listsCount =>
    ((sliceInt lines 4 (4 + atomCount)).zipIdx.mapM fun (l, i) => do
      let a ← parseAtomLineV2000 l
      pure ((i : Int), a)) >>= fun atoms0 =>
    ((sliceInt lines (4 + atomCount) (4 + atomCount + bondCount)).mapM fun l => parseBondLineV2000 l atoms0)
      >>= fun bondList =>
    parseAttributeBlock (sliceInt lines (4 + atomCount + listsCount) lines.length) atoms0 >>= fun atoms =>
    pure (atoms, bondList.foldl (fun d (k, b) => ainsert k b d) []) := rfl

/-- the three windows of the line list -/
theorem windows (h0 h1 h2 c : Str) (A B Ls R : List Str) :
    let L := h0 :: h1 :: h2 :: c :: (A ++ B ++ Ls ++ R)
    sliceInt L 4 (4 + (A.length : Int)) = A ∧
    sliceInt L (4 + (A.length : Int)) (4 + (A.length : Int) + (B.length : Int)) = B ∧
    sliceInt L (4 + (A.length : Int) + (Ls.length : Int)) L.length = (B ++ Ls).drop Ls.length ++ R := by
  intro L
  have hL : L.length = 4 + A.length + B.length + Ls.length + R.length := by
    simp only [L, List.length_cons, List.length_append]; omega
  have hd : L.drop 4 = A ++ (B ++ (Ls ++ R)) := by simp [L]
  refine ⟨?_, ?_, ?_⟩
  · rw [sliceInt_nat L 4 (4 + (A.length : Int)) 4 (4 + A.length) (by omega) (by omega) (by omega) (by omega), hd,
      Nat.add_sub_cancel_left, List.take_left]
  · rw [sliceInt_nat L (4 + (A.length : Int)) (4 + (A.length : Int) + (B.length : Int)) (4 + A.length) (4 + A.length + B.length) (by omega) (by omega) (by omega) (by omega),
      ← List.drop_drop, hd, List.drop_left, Nat.add_sub_cancel_left, List.take_left]
  · rw [sliceInt_nat L (4 + (A.length : Int) + (Ls.length : Int)) L.length (4 + A.length + Ls.length) L.length (by omega) rfl (by omega) (by omega),
      List.take_of_length_le (by rw [List.length_drop]; omega), Nat.add_assoc, ← List.drop_drop, hd,
      ← List.drop_drop, List.drop_left, ← List.append_assoc,
      List.drop_append_of_le_length (by rw [List.length_append]; omega)]

end V2F

/-- **The V2000 connection table.** -/
theorem graphAttributesV2000_spec (h0 h1 h2 countsTail : Str) (atoms : List V2Atom) (bonds : List V2Bond)
    (lists : List Str) (bl : List BlockLine) (blockLines : List Str) (tail : List Str)
    (hatoms : ∀ a ∈ atoms, a.Ok)
    (hna : (intRepr (atoms.length : Int)).length ≤ 3) (hnb : (intRepr (bonds.length : Int)).length ≤ 3)
    (hnl : (intRepr (lists.length : Int)).length ≤ 3)
    (hbonds : ∀ b ∈ bonds, (intRepr b.a).length ≤ 3 ∧ (intRepr b.b).length ≤ 3 ∧ (intRepr b.t).length ≤ 3 ∧
      1 ≤ b.a ∧ b.a ≤ atoms.length ∧ 1 ≤ b.b ∧ b.b ≤ atoms.length)
    (hskipB : ∀ b ∈ bonds, SkippedLine b.line) (hskipL : ∀ l ∈ lists, SkippedLine l)
    (hblock : RendersAll (atoms.zipIdx.map fun (a, i) => ((i : Int), a.record)) bl blockLines) :
    graphAttributesV2000
        (h0 :: h1 :: h2 :: (pad3 atoms.length ++ pad3 bonds.length ++ pad3 lists.length ++ countsTail) ::
          (atoms.map V2Atom.line ++ bonds.map V2Bond.line ++ lists ++ blockLines ++ cs "M  END" :: tail)) =
      .ok (applyBlock bl (atoms.zipIdx.map fun (a, i) => ((i : Int), a.record)),
           bonds.foldl (fun d b => ainsert (b.a - 1, b.b - 1) ({ btype := some b.t } : Bond) d) []) := by
  have w := V2F.windows h0 h1 h2 (pad3 atoms.length ++ pad3 bonds.length ++ pad3 lists.length ++ countsTail)
    (atoms.map V2Atom.line) (bonds.map V2Bond.line) lists (blockLines ++ cs "M  END" :: tail)
  simp only [List.length_map] at w
  obtain ⟨w1, w2, w3⟩ := w
  -- the counts line
  have c1 : slice (pad3 atoms.length ++ pad3 bonds.length ++ pad3 lists.length ++ countsTail) 0 3 = pad3 atoms.length :=
    V2000.slice_mid _ [] (pad3 atoms.length) (pad3 bonds.length ++ pad3 lists.length ++ countsTail) 0 3 (by simp) rfl
      (by rw [V2000.pad3_length _ hna])
  have c2 : slice (pad3 atoms.length ++ pad3 bonds.length ++ pad3 lists.length ++ countsTail) 3 6 = pad3 bonds.length :=
    V2000.slice_mid _ (pad3 atoms.length) (pad3 bonds.length) (pad3 lists.length ++ countsTail) 3 6 (by simp)
      (V2000.pad3_length _ hna) (by rw [V2000.pad3_length _ hnb])
  have c3 : slice (pad3 atoms.length ++ pad3 bonds.length ++ pad3 lists.length ++ countsTail) 6 9 = pad3 lists.length :=
    V2000.slice_mid _ (pad3 atoms.length ++ pad3 bonds.length) (pad3 lists.length) countsTail 6 9 (by simp)
      (by rw [List.length_append, V2000.pad3_length _ hna, V2000.pad3_length _ hnb]) (by rw [V2000.pad3_length _ hnl])
  -- the bond block
  have hb : ((bonds.map V2Bond.line).mapM fun l => parseBondLineV2000 l (V2F.atomDict atoms)) =
      .ok (bonds.map fun b => ((b.a - 1, b.b - 1), ({ btype := some b.t } : Bond))) := by
    apply V2F.mapM_map_ok
    intro b hm
    obtain ⟨ha, hb, ht, a1, a2, b1, b2⟩ := hbonds b hm
    exact V2F.parseBondLine b _ ha hb ht
      (V2F.alookup_zipIdx atoms 0 (b.a - 1) (by omega) (by omega))
      (V2F.alookup_zipIdx atoms 0 (b.b - 1) (by omega) (by omega))
  -- the attribute block
  have hsk : ∀ l ∈ (bonds.map V2Bond.line ++ lists).drop lists.length, SkippedLine l := by
    intro l hl
    rcases List.mem_append.1 (List.mem_of_mem_drop hl) with h | h
    · obtain ⟨b, hb, rfl⟩ := List.mem_map.1 h
      exact hskipB b hb
    · exact hskipL l h
  have ha := V2F.attrBlock (V2F.atomDict atoms) bl _ blockLines tail hsk hblock
  rw [List.append_assoc _ blockLines, V2F.graphAttributesV2000_eq]
  have g3 : getIdx (h0 :: h1 :: h2 :: (pad3 atoms.length ++ pad3 bonds.length ++ pad3 lists.length ++ countsTail) ::
          (atoms.map V2Atom.line ++ bonds.map V2Bond.line ++ lists ++ (blockLines ++ cs "M  END" :: tail))) 3 =
      .ok (pad3 atoms.length ++ pad3 bonds.length ++ pad3 lists.length ++ countsTail) := rfl
  rw [List.append_assoc] at ha
  rw [g3, LineM.ok_bind, c1, toIntV2000_pad3 _ hna, LineM.ok_bind, c2, toIntV2000_pad3 _ hnb, LineM.ok_bind,
    c3, toIntV2000_pad3 _ hnl, LineM.ok_bind, w1, V2F.atomBlock atoms hatoms, LineM.ok_bind, w2, hb, LineM.ok_bind,
    w3, ha, LineM.ok_bind, List.foldl_map]
  rfl

end Tucan
