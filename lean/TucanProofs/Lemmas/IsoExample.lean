import TucanProofs.Examples
import TucanProofs.Lemmas.Canonical
/-!
# A concrete pair of descriptions of one molecule (non-vacuity of the invariance theorems)

`exGraph` (atoms 0 = ¹³C, 1 = C⁺, 2 = O; bonds 0–1, 1=2; listed 2, 0, 1) and `exGraphR`: the same molecule with
atom `a` renamed `(a + 1) % 3`, listed in another order, neighbours in another order, other bond types, no charge.
`Iso SameIdent exRename exGraph exGraphR` with `exRename ≠ id`, and `exGraph.Chem`.
-/
namespace Tucan

def exRename (a : Nat) : Nat := (a + 1) % 3

def exGraphR : Graph := ⟨[
  ⟨1, exAtomC13, [(2, { btype := some 4 })]⟩,
  ⟨2, { exAtomC with chg := none }, [(0, { btype := some 1 }), (1, { btype := some 4 })]⟩,
  ⟨0, exAtomO, [(2, { btype := some 1 })]⟩]⟩

theorem exGraphR_wf : exGraphR.WF := by
  refine ⟨by decide, ?_, ?_, ?_⟩ <;> decide

theorem exGraphR_simple : exGraphR.Simple := by
  unfold Graph.Simple; decide

theorem exGraph_chem : exGraph.Chem := by
  intro a ha x hx
  have ha' : a = 2 ∨ a = 0 ∨ a = 1 := by simpa [exGraph, Graph.labels] using ha
  rcases ha' with rfl | rfl | rfl
  · have : x = exAtomO := by
      have h : exGraph.attrs? 2 = some exAtomO := by decide
      rw [h] at hx; exact (Option.some.inj hx).symm
    subst this
    exact ⟨8, rfl, by decide, rfl, by decide, by decide⟩
  · have : x = exAtomC13 := by
      have h : exGraph.attrs? 0 = some exAtomC13 := by decide
      rw [h] at hx; exact (Option.some.inj hx).symm
    subst this
    exact ⟨6, rfl, by decide, rfl, by decide, by decide⟩
  · have : x = exAtomC := by
      have h : exGraph.attrs? 1 = some exAtomC := by decide
      rw [h] at hx; exact (Option.some.inj hx).symm
    subst this
    exact ⟨6, rfl, by decide, rfl, by decide, by decide⟩

theorem exGraph_iso : Iso SameIdent exRename exGraph exGraphR := by
  refine ⟨by decide, by decide, ?_, by decide⟩
  intro a ha
  have ha' : a = 2 ∨ a = 0 ∨ a = 1 := by simpa [exGraph, Graph.labels] using ha
  rcases ha' with rfl | rfl | rfl
  · exact ⟨exAtomO, exAtomO, by decide, by decide, rfl, rfl, rfl, rfl, rfl⟩
  · exact ⟨exAtomC13, exAtomC13, by decide, by decide, rfl, rfl, rfl, rfl, rfl⟩
  · exact ⟨exAtomC, { exAtomC with chg := none }, by decide, by decide, rfl, rfl, rfl, rfl, rfl⟩

theorem exRename_ne_id : exRename ≠ id := fun h => absurd (congrFun h 0) (by decide)

end Tucan
