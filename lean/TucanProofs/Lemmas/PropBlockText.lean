import TucanProofs.Lemmas.V2000
/-!
# The V2000 property block, from the writer's side

`RendersAll` (the hypothesis of `C08_property_block`, `C08_connection_table`, `IsV2000File`) relates block lines to
text through the reader's own `parseAtomValueAssignments`.  Here the text is *produced*: a property block is a
list of `PropText` items — `M  CHG`, `M  RAD`, `M  ISO` lines with 1-based atom numbers, laid out by `propLine`
in the fixed columns of the CTfile specification, and unrelated lines — and such a block satisfies `RendersAll`
for the block lines it states.  So the theorems that assume `RendersAll` apply to every block written this way.
-/
namespace Tucan

/-- one line of a property block as a writer states it (atom numbers 1-based, as in the file) -/
inductive PropText
  | chg (entries : List (Int × Int))
  | rad (entries : List (Int × Int))
  | iso (entries : List (Int × Int))
  | other (line : Str)

/-- the text of the line -/
def PropText.line : PropText → Str
  | .chg es => propLine (cs "CHG") es
  | .rad es => propLine (cs "RAD") es
  | .iso es => propLine (cs "ISO") es
  | .other l => l

/-- what the line states: 0-based atom index and value, under the key -/
def PropText.blockLine : PropText → BlockLine
  | .chg es => .assign .chg (es.map fun e => (e.1 - 1, e.2))
  | .rad es => .assign .rad (es.map fun e => (e.1 - 1, e.2))
  | .iso es => .assign .mass (es.map fun e => (e.1 - 1, e.2))
  | .other _ => .other

/-- the entries fit the three-character columns and name atoms of the table -/
def EntriesFit (atoms : List (Int × Atom)) (es : List (Int × Int)) : Prop :=
  (intRepr (es.length : Int)).length ≤ 3 ∧
  (∀ e ∈ es, (intRepr e.1).length ≤ 3 ∧ (intRepr e.2).length ≤ 3) ∧
  ∀ e ∈ es, (alookup (e.1 - 1) atoms).isSome

/-- the line can stand in a property block over the atom table `atoms` -/
def PropText.Fits (atoms : List (Int × Atom)) : PropText → Prop
  | .chg es => EntriesFit atoms es
  | .rad es => EntriesFit atoms es
  | .iso es => EntriesFit atoms es
  | .other l => startsWith l (cs "M  CHG") = false ∧ startsWith l (cs "M  RAD") = false ∧
      startsWith l (cs "M  ISO") = false ∧ l ≠ cs "M  END"

namespace PBT

theorem isPrefixOf_append_of_length_eq (p a x : Str) (h : a.length = p.length) :
    p.isPrefixOf (a ++ x) = (p == a) := by
  induction p generalizing a with
  | nil => cases a with
    | nil => simp
    | cons c a => simp at h
  | cons d p ih => cases a with
    | nil => simp at h
    | cons c a =>
      simp only [List.length_cons, Nat.add_right_cancel_iff] at h
      simp only [List.cons_append, List.isPrefixOf, ih a h, List.cons_beq_cons]

/-- whether a `propLine` starts with a six-character prefix is decided by its first six characters -/
theorem startsWith_propLine (tag : Str) (es : List (Int × Int)) (p : Str)
    (h : (cs "M  " ++ tag).length = p.length) :
    startsWith (propLine tag es) p = (p == cs "M  " ++ tag) := by
  unfold startsWith propLine
  rw [List.append_assoc (cs "M  " ++ tag)]
  exact isPrefixOf_append_of_length_eq _ _ _ h

theorem renders_of_fits (atoms : List (Int × Atom)) (p : PropText) (h : p.Fits atoms) :
    BlockLine.Renders atoms p.blockLine p.line := by
  cases p with
  | chg es =>
    obtain ⟨hn, hf, hex⟩ := h
    refine ⟨?_, parseAtomValueAssignments_propLine _ (by decide) es hn hf atoms hex⟩
    show startsWith (propLine (cs "CHG") es) (cs "M  CHG") = true
    rw [startsWith_propLine _ _ _ (by decide)]; decide
  | rad es =>
    obtain ⟨hn, hf, hex⟩ := h
    refine ⟨⟨?_, ?_⟩, parseAtomValueAssignments_propLine _ (by decide) es hn hf atoms hex⟩
    · show startsWith (propLine (cs "RAD") es) (cs "M  RAD") = true
      rw [startsWith_propLine _ _ _ (by decide)]; decide
    · show startsWith (propLine (cs "RAD") es) (cs "M  CHG") = false
      rw [startsWith_propLine _ _ _ (by decide)]; decide
  | iso es =>
    obtain ⟨hn, hf, hex⟩ := h
    refine ⟨⟨?_, ?_, ?_⟩, parseAtomValueAssignments_propLine _ (by decide) es hn hf atoms hex⟩
    · show startsWith (propLine (cs "ISO") es) (cs "M  ISO") = true
      rw [startsWith_propLine _ _ _ (by decide)]; decide
    · show startsWith (propLine (cs "ISO") es) (cs "M  CHG") = false
      rw [startsWith_propLine _ _ _ (by decide)]; decide
    · show startsWith (propLine (cs "ISO") es) (cs "M  RAD") = false
      rw [startsWith_propLine _ _ _ (by decide)]; decide
  | other l => exact h

end PBT

/-- **A block written with `propLine` is read as what it states.** -/
theorem rendersAll_of_propTexts (atoms : List (Int × Atom)) (ps : List PropText)
    (hfit : ∀ p ∈ ps, p.Fits atoms) :
    RendersAll atoms (ps.map PropText.blockLine) (ps.map PropText.line) := by
  induction ps with
  | nil => exact .nil
  | cons p ps ih =>
    exact .cons (PBT.renders_of_fits atoms p (hfit p (by simp)))
      (ih (fun q hq => hfit q (by simp [hq])))

/-- non-vacuity: a three-line block over a two-atom table -/
theorem propTexts_example :
    ∀ p ∈ [PropText.chg [(2, -1)], PropText.other (cs "M  STY  1   1 SUP"), PropText.iso [(1, 13), (2, 2)]],
      p.Fits [((0 : Int), ({} : Atom)), ((1 : Int), ({} : Atom))] := by
  intro p hp
  simp only [List.mem_cons, List.not_mem_nil, or_false] at hp
  rcases hp with rfl | rfl | rfl
  · refine ⟨by decide, ?_, ?_⟩ <;>
    · intro e he
      simp only [List.mem_cons, List.not_mem_nil, or_false] at he
      subst he
      decide
  · exact ⟨by decide, by decide, by decide, by decide⟩
  · refine ⟨by decide, ?_, ?_⟩ <;>
    · intro e he
      simp only [List.mem_cons, List.not_mem_nil, or_false] at he
      rcases he with rfl | rfl <;> decide


end Tucan
