import TucanProofs.Lemmas.WriteRead
/-!
# From the text of a molfile to its lines, and the choice of reader

`graph_from_molfile_text` splits the text with `str.splitlines()`, reads the version from the last
blank-separated word of line 4 and hands the *lines* to one of the two readers.  So the line-ending style
is invisible to the readers: a file written with `\n`, with `\r\n` or with `\r` after every line — the last
line with or without its terminator — is the same list of lines.
-/
namespace Tucan
open WR

/-- the text of a file whose every line is followed by the terminator `eol` -/
def fileText (eol : Str) (lines : List Str) : Str := (lines.map (· ++ eol)).flatten

/-- the same without a terminator after the last line -/
def fileTextNoTrail (eol : Str) (lines : List Str) : Str := joinWith eol lines

/-- the three line-ending styles in use -/
def IsEol (eol : Str) : Prop := eol = ['\n'] ∨ eol = ['\r', '\n'] ∨ eol = ['\r']

namespace MT

/-- the text does not start with a line feed -/
def NoLFHead (s : Str) : Prop := s.head? ≠ some '\n'

theorem noLFHead_nil : NoLFHead [] := by simp [NoLFHead]

theorem noLFHead_cr (t : Str) : NoLFHead ('\r' :: t) := by
  simp only [NoLFHead, List.head?_cons, ne_eq, Option.some.injEq]; decide

theorem noLFHead_append {l rest : Str} (hl : NoBreak l) (hr : NoLFHead rest) : NoLFHead (l ++ rest) := by
  cases l with
  | nil => simpa using hr
  | cons c r =>
    have hc : isLineBreak c = false := hl c (by simp)
    simp only [NoLFHead, List.cons_append, List.head?_cons, ne_eq, Option.some.injEq]
    rintro rfl
    revert hc; decide

theorem splitLinesGo_skip (cur : Str) (acc : List Str) (s : Str) (h : NoLFHead s) :
    splitLinesGo cur acc true s = splitLinesGo cur acc false s := by
  cases s with
  | nil => rfl
  | cons c r =>
    have hc : (c == '\n') = false := by
      simp only [beq_eq_false_iff_ne, ne_eq]; rintro rfl; exact h (by simp)
    rw [splitLinesGo, splitLinesGo]
    simp [hc]

/-- one line and its terminator -/
theorem splitLinesGo_step (eol : Str) (he : IsEol eol) (l : Str) (hl : NoBreak l) (acc : List Str) (rest : Str)
    (hrest : eol = ['\r'] → NoLFHead rest) :
    splitLinesGo [] acc false (l ++ eol ++ rest) = splitLinesGo [] (l :: acc) false rest := by
  rw [List.append_assoc, splitLinesGo_line l hl [] acc (eol ++ rest), List.append_nil]
  rcases he with rfl | rfl | rfl
  · have hb : isLineBreak '\n' = true := by decide
    have hr : ('\n' == '\r') = false := by decide
    rw [List.singleton_append, splitLinesGo]
    simp only [Bool.false_and, Bool.false_eq_true, if_false, hr, hb, if_true, List.reverse_reverse]
  · have hr : ('\r' == '\r') = true := by decide
    have hn : ('\n' == '\n') = true := by decide
    rw [List.cons_append, List.singleton_append, splitLinesGo]
    simp only [Bool.false_and, Bool.false_eq_true, if_false, hr, if_true, List.reverse_reverse]
    rw [splitLinesGo]
    simp only [Bool.true_and, hn, if_true]
  · have hr : ('\r' == '\r') = true := by decide
    rw [List.singleton_append, splitLinesGo]
    simp only [Bool.false_and, Bool.false_eq_true, if_false, hr, if_true, List.reverse_reverse]
    exact splitLinesGo_skip [] (l :: acc) rest (hrest rfl)

theorem fileText_cons (eol a : Str) (r : List Str) : fileText eol (a :: r) = a ++ eol ++ fileText eol r := by
  simp [fileText]

theorem noLFHead_fileText (lines : List Str) (hnb : ∀ l ∈ lines, NoBreak l) : NoLFHead (fileText ['\r'] lines) := by
  cases lines with
  | nil => simp [fileText, NoLFHead]
  | cons a r =>
    rw [fileText_cons, List.append_assoc]
    exact noLFHead_append (hnb a (by simp)) (noLFHead_cr _)

theorem noLFHead_joinWith (lines : List Str) (hnb : ∀ l ∈ lines, NoBreak l) : NoLFHead (joinWith ['\r'] lines) := by
  match lines with
  | [] => simp [joinWith, NoLFHead]
  | [a] =>
    have := noLFHead_append (hnb a (by simp)) noLFHead_nil
    simpa [joinWith] using this
  | a :: b :: r =>
    have e : joinWith ['\r'] (a :: b :: r) = a ++ ('\r' :: joinWith ['\r'] (b :: r)) := by simp [joinWith]
    rw [e]
    exact noLFHead_append (hnb a (by simp)) (noLFHead_cr _)

theorem splitLinesGo_fileText (eol : Str) (he : IsEol eol) : ∀ (lines : List Str), (∀ l ∈ lines, NoBreak l) →
    ∀ (acc : List Str), splitLinesGo [] acc false (fileText eol lines) = acc.reverse ++ lines := by
  intro lines
  induction lines with
  | nil => intro _ acc; simp [fileText, splitLinesGo]
  | cons a r ih =>
    intro hnb acc
    have hr : ∀ l ∈ r, NoBreak l := fun l hl => hnb l (by simp [hl])
    rw [fileText_cons, splitLinesGo_step eol he a (hnb a (by simp)) acc _
      (by rintro rfl; exact noLFHead_fileText r hr), ih hr]
    simp

theorem splitLinesGo_joinWith (eol : Str) (he : IsEol eol) : ∀ (lines : List Str), (∀ l ∈ lines, NoBreak l) →
    (∀ l, lines.getLast? = some l → l ≠ []) →
    ∀ (acc : List Str), splitLinesGo [] acc false (joinWith eol lines) = acc.reverse ++ lines := by
  intro lines
  induction lines with
  | nil => intro _ _ acc; simp [joinWith, splitLinesGo]
  | cons a r ih =>
    intro hnb hlast acc
    cases r with
    | nil =>
      have ha : a ≠ [] := hlast a (by simp)
      have := splitLinesGo_line a (hnb a (by simp)) [] acc []
      simp only [List.append_nil] at this
      simp only [joinWith, this, splitLinesGo]
      have : a.reverse.isEmpty = false := by simp [ha]
      simp [this]
    | cons b r' =>
      have hr : ∀ l ∈ b :: r', NoBreak l := fun l hl => hnb l (by simp [hl])
      have e : joinWith eol (a :: b :: r') = a ++ eol ++ joinWith eol (b :: r') := by simp [joinWith]
      rw [e, splitLinesGo_step eol he a (hnb a (by simp)) acc _
        (by rintro rfl; exact noLFHead_joinWith _ hr),
        ih hr (fun l hl => hlast l (by simpa using hl))]
      simp

end MT

theorem splitLines_fileText (eol : Str) (he : IsEol eol) (lines : List Str) (hnb : ∀ l ∈ lines, NoBreak l) :
    splitLines (fileText eol lines) = lines := by
  unfold splitLines
  rw [MT.splitLinesGo_fileText eol he lines hnb]; rfl

theorem splitLines_fileTextNoTrail (eol : Str) (he : IsEol eol) (lines : List Str) (hnb : ∀ l ∈ lines, NoBreak l)
    (hlast : ∀ l, lines.getLast? = some l → l ≠ []) :
    splitLines (fileTextNoTrail eol lines) = lines := by
  unfold splitLines fileTextNoTrail
  rw [MT.splitLinesGo_joinWith eol he lines hnb hlast]; rfl

/-- line 4 ends in the word `w`, possibly followed by white space -/
def EndsInWord (l w : Str) : Prop :=
  ∃ pre ws, l = pre ++ ' ' :: w ++ ws ∧ (∀ c ∈ ws, isPySpace c = true) ∧ w ≠ [] ∧ (∀ c ∈ w, isPySpace c = false)

namespace MT

theorem splitOnChar_ne_nil (sep : Char) : ∀ (s : Str), splitOnChar sep s ≠ [] := by
  intro s
  induction s with
  | nil => simp [splitOnChar]
  | cons c r ih =>
    rw [splitOnChar]
    split
    · simp
    · split <;> simp

theorem splitOnChar_append_sep (sep : Char) (b : Str) : ∀ (a : Str),
    splitOnChar sep (a ++ sep :: b) = splitOnChar sep a ++ splitOnChar sep b := by
  intro a
  induction a with
  | nil => simp [splitOnChar]
  | cons c r ih =>
    rw [List.cons_append, splitOnChar, splitOnChar, ih]
    by_cases hc : (c == sep) = true
    · simp [hc]
    · simp only [hc]
      cases hs : splitOnChar sep r with
      | nil => exact absurd hs (splitOnChar_ne_nil sep r)
      | cons p ps => simp

theorem dropWhile_all_append {p : Char → Bool} : ∀ (ws t : Str), (∀ c ∈ ws, p c = true) →
    (ws ++ t).dropWhile p = t.dropWhile p := by
  intro ws t h
  induction ws with
  | nil => rfl
  | cons c r ih =>
    rw [List.cons_append, List.dropWhile, h c (by simp)]
    exact ih (fun x hx => h x (by simp [hx]))

theorem dropWhileEnd_append_all {p : Char → Bool} (x ws : Str) (h : ∀ c ∈ ws, p c = true) :
    dropWhileEnd p (x ++ ws) = dropWhileEnd p x := by
  unfold dropWhileEnd
  rw [List.reverse_append, dropWhile_all_append _ _ (fun c hc => h c (List.mem_reverse.1 hc))]

theorem dropWhileEnd_append_keep {p : Char → Bool} (x w : Str) (hne : w ≠ []) (h : ∀ c ∈ w, p c = false) :
    dropWhileEnd p (x ++ w) = x ++ w := by
  unfold dropWhileEnd
  rw [List.reverse_append]
  cases hw : w.reverse with
  | nil => exact absurd (List.reverse_eq_nil_iff.1 hw) hne
  | cons c r =>
    have hc : p c = false := h c (List.mem_reverse.1 (by rw [hw]; simp))
    rw [List.cons_append, List.dropWhile, hc, ← List.cons_append, ← hw, ← List.reverse_append,
      List.reverse_reverse]

end MT

theorem version_of_line (l w : Str) (h : EndsInWord l w) :
    ((splitOnChar ' ' (rstrip l)).getLast?).getD [] = w := by
  obtain ⟨pre, ws, rfl, hws, hne, hw⟩ := h
  have hr : rstrip (pre ++ ' ' :: w ++ ws) = pre ++ ' ' :: w := by
    unfold rstrip
    rw [MT.dropWhileEnd_append_all _ ws hws]
    have e : pre ++ ' ' :: w = (pre ++ [' ']) ++ w := by simp
    rw [e]
    exact MT.dropWhileEnd_append_keep _ w hne hw
  have hb : ' ' ∉ w := fun hm => by
    have := hw ' ' hm; revert this; decide
  rw [hr, MT.splitOnChar_append_sep, LineM.split_sep_none ' ' w hb]
  simp

/-- **Dispatch.**  A text whose lines are `lines` (any of the three line-ending styles, with or without the
final terminator) and whose fourth line ends in `V3000` is read by the V3000 reader applied to `lines`, a
text whose fourth line ends in `V2000` by the V2000 reader; the graph is then built by `graph_from_molecule`. -/
theorem graphFromMolfileText_dispatch (eol : Str) (he : IsEol eol) (lines : List Str) (hnb : ∀ l ∈ lines, NoBreak l)
    (text : Str) (htext : text = fileText eol lines ∨
      (text = fileTextNoTrail eol lines ∧ ∀ l, lines.getLast? = some l → l ≠ []))
    (l3 : Str) (h3 : lines[3]? = some l3) :
    (EndsInWord l3 (cs "V3000") → graphFromMolfileText text =
      (graphAttributesV3000 lines >>= fun p => graphFromMolecule p.1 p.2 >>= fun q => pure q.1)) ∧
    (EndsInWord l3 (cs "V2000") → graphFromMolfileText text =
      (graphAttributesV2000 lines >>= fun p => graphFromMolecule p.1 p.2 >>= fun q => pure q.1)) := by
  have hsplit : splitLines text = lines := by
    rcases htext with rfl | ⟨rfl, hlast⟩
    · exact splitLines_fileText eol he lines hnb
    · exact splitLines_fileTextNoTrail eol he lines hnb hlast
  have hidx : getIdx lines 3 = .ok l3 := by simp [getIdx, h3]
  have h23 : ¬ (cs "V2000" = cs "V3000") := by simp [cs]
  constructor
  · intro hv
    unfold graphFromMolfileText
    have hver := version_of_line l3 _ hv
    simp only [hsplit, hidx]
    cases hr : graphAttributesV3000 lines with
    | error e => simp [bind, Except.bind, hver]
    | ok ab =>
      obtain ⟨a, b⟩ := ab
      cases hg : graphFromMolecule a b with
      | error e => simp [bind, Except.bind, hg, hver]
      | ok q => obtain ⟨g, x⟩ := q; simp [bind, Except.bind, hg, pure, Except.pure, hver]
  · intro hv
    unfold graphFromMolfileText
    have hver := version_of_line l3 _ hv
    simp only [hsplit, hidx]
    cases hr : graphAttributesV2000 lines with
    | error e => simp [bind, Except.bind, hver, h23]
    | ok ab =>
      obtain ⟨a, b⟩ := ab
      cases hg : graphFromMolecule a b with
      | error e => simp [bind, Except.bind, hg, hver, h23]
      | ok q => obtain ⟨g, x⟩ := q; simp [bind, Except.bind, hg, pure, Except.pure, hver, h23]

end Tucan
