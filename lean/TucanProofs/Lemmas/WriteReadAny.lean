import TucanProofs.Lemmas.WriteRead
import TucanProofs.Lemmas.GraphFromMoleculeKeys
/-!
# Writing and reading back a graph whose nodes are listed in any order

`write_read` (WriteRead.lean) assumes `g.labels = List.range n`: the nodes are listed in label order, as the
readers and the parser produce them.  The results of `relabel_nodes` — canonical graphs in particular — have
the labels `0 … n-1` listed in another order.  The writer prints `label + 1` as the atom index of each atom
line, in listing order, and refers to atoms by `label + 1` in the bond lines; the reader renumbers the atoms
consecutively in file order.  So the graph read back is the written graph with the `i`-th listed node
renamed `i`.
-/
namespace Tucan

namespace WRA

theorem label_lt (g : Graph) (hlab : g.labels.Perm (List.range g.numberOfNodes)) :
    ∀ a ∈ g.labels, a < g.numberOfNodes := by
  intro a ha
  exact List.mem_range.1 (hlab.mem_iff.1 ha)

/-- `WR.bounds` for any listing order: only "every label is `< n`" is used -/
theorem bounds (g : Graph) (hw : g.WF) (hlab : g.labels.Perm (List.range g.numberOfNodes))
    (hbonds : ∀ n ∈ g.nodes, ∀ e ∈ n.nbrs, ∀ bt, e.2.btype = some bt → (intRepr bt).length ≤ intMaxStrDigits)
    (hsize : (natRepr (g.numberOfNodes + g.numberOfEdges + 1)).length ≤ intMaxStrDigits) : WR.Bounds g := by
  have hlt := label_lt g hlab
  refine ⟨WR.natRepr_len_le (by omega) hsize,
    WR.natRepr_len_le (by unfold Graph.numberOfEdges; omega) hsize, ?_, ?_⟩
  · intro n hn
    have := hlt n.id (List.mem_map.2 ⟨n, hn, rfl⟩)
    exact WR.natRepr_len_le (by omega) hsize
  · rintro ⟨u, v, d⟩ he
    have h1 := Graph.mem_edges g hw u v d he
    have hu := hlt u (NxE.mem_labels_of_mem_nbrsD h1)
    have hv := hlt v (NxE.WF.closedD hw h1)
    refine ⟨WR.natRepr_len_le (by simp only; omega) hsize, WR.natRepr_len_le (by simp only; omega) hsize, ?_⟩
    obtain ⟨n, -, hn, -, hm⟩ := NxE.mem_nbrsD h1
    simp only
    cases hbt : d.btype with
    | none => exact LineM.intRepr_small_len 1 (by omega) (by omega)
    | some bt => exact hbonds n hn (v, d) hm bt hbt

theorem atomDict_keys (g : Graph) :
    (WR.atomDict g).map (·.1) = g.labels.map (fun (i : Nat) => (i : Int)) := by
  simp [WR.atomDict, Graph.labels]

theorem atomDict_keys_nodup (g : Graph) (hw : g.WF) : ((WR.atomDict g).map (·.1)).Nodup := by
  rw [atomDict_keys]
  exact NxRelabel.nodup_map_of_injOn _ hw.nodup (fun a _ b _ h => by omega)

theorem keyPos_isSome (g : Graph) (a : Nat) (ha : a ∈ g.labels) :
    (keyPos (WR.atomDict g) (a : Int)).isSome = true := by
  have hm : (a : Int) ∈ (WR.atomDict g).map (·.1) := by
    rw [atomDict_keys]; exact List.mem_map.2 ⟨a, ha, rfl⟩
  obtain ⟨i, hi, -, -⟩ := indexOf?_of_mem (a : Int) _ hm
  unfold keyPos
  rw [hi]; rfl

theorem bondDict_goodKeys (g : Graph) (hw : g.WF) (hs : g.Simple) :
    GoodKeyBonds (WR.atomDict g) (WR.bondDict g.edges) := by
  refine ⟨?_, ?_⟩
  · intro b hb
    obtain ⟨⟨u, v, d⟩, he, rfl⟩ := List.mem_map.1 hb
    have h1 := Graph.mem_edges g hw u v d he
    have hu := NxE.mem_labels_of_mem_nbrsD h1
    have hv := NxE.WF.closedD hw h1
    have hne := NxE.Simple.neD hs h1
    refine ⟨keyPos_isSome g u hu, keyPos_isSome g v hv, ?_⟩
    simp only [WR.bondRec]
    omega
  · have := NxE.edges_norm_nodup hw
    unfold WR.bondDict
    unfold List.Nodup at this ⊢
    rw [List.pairwise_map] at this
    rw [List.pairwise_map, List.pairwise_map]
    refine this.imp ?_
    rintro ⟨u, v, d⟩ ⟨u', v', d'⟩ hne hc
    apply hne
    rw [NxE.norm_eq_norm_iff]
    simp only [WR.bondRec] at hc
    by_cases h1 : (u : Int) ≤ v <;> by_cases h2 : (u' : Int) ≤ v' <;>
      simp only [h1, h2, if_true, if_false, Prod.mk.injEq] at hc <;> omega

theorem atomDict_getElem (g : Graph) (i : Nat) (hi : i < g.nodes.length) :
    ∃ (h : i < (WR.atomDict g).length),
      (WR.atomDict g)[i] = ((g.nodes[i].id : Int), WR.atomRec g.nodes[i]) := by
  refine ⟨by rw [WR.atomDict_length]; exact hi, ?_⟩
  simp [WR.atomDict]

theorem keyPos_node (g : Graph) (hw : g.WF) (i : Nat) (hi : i < g.nodes.length) :
    keyPos (WR.atomDict g) (g.nodes[i].id : Int) = some i := by
  obtain ⟨h, e⟩ := atomDict_getElem g i hi
  have := GFMK.pos_getElem (atomDict_keys_nodup g hw) i h
  rw [e] at this
  exact this

/-- a key at position `i` is the label of the `i`-th listed node -/
theorem key_of_pos (g : Graph) (hw : g.WF) (i : Nat) (hi : i < g.nodes.length) (k : Int)
    (h : keyPos (WR.atomDict g) k = some i) : k = (g.nodes[i].id : Int) :=
  GFMK.pos_inj h (keyPos_node g hw i hi)

end WRA

/-- **Write, then read, for any listing order.** -/
theorem write_read_any_listing (g : Graph) (hw : g.WF) (hs : g.Simple)
    (hlab : g.labels.Perm (List.range g.numberOfNodes))
    (hatoms : ∀ n ∈ g.nodes, WritableAtom n)
    (hbonds : ∀ n ∈ g.nodes, ∀ e ∈ n.nbrs, ∀ bt, e.2.btype = some bt → (intRepr bt).length ≤ intMaxStrDigits)
    (hsize : (natRepr (g.numberOfNodes + g.numberOfEdges + 1)).length ≤ intMaxStrDigits)
    (hdr : Str) (hh : GoodHeader hdr) :
    ∃ lines g', graphToMolfileLines g hdr = .ok lines ∧
      (∀ l ∈ lines, l.length ≤ 79 ∨ l = hdr) ∧
      graphFromMolfileText (joinLines lines) = .ok g' ∧
      g'.labels = List.range g.numberOfNodes ∧ g'.WF ∧ g'.Simple ∧
      (∀ i (hi : i < g.nodes.length), ∃ z, atomicNumberOf ((g.nodes[i].attrs.sym).getD []) = .ok z ∧
          g'.attrs? i = some (readBackAtom g.nodes[i].attrs z)) ∧
      (∀ i j (hi : i < g.nodes.length) (hj : j < g.nodes.length) (bt : Int),
          (j, ({ btype := some bt } : Bond)) ∈ g'.nbrsD i ↔
          ∃ d, (g.nodes[j].id, d) ∈ g.nbrsD g.nodes[i].id ∧ d.btype.getD 1 = bt) := by
  have hb := WRA.bounds g hw hlab hbonds hsize
  have ha : ∀ n ∈ g.nodes, WR.AtomFacts n := fun n hn => WR.atomFacts n (hatoms n hn) (hb.ids n hn)
  have hgood := WR.logicalToks_good g ha
  obtain ⟨g', post, hgfm, hl', hw', hs', hat', hnb'⟩ := graphFromMolecule_keys (WR.atomDict g) (WR.bondDict g.edges)
    (WRA.atomDict_keys_nodup g hw) (WRA.bondDict_goodKeys g hw hs) (by
      intro a ha'
      obtain ⟨n, -, rfl⟩ := List.mem_map.1 ha'
      rfl)
  refine ⟨WR.physLines hdr (WR.logicalToks g), g', WR.writer_shape g hdr ha, WR.physLines_length hdr _, ?_, ?_, hw', hs',
    ?_, ?_⟩
  · unfold graphFromMolfileText
    simp only [WR.physLines_split hdr hh _ hgood]
    have h3 : getIdx (WR.physLines hdr (WR.logicalToks g)) 3 = .ok WR.line3 := by
      simp [getIdx, WR.physLines, WR.hdrLines]
    simp only [h3, LineM.ok_bind, WR.line3_version, beq_self_eq_true, if_true,
      WR.graphAttributes_eval g hdr hh hw ha hb, hgfm]
    rfl
  · rw [hl', WR.atomDict_length]
  · intro i hi
    obtain ⟨hi', hrec⟩ := WRA.atomDict_getElem g i hi
    obtain ⟨x, hx1, hx2⟩ := hat' i hi'
    rw [hrec, WR.addInvariantCode_atomRec] at hx1
    refine ⟨WR.zOf g.nodes[i], (ha _ (List.getElem_mem hi)).z, ?_⟩
    rw [hx2, ← Except.ok.inj hx1]
  · intro i j hi hj bt
    rw [hnb']
    constructor
    · rintro ⟨k, l, hk, hl, h | h⟩
      · have ek := WRA.key_of_pos g hw i hi k hk
        have el := WRA.key_of_pos g hw j hj l hl
        subst ek el
        obtain ⟨⟨u, v, d⟩, he, hr⟩ := List.mem_map.1 h
        simp only [WR.bondRec, Prod.mk.injEq, Bond.mk.injEq, Option.some.injEq] at hr
        obtain ⟨⟨hu, hv⟩, hbt, -⟩ := hr
        have hu' : u = g.nodes[i].id := by omega
        have hv' : v = g.nodes[j].id := by omega
        subst hu' hv'
        exact ⟨d, Graph.mem_edges g hw _ _ _ he, hbt⟩
      · have ek := WRA.key_of_pos g hw i hi k hk
        have el := WRA.key_of_pos g hw j hj l hl
        subst ek el
        obtain ⟨⟨u, v, d⟩, he, hr⟩ := List.mem_map.1 h
        simp only [WR.bondRec, Prod.mk.injEq, Bond.mk.injEq, Option.some.injEq] at hr
        obtain ⟨⟨hu, hv⟩, hbt, -⟩ := hr
        have hu' : u = g.nodes[j].id := by omega
        have hv' : v = g.nodes[i].id := by omega
        subst hu' hv'
        exact ⟨d, NxE.WF.symmD hw (Graph.mem_edges g hw _ _ _ he), hbt⟩
    · rintro ⟨d, hd, hbt⟩
      refine ⟨(g.nodes[i].id : Int), (g.nodes[j].id : Int), WRA.keyPos_node g hw i hi, WRA.keyPos_node g hw j hj, ?_⟩
      rcases Graph.edges_complete g hw _ _ d hd with he | he
      · left
        exact List.mem_map.2 ⟨(g.nodes[i].id, g.nodes[j].id, d), he, by simp [WR.bondRec, hbt]⟩
      · right
        exact List.mem_map.2 ⟨(g.nodes[j].id, g.nodes[i].id, d), he, by simp [WR.bondRec, hbt]⟩

end Tucan
