import TucanProofs.Lemmas.Pipeline
/-!
# The final partition is stable under further refinement — literally

`Equitable r` is the semantic form (atoms of one class see the same multiset of neighbour classes).  Here is the
operational one: running the refinement step (`partition_molecule_by_attribute(·, PARTITION)`) once more on the
refined graph `r` returns, and gives every atom the class it already has.
-/
namespace Tucan
open NxRelabel EqAux

namespace Stab

/-- in a dense graph every class is a natural number below the class count -/
theorem cls_nat {g : Graph} {k : Nat} (hd0 : DenseK g k) {a : Nat} (ha : a ∈ g.labels) :
    ∃ n : Nat, n < k ∧ partOf? g a = some (n : Int) := by
  obtain ⟨p, hp⟩ := Option.isSome_iff_exists.mp (hd0.1 a ha)
  have hb := (hd0.2 p).mp ⟨a, ha, hp⟩
  refine ⟨p.toNat, by omega, ?_⟩
  rw [hp]
  congr 1
  omega

/-- the sequence order is decided by the own class when the own classes differ -/
theorem seq_lt {g : Graph} {a b : Nat} {p q : Int} (hpa : partOf? g a = some p) (hqb : partOf? g b = some q)
    (hlt : p < q) : seqOf g .partition a < seqOf g .partition b := by
  unfold seqOf
  rw [keyD_partition_some hpa, keyD_partition_some hqb]
  exact List.Lex.rel (List.Lex.rel hlt)

/-- a smaller old class gives a smaller new class -/
theorem classOf_lt {g : Graph} {a b : Nat} {p q : Int} (ha : a ∈ g.labels) (hb : b ∈ g.labels)
    (hpa : partOf? g a = some p) (hqb : partOf? g b = some q) (hlt : p < q) :
    classOf g .partition a < classOf g .partition b :=
  rankIn_lt_of_lt (seq_mem ha) (seq_mem hb) (seq_lt hpa hqb hlt)

/-- the new class is at least the old one -/
theorem lower {g : Graph} {k : Nat} (hd0 : DenseK g k) :
    ∀ (n : Nat) (a : Nat), a ∈ g.labels → partOf? g a = some (n : Int) → n ≤ classOf g .partition a
  | 0, _, _, _ => Nat.zero_le _
  | n + 1, a, ha, hpa => by
    have hk : ((n + 1 : Nat) : Int) < k := ((hd0.2 _).mp ⟨a, ha, hpa⟩).2
    obtain ⟨b, hb, hpb⟩ := (hd0.2 (n : Int)).mpr ⟨by omega, by omega⟩
    have h1 := lower hd0 n b hb hpb
    have h2 := classOf_lt hb ha hpb hpa (by omega)
    omega

/-- when the sequence is a function of the class there are at most as many sequences as classes -/
theorem len_le {g : Graph} {k : Nat} (hd0 : DenseK g k)
    (hfun : ∀ a ∈ g.labels, ∀ b ∈ g.labels, partOf? g a = partOf? g b →
      seqOf g .partition a = seqOf g .partition b) :
    (uniqSorted (g.labels.map (seqOf g .partition))).length ≤ k := by
  have hn : ((uniqSorted (g.labels.map (seqOf g .partition))).map hd).Nodup := by
    refine nodup_map_of_injOn hd (uniqSorted_nodup _) ?_
    intro s hs t ht e
    obtain ⟨a, ha, rfl⟩ := List.mem_map.mp ((mem_uniqSorted _ _).mp hs)
    obtain ⟨b, hb, rfl⟩ := List.mem_map.mp ((mem_uniqSorted _ _).mp ht)
    rw [hd_seqOf, hd_seqOf] at e
    exact hfun a ha b hb (partOf?_eq_of_keyD (hd0.1 a ha) (hd0.1 b hb) e)
  have hsub : (uniqSorted (g.labels.map (seqOf g .partition))).map hd ⊆ classKeys k := by
    intro κ hκ
    obtain ⟨s, hs, rfl⟩ := List.mem_map.mp hκ
    obtain ⟨a, ha, rfl⟩ := List.mem_map.mp ((mem_uniqSorted _ _).mp hs)
    obtain ⟨n, hn, hpa⟩ := cls_nat hd0 ha
    rw [hd_seqOf, keyD_partition_some hpa]
    exact List.mem_map.mpr ⟨n, List.mem_range.mpr hn, rfl⟩
  have := nodup_subset_length_le _ _ hn hsub
  simpa [classKeys_length] using this

/-- the new class is at most the old one when no class is split -/
theorem upper {g : Graph} {k : Nat} (hd0 : DenseK g k)
    (hlen : (uniqSorted (g.labels.map (seqOf g .partition))).length ≤ k) :
    ∀ (d n : Nat) (a : Nat), n + d + 1 = k → a ∈ g.labels → partOf? g a = some (n : Int) →
      classOf g .partition a ≤ n
  | 0, n, a, hk, ha, _ => by
    have := (rankIn_spec (seq_mem (attr := .partition) ha)).1
    unfold classOf
    omega
  | d + 1, n, a, hk, ha, hpa => by
    obtain ⟨b, hb, hpb⟩ := (hd0.2 ((n + 1 : Nat) : Int)).mpr ⟨by omega, by omega⟩
    have h1 := upper hd0 hlen d (n + 1) b (by omega) hb hpb
    have h2 := classOf_lt ha hb hpa hpb (by omega)
    omega

/-- in an equitable partition the sequence of an atom is a function of its class -/
theorem seq_of_equitable {g : Graph} (he : Equitable g) :
    ∀ a ∈ g.labels, ∀ b ∈ g.labels, partOf? g a = partOf? g b →
      seqOf g .partition a = seqOf g .partition b := by
  intro a ha b hb e
  unfold seqOf
  rw [keyD_eq_of_partOf? e, he a ha b hb e]

/-- a step on a dense equitable partition reproduces the classes -/
theorem classOf_eq {g : Graph} {k : Nat} (hd0 : DenseK g k) (he : Equitable g) {a : Nat} (ha : a ∈ g.labels) :
    partOf? g a = some (classOf g .partition a : Int) := by
  obtain ⟨n, hn, hpa⟩ := cls_nat hd0 ha
  have h1 := lower hd0 n a ha hpa
  have h2 := upper hd0 (len_le hd0 (seq_of_equitable he)) (k - n - 1) n a (by omega) ha hpa
  rw [hpa]
  congr 2
  omega

end Stab

/-- one more refinement step on the refined graph changes no class -/
theorem refined_stable (order : Graph → List Nat) (g c r : Graph) (k : Nat) (hw : g.WF) (hs : g.Simple)
    (h : canonicalizeWith g order = .ok (c, r, k)) :
    ∃ r', partitionMoleculeByAttribute r .partition = .ok r' ∧ r'.labels = r.labels ∧
      ∀ a ∈ r.labels, partOf? r' a = partOf? r a := by
  obtain ⟨p, hp, hr, _⟩ := canonicalize_unfold h
  obtain ⟨hpl, hpw, hps, _, _⟩ := partition_spec copySpec mapAttrsSpec g .invariantCode hw hs p hp
  have hd : Dense p := by
    by_cases hne : g.labels = []
    · refine ⟨by rw [hpl, hne]; simp, 0, ?_⟩
      intro q; rw [hpl, hne]; simp
    · exact partition_dense copySpec mapAttrsSpec g .invariantCode hw hs hne p hp
  unfold refinePartitions at hr
  obtain ⟨heq, hdr, hrw, hrs, _, _⟩ := refineLoop_equitable copySpec mapAttrsSpec _ p 0 r k hpw hps hd hr
  obtain ⟨k0, hd0⟩ := (dense_iff r).mp hdr
  obtain ⟨r', hr'⟩ := partition_total hrw hd0.1
  have sf := stepFacts copySpec mapAttrsSpec hrw hrs hr'
  refine ⟨r', hr', sf.labels, ?_⟩
  intro a ha
  rw [sf.part a ha, Stab.classOf_eq hd0 heq ha]

end Tucan
