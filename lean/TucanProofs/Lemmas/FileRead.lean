import TucanProofs.Lemmas.MolfileText
/-!
# `graph_from_file`: reading in text mode changes nothing

`graph_from_file(path)` opens the file in text mode, so Python's universal-newlines translation rewrites `\r\n`
and a lone `\r` to `\n` before `graph_from_molfile_text` calls `splitlines`.  `splitlines` treats exactly those
three as the same terminator, so the translation is invisible: for EVERY text the translated text splits into the
same lines, and the graph read from the file is the graph read from its (decoded) content.
-/
namespace Tucan

namespace FRead

theorem go_skip_lf (cur : Str) (acc : List Str) (r : Str) :
    splitLinesGo cur acc true ('\n' :: r) = splitLinesGo cur acc false r := by
  simp [splitLinesGo]

theorem go_skip_other (cur : Str) (acc : List Str) (r : Str) (h : ∀ r', r = '\n' :: r' → False) :
    splitLinesGo cur acc true r = splitLinesGo cur acc false r := by
  cases r with
  | nil => simp [splitLinesGo]
  | cons c r' =>
    have hc : c ≠ '\n' := by
      intro hc; exact h r' (by rw [hc])
    simp [splitLinesGo, hc]

theorem go_universalNewlines (t : Str) : ∀ (cur : Str) (acc : List Str),
    splitLinesGo cur acc false (universalNewlines t) = splitLinesGo cur acc false t := by
  fun_induction universalNewlines t with
  | case1 => intro cur acc; rfl
  | case2 r ih =>
    intro cur acc
    rw [splitLinesGo, splitLinesGo]
    simp [isLineBreak, go_skip_lf, ih]
  | case3 r h ih =>
    intro cur acc
    rw [splitLinesGo, splitLinesGo]
    simp [isLineBreak, ih]
    exact (go_skip_other _ _ r h).symm
  | case4 c r h1 h2 ih =>
    intro cur acc
    have hc : c ≠ '\r' := by
      intro hc; exact h2 hc
    rw [splitLinesGo, splitLinesGo]
    simp only [Bool.false_and, Bool.false_eq_true, if_false, ih]
    have hb : (c == '\r') = false := by simp [hc]
    simp only [hb, Bool.false_eq_true, if_false]

end FRead

/-- **`splitlines` does not see the universal-newlines translation**, for every text. -/
theorem splitLines_universalNewlines (t : Str) : splitLines (universalNewlines t) = splitLines t := by
  exact FRead.go_universalNewlines t [] []

/-- **`graph_from_file` of a `.mol` file is `graph_from_molfile_text` of its decoded content.** -/
theorem graphFromFileContent_eq (t : Str) : graphFromFileContent t = graphFromMolfileText t := by
  unfold graphFromFileContent graphFromMolfileText
  rw [splitLines_universalNewlines]

/-- **`graph_from_file(path)`**: a path whose suffix is `.mol` is read as its decoded content; any other suffix is
refused with `IOError` (`OSError`), whatever the file contains -/
theorem graphFromFile_spec (suffix t : Str) :
    (suffix = cs ".mol" → graphFromFile suffix t = graphFromMolfileText t) ∧
    (suffix ≠ cs ".mol" → graphFromFile suffix t = .error .osError) := by
  unfold graphFromFile
  constructor
  · intro h
    rw [if_neg (by simp [h]), graphFromFileContent_eq]
  · intro h
    rw [if_pos (by simpa using h)]

/-- non-vacuity: the translation does change the text -/
theorem universalNewlines_example :
    universalNewlines ['a', '\r', '\n', 'b', '\r', 'c', '\n'] = ['a', '\n', 'b', '\n', 'c', '\n'] := by
  simp [universalNewlines]

end Tucan
